#ifndef LWV_WRAP_H
#define LWV_WRAP_H
#include <stddef.h>
#include <stdint.h>
#include <time.h>
/* link-time interposition layer (-Wl,--wrap=malloc,realloc,calloc,free,clock_gettime,getrandom) */

/* --- allocation ledger / fault injection (active only while armed) --- */
void lwv_arm(long fail_at, int fail_from_on); /* fail_at < 0: never fail; indices count armed allocation requests from 0 */
void lwv_disarm(void);
long lwv_alloc_requests(void);  /* armed allocation requests so far (malloc/calloc/realloc with size>0 or realloc growth) */
long lwv_live_blocks(void);     /* blocks allocated while armed and not freed yet */
long lwv_bad_frees(void);       /* frees (while armed) of pointers that are neither NULL, live-armed nor pre-existing */
long lwv_faults_fired(void);
void lwv_reset_ledger(void);
const char *lwv_trace(void);    /* textual event trace since last reset: m<size>=ok|NULL r<size>=.. f */
void lwv_set_fill(int pattern); /* -1: leave malloc'd memory as is; 0..255: fill fresh blocks */

/* --- clock / random --- */
void lwv_set_clock(int on, long long sec, long nsec);
void lwv_set_random(int mode, const unsigned char *bytes, size_t n); /* mode 0 real, 1 fixed bytes, 2 short read (n bytes then stop), 3 fail */
long lwv_random_calls(void);
#endif
