#define _GNU_SOURCE
#include "wrap.h"
#include <errno.h>
#include <stdio.h>
#include <stdlib.h>
#include <string.h>
#include <sys/types.h>

void *__real_malloc(size_t);
void *__real_realloc(void *, size_t);
void *__real_calloc(size_t, size_t);
void __real_free(void *);
int __real_clock_gettime(clockid_t, struct timespec *);
ssize_t __real_getrandom(void *, size_t, unsigned int);

static __thread int armed = 0;
static __thread long fail_at = -1;
static __thread int fail_from = 0;
static __thread long requests = 0, faults = 0, badfrees = 0;
static __thread int fill = -1;
#define MAXLIVE 4096
static __thread void *live[MAXLIVE];
static __thread int nlive = 0;
static __thread char trace[8192];
static __thread size_t tlen = 0;

static void tr(const char *fmt, ...) __attribute__((format(printf, 1, 2)));
#include <stdarg.h>
static void tr(const char *fmt, ...) {
    if (tlen + 48 >= sizeof trace) return;
    va_list ap; va_start(ap, fmt);
    int k = vsnprintf(trace + tlen, sizeof trace - tlen, fmt, ap);
    va_end(ap);
    if (k > 0) tlen += (size_t) k;
}
static void add_live(void *p) { if (p && nlive < MAXLIVE) live[nlive++] = p; }
static int del_live(void *p) {
    for (int i = nlive - 1; i >= 0; i--) if (live[i] == p) { live[i] = live[--nlive]; return 1; }
    return 0;
}
static int should_fail(void) {
    long k = requests++;
    if (fail_at >= 0 && (k == fail_at || (fail_from && k > fail_at))) { faults++; return 1; }
    return 0;
}

void lwv_arm(long at, int from_on) { armed = 1; fail_at = at; fail_from = from_on; }
void lwv_disarm(void) { armed = 0; }
long lwv_alloc_requests(void) { return requests; }
long lwv_live_blocks(void) { return nlive; }
long lwv_bad_frees(void) { return badfrees; }
long lwv_faults_fired(void) { return faults; }
void lwv_reset_ledger(void) { requests = faults = badfrees = 0; nlive = 0; tlen = 0; trace[0] = 0; }
const char *lwv_trace(void) { trace[tlen] = 0; return trace; }
void lwv_set_fill(int p) { fill = p; }

void *__wrap_malloc(size_t n) {
    if (!armed) return __real_malloc(n);
    if (should_fail()) { tr("m%zu=NULL ", n); errno = ENOMEM; return NULL; }
    void *p = __real_malloc(n);
    if (p && fill >= 0) memset(p, fill, n);
    add_live(p);
    tr("m%zu=ok ", n);
    return p;
}
void *__wrap_calloc(size_t a, size_t b) {
    if (!armed) return __real_calloc(a, b);
    if (should_fail()) { tr("c%zu=NULL ", a * b); errno = ENOMEM; return NULL; }
    void *p = __real_calloc(a, b);
    add_live(p);
    tr("c%zu=ok ", a * b);
    return p;
}
void *__wrap_realloc(void *old, size_t n) {
    if (!armed) return __real_realloc(old, n);
    if (n == 0) { /* glibc: frees and returns NULL */
        if (old) { if (!del_live(old)) badfrees++; }
        tr("r0=free ");
        return __real_realloc(old, n);
    }
    if (should_fail()) { tr("r%zu=NULL ", n); errno = ENOMEM; return NULL; }
    if (old && !del_live(old)) badfrees++;
    void *p = __real_realloc(old, n);
    add_live(p);
    tr("r%zu=ok ", n);
    return p;
}
void __wrap_free(void *p) {
    if (armed && p) { if (!del_live(p)) badfrees++; tr("f "); }
    __real_free(p);
}

static int clock_on = 0; static long long clk_sec = 0; static long clk_nsec = 0;
void lwv_set_clock(int on, long long sec, long nsec) { clock_on = on; clk_sec = sec; clk_nsec = nsec; }
int __wrap_clock_gettime(clockid_t id, struct timespec *ts) {
    if (!clock_on) return __real_clock_gettime(id, ts);
    /* the injected reading is the wall clock (CLOCK_REALTIME).  Other clock ids are other clocks: the coarse wall
     * clock is the value at the last 4 ms tick one tick ago (it lags the fine clock, as the kernel's does), every other
     * id counts from an unrelated origin.  A timestamp taken from them is not the reading the caller injected. */
    if (id == CLOCK_REALTIME) { ts->tv_sec = (time_t) clk_sec; ts->tv_nsec = clk_nsec; return 0; }
    if (id == CLOCK_REALTIME_COARSE) {
        long long ns = clk_sec * 1000000000LL + clk_nsec;
        ns = ns - ns % 4000000LL - 4000000LL; if (ns < 0) ns = 0;
        ts->tv_sec = (time_t) (ns / 1000000000LL); ts->tv_nsec = (long) (ns % 1000000000LL); return 0;
    }
    ts->tv_sec = (time_t) (clk_sec % 100000); ts->tv_nsec = clk_nsec; return 0;
}

static int rnd_mode = 0; static unsigned char rnd_bytes[64]; static size_t rnd_n = 0; static long rnd_calls = 0;
void lwv_set_random(int mode, const unsigned char *b, size_t n) { rnd_mode = mode; rnd_n = n > 64 ? 64 : n; if (b) memcpy(rnd_bytes, b, rnd_n); rnd_calls = 0; }
long lwv_random_calls(void) { return rnd_calls; }
ssize_t __wrap_getrandom(void *buf, size_t n, unsigned int flags) {
    rnd_calls++;
    if (rnd_mode == 0) return __real_getrandom(buf, n, flags);
    if (rnd_mode == 3) { errno = EAGAIN; return -1; }
    size_t k = n < rnd_n ? n : rnd_n;   /* mode 1: rnd_n >= n expected; mode 2: short read */
    memcpy(buf, rnd_bytes, k);
    return (ssize_t) k;
}
