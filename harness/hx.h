#ifndef LWV_HX_H
#define LWV_HX_H
#include <stdio.h>
#include <stdlib.h>
#include <string.h>
/* the harness's own allocations bypass the allocation ledger / fault injection of wrap.c
 * (with ASan, __real_malloc is ASan's allocator: exact-size blocks keep their red zones) */
void *__real_malloc(size_t); void *__real_calloc(size_t, size_t); void __real_free(void *);
#define hmalloc(n) __real_malloc(n)
#define hcalloc(a, b) __real_calloc(a, b)
#define hfree(p) __real_free(p)
static inline char *hstrdup(const char *s) { size_t l = strlen(s) + 1; char *d = __real_malloc(l); memcpy(d, s, l); return d; }
/* hex helpers; "-" denotes the empty byte string */
static inline int hexval(char c) { return c >= '0' && c <= '9' ? c - '0' : c >= 'a' && c <= 'f' ? c - 'a' + 10 : c >= 'A' && c <= 'F' ? c - 'A' + 10 : -1; }
/* returns an exact-size heap block (ASan red zones on both sides); *n receives the length.
 * For the empty string a 1-byte block is returned and *n = 0 (hmalloc(0) may alias). */
static inline unsigned char *unhex(const char *s, size_t *n) {
    if (!s || !strcmp(s, "-")) { *n = 0; return hmalloc(1); }
    size_t l = strlen(s) / 2;
    unsigned char *b = hmalloc(l ? l : 1);
    for (size_t i = 0; i < l; i++) b[i] = (unsigned char) (hexval(s[2 * i]) * 16 + hexval(s[2 * i + 1]));
    *n = l;
    return b;
}
static inline void phex(const unsigned char *p, size_t n) {
    if (n == 0) { putchar('-'); return; }
    for (size_t i = 0; i < n; i++) printf("%02x", p[i]);
}
#endif
