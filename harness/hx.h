#ifndef LWV_HX_H
#define LWV_HX_H
#include <stdio.h>
#include <stdlib.h>
#include <string.h>
/* the harness's own allocations bypass the allocation ledger / fault injection of wrap.c
 * (with ASan, __real_malloc is ASan's allocator: exact-size blocks keep their red zones) */
void *__real_malloc(size_t); void *__real_calloc(size_t, size_t); void __real_free(void *);
#define hmalloc(n) __real_malloc(n)
#define hcalloc(a, b) __real_calloc(a, b)
/* input buffers may be handed to the library at a deliberately misaligned address (LWV_MISALIGN = k: the input starts
 * k octets into its block, the k leading octets are poisoned under ASan); hfree maps such a pointer back to its block */
extern unsigned char *g_in_ptr, *g_in_base;
static inline void hfree(void *p) { if (p && p == (void *) g_in_ptr && g_in_base) { void *b = g_in_base; g_in_base = NULL; g_in_ptr = NULL; __real_free(b); } else __real_free(p); }
#if defined(__SANITIZE_ADDRESS__)
#include <sanitizer/asan_interface.h>
#define LWV_POISON(p, n) ASAN_POISON_MEMORY_REGION(p, n)
#define LWV_UNPOISON(p, n) ASAN_UNPOISON_MEMORY_REGION(p, n)
#else
#define LWV_POISON(p, n) ((void) 0)
#define LWV_UNPOISON(p, n) ((void) 0)
#endif
static inline char *hstrdup(const char *s) { size_t l = strlen(s) + 1; char *d = __real_malloc(l); memcpy(d, s, l); return d; }
/* hex helpers; "-" denotes the empty byte string */
static inline int hexval(char c) { return c >= '0' && c <= '9' ? c - '0' : c >= 'a' && c <= 'f' ? c - 'a' + 10 : c >= 'A' && c <= 'F' ? c - 'A' + 10 : -1; }
/* returns an exact-size heap block (ASan red zones on both sides); *n receives the length.
 * For the empty string a 1-byte block is returned and *n = 0 (hmalloc(0) may alias). */
/* environment knobs (C13): LWV_TRAIL = extra bytes (0xFF) allocated after every input buffer,
 * LWV_PREFILL = byte the output objects are pre-filled with */
extern size_t g_trail, g_misalign; extern int g_prefill;
/* copy of the most recent input buffer: parsers take `const` inputs, INCHK aborts when one was modified
 * (stated bytes or the trailing environment bytes) */
extern unsigned char *g_in_copy; extern size_t g_in_len;
static inline void in_register(unsigned char *base, unsigned char *b, size_t tot) {
    if (g_in_copy) __real_free(g_in_copy);
    if (g_in_base) { LWV_UNPOISON(g_in_base, g_misalign); __real_free(g_in_base); }   /* an op that never released its input */
    g_in_copy = __real_malloc(tot ? tot : 1); memcpy(g_in_copy, b, tot); g_in_ptr = b; g_in_len = tot; g_in_base = base;
    if (base != b) LWV_POISON(base, (size_t) (b - base));
}
#define INCHK(buf) do { if ((buf) == g_in_ptr && memcmp((buf), g_in_copy, g_in_len)) { fflush(stdout); fprintf(stderr, "ERROR: AddressSanitizer: INPUT-MODIFIED\n"); abort(); } } while (0)
static inline unsigned char *unhex(const char *s, size_t *n) {
    if (!s || !strcmp(s, "-")) { *n = 0; unsigned char *e0 = hmalloc(g_misalign + 1 + g_trail), *e = e0 + g_misalign; memset(e, 0xFF, 1 + g_trail); in_register(e0, e, 1 + g_trail); return e; }
    size_t l = strlen(s) / 2;
    unsigned char *b0 = hmalloc(g_misalign + (l ? l : 1) + g_trail), *b = b0 + g_misalign;
    if (g_trail) memset(b + l, 0xFF, g_trail);
    for (size_t i = 0; i < l; i++) b[i] = (unsigned char) (hexval(s[2 * i]) * 16 + hexval(s[2 * i + 1]));
    *n = l;
    in_register(b0, b, l + g_trail);
    return b;
}
static inline void phex(const unsigned char *p, size_t n) {
    if (n == 0) { putchar('-'); return; }
    for (size_t i = 0; i < n; i++) printf("%02x", p[i]);
}
#endif
