/* every parsing entry point on one byte string (shared by the `sweep3` op and the libFuzzer target).
 * The input is copied into an exact-size heap block (sanitizer red zones on both sides). */
#ifndef LWV_ALLPARSE_H
#define LWV_ALLPARSE_H
#include <libwifi.h>
#include <stdlib.h>
#include <string.h>
#ifndef AP_MALLOC
#define AP_MALLOC malloc
#define AP_FREE free
#endif
struct ap_stats { long accepted, positive; };
static void ap_parse_everything(const unsigned char *data, size_t len, int rt, struct ap_stats *st) {
    unsigned char *buf = AP_MALLOC(len ? len : 1);
    memcpy(buf, data, len);
    struct libwifi_frame fr; memset(&fr, 0xA5, sizeof fr);
    int r = libwifi_get_wifi_frame(&fr, buf, len, rt);
    if (r > 0) st->positive++;
    if (r == 0) {
        st->accepted++;
        struct libwifi_bss b; struct libwifi_sta s; struct libwifi_parsed_deauth de; struct libwifi_parsed_disassoc di; struct libwifi_data d;
        int (*bp[4])(struct libwifi_bss *, struct libwifi_frame *) = { libwifi_parse_beacon, libwifi_parse_probe_resp, libwifi_parse_assoc_resp, libwifi_parse_reassoc_resp };
        int (*sp[3])(struct libwifi_sta *, struct libwifi_frame *) = { libwifi_parse_probe_req, libwifi_parse_assoc_req, libwifi_parse_reassoc_req };
        for (int k = 0; k < 4; k++) { memset(&b, 0xA5, sizeof b); r = bp[k](&b, &fr); if (r > 0) st->positive++; if (r == 0) { char tmp[LIBWIFI_SECURITY_BUF_LEN]; libwifi_get_security_type(&b, tmp); libwifi_get_group_ciphers(&b, tmp); libwifi_get_pairwise_ciphers(&b, tmp); libwifi_get_auth_key_suites(&b, tmp); } libwifi_free_bss(&b); }
        for (int k = 0; k < 3; k++) { memset(&s, 0xA5, sizeof s); r = sp[k](&s, &fr); if (r > 0) st->positive++; libwifi_free_sta(&s); }
        memset(&de, 0xA5, sizeof de); r = libwifi_parse_deauth(&de, &fr); if (r > 0) st->positive++; free(de.tags.parameters);
        memset(&di, 0xA5, sizeof di); r = libwifi_parse_disassoc(&di, &fr); if (r > 0) st->positive++; free(di.tags.parameters);
        memset(&d, 0xA5, sizeof d); r = libwifi_parse_data(&d, &fr); if (r > 0) st->positive++; if (r == 0) libwifi_free_data(&d);
        (void) libwifi_check_wpa_handshake(&fr); (void) libwifi_check_wpa_message(&fr); (void) libwifi_get_wpa_key_data_length(&fr);
        struct libwifi_wpa_auth_data wd; memset(&wd, 0xA5, sizeof wd);
        r = libwifi_get_wpa_data(&fr, &wd); if (r > 0) st->positive++; if (r == 0) libwifi_free_wpa_data(&wd);
    }
    libwifi_free_wifi_frame(&fr);
    struct libwifi_radiotap_info ri; memset(&ri, 0xA5, sizeof ri);
    r = libwifi_parse_radiotap_info(&ri, buf, len); if (r > 0) st->positive++; if (r == 0 && rt) st->accepted++;
    if (len >= 4 && (size_t) (buf[2] | (buf[3] << 8)) <= len) (void) libwifi_parse_radiotap_rssi(buf);
    struct libwifi_tag_iterator it; memset(&it, 0xA5, sizeof it);
    if (libwifi_tag_iterator_init(&it, buf, len) == 0) { int guard = 0; do { volatile unsigned char sink = 0; for (unsigned i = 0; i < it.tag_header->tag_len; i++) sink ^= it.tag_data[i]; (void) sink; } while (libwifi_tag_iterator_next(&it) != -1 && ++guard < 100000); }
    (void) libwifi_crc32(buf, (int) len); (void) libwifi_calculate_fcs(buf, len); (void) libwifi_frame_verify(buf, len);
    AP_FREE(buf);
}
#endif
