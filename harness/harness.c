/* C side of the line protocol (DESIGN.md 2.1, tie 2).  Built on every run together with all
 * .c files of the libwifi working tree.  One output line per input line. */
#define _GNU_SOURCE
#include <errno.h>
#include <limits.h>
#include <stdint.h>
#include <stdio.h>
#include <stdlib.h>
#include <string.h>
#include <unistd.h>
#include "libwifi.h"
#include "hx.h"
unsigned char *g_in_ptr, *g_in_copy, *g_in_base; size_t g_in_len, g_misalign = 0; static int g_errno = 0;
size_t g_trail = 0; int g_prefill = 0xA5; static int g_precall = 0;

/* ---------------------------------------------------------------- helpers */
static int is_readonly_ptr(const void *p) {
    static char *maps = NULL;
    if (!maps) {
        FILE *f = fopen("/proc/self/maps", "r");
        size_t cap = 1 << 20, n = 0;
        maps = hmalloc(cap);
        if (f) { n = fread(maps, 1, cap - 1, f); fclose(f); }
        maps[n] = 0;
    }
    uintptr_t a = (uintptr_t) p;
    char *s = maps;
    while (*s) {
        unsigned long lo, hi; char perms[8];
        if (sscanf(s, "%lx-%lx %7s", &lo, &hi, perms) == 3 && a >= lo && a < hi) return perms[1] != 'w';
        char *nl = strchr(s, '\n');
        if (!nl) break;
        s = nl + 1;
    }
    return 0;
}

/* ---------------------------------------------------------------- ops */
static void op_tagname(char **tok, int n) {
    long long v = n > 1 ? atoll(tok[1]) : 0;
    const char *s = libwifi_get_tag_name((int) v);
    if (!s) { printf("null\n"); return; }
    size_t len = strnlen(s, 4096);
    printf("%s ro=%d\n", len < 4096 ? s : "(unterminated)", is_readonly_ptr(s));
}

/* tagsweep lo hi default n v1 name1 v2 name2 ... : every int in [lo,hi] against the finite table */
static void op_tagsweep(char **tok, int n) {
    long long lo = atoll(tok[1]), hi = atoll(tok[2]);
    const char *def = tok[3];
    int cnt = atoi(tok[4]);
    /* names use '_' for spaces? no: tokens are passed with spaces replaced by \x01 */
    static const char *byval[1 << 16];
    memset(byval, 0, sizeof byval);
    char defbuf[256]; snprintf(defbuf, sizeof defbuf, "%s", def);
    for (char *c = defbuf; *c; c++) if (*c == 1) *c = ' ';
    for (int i = 0; i < cnt && 5 + 2 * i + 1 < n; i++) {
        long long v = atoll(tok[5 + 2 * i]);
        if (v >= -32768 && v < 32768) byval[v + 32768] = tok[5 + 2 * i + 1];
    }
    long long bad = 0, firstbad = 0;
    for (long long v = lo; v <= hi; v++) {
        const char *s = libwifi_get_tag_name((int) v);
        const char *exp = (v >= -32768 && v < 32768 && byval[v + 32768]) ? byval[v + 32768] : defbuf;
        if (!s || strcmp(s, exp) != 0) { if (!bad) firstbad = v; bad++; }
    }
    printf("bad=%lld first=%lld\n", bad, firstbad);
}

#include "ops_gen.inc"
#include <sys/mman.h>
#include "ops_threads.inc"

static int dispatch_all(char **tok, int n) {
    if (!strcmp(tok[0], "tagname")) { op_tagname(tok, n); return 1; }
    if (!strcmp(tok[0], "tagsweep")) { op_tagsweep(tok, n); return 1; }
    return dispatch_more(tok, n);
}

/* alloc <k|none> <0|1> <env> <op...>: run one op with the allocation ledger armed.
 *   k    : index of the library allocation request that fails (none: no failure); second field 1: every request from k on fails
 *   env  : heap fill pattern for fresh library blocks (-1: none)
 * Output: the op's own line, then " || live=<blocks still allocated> bad=<invalid frees> reqs=<requests> faults=<failed> trace=<events>" */
static void op_alloc(char **tok, int n) {
    if (n < 5) { printf("bad-op\n"); return; }
    long k = strcmp(tok[1], "none") ? atol(tok[1]) : -1;
    int from_on = atoi(tok[2]);
    int fillp = atoi(tok[3]);
    fflush(stdout);
    int saved = dup(1);
    int fd = memfd_create("lwvcap", 0);
    dup2(fd, 1);
    lwv_reset_ledger(); lwv_set_fill(fillp); lwv_arm(k, from_on);
    int ok = dispatch_all(tok + 4, n - 4);
    lwv_disarm(); lwv_set_fill(-1);
    fflush(stdout);
    dup2(saved, 1); close(saved);
    off_t sz = lseek(fd, 0, SEEK_END);
    char *cap = hmalloc((size_t) sz + 1);
    lseek(fd, 0, SEEK_SET);
    ssize_t got = read(fd, cap, (size_t) sz); if (got < 0) got = 0;
    cap[got] = 0; close(fd);
    while (got > 0 && (cap[got - 1] == '\n')) cap[--got] = 0;
    for (char *c = cap; *c; c++) if (*c == '\n') *c = '~';
    printf("%s || live=%ld bad=%ld reqs=%ld faults=%ld trace=%s\n", ok ? cap : "bad-op", lwv_live_blocks(), lwv_bad_frees(), lwv_alloc_requests(), lwv_faults_fired(), lwv_trace());
    hfree(cap);
}

/* an unrelated library call made before every op when LWV_PRECALL is set (C13: earlier calls must not matter) */
static void precall(void) {
    struct libwifi_beacon b; unsigned char a[6] = {9, 9, 9, 9, 9, 9}; unsigned char buf[128];
    if (libwifi_create_beacon(&b, a, a, a, "earlier-call", 11) == 0) {
        size_t n = libwifi_dump_beacon(&b, buf, sizeof buf);
        struct libwifi_frame fr; struct libwifi_bss bss;
        if ((ssize_t) n > 0 && libwifi_get_wifi_frame(&fr, buf, n, 0) == 0) { libwifi_parse_beacon(&bss, &fr); libwifi_free_bss(&bss); }
        libwifi_free_wifi_frame(&fr);
    }
    libwifi_free_beacon(&b);
}

int main(void) {
    char *line = NULL; size_t cap = 0; ssize_t len;
    setvbuf(stdout, NULL, _IOFBF, 1 << 20);
    if (getenv("LWV_TRAIL")) g_trail = (size_t) atol(getenv("LWV_TRAIL"));
    if (getenv("LWV_PREFILL")) g_prefill = atoi(getenv("LWV_PREFILL"));
    if (getenv("LWV_MISALIGN")) g_misalign = (size_t) atol(getenv("LWV_MISALIGN")) % 16;
    if (getenv("LWV_PRECALL")) g_precall = atoi(getenv("LWV_PRECALL"));
    if (getenv("LWV_ERRNO")) g_errno = atoi(getenv("LWV_ERRNO"));
    if (getenv("LWV_FILL")) { lwv_set_fill(atoi(getenv("LWV_FILL"))); lwv_arm(-1, 0); }
    while ((len = getline(&line, &cap, stdin)) > 0) {
        while (len > 0 && (line[len - 1] == '\n' || line[len - 1] == '\r')) line[--len] = 0;
        static char *tok[1 << 16];
        int n = 0;
        for (char *p = strtok(line, " "); p && n < (1 << 16); p = strtok(NULL, " ")) tok[n++] = p;
        if (n == 0) { printf("empty\n"); continue; }
        if (g_precall) precall();
        if (g_errno) errno = g_errno;      /* LWV_ERRNO: what an unrelated earlier failure left behind */
        if (!strcmp(tok[0], "threads")) op_threads(tok, n);
        else if (!strcmp(tok[0], "alloc")) op_alloc(tok, n);
        else if (!dispatch_all(tok, n)) printf("bad-op\n");
        fflush(stdout);
    }
    return 0;
}
