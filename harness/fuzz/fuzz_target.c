/* libFuzzer target: first byte selects the radiotap mode, the rest is handed to every parsing entry point */
#include <stddef.h>
#include <stdint.h>
#include "../allparse.h"
int LLVMFuzzerTestOneInput(const uint8_t *data, size_t size) {
    if (size < 1) return 0;
    struct ap_stats st = {0, 0};
    ap_parse_everything(data + 1, size - 1, data[0] & 1, &st);
    if (st.positive) __builtin_trap();
    return 0;
}
