#!/usr/bin/env python3
"""MANIFEST.setup_cmd: regenerate LWV/Gen from /repo and build the Lean library + driver once."""
import os
import sys
sys.path.insert(0, os.path.dirname(os.path.abspath(__file__)))
from common import *  # noqa
import gen

ensure_dirs()
with Lock("gen"):
    meta, _ = gen.generate()
print("gen:", meta["counts"], meta["notes"])
with Lock("lake"):
    rc, out, err = run(["lake", "build"], cwd=LEAN_DIR, timeout=7200)
print((out + err)[-3000:])
sys.exit(rc)
