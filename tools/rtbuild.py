"""Independent radiotap header builder (implements the radiotap.org placement rule directly)."""
# field -> (align, size) per radiotap.org (18 = XChannel is defined by the standard, not by the library)
FIELDS = {0: (8, 8), 1: (1, 1), 2: (1, 1), 3: (2, 4), 4: (2, 2), 5: (1, 1), 6: (1, 1), 7: (2, 2), 8: (2, 2), 9: (2, 2),
          10: (1, 1), 11: (1, 1), 12: (1, 1), 13: (1, 1), 14: (2, 2), 15: (2, 2), 16: (1, 1), 17: (1, 1), 18: (4, 8),
          19: (1, 3), 20: (4, 8), 21: (2, 12), 22: (8, 12)}
DECODED = [1, 2, 3, 5, 10, 11, 14, 15, 16, 17, 19, 22]
CARRIED = [1, 2, 3, 5, 10, 14, 15, 16, 17, 19, 22]


def build(words, rnd, version=0, it_len=None, trailer=b""):
    """words: list of dicts {fields: iterable of bits (0..28), reset: bool, vendor: None|(skip_bytes), values: {bit: bytes}}
    Returns header bytes. Bit 31 is set automatically on all but the last word."""
    present = []
    for i, w in enumerate(words):
        p = 0
        for b in w.get("fields", ()):
            p |= 1 << b
        if w.get("reset"):
            p |= 1 << 29
        if w.get("vendor") is not None:
            p |= 1 << 30
        if i + 1 < len(words) or w.get("ext"):
            p |= 1 << 31
        present.append(p)
    body = bytearray()
    base = 4 + 4 * len(present)
    ns_radiotap = True
    for w in words:
        for b in sorted(w.get("fields", ())):
            if not ns_radiotap:
                continue
            if b not in FIELDS:
                break
            a, sz = FIELDS[b]
            while (base + len(body)) % a:
                body.append(0)
            v = w.get("values", {}).get(b)
            if v is None:
                v = bytes(rnd.getrandbits(8) for _ in range(sz))
            body += v[:sz].ljust(sz, b"\0")
        if w.get("reset"):
            ns_radiotap = True
        if w.get("vendor") is not None:
            while (base + len(body)) % 2:
                body.append(0)
            skip = w["vendor"]
            body += bytes([rnd.getrandbits(8) for _ in range(3)]) + bytes([rnd.getrandbits(8)]) + len(skip).to_bytes(2, "little") + skip
            ns_radiotap = False
    total = 4 + 4 * len(present) + len(body)
    hdr = bytes([version, 0]) + (total if it_len is None else it_len).to_bytes(2, "little")
    for p in present:
        hdr += p.to_bytes(4, "little")
    return hdr + bytes(body) + trailer
