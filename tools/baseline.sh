#!/bin/bash
# Runs the repository's own test-suite (25 ctest tests) against the *working tree* of /repo with the
# verification guard OFF.  The test binaries link against an installed libwifi, so the tree is built
# and installed into a scratch prefix first.  Everything is removed afterwards.
set -euo pipefail
REPO=${LIBWIFI_REPO:-/repo}
S=$(mktemp -d /var/tmp/lwv-baseline.XXXXXX)
trap 'rm -rf "$S"' EXIT
cmake -S "$REPO" -B "$S/build" -G Ninja -DCMAKE_INSTALL_PREFIX="$S/prefix" -DCMAKE_BUILD_TYPE=Release >"$S/cmake.log" 2>&1 || { cat "$S/cmake.log"; exit 2; }
cmake --build "$S/build" >"$S/build.log" 2>&1 || { tail -50 "$S/build.log"; exit 2; }
cmake --install "$S/build" >"$S/install.log" 2>&1 || { tail -20 "$S/install.log"; exit 2; }
# the test CMakeLists hard-codes /usr/local; put the scratch prefix first on every search path
cmake -S "$REPO/test" -B "$S/tests" -G Ninja \
  -DCMAKE_C_FLAGS="-I$S/prefix/include" -DCMAKE_EXE_LINKER_FLAGS="-L$S/prefix/lib -Wl,-rpath,$S/prefix/lib" >"$S/tcmake.log" 2>&1 || { cat "$S/tcmake.log"; exit 2; }
cmake --build "$S/tests" >"$S/tbuild.log" 2>&1 || { tail -50 "$S/tbuild.log"; exit 2; }
cd "$S/tests"
LD_LIBRARY_PATH="$S/prefix/lib" ldd ./beacon_tests | grep -q "$S/prefix/lib/libwifi" || { echo "test binaries do not link against the working-tree build"; LD_LIBRARY_PATH="$S/prefix/lib" ldd ./beacon_tests; exit 2; }
LD_LIBRARY_PATH="$S/prefix/lib" ctest -j8 --timeout 900 2>&1 | tail -40
exit ${PIPESTATUS[0]}
