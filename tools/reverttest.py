#!/usr/bin/env python3
"""Self-test: every repaired defect must be reported again if it returns.

For each `fixed: property=<id> <commit> ...` entry of known_findings.json the fix commit is reverted in
/repo's working tree (reverse patch, `git apply`; nothing is committed), the property's quick check is run
with evidence redirected to .work/, and the tree is restored with `git checkout -- .`.
Writes /verif/seeded/reverts.json.  MUTATES /repo while it runs: do not run checks concurrently.
"""
import json
import os
import re
import subprocess
import sys
import time

HERE = os.path.dirname(os.path.abspath(__file__))
sys.path.insert(0, HERE)
from common import *  # noqa


def sh(cmd, **kw):
    return subprocess.run(cmd, capture_output=True, text=True, **kw)


def main():
    only = set(sys.argv[1:])
    known = json.load(open(os.path.join(VERIF, "known_findings.json")))
    if sh(["git", "-C", REPO, "status", "--porcelain", "--untracked-files=no"]).stdout.strip():
        print("refusing: /repo has uncommitted changes")
        return 2
    out_path = os.path.join(VERIF, "seeded", "reverts.json")
    results = json.load(open(out_path)) if os.path.exists(out_path) else {}
    env = dict(os.environ, LWV_EVIDENCE_DIR=os.path.join(WORK, "seed_evidence"), LWV_REPLAY_DIR=os.path.join(WORK, "seed_replays"))
    for entry in known["fixed"]:
        m = re.match(r"fixed: property=(C\d\d) ([0-9a-f]{7,}) (.*)", entry)
        if not m:
            continue
        prop, commit, what = m.groups()
        if only and commit not in only and prop not in only:
            continue
        key = "%s:%s" % (prop, commit)
        patch = sh(["git", "-C", REPO, "diff", commit, commit + "^", "--", "src"]).stdout
        p = os.path.join(WORK, "revert_%s.diff" % commit)
        open(p, "w").write(patch)
        r = sh(["git", "-C", REPO, "apply", "--3way", p])
        sh(["git", "-C", REPO, "reset", "-q"])          # --3way stages; keep the change in the working tree only
        res = {"property": prop, "commit": commit, "what": what[:200]}
        if r.returncode != 0:
            sh(["git", "-C", REPO, "checkout", "--", "."])
            res["status"] = "revert does not apply on top of later fixes"
            results[key] = res
            print(key, res["status"])
            continue
        try:
            t0 = time.time()
            c = sh(["python3", os.path.join(VERIF, "check.py"), prop, "--tier", "quick"], env=env, timeout=7200)
            vio = [l for l in c.stdout.splitlines() if l.startswith("VIOLATION")]
            res.update({"status": "caught" if c.returncode != 0 else "MISSED", "violations": len(vio),
                        "with_input": sum(1 for v in vio if "no-failing-input-found" not in v),
                        "why": [l.strip()[:300] for l in c.stderr.splitlines() if l.strip().startswith("->")][:1], "wall_s": round(time.time() - t0, 1)})
        finally:
            sh(["git", "-C", REPO, "checkout", "--", "."])
        results[key] = res
        dump_json(out_path, results)
        print(key, res["status"], res.get("with_input"), res.get("why"))
    return 0


if __name__ == "__main__":
    sys.exit(main())
