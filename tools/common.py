"""Shared helpers for the libwifi verification machinery (paths, locking, subprocess)."""
import fcntl
import hashlib
import json
import os
import subprocess
import sys
import time

VERIF = os.path.dirname(os.path.dirname(os.path.abspath(__file__)))
REPO = os.environ.get("LIBWIFI_REPO", "/repo")
WORK = os.path.join(VERIF, ".work")
LEAN_DIR = os.path.join(VERIF, "lean")
GEN_DIR = os.path.join(LEAN_DIR, "LWV", "Gen")
# the self-test (tools/seedtest.py) runs checks against a deliberately broken tree: its evidence must not replace the real one
EVIDENCE_DIR = os.environ.get("LWV_EVIDENCE_DIR") or os.path.join(VERIF, "evidence")
REPLAY_DIR = os.environ.get("LWV_REPLAY_DIR") or os.path.join(VERIF, "replays")
SRC = os.path.join(REPO, "src")

CFLAGS_COMMON = ["-std=gnu17", "-I" + SRC, '-DLIBWIFI_VERSION="verif"', "-DLIBWIFI_VERIF"]


def ensure_dirs():
    for d in (WORK, GEN_DIR, EVIDENCE_DIR, REPLAY_DIR):
        os.makedirs(d, exist_ok=True)


class Lock:
    """Inter-process lock so checks that run in parallel do not trample the shared build."""

    def __init__(self, name="build"):
        ensure_dirs()
        self.path = os.path.join(WORK, name + ".lock")
        self.fd = None

    def __enter__(self):
        self.fd = open(self.path, "w")
        fcntl.flock(self.fd, fcntl.LOCK_EX)
        return self

    def __exit__(self, *a):
        fcntl.flock(self.fd, fcntl.LOCK_UN)
        self.fd.close()


def run(cmd, cwd=None, inp=None, timeout=None, env=None, check=False):
    """Run a command, return (rc, stdout, stderr) with text decoding."""
    e = dict(os.environ)
    if env:
        e.update(env)
    p = subprocess.run(cmd, cwd=cwd, input=inp, capture_output=True, text=True, timeout=timeout, env=e)
    if check and p.returncode != 0:
        raise RuntimeError("command failed (%d): %s\n%s\n%s" % (p.returncode, " ".join(cmd), p.stdout[-4000:], p.stderr[-4000:]))
    return p.returncode, p.stdout, p.stderr


def repo_c_files():
    out = []
    for root, _dirs, files in os.walk(os.path.join(SRC, "libwifi")):
        for f in sorted(files):
            if f.endswith(".c"):
                out.append(os.path.join(root, f))
    return sorted(out)


def repo_source_files():
    out = []
    for root, _dirs, files in os.walk(SRC):
        for f in sorted(files):
            if f.endswith(".c") or f.endswith(".h"):
                out.append(os.path.join(root, f))
    out.append(os.path.join(REPO, "CMakeLists.txt"))
    return sorted(out)


def sha256_file(p):
    h = hashlib.sha256()
    with open(p, "rb") as f:
        h.update(f.read())
    return h.hexdigest()


def source_hashes():
    return {os.path.relpath(p, REPO): sha256_file(p) for p in repo_source_files() if os.path.exists(p)}


def tree_digest():
    h = hashlib.sha256()
    for k, v in sorted(source_hashes().items()):
        h.update(k.encode())
        h.update(v.encode())
    return h.hexdigest()


def write_if_changed(path, content):
    if os.path.exists(path):
        with open(path) as f:
            if f.read() == content:
                return False
    os.makedirs(os.path.dirname(path), exist_ok=True)
    tmp = path + ".tmp%d" % os.getpid()
    with open(tmp, "w") as f:
        f.write(content)
    os.replace(tmp, path)
    return True


def log(*a):
    print(*a, file=sys.stderr, flush=True)


def now():
    return time.time()


def dump_json(path, obj):
    os.makedirs(os.path.dirname(path), exist_ok=True)
    tmp = path + ".tmp%d" % os.getpid()
    with open(tmp, "w") as f:
        json.dump(obj, f, indent=1, sort_keys=False)
        f.write("\n")
    os.replace(tmp, path)
