"""Crafted 802.11 frame builder for the parser suites."""
import zlib

import rtbuild

MGMT = {"assoc_req": 0, "assoc_resp": 1, "reassoc_req": 2, "reassoc_resp": 3, "probe_req": 4, "probe_resp": 5, "beacon": 8,
        "disassoc": 10, "auth": 11, "deauth": 12, "action": 13}
FIXED_LEN = {"beacon": 12, "probe_resp": 12, "assoc_resp": 6, "reassoc_resp": 6, "probe_req": 0, "assoc_req": 4, "reassoc_req": 10, "deauth": 2, "disassoc": 2}
PARSABLE = ["beacon", "probe_resp", "assoc_resp", "reassoc_resp", "probe_req", "assoc_req", "reassoc_req", "deauth", "disassoc"]
BSS_KINDS = ["beacon", "probe_resp", "assoc_resp", "reassoc_resp"]


def tag_body(rnd, l):
    """body bytes of an element handed to the tag API: arbitrary octets, with a share of bodies that hold zero octets
    in front of non-zero ones (binary element data is not a C string)"""
    r = rnd.random()
    if r < 0.5:
        return bytes(rnd.randrange(256) for _ in range(l))
    if r < 0.75:
        return bytes(rnd.choice([0, 0, rnd.randrange(1, 256)]) for _ in range(l))
    return bytes(rnd.randrange(1, 256) for _ in range(l))


def elem(num, body):
    body = bytes(body)
    return bytes([num & 0xff, len(body) & 0xff]) + body


def mgmt(kind, rnd, elems=b"", fixed=None, order=False, flags=0, a1=None, a2=None, a3=None, duration=None, seq=None, privacy=None):
    st = MGMT[kind]
    fc0 = (st << 4)
    fc1 = (flags & 0x7f) | (0x80 if order else 0)
    rb = lambda n: bytes(rnd.getrandbits(8) for _ in range(n))
    hdr = bytes([fc0, fc1]) + (duration if duration is not None else rb(2)) + (a1 or rb(6)) + (a2 or rb(6)) + (a3 or rb(6)) + (seq if seq is not None else rb(2))
    if order:
        hdr += rb(4)
    if fixed is None:
        fixed = bytearray(rb(FIXED_LEN.get(kind, 0)))
        if privacy is not None and kind in BSS_KINDS:
            off = 10 if kind in ("beacon", "probe_resp") else 0
            fixed[off] = (fixed[off] & ~0x10) | (0x10 if privacy else 0)
        fixed = bytes(fixed)
    return hdr + fixed + bytes(elems)


def wrap(frame, mode, rnd):
    """mode 0: bare; 1: radiotap without FCS; 2: radiotap + FCS"""
    if mode == 0:
        return 0, frame
    fields = rnd.sample([2, 3, 5, 10, 14, 15, 16, 17, 19, 22], rnd.randrange(0, 5))
    fl = rnd.getrandbits(8)
    fl = (fl | 0x10) if mode == 2 else (fl & ~0x10)
    hdr = rtbuild.build([{"fields": [1] + fields, "values": {1: bytes([fl])}}], rnd)
    if mode == 2:
        return 1, hdr + frame + (zlib.crc32(frame) & 0xffffffff).to_bytes(4, "little")
    return 1, hdr + frame


def mp_line(frame, mode, rnd):
    rt, b = wrap(frame, mode, rnd)
    return "mp %d %s" % (rt, b.hex() or "-")


IEEE = bytes([0x00, 0x0F, 0xAC])
MS = bytes([0x00, 0x50, 0xF2])


def suite(oui, ty):
    return bytes(oui) + bytes([ty & 0xff])


def rsn_body(group, pairwise, akms, caps=b"\x00\x00", version=1, pcount=None, acount=None):
    b = version.to_bytes(2, "little") + group
    b += (len(pairwise) if pcount is None else pcount).to_bytes(2, "little") + b"".join(pairwise)
    b += (len(akms) if acount is None else acount).to_bytes(2, "little") + b"".join(akms)
    return b + caps


def wpa_body(mc, unicast, akms, version=1, pcount=None, acount=None):
    b = MS + b"\x01" + version.to_bytes(2, "little") + mc
    b += (len(unicast) if pcount is None else pcount).to_bytes(2, "little") + b"".join(unicast)
    b += (len(akms) if acount is None else acount).to_bytes(2, "little") + b"".join(akms)
    return b


LADDER = [255, 256, 257, 2304, 2346, 3839, 4095, 4096, 4097, 7935, 7936, 7991, 8191, 8192, 11454, 16383, 16384, 32767, 32768, 65535, 65536, 65537, 70000]


def size_ladder(rnd, tier="quick"):
    """(op line) list: frames whose BODY length sits at and around every size a length field, a cap or a narrowed integer
    could break at (8-, 12-, 13-, 14-, 15-, 16-bit widths, the 802.11 MSDU / A-MSDU / MPDU limits), as data frames
    (QoS and not, plain and EAPOL-shaped), and as management frames of every parsable subtype whose element region is
    made of maximal elements; bare, and a few behind a radiotap header with FCS"""
    out = []
    sizes = LADDER if tier != "quick" else [255, 256, 2304, 4096, 7935, 7936, 8192, 16384, 32768, 65535, 65536, 70000]
    for n in sizes:
        for qos in (0, 1):
            hdr = bytes([0x88 if qos else 0x08, 0x00]) + bytes(rnd.getrandbits(8) for _ in range(22 + (2 if qos else 0)))
            body = bytes(rnd.getrandbits(8) for _ in range(n))
            out.append("cls 0 " + (hdr + body).hex())
            llc = bytes([0xaa, 0xaa, 0x03, 0, 0, 0, 0x88, 0x8e])
            key = bytearray(rnd.getrandbits(8) for _ in range(99))
            key[5:7] = (0x010a).to_bytes(2, "big")
            key[97:99] = min(n, 65535).to_bytes(2, "big")
            out.append("eap 0 " + (hdr + llc + bytes(key) + body).hex())
        kind = PARSABLE[len(out) % len(PARSABLE)]
        els = elem(0, b"ladder") + elem(3, b"\x06")
        while len(els) + 257 <= n:
            els += elem(rnd.choice([221, 48, 45, 7, 127]), bytes(rnd.getrandbits(8) for _ in range(255)))
        els += elem(221, bytes(rnd.getrandbits(8) for _ in range(max(0, min(255, n - len(els) - 2)))))
        fr = mgmt(kind, rnd, els)
        out.append("mp 0 " + fr.hex())
        rt, b = wrap(fr, 2, rnd)
        out.append("mp %d %s" % (rt, b.hex()))
        out.append("cls %d %s" % (rt, b.hex()))
    return out
