#!/usr/bin/env python3
"""Writes /verif/MANIFEST.json from the table below (keeps it valid and complete at all times)."""
import json
import os
import sys
sys.path.insert(0, os.path.dirname(os.path.abspath(__file__)))
from common import VERIF

ALL = ["C%02d" % i for i in range(1, 21)]

# property -> (technique, level text, level note, design ref)
CLAIMED = {
 "C19": ("Lean 4 proof over regenerated enum/switch tables (decide +kernel, assoc-list lemmas) + exhaustive tabulation of the compiled lookup",
         "Theorems: every IEEE-vouched assignment is published with exactly that value (10 kinds), values are distinct per kind, and for EVERY integer the model lookup returns the enumerator's identifier or the unknown-tag string. The tables are regenerated from the headers and the switch (clang AST + compiled probe) on every run, so the kernel re-checks the theorems against the current source; the compiled function is compared with the model on -1024..1024 + boundaries (quick) / all 2^32 integers (thorough).",
         "Trusted: Lean kernel; gen.py + gcc/clang as evaluators of enumerators and case labels (cross-checked against compiled behaviour); my transcription of the IEEE tables (Spec/Ieee.lean); uniqueness of enumerator names is enforced by the C compiler.",
         "DESIGN.md section 4, C19"),
 "C20": ("Lean 4 proof of monotonicity of the regenerated epoch expression (omega) + wrapped-clock correspondence",
         "Theorems: for ALL pairs of clock readings t1 <= t2 (nsec < 10^9) the model's epoch is non-decreasing, the value is total nanoseconds divided by one fixed unit, and no signed 64-bit overflow occurs for sec < 2^43. The model evaluates the return expression of libwifi_get_epoch as extracted from the clang AST on every run; the side condition ((10^9-1)/B <= A for sec*A + nsec/B) is re-decided by the kernel. The compiled function and the timestamps embedded in beacons, probe responses and timing advertisements are compared with the model under a link-time replaced clock on a grid of every second boundary plus random readings.",
         "Trusted: Lean kernel; gen.py's AST-to-EExpr translation (validated by the correspondence run); clock_gettime semantics (tv_nsec < 10^9); tv_sec >= 2^43 is outside the theorem.",
         "DESIGN.md section 4, C20"),
}

PENDING_REASON = "not claimed in this revision: model/theorems for this property are not built yet (see DESIGN.md section 9 for the order of work); it is applicable and will be claimed once its check exists"


def main():
    checks = []
    for p in ALL:
        if p not in CLAIMED:
            continue
        tech, text, note, ref = CLAIMED[p]
        checks.append({
            "property_id": p,
            "quick_cmd": "python3 /verif/check.py %s --tier quick" % p,
            "thorough_cmd": "python3 /verif/check.py %s --tier thorough" % p,
            "evidence_file": "/verif/evidence/%s.json" % p,
            "replay_cmd_template": "python3 /verif/check.py %s --replay {path}" % p,
            "engine": "lean-proof",
            "level_claimed": {"category": "proof", "text": text, "design_ref": ref},
            "level_note": note,
            "technique": tech,
        })
    m = {
        "version": 1,
        "setup_cmd": "python3 /verif/tools/setup.py",
        "hooks": {
            "guard": "LIBWIFI_VERIF",
            "enable": "checks compile every .c file of /repo's working tree into the harness with -DLIBWIFI_VERIF; all interposition is link-time (-Wl,--wrap=malloc,realloc,calloc,free,clock_gettime,getrandom); no source hooks exist",
            "baseline_off_cmd": "/verif/tools/baseline.sh",
            "source_commits": [],
            "add_only": True,
        },
        "engines": [{
            "name": "lean-proof", "path": "/verif/lean", "serves_properties": sorted(CLAIMED),
            "kind_free_text": "Lean 4 theorems over a hand-written executable model + tables regenerated from the source (tools/gen.py); tied to the code by the translator and a differential correspondence check (check.py, harness/, lean/Driver.lean)"}],
        "checks": checks,
        "not_applicable": [{"property_id": p, "reason": PENDING_REASON} for p in ALL if p not in CLAIMED],
        "notes": "One entry point: python3 /verif/check.py <Cxx> --tier quick|thorough. Known findings: /verif/known_findings.json. See DESIGN.md.",
    }
    with open(os.path.join(VERIF, "MANIFEST.json"), "w") as f:
        json.dump(m, f, indent=1)
        f.write("\n")


if __name__ == "__main__":
    main()
