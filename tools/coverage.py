#!/usr/bin/env python3
"""How much of the library do the correspondence suites execute?

Builds the harness with gcov instrumentation (-O0 --coverage) from /repo's working tree, feeds it the
operation lines of every check's quick tier (recorded, not re-judged), and prints line / branch coverage per
source file of src/libwifi.  Writes /verif/evidence/coverage.json.  This measures the generators, not the code:
a line the suites never execute is a line on which the model has not been compared with the C.
"""
import glob
import json
import os
import re
import shutil
import subprocess
import sys

HERE = os.path.dirname(os.path.abspath(__file__))
sys.path.insert(0, HERE)
sys.path.insert(0, os.path.dirname(HERE))
from common import *  # noqa
import framework as fw
import diffrun

PROPS = ["C%02d" % i for i in range(1, 21)]


def main():
    cov = os.path.join(WORK, "cov")
    shutil.rmtree(cov, ignore_errors=True)
    os.makedirs(cov)
    flags = ["-std=gnu17", "-w", "-O0", "-g", "--coverage", "-I" + SRC, "-I" + diffrun.HARNESS_DIR, '-DLIBWIFI_VERSION="verif"', "-DLIBWIFI_VERIF"]
    srcs = repo_c_files() + sorted(glob.glob(os.path.join(diffrun.HARNESS_DIR, "*.c")))
    objs = []
    procs = []
    for i, f in enumerate(srcs):
        o = os.path.join(cov, "%03d_%s.o" % (i, os.path.basename(f)[:-2]))
        objs.append(o)
        procs.append(subprocess.Popen(["gcc"] + flags + ["-c", f, "-o", o]))
    for p in procs:
        if p.wait() != 0:
            print("compile failed")
            return 2
    exe = os.path.join(cov, "harness_cov")
    rc, out, err = run(["gcc", "--coverage", "-o", exe] + objs + ["-Wl," + ",".join("--wrap=" + w for w in diffrun.WRAPS), "-lpthread"])
    if rc != 0:
        print(err[-2000:])
        return 2
    ctx = fw.Ctx("COV", "quick", int(os.environ.get("VERIF_SEED", "1")))
    meta, data = fw.run_gen(ctx)
    diffrun.build_harness("asan")          # the recorders ask the real generators for frame bytes
    total = 0
    per_prop = {}
    # checks that talk to the harness directly (not through run_suite) are recorded at the runner level
    direct = []
    orig_all, orig_diff = diffrun.run_harness_all, diffrun.differential

    def rec_all(exe_, lines, *a, **k):
        direct.extend(lines)
        return orig_all(exe_, lines, *a, **k)

    def rec_diff(exe_, lines, *a, **k):
        direct.extend(lines)
        return orig_diff(exe_, lines, *a, **k)
    diffrun.run_harness_all, diffrun.differential = rec_all, rec_diff
    for p in PROPS:
        try:
            corpus = fw.collect_corpus(ctx, [p], tier="quick")
        except Exception as e:            # a check that does more than run suites still contributes what it recorded
            print("recording %s stopped: %r" % (p, e))
            corpus = []
        lines = [l for _, _, l in corpus] + direct
        del direct[:]
        per_prop[p] = len(lines)
        total += len(lines)
        # one process per chunk; gcda files are merged by libgcov
        for i in range(0, len(lines), 20000):
            subprocess.run([exe], input="\n".join(lines[i:i + 20000]) + "\n", capture_output=True, text=True, errors="replace", timeout=3600)
    # gcov summaries
    res = {}
    for o, f in zip(objs, srcs):
        if not f.startswith(SRC):
            continue
        r = subprocess.run(["gcov", "-b", "-p", "-o", os.path.dirname(o), o], capture_output=True, text=True, cwd=cov)
        m = re.search(r"File '%s'\nLines executed:([\d.]+)%% of (\d+)\n(?:Branches executed:([\d.]+)%% of (\d+)\nTaken at least once:([\d.]+)%% of (\d+)\n)?" % re.escape(f), r.stdout)
        if m:
            res[os.path.relpath(f, SRC)] = {"lines_pct": float(m.group(1)), "lines": int(m.group(2)),
                                            "branches_taken_pct": float(m.group(5)) if m.group(5) else None, "branches": int(m.group(6)) if m.group(6) else 0}
    tl = sum(v["lines"] for v in res.values())
    cl = sum(v["lines"] * v["lines_pct"] / 100 for v in res.values())
    tb = sum(v["branches"] for v in res.values())
    cb = sum(v["branches"] * (v["branches_taken_pct"] or 0) / 100 for v in res.values())
    summary = {"operation_lines": total, "per_property_lines": per_prop, "files": res,
               "total_lines": tl, "lines_executed_pct": round(100 * cl / max(tl, 1), 1), "total_branches": tb, "branches_taken_pct": round(100 * cb / max(tb, 1), 1),
               "source_tree_sha256": tree_digest()}
    dump_json(os.path.join(EVIDENCE_DIR, "coverage.json"), summary)
    print("lines executed: %.1f%% of %d; branches taken: %.1f%% of %d; %d operation lines" % (summary["lines_executed_pct"], tl, summary["branches_taken_pct"], tb, total))
    for f, v in sorted(res.items(), key=lambda kv: kv[1]["lines_pct"]):
        print("  %-50s %5.1f%% of %4d lines   branches taken %s" % (f, v["lines_pct"], v["lines"], ("%5.1f%% of %d" % (v["branches_taken_pct"], v["branches"])) if v["branches"] else "-"))
    # uncovered lines, for the record
    unc = {}
    for g in glob.glob(os.path.join(cov, "*.gcov")):
        txt = open(g, errors="replace").read()
        m = re.search(r"Source:(\S+)", txt)
        if not m or not m.group(1).startswith(SRC):
            continue
        miss = [l.split(":", 2)[1].strip() + ":" + l.split(":", 2)[2].strip()[:90] for l in txt.splitlines() if l.lstrip().startswith("#####")]
        if miss:
            unc[os.path.relpath(m.group(1), SRC)] = miss
    summary["uncovered_lines"] = unc
    dump_json(os.path.join(EVIDENCE_DIR, "coverage.json"), summary)
    shutil.rmtree(cov, ignore_errors=True)
    return 0


if __name__ == "__main__":
    sys.exit(main())
