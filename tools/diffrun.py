"""Correspondence machinery: build the C harness from the working tree, run harness and Lean
driver on the same operation lines, compare, shrink."""
import glob
import hashlib
import os
import subprocess
import sys

sys.path.insert(0, os.path.dirname(os.path.abspath(__file__)))
from common import *  # noqa
from framework import driver_path

HARNESS_DIR = os.path.join(VERIF, "harness")

WRAPS = ["malloc", "realloc", "calloc", "free", "clock_gettime", "getrandom"]

VARIANTS = {
    # ASan + the UBSan checks that concern memory (DESIGN.md section 6, item 11)
    "asan": ["-O1", "-g", "-fno-omit-frame-pointer", "-fsanitize=address,undefined",
             "-fno-sanitize=shift,alignment,nonnull-attribute,shift-base,shift-exponent",
             "-fno-sanitize-recover=all"],
    "o0": ["-O0", "-g"],
    "ship": ["-O2", "-fstack-protector-strong", "-D_FORTIFY_SOURCE=2", "-fstack-clash-protection"],
    "tsan": ["-O1", "-g", "-fsanitize=thread"],
}


def harness_key(variant):
    h = hashlib.sha256()
    h.update(tree_digest().encode())
    for p in sorted(glob.glob(os.path.join(HARNESS_DIR, "*"))):
        if os.path.isdir(p):
            continue
        h.update(p.encode())
        h.update(open(p, "rb").read())
    h.update(variant.encode())
    h.update(repr(VARIANTS[variant]).encode())
    return h.hexdigest()[:16]


def build_harness(variant="asan"):
    """Compile harness + every .c file of the working tree. Returns (exe, error)."""
    ensure_dirs()
    key = harness_key(variant)
    exe = os.path.join(WORK, "harness_%s_%s" % (variant, key))
    with Lock("harness_" + variant):
        if os.path.exists(exe):
            return exe, None
        for old in glob.glob(os.path.join(WORK, "harness_%s_*" % variant)):
            try:
                if os.path.isdir(old):
                    import shutil
                    shutil.rmtree(old)
                else:
                    os.remove(old)
            except OSError:
                pass
        objdir = exe + ".obj"
        os.makedirs(objdir, exist_ok=True)
        flags = ["-std=gnu17", "-w"] + VARIANTS[variant] + ["-I" + SRC, "-I" + HARNESS_DIR, '-DLIBWIFI_VERSION="verif"', "-DLIBWIFI_VERIF"]
        srcs = repo_c_files() + sorted(glob.glob(os.path.join(HARNESS_DIR, "*.c")))
        procs = []
        objs = []
        for i, f in enumerate(srcs):
            o = os.path.join(objdir, "%03d_%s.o" % (i, os.path.basename(f)[:-2]))
            objs.append(o)
            procs.append((f, subprocess.Popen(["gcc"] + flags + ["-c", f, "-o", o], stderr=subprocess.PIPE, text=True)))
        errs = []
        for f, p in procs:
            _, err = p.communicate()
            if p.returncode != 0:
                errs.append("%s: %s" % (f, err[-1500:]))
        if errs:
            return None, "\n".join(errs)
        link = ["gcc"] + VARIANTS[variant] + ["-o", exe + ".tmp"] + objs + ["-Wl," + ",".join("--wrap=" + w for w in WRAPS), "-lpthread"]
        rc, out, err = run(link)
        if rc != 0:
            return None, err[-3000:]
        os.replace(exe + ".tmp", exe)
        import shutil
        shutil.rmtree(objdir, ignore_errors=True)
    return exe, None


SAN_ENV = {"ASAN_OPTIONS": "detect_leaks=0:abort_on_error=0:exitcode=99:allocator_may_return_null=1:detect_stack_use_after_return=0",
           "UBSAN_OPTIONS": "print_stacktrace=1:halt_on_error=1:exitcode=98"}


def run_lines(exe, lines, env=None, timeout=600):
    """Feed lines; returns (outputs, rc, stderr). outputs may be shorter than lines on a crash."""
    e = dict(os.environ)
    e.update(SAN_ENV)
    if env:
        e.update(env)
    data = "\n".join(lines) + "\n"
    try:
        p = subprocess.run([exe], input=data, capture_output=True, text=True, timeout=timeout, env=e, errors="replace")
    except subprocess.TimeoutExpired as t:
        out = (t.stdout or b"")
        if isinstance(out, bytes):
            out = out.decode(errors="replace")
        return out.splitlines(), -9, "timeout"
    return p.stdout.splitlines(), p.returncode, p.stderr


def run_harness_all(exe, lines, env=None, max_crashes=20, timeout=600):
    """Run all lines, restarting after a crashing line. Returns (outputs, crashes) where outputs[i]
    is the output line or 'CRASH <summary>' and crashes is a list of (index, stderr)."""
    outputs = [None] * len(lines)
    crashes = []
    start = 0
    while start < len(lines):
        outs, rc, err = run_lines(exe, lines[start:], env=env, timeout=timeout)
        for i, o in enumerate(outs[: len(lines) - start]):
            outputs[start + i] = o
        done = start + len(outs)
        if done >= len(lines) and rc == 0:
            break
        if done >= len(lines):
            # crashed after printing everything (e.g. at exit)
            crashes.append((len(lines) - 1, err))
            break
        # the line at index `done` crashed (or its output was lost in the buffer) -> isolate
        idx = done
        o1, rc1, err1 = run_lines(exe, [lines[idx]], env=env, timeout=60)
        if rc1 != 0 or not o1:
            outputs[idx] = "CRASH " + crash_summary(err1 if err1 else err, rc1)
            crashes.append((idx, err1 if err1 else err))
        else:
            # crash depends on history: attribute it to this line but record that
            outputs[idx] = "CRASH(history) " + crash_summary(err, rc)
            crashes.append((idx, err))
        start = idx + 1
        if len(crashes) >= max_crashes:
            for j in range(start, len(lines)):
                outputs[j] = "SKIPPED"
            break
    return outputs, crashes


def crash_summary(err, rc):
    import re
    m = re.search(r"ERROR: AddressSanitizer: (\S+)", err or "")
    kind = m.group(1) if m else None
    if not kind:
        m = re.search(r"runtime error: ([^\n]*)", err or "")
        kind = "ubsan:" + m.group(1)[:60].replace(" ", "_") if m else "rc=%s" % rc
    m = re.search(r"#\d+ 0x[0-9a-f]+ in (\w+) (/\S+?/src/libwifi/\S+:\d+)", err or "")
    where = (m.group(1) + "@" + os.path.relpath(m.group(2), SRC)) if m else "?"
    return "%s %s" % (kind, where)


def run_driver(lines, timeout=600):
    exe = driver_path()
    p = subprocess.run([exe], input="\n".join(lines) + "\n", capture_output=True, text=True, timeout=timeout, errors="replace")
    if p.returncode != 0:
        raise RuntimeError("lwdriver failed rc=%d: %s" % (p.returncode, p.stderr[-500:]))
    outs = p.stdout.splitlines()
    if len(outs) != len(lines):
        raise RuntimeError("lwdriver printed %d lines for %d inputs" % (len(outs), len(lines)))
    return outs


def parallel_map(fn, chunks, workers=16):
    from concurrent.futures import ThreadPoolExecutor
    with ThreadPoolExecutor(max_workers=workers) as ex:
        return list(ex.map(fn, chunks))


def chunked(lines, n):
    k = max(1, (len(lines) + n - 1) // n)
    return [lines[i:i + k] for i in range(0, len(lines), k)]


def differential(exe, lines, env=None, workers=16, canon_c=None, canon_m=None):
    """Returns (c_outs, m_outs, disagreements[(i, line, c, m)], crashes[(i, stderr)])."""
    if not lines:
        return [], [], [], []
    chunks = chunked(lines, workers)
    cres = parallel_map(lambda ch: run_harness_all(exe, ch, env=env), chunks, workers)
    mres = parallel_map(run_driver, chunks, workers)
    c_outs, m_outs, crashes = [], [], []
    base = 0
    for (co, cr), mo, ch in zip(cres, mres, chunks):
        c_outs += co
        m_outs += mo
        crashes += [(base + i, e) for i, e in cr]
        base += len(ch)
    dis = []
    for i, (l, c, m) in enumerate(zip(lines, c_outs, m_outs)):
        cc = canon_c(c) if canon_c else c
        mm = canon_m(m) if canon_m else m
        if cc != mm:
            dis.append((i, l, c, m))
    return c_outs, m_outs, dis, crashes
