#!/usr/bin/env python3
"""Translator: regenerates /verif/lean/LWV/Gen/*.lean from the current working tree of
libwifi (default /repo).  Everything that is *data* in the library (enumerators, macros,
struct layouts, switch tables, macro token strings, the epoch expression, object-file
sections) is extracted here; the Lean theorems that mention it are re-checked by the kernel
against what the source says now.

Extraction routes (see DESIGN.md 2.1):
  * clang-14 JSON AST            -> enum / record declarations, case labels, return expression
  * gcc -dM -E / gcc -E          -> macro bodies and the real preprocessor's expansion
  * probe program (compiled with the working tree's .c files) -> values, layouts, and the
    exhaustive behavioural tabulation of every table-shaped function
  * gcc -O2 -c + readelf         -> sections and data symbols per object file
"""
import json
import os
import re
import sys

sys.path.insert(0, os.path.dirname(os.path.abspath(__file__)))
from common import *  # noqa

CLANG = "clang-14"
GCC = "gcc"


# ----------------------------------------------------------------------------- AST helpers
def parse_concat_json(s):
    dec = json.JSONDecoder()
    i = 0
    docs = []
    n = len(s)
    while i < n:
        while i < n and s[i].isspace():
            i += 1
        if i >= n:
            break
        o, j = dec.raw_decode(s, i)
        docs.append(o)
        i = j
    return docs


def clang_ast(path, flt=None, lang_c=True):
    cmd = [CLANG, "-fsyntax-only"] + (["-x", "c"] if lang_c else []) + CFLAGS_COMMON + ["-Xclang", "-ast-dump=json"]
    if flt:
        cmd += ["-Xclang", "-ast-dump-filter=" + flt]
    cmd.append(path)
    rc, out, err = run(cmd)
    if rc != 0 and not out.strip():
        raise RuntimeError("clang failed on %s: %s" % (path, err[-2000:]))
    return parse_concat_json(out)


def walk(n):
    yield n
    for c in n.get("inner", []) or []:
        if isinstance(c, dict):
            yield from walk(c)


def strip_casts(n):
    while n.get("kind") in ("ImplicitCastExpr", "ParenExpr", "CStyleCastExpr", "ConstantExpr") and n.get("inner"):
        n = n["inner"][-1]
    return n


# ----------------------------------------------------------------------------- harvesting
def harvest_header():
    docs = clang_ast(os.path.join(SRC, "libwifi.h"))
    tu = docs[0]
    enums = []
    records = []
    for x in tu.get("inner", []):
        if x.get("kind") == "EnumDecl" and x.get("name"):
            ents = [c["name"] for c in x.get("inner", []) if c.get("kind") == "EnumConstantDecl"]
            enums.append((x["name"], ents))
        if x.get("kind") == "RecordDecl" and x.get("completeDefinition") and x.get("name", "").startswith(("libwifi_", "ieee80211_radiotap_header")):
            fields = []
            for c in x.get("inner", []):
                if c.get("kind") == "FieldDecl" and c.get("name"):
                    fields.append((c["name"], bool(c.get("isBitfield")), c["type"]["qualType"]))
            records.append((x["name"], x.get("tagUsed", "struct"), fields))
    return enums, records


def harvest_macros():
    hdr = os.path.join(SRC, "libwifi.h")
    rc, base, _ = run([GCC, "-dM", "-E", "-x", "c", "/dev/null"] + CFLAGS_COMMON)
    rc, full, err = run([GCC, "-dM", "-E", "-x", "c", "-include", hdr, "/dev/null"] + CFLAGS_COMMON)
    if rc != 0:
        raise RuntimeError("gcc -dM failed: " + err)
    basenames = set()
    for l in base.splitlines():
        m = re.match(r"#define (\w+)", l)
        if m:
            basenames.add(m.group(1))
    # which macros are defined in the library's own files: grep the sources
    own = set()
    for p in repo_source_files():
        if p.endswith((".h", ".c")):
            for l in open(p, errors="replace"):
                m = re.match(r"\s*#\s*define\s+(\w+)", l)
                if m:
                    own.add(m.group(1))
    macros = {}
    for l in full.splitlines():
        m = re.match(r"#define (\w+)(\(([^)]*)\))? ?(.*)$", l)
        if not m:
            continue
        name, _, params, body = m.groups()
        if name in basenames or name not in own:
            continue
        macros[name] = (None if params is None else [p.strip() for p in params.split(",") if p.strip()], body.strip())
    return macros


TOK_RE = re.compile(r"\s*(0[xX][0-9a-fA-F]+[uUlL]*|\d+[uUlL]*|[A-Za-z_]\w*|<<|>>|<=|>=|==|!=|&&|\|\||->|\"(?:\\.|[^\"\\])*\"|'(?:\\.|[^'\\])*'|.)")


def ctokens(s):
    out = []
    pos = 0
    s = s.strip()
    while pos < len(s):
        m = TOK_RE.match(s, pos)
        if not m:
            break
        out.append(m.group(1))
        pos = m.end()
    return out


def numeric_macros(macros):
    """Object-like macros whose body is an integer constant expression (fixpoint over names)."""
    numeric = set()
    changed = True
    ops = set("()<>|&+-*/~^%!") | {"<<", ">>"}
    while changed:
        changed = False
        for name, (params, body) in macros.items():
            if params is not None or name in numeric or not body:
                continue
            toks = ctokens(body)
            ok = bool(toks)
            for t in toks:
                if re.match(r"^(0[xX][0-9a-fA-F]+|\d+)[uUlL]*$", t) or t in ops or t in numeric:
                    continue
                ok = False
                break
            if ok:
                numeric.add(name)
                changed = True
    return sorted(numeric)


# ----------------------------------------------------------------------------- probe program
PROBE_HEAD = r'''
#define _GNU_SOURCE
#include <stdio.h>
#include <stddef.h>
#include <string.h>
#include <stdlib.h>
#include <limits.h>
#include "libwifi.h"
#include "libwifi/core/radiotap/radiotap.c"   /* static tables of the vendored iterator */

static void hex(const unsigned char *p, size_t n) { for (size_t i = 0; i < n; i++) printf("%02x", p[i]); }
static void jstr(const char *s) { putchar('"'); for (; *s; s++) { if (*s=='"'||*s=='\\') putchar('\\'); putchar(*s);} putchar('"'); }
'''


def build_probe(enums, records, nummacros, macros):
    L = [PROBE_HEAD, "int main(void) {", 'printf("{\\n");']
    # enums
    L.append('printf("\\"enums\\": {\\n");')
    for i, (en, ents) in enumerate(enums):
        L.append('printf("%s\\"%s\\": [");' % ("," if i else "", en))
        for j, e in enumerate(ents):
            L.append('printf("%s[\\"%s\\", %%lld]", (long long)(%s));' % ("," if j else "", e, e))
        L.append('printf("]\\n");')
    L.append('printf("},\\n");')
    # numeric macros
    L.append('printf("\\"macros\\": {\\n");')
    for i, m in enumerate(nummacros):
        L.append('printf("%s\\"%s\\": [%%d, \\"%%llu\\"]\\n", ((%s) < 0), (unsigned long long)(%s));' % ("," if i else "", m, m, m))
    L.append('printf("},\\n");')
    # string macros we need (OUIs): emitted as hex
    L.append('printf("\\"strmacros\\": {\\n");')
    first = True
    for name, (params, body) in sorted(macros.items()):
        if params is None and body.startswith('"') and body.endswith('"') and name != "LIBWIFI_VERSION":
            L.append('printf("%s\\"%s\\": \\""); hex((const unsigned char*)%s, sizeof(%s)-1); printf("\\"\\n");' % ("" if first else ",", name, name, name))
            first = False
    L.append('printf("},\\n");')
    # layouts
    L.append('printf("\\"layouts\\": {\\n");')
    for i, (rn, tag, fields) in enumerate(records):
        L.append('printf("%s\\"%s\\": {\\"size\\": %%zu, \\"fields\\": [", sizeof(%s %s));' % ("," if i else "", rn, tag, rn))
        k = 0
        for (fn, isbf, ty) in fields:
            if isbf:
                continue
            L.append('printf("%s[\\"%s\\", %%zu, %%zu]", offsetof(%s %s, %s), sizeof(((%s %s*)0)->%s));' % ("," if k else "", fn, tag, rn, fn, tag, rn, fn))
            k += 1
        L.append('printf("], \\"bitfields\\": [");')
        k = 0
        for (fn, isbf, ty) in fields:
            if not isbf:
                continue
            L.append('{ %s %s v; memset(&v, 0, sizeof v); v.%s = ~0u; printf("%s[\\"%s\\", \\""); hex((unsigned char*)&v, sizeof v); printf("\\"]"); }' % (tag, rn, fn, "," if k else "", fn))
            k += 1
        L.append('printf("]}\\n");')
    L.append('printf("},\\n");')
    L.append(PROBE_TABLES)
    L.append('printf("\\"end\\": 0}\\n"); return 0; }')
    return "\n".join(L)


# behavioural tabulations; every block prints one JSON member followed by a comma
PROBE_TABLES = r'''
/* ---- libwifi_get_tag_name on -1024..1024 and boundary values ---- */
{
  printf("\"tagnames\": [");
  int first = 1;
  const char *unk = libwifi_get_tag_name(INT_MIN);
  for (long long v = -1024; v <= 1024; v++) {
    const char *s = libwifi_get_tag_name((int) v);
    if (s && strcmp(s, unk) != 0) { printf("%s[%lld, ", first ? "" : ",", v); jstr(s); printf("]"); first = 0; }
  }
  printf("],\n\"tagname_default\": "); jstr(unk ? unk : "(null)"); printf(",\n");
  printf("\"tagname_extremes\": ["); jstr(libwifi_get_tag_name(INT_MIN)); printf(","); jstr(libwifi_get_tag_name(INT_MAX));
  printf(","); jstr(libwifi_get_tag_name(256)); printf(","); jstr(libwifi_get_tag_name(-1)); printf("],\n");
}
/* ---- the four description routines: single bits and the all-ones order ---- */
{
  typedef void (*descfn)(struct libwifi_bss *, char *);
  descfn fns[4] = { libwifi_get_security_type, libwifi_get_group_ciphers, libwifi_get_pairwise_ciphers, libwifi_get_auth_key_suites };
  const char *names[4] = { "security_type", "group_ciphers", "pairwise_ciphers", "auth_key_suites" };
  printf("\"desc\": {\n");
  for (int r = 0; r < 4; r++) {
    char *buf = calloc(1, 65536);   /* generous: the routine believes it has LIBWIFI_SECURITY_BUF_LEN */
    struct libwifi_bss bss; memset(&bss, 0, sizeof bss);
    printf("%s\"%s\": {\"singles\": [", r ? "," : "", names[r]);
    int first = 1;
    for (int b = 0; b < 64; b++) {
      memset(buf, 0, 65536);
      bss.encryption_info = 1ULL << b;
      fns[r](&bss, buf);
      if (buf[0]) { printf("%s[%d, ", first ? "" : ",", b); jstr(buf); printf("]"); first = 0; }
    }
    memset(buf, 0, 65536);
    bss.encryption_info = ~0ULL; fns[r](&bss, buf);
    printf("], \"all\": "); jstr(buf);
    memset(buf, 0, 65536);
    bss.encryption_info = 0; fns[r](&bss, buf);
    printf(", \"none\": "); jstr(buf); printf("}\n");
    free(buf);
  }
  printf("},\n");
}
/* ---- RSN / WPA suite enumeration: every selector x three OUIs x three positions ---- */
{
  const unsigned char ouis[3][3] = { {0x00,0x0F,0xAC}, {0x00,0x50,0xF2}, {0xAA,0xBB,0xCC} };
  printf("\"rsn_enum\": [");
  int first = 1;
  for (int pos = 0; pos < 3; pos++) for (int o = 0; o < 3; o++) for (int sel = 0; sel < 256; sel++) {
    struct libwifi_rsn_info ri; struct libwifi_bss bss; memset(&ri, 0, sizeof ri); memset(&bss, 0, sizeof bss);
    memcpy(ri.group_cipher_suite.oui, ouis[2], 3); ri.group_cipher_suite.suite_type = 255;
    if (pos == 0) { memcpy(ri.group_cipher_suite.oui, ouis[o], 3); ri.group_cipher_suite.suite_type = (uint8_t) sel; }
    if (pos == 1) { ri.num_pairwise_cipher_suites = 1; memcpy(ri.pairwise_cipher_suites[0].oui, ouis[o], 3); ri.pairwise_cipher_suites[0].suite_type = (uint8_t) sel; }
    if (pos == 2) { ri.num_auth_key_mgmt_suites = 1; memcpy(ri.auth_key_mgmt_suites[0].oui, ouis[o], 3); ri.auth_key_mgmt_suites[0].suite_type = (uint8_t) sel; }
    libwifi_enumerate_rsn_suites(&ri, &bss);
    if (bss.encryption_info) { printf("%s[%d,%d,%d,\"%llu\"]", first ? "" : ",", pos, o, sel, (unsigned long long) bss.encryption_info); first = 0; }
  }
  printf("],\n\"wpa_enum\": [");
  first = 1;
  for (int pos = 0; pos < 3; pos++) for (int o = 0; o < 3; o++) for (int sel = 0; sel < 256; sel++) {
    struct libwifi_wpa_info wi; struct libwifi_bss bss; memset(&wi, 0, sizeof wi); memset(&bss, 0, sizeof bss);
    memcpy(wi.multicast_cipher_suite.oui, ouis[2], 3); wi.multicast_cipher_suite.suite_type = 255;
    if (pos == 0) { memcpy(wi.multicast_cipher_suite.oui, ouis[o], 3); wi.multicast_cipher_suite.suite_type = (uint8_t) sel; }
    if (pos == 1) { wi.num_unicast_cipher_suites = 1; memcpy(wi.unicast_cipher_suites[0].oui, ouis[o], 3); wi.unicast_cipher_suites[0].suite_type = (uint8_t) sel; }
    if (pos == 2) { wi.num_auth_key_mgmt_suites = 1; memcpy(wi.auth_key_mgmt_suites[0].oui, ouis[o], 3); wi.auth_key_mgmt_suites[0].suite_type = (uint8_t) sel; }
    libwifi_enumerate_wpa_suites(&wi, &bss);
    if (bss.encryption_info) { printf("%s[%d,%d,%d,\"%llu\"]", first ? "" : ",", pos, o, sel, (unsigned long long) bss.encryption_info); first = 0; }
  }
  printf("],\n");
}
/* ---- frame classification: which (type, subtype, order) give which header length / flags (64-byte zero frames) ---- */
{
  printf("\"classify\": [");
  int first = 1;
  for (int fc0 = 0; fc0 < 256; fc0 += 1) for (int ord = 0; ord < 2; ord++) {
    unsigned char buf[64]; memset(buf, 0, sizeof buf);
    buf[0] = (unsigned char) fc0; buf[1] = ord ? 0x80 : 0;
    struct libwifi_frame fr; memset(&fr, 0, sizeof fr);
    int r = libwifi_get_wifi_frame(&fr, buf, sizeof buf, 0);
    printf("%s[%d,%d,%d,%d,%d]", first ? "" : ",", fc0, ord, r, r == 0 ? (int) fr.header_len : -1, r == 0 ? (int) fr.flags : -1);
    first = 0;
    if (r == 0) libwifi_free_wifi_frame(&fr);
  }
  printf("],\n");
}
/* ---- radiotap namespace alignment/size table (static in the vendored iterator) ---- */
{
  printf("\"rtap_sizes\": [");
  int n = (int)(sizeof(rtap_namespace_sizes) / sizeof(rtap_namespace_sizes[0]));
  for (int i = 0; i < n; i++) printf("%s[%d,%d]", i ? "," : "", rtap_namespace_sizes[i].align, rtap_namespace_sizes[i].size);
  printf("],\n\"rtap_nbits\": %d,\n", radiotap_ns.n_bits);
}
'''


def parse_probe(enums, records, nummacros, macros):
    ensure_dirs()
    src = build_probe(enums, records, nummacros, macros)
    pc = os.path.join(WORK, "probe.c")
    write_if_changed(pc, src)
    exe = os.path.join(WORK, "probe")
    cfiles = [f for f in repo_c_files() if not f.endswith("core/radiotap/radiotap.c")]
    cmd = [GCC, "-O1", "-w", "-o", exe, pc] + CFLAGS_COMMON + cfiles
    rc, out, err = run(cmd)
    if rc != 0:
        raise RuntimeError("probe does not compile:\n" + err[-6000:])
    rc, out, err = run([exe], timeout=120)
    if rc != 0:
        raise RuntimeError("probe crashed rc=%d: %s" % (rc, err[-2000:]))
    return json.loads(out)


# ----------------------------------------------------------------------------- tag-name switch (AST)
def tag_name_cases(enumvals):
    try:
        docs = clang_ast(os.path.join(SRC, "libwifi/core/frame/tag.c"), flt="libwifi_get_tag_name", lang_c=False)
    except Exception as e:  # pragma: no cover
        return None, "clang failed: %s" % e
    fn = None
    for d in docs:
        if d.get("kind") == "FunctionDecl" and any(c.get("kind") == "CompoundStmt" for c in d.get("inner", [])):
            fn = d
    if fn is None:
        return None, "no definition"
    cases = []
    default = None

    def const_value(n):
        n = strip_casts(n)
        k = n.get("kind")
        if k == "IntegerLiteral":
            return int(n["value"])
        if k == "DeclRefExpr":
            nm = n.get("referencedDecl", {}).get("name")
            if nm in enumvals:
                return enumvals[nm]
        if k == "UnaryOperator" and n.get("opcode") == "-":
            v = const_value(n["inner"][0])
            return None if v is None else -v
        return None

    def ret_string(n):
        for w in walk(n):
            if w.get("kind") == "ReturnStmt":
                for v in walk(w):
                    if v.get("kind") == "StringLiteral":
                        return json.loads(v["value"])
                return None
            if w is not n and w.get("kind") in ("CaseStmt", "DefaultStmt"):
                r = ret_string(w)
                if r is not None:
                    return r
        return None

    for n in walk(fn):
        if n.get("kind") == "CaseStmt":
            inner = n.get("inner", [])
            v = const_value(inner[0]) if inner else None
            s = ret_string(n)
            if v is None or s is None:
                return None, "unrecognised case shape"
            cases.append((v, s))
        elif n.get("kind") == "DefaultStmt":
            default = ret_string(n)
    if not cases:
        return None, "no switch"
    return (cases, default), "ast"


# ----------------------------------------------------------------------------- epoch expression (AST)
def epoch_expr():
    try:
        docs = clang_ast(os.path.join(SRC, "libwifi/core/misc/epoch.c"), flt="libwifi_get_epoch", lang_c=False)
    except Exception as e:  # pragma: no cover
        return None, str(e)
    fn = None
    for d in docs:
        if d.get("kind") == "FunctionDecl" and any(c.get("kind") == "CompoundStmt" for c in d.get("inner", [])):
            fn = d
    if fn is None:
        return None, "no definition"
    rets = [n for n in walk(fn) if n.get("kind") == "ReturnStmt"]
    if len(rets) != 1:
        return None, "expected exactly one return"

    # scalar locals that are initialised once and never written again are followed (a harmless
    # `const long us = ...; return s + us;` must not change the translation)
    inits, written = {}, set()
    for n in walk(fn):
        k = n.get("kind")
        if k == "VarDecl" and n.get("inner"):
            inits[n.get("name")] = n["inner"][-1]
        if (k == "BinaryOperator" and n.get("opcode") in ("=", ",")) or k == "CompoundAssignOperator" or \
                (k == "UnaryOperator" and n.get("opcode") in ("++", "--", "&")):
            tgt = strip_casts(n["inner"][0])
            if tgt.get("kind") == "DeclRefExpr":
                written.add(tgt.get("referencedDecl", {}).get("name"))

    def tr(n, depth=0):
        n = strip_casts(n)
        k = n.get("kind")
        if k == "IntegerLiteral":
            return ".lit %d" % int(n["value"])
        if k == "DeclRefExpr":
            nm = n.get("referencedDecl", {}).get("name")
            if nm in inits and nm not in written and depth < 8:
                return tr(inits[nm], depth + 1)
            return None
        if k == "MemberExpr":
            nm = n.get("name")
            if nm == "tv_sec":
                return ".sec"
            if nm == "tv_nsec":
                return ".nsec"
            return None
        if k == "BinaryOperator":
            a = tr(n["inner"][0], depth)
            b = tr(n["inner"][1], depth)
            if a is None or b is None:
                return None
            op = {"+": "add", "*": "mul", "/": "div", "-": "sub"}.get(n.get("opcode"))
            if op is None:
                return None
            return ".%s (%s) (%s)" % (op, a, b)
        return None

    e = tr(rets[0]["inner"][0])
    # local-variable indirection (e.g. `unsigned long long us = ...; return us;`) is not followed:
    if e is None:
        return None, "return expression outside the arithmetic fragment"
    return e, "ast"


# ----------------------------------------------------------------------------- capability macro
def cap_macro(macros):
    """Ask the real preprocessor for the expansion with placeholder arguments, parse it."""
    src = '#include "libwifi.h"\nLWV_BEGIN libwifi_check_capabilities(LWV_X, LWV_CAP) LWV_END\n'
    p = os.path.join(WORK, "capexp.c")
    write_if_changed(p, src)
    rc, out, err = run([GCC, "-E", "-P", p] + CFLAGS_COMMON)
    if rc != 0:
        raise RuntimeError("gcc -E failed: " + err[-1000:])
    m = re.search(r"LWV_BEGIN(.*?)LWV_END", out, re.S)
    toks = ctokens(m.group(1)) if m else []
    return toks


BINPREC = {"*": 10, "/": 10, "%": 10, "+": 9, "-": 9, "<<": 8, ">>": 8, "<": 7, ">": 7, "<=": 7, ">=": 7,
           "==": 6, "!=": 6, "&": 5, "^": 4, "|": 3, "&&": 2, "||": 1}
BINNAME = {"*": "mul", "/": "div", "%": "mod", "+": "add", "-": "sub", "<<": "shl", ">>": "shr", "<": "lt", ">": "gt",
           "<=": "le", ">=": "ge", "==": "eq", "!=": "ne", "&": "band", "^": "bxor", "|": "bor", "&&": "land", "||": "lor"}


def parse_cexpr(toks):
    """Precedence-climbing parser for the C expression fragment macros use. Returns Lean term text."""
    pos = [0]

    def peek():
        return toks[pos[0]] if pos[0] < len(toks) else None

    def take():
        t = peek()
        pos[0] += 1
        return t

    def primary():
        t = take()
        if t is None:
            raise ValueError("eof")
        if t == "(":
            e = expr(0)
            if take() != ")":
                raise ValueError("expected )")
            return "(.paren %s)" % e
        if t in ("~", "!", "-", "+"):
            e = primary()
            return "(.un n!\"%s\" %s)" % (t, e)
        m = re.match(r"^(0[xX][0-9a-fA-F]+|\d+)([uUlL]*)$", t)
        if m:
            return "(.num %d n!\"%s\")" % (int(m.group(1), 0), t)
        if re.match(r"^[A-Za-z_]\w*$", t):
            if peek() == "(":
                raise ValueError("unexpanded call " + t)
            return "(.var n!\"%s\")" % t
        raise ValueError("unexpected token " + t)

    def expr(minp):
        lhs = primary()
        while True:
            t = peek()
            if t in BINPREC and BINPREC[t] >= max(minp, 1):
                p = BINPREC[t]
                take()
                rhs = expr(p + 1)
                lhs = "(.bin .%s %s %s)" % (BINNAME[t], lhs, rhs)
            elif t == "?" and minp <= 0:
                take()
                a = expr(0)
                if take() != ":":
                    raise ValueError("expected :")
                b = expr(0)
                lhs = "(.cond %s %s %s)" % (lhs, a, b)
            else:
                return lhs

    e = expr(0)
    if pos[0] != len(toks):
        raise ValueError("trailing tokens")
    return e


# ----------------------------------------------------------------------------- object files
SHIP_FLAGS = ["-std=gnu17", "-O2", "-fPIC", "-fstack-protector-strong", "-D_FORTIFY_SOURCE=2", "-w"]


def object_facts():
    od = os.path.join(WORK, "obj_o2")
    os.makedirs(od, exist_ok=True)
    files = repo_c_files()
    procs = []
    import subprocess
    for f in files:
        o = os.path.join(od, os.path.relpath(f, SRC).replace("/", "__")[:-2] + ".o")
        procs.append((f, o, subprocess.Popen([GCC] + SHIP_FLAGS + ["-I" + SRC, '-DLIBWIFI_VERSION="verif"', "-c", f, "-o", o], stderr=subprocess.PIPE, text=True)))
    facts = []
    for f, o, p in procs:
        _, err = p.communicate()
        if p.returncode != 0:
            raise RuntimeError("cannot compile %s: %s" % (f, err[-2000:]))
        rc, out, _ = run(["readelf", "-S", "-W", o])
        secs = {}
        secnames = {}
        for l in out.splitlines():
            m = re.match(r"\s*\[\s*(\d+)\]\s+(\S+)\s+(\S+)\s+[0-9a-f]+\s+[0-9a-f]+\s+([0-9a-f]+)\s+\S+\s+(\S*)", l)
            if m:
                idx, name, typ, size, flags = m.groups()
                secnames[int(idx)] = name
                secs[name] = (int(size, 16), flags, typ)
        rc, out, _ = run(["readelf", "-s", "-W", o])
        objs = []
        imports = []
        for l in out.splitlines():
            m = re.match(r"\s*\d+:\s+[0-9a-f]+\s+(\d+)\s+(\S+)\s+(\S+)\s+\S+\s+(\S+)\s+(\S*)", l)
            if m:
                size, typ, bind, ndx, name = m.groups()
                if ndx == "UND" and name:
                    imports.append(name.split("@")[0])
                if typ in ("OBJECT", "TLS", "COMMON") and name:
                    sec = "COMMON" if ndx == "COM" else (secnames.get(int(ndx), ndx) if ndx.isdigit() else ndx)
                    if sec == "COMMON":
                        cls = 5
                    elif typ == "TLS" or "T" in secs.get(sec, (0, "", ""))[1]:
                        cls = 4
                    elif sec.startswith(".data.rel.ro"):
                        cls = 1
                    elif "W" in secs.get(sec, (0, "", ""))[1]:
                        cls = 3 if secs[sec][2] == "NOBITS" else 2
                    else:
                        cls = 0
                    objs.append((name, sec, cls, int(size)))
        writable = {n: s[0] for n, s in secs.items() if "W" in s[1] and "A" in s[1] and s[0] > 0 and not n.startswith(".data.rel.ro")}
        facts.append({"file": os.path.relpath(f, SRC), "writable_sections": writable, "objects": objs, "imports": sorted(set(imports)),
                      "tls": {n: s[0] for n, s in secs.items() if "T" in s[1] and s[0] > 0}})
    return facts


# ----------------------------------------------------------------------------- Lean emission
def lstr(s):
    return json.dumps(s, ensure_ascii=True).replace("\\u00", "\\x")


def lname(s):
    """identifier / fixed string as a Name literal (see LWV/GenTypes.lean)"""
    assert all(32 <= ord(c) < 127 and c not in '"\\' for c in s), s
    return 'n!"%s"' % s


def lint(v):
    return str(v) if v >= 0 else "(%d)" % v


HEADER = "-- GENERATED by /verif/tools/gen.py from the libwifi working tree. Do not edit.\nimport LWV.GenTypes\nnamespace LWV.Gen\nopen LWV\n\n"


def emit(data):
    out = {}
    pr = data["probe"]
    # ---- Enums
    s = HEADER
    for en, ents in pr["enums"].items():
        s += "def enum_%s : List (Name × Int) := [\n" % en
        # in value order (then name), not declaration order: which enumerator is written first is presentation
        s += ",\n".join("  (%s, %s)" % (lname(n), lint(v)) for n, v in sorted(ents, key=lambda e: (e[1], e[0]))) + "]\n\n"
    s += "def macros : List (Name × Int) := [\n"
    s += ",\n".join("  (%s, %s)" % (lname(n), lint(-((1 << 64) - int(v[1])) if v[0] else int(v[1]))) for n, v in sorted(pr["macros"].items())) + "]\n\n"
    for n, v in sorted(pr["macros"].items()):
        val = -((1 << 64) - int(v[1])) if v[0] else int(v[1])
        if val >= 0:
            s += "def %s : Nat := %d\n" % ("m_" + n, val)
    s += "\n"
    for n, v in sorted(pr["strmacros"].items()):
        bs = [int(v[i:i + 2], 16) for i in range(0, len(v), 2)]
        s += "def s_%s : List UInt8 := [%s]\n" % (n, ", ".join(str(b) for b in bs))
    s += "\nend LWV.Gen\n"
    out["Enums.lean"] = s
    # ---- Layouts
    s = HEADER
    s += "def layouts : List Layout := [\n"
    items = []
    for rn, lay in pr["layouts"].items():
        fs = ", ".join("⟨%s, %d, %d⟩" % (lstr(f[0]), f[1], f[2]) for f in lay["fields"])
        bfs = ", ".join("⟨%s, [%s]⟩" % (lstr(b[0]), ", ".join(str(int(b[1][i:i + 2], 16)) for i in range(0, len(b[1]), 2))) for b in lay["bitfields"])
        items.append("  ⟨%s, %d, [%s], [%s]⟩" % (lstr(rn), lay["size"], fs, bfs))
    s += ",\n".join(items) + "]\n\n"
    for rn, lay in pr["layouts"].items():
        s += "def sz_%s : Nat := %d\n" % (rn, lay["size"])
        for f in lay["fields"]:
            s += "def off_%s_%s : Nat := %d\n" % (rn, f[0], f[1])
    s += "\nend LWV.Gen\n"
    out["Layout.lean"] = s
    # ---- Tables
    s = HEADER
    tn = data["tagname_cases"]
    s += "/-- extraction route of the tag-name table: %s -/\n" % data["tagname_source"]
    s += "def tagNameCases : List (Int × Name) := [\n" + ",\n".join("  (%s, %s)" % (lint(v), lname(n)) for v, n in tn) + "]\n"
    s += "def tagNameDefault : Name := %s\n\n" % lname(data["tagname_default"])
    for r, d in pr["desc"].items():
        s += "def desc_%s : List (Nat × Name) := [%s]\n" % (r, ", ".join("(%d, %s)" % (b, lname(n)) for b, n in d["table"]))
        s += "def descNone_%s : Name := %s\n" % (r, lname(d["none"]))
    s += "\n"
    for nm in ("rsn_enum", "wpa_enum"):
        s += "/-- (position 0 group/1 pairwise/2 akm, oui 0 IEEE/1 Microsoft/2 other, selector, flags) — non-zero entries of the exhaustive tabulation -/\n"
        s += "def %s : List (Nat × Nat × Nat × Nat) := [\n" % nm.replace("_e", "E")
        s += ",\n".join("  (%d, %d, %d, %s)" % (a, b, c, d) for a, b, c, d in pr[nm]) + "]\n\n"
    # QoS data subtypes: data-type frame-control octets (version 0) whose classification reports the QoS flag
    qos = sorted({fc0 >> 4 for fc0, o, r, hl, fl in pr["classify"] if r == 0 and (fc0 & 3) == 0 and ((fc0 >> 2) & 3) == 2 and fl >= 0 and (fl & 2)})
    s += "/-- data subtypes classified as QoS (behavioural tabulation over all frame-control octets) -/\n"
    s += "def qosSubtypes : List Nat := [%s]\n" % ", ".join(map(str, qos))
    s += "def rtapSizes : List (Nat × Nat) := [%s]\n" % ", ".join("(%d, %d)" % (a, b) for a, b in pr["rtap_sizes"])
    s += "def rtapNBits : Nat := %d\n" % pr["rtap_nbits"]
    s += "\nend LWV.Gen\n"
    out["Tables.lean"] = s
    # ---- Cap
    s = HEADER
    s += "def capTokens : List Name := [%s]\n" % ", ".join(lname(t) for t in data["cap_tokens"])
    if data["cap_tree"]:
        s += "def capTree : Option CExpr := some %s\n" % data["cap_tree"]
    else:
        s += "def capTree : Option CExpr := none\n"
    s += "\nend LWV.Gen\n"
    out["Cap.lean"] = s
    # ---- Epoch
    s = HEADER
    if data["epoch_expr"]:
        s += "def epochExpr : Option EExpr := some (%s)\n" % data["epoch_expr"]
    else:
        s += "def epochExpr : Option EExpr := none\n"
    s += "\nend LWV.Gen\n"
    out["Epoch.lean"] = s
    # ---- Objects
    s = HEADER
    s += "def objectFiles : List ObjFile := [\n"
    items = []
    for f in data["objects"]:
        ws = ", ".join("(%s, %d)" % (lstr(n), z) for n, z in sorted(f["writable_sections"].items()))
        tls = ", ".join("(%s, %d)" % (lstr(n), z) for n, z in sorted(f["tls"].items()))
        ob = ", ".join("⟨%s, %s, %d, %d⟩" % (lstr(n), lstr(sec), c, z) for n, sec, c, z in f["objects"])
        items.append("  ⟨%s, [%s], [%s], [%s]⟩" % (lstr(f["file"]), ws, tls, ob))
    s += ",\n".join(items) + "]\n\nend LWV.Gen\n"
    out["Objects.lean"] = s
    # ---- Imports: every symbol some object file leaves undefined (resolved by another object of the library or by libc)
    defined = set()
    allimp = set()
    for f in data["objects"]:
        allimp |= set(f.get("imports", []))
    s = HEADER
    s += "/-- undefined symbols of the -O2 objects: what the library calls outside its own translation units -/\n"
    s += "def imports : List Name := [\n  " + ",\n  ".join(lname(x) for x in sorted(allimp) if all(32 <= ord(c) < 127 and c not in '"\\' for c in x)) + "]\n\nend LWV.Gen\n"
    out["Imports.lean"] = s
    return out


def desc_tables(pr):
    """Turn single-bit outputs + all-ones order into ordered (bit, name) tables."""
    notes = []
    for r, d in pr["desc"].items():
        singles = {b: n for b, n in d["singles"]}
        order = d["all"].split(", ") if d["all"] else []
        table = []
        used = set()
        for nm in order:
            cands = [b for b, n in sorted(singles.items()) if n == nm and b not in used]
            if not cands:
                notes.append("%s: name %r of the all-ones output has no single-bit origin" % (r, nm))
                continue
            table.append((cands[0], nm))
            used.add(cands[0])
        for b, n in sorted(singles.items()):
            if b not in used:
                notes.append("%s: bit %d (%r) missing from the all-ones output" % (r, b, n))
                table.append((b, n))
        d["table"] = table
    return notes


def generate():
    ensure_dirs()
    meta = {"notes": [], "repo": REPO}
    enums, records = harvest_header()
    macros = harvest_macros()
    nummacros = numeric_macros(macros)
    pr = parse_probe(enums, records, nummacros, macros)
    meta["notes"] += desc_tables(pr)
    enumvals = {}
    for en, ents in pr["enums"].items():
        for n, v in ents:
            enumvals[n] = v
    data = {"probe": pr}
    tn, src = tag_name_cases(enumvals)
    behav = [(v, n) for v, n in pr["tagnames"]]
    if tn is None:
        data["tagname_cases"] = behav
        data["tagname_default"] = pr["tagname_default"]
        data["tagname_source"] = "behavioural (-1024..1024): " + src
        meta["notes"].append("tag-name switch not extracted syntactically (%s); behavioural table used" % src)
    else:
        cases, default = tn
        data["tagname_cases"] = cases
        data["tagname_default"] = default if default is not None else pr["tagname_default"]
        data["tagname_source"] = "ast"
        # cross-check against behaviour
        inrange = sorted((v, n) for v, n in cases if -1024 <= v <= 1024)
        if inrange != sorted(behav):
            meta["notes"].append("tag-name AST table disagrees with compiled behaviour on -1024..1024")
            meta["tagname_mismatch"] = {"ast_only": [x for x in inrange if x not in behav][:5], "behaviour_only": [x for x in behav if x not in inrange][:5]}
    ee, esrc = epoch_expr()
    data["epoch_expr"] = ee
    if ee is None:
        meta["notes"].append("epoch expression not extracted: " + esrc)
    toks = cap_macro(macros)
    data["cap_tokens"] = toks
    try:
        data["cap_tree"] = parse_cexpr(toks)
    except Exception as e:
        data["cap_tree"] = None
        meta["notes"].append("capability macro expansion not parsed: %s" % e)
    data["objects"] = object_facts()
    files = emit(data)
    changed = []
    for fn, content in files.items():
        if write_if_changed(os.path.join(GEN_DIR, fn), content):
            changed.append(fn)
    meta["changed"] = changed
    meta["source_sha256"] = source_hashes()
    meta["probe"] = {k: pr[k] for k in ("tagname_extremes",)}
    meta["counts"] = {"enums": sum(len(v) for v in pr["enums"].values()), "macros": len(pr["macros"]), "layouts": len(pr["layouts"]),
                      "tagname_cases": len(data["tagname_cases"]), "objects": len(data["objects"])}
    dump_json(os.path.join(WORK, "gen_meta.json"), meta)
    dump_json(os.path.join(WORK, "gen_data.json"), data)
    return meta, data


if __name__ == "__main__":
    m, _ = generate()
    print(json.dumps({k: m[k] for k in ("notes", "changed", "counts")}, indent=1))
