#!/usr/bin/env python3
"""Self-test of the checks against kept seeded changes.

  seedtest.py import <out-dir> <name>      copy a sub-agent's delivery into /verif/seeded/<name>/
  seedtest.py run <name> [props...]        apply /verif/seeded/<name>/patch.diff to /repo, confirm the
                                           demonstration and the test-suite, run the quick checks of the given
                                           properties (default: the seeded property), undo, write result.json
  seedtest.py all                          run every kept change against its own property

/repo is always restored with `git checkout -- .`; nothing is committed there.
"""
import json
import os
import shutil
import subprocess
import sys
import time

HERE = os.path.dirname(os.path.abspath(__file__))
sys.path.insert(0, HERE)
from common import *  # noqa

SEEDED = os.path.join(VERIF, "seeded")


def sh(cmd, **kw):
    return subprocess.run(cmd, capture_output=True, text=True, **kw)


def repo_clean():
    r = sh(["git", "-C", REPO, "status", "--porcelain", "--untracked-files=no"])
    return r.stdout.strip() == ""


def do_import(src, name):
    dst = os.path.join(SEEDED, name)
    os.makedirs(dst, exist_ok=True)
    for f in ("patch.diff", "demo.c", "demo.sh", "meta.json"):
        p = os.path.join(src, f)
        if os.path.exists(p):
            shutil.copy(p, os.path.join(dst, f))
    # demo scripts refer to their own directory and to /tmp/seed for the binary: make them relocatable
    d = os.path.join(dst, "demo.sh")
    if os.path.exists(d):
        s = open(d).read().replace(src.rstrip("/"), '"$(dirname "$(readlink -f "$0")")"')
        open(d, "w").write(s)
        os.chmod(d, 0o755)
    print("imported", dst)


ALL_PROPS = ["C%02d" % i for i in range(1, 21)]


def run_one(name, props=None):
    d = os.path.join(SEEDED, name)
    meta = json.load(open(os.path.join(d, "meta.json")))
    keep = "property" not in meta          # a behaviour-preserving rewrite: no check may alarm
    prop = meta.get("property", "none")
    props = props or (ALL_PROPS if keep else [prop])
    if not repo_clean():
        print("refusing: /repo has uncommitted changes")
        return None
    res = {"name": name, "property": prop, "summary": meta.get("summary"), "trigger": meta.get("trigger"), "checks": {}}
    try:
        r = sh(["git", "-C", REPO, "apply", os.path.join(d, "patch.diff")])
        if r.returncode != 0:
            res["error"] = "patch does not apply: " + r.stderr[-300:]
            return res
        os.makedirs("/tmp/seed", exist_ok=True)
        if os.path.exists(os.path.join(d, "demo.sh")) and not keep:
            r = sh(["bash", os.path.join(d, "demo.sh"), REPO], cwd=d, timeout=600)
            res["demo_exit"] = r.returncode
            res["demo_tail"] = (r.stdout + r.stderr)[-600:]
        r = sh([os.path.join(HERE, "baseline.sh")], timeout=1800)
        res["tests_pass"] = r.returncode == 0 and "100% tests passed" in r.stdout
        for p in props:
            t0 = time.time()
            env = dict(os.environ, LWV_EVIDENCE_DIR=os.path.join(WORK, "seed_evidence"), LWV_REPLAY_DIR=os.path.join(WORK, "seed_replays"))
            r = sh(["python3", os.path.join(VERIF, "check.py"), p, "--tier", "quick"], timeout=7200, env=env)
            vio = [l for l in r.stdout.splitlines() if l.startswith("VIOLATION")]
            res["checks"][p] = {"exit": r.returncode, "violations": len(vio), "with_input": sum(1 for v in vio if "no-failing-input-found" not in v),
                                "first": (vio[0] if vio else ""), "why": [l.strip()[:400] for l in r.stderr.splitlines() if l.strip().startswith("->")][:2], "wall_s": round(time.time() - t0, 1)}
    finally:
        sh(["git", "-C", REPO, "checkout", "--", "."])
    res["caught_by"] = sorted(p for p, c in res["checks"].items() if c["exit"] != 0)
    res["expect"] = "no alarm" if keep else "caught"
    dump_json(os.path.join(d, "result.json"), res)
    return res


def main():
    a = sys.argv[1:]
    if not a:
        print(__doc__)
        return 2
    if a[0] == "import":
        do_import(a[1], a[2])
        return 0
    if a[0] == "run":
        r = run_one(a[1], a[2:] or None)
        print(json.dumps(r, indent=1))
        return 0
    if a[0] in ("all", "pending"):
        for n in sorted(os.listdir(SEEDED)):
            if a[0] == "pending" and os.path.exists(os.path.join(SEEDED, n, "result.json")):
                continue
            if os.path.exists(os.path.join(SEEDED, n, "patch.diff")):
                r = run_one(n)
                print(n, "caught_by=", r.get("caught_by"), "demo_exit=", r.get("demo_exit"), "tests_pass=", r.get("tests_pass"), r.get("error", ""))
        return 0
    return 2


if __name__ == "__main__":
    sys.exit(main())
