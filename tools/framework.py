"""Verdict machinery shared by all property checks (DESIGN.md 2.3)."""
import glob
import hashlib
import json
import os
import re
import sys
import time

sys.path.insert(0, os.path.dirname(os.path.abspath(__file__)))
from common import *  # noqa
import gen as genmod

ALLOWED_AXIOMS = {"propext", "Classical.choice", "Quot.sound"}
FORBIDDEN = re.compile(r"\bsorry\b|\badmit\b|^\s*axiom\s|\bnative_decide\b|\bbv_decide\b|\bimplemented_by\b|\bunsafe\s|maxHeartbeats\s+0\b", re.M)

TRUSTED_BASE = [
    "Lean 4.33.0 kernel (thorough tier: re-checked with leanchecker)",
    "axioms: only those printed per theorem under coverage.theorems (expected subset of propext, Classical.choice, Quot.sound); no sorry/admit/native_decide/bv_decide/user axioms (grep + #print axioms on every run)",
    "translator /verif/tools/gen.py with gcc 12 / clang 14 as evaluators of constants, layouts, case labels and macro expansion; cross-checked by exhaustive behavioural tabulation of the compiled functions",
    "correspondence harness (/verif/harness, ASan/UBSan, link-time --wrap) + Python orchestrator: differential testing bounds what the hand-written Model is known to match",
    "Spec: the reading of the property statements in DESIGN.md section 6 and the hand transcription of IEEE / radiotap tables",
    "modelled, not verified: C compiler, libc (memcpy/malloc/snprintf/getrandom/clock_gettime as primitives), little-endian x86-64",
]


class Ctx:
    def __init__(self, prop, tier, seed):
        self.prop = prop
        self.tier = tier
        self.seed = seed
        self.t0 = time.time()
        self.violations = []      # (signature, what, replay_path, found_input)
        self.known_hits = []
        self.obligations = []     # dicts {kind,name,ok,detail}
        self.coverage = {}
        self.samples = []
        self.evaluations = 0
        self.distinct = set()
        self.assumptions = []
        self.notes = []
        self.known = load_known()
        self.gen_meta = None
        self.gen_data = None
        self.rule = ""

    # -- obligations
    def oblige(self, kind, name, ok, detail=""):
        self.obligations.append({"kind": kind, "name": name, "ok": bool(ok), "detail": detail})
        return ok

    def count(self, n, keys=()):
        self.evaluations += n
        for k in keys:
            self.distinct.add(k)

    def sample(self, s, limit=12):
        if len(self.samples) < limit:
            self.samples.append(s)

    # -- violations
    def violation(self, signature, what, replay, found_input=True):
        """replay: dict written to a replay file. Returns True if it counts (not a known finding)."""
        for k in self.known.get("open", []):
            if k.get("property") == self.prop and k.get("signature") == signature:
                if signature not in [h[0] for h in self.known_hits]:
                    self.known_hits.append((signature, k.get("what", what)))
                return False
        if any(v[0] == signature for v in self.violations):
            return True
        os.makedirs(REPLAY_DIR, exist_ok=True)
        h = hashlib.sha256((self.prop + signature).encode()).hexdigest()[:12]
        path = os.path.join(REPLAY_DIR, "%s-%s.json" % (self.prop, h))
        rp = dict(replay)
        rp.update({"property": self.prop, "signature": signature, "what": what, "seed": self.seed, "found_input": found_input})
        dump_json(path, rp)
        self.violations.append((signature, what, path, found_input))
        return True

    def finish(self):
        for sig, what in self.known_hits:
            print("KNOWN-FINDING: property=%s %s" % (self.prop, what))
        nob = len(self.obligations)
        ndis = sum(1 for o in self.obligations if o["ok"])
        cov = {
            "obligations": nob,
            "discharged": ndis,
            "checker_cmd": "python3 /verif/check.py %s --tier %s  (gen.py -> lake build LWV.Props.%s -> #print axioms -> Gen validation -> correspondence)" % (self.prop, self.tier, self.prop),
            "trusted_base": TRUSTED_BASE,
            "obligation_list": self.obligations,
            "evaluations": self.evaluations,
            "distinct_nontrivial": len(self.distinct),
            "rule": self.rule,
            "samples": self.samples if self.samples else [o["name"] for o in self.obligations[:5]],
            "known_findings_hit": [h[0] for h in self.known_hits],
            "gen_notes": (self.gen_meta or {}).get("notes", []),
            "source_tree_sha256": tree_digest(),
            "notes": self.notes,
        }
        cov.update(self.coverage)
        ev = {
            "property_id": self.prop,
            "tier": self.tier,
            "seed": self.seed,
            "level": "proof",
            "coverage": cov,
            "assumptions": self.assumptions,
            "wall_s": round(time.time() - self.t0, 2),
            "violations": len(self.violations),
        }
        dump_json(os.path.join(EVIDENCE_DIR, self.prop + ".json"), ev)
        for sig, what, path, found in self.violations[:6]:
            print("VIOLATION property=%s replay=%s%s" % (self.prop, path, "" if found else " no-failing-input-found"))
            log("  -> " + what)
        if len(self.violations) > 6:
            log("  (+ %d further violations, see evidence and %s)" % (len(self.violations) - 6, REPLAY_DIR))
        return 1 if self.violations else 0


class Recorder(Ctx):
    """A context that only records the operation lines another property's check would run
    (used by C01/C13 to re-use the input corpora of the functional checks)."""
    recording = True

    def __init__(self, prop, tier, seed, gen=None):
        Ctx.__init__(self, prop, tier, seed)
        self.recorded = []
        self._gen = gen

    def oblige(self, kind, name, ok, detail=""):
        return ok

    def violation(self, signature, what, replay, found_input=True):
        return False


def collect_corpus(ctx, props, tier=None, keep=None):
    """Run the checks of `props` in recording mode; returns [(prop, suite, line)]."""
    import importlib
    out = []
    for p in props:
        rec = Recorder(p, tier or ctx.tier, ctx.seed, gen=(ctx.gen_meta, ctx.gen_data))
        importlib.import_module("checks." + p.lower()).check(rec)
        for suite, l in rec.recorded:
            if keep is None or keep(l):
                out.append((p, suite, l))
    return out


_CORPUS = None


def parse_corpus():
    """[(radiotap mode, bytes)] from /verif/corpus/parse.txt (coverage-guided corpus built on the clean tree)"""
    global _CORPUS
    if _CORPUS is None:
        _CORPUS = []
        p = os.path.join(VERIF, "corpus", "parse.txt")
        if os.path.exists(p):
            for l in open(p):
                if l.startswith("#") or not l.strip():
                    continue
                rt, h = l.split()
                _CORPUS.append((int(rt), bytes.fromhex(h) if h != "-" else b""))
    return _CORPUS


INTERESTING8 = (0x00, 0x01, 0x02, 0x06, 0x07, 0x10, 0x20, 0x30, 0x3d, 0x7f, 0x80, 0xdd, 0xfe, 0xff)
INTERESTING16 = (0, 1, 6, 7, 8, 255, 256, 1023, 1024, 1025, 0x3fff, 0x4000, 0x4001, 0x7fff, 0x8000, 0xffff)


def mutate(b, rnd, pool):
    """one structure-blind mutation (what a coverage-guided fuzzer applies), deterministic in rnd"""
    b = bytearray(b)
    k = rnd.randrange(9)
    if not b:
        return bytes(rnd.getrandbits(8) for _ in range(rnd.choice([1, 2, 8, 24])))
    i = rnd.randrange(len(b))
    if k == 0:
        b[i] ^= 1 << rnd.randrange(8)
    elif k == 1:
        b[i] = rnd.choice(INTERESTING8)
    elif k == 2:
        b[i] = (b[i] + rnd.choice([1, -1])) & 0xff
    elif k == 3 and len(b) >= 2:
        j = rnd.randrange(len(b) - 1)
        b[j:j + 2] = rnd.choice(INTERESTING16).to_bytes(2, rnd.choice(["little", "big"]))
    elif k == 4:
        del b[rnd.randrange(len(b)):]                      # truncate
    elif k == 5:
        del b[i:i + rnd.choice([1, 2, 4])]                 # drop a few octets
    elif k == 6:
        b[i:i] = bytes(rnd.choice(INTERESTING8) for _ in range(rnd.choice([1, 2, 4])))
    elif k == 7 and pool:
        o = rnd.choice(pool)[1]
        if o:
            j = rnd.randrange(len(o))
            b[i:] = o[j:]                                  # splice with another corpus entry
    else:
        b += bytes(rnd.getrandbits(8) for _ in range(rnd.choice([1, 2, 4, 8])))
    return bytes(b)


def corpus_inputs(ctx, rnd, per_entry=None):
    """corpus entries and `per_entry` mutants of each: [(rt, bytes)], de-duplicated"""
    pool = parse_corpus()
    n = per_entry if per_entry is not None else (3 if ctx.tier == "quick" else 24)
    seen, out = set(), []
    for rt, b in pool:
        cands = [b]
        for _ in range(n):
            m = mutate(b, rnd, pool)
            if rnd.random() < 0.3:
                m = mutate(m, rnd, pool)
            cands.append(m)
        for c in cands:
            if len(c) <= 1200 and (rt, c) not in seen:
                seen.add((rt, c))
                out.append((rt, c))
    return out


def load_known():
    p = os.path.join(VERIF, "known_findings.json")
    if os.path.exists(p):
        with open(p) as f:
            return json.load(f)
    return {"open": [], "fixed": []}


# ----------------------------------------------------------------------------- Lean
def strip_lean_comments(s):
    out = []
    i = 0
    depth = 0
    n = len(s)
    while i < n:
        if s.startswith("/-", i):
            depth += 1
            i += 2
        elif depth and s.startswith("-/", i):
            depth -= 1
            i += 2
        elif depth:
            i += 1
        elif s.startswith("--", i):
            while i < n and s[i] != "\n":
                i += 1
        elif s[i] == '"':
            j = i + 1
            while j < n and s[j] != '"':
                j += 2 if s[j] == "\\" else 1
            out.append('""')
            i = j + 1
        else:
            out.append(s[i])
            i += 1
    return "".join(out)


def lean_sources(extra=()):
    """Every Lean file that can take part in a build: all files a module of the library or the driver imports
    (transitively, resolved textually), plus the generated ones. A scratch file nobody imports is not part of any proof."""
    roots = [os.path.join(LEAN_DIR, "Driver.lean")] + sorted(glob.glob(os.path.join(LEAN_DIR, "LWV", "Props", "C[0-9][0-9].lean"))) + \
        [os.path.join(LEAN_DIR, *m.split(".")) + ".lean" for m in extra]
    seen, todo = set(), list(roots)
    while todo:
        f = todo.pop()
        if f in seen or not os.path.exists(f):
            continue
        seen.add(f)
        for m in re.finditer(r"^import\s+(LWV[\w.]*)", open(f).read(), re.M):
            todo.append(os.path.join(LEAN_DIR, *m.group(1).split(".")) + ".lean")
    return sorted(seen)


def grep_forbidden(extra=()):
    hits = []
    for p in lean_sources(extra):
        if not os.path.exists(p):
            continue
        body = strip_lean_comments(open(p).read())
        for m in FORBIDDEN.finditer(body):
            hits.append("%s: %s" % (os.path.relpath(p, LEAN_DIR), m.group(0).strip()))
    return hits


def theorem_names(module):
    """All theorems declared in a Props module, fully qualified."""
    path = os.path.join(LEAN_DIR, *module.split(".")) + ".lean"
    src = strip_lean_comments(open(path).read())
    ns = []
    names = []
    for line in src.splitlines():
        m = re.match(r"\s*namespace\s+(\S+)", line)
        if m:
            ns.append(m.group(1))
            continue
        m = re.match(r"\s*end\s+(\S+)", line)
        if m and ns and ns[-1] == m.group(1):
            ns.pop()
            continue
        m = re.match(r"\s*(?:private\s+|protected\s+)?theorem\s+(\S+)", line)
        if m:
            names.append(".".join(ns + [m.group(1)]))
    return names, path


def theorem_at_line(path, line):
    cur = None
    for i, l in enumerate(open(path).read().splitlines(), 1):
        m = re.match(r"\s*(?:private\s+|protected\s+)?(theorem|example|def|lemma)\s+(\S*)", l)
        if m:
            cur = m.group(2) or "example@%d" % i
        if i >= line:
            break
    return cur


def lake_build(targets):
    """Returns (ok, errors) with errors = list of (file, line, message)."""
    rc, out, err = run(["lake", "build"] + targets, cwd=LEAN_DIR, timeout=3600)
    text = out + err
    errors = []
    for m in re.finditer(r"error: (\S+?\.lean):(\d+):(\d+): (.*)", text):
        errors.append((m.group(1), int(m.group(2)), m.group(4)))
    if rc != 0 and not errors:
        errors.append(("?", 0, text[-1500:]))
    return rc == 0, errors, text


def lean_prove(ctx, module):
    """Build the Props module(s); register one obligation per theorem; audit axioms.
    `module` may be a list: every theorem of every listed module is an obligation of the property."""
    modules = module if isinstance(module, (list, tuple)) else [module]
    names = []
    for mod in modules:
        ns, _ = theorem_names(mod)
        names += ns
    with Lock("lake"):
        ok, errors, text = lake_build(list(modules) + (["lwdriver"] if os.path.exists(os.path.join(LEAN_DIR, "Driver.lean")) else []))
        failed = {}
        if not ok:
            for f, line, msg in errors:
                full = os.path.join(LEAN_DIR, f)
                if os.path.exists(full):
                    t = theorem_at_line(full, line)
                    failed.setdefault("%s:%s" % (f, t), msg)
                else:
                    failed.setdefault(f, msg)
        axioms = {}
        if ok:
            aud = os.path.join(WORK, "audit_%s.lean" % ctx.prop)
            write_if_changed(aud, "".join("import %s\n" % m for m in modules) + "".join("#print axioms %s\n" % n for n in names))
            rc, out, err = run(["lake", "env", "lean", aud], cwd=LEAN_DIR, timeout=1200)
            for m in re.finditer(r"^'(\S+?)' (does not depend on any axioms|depends on axioms: \[([^\]]*)\])", out + err, re.S | re.M):
                axioms[m.group(1)] = [] if m.group(3) is None else [a.strip() for a in m.group(3).replace("\n", " ").split(",") if a.strip()]
            if rc != 0:
                ctx.notes.append("axiom audit exited %d: %s" % (rc, (out + err)[-400:]))
    forb = grep_forbidden(modules)
    ctx.oblige("audit", "no sorry/admit/axiom/native_decide/bv_decide/implemented_by/unsafe/maxHeartbeats 0 in Lean sources", not forb, "; ".join(forb[:5]))
    broken = []
    thm_cov = []
    for n in names:
        base = n.split(".")[-1]
        fkey = [k for k in failed if k.endswith(":" + base)]
        if not ok:
            # a failed build discharges nothing; name the theorems that failed to check
            good = False
            detail = failed[fkey[0]] if fkey else "module did not build"
            if fkey:
                broken.append((n, detail))
        else:
            ax = axioms.get(n)
            good = ax is not None and set(ax) <= ALLOWED_AXIOMS
            detail = "axioms: " + (", ".join(ax) if ax else "none") if ax is not None else "not found by #print axioms"
            if not good:
                broken.append((n, detail))
        ctx.oblige("theorem", n, good, detail)
        thm_cov.append({"theorem": n, "axioms": axioms.get(n), "checked": good})
    if not ok and not broken:
        broken.append((modules[0], "; ".join("%s: %s" % kv for kv in list(failed.items())[:3])))
    if forb:
        broken.append(("audit", "; ".join(forb[:5])))
    ctx.coverage["theorems"] = thm_cov
    ctx.coverage["lean_module"] = ", ".join(modules)
    if ctx.tier == "thorough" and ok:
        for mod in modules:
            with Lock("lake"):
                rc, out, err = run(["lake", "env", "leanchecker", mod], cwd=LEAN_DIR, timeout=3600)
            ctx.oblige("leanchecker", "leanchecker " + mod, rc == 0, (out + err)[-300:])
            if rc != 0:
                broken.append(("leanchecker", (out + err)[-300:]))
    return ok, broken, failed


def run_gen(ctx):
    with Lock("gen"):
        try:
            meta, data = genmod.generate()
        except Exception as e:
            ctx.oblige("gen", "translator run", False, str(e)[-800:])
            ctx.violation("gen:failed", "translator could not process the working tree: %s" % str(e)[-300:],
                          {"broken": "tools/gen.py", "error": str(e)[-2000:]}, found_input=False)
            return None, None
    ctx.gen_meta, ctx.gen_data = meta, data
    ctx.oblige("gen", "translator run (LWV/Gen regenerated from %s)" % REPO, True, "changed: %s" % ",".join(meta["changed"]))
    return meta, data


def driver_path():
    return os.path.join(LEAN_DIR, ".lake", "build", "bin", "lwdriver")


# ----------------------------------------------------------------------------- suites
import re as _re


def clip(x, n=400):
    x = x if isinstance(x, str) else repr(x)
    return x if len(x) <= n else x[:n] + "...(%d chars)" % len(x)


def split_model(m):
    a, sep, b = (m or "").partition(" ;; spec=")
    return a, (b if sep else None)


def spec_matches(c, spec):
    """Does the implementation's canonical output satisfy the Spec's expectation?"""
    if spec is None or spec == "any":
        return c is not None and not c.startswith("CRASH")
    if spec.startswith("relation ") or spec == "no crash":
        return False
    if c is None or c.startswith("CRASH"):
        return False
    if spec == "refuse":
        return _re.match(r"^err -\d+", c) is not None
    if spec.startswith("ends-with "):
        return c.endswith(spec[len("ends-with "):])
    if spec.startswith("any-ok-or-refuse"):
        return True
    if " # " in spec:
        cs, ss = c.split(" # "), spec.split(" # ")
        if len(cs) != len(ss):
            return False
        for a, b in zip(cs, ss):
            if b.endswith("=?"):
                if not a.startswith(b[:-1]):
                    return False
            elif b.endswith("=err*"):
                if _re.match(_re.escape(b[:-4]) + r"err-\d+$", a) is None:
                    return False
            elif a != b:
                return False
        return True
    if " edit=* " in spec:
        c = _re.sub(r" edit=-?\d+ ", " edit=* ", c)
    if spec == "six":        # random address: exactly six bytes were produced
        return _re.match(r"^mac=[0-9a-f]{12} calls=\d+$", c) is not None
    if spec.startswith("prefix "):
        return _re.match(r"^mac=%s[0-9a-f]{6} calls=\d+$" % spec.split()[1], c) is not None
    return c == spec


# Cross-cutting perturbations of the harness environment.  None of them is visible to a correct library: extra bytes
# behind the input, other pre-fill of output objects and heap blocks, an unrelated library call in front of every
# operation, the input block off its natural alignment, a non-zero errno left by an earlier unrelated failure.  Every suite of every check is re-run in part under one of
# them (chosen by the suite's name), against the same model output.
PERTURBED = [
    {"LWV_TRAIL": "16", "LWV_PREFILL": "0", "LWV_FILL": "205", "LWV_PRECALL": "1", "LWV_MISALIGN": "3", "LWV_ERRNO": "2"},
    {"LWV_TRAIL": "3", "LWV_PREFILL": "255", "LWV_FILL": "0", "LWV_MISALIGN": "1", "LWV_ERRNO": "12"},
    {"LWV_PREFILL": "90", "LWV_MISALIGN": "4", "LWV_PRECALL": "1", "LWV_ERRNO": "22"},
]
# operations whose harness output is defined independently of these knobs ("alloc" arms the allocation ledger itself and
# "threads" / digests ("sweep3", "rtgrange", "descrange") are aggregate runs)
PERTURB_OPS = {"cls", "mp", "eap", "rtp", "it", "crc", "rssi", "ie", "gen", "tg", "tgl", "tgd", "rtg", "desc", "tagdump", "rmac", "tagname", "epoch"}


def perturbed_rerun(ctx, exe, suite, lines, c_outs, m_outs, what, canon_c):
    import diffrun
    import zlib
    idx = [i for i, l in enumerate(lines) if l.split(" ", 1)[0] in PERTURB_OPS and c_outs[i] is not None and not c_outs[i].startswith(("CRASH", "SKIPPED"))]
    if not idx:
        return
    step = max(1, len(idx) // (1500 if ctx.tier == "quick" else 12000))
    idx = idx[(ctx.seed % step)::step]
    env = PERTURBED[zlib.crc32(suite.encode()) % len(PERTURBED)]
    sub = [lines[i] for i in idx]
    outs = []
    crashes = 0
    for co, cr in diffrun.parallel_map(lambda ch: diffrun.run_harness_all(exe, ch, env=env), diffrun.chunked(sub, 16)):
        outs += co
        crashes += len(cr)
    bad = 0
    for i, o in zip(idx, outs):
        mm, spec = split_model(m_outs[i])
        a = canon_c(o) if (canon_c and o) else o
        b = canon_c(c_outs[i]) if (canon_c and c_outs[i]) else c_outs[i]
        if a != b:
            bad += 1
            if bad <= 2:
                ctx.violation("%s@perturbed:%s" % (suite, lines[i]), "%s: `%s` gives %r in the plain environment and %r with %s — the result depends on something other than the arguments" % (
                    what, clip(lines[i], 200), clip(c_outs[i]), clip(o), " ".join("%s=%s" % kv for kv in sorted(env.items()))),
                    {"kind": "line", "suite": suite + "@perturbed", "line": lines[i], "observed": o, "expected": spec if spec not in (None, "any") else c_outs[i], "model": mm, "env": env})
    ctx.count(len(sub))
    ctx.oblige("correspondence", "%s: same output under a perturbed environment (%s) on %d of its lines" % (suite, " ".join("%s=%s" % kv for kv in sorted(env.items())), len(sub)), bad == 0 and crashes == 0,
               "%d differing, %d crashes" % (bad, crashes))


def run_suite(ctx, exe, suite, lines, what, env=None, max_report=4, canon_c=None, relcheck=None):
    """Differential run of one suite. Registers the correspondence obligation and the
    spec-on-implementation obligation; files violations with the line as replay.
    Returns (c_outs, m_outs, n_disagreements)."""
    import diffrun
    if not lines:
        return [], [], 0
    if getattr(ctx, "recording", False):
        ctx.recorded += [(suite, l) for l in lines]
        return [None] * len(lines), [None] * len(lines), 0
    c_outs, m_outs, dis, crashes = diffrun.differential(exe, lines, env=env, canon_c=canon_c, canon_m=lambda m: split_model(m)[0])
    ctx.count(len(lines))
    specbad = 0
    reported = 0
    kinds = {}
    rel = None
    if relcheck is not None:
        # second pass: the Spec relation evaluated on the implementation's own outputs
        rl = [relcheck(l, c) for l, c in zip(lines, c_outs)]
        idx = [i for i, x in enumerate(rl) if x is not None]
        res = diffrun.parallel_map(diffrun.run_driver, diffrun.chunked([rl[i] for i in idx], 16)) if idx else []
        flat = [x for ch in res for x in ch]
        rel = dict(zip(idx, flat))
    for i, (l, c, m) in enumerate(zip(lines, c_outs, m_outs)):
        mm, spec = split_model(m)
        if rel is not None:
            verdict = rel.get(i)
            if c is None or c.startswith("CRASH"):
                spec = "no crash"
            elif verdict is None or verdict == "holds":
                spec = "any"
            else:
                spec = "relation " + verdict
        cc = canon_c(c) if (canon_c and c) else c
        key = (l.split()[0], (cc or "").split()[0] if cc else "none")
        kinds[key] = kinds.get(key, 0) + 1
        ctx.distinct.add((suite, l.split()[0], cc))
        if not spec_matches(cc, spec):
            specbad += 1
            if reported < max_report:
                reported += 1
                ctx.violation("%s:%s" % (suite, l), "%s: `%s` gives %r, the property requires %r" % (what, l if len(l) < 200 else l[:200] + "...", clip(c), clip(spec if spec not in (None, "any") else "a result without sanitizer report / crash")),
                              {"kind": "line", "suite": suite, "line": l, "observed": c, "expected": spec, "model": mm, "env": env or {}})
    ctx.oblige("correspondence", "%s: C = model on %d lines" % (suite, len(lines)), not dis and not crashes,
               "%d disagreements, %d crashes%s" % (len(dis), len(crashes), ("; first: %r" % (dis[0][1:],)) if dis else ""))
    ctx.oblige("spec-on-impl", "%s: implementation output satisfies the Spec on %d lines" % (suite, len(lines)), specbad == 0, "%d failing" % specbad)
    ctx.coverage.setdefault("suites", {})[suite] = {"lines": len(lines), "disagreements": len(dis), "crashes": len(crashes), "spec_failures": specbad,
                                                     "outcome_histogram": {"%s/%s" % k: v for k, v in sorted(kinds.items(), key=lambda kv: -kv[1])[:12]}}
    if lines:
        i = len(lines) // 3
        ctx.sample({"suite": suite, "op": lines[i][:300], "c": (c_outs[i] or "")[:300], "model": (m_outs[i] or "")[:300]})
    ctx._pending_dis = getattr(ctx, "_pending_dis", []) + [(suite, l, c, m) for _, l, c, m in dis[:5]]
    if env is None and os.environ.get("LWV_NO_PERTURB") != "1":
        perturbed_rerun(ctx, exe, suite, lines, c_outs, m_outs, what, canon_c)
    return c_outs, m_outs, len(dis) + len(crashes)


def conclude(ctx, broken):
    """Common tail of every check: broken proof obligations / correspondences without a concrete
    failing input still mean the property is no longer shown."""
    if getattr(ctx, "recording", False):
        return
    if broken and not ctx.violations:
        for name, detail in broken[:3]:
            ctx.violation("theorem:" + name, "proof obligation no longer checks: %s — %s" % (name, detail[:300]), {"broken": name, "detail": detail}, found_input=False)
    pend = getattr(ctx, "_pending_dis", [])
    if pend and not ctx.violations:
        ctx.violation("correspondence:" + pend[0][0], "model and implementation disagree (suite %s) but no input violating the property was found" % pend[0][0],
                      {"broken": "correspondence " + pend[0][0], "examples": [(s, l[:300], c, m) for s, l, c, m in pend[:5]]}, found_input=False)


def prepare(ctx, module, variant="asan"):
    """gen -> prove -> harness. Returns (ok, broken, data, exe) or None when the run cannot continue."""
    import diffrun
    if getattr(ctx, "recording", False):
        ctx.gen_meta, ctx.gen_data = ctx._gen
        exe, err = diffrun.build_harness(variant)
        return (True, [], ctx.gen_data, exe) if exe else None
    meta, data = run_gen(ctx)
    if meta is None:
        return None
    ok, broken, failed = lean_prove(ctx, module)
    exe, err = diffrun.build_harness(variant)
    if exe is None:
        ctx.oblige("harness", "harness builds from the working tree", False, (err or "")[-500:])
        ctx.violation("harness:build", "the working tree does not compile into the harness", {"broken": "harness build", "error": (err or "")[-2000:]}, found_input=False)
        return None
    if not os.path.exists(driver_path()):
        ctx.violation("driver:missing", "Lean driver did not build", {"broken": "lwdriver"}, found_input=False)
        return None
    return ok, broken, data, exe


def replay_line(rp, canon_c=None):
    import diffrun
    if rp.get("kind") != "line":
        return False, "replay names a broken obligation, not an input: %s" % rp.get("broken")
    exe, err = diffrun.build_harness("asan")
    if exe is None:
        return False, "harness does not build: %s" % (err or "")[-300:]
    co, mo, d, cr = diffrun.differential(exe, [rp["line"]], env=rp.get("env") or None, canon_m=lambda m: split_model(m)[0])
    spec = split_model(mo[0])[1]
    if rp.get("suite", "").endswith("@perturbed") and spec in (None, "any"):
        plain, _ = diffrun.run_harness_all(exe, [rp["line"]])
        return co[0] == plain[0], "%s -> %r plain, %r with %s" % (rp["line"][:300], plain[0], co[0], rp.get("env"))
    c = canon_c(co[0]) if canon_c and co[0] else co[0]
    return spec_matches(c, spec), "%s -> %r (property requires %r)" % (rp["line"][:300], co[0], spec)
