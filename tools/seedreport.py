#!/usr/bin/env python3
"""Markdown table of /verif/seeded/*/result.json (pasted into DESIGN.md section 11.5)."""
import glob
import json
import os
import sys

sys.path.insert(0, os.path.dirname(os.path.abspath(__file__)))
from common import VERIF

rows = []
for d in sorted(glob.glob(os.path.join(VERIF, "seeded", "*"))):
    n = os.path.basename(d)
    if not os.path.exists(os.path.join(d, "meta.json")):
        continue
    m = json.load(open(os.path.join(d, "meta.json")))
    r = json.load(open(os.path.join(d, "result.json"))) if os.path.exists(os.path.join(d, "result.json")) else None
    if "property" in m:
        what = (m.get("summary") or "").replace("|", "/")
        if len(what) > 170:
            what = what[:167] + "..."
        if r is None:
            res = "not run yet"
        else:
            c = r["checks"].get(m["property"], {})
            res = ("caught by %s: %d violation(s), %d with a concrete replay" % (", ".join(r["caught_by"]), c.get("violations", 0), c.get("with_input", 0))) if r["caught_by"] else "**MISSED**"
            if r.get("demo_exit") != 1 or not r.get("tests_pass"):
                res += " (demo exit %s, tests pass %s)" % (r.get("demo_exit"), r.get("tests_pass"))
        rows.append("| %s | %s | %s | %s |" % (n, ", ".join(os.path.basename(f) for f in m.get("files", [])), what, res))
    else:
        if r is None:
            res = "not run yet"
        else:
            al = r["caught_by"]
            res = "no check alarms (20 quick checks)" if not al else "**FALSE ALARM** from " + ", ".join(al)
        rows.append("| %s | %s | %d behaviour-preserving rewrites | %s |" % (n, (m.get("area") or "")[:60].replace("|", "/"), len(m.get("rewrites", [])), res))
print("| change | files | what it does | result of the quick check(s) |")
print("|---|---|---|---|")
print("\n".join(rows))


def write_into_design():
    """replace the table between the seedtable markers of DESIGN.md"""
    p = os.path.join(VERIF, "DESIGN.md")
    s = open(p).read()
    b, e = "<!-- seedtable:begin -->", "<!-- seedtable:end -->"
    i, j = s.index(b) + len(b), s.index(e)
    t = "\n".join(["| change | files | what it does | result of the quick check(s) |", "|---|---|---|---|"] + rows) + "\n"
    open(p, "w").write(s[:i] + "\n" + t + s[j:])


if "--write" in sys.argv:
    write_into_design()
