#!/usr/bin/env python3
"""Single entry point:  python3 check.py <Cxx> [--tier quick|thorough] [--replay file]

Exit 0: the property held on everything explored (evidence written).
Exit 1: a line `VIOLATION property=<id> replay=<path>[ no-failing-input-found]` was printed.
"""
import argparse
import importlib
import json
import os
import sys
import traceback

HERE = os.path.dirname(os.path.abspath(__file__))
sys.path.insert(0, os.path.join(HERE, "tools"))
sys.path.insert(0, HERE)
from common import *  # noqa
import framework


def main():
    ap = argparse.ArgumentParser()
    ap.add_argument("prop")
    ap.add_argument("--tier", default=os.environ.get("VERIF_TIER", "quick"), choices=["quick", "thorough"])
    ap.add_argument("--replay")
    a = ap.parse_args()
    seed = int(os.environ.get("VERIF_SEED", "1") or "1")
    prop = a.prop.upper()
    mod = importlib.import_module("checks." + prop.lower())
    ensure_dirs()
    if a.replay:
        rp = json.load(open(a.replay))
        ok, msg = mod.replay(rp)
        print(("REPLAY-PASSES " if ok else "REPLAY-FAILS ") + msg)
        if not ok:
            print("VIOLATION property=%s replay=%s" % (prop, a.replay))
        return 0 if ok else 1
    ctx = framework.Ctx(prop, a.tier, seed)
    try:
        mod.check(ctx)
    except Exception as e:  # the machinery itself broke: the property is not shown
        traceback.print_exc()
        ctx.oblige("machinery", "check ran to completion", False, repr(e)[-500:])
        ctx.violation("machinery:" + type(e).__name__, "the check could not be completed: %r" % (e,),
                      {"broken": "check machinery", "error": traceback.format_exc()[-3000:]}, found_input=False)
    return ctx.finish()


if __name__ == "__main__":
    sys.exit(main())
