"""C07 — serialisation never writes outside the caller's buffer."""
import random

from common import *  # noqa
import framework as fw
from checks import c03

MODULE = ["LWV.Props.C07", "LWV.Props.C07Any"]


def check(ctx):
    ctx.rule = ("every dump routine (11 frame kinds + ATIM/RTS/CTS in-memory copies + single tags) on varied objects x EVERY buffer size 0..encoding+2 (exhaustive per object), buffer = exact-size heap block "
                "pre-filled 0xA5 under ASan (error => untouched, success => exactly the reported bytes, nothing beyond); radiotap generation for present words of the first 23 bits with 16 antennas and "
                "all-ones values in blocks of 4096 (%s); random-address generation with and without every kind of prefix and with full / short / failing random sources into an exact 6-byte block; "
                "distinct = (op, output)" % ("ALL 2^23 selections" if ctx.tier == "thorough" else "64 seeded blocks + first/last"))
    r = fw.prepare(ctx, MODULE)
    if r is None:
        return
    ok, broken, data, exe = r
    rnd = random.Random(ctx.seed)
    # ---- dumps at every buffer size
    lines = []
    import diffrun
    objs = []
    for k in c03.KINDS:
        for i in range(3 if ctx.tier == "quick" else 12):
            objs.append(c03.gen_line(rnd, k, ops=(i > 0)))
    # encoding lengths from the model
    outs = []
    for ch in diffrun.parallel_map(diffrun.run_driver, diffrun.chunked(objs, 16)):
        outs += ch
    for l, o in zip(objs, outs):
        try:
            L = int(o.split(" len=")[1].split()[0])
        except Exception:
            L = 64
        if L > 700:
            sizes = [0, 1, 23, 24, L - 2, L - 1, L, L + 1, L + 2]
        else:
            sizes = range(0, L + 3)
        for b in sizes:
            lines.append("%s buf=%d" % (l, b))
        if L <= 700:
            for b in range(max(0, L - 2), L + 8):          # the same object with the Order bit set by the caller
                lines.append("%s fcflags=128 buf=%d" % (l, b))
    ctx.coverage["exhaustive"] = True
    fw.run_suite(ctx, exe, "S-gen/dump-sizes", lines, "frame serialisation")
    # objects whose encoding is longer than 64 KiB: exact buffer, one short, far too short, generous
    big = []
    for kind in ("beacon", "probe_req", "deauth", "timing_ad"):
        n = 258 if kind != "timing_ad" else 300
        ops = ",".join("a:%d:%s" % (rnd.choice([221, 45, 61, 127]), bytes(rnd.getrandbits(8) for _ in range(255)).hex()) for _ in range(n))
        base = c03.gen_line(rnd, kind, ops=False) + " ops=" + ops
        L = int(diffrun.run_driver([base])[0].split(" len=")[1].split()[0])
        big += ["%s buf=%d" % (base, b) for b in (L, L - 1, L - 65536, 65535, 65536, L + 7)]
    fw.run_suite(ctx, exe, "S-gen/dump-beyond-64KiB", big, "serialisation of a frame longer than 64 KiB")
    # the same after short call sequences on every kind, into buffers around the interesting sizes
    fw.run_suite(ctx, exe, "S-gen/api-sequences-dump", c03.api_lines(random.Random(ctx.seed + 6), 60 if ctx.tier == "quick" else 1000, bufs=True), "frame serialisation after a short call sequence")
    tl = []
    for _ in range(40 if ctx.tier == "quick" else 300):
        L = rnd.choice([0, 1, 2, 3, 4, 10, 255, 256, 300])
        body = bytes(rnd.getrandbits(8) for _ in range(L)).hex() or "-"
        el = 2 + (L % 256)
        for b in sorted(set(list(range(0, min(el, 40) + 3)) + [el - 2, el - 1, el, el + 1, el + 2, L, L + 2])):
            if b >= 0:
                tl.append("tagdump %d %s %d" % (rnd.randrange(256), body, b))
    fw.run_suite(ctx, exe, "S-gen/tagdump-sizes", tl, "tag serialisation")
    # ---- radiotap generation bound
    nblocks = (1 << 23) // 4096
    blocks = list(range(nblocks)) if ctx.tier == "thorough" else sorted(set([0, nblocks - 1, (1 << 18) // 4096] + rnd.sample(range(nblocks), 64)))
    rl = ["rtgrange %d %d" % (b * 4096, (b + 1) * 4096) for b in blocks]
    c_outs, m_outs, _ = fw.run_suite(ctx, exe, "S-rtg/bound", rl, "radiotap generation bound")
    ctx.count(4096 * len(rl))
    maxlen = 0
    for l, c in zip(rl, c_outs):
        if c and c.startswith("maxlen="):
            v = int(c.split()[0].split("=")[1])
            maxlen = max(maxlen, v)
    lim = int(data["probe"]["macros"]["LIBWIFI_MAX_RADIOTAP_LEN"][1])
    ctx.oblige("spec-on-impl", "generated radiotap headers never exceed LIBWIFI_MAX_RADIOTAP_LEN (%d); largest seen %d" % (lim, maxlen), maxlen <= lim)
    if maxlen > lim:
        ctx.violation("rtg:toolong", "a generated radiotap header is %d bytes long, the documented maximum is %d" % (maxlen, lim), {"kind": "line", "suite": "S-rtg/bound", "line": rl[0]})
    # ---- random addresses
    ml = []
    for pfx in ["none", "000000", "ffffff", "0050f2", "aabbcc", "01", "-"]:
        for mode, rb in [(1, "112233445566"), (1, "000000000000"), (1, "ffffffffffff"), (2, "11"), (2, "1122"), (2, "-"), (3, "-"), (2, "1122334455")]:
            ml.append("rmac pfx=%s mode=%d rnd=%s" % (pfx, mode, rb))
    for _ in range(50):
        ml.append("rmac pfx=%s mode=1 rnd=%s" % (rnd.choice(["none", bytes(rnd.getrandbits(8) for _ in range(3)).hex()]), bytes(rnd.getrandbits(8) for _ in range(6)).hex()))
    fw.run_suite(ctx, exe, "S-gen/random-mac", ml, "random address generation")
    fw.conclude(ctx, broken)


def replay(rp):
    return fw.replay_line(rp)
