"""C08 — security classification follows the RSN and WPA elements exactly."""
import random

from common import *  # noqa
import framework as fw
import frames
from frames import IEEE, MS, suite, rsn_body, wpa_body, elem

MODULE = ["LWV.Props.C08", "LWV.Props.C04Full"]
OTHER = bytes([0xAA, 0xBB, 0xCC])
CIPHERS = list(range(0, 14))
AKMS = list(range(0, 21))


def beacon_with(rnd, kind, els, privacy):
    base = elem(0, b"net") + elem(3, bytes([rnd.randrange(1, 14)]))
    return frames.mgmt(kind, rnd, base + els, privacy=privacy, order=rnd.random() < 0.1)


def single_suite_lines(rnd):
    out = []
    for sel in range(256):
        for oui in (IEEE, MS, OTHER):
            for pos in range(3):
                g = suite(oui, sel) if pos == 0 else suite(IEEE, 4)
                p = [suite(oui, sel)] if pos == 1 else []
                a = [suite(oui, sel)] if pos == 2 else []
                out.append(frames.mp_line(beacon_with(rnd, "beacon", elem(48, rsn_body(g, p, a)), sel % 2 == 0), 0, rnd))
                g = suite(oui, sel) if pos == 0 else suite(MS, 2)
                out.append(frames.mp_line(beacon_with(rnd, "probe_resp", elem(221, wpa_body(g, p, a)), sel % 2 == 1), 0, rnd))
    return out


def rnd_suite(rnd, table):
    oui = rnd.choice([IEEE, IEEE, IEEE, MS, MS, OTHER])
    return suite(oui, rnd.choice(table + [rnd.randrange(256)]))


def multi_lines(rnd, count):
    out = []
    for _ in range(count):
        kind = rnd.choice(frames.BSS_KINDS)
        els = b""
        parts = []
        if rnd.random() < 0.75:
            np_, na = rnd.choice([0, 1, 2, 3, 6, 7]), rnd.choice([0, 1, 2, 6, 7])
            body = rsn_body(rnd_suite(rnd, CIPHERS), [rnd_suite(rnd, CIPHERS) for _ in range(np_)], [rnd_suite(rnd, AKMS) for _ in range(na)],
                            caps=bytes(rnd.getrandbits(8) for _ in range(2)), version=rnd.choice([1, 1, 2, 0x0101]))
            k = rnd.random()
            if k < 0.12:
                body = body[:rnd.randrange(0, len(body) + 1)]            # truncated at any byte
            elif k < 0.2:
                b = bytearray(body); b[6] = rnd.choice([0, 1, 6, 7, 250, 255]); body = bytes(b)   # pairwise count perturbed
            elif k < 0.26:
                b = bytearray(body); b[7] = rnd.choice([1, 255]); body = bytes(b)                 # count high octet
            elif k < 0.3:
                body = body[:-2]                                          # capabilities missing
            if len(body) <= 255:
                parts.append(elem(48, body))
        if rnd.random() < 0.6:
            np_, na = rnd.choice([0, 1, 2, 6, 7]), rnd.choice([0, 1, 2, 5, 7])
            body = wpa_body(rnd_suite(rnd, CIPHERS), [rnd_suite(rnd, CIPHERS) for _ in range(np_)], [rnd_suite(rnd, AKMS) for _ in range(na)])
            k = rnd.random()
            if k < 0.15:
                body = body[:rnd.randrange(3, len(body) + 1)]
            elif k < 0.22:
                b = bytearray(body); b[10] = rnd.choice([0, 6, 7, 250]); body = bytes(b)
            if len(body) <= 255:
                parts.append(elem(221, body))
        if rnd.random() < 0.3:
            parts.append(elem(221, MS + b"\x04" + bytes(rnd.getrandbits(8) for _ in range(rnd.randrange(0, 12)))))   # WPS
        if rnd.random() < 0.3:
            parts.append(elem(221, MS + b"\x02" + bytes(rnd.getrandbits(8) for _ in range(7))))                       # WMM
        if rnd.random() < 0.2:
            parts.append(elem(221, bytes(rnd.getrandbits(8) for _ in range(rnd.randrange(0, 6)))))                     # short / foreign vendor element
        rnd.shuffle(parts)
        els = b"".join(parts)
        out.append(frames.mp_line(beacon_with(rnd, kind, els, rnd.random() < 0.5), rnd.randrange(3), rnd))
    return out


def count_lines(rnd):
    """declared suite counts whose product with the suite size leaves 8 or 16 bits, against 0..6 suites actually present"""
    out = []
    counts = [0x0040, 0x0100, 0x3fff, 0x4000, 0x4001, 0x4002, 0x8000, 0x8001, 0xc001, 0xffff]
    for which in ("pairwise", "akm"):
        for c in counts:
            for present in (0, 1, 2, 6):
                pw = [suite(IEEE, 4)] * (present if which == "pairwise" else 1)
                ak = [suite(IEEE, 2)] * (present if which == "akm" else 1)
                body = rsn_body(suite(IEEE, 4), pw, ak, caps=b"\x0c\x00", pcount=c if which == "pairwise" else None, acount=c if which == "akm" else None)
                tail = elem(221, bytes([0x11, 0x22, 0x33]) + IEEE + b"\x08" + IEEE + b"\x02")      # bytes a wrapped walk would pick up
                for follow in (b"", tail):
                    if len(body) <= 255:
                        out.append(frames.mp_line(beacon_with(rnd, rnd.choice(frames.BSS_KINDS), elem(48, body) + follow, True), 0, rnd))
                wb = wpa_body(suite(MS, 2), [suite(MS, 2)] * (present if which == "pairwise" else 1), [suite(MS, 2)] * (present if which == "akm" else 1),
                              pcount=c if which == "pairwise" else None, acount=c if which == "akm" else None)
                for follow in (b"", tail):
                    out.append(frames.mp_line(beacon_with(rnd, rnd.choice(frames.BSS_KINDS), elem(221, wb) + follow, False), 0, rnd))
    return out


def truncation_lines(rnd):
    out = []
    body = rsn_body(suite(IEEE, 4), [suite(IEEE, 4), suite(IEEE, 2)], [suite(IEEE, 2), suite(IEEE, 8)], caps=b"\x8c\x00")
    for cut in range(len(body) + 1):
        out.append(frames.mp_line(beacon_with(rnd, "beacon", elem(48, body[:cut]), True), 0, rnd))
        out.append(frames.mp_line(frames.mgmt("beacon", rnd, elem(48, body[:cut]), privacy=True), 0, rnd))     # element ends the frame
    wb = wpa_body(suite(MS, 2), [suite(MS, 2), suite(MS, 4)], [suite(MS, 2)])
    for cut in range(len(wb) + 1):
        out.append(frames.mp_line(beacon_with(rnd, "probe_resp", elem(221, wb[:cut]), True), 0, rnd))
        out.append(frames.mp_line(frames.mgmt("probe_resp", rnd, elem(221, wb[:cut]), privacy=False), 0, rnd))
    return out


def check(ctx):
    ctx.rule = ("RSN / WPA elements embedded in beacons, probe responses and (re)association responses: every single-suite element (256 selectors x {IEEE, Microsoft, foreign OUI} x {group, pairwise, AKM} x {RSN, WPA}, exhaustive), "
                "seeded elements with 0..7 pairwise and AKM suites from every defined selector, foreign OUIs and undefined selectors, truncation at every byte (also as the last element of the frame), perturbed count octets, missing capabilities; "
                "privacy bit on/off, WPS / WMM / short vendor elements, shuffled element order, all three wrappings; all nine parsers applied; compared with model and declarative Spec summary; distinct = (op, output)")
    r = fw.prepare(ctx, MODULE)
    if r is None:
        return
    ok, broken, data, exe = r
    rnd = random.Random(ctx.seed)
    ctx.coverage["exhaustive"] = True
    fw.run_suite(ctx, exe, "S-sec/single-suite", single_suite_lines(rnd), "security classification")
    fw.run_suite(ctx, exe, "S-sec/truncation", truncation_lines(rnd), "security classification")
    fw.run_suite(ctx, exe, "S-sec/multi", multi_lines(rnd, 3000 if ctx.tier == "quick" else 50000), "security classification")
    fw.run_suite(ctx, exe, "S-sec/counts", count_lines(rnd), "security classification")
    # the element walkers called directly (they are public entry points): every truncation, the count grid, random bodies
    direct = []
    rich = rsn_body(suite(IEEE, 4), [suite(IEEE, 4), suite(IEEE, 2), suite(MS, 2)], [suite(IEEE, 2), suite(IEEE, 8)], caps=b"\x8c\x00")
    richw = wpa_body(suite(MS, 2), [suite(MS, 2), suite(MS, 4)], [suite(MS, 2), suite(MS, 1)])[4:]
    for cut in range(len(rich) + 1):
        direct.append("ie rsn " + (rich[:cut].hex() or "-"))
    for cut in range(len(richw) + 1):
        direct.append("ie wpa " + (richw[:cut].hex() or "-"))
    for c in (0, 1, 6, 7, 0x40, 0xff, 0x100, 0x3fff, 0x4000, 0x4001, 0x8000, 0xffff):
        for present in (0, 1, 6, 8):
            for which in ("p", "a"):
                b = rsn_body(suite(IEEE, 4), [suite(IEEE, 4)] * (present if which == "p" else 1), [suite(IEEE, 2)] * (present if which == "a" else 1),
                             pcount=c if which == "p" else None, acount=c if which == "a" else None)
                direct.append("ie rsn " + b.hex())
                w = wpa_body(suite(MS, 2), [suite(MS, 2)] * (present if which == "p" else 1), [suite(MS, 2)] * (present if which == "a" else 1),
                             pcount=c if which == "p" else None, acount=c if which == "a" else None)[4:]
                direct.append("ie wpa " + w.hex())
    for _ in range(1500 if ctx.tier == "quick" else 30000):
        L = rnd.choice([0, 1, 5, 6, 7, 8, 9, 10, 12, 14, 16, 20, 30, 60, 255, 300])
        b = bytearray(rnd.getrandbits(8) for _ in range(L))
        for off in (6, 12):
            if L > off + 1 and rnd.random() < 0.7:
                b[off:off + 2] = rnd.choice([0, 1, 2, 6, 7]).to_bytes(2, "little")
        direct.append("ie %s %s" % (rnd.choice(["rsn", "wpa"]), bytes(b).hex() or "-"))
    fw.run_suite(ctx, exe, "S-sec/direct", direct, "RSN / WPA element decode")
    ci = fw.corpus_inputs(ctx, random.Random(ctx.seed + 78))
    fw.run_suite(ctx, exe, "S-sec/corpus", ["mp %d %s" % (rt, b.hex() or "-") for rt, b in ci], "security classification (coverage-guided corpus + mutants)")
    fw.conclude(ctx, broken)


def replay(rp):
    return fw.replay_line(rp)
