"""C06 — tag iteration reports only genuine in-bounds elements, in order, and terminates."""
import itertools
import random

from common import *  # noqa
import framework as fw

MODULE = "LWV.Props.C06"


def hexs(bs):
    return bytes(bs).hex() if bs else "-"


def skeleton(L):
    """All buffers of length L over the skeleton alphabet: each byte takes 0,1,2,255 and every value
    within -3..+1 of the number of bytes that follow it (covers every relation between a length
    octet and the bytes remaining)."""
    alph = []
    for i in range(L):
        rem = L - i - 1
        vals = {0, 1, 2, 255}
        for d in range(-3, 2):
            if 0 <= rem + d <= 255:
                vals.add(rem + d)
        alph.append(sorted(vals))
    return itertools.product(*alph)


def random_buffers(rnd, count):
    out = []
    for _ in range(count):
        mode = rnd.random()
        bs = []
        if mode < 0.6:  # structured list, then mutated
            for _ in range(rnd.randrange(0, 12)):
                l = rnd.choice([0, 0, 1, 2, 3, 32, 33, 200, 255, rnd.randrange(0, 256)])
                bs += [rnd.choice([0, 1, 3, 48, 61, 221, 255, rnd.randrange(256)]), l] + [rnd.randrange(256) for _ in range(l)]
            for _ in range(rnd.choice([0, 0, 1, 2])):
                if bs:
                    k = rnd.randrange(len(bs))
                    op = rnd.random()
                    if op < 0.4:
                        bs[k] = rnd.choice([0, 1, 255, (bs[k] + 1) % 256, (bs[k] - 1) % 256])
                    elif op < 0.7:
                        bs = bs[:k]
                    else:
                        bs = bs[:k] + [rnd.randrange(256)] + bs[k:]
        else:
            bs = [rnd.choice([0, 1, 2, 255, rnd.randrange(256)]) for _ in range(rnd.choice([0, 1, 2, 3, 5, 17, 300, 2304]))]
        out.append(bs[:2304])
    return out


def check(ctx):
    maxL = 7 if ctx.tier == "quick" else 8
    ctx.rule = ("all buffers of length 0..%d over the length-skeleton alphabet (exhaustive; property quantifier names 0..10, lengths %d..10 are covered by the theorem and by random structured buffers), "
                "plus seeded random structured/mutated buffers up to 2304 bytes and long buffers (to 131 080 octets, whole and cut in the last element); each buffer in an exact-size heap block under ASan; "
                "distinct = (op, canonical output)" % (maxL, maxL + 1))
    r = fw.prepare(ctx, MODULE)
    if r is None:
        return
    ok, broken, data, exe = r
    lines = []
    for L in range(0, maxL + 1):
        lines += ["it " + hexs(b) for b in skeleton(L)]
    ctx.coverage["exhaustive"] = True
    ctx.coverage["skeleton_max_len"] = maxL
    rnd = random.Random(ctx.seed)
    rl = ["it " + hexs(b) for b in random_buffers(rnd, 3000 if ctx.tier == "quick" else 60000)]
    fw.run_suite(ctx, exe, "S-it/skeleton", lines, "tag iteration")
    fw.run_suite(ctx, exe, "S-it/random", rl, "tag iteration")
    # long buffers: maximal and mixed elements up to and beyond 64 KiB / 128 KiB, whole and cut inside the last element
    lb = []
    for total in (250, 255, 256, 257, 300, 4096, 65530, 65536, 65540, 70000, 131080):
        b = b""
        while len(b) + 2 < total:
            l = min(rnd.choice([255, 255, 254, 1, rnd.randrange(1, 256)]), total - len(b) - 2)
            b += bytes([rnd.choice([0, 3, 48, 221, rnd.randrange(256)]), l]) + bytes(rnd.getrandbits(8) for _ in range(l))
        lb += ["it " + hexs(b), "it " + hexs(b[:-1]), "it " + hexs(b + b"\xdd")]
    fw.run_suite(ctx, exe, "S-it/long", lb, "tag iteration over long buffers")
    # adjacent pairs: every (number, number) pair of neighbouring elements, and every number behind a neighbour of
    # length 0 / 1 / 254 / 255 (an element is reported whatever stands in front of it)
    ap = []
    for a in range(256):
        for b in range(256):
            ap.append("it " + bytes([7, 1, 0x55, a, 1, 0xaa, b, 2, 1, 2, 3, 1, 6]).hex())
    for b in range(256):
        for L in (0, 1, 254, 255):
            for first in (False, True):
                pre = b"" if first else bytes([0, 2, 0x41, 0x42])
                if L == 0 and not first:
                    pre = b""           # an empty element may only lead
                ap.append("it " + (pre + bytes([45, L]) + bytes(rnd.getrandbits(8) for _ in range(L)) + bytes([b, 5, 1, 2, 3, 4, 5, 3, 1, 6])).hex())
    fw.run_suite(ctx, exe, "S-it/adjacent-pairs", ap, "tag iteration over every pair of neighbouring element numbers")
    ci = fw.corpus_inputs(ctx, random.Random(ctx.seed + 77))
    its = set()
    for rt, b in ci:
        its.add("it " + (b.hex() or "-"))
        for off in (24, 36, 28, 40):
            if not rt and len(b) > off:
                its.add("it " + b[off:].hex())
    fw.run_suite(ctx, exe, "S-it/corpus", sorted(its), "tag iteration (coverage-guided corpus + mutants)")
    fw.conclude(ctx, broken)


def replay(rp):
    return fw.replay_line(rp)
