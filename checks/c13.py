"""C13 — parsing is a pure function of the input bytes."""
import random

from common import *  # noqa
import framework as fw

MODULE = "LWV.Props.C13"
PARSE_OPS = ("cls", "mp", "eap", "rtp", "it", "crc", "ie")
CORPUS_PROPS = ["C02", "C04", "C06", "C08", "C09", "C11", "C12"]

ENV_A = {}
ENV_B = {"LWV_TRAIL": "16", "LWV_PREFILL": "0", "LWV_FILL": "205", "LWV_PRECALL": "1", "LWV_MISALIGN": "3"}
ENV_C = {"LWV_TRAIL": "3", "LWV_PREFILL": "255", "LWV_FILL": "0", "LWV_MISALIGN": "1"}


def runs_for(tier):
    r = [("asan", "B", ENV_B), ("o0", "A", ENV_A), ("o0", "B", ENV_B), ("ship", "A", ENV_A), ("ship", "B", ENV_B)]
    if tier == "thorough":
        r += [("asan", "C", ENV_C), ("o0", "C", ENV_C), ("ship", "C", ENV_C)]
    return r


def run_env(exe, lines, env):
    import diffrun
    outs = []
    for co, cr in diffrun.parallel_map(lambda ch: diffrun.run_harness_all(exe, ch, env=env), diffrun.chunked(lines, 16)):
        outs += co
    return outs


def check(ctx):
    import diffrun
    thorough = ctx.tier == "thorough"
    cap = 40000 if thorough else 2500
    ctx.rule = ("the operation lines of the C02/C04/C06/C08/C09/C11/C12 checks that call a parsing entry point (classification, the nine management parsers, data, EAPOL, radiotap, "
                "tag iteration, CRC/FCS), up to %d per suite sampled with the seed; each line evaluated by the model and by the -O1 ASan build in environment A (exact-size input block, output objects pre-filled 0xA5, "
                "allocator default), then re-evaluated in environment B (input placed 3 octets into its block, 16 bytes 0xFF after the stated length, outputs pre-filled 0x00, every library allocation pre-filled 0xCD, an unrelated create/dump/parse/free "
                "call sequence before each op)%s in three builds (-O1 ASan+UBSan, -O0, -O2 -fstack-protector-strong -D_FORTIFY_SOURCE=2 -fstack-clash-protection); "
                "the printed field-wise observation must be identical in all of them; every op aborts if its input block (stated or trailing bytes) changed; cls/mp/eap scrub and release the input before observing; "
                "distinct = (op, output)" % (cap, " and C (3 trailing bytes, pre-fill 0xFF, allocations pre-filled 0x00)" if thorough else ""))
    r = fw.prepare(ctx, MODULE)
    if r is None:
        return
    ok, broken, data, exe = r
    exes = {"asan": exe}
    for v in ("o0", "ship"):
        e, err = diffrun.build_harness(v)
        if e is None:
            ctx.violation("harness:" + v, "the working tree does not compile in the %s configuration" % v, {"broken": "harness build " + v, "error": (err or "")[-2000:]}, found_input=False)
            return
        exes[v] = e
    rnd = random.Random(ctx.seed)
    corpus = fw.collect_corpus(ctx, CORPUS_PROPS, tier="quick", keep=lambda l: l.split(" ", 1)[0] in PARSE_OPS)
    by_suite = {}
    for p, s, l in corpus:
        by_suite.setdefault(p + ":" + s.split("-")[1].split("/")[0] if "-" in s else p + ":" + s, []).append(l)
    lines = []
    comp = {}
    for k in sorted(by_suite):
        ls = by_suite[k]
        if len(ls) > cap:
            ls = rnd.sample(ls, cap)
        comp[k] = len(ls)
        lines += ls
    ctx.coverage["corpus"] = comp
    # anchor: environment A under ASan against the model and the Spec
    base, _, _ = fw.run_suite(ctx, exe, "S-pure/asan-A", lines, "parse (environment A, ASan build)")
    total_bad = 0
    for variant, ename, env in runs_for(ctx.tier):
        outs = run_env(exes[variant], lines, env)
        ctx.count(len(lines))
        bad = 0
        for l, a, b in zip(lines, base, outs):
            if a != b:
                bad += 1
                if bad <= 2:
                    ctx.violation("S-pure/%s-%s:%s" % (variant, ename, l), "the same input gives a different observation in build %s, environment %s: `%s` gives %r there and %r in the ASan build, environment A"
                                  % (variant, ename, l if len(l) < 200 else l[:200] + "...", fw.clip(b), fw.clip(a)),
                                  {"kind": "env-line", "line": l, "variant": variant, "env": env, "observed": b, "expected": a})
        total_bad += bad
        ctx.oblige("correspondence", "S-pure/%s-%s: observation identical to ASan/A on %d lines" % (variant, ename, len(lines)), bad == 0, "%d differing" % bad)
        ctx.coverage.setdefault("environments", {})["%s-%s" % (variant, ename)] = {"lines": len(lines), "differing": bad, "env": env}
    # a result computed from memory the library never wrote (stack or heap) is not a function of the input: memcheck on the
    # uninstrumented build flags every branch or output that depends on an uninitialised value
    from checks import c01
    short = [l for l in lines if len(l) < 3000]
    c01.valgrind_pass(ctx, rnd.sample(short, min(len(short), 400 if ctx.tier == "quick" else 4000)), "S-pure/memcheck")
    fw.conclude(ctx, broken)


def replay(rp):
    if rp.get("kind") == "valgrind-line":
        from checks import c01
        return c01.replay(rp)
    import diffrun
    if rp.get("kind") == "env-line":
        a, err = diffrun.build_harness("asan")
        b, err2 = diffrun.build_harness(rp["variant"])
        if a is None or b is None:
            return False, "harness does not build"
        oa = diffrun.run_harness_all(a, [rp["line"]])[0][0]
        ob = diffrun.run_harness_all(b, [rp["line"]], env=rp["env"])[0][0]
        return oa == ob, "%s -> %r (ASan/A) vs %r (%s, %s)" % (rp["line"][:200], oa, ob, rp["variant"], rp["env"])
    return fw.replay_line(rp)
