"""C18 — capability tests select the IEEE-assigned capability bit."""
from common import *  # noqa
import framework as fw
import diffrun

MODULE = "LWV.Props.C18"

XSHAPES = [
    ("variable", "v"),
    ("parenthesised", "(v)"),
    ("bitwise-or of two values", "hi | lo"),
    ("bitwise-xor", "v ^ zero"),
    ("conditional", "one ? v : zero"),
    ("sum", "hi + lo"),
    ("cast", "(uint16_t) v"),
    ("comma in parentheses", "(zero, v)"),
    ("logical-or guarded", "zero || one ? v : zero"),
    ("shift", "v << zero"),
]
CSHAPES = [
    ("name", "%s"),
    ("parenthesised name", "(%s)"),
    ("conditional name", "one ? %s : zero"),
    ("name plus zero", "%s + zero"),
]


def program(names):
    L = ['#include <stdio.h>', '#include <stdint.h>', '#include "libwifi.h"',
         'static volatile unsigned zero = 0, one = 1;',
         'int main(void) {', ' unsigned long total = 0;']
    case = 0
    for name, bit in names:
        for xi, (xd, xs) in enumerate(XSHAPES):
            for ci, (cd, cs) in enumerate(CSHAPES):
                cexpr = cs % name
                L.append(' { unsigned long bad = 0; long first = -1; for (unsigned vv = 0; vv < 65536; vv++) { uint16_t v = (uint16_t) vv; unsigned hi = v & 0xff00u, lo = v & 0x00ffu; (void) hi; (void) lo;'
                         ' int got = (libwifi_check_capabilities(%s, %s)) != 0; int exp = (vv >> %d) & 1; if (got != exp) { if (!bad) first = vv; bad++; } total++; }'
                         ' printf("%s %d %d %%lu %%ld\\n", bad, first); }' % (xs, cexpr, bit, name, xi, ci))
                case += 1
    L += [' printf("total %lu\\n", total);', ' return 0; }']
    return "\n".join(L)


def run_shapes(names):
    src = os.path.join(WORK, "capshapes.c")
    exe = os.path.join(WORK, "capshapes")
    write_if_changed(src, program(names))
    rc, out, err = run(["gcc", "-O1", "-w", "-o", exe, src] + CFLAGS_COMMON)
    if rc != 0:
        return None, err
    rc, out, err = run([exe], timeout=600)
    if rc != 0:
        return None, "capshapes exited %d: %s" % (rc, err[-500:])
    res = []
    total = 0
    for l in out.splitlines():
        t = l.split()
        if t[0] == "total":
            total = int(t[1])
        else:
            res.append((t[0], int(t[1]), int(t[2]), int(t[3]), int(t[4])))
    return (res, total), None


KEYWORDS = {"const", "unsigned", "signed", "int", "char", "short", "long", "volatile", "sizeof", "typeof", "__typeof__", "uint16_t", "uint32_t", "uint8_t", "uint64_t", "size_t", "static", "register", "__extension__", "_Bool", "float", "double", "void", "struct", "union", "enum"}


def hygiene_probes(tokens):
    """(label, C block, expected output) - the argument expressions a macro must survive: one with a side effect (each
    argument is evaluated exactly once) and one mentioning a caller variable named like an identifier of the macro body"""
    import re
    probes = [("value argument with a side effect", 'unsigned n = 0; uint16_t v = 0x0010; int got = (libwifi_check_capabilities((n++, v), CAPABILITIES_PRIVACY)) != 0; printf("%u %d\\n", n, got);', "1 1"),
              ("value argument with a side effect, bit clear", 'unsigned n = 0; uint16_t v = 0x0401; int got = (libwifi_check_capabilities((n++, v), CAPABILITIES_PRIVACY)) != 0; printf("%u %d\\n", n, got);', "1 0"),
              ("reader argument returning successive fields", 'static const uint16_t f[3] = {0x0010, 0x0000, 0x0000}; unsigned i = 0; int got = (libwifi_check_capabilities(f[i++], CAPABILITIES_PRIVACY)) != 0; printf("%u %d\\n", i, got);', "1 1"),
              ("capability argument with a side effect", 'unsigned n = 0; uint16_t v = 0x0010; int got = (libwifi_check_capabilities(v, (n++, CAPABILITIES_PRIVACY))) != 0; printf("%u %d\\n", n, got);', "1 1")]
    # the call as an operand: the expansion must be one primary expression, whatever stands next to it
    probes += [("call as the left operand of ==", 'uint16_t v = 0x0002; int got = libwifi_check_capabilities(v, CAPABILITIES_IBSS) == 0; printf("%d\\n", got);', "0"),
               ("call as the left operand of &&", 'uint16_t v = 0x0001; int got = libwifi_check_capabilities(v, CAPABILITIES_ESS) && libwifi_check_capabilities(v, CAPABILITIES_PRIVACY); printf("%d\\n", got);', "0"),
               ("call as the right operand of *", 'uint16_t v = 0x0001; int got = (2 * libwifi_check_capabilities(v, CAPABILITIES_ESS)) != 0; printf("%d\\n", got);', "1"),
               ("call as the operand of !", 'uint16_t v = 0x0001; int got = !libwifi_check_capabilities(v, CAPABILITIES_ESS); printf("%d\\n", got);', "0"),
               ("call as the left operand of ||", 'uint16_t v = 0x0000; int got = libwifi_check_capabilities(v, CAPABILITIES_ESS) || 0; printf("%d\\n", got);', "0"),
               ("call as the left operand of ?:", 'uint16_t v = 0x0000; int got = libwifi_check_capabilities(v, CAPABILITIES_ESS) ? 7 : 3; printf("%d\\n", got);', "3")]
    for t in sorted(set(tokens)):
        if re.match(r"^[A-Za-z_][A-Za-z0-9_]*$", t) and t not in ("LWV_X", "LWV_CAP") and t not in KEYWORDS and not t.startswith("__builtin"):
            probes.append(("caller variable named `%s`" % t, 'uint16_t field = 0x0431; unsigned %s = 0xffef; int got = (libwifi_check_capabilities(field & %s, CAPABILITIES_PRIVACY)) != 0; printf("%%d\\n", got);' % (t, t), "0"))
    return probes


def run_probe(block):
    src = os.path.join(WORK, "capprobe.c")
    exe = os.path.join(WORK, "capprobe")
    with open(src, "w") as f:
        f.write('#include <stdio.h>\n#include <stdint.h>\n#include "libwifi.h"\nint main(void) { %s return 0; }\n' % block)
    rc, out, err = run(["gcc", "-O1", "-w", "-o", exe, src] + CFLAGS_COMMON)
    if rc != 0:
        return None
    rc, out, err = run([exe], timeout=60)
    return out.strip() if rc == 0 else "exit %d" % rc


def check(ctx):
    ctx.rule = ("the real macro from the working tree's headers, instantiated in a generated C program with %d argument-expression shapes x %d capability-argument shapes x all 15 published names x all 65536 values (exhaustive); "
                "plus hygiene probes (arguments with side effects, caller variables named like identifiers of the macro body); expected = the IEEE 802.11 bit of the Spec table; distinct = (name, shape, shape, value)" % (len(XSHAPES), len(CSHAPES)))
    meta, data = fw.run_gen(ctx)
    if meta is None:
        return
    ok, broken, failed = fw.lean_prove(ctx, MODULE)
    ctx.oblige("gen-validation", "capability macro expansion parsed into a tree certificate", data["cap_tree"] is not None, " ".join(data["cap_tokens"]))
    try:
        spec = dict((p.split("=")[0], int(p.split("=")[1])) for p in diffrun.run_driver(["spec-ieee libwifi_capabilities"])[0].split())
    except Exception as e:
        spec = None
        ctx.notes.append("driver unavailable: %r" % (e,))
    if spec is None:
        ctx.violation("driver:missing", "Lean driver did not build", {"broken": "lwdriver"}, found_input=False)
        return
    pub = dict(data["probe"]["enums"].get("libwifi_capabilities", []))
    names = [(n, b) for n, b in spec.items() if n in pub]
    for n in spec:
        if n not in pub:
            ctx.violation("cap-missing:" + n, "capability name %s is no longer published" % n, {"kind": "cap-missing", "name": n})
    res, err = run_shapes(names)
    if res is None:
        ctx.oblige("harness", "capability shape program compiles and runs", False, err[-500:])
        ctx.violation("capshapes:build", "the capability macro cannot be instantiated with ordinary argument expressions: %s" % err[-300:], {"broken": "capshapes", "error": err[-2000:]}, found_input=False)
        return
    rows, total = res
    bad = 0
    for name, xi, ci, nbad, first in rows:
        if nbad:
            bad += 1
            ctx.violation("cap:%s:%d:%d" % (name, xi, ci),
                          "libwifi_check_capabilities(%s, %s) is wrong for %d of 65536 values, e.g. v=0x%04x (IEEE bit %d of %s; published value %s)" % (XSHAPES[xi][1], CSHAPES[ci][1] % name, nbad, first, spec[name], name, pub.get(name)),
                          {"kind": "cap", "name": name, "xshape": xi, "cshape": ci, "value": first, "ieee_bit": spec[name]})
    ctx.count(total)
    ctx.distinct.update(("cap", r[0], r[1], r[2]) for r in rows)
    ctx.coverage["exhaustive"] = True
    ctx.coverage["cases"] = len(rows)
    ctx.oblige("spec-on-impl", "macro non-zero iff the IEEE bit is set: %d (name, shape, shape) cases x 65536 values" % len(rows), bad == 0)
    ctx.sample({"macro_expansion": " ".join(data["cap_tokens"]), "case": "libwifi_check_capabilities(%s, %s)" % (XSHAPES[2][1], CSHAPES[2][1] % names[4][0]), "mismatches": [r for r in rows if r[0] == names[4][0] and r[1] == 2 and r[2] == 2][0][3]})
    # however the argument expression is written: side effects and caller variables named like the macro's own identifiers
    hb = 0
    probes = hygiene_probes(data["cap_tokens"])
    for label, block, want in probes:
        got = run_probe(block)
        ctx.count(1, [("probe", label)])
        if got is not None and got != want:       # a probe that does not compile (the identifier is a type, ...) says nothing
            hb += 1
            ctx.violation("cap-hygiene:" + label, "libwifi_check_capabilities with a %s: the program `%s` prints %r, a function-like test of the value prints %r" % (label, block, got, want),
                          {"kind": "cap-probe", "label": label, "block": block, "expected": want, "observed": got})
    ctx.oblige("spec-on-impl", "the macro behaves like a function of its argument values on %d hygiene probes (side effects evaluated once, no capture of caller identifiers)" % len(probes), hb == 0)
    # distinct capabilities never test the same bit
    seen = {}
    for n, v in data["probe"]["enums"].get("libwifi_capabilities", []):
        if v in seen:
            ctx.violation("cap-dup:%d" % v, "%s and %s test the same bit %d" % (seen[v], n, v), {"kind": "cap-dup", "names": [seen[v], n], "value": v})
        seen[v] = n
    if broken and not ctx.violations and not ctx.known_hits:
        for name, detail in broken[:3]:
            ctx.violation("theorem:" + name, "proof obligation no longer checks: %s — %s" % (name, detail[:300]), {"broken": name, "detail": detail}, found_input=False)


def replay(rp):
    import gen as genmod
    k = rp.get("kind")
    if k == "cap":
        res, err = run_shapes([(rp["name"], rp["ieee_bit"])])
        if res is None:
            return False, err[-300:]
        rows = [r for r in res[0] if r[1] == rp["xshape"] and r[2] == rp["cshape"]]
        return rows[0][3] == 0, "libwifi_check_capabilities(%s, %s): %d wrong values" % (XSHAPES[rp["xshape"]][1], CSHAPES[rp["cshape"]][1] % rp["name"], rows[0][3])
    if k == "cap-probe":
        got = run_probe(rp["block"])
        return got == rp["expected"], "%s: prints %r (expected %r)" % (rp["label"], got, rp["expected"])
    if k in ("cap-dup", "cap-missing"):
        meta, data = genmod.generate()
        d = dict(data["probe"]["enums"]["libwifi_capabilities"])
        if k == "cap-missing":
            return rp["name"] in d, "published: %s" % (rp["name"] in d)
        vals = [d.get(n) for n in rp["names"]]
        return len(set(vals)) == len(vals), "%s -> %s" % (rp["names"], vals)
    return False, "replay names a broken obligation, not an input: %s" % rp.get("broken")
