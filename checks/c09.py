"""C09 — radiotap headers are decoded at their specified aligned offsets or refused."""
import random

from common import *  # noqa
import framework as fw
import rtbuild

MODULE = ["LWV.Props.C09", "LWV.Props.C09Full", "LWV.Props.C02Full", "LWV.Props.C09Rssi"]


def hexs(b):
    return bytes(b).hex() if b else "-"


def subsets_lines(rnd, masks):
    out = []
    for m in masks:
        fields = [b for b in range(23) if m >> b & 1]
        out.append("rtp " + hexs(rtbuild.build([{"fields": fields}], rnd, trailer=bytes(rnd.getrandbits(8) for _ in range(rnd.choice([0, 0, 4, 30]))))))
    return out


def multiword(rnd, count):
    out = []
    for _ in range(count):
        words = [{"fields": rnd.sample(range(23), rnd.randrange(0, 8))}]
        for _ in range(rnd.randrange(1, 5)):
            kind = rnd.random()
            if kind < 0.5:      # per-antenna chain: reset + antenna signal / antenna
                words[-1]["reset"] = True
                words.append({"fields": rnd.choice([[5, 11], [5], [11], [5, 11, 2], [1, 5, 11]])})
            elif kind < 0.8:    # vendor namespace with arbitrary skip, then vendor-defined bits
                words[-1]["vendor"] = bytes(rnd.getrandbits(8) for _ in range(rnd.choice([0, 1, 2, 7, 40])))
                words.append({"fields": rnd.sample(range(29), rnd.randrange(0, 5))})
            else:               # plain EXT: numbering continues at 32 (undefined)
                words.append({"fields": rnd.sample(range(23), rnd.randrange(0, 4))})
        out.append("rtp " + hexs(rtbuild.build(words, rnd, trailer=bytes(rnd.getrandbits(8) for _ in range(rnd.choice([0, 3, 24]))))))
    # unconstrained word structure: undefined fields (18, 23..28), resets and vendor namespaces in any order, with
    # data behind the header so that a wrongly resumed decode has something to read
    for _ in range(count):
        words = []
        for i in range(rnd.randrange(2, 6)):
            w = {"fields": rnd.sample(range(29), rnd.randrange(0, 4))}
            if rnd.random() < 0.3:
                w["fields"] = sorted(set(w["fields"]) | {rnd.choice([18, 23, 24, 28])})
            if rnd.random() < 0.45:
                w["reset"] = True
            if rnd.random() < 0.35:
                w["vendor"] = bytes(rnd.getrandbits(8) for _ in range(rnd.choice([0, 1, 2, 6])))
            words.append(w)
        out.append("rtp " + hexs(rtbuild.build(words, rnd, trailer=bytes(rnd.getrandbits(8) for _ in range(rnd.choice([8, 16, 40]))))))
    return out


def malformed(rnd, count):
    out = ["rtp 00001b00000000c0000000a0000004a00200000001020304000055",     # regression: stale namespace offset after an undefined field
           "rtp -", "rtp 00", "rtp 00000800000000", "rtp 0000080000000000", "rtp 0100080000000000", "rtp 0000070000000000", "rtp 0000090000000000"]
    # every announced length around the 255-octet limit with the bytes present (filler inside the header)
    for N in (200, 253, 254, 255, 256, 257, 300):
        for fs in ([], [1, 2], [3, 5, 22]):
            base = rtbuild.build([{"fields": fs}], rnd)
            g = bytearray(base + bytes(rnd.getrandbits(8) for _ in range(max(0, N - len(base)))))
            g[2:4] = N.to_bytes(2, "little")
            out.append("rtp " + hexs(g))
            out.append("rtp " + hexs(g + b"\x01\x02\x03"))
    for _ in range(count):
        good = bytearray(rtbuild.build([{"fields": rnd.sample(range(23), rnd.randrange(0, 10))}], rnd))
        k = rnd.random()
        if k < 0.2:
            good[0] = rnd.choice([1, 2, 255])
        elif k < 0.4:
            good[2:4] = rnd.choice([0, 1, 7, len(good) + 1, len(good) + 40, 65535]).to_bytes(2, "little")
        elif k < 0.55:   # it_len > 255 with the bytes present
            good[2:4] = rnd.choice([256, 257, 300]).to_bytes(2, "little")
            good += bytes(300)
        elif k < 0.8:
            good = good[:rnd.randrange(0, len(good) + 1)]
        else:            # it_len shorter than the fields need
            good[2:4] = rnd.randrange(8, max(9, len(good))).to_bytes(2, "little")
        out.append("rtp " + hexs(good))
    return out


def ext_chains(rnd):
    """present-word chains that run up to, onto and over the announced header length, with capture bytes following the
    header (a chain must be bounded by it_len, not by the capture)"""
    out = []
    for k in (1, 2, 3, 4):
        for last_ext in (True, False):
            words = []
            for i in range(k):
                w = 0x80000000 if (i < k - 1 or last_ext) else 0
                if rnd.random() < 0.3:
                    w |= 1 << 29
                words.append(w)
            chain = b"".join(w.to_bytes(4, "little") for w in words)
            for it_len in range(8, 8 + 4 * k + 5):
                for extra in (0, 1, 3, 4, 8, 30):
                    tail = bytes(rnd.getrandbits(7) for _ in range(extra))
                    out.append(bytes([0, 0]) + it_len.to_bytes(2, "little") + chain + tail)
    return out


def check(ctx):
    ctx.rule = ("headers built by an independent Python implementation of the radiotap placement rule: every subset of the 12 decoded fields (2^12, exhaustive) and %s of all 23 defined fields of the first present word with random values, "
                "libwifi_parse_radiotap_rssi on covered headers with one, several and no antenna-signal fields; multi-word headers (namespace reset with per-antenna signal/antenna pairs, vendor namespaces with arbitrary skip lengths, plain EXT continuation), every malformed class (version, it_len < 8, > available, > 255, truncation); "
                "each header in an exact-size heap block under ASan, output object pre-filled 0xA5; compared with the model and with the declarative Spec decode; distinct = (op, output)" % ("ALL 2^23 subsets" if ctx.tier == "thorough" else "8192 random subsets"))
    r = fw.prepare(ctx, MODULE)
    if r is None:
        return
    ok, broken, data, exe = r
    rnd = random.Random(ctx.seed)
    dec = rtbuild.DECODED
    masks = []
    for i in range(1 << len(dec)):
        m = 0
        for j, b in enumerate(dec):
            if i >> j & 1:
                m |= 1 << b
        masks.append(m)
    fw.run_suite(ctx, exe, "S-rtp/decoded-subsets", subsets_lines(rnd, masks), "radiotap decode")
    if ctx.tier == "thorough":
        step = 1 << 18
        for lo in range(0, 1 << 23, step):
            fw.run_suite(ctx, exe, "S-rtp/all-subsets-%02d" % (lo // step), subsets_lines(rnd, range(lo, lo + step)), "radiotap decode")
        ctx.coverage["exhaustive"] = True
    else:
        fw.run_suite(ctx, exe, "S-rtp/random-subsets", subsets_lines(rnd, [rnd.getrandbits(23) for _ in range(8192)]), "radiotap decode")
    fw.run_suite(ctx, exe, "S-rtp/multiword", multiword(rnd, 3000 if ctx.tier == "quick" else 40000), "radiotap decode")
    # libwifi_parse_radiotap_rssi reports the same signal as the full decode (the first antenna-signal field), on every
    # header the buffer covers
    def covered(l):
        b = bytes.fromhex(l.split()[1]) if l.split()[1] != "-" else b""
        return len(b) >= 8 and int.from_bytes(b[2:4], "little") <= len(b)
    sig = [{"fields": sorted(set(rnd.sample(range(23), rnd.randrange(0, 5))) | ({5} if rnd.random() < 0.8 else set()))} for _ in range(600)]
    rs = [l for l in multiword(rnd, 600 if ctx.tier == "quick" else 6000) + ["rtp " + hexs(rtbuild.build([w], rnd)) for w in sig] if covered(l)]
    fw.run_suite(ctx, exe, "S-rtp/rssi", ["rssi " + l.split()[1] for l in rs], "radiotap signal shortcut")
    # every value of the 16-bit channel frequency (band and channel number are derived from it), alone and next to a signal
    af = []
    for f in range(65536):
        cf = rnd.choice([0, 0xffff, 0x00a0, 0x0140, rnd.getrandbits(16)])
        if f % 2:
            af.append("rtp " + hexs(bytes([0, 0, 12, 0, 8, 0, 0, 0]) + f.to_bytes(2, "little") + cf.to_bytes(2, "little")))
        else:
            af.append("rtp " + hexs(bytes([0, 0, 13, 0, 0x28, 0, 0, 0]) + f.to_bytes(2, "little") + cf.to_bytes(2, "little") + bytes([rnd.getrandbits(8)])))
    fw.run_suite(ctx, exe, "S-rtp/all-frequencies", af, "radiotap decode of every channel frequency")
    # long per-antenna chains: up to 40 namespace resets with signal / antenna pairs (the record keeps the first 16)
    ch = []
    for n in list(range(12, 24)) + [32, 40]:
        for shape in ([5, 11], [5], [11, 5, 2]):
            words = [{"fields": [1, 5], "reset": True}] + [{"fields": shape, "reset": True} for _ in range(n - 1)] + [{"fields": shape}]
            ch.append("rtp " + hexs(rtbuild.build(words, rnd)))
            ch.append("rssi " + hexs(rtbuild.build(words, rnd)))
    fw.run_suite(ctx, exe, "S-rtp/antenna-chains", ch, "radiotap decode of long per-antenna chains")
    fw.run_suite(ctx, exe, "S-rtp/ext-chains", sorted({"rtp " + b.hex() for b in ext_chains(rnd)}), "radiotap decode of present-word chains around the announced length")
    fw.run_suite(ctx, exe, "S-rtp/malformed", malformed(rnd, 2000 if ctx.tier == "quick" else 30000), "radiotap decode")
    # alignment is relative to the start of the header, not to the address of the capture
    mis = subsets_lines(rnd, rnd.sample(range(1 << 23), 700)) + multiword(rnd, 300)
    for k in (1, 2, 4):
        fw.run_suite(ctx, exe, "S-rtp/misaligned@+%d" % k, mis[k::3], "radiotap decode of a header at a misaligned address", env={"LWV_MISALIGN": str(k)})

    # the supplied length is a size_t while it_len and the iterator's bound are 16-bit / int quantities: well-formed headers
    # in front of buffers whose total length sits at and just beyond every width the length could be narrowed to
    # (2^15, 2^16, 2^17; 2^16 + k for k below, at and above the header's own length)
    lad = []
    for words in ([{"fields": [1, 2, 3, 5]}], [{"fields": [0, 3, 5, 14, 19, 22]}], [{"fields": [1, 5], "reset": True}, {"fields": [5, 11]}]):
        h = rtbuild.build(words, rnd)
        il = int.from_bytes(h[2:4], "little")
        h = h[:il]
        for n in sorted({32766, 32767, 32768, 32768 + il, 65535, 65536, 65537, 65536 + 7, 65536 + 8, 65536 + il - 1, 65536 + il, 65546, 70000, 131072, 131072 + il - 1}):
            buf = h + bytes(rnd.getrandbits(8) for _ in range(256)) + bytes(n - len(h) - 256)
            lad.append("rtp " + buf.hex())
            lad.append("rssi " + buf.hex())
    fw.run_suite(ctx, exe, "S-rtp/size-ladder", lad, "radiotap decode in front of long buffers (length narrowing)")

    ci = fw.corpus_inputs(ctx, random.Random(ctx.seed + 77))
    fw.run_suite(ctx, exe, "S-rtp/corpus", sorted({"rtp " + (b.hex() or "-") for rt, b in ci}), "radiotap decode (coverage-guided corpus + mutants)")
    fw.conclude(ctx, broken)


def replay(rp):
    return fw.replay_line(rp)
