"""C19 — published protocol numbers and tag names follow the IEEE assignments."""
import os
import sys

from common import *  # noqa
import framework as fw
import diffrun

MODULE = "LWV.Props.C19"
KINDS = ["libwifi_tag_numbers", "libwifi_reason_codes", "libwifi_status_codes", "libwifi_actions", "libwifi_frame_type",
         "libwifi_mgmt_subtypes", "libwifi_control_subtypes", "libwifi_control_extension_subtypes",
         "libwifi_data_subtypes", "libwifi_extension_subtypes"]


def spec_tables():
    outs = diffrun.run_driver(["spec-ieee " + k for k in KINDS])
    t = {}
    for k, o in zip(KINDS, outs):
        t[k] = dict((p.split("=")[0], int(p.split("=")[1])) for p in o.split())
    return t


def expected_name(enum_tag, v):
    for n, val in enum_tag:
        if val == v:
            return n
    return "Unknown Tag"


def check(ctx):
    ctx.rule = ("enumerators: every published constant of the ten kinds as compiled (probe program) against the Spec IEEE table "
                "(distinct = one per (kind, name)); tag-name lookup: compiled libwifi_get_tag_name vs model and vs the Spec "
                "statement on -1024..1024, every case value +-1, INT_MIN/INT_MAX (quick) or all 2^32 integers in blocks (thorough); "
                "non-trivial = an enumerator vouched by the IEEE table, or a lookup argument (distinct by argument)")
    meta, data = fw.run_gen(ctx)
    if meta is None:
        return
    ok, broken, failed = fw.lean_prove(ctx, MODULE)
    pr = data["probe"]
    # ---- Gen validation: syntactic table vs compiled behaviour
    mism = meta.get("tagname_mismatch")
    ctx.oblige("gen-validation", "tag-name case table (%s) = compiled behaviour on -1024..1024" % data["tagname_source"], not mism, str(mism) if mism else "")
    # ---- Spec predicate on the implementation (always evaluated)
    spec = None
    try:
        spec = spec_tables()
    except Exception as e:
        ctx.notes.append("driver unavailable for Spec tables: %r" % (e,))
    found = 0
    vouched = unvouched = 0
    if spec:
        for k in KINDS:
            ents = pr["enums"].get(k, [])
            names = {n for n, _ in ents}
            for n, v in ents:
                ctx.count(1)
                if n in spec[k]:
                    vouched += 1
                    ctx.distinct.add((k, n))
                    if spec[k][n] != v:
                        found += 1
                        ctx.violation("enum:%s:%s" % (k, n), "%s is published as %d, IEEE 802.11 assigns %d" % (n, v, spec[k][n]),
                                      {"kind": "enum", "enum": k, "name": n, "observed": v, "expected": spec[k][n]})
                else:
                    unvouched += 1
            for n in spec[k]:
                if n not in names:
                    found += 1
                    ctx.violation("enum-missing:%s:%s" % (k, n), "%s (IEEE value %d) is no longer published in enum %s" % (n, spec[k][n], k),
                                  {"kind": "enum-missing", "enum": k, "name": n, "expected": spec[k][n]})
            seen = {}
            for n, v in ents:
                if v in seen:
                    found += 1
                    ctx.violation("enum-dup:%s:%d" % (k, v), "%s and %s of %s share the number %d" % (seen[v], n, k, v),
                                  {"kind": "enum-dup", "enum": k, "names": [seen[v], n], "value": v})
                seen[v] = n
        # a name published for an element ID the standard reserves (the list is the Spec's: `spec-reserved-tags`)
        reserved = set(int(x) for x in diffrun.run_driver(["spec-reserved-tags"])[0].split())
        for n, v in pr["enums"].get("libwifi_tag_numbers", []):
            if v in reserved:
                found += 1
                ctx.violation("enum-reserved:%s" % n, "%s is published with the number %d, which IEEE 802.11 reserves (no element has this ID)" % (n, v),
                              {"kind": "enum-reserved", "enum": "libwifi_tag_numbers", "name": n, "observed": v})
        ctx.oblige("spec-on-impl", "compiled enumerators agree with the IEEE table; values distinct per kind; no element ID on a reserved number", found == 0, "%d vouched, %d unvouched, %d reserved numbers" % (vouched, unvouched, len(reserved)))
        ctx.coverage["enumerators_vouched"] = vouched
        ctx.coverage["enumerators_unvouched"] = unvouched
        ctx.sample({"enumerator": pr["enums"]["libwifi_tag_numbers"][29], "ieee": spec["libwifi_tag_numbers"].get(pr["enums"]["libwifi_tag_numbers"][29][0])})
    # ---- correspondence + Spec statement for the lookup
    exe, err = diffrun.build_harness("asan")
    if exe is None:
        ctx.oblige("harness", "harness builds from the working tree", False, err[-500:])
        ctx.violation("harness:build", "the working tree does not compile into the harness", {"broken": "harness build", "error": err[-2000:]}, found_input=False)
        return
    enum_tag = pr["enums"]["libwifi_tag_numbers"]
    args = set(range(-1024, 1025)) | {-(2 ** 31), 2 ** 31 - 1, 255, 256, 257, 65535, 65536, -256, 2 ** 31 - 2, -(2 ** 31) + 1}
    for _, v in enum_tag:
        args |= {v - 1, v, v + 1, v + 256, v - 256, v + 65536}
    for v, _ in data["tagname_cases"]:
        args |= {v - 1, v, v + 1}
    args = sorted(a for a in args if -(2 ** 31) <= a < 2 ** 31)
    lines = ["tagname %d" % a for a in args]
    lookup_bad = 0
    if ok or os.path.exists(fw.driver_path()):
        c_outs, m_outs, dis, crashes = diffrun.differential(exe, lines, canon_c=lambda s: s.rsplit(" ro=", 1)[0])
        ctx.count(len(lines), [("tagname", a) for a in args])
        for i, l, c, m in dis[:5]:
            ctx.notes.append("model/C disagree on %s: C=%r model=%r" % (l, c, m))
        ctx.oblige("correspondence", "S-const tagname: C = model on %d arguments" % len(lines), not dis and not crashes, "%d disagreements, %d crashes" % (len(dis), len(crashes)))
        ctx.sample({"op": lines[1024 + 48], "c": c_outs[1024 + 48], "model": m_outs[1024 + 48]})
    else:
        c_outs, crashes = diffrun.run_harness_all(exe, lines)
        dis = []
    for a, c in zip(args, c_outs):
        exp = expected_name(enum_tag, a)
        got = c.rsplit(" ro=", 1)[0] if c else c
        ro = c.endswith("ro=1") if c else False
        if got != exp or not ro:
            lookup_bad += 1
            ctx.violation("tagname:%d" % a, "libwifi_get_tag_name(%d) returns %r%s, expected %r" % (a, got, "" if ro else " (not a constant string)", exp),
                          {"kind": "tagname", "arg": a, "observed": c, "expected": exp})
    ctx.oblige("spec-on-impl", "lookup returns the published identifier / unknown string (constant, read-only) on all sampled integers", lookup_bad == 0)
    if ctx.tier == "thorough":
        # all 2^32 integers, in 64 blocks, against the finite table + default
        table = " ".join("%d %s" % (v, n) for n, v in enum_tag)
        blocks = []
        step = (2 ** 32) // 64
        for b in range(64):
            lo = -(2 ** 31) + b * step
            hi = lo + step - 1
            blocks.append("tagsweep %d %d %s %d %s" % (lo, hi, "Unknown\x01Tag", len(enum_tag), table))
        exe2, err2 = diffrun.build_harness("ship")
        res = diffrun.parallel_map(lambda l: diffrun.run_lines(exe2, [l], timeout=3000), blocks, 16)
        bad = 0
        for l, (o, rc, e) in zip(blocks, res):
            if rc != 0 or not o or not o[0].startswith("bad=0 "):
                bad += 1
                first = o[0] if o else "crash rc=%s" % rc
                arg = int(first.split("first=")[1]) if "first=" in first else None
                ctx.violation("tagname:%s" % arg, "libwifi_get_tag_name disagrees with the published table in block %s: %s" % (l.split()[1:3], first),
                              {"kind": "tagname", "arg": arg, "expected": expected_name(enum_tag, arg) if arg is not None else None})
        ctx.count(2 ** 32)
        ctx.coverage["exhaustive"] = True
        ctx.oblige("spec-on-impl", "lookup correct on all 2^32 integers (64 blocks)", bad == 0)
    # ---- verdict for broken proof obligations without a concrete failing input
    if broken and not ctx.violations and not ctx.known_hits:
        for name, detail in broken[:3]:
            ctx.violation("theorem:" + name, "proof obligation no longer checks: %s — %s" % (name, detail[:300]),
                          {"broken": name, "detail": detail}, found_input=False)
    if (mism or (dis if ok else False)) and not ctx.violations and not ctx.known_hits:
        ctx.violation("correspondence:tagname", "model and implementation disagree on the tag-name lookup but no argument violates the property",
                      {"broken": "S-const tagname correspondence", "examples": [(l, c, m) for _, l, c, m in dis[:5]]}, found_input=False)


def replay(rp):
    """Re-evaluate a recorded failing input on the current tree. Returns (passes, message)."""
    import gen as genmod
    meta, data = genmod.generate()
    pr = data["probe"]
    k = rp.get("kind")
    if k == "enum":
        cur = dict(pr["enums"][rp["enum"]]).get(rp["name"])
        return cur == rp["expected"], "%s = %s (IEEE %s)" % (rp["name"], cur, rp["expected"])
    if k == "enum-reserved":
        cur = dict(pr["enums"][rp["enum"]]).get(rp["name"])
        return cur != rp["observed"], "%s = %s (a reserved number: %s)" % (rp["name"], cur, rp["observed"])
    if k == "enum-missing":
        return rp["name"] in dict(pr["enums"][rp["enum"]]), "%s published: %s" % (rp["name"], rp["name"] in dict(pr["enums"][rp["enum"]]))
    if k == "enum-dup":
        d = dict(pr["enums"][rp["enum"]])
        vals = [d.get(n) for n in rp["names"]]
        return len(set(vals)) == len(vals), "%s -> %s" % (rp["names"], vals)
    if k == "tagname":
        exe, err = diffrun.build_harness("asan")
        o, rc, e = diffrun.run_lines(exe, ["tagname %d" % rp["arg"]])
        exp = expected_name(pr["enums"]["libwifi_tag_numbers"], rp["arg"])
        got = o[0].rsplit(" ro=", 1)[0] if o else None
        return got == exp and o[0].endswith("ro=1"), "libwifi_get_tag_name(%d) = %r, expected %r" % (rp["arg"], got, exp)
    return False, "replay names a broken obligation, not an input: %s" % rp.get("broken")
