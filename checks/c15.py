"""C15 — allocation failure is reported as an error, never a crash or silent loss."""
import random

from common import *  # noqa
import framework as fw
import frames
from checks import c03, c04, c05, c08, c12, c14

MODULE = ["LWV.Props.C15", "LWV.Props.C14Full", "LWV.Props.C14Parse", "LWV.Props.C15Parse"]


def scenarios(rnd, tier):
    n = 6 if tier == "quick" else 40
    out = []
    for k in c03.KINDS:
        for i in range(n // 3 + 1):
            l = c03.gen_line(rnd, k, full=True)
            if len(l) < 1500:
                out.append(l)
    # inputs of the coverage-guided corpus through the parsers (every allocation index of each is failed below)
    pool = [e for e in fw.parse_corpus() if 24 <= len(e[1]) <= 200]
    for rt, b in rnd.sample(pool, min(len(pool), 40 if tier == "quick" else 400)):
        out.append("%s %d %s" % (rnd.choice(["mp", "mp", "eap", "cls"]), rt, b.hex()))
    # short systematic call sequences on every kind (every allocation index of each is failed below)
    al = c03.api_lines(rnd, 0)
    out += [l for l in rnd.sample(al, min(len(al), 60 if tier == "quick" else 600)) if len(l) < 1500]
    for _ in range(n * 2):
        ops = []
        for _ in range(rnd.choice([2, 4, 8])):
            r = rnd.random()
            num = rnd.choice([0, 3, 5, 221])
            if r < 0.5:
                ops.append("a:%d:%s" % (num, frames.tag_body(rnd, rnd.choice([0, 1, 2, 8])).hex() or "-"))
            elif r < 0.7:
                ops.append("r:%d" % num)
            elif r < 0.85:
                ops.append("s:%s" % (bytes(rnd.randrange(1, 256) for _ in range(rnd.choice([0, 3]))).hex() or "-"))
            else:
                ops.append("c:%d" % rnd.randrange(256))
        out.append("tg " + ",".join(ops))
    out += ["tg a:221:%s,a:0:%s,s:%s" % ("5a" * 256, "41" * 255, "42" * 300),
            "gen beacon a1=000000000000 a2=000000000000 a3=000000000000 ssid=%s ch=6 clk=1:0 ops=s:%s" % ("41" * 256, "43" * 300)]
    # action details: every growing append (realloc of a non-empty detail) refused in turn - a refused append must keep
    # what earlier appends stored; also after a clear, and with an empty append in between
    for kind in ("action", "action_noack"):
        for ops in ("d:0102,d:0304", "d:01,d:02,d:03", "d:%s,d:%s,d:05" % ("33" * 100, "44" * 100), "d:01,f,d:02,d:03", "d:01,d:-,d:02", "d:01,d:02,f,d:03"):
            out.append("gen %s a1=020000000001 a2=020000000002 a3=020000000003 cat=%d ops=%s" % (kind, rnd.choice([0, 4, 127, 221]), ops))
    # parsers on accepted frames with and without radiotap
    for kind in frames.PARSABLE:
        for mode in range(3):
            els = frames.elem(0, b"net") + frames.elem(3, b"\x06") + frames.elem(48, frames.rsn_body(frames.suite(frames.IEEE, 4), [frames.suite(frames.IEEE, 4)], [frames.suite(frames.IEEE, 2)]))
            out.append(frames.mp_line(frames.mgmt(kind, rnd, els), mode, rnd))
    for mode in range(3):
        fr = c12.data_frame(rnd, mode % 2, c12.eapol_body(rnd, 0x010a, 22, 22))
        out.append(frames.mp_line(fr, mode, rnd).replace("mp ", "eap ", 1))
        out.append(frames.mp_line(fr, mode, rnd).replace("mp ", "cls ", 1))
    return out


DETAIL_AT = {"action": 25, "action_noack": 25}     # 24-octet header + category
TAGS_AT = {"beacon": 36, "probe_resp": 36, "assoc_resp": 30, "reassoc_resp": 30, "probe_req": 24, "assoc_req": 28, "reassoc_req": 34, "auth": 30, "deauth": 26, "disassoc": 26}


def elements(kind, dump_hex):
    b = bytes.fromhex(dump_hex)[TAGS_AT[kind]:]
    out = []
    i = 0
    while i + 2 <= len(b) and i + 2 + b[i + 1] <= len(b):
        out.append(bytes(b[i:i + 2 + b[i + 1]]))
        i += 2 + b[i + 1]
    return out


def search_failing_input(ctx, exe, lines, c_outs, m_outs):
    """After a correspondence break under fault injection: look for a line on which the IMPLEMENTATION ITSELF breaks the
    property, judged on implementation outputs only - a call whose allocation was refused must answer with an error or
    with exactly its fault-free answer (parsers); a generator history that reports success everywhere must have produced
    the fault-free frame, and one whose last call reports failure must still hold every element it held before that call."""
    import diffrun
    import re
    nofault = getattr(c14.fault_lines, "nofault", {})
    found = 0
    pend = []
    pend_act = []
    for l, c, m in zip(lines, c_outs, m_outs):
        if c is None or c.startswith(("CRASH", "SKIPPED")) or c == fw.split_model(m)[0]:
            continue
        inner = l.split(" ", 4)[4]
        base = (nofault.get(inner) or "").split(" || ")[0]
        cc = c.split(" || ")[0]
        why = None
        if inner.startswith("mp ") and " # " in base:
            for a, b in zip(cc.split(" # "), base.split(" # ")):
                if a != b and not a.endswith("=err-12") and a != "cls=err":
                    why = "with allocation %s refused, `%s` answers %s - neither an error nor its fault-free answer %s" % (l.split()[1], fw.clip(inner, 80), fw.clip(a, 120), fw.clip(b, 120))
                    break
        elif inner.startswith("eap ") and base.startswith("cls=ok"):
            if cc != "cls=err" and cc != base and not (cc.split(" data=")[0] == base.split(" data=")[0] and cc.endswith("data=err-12")):
                why = "with allocation %s refused, the EAPOL extraction answers %s instead of an error or %s" % (l.split()[1], fw.clip(cc, 160), fw.clip(base, 160))
        elif inner.startswith("gen "):
            g = re.match(r"ret=(-?\d+) edit=(-?\d+) len=(\d+) dump=(\d+)/([0-9a-f]*)", cc)
            gb = re.match(r"ret=(-?\d+) edit=(-?\d+) len=(\d+) dump=(\d+)/([0-9a-f]*)", base)
            kind = inner.split()[1]
            if g and gb and g.group(1) == "0" and g.group(2) == "0" and gb.group(1) == "0" and gb.group(2) == "0" and g.group(5) != gb.group(5) and " ops=" in inner and "," not in inner.split(" ops=")[1].split()[0]:
                why = "with allocation %s refused every call of `%s` reports success, but the frame differs from the fault-free one: a tag that could not be stored is reported as stored, or stored data was lost" % (l.split()[1], fw.clip(inner, 100))
            elif g and g.group(1) == "0" and int(g.group(2)) < 0 and kind in TAGS_AT and " ops=" in inner:
                pend.append((l, cc, inner, kind, g.group(5)))
            elif g and g.group(1) == "0" and int(g.group(2)) < 0 and kind in DETAIL_AT and " ops=" in inner and l.split()[2] == "0":
                # a single refused request and the LAST call reports failure: every earlier call ran fault-free
                pend_act.append((l, cc, inner, kind, g.group(5)))
        if why:
            found += 1
            if found <= 3:
                ctx.violation("S-alloc/fault-answer:" + l[:300], why, {"kind": "line", "suite": "S-alloc/faults", "line": l, "observed": c, "expected": "an error indication, or the fault-free result: " + base[:300]})
    if pend_act and found < 3:
        sib = []
        for l, cc, inner, kind, dump in pend_act[:40]:
            head, ops = inner.split(" ops=")
            ops, rest = (ops.split(" ", 1) + [""])[:2]
            shorter = ",".join(ops.split(",")[:-1])
            sib.append("alloc none 0 -1 " + head + (" ops=" + shorter if shorter else "") + (" " + rest if rest else ""))
        so, _ = diffrun.run_harness_all(exe, sib)
        for (l, cc, inner, kind, dump), o in zip(pend_act[:40], so):
            gb = re.match(r"ret=(-?\d+) edit=(-?\d+) len=(\d+) dump=(\d+)/([0-9a-f]*)", (o or ""))
            if not gb or gb.group(1) != "0" or int(gb.group(2)) < 0:
                continue
            before, after = gb.group(5)[2 * DETAIL_AT[kind]:], dump[2 * DETAIL_AT[kind]:]
            if before != after:
                found += 1
                ctx.violation("S-alloc/fault-loss:" + l[:300], "with allocation %s refused the last append of `%s` reports failure, and the detail octets %s that the object held before the call are now %s" % (l.split()[1], fw.clip(inner, 100), before[:80] or "(none)", after[:80] or "(none)"),
                              {"kind": "line", "suite": "S-alloc/faults", "line": l, "observed": cc, "expected": "a failed append loses no previously stored detail (before: %s)" % before[:400]})
                if found >= 3:
                    break
    if pend and found < 3:
        # histories whose LAST call reports failure: the object before that call is the fault-free object of the shorter history
        sib = []
        for l, cc, inner, kind, dump in pend[:40]:
            head, ops = inner.split(" ops=")
            ops, rest = (ops.split(" ", 1) + [""])[:2]
            shorter = ",".join(ops.split(",")[:-1])
            sib.append("alloc none 0 -1 " + head + (" ops=" + shorter if shorter else "") + (" " + rest if rest else ""))
        so, _ = diffrun.run_harness_all(exe, sib)
        for (l, cc, inner, kind, dump), o in zip(pend[:40], so):
            gb = re.match(r"ret=(-?\d+) edit=(-?\d+) len=(\d+) dump=(\d+)/([0-9a-f]*)", (o or ""))
            if not gb or gb.group(1) != "0":
                continue
            before, after = elements(kind, gb.group(5)), elements(kind, dump)
            lost = [e for e in before if before.count(e) > after.count(e)]
            if lost:
                found += 1
                ctx.violation("S-alloc/fault-loss:" + l[:300], "with allocation %s refused the last call of `%s` reports failure, and element %s that the object held before the call is gone" % (l.split()[1], fw.clip(inner, 100), lost[0].hex()),
                              {"kind": "line", "suite": "S-alloc/faults", "line": l, "observed": cc, "expected": "a failed call loses no previously stored data (elements before: %s)" % " ".join(e.hex() for e in before)[:400]})
                if found >= 3:
                    break
    return found


def check(ctx):
    ctx.rule = ("scenarios: every generator with tag / detail edits, tag edit histories, every parser on accepted frames with and without radiotap, data and EAPOL extraction; for each scenario the number N of library allocation requests is "
                "measured in a fault-free run, then EVERY index k < N is failed once (single failure) and as failure of all requests from k on (exhaustive per scenario), by a link-time malloc/realloc wrapper; "
                "required: normal return (no crash under ASan), no leak and no invalid free after the documented releases, outputs and allocation trace equal to the model's; for tag histories the Spec relation "
                "(failed call => list unchanged, successful call => correct) is evaluated on the implementation's states; distinct = (scenario, k, mode, trace)")
    r = fw.prepare(ctx, MODULE)
    if r is None:
        return
    ok, broken, data, exe = r
    import diffrun
    rnd = random.Random(ctx.seed)
    base = scenarios(rnd, ctx.tier)
    lines, total_points = c14.fault_lines(exe, base, rnd)
    ctx.coverage["scenarios"] = len(base)
    ctx.coverage["fault_points"] = total_points
    ctx.coverage["exhaustive"] = True

    def rel(line, c):
        inner = line.split(" ", 4)[4]
        if not inner.startswith("tg ") or c is None or c.startswith("CRASH"):
            return None
        return "tgchkf %s @ %s" % (inner.split(" ", 1)[1], c.split(" || ")[0])

    c_outs, m_outs, nd = fw.run_suite(ctx, exe, "S-alloc/faults", lines, "allocation failure", relcheck=rel)
    if nd:
        search_failing_input(ctx, exe, lines, c_outs, m_outs)
    bad = 0
    fired = 0
    for l, c in zip(lines, c_outs):
        lg = c14.ledger_of(c)
        if lg is None:
            continue
        fired += 1 if lg[3] > 0 else 0
        if lg[0] != 0 or lg[1] != 0:
            bad += 1
            ctx.violation("S-alloc/fault-leak:" + l[:300], "with allocation %s failing, %d library block(s) remain allocated / %d invalid free(s) after the documented releases: `%s`" % (l.split()[1], lg[0], lg[1], l[:200]),
                          {"kind": "line", "suite": "S-alloc/faults", "line": l, "observed": c, "expected": "live=0 bad=0"})
    ctx.coverage["runs_in_which_a_fault_fired"] = fired
    ctx.oblige("spec-on-impl", "every object releasable without leak or invalid free under every fault schedule (%d runs, faults fired in %d)" % (len(lines), fired), bad == 0)
    fw.conclude(ctx, broken)


class _Sink:
    def __init__(self):
        self.v = []

    def violation(self, key, msg, rp, found_input=True):
        self.v.append(msg)


def replay(rp):
    exp = rp.get("expected", "")
    if rp.get("kind") == "line" and (exp.startswith("an error indication") or exp.startswith("a failed call loses")):
        import diffrun
        exe, err = diffrun.build_harness("asan")
        line = rp["line"]
        inner = line.split(" ", 4)[4]
        co, _ = diffrun.run_harness_all(exe, [line, "alloc none 0 -1 " + inner])
        c14.fault_lines.nofault = {inner: co[1]}
        mo = diffrun.run_driver([line])
        sink = _Sink()
        search_failing_input(sink, exe, [line], [co[0]], mo)
        return not sink.v, (sink.v[0] if sink.v else "%s -> %s" % (line[:200], (co[0] or "")[:200]))
    return c14.replay(rp)
