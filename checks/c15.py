"""C15 — allocation failure is reported as an error, never a crash or silent loss."""
import random

from common import *  # noqa
import framework as fw
import frames
from checks import c03, c04, c05, c08, c12, c14

MODULE = ["LWV.Props.C15", "LWV.Props.C14Full", "LWV.Props.C14Parse", "LWV.Props.C15Parse"]


def scenarios(rnd, tier):
    n = 6 if tier == "quick" else 40
    out = []
    for k in c03.KINDS:
        for i in range(n // 3 + 1):
            l = c03.gen_line(rnd, k, full=True)
            if len(l) < 1500:
                out.append(l)
    # inputs of the coverage-guided corpus through the parsers (every allocation index of each is failed below)
    pool = [e for e in fw.parse_corpus() if 24 <= len(e[1]) <= 200]
    for rt, b in rnd.sample(pool, min(len(pool), 40 if tier == "quick" else 400)):
        out.append("%s %d %s" % (rnd.choice(["mp", "mp", "eap", "cls"]), rt, b.hex()))
    # short systematic call sequences on every kind (every allocation index of each is failed below)
    al = c03.api_lines(rnd, 0)
    out += [l for l in rnd.sample(al, min(len(al), 60 if tier == "quick" else 600)) if len(l) < 1500]
    for _ in range(n * 2):
        ops = []
        for _ in range(rnd.choice([2, 4, 8])):
            r = rnd.random()
            num = rnd.choice([0, 3, 5, 221])
            if r < 0.5:
                ops.append("a:%d:%s" % (num, frames.tag_body(rnd, rnd.choice([0, 1, 2, 8])).hex() or "-"))
            elif r < 0.7:
                ops.append("r:%d" % num)
            elif r < 0.85:
                ops.append("s:%s" % (bytes(rnd.randrange(1, 256) for _ in range(rnd.choice([0, 3]))).hex() or "-"))
            else:
                ops.append("c:%d" % rnd.randrange(256))
        out.append("tg " + ",".join(ops))
    out += ["tg a:221:%s,a:0:%s,s:%s" % ("5a" * 256, "41" * 255, "42" * 300),
            "gen beacon a1=000000000000 a2=000000000000 a3=000000000000 ssid=%s ch=6 clk=1:0 ops=s:%s" % ("41" * 256, "43" * 300)]
    # parsers on accepted frames with and without radiotap
    for kind in frames.PARSABLE:
        for mode in range(3):
            els = frames.elem(0, b"net") + frames.elem(3, b"\x06") + frames.elem(48, frames.rsn_body(frames.suite(frames.IEEE, 4), [frames.suite(frames.IEEE, 4)], [frames.suite(frames.IEEE, 2)]))
            out.append(frames.mp_line(frames.mgmt(kind, rnd, els), mode, rnd))
    for mode in range(3):
        fr = c12.data_frame(rnd, mode % 2, c12.eapol_body(rnd, 0x010a, 22, 22))
        out.append(frames.mp_line(fr, mode, rnd).replace("mp ", "eap ", 1))
        out.append(frames.mp_line(fr, mode, rnd).replace("mp ", "cls ", 1))
    return out


def check(ctx):
    ctx.rule = ("scenarios: every generator with tag / detail edits, tag edit histories, every parser on accepted frames with and without radiotap, data and EAPOL extraction; for each scenario the number N of library allocation requests is "
                "measured in a fault-free run, then EVERY index k < N is failed once (single failure) and as failure of all requests from k on (exhaustive per scenario), by a link-time malloc/realloc wrapper; "
                "required: normal return (no crash under ASan), no leak and no invalid free after the documented releases, outputs and allocation trace equal to the model's; for tag histories the Spec relation "
                "(failed call => list unchanged, successful call => correct) is evaluated on the implementation's states; distinct = (scenario, k, mode, trace)")
    r = fw.prepare(ctx, MODULE)
    if r is None:
        return
    ok, broken, data, exe = r
    import diffrun
    rnd = random.Random(ctx.seed)
    base = scenarios(rnd, ctx.tier)
    lines, total_points = c14.fault_lines(exe, base, rnd)
    ctx.coverage["scenarios"] = len(base)
    ctx.coverage["fault_points"] = total_points
    ctx.coverage["exhaustive"] = True

    def rel(line, c):
        inner = line.split(" ", 4)[4]
        if not inner.startswith("tg ") or c is None or c.startswith("CRASH"):
            return None
        return "tgchkf %s @ %s" % (inner.split(" ", 1)[1], c.split(" || ")[0])

    c_outs, m_outs, nd = fw.run_suite(ctx, exe, "S-alloc/faults", lines, "allocation failure", relcheck=rel)
    bad = 0
    fired = 0
    for l, c in zip(lines, c_outs):
        lg = c14.ledger_of(c)
        if lg is None:
            continue
        fired += 1 if lg[3] > 0 else 0
        if lg[0] != 0 or lg[1] != 0:
            bad += 1
            ctx.violation("S-alloc/fault-leak:" + l[:300], "with allocation %s failing, %d library block(s) remain allocated / %d invalid free(s) after the documented releases: `%s`" % (l.split()[1], lg[0], lg[1], l[:200]),
                          {"kind": "line", "suite": "S-alloc/faults", "line": l, "observed": c, "expected": "live=0 bad=0"})
    ctx.coverage["runs_in_which_a_fault_fired"] = fired
    ctx.oblige("spec-on-impl", "every object releasable without leak or invalid free under every fault schedule (%d runs, faults fired in %d)" % (len(lines), fired), bad == 0)
    fw.conclude(ctx, broken)


def replay(rp):
    return c14.replay(rp)
