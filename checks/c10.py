"""C10 — generated radiotap headers are valid and decode to the same values."""
import random

from common import *  # noqa
import framework as fw
import rtbuild

MODULE = ["LWV.Props.C10", "LWV.Props.C09Full", "LWV.Props.C02Full"]

KEYS = {1: [("flags", 8)], 2: [("rate", 8)], 3: [("freq", 16), ("cfl", 16)], 5: [("sig", 8)], 10: [("txp", 8)], 14: [("rx", 16)], 15: [("tx", 16)],
        16: [("rts", 8)], 17: [("data", 8)], 19: [("mk", 8), ("mf", 8), ("mm", 8)], 22: [("ts", 64), ("tsa", 16), ("tsu", 8), ("tsf", 8)]}


def gen_line(mask, mode, rnd):
    kv = ["present=0x%x" % mask]
    for b, ks in KEYS.items():
        for k, w in ks:
            if mode == "zero":
                v = 0
            elif mode == "ones":
                v = (1 << w) - 1
            elif mode == "boundary":
                v = rnd.choice([1, (1 << (w - 1)), (1 << (w - 1)) - 1, 0x80, 0x7f, 2412, 2484, 5180, 5955, 7115]) & ((1 << w) - 1)
            else:
                v = rnd.getrandbits(w)
            if k == "flags":
                v &= ~0  # FCS flag allowed: generation does not append an FCS
            kv.append("%s=%d" % (k, v))
    return "rtg " + ",".join(kv)


def check(ctx):
    ctx.rule = ("all 2^11 subsets of the carried fields (flags, rate, channel, signal, TX power, RX flags, TX flags, RTS retries, data retries, MCS, timestamp), each with zero / all-ones / boundary / random values "
                "(exhaustive over subsets), and the channel field alone with ALL 65 536 frequency values: libwifi_create_radiotap into an exact 128-byte block, then libwifi_parse_radiotap_info on the result; compared with the model, with the Spec encoder "
                "(version 0, length = bytes produced, present word, fields little-endian at aligned offsets in bit order) and with the supplied values; distinct = (op, output); "
                "classification invariance: headers produced by the real generator for sampled subsets are prepended to frames of every header kind (management ordered / unordered, control, data, QoS data, extension) at lengths around "
                "the header length (h-18 .. h+1, h+30), an FCS appended when the flags announce one; the classification with the prefix must equal the classification of the bare frame (length, header length, header, body, QoS / ordered flags, data extraction); "
                "a sample of both suites again with the buffer 1, 2 and 4 octets off its natural alignment")
    r = fw.prepare(ctx, MODULE)
    if r is None:
        return
    ok, broken, data, exe = r
    rnd = random.Random(ctx.seed)
    car = rtbuild.CARRIED
    lines = []
    for i in range(1 << len(car)):
        m = 0
        for j, b in enumerate(car):
            if i >> j & 1:
                m |= 1 << b
        for mode in ("zero", "ones", "boundary", "random") + (("random",) * 4 if ctx.tier == "thorough" else ()):
            lines.append(gen_line(m, mode, rnd))
    ctx.coverage["exhaustive"] = True
    c_outs, _, _ = fw.run_suite(ctx, exe, "S-rtg/carried-subsets", lines, "radiotap generation")
    # every value of the 16-bit channel frequency (the decode derives band and channel number from it), with random flags
    fl = ["rtg present=0x8,freq=%d,cfl=%d" % (f, rnd.choice([0, 0xffff, 0x00a0, 0x0140, rnd.getrandbits(16)])) for f in range(65536)]
    fw.run_suite(ctx, exe, "S-rtg/all-frequencies", fl, "radiotap generation and decode of every channel frequency")
    # alignment of the generated fields is relative to the start of the header, wherever the caller's buffer lies
    mis = rnd.sample(lines, min(len(lines), 900 if ctx.tier == "quick" else 6000))
    for k in (1, 2, 4):
        fw.run_suite(ctx, exe, "S-rtg/misaligned@+%d" % k, mis[k % 3::3], "radiotap generation and decode at a misaligned address", env={"LWV_MISALIGN": str(k)})
    # ---- the generated header in front of a frame does not change how the frame is classified
    import re
    import zlib
    hdrs = []
    for l, c in zip(lines, c_outs):
        m = re.search(r"hdr=([0-9a-f]+)", c or "")
        if m:
            h = bytes.fromhex(m.group(1))
            pres = int.from_bytes(h[4:8], "little") if len(h) >= 8 else 0
            fcs = bool(pres & 2) and len(h) > 8 and bool(h[8] & 0x10)          # FLAGS is the first field when present (alignment 1)
            if pres & 1:
                continue                                                   # TSFT in front of FLAGS is never generated (not carried)
            hdrs.append((h, fcs))
    hdrs = rnd.sample(hdrs, min(len(hdrs), 400 if ctx.tier == "quick" else 4000))
    pairs = []
    for h, fcs in hdrs:
        fc0, fc1 = rnd.choice([(0x80, 0x80), (0x80, 0x00), (0x50, 0x80), (0xc0, 0x80), (0xa0, 0x80), (0xb4, 0x00), (0x08, 0x00), (0x88, 0x00), (0xc8, 0x80), (0x0c, 0x00), (rnd.getrandbits(8), rnd.getrandbits(8))])
        ty, st = (fc0 >> 2) & 3, fc0 >> 4
        hl = (28 if fc1 & 0x80 else 24) if ty == 0 else 4 if ty == 1 else (26 if st in (8, 9, 10, 11, 12, 14, 15) else 24)
        for L in sorted({max(0, hl - 18), max(0, hl - 5), max(0, hl - 4), max(0, hl - 1), hl, hl + 1, hl + 30}):
            fr = (bytes([fc0, fc1]) + bytes(rnd.getrandbits(8) for _ in range(max(0, L - 2))))[:L]
            tail = (zlib.crc32(fr) & 0xffffffff).to_bytes(4, "little") if fcs else b""
            # the mode argument is a C truth value: any non-zero selector announces the radiotap header
            pairs.append(("cls 0 " + (fr.hex() or "-"), "cls %d %s" % (rnd.choice([1, 1, 1, 2, -1, 8, 256, 2147483647]), (h + fr + tail).hex())))
    flat = [x for pr in pairs for x in pr]
    outs, _, _ = fw.run_suite(ctx, exe, "S-rtg/prefix-classification", flat, "classification behind a generated radiotap header")
    fw.run_suite(ctx, exe, "S-rtg/prefix-classification@+4", flat[: 2 * (len(flat) // 8)], "classification behind a generated radiotap header at a misaligned address", env={"LWV_MISALIGN": "4"})

    def core(o):
        if o is None or o.startswith("CRASH"):
            return o
        if o.startswith("err"):
            return "err"
        o = re.sub(r"flags=(\d+)", lambda m: "flags=%d" % (int(m.group(1)) & 6), o)      # QoS and ordered bits only
        return re.sub(r" rt=\S+", "", o)
    bad = 0
    for (l0, l1), i in zip(pairs, range(0, len(flat), 2)):
        a, b = core(outs[i]), core(outs[i + 1])
        if a != b:
            bad += 1
            if bad <= 3:
                ctx.violation("S-rtg/prefix:" + l1, "a frame is classified differently behind its generated radiotap header: `%s` gives %s but `%s` gives %s" % (fw.clip(l0, 120), fw.clip(outs[i], 160), fw.clip(l1, 160), fw.clip(outs[i + 1], 160)),
                              {"kind": "pair", "bare": l0, "prefixed": l1, "observed": outs[i + 1], "expected": outs[i]})
    ctx.oblige("spec-on-impl", "classification with the generated prefix = classification of the bare frame on %d pairs" % len(pairs), bad == 0, "%d differing" % bad)
    fw.conclude(ctx, broken)


def replay(rp):
    if rp.get("kind") == "pair":
        import diffrun
        import re
        exe, err = diffrun.build_harness("asan")
        co, cr = diffrun.run_harness_all(exe, [rp["bare"], rp["prefixed"]])

        def core(o):
            if o is None or o.startswith("CRASH"):
                return o
            if o.startswith("err"):
                return "err"
            o = re.sub(r"flags=(\d+)", lambda m: "flags=%d" % (int(m.group(1)) & 6), o)
            return re.sub(r" rt=\S+", "", o)
        return core(co[0]) == core(co[1]), "%s -> %s | %s -> %s" % (rp["bare"][:80], co[0], rp["prefixed"][:80], co[1])
    return fw.replay_line(rp)
