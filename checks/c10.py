"""C10 — generated radiotap headers are valid and decode to the same values."""
import random

from common import *  # noqa
import framework as fw
import rtbuild

MODULE = ["LWV.Props.C10", "LWV.Props.C09Full"]

KEYS = {1: [("flags", 8)], 2: [("rate", 8)], 3: [("freq", 16), ("cfl", 16)], 5: [("sig", 8)], 10: [("txp", 8)], 14: [("rx", 16)], 15: [("tx", 16)],
        16: [("rts", 8)], 17: [("data", 8)], 19: [("mk", 8), ("mf", 8), ("mm", 8)], 22: [("ts", 64), ("tsa", 16), ("tsu", 8), ("tsf", 8)]}


def gen_line(mask, mode, rnd):
    kv = ["present=0x%x" % mask]
    for b, ks in KEYS.items():
        for k, w in ks:
            if mode == "zero":
                v = 0
            elif mode == "ones":
                v = (1 << w) - 1
            elif mode == "boundary":
                v = rnd.choice([1, (1 << (w - 1)), (1 << (w - 1)) - 1, 0x80, 0x7f, 2412, 2484, 5180, 5955, 7115]) & ((1 << w) - 1)
            else:
                v = rnd.getrandbits(w)
            if k == "flags":
                v &= ~0  # FCS flag allowed: generation does not append an FCS
            kv.append("%s=%d" % (k, v))
    return "rtg " + ",".join(kv)


def check(ctx):
    ctx.rule = ("all 2^11 subsets of the carried fields (flags, rate, channel, signal, TX power, RX flags, TX flags, RTS retries, data retries, MCS, timestamp), each with zero / all-ones / boundary / random values "
                "(exhaustive over subsets): libwifi_create_radiotap into an exact 128-byte block, then libwifi_parse_radiotap_info on the result; compared with the model, with the Spec encoder "
                "(version 0, length = bytes produced, present word, fields little-endian at aligned offsets in bit order) and with the supplied values; distinct = (op, output); "
                "classification invariance under a generated prefix is exercised in C02's suites")
    r = fw.prepare(ctx, MODULE)
    if r is None:
        return
    ok, broken, data, exe = r
    rnd = random.Random(ctx.seed)
    car = rtbuild.CARRIED
    lines = []
    for i in range(1 << len(car)):
        m = 0
        for j, b in enumerate(car):
            if i >> j & 1:
                m |= 1 << b
        for mode in ("zero", "ones", "boundary", "random") + (("random",) * 4 if ctx.tier == "thorough" else ()):
            lines.append(gen_line(m, mode, rnd))
    ctx.coverage["exhaustive"] = True
    fw.run_suite(ctx, exe, "S-rtg/carried-subsets", lines, "radiotap generation")
    fw.conclude(ctx, broken)


def replay(rp):
    return fw.replay_line(rp)
