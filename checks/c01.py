"""C01 — parsing arbitrary bytes is memory-safe and always returns."""
import os
import random
import subprocess
import zlib

from common import *  # noqa
import framework as fw
import frames
import rtbuild
from checks import c03, c12

MODULE = ["LWV.Props.C01", "LWV.Props.C02Full"]
PARSE_OPS = ("cls", "mp", "eap", "rtp", "it", "crc", "rssi", "ie")
CORPUS_PROPS = ["C02", "C04", "C06", "C08", "C09", "C12"]
RSSI_SIG = "rssi:buffer-shorter-than-announced-header"


def hx(b):
    return bytes(b).hex() or "-"


def all_ops(b, rt):
    """every parsing entry point on one byte string (radiotap mode rt)"""
    h = hx(b)
    out = ["cls %d %s" % (rt, h), "mp %d %s" % (rt, h), "eap %d %s" % (rt, h)]
    if rt:
        out.append("rtp " + h)
        if len(b) >= 4 and int.from_bytes(b[2:4], "little") <= len(b):
            out.append("rssi " + h)
    return out


def base_frames(ctx, exe, rnd):
    """(name, radiotap mode, bytes, offset of the tagged parameters or None)"""
    import diffrun
    out = []
    glines = [c03.gen_line(rnd, k, full=True) for k in c03.KINDS]
    gouts = diffrun.run_harness_all(exe, glines)[0]
    for k, o in zip(c03.KINDS, gouts):
        if o and " dump=" in o and "/" in o.split(" dump=")[1]:
            h = o.split(" dump=")[1].split()[0].split("/")[1]
            if h != "-":
                out.append(("gen-" + k, 0, bytes.fromhex(h)))
    I, M = frames.IEEE, frames.MS
    rsn = frames.elem(48, frames.rsn_body(frames.suite(I, 4), [frames.suite(I, 4), frames.suite(I, 2)], [frames.suite(I, 2), frames.suite(I, 8)], caps=b"\xc0\x00"))
    wpa = frames.elem(221, frames.wpa_body(frames.suite(M, 2), [frames.suite(M, 2), frames.suite(M, 4)], [frames.suite(M, 2)]))
    wps = frames.elem(221, M + b"\x04" + bytes(rnd.getrandbits(8) for _ in range(10)))
    els = frames.elem(0, b"network") + frames.elem(1, b"\x82\x84\x8b\x96") + frames.elem(3, b"\x06") + rsn + wpa + wps + frames.elem(61, bytes(22))
    for kind in frames.PARSABLE:
        out.append(("crafted-" + kind, 0, frames.mgmt(kind, rnd, els, privacy=True)))
    out.append(("crafted-beacon-ordered", 0, frames.mgmt("beacon", rnd, els, order=True)))
    for qos in (0, 1):
        out.append(("eapol-qos%d" % qos, 0, c12.data_frame(rnd, qos, c12.eapol_body(rnd, 0x13ca, 22, 22))))
    out.append(("ctrl-rts", 0, bytes([0xb4, 0x00]) + bytes(rnd.getrandbits(8) for _ in range(14))))
    # the same behind radiotap headers of three shapes, with and without FCS
    rt_plain = rtbuild.build([{"fields": [1, 2, 3, 5], "values": {1: b"\x00"}}], rnd)
    rt_fcs = rtbuild.build([{"fields": [0, 1, 3, 5, 6, 11, 14, 19, 22], "values": {1: b"\x10"}}], rnd)
    rt_multi = rtbuild.build([{"fields": [1, 5], "values": {1: b"\x10"}, "reset": True}, {"fields": [5, 11], "vendor": bytes(rnd.getrandbits(8) for _ in range(7))}, {"fields": [2, 5]}], rnd)
    wrapped = []
    for name, _, fr in out[:]:
        if name.startswith("gen-") and name not in ("gen-beacon", "gen-action", "gen-probe_req"):
            continue
        wrapped.append((name + "+rt", 1, rt_plain + fr))
        wrapped.append((name + "+rt+fcs", 1, rt_fcs + fr + (zlib.crc32(fr) & 0xffffffff).to_bytes(4, "little")))
    fr = out[len(c03.KINDS)][2]
    wrapped.append(("crafted+rtmulti", 1, rt_multi + fr + (zlib.crc32(fr) & 0xffffffff).to_bytes(4, "little")))
    for nm, h in (("rt-only-plain", rt_plain), ("rt-only-fcs", rt_fcs), ("rt-only-multi", rt_multi)):
        wrapped.append((nm, 1, h))
    return out + wrapped


PERT = (0x00, 0xff, 0x7f, 0x80)


def perturbations(fr, rnd, dense):
    """every truncation; every byte position set to boundary values / incremented / decremented"""
    n = len(fr)
    cuts = range(n + 1) if (dense or n <= 160) else sorted(set(list(range(0, 64)) + list(range(n - 48, n + 1)) + rnd.sample(range(n), 48)))
    for k in cuts:
        yield fr[:k]
    pos = range(n) if (dense or n <= 120) else sorted(set(list(range(0, 72)) + rnd.sample(range(n), 48)))
    for i in pos:
        for v in PERT + ((fr[i] + 1) & 0xff, (fr[i] - 1) & 0xff):
            if v != fr[i]:
                b = bytearray(fr)
                b[i] = v
                yield bytes(b)
    # appended garbage / doubled frame
    yield fr + bytes(rnd.getrandbits(8) for _ in range(5))
    yield fr + fr


def valgrind_pass(ctx, lines, label):
    """memcheck on the uninstrumented -O0 build: catches reads gcc's ASan does not instrument (bit-field loads)"""
    import diffrun
    exe, err = diffrun.build_harness("o0")
    if exe is None:
        ctx.violation("harness:o0", "the working tree does not compile at -O0", {"broken": "harness build o0", "error": (err or "")[-1500:]}, found_input=False)
        return
    chunks = diffrun.chunked(lines, 16)

    def run(ch):
        p = subprocess.run(["valgrind", "-q", "--error-exitcode=97", "--exit-on-first-error=yes", "--read-var-info=no", "--undef-value-errors=yes", exe],
                           input="\n".join(ch) + "\n", capture_output=True, text=True, errors="replace", timeout=3000)
        return p.returncode, len(p.stdout.splitlines()), p.stderr[-2500:]
    bad = 0
    for ch, (rc, nout, err) in zip(chunks, diffrun.parallel_map(run, chunks)):
        if rc != 0:
            bad += 1
            culprit = ch[min(nout, len(ch) - 1)]
            # isolate
            rc1, _, err1 = run([culprit])
            ctx.violation("valgrind:" + culprit[:120], "memcheck reports an invalid access / use of uninitialised memory: `%s`: %s" % (fw.clip(culprit, 200), fw.clip((err1 if rc1 else err).strip().splitlines()[0] if (err1 or err).strip() else "rc=%d" % rc, 200)),
                          {"kind": "valgrind-line", "line": culprit, "stderr": (err1 if rc1 else err)})
    ctx.count(len(lines))
    ctx.oblige("memcheck", "%s: valgrind memcheck clean on %d lines (-O0 build, exact-size heap inputs)" % (label, len(lines)), bad == 0, "%d chunks with errors" % bad)
    ctx.coverage.setdefault("valgrind", {})[label] = {"lines": len(lines), "failing_chunks": bad}


def check(ctx):
    import diffrun
    thorough = ctx.tier == "thorough"
    ctx.rule = ("every parsing entry point (classification in both radiotap modes, all nine management parsers + data + EAPOL recognition/message/extraction on every classified frame, radiotap info, radiotap rssi, tag iterator, CRC/FCS/verify) on: "
                "ALL byte strings of length 0..2 in both modes (exhaustive)%s; structured base frames (every generator's output, crafted frames of all nine parsable subtypes with RSN/WPA/WPS elements, EAPOL QoS/non-QoS, control; bare, behind three radiotap header shapes, with computed FCS) "
                "with EVERY truncation and every byte position set to 00/FF/7F/80/+1/-1 (%s); the parse corpora of C02/C04/C06/C08/C09/C12 (sampled); random strings up to 4096 bytes; a size ladder (frame bodies of 255 .. 70 000 octets around every 8- to 16-bit width and the 802.11 length limits, as data, EAPOL-shaped and management frames of maximal elements); each input in an exact-size heap block under ASan+UBSan, compared with the model "
                "(a model fault = an out-of-bounds access); a memcheck pass on the -O0 build; %sreturn values must be 0 or negative; distinct = (op, output)"
                % (", ALL strings of length 3 (C only, in-harness sweep)" if thorough else "", "all positions" if thorough else "all positions of frames up to 120 bytes, 120 positions otherwise",
                   "libFuzzer (clang, ASan+UBSan) over all entry points; " if thorough else ""))
    r = fw.prepare(ctx, MODULE)
    if r is None:
        return
    ok, broken, data, exe = r
    rnd = random.Random(ctx.seed)
    # ---- exhaustive short strings
    short = []
    for L in range(3):
        for v in range(256 ** L):
            b = v.to_bytes(L, "big") if L else b""
            h = hx(b)
            short += ["cls 0 " + h, "cls 1 " + h, "it " + h, "rtp " + h]
            if L < 2 or v % 17 == 0:
                short += ["ie rsn " + h, "ie wpa " + h]
            if L < 2 or v % 257 == 0:
                short += ["mp 0 " + h, "mp 1 " + h, "eap 0 " + h, "eap 1 " + h, "crc " + h]
    short.append("version")
    fw.run_suite(ctx, exe, "S-safe/len0-2", short, "parse of a short string")
    ctx.coverage["exhaustive"] = True
    # ---- structured frames
    bases = base_frames(ctx, exe, rnd)
    ctx.coverage["base_frames"] = [(n, rt, len(b)) for n, rt, b in bases]
    lines = []
    seen = set()
    for name, rt, fr in bases:
        for b in perturbations(fr, rnd, thorough):
            if (rt, b) in seen:
                continue
            seen.add((rt, b))
            lines += all_ops(b, rt)
        # the tagged-parameter region of management frames straight into the iterator
        if not rt and len(fr) > 36 and (fr[0] & 0x0c) == 0:
            tags = fr[36:]
            for b in perturbations(tags, rnd, False):
                lines.append("it " + hx(b))
    # every tag region of up to three octets over the element numbers the parsers treat specially, as the whole
    # element region of every parsable subtype (a zero-length first element is accepted by the iterator)
    alpha = [0, 1, 2, 3, 4, 48, 61, 221, 255]
    regions = [bytes([a]) for a in alpha] + [bytes([a, b]) for a in alpha for b in alpha] + [bytes([a, b, c]) for a in (0, 3, 48, 61, 221) for b in (0, 1, 2, 4) for c in alpha]
    for kind in frames.PARSABLE:
        for reg in regions:
            fr = frames.mgmt(kind, rnd, reg, order=(len(reg) + len(kind)) % 5 == 0)
            lines.append("mp 0 " + hx(fr))
    fw.run_suite(ctx, exe, "S-safe/structured", lines, "parse of a perturbed frame")
    # ---- corpora of the functional checks
    cap = 20000 if thorough else 1500
    corpus = fw.collect_corpus(ctx, CORPUS_PROPS, tier="quick", keep=lambda l: l.split(" ", 1)[0] in PARSE_OPS)
    by = {}
    for p, s, l in corpus:
        by.setdefault(p, []).append(l)
    cl = []
    for p in sorted(by):
        cl += rnd.sample(by[p], cap) if len(by[p]) > cap else by[p]
    # cross-application: every corpus input through every other entry point of its mode
    cross = []
    for l in rnd.sample(cl, min(len(cl), cap)):
        t = l.split()
        if t[0] in ("cls", "mp", "eap") and len(t) == 3:
            b = bytes.fromhex(t[2]) if t[2] != "-" else b""
            cross += [x for x in all_ops(b, int(t[1])) if x != l]
        elif t[0] == "rtp" and len(t) == 2:
            b = bytes.fromhex(t[1]) if t[1] != "-" else b""
            cross += ["cls 1 " + t[1], "mp 1 " + t[1]] + (["rssi " + t[1]] if len(b) >= 4 and int.from_bytes(b[2:4], "little") <= len(b) else [])
    fw.run_suite(ctx, exe, "S-safe/corpus", cl + cross, "parse")
    # ---- coverage-guided corpus (built on the clean tree by libFuzzer) and structure-blind mutants of it, every entry point
    ci = fw.corpus_inputs(ctx, random.Random(ctx.seed + 79))
    cl2 = []
    for rt_, b_ in ci:
        cl2 += all_ops(b_, rt_)
        if len(b_) <= 300:
            cl2 += ["it " + hx(b_), "ie rsn " + hx(b_), "ie wpa " + hx(b_)]
    fw.run_suite(ctx, exe, "S-safe/fuzz-corpus", cl2, "parse of a corpus input or a mutant of one")
    # ---- random strings
    rl = []
    for _ in range(400 if not thorough else 6000):
        L = rnd.choice([3, 4, 5, 7, 8, 9, 12, 23, 24, 25, 26, 28, 36, 64, 107, 131, 300, 1024, 2304, 4096, rnd.randrange(0, 4097)])
        b = bytearray(rnd.getrandbits(8) for _ in range(L))
        if L >= 4 and rnd.random() < 0.6:
            b[0] = 0
            b[2:4] = rnd.choice([8, 12, L, min(L, 255), rnd.randrange(0, L + 1)]).to_bytes(2, "little")
        rt = rnd.randrange(2)
        if not rt and L and rnd.random() < 0.7:
            b[0] = rnd.choice([0x80, 0x50, 0x40, 0x00, 0x10, 0x20, 0x30, 0xa0, 0xc0, 0x08, 0x88, 0xb4, 0xd4])
        rl += all_ops(bytes(b), rt) + ["it " + hx(b), "crc " + hx(b)]
        if L <= 300:
            rl += ["ie rsn " + hx(b), "ie wpa " + hx(b)]
    fw.run_suite(ctx, exe, "S-safe/random", rl, "parse of a random string")
    # ---- the entry point without a length parameter on buffers shorter than the header announces (known finding D22)
    sl = ["rssi -", "rssi 00", "rssi 0000", "rssi 000008", "rssi 00000800", "rssi 00000c0020000000", "rssi 0000090020000000"]
    for _ in range(40):
        h = rtbuild.build([{"fields": sorted(rnd.sample([0, 1, 2, 3, 5, 6, 10, 11], rnd.randrange(1, 5)))}], rnd)
        sl.append("rssi " + hx(h[:rnd.randrange(4, len(h))]))
    co, crashes = diffrun.run_harness_all(exe, sl)
    mo = diffrun.run_driver(sl)
    ctx.count(len(sl))
    ncr = 0
    for l, c, m in zip(sl, co, mo):
        mm = fw.split_model(m)[0]
        crashed = c is None or c.startswith("CRASH")
        faulted = mm.startswith("FAULT")
        if crashed:
            ncr += 1
            b = bytes.fromhex(l.split()[1]) if l.split()[1] != "-" else b""
            announced = int.from_bytes(b[2:4], "little") if len(b) >= 4 else None
            if announced is not None and announced <= len(b):
                ctx.violation("rssi:covered:" + l, "libwifi_parse_radiotap_rssi reads outside a buffer that holds the whole announced header: `%s` gives %s" % (l, c), {"kind": "line", "suite": "S-safe/rssi-short", "line": l, "observed": c, "expected": "no crash"})
            else:
                ctx.violation(RSSI_SIG, "libwifi_parse_radiotap_rssi(frame) has no length parameter and reads past a buffer shorter than the header's own it_len (e.g. `%s`: %s)" % (l, c),
                              {"kind": "line", "suite": "S-safe/rssi-short", "line": l, "observed": c, "expected": "no crash"})
        elif faulted:
            pass  # the over-read stayed inside mapped memory the sanitizer does not poison; the model still shows it
    ctx.coverage["rssi_short_buffers"] = {"lines": len(sl), "sanitizer_reports": ncr}
    ctx.oblige("correspondence", "S-safe/rssi-short: model faults exactly where the sanitizer reports (or the read stays unreported)", all(
        (not (c or "").startswith("CRASH")) or fw.split_model(m)[0].startswith("FAULT") for c, m in zip(co, mo)), "")
    # ---- long frames: sizes at which a cap, a length field or a narrowed integer could break
    fw.run_suite(ctx, exe, "S-safe/size-ladder", frames.size_ladder(rnd, ctx.tier), "parsing of long frames")
    # ---- memcheck
    vg = rnd.sample(lines, min(len(lines), 6000 if thorough else 500)) + rnd.sample(short, 300) + rnd.sample(rl, min(len(rl), 2000 if thorough else 200))
    valgrind_pass(ctx, vg, "S-safe/memcheck")
    if thorough:
        sweep3(ctx, exe)
        fuzz(ctx, bases)
    fw.conclude(ctx, broken)


def sweep3(ctx, exe):
    """all 2^24 strings of length 3 through every entry point inside the harness (C only: the model's answer
    for every string shorter than 4 octets is 'refuse', theorem C01_short)"""
    import diffrun
    lines = ["sweep3 %d %d" % (a, a + 16) for a in range(0, 256, 16)]
    outs = []
    for co, cr in diffrun.parallel_map(lambda ch: diffrun.run_harness_all(exe, ch, timeout=3000), [[l] for l in lines]):
        outs += co
    bad = [(l, o) for l, o in zip(lines, outs) if o != "sweep3 accepted=0 nonneg=0"]
    ctx.count(256 ** 3 * 2)
    ctx.oblige("exhaustive", "all 16 777 216 strings of length 3, both modes: every entry point refuses with a negative code, no sanitizer report", not bad, repr(bad[:2]))
    for l, o in bad[:2]:
        ctx.violation("sweep3:" + l, "a 3-octet string is accepted or crashes a parser: %s -> %s" % (l, o), {"kind": "line", "suite": "S-safe/sweep3", "line": l, "observed": o, "expected": "sweep3 accepted=0 nonneg=0"})


def fuzz(ctx, bases):
    """coverage-guided search for a failing input (support only; never stands in for a theorem)"""
    secs = int(os.environ.get("LWV_FUZZ_SECS", "120"))
    tgt = os.path.join(WORK, "fuzz_target")
    srcs = repo_c_files()
    rc, out, err = run(["clang", "-g", "-O1", "-w", "-std=gnu17", "-fsanitize=fuzzer,address,undefined", "-fno-sanitize=shift,alignment,nonnull-attribute,pointer-overflow", "-fno-sanitize-recover=all",
                        "-I" + SRC, '-DLIBWIFI_VERSION="fuzz"', os.path.join(VERIF, "harness", "fuzz", "fuzz_target.c")] + srcs + ["-o", tgt], timeout=900)
    if rc != 0:
        ctx.notes.append("libFuzzer target did not build (clang): %s" % err[-300:])
        ctx.oblige("fuzz", "libFuzzer target builds", False, err[-300:])
        ctx.violation("fuzz:build", "the working tree does not compile into the fuzz target", {"broken": "fuzz target build", "error": err[-1500:]}, found_input=False)
        return
    corp = os.path.join(WORK, "fuzz_corpus")
    art = os.path.join(WORK, "fuzz_artifacts") + "/"
    import shutil
    shutil.rmtree(corp, ignore_errors=True)
    shutil.rmtree(art, ignore_errors=True)
    os.makedirs(corp)
    os.makedirs(art)
    for i, (n, rt, b) in enumerate(bases):
        open(os.path.join(corp, "seed%03d" % i), "wb").write(bytes([rt]) + b)
    p = subprocess.run([tgt, corp, "-max_len=4097", "-max_total_time=%d" % secs, "-jobs=16", "-workers=16", "-artifact_prefix=" + art, "-print_final_stats=1", "-seed=%d" % ctx.seed],
                       capture_output=True, text=True, errors="replace", cwd=WORK, timeout=secs * 4 + 600)
    found = sorted(os.listdir(art))
    execs = 0
    import re
    import glob
    for f in glob.glob(os.path.join(WORK, "fuzz-*.log")):
        for m in re.finditer(r"stat::number_of_executed_units: (\d+)", open(f, errors="replace").read()):
            execs += int(m.group(1))
        os.remove(f)
    ctx.count(execs)
    ctx.coverage["fuzz"] = {"seconds": secs, "jobs": 16, "executions": execs, "artifacts": len(found)}
    ctx.oblige("fuzz", "libFuzzer (ASan+UBSan, all entry points, %d s x 16 jobs, %d executions): no crash, hang or leak" % (secs, execs), not found, ", ".join(found[:3]))
    for f in found[:3]:
        raw = open(os.path.join(art, f), "rb").read()
        rt, b = (raw[0] & 1, raw[1:]) if raw else (0, b"")
        ctx.violation("fuzz:" + f, "libFuzzer found a crashing / hanging input (%d bytes, radiotap mode %d)" % (len(b), rt), {"kind": "lines", "lines": all_ops(b, rt) + ["it " + hx(b), "crc " + hx(b)], "artifact": f})
    shutil.rmtree(corp, ignore_errors=True)


def replay(rp):
    import diffrun
    if rp.get("kind") == "valgrind-line":
        exe, err = diffrun.build_harness("o0")
        p = subprocess.run(["valgrind", "-q", "--error-exitcode=97", exe], input=rp["line"] + "\n", capture_output=True, text=True, errors="replace")
        return p.returncode == 0, "%s -> valgrind rc=%d %s" % (rp["line"][:200], p.returncode, p.stderr[-300:])
    if rp.get("kind") == "lines":
        exe, err = diffrun.build_harness("asan")
        co, cr = diffrun.run_harness_all(exe, rp["lines"])
        return not cr, "%d lines, %d crashes: %s" % (len(rp["lines"]), len(cr), [c for c in co if c and c.startswith("CRASH")][:2])
    if rp.get("suite") in ("S-safe/rssi-short", "S-safe/sweep3"):
        exe, err = diffrun.build_harness("asan")
        co, cr = diffrun.run_harness_all(exe, [rp["line"]])
        good = not cr and (rp.get("suite") != "S-safe/sweep3" or co[0] == rp["expected"])
        return good, "%s -> %r" % (rp["line"], co[0])
    return fw.replay_line(rp)
