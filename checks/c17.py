"""C17 — security descriptions are complete, correctly named and fit their buffer."""
import random

from common import *  # noqa
import framework as fw
import diffrun

MODULE = "LWV.Props.C17"
ROUT = ["security_type", "group_ciphers", "pairwise_ciphers", "auth_key_suites"]


def split_model(m):
    a, _, b = m.partition(" ;; spec=")
    return a, b


def check(ctx):
    ctx.rule = ("each routine on every subset of the flags it inspects, as blocks of an FNV digest compared between the compiled routine "
                "(256-byte exact heap block under ASan) and the model: 2^4, 2^13, 2^14 exhaustive, 2^21 AKM subsets exhaustive in thorough / "
                "seeded sample of blocks in quick; every subset block is run twice, with all unrelated bits clear and all set; plus single "
                "`desc` lines (incl. every single bit 0..63, 0, all-ones) compared with model text AND the declarative Spec text; "
                "distinct = (routine, summary value)")
    meta, data = fw.run_gen(ctx)
    if meta is None:
        return
    ok, broken, failed = fw.lean_prove(ctx, MODULE)
    ctx.oblige("gen-validation", "description tables: single-bit outputs consistent with the all-ones output", not [n for n in meta["notes"] if "all-ones" in n or "single-bit" in n], "; ".join(meta["notes"]))
    exe, err = diffrun.build_harness("asan")
    if exe is None:
        ctx.oblige("harness", "harness builds", False, err[-500:])
        ctx.violation("harness:build", "the working tree does not compile into the harness", {"broken": "harness build", "error": err[-2000:]}, found_input=False)
        return
    if not os.path.exists(fw.driver_path()):
        ctx.violation("driver:missing", "Lean driver did not build", {"broken": "lwdriver"}, found_input=False)
        return
    rnd = random.Random(ctx.seed)
    pr = data["probe"]["desc"]
    # ---- single lines
    singles = []
    for r in range(4):
        vals = [0, 2 ** 64 - 1, 1] + [1 << b for b in range(64)] + [rnd.getrandbits(64) for _ in range(300)]
        vals += [rnd.getrandbits(64) & rnd.getrandbits(64) for _ in range(200)]
        singles += ["desc %d 0x%x" % (r, v) for v in vals]
    c_outs, m_outs, dis, crashes = diffrun.differential(exe, singles, canon_m=lambda m: split_model(m)[0])
    ctx.count(len(singles), [("desc",) + tuple(l.split()[1:]) for l in singles])
    ctx.oblige("correspondence", "S-sec desc: C = model on %d single summaries" % len(singles), not dis and not crashes, "%d disagreements, %d crashes" % (len(dis), len(crashes)))
    bad = 0
    buflen = data["probe"]["macros"]["LIBWIFI_SECURITY_BUF_LEN"]
    buflen = int(buflen[1])
    for l, c, m in zip(singles, c_outs, m_outs):
        spec = split_model(m)[1]
        ctext = c.split(" text=", 1)[1] if c and " text=" in c else None
        if ctext is None or ctext != spec or len(ctext) >= buflen:
            bad += 1
            ctx.violation("desc:%s" % " ".join(l.split()[1:]), "description routine %s on summary %s gives %r, the set flags' names are %r" % (ROUT[int(l.split()[1])], l.split()[2], c, spec),
                          {"kind": "desc", "line": l, "observed": c, "expected": spec})
    ctx.oblige("spec-on-impl", "text = comma-joined names of the set flags, NUL-terminated inside the buffer, on all single summaries", bad == 0)
    ctx.sample({"op": singles[5], "c": c_outs[5], "model": m_outs[5]})
    # ---- exhaustive subset blocks
    blocks = []
    for r in range(4):
        bits = [b for b, _ in pr[ROUT[r]]["table"]]
        if not bits:
            continue
        others = (2 ** 64 - 1) & ~sum(1 << b for b in bits)
        total = 1 << len(bits)
        bs = min(total, 1 << 12)
        idx = list(range(0, total, bs))
        if ctx.tier == "quick" and len(idx) > 40:
            full = False
            idx = rnd.sample(idx, 24) + [0, total - bs]
        else:
            full = True
        for extra in (0, others):
            for lo in sorted(set(idx)):
                blocks.append("descrange %d 0x%x %d %d %s" % (r, extra, lo, min(total, lo + bs), " ".join(map(str, bits))))
        ctx.coverage.setdefault("subset_spaces", {})[ROUT[r]] = {"bits": len(bits), "exhaustive": full}
    c_outs, m_outs, dis2, crashes2 = diffrun.differential(exe, blocks)
    nvals = sum(int(b.split()[4]) - int(b.split()[3]) for b in blocks)
    ctx.count(nvals, [("descblock",) + tuple(b.split()[1:5]) for b in blocks])
    ctx.oblige("correspondence", "S-sec descrange: C digest = model digest on %d blocks (%d summaries)" % (len(blocks), nvals), not dis2 and not crashes2,
               "%d disagreements, %d crashes" % (len(dis2), len(crashes2)))
    ctx.sample({"op": blocks[0][:120], "c": c_outs[0], "model": m_outs[0]})
    # bisect disagreeing / crashing blocks to one summary and evaluate the Spec predicate there
    for i, l, c, m in (dis2 + [(i, blocks[i], "CRASH", "") for i, _ in crashes2])[:6]:
        t = l.split()
        r, extra, lo, hi, bits = int(t[1]), int(t[2], 16), int(t[3]), int(t[4]), list(map(int, t[5:]))
        found = None
        vals = []
        for k in range(lo, hi):
            v = extra
            for j, b in enumerate(bits):
                if k >> j & 1:
                    v |= 1 << b
            vals.append(v)
        ls = ["desc %d 0x%x" % (r, v) for v in vals]
        co, mo, d3, cr3 = diffrun.differential(exe, ls, canon_m=lambda m: split_model(m)[0])
        for l3, c3, m3 in zip(ls, co, mo):
            spec = split_model(m3)[1]
            ctext = c3.split(" text=", 1)[1] if c3 and " text=" in c3 else None
            if ctext != spec:
                found = (l3, c3, spec)
                break
        if found:
            ctx.violation("desc:%s" % " ".join(found[0].split()[1:]), "description routine %s on summary %s gives %r, the set flags' names are %r" % (ROUT[r], found[0].split()[2], found[1], found[2]),
                          {"kind": "desc", "line": found[0], "observed": found[1], "expected": found[2]})
    if broken and not ctx.violations and not ctx.known_hits:
        for name, detail in broken[:3]:
            ctx.violation("theorem:" + name, "proof obligation no longer checks: %s — %s" % (name, detail[:300]), {"broken": name, "detail": detail}, found_input=False)
    if (dis or dis2 or crashes or crashes2) and not ctx.violations and not ctx.known_hits:
        ctx.violation("correspondence:desc", "model and implementation disagree on a description but no summary violating the property was isolated",
                      {"broken": "S-sec desc correspondence", "examples": [(l, c, m) for _, l, c, m in (dis + dis2)[:5]]}, found_input=False)


def replay(rp):
    if rp.get("kind") != "desc":
        return False, "replay names a broken obligation, not an input: %s" % rp.get("broken")
    exe, err = diffrun.build_harness("asan")
    co, mo, d, cr = diffrun.differential(exe, [rp["line"]], canon_m=lambda m: split_model(m)[0])
    spec = split_model(mo[0])[1]
    ctext = co[0].split(" text=", 1)[1] if co[0] and " text=" in co[0] else None
    return ctext == spec, "%s -> %r (set flags' names: %r)" % (rp["line"], co[0], spec)
