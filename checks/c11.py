"""C11 — CRC-32 and frame-check-sequence verification are exact."""
import itertools
import random
import zlib

from common import *  # noqa
import framework as fw

MODULE = "LWV.Props.C11"


def hexs(b):
    return bytes(b).hex() if b else "-"


def forge(prefix, target):
    """four octets X with crc32(prefix + X) == target (CRC-32 is affine in X: solve the 32x32 system over GF(2))"""
    base = zlib.crc32(prefix + bytes(4)) & 0xffffffff
    cols = [(zlib.crc32(prefix + (1 << i).to_bytes(4, "little")) & 0xffffffff) ^ base for i in range(32)]
    want = target ^ base
    rows = [[(cols[j] >> i) & 1 for j in range(32)] + [(want >> i) & 1] for i in range(32)]
    r = 0
    piv = []
    for c in range(32):
        p = next((k for k in range(r, 32) if rows[k][c]), None)
        if p is None:
            continue
        rows[r], rows[p] = rows[p], rows[r]
        for k in range(32):
            if k != r and rows[k][c]:
                rows[k] = [a ^ b for a, b in zip(rows[k], rows[r])]
        piv.append(c)
        r += 1
    x = 0
    for k, c in enumerate(piv):
        if rows[k][32]:
            x |= 1 << c
    out = prefix + x.to_bytes(4, "little")
    assert zlib.crc32(out) & 0xffffffff == target
    return out


SENTINELS = [0x00000000, 0xffffffff, 0x00000001, 0x80000000, 0x7fffffff, 0xfffffffe, 0x0000ffff, 0xffff0000, 0x000000ff, 0xff000000, 0xdeadbeef, 0x12345678]


def check(ctx):
    ctx.rule = ("all byte strings of length 0..2 (exhaustive, 65 793 strings), the single-bit basis of lengths up to %s, seeded random strings up to 65 535 bytes; "
                "frames forged so that their true FCS is 00000000, FFFFFFFF and ten other sentinel-like values (valid, and the same trailer on a corrupted body); a size ladder (frames of 252..261, 65531..65544, 70000, 131071..131076 octets: valid, one bit flipped, and valid only if the covered length wrapped at 8 or 16 bits); valid frames (payload + computed FCS), every single-bit flip of them and burst errors up to 32 bits, every length 0..8; each buffer exact-size under ASan; "
                "the harness also prints an independent table-driven CRC; Python cross-checks zlib.crc32; distinct = (op, output)" % ("2304" if ctx.tier == "thorough" else "160 and selected lengths to 2304"))
    r = fw.prepare(ctx, MODULE)
    if r is None:
        return
    ok, broken, data, exe = r
    rnd = random.Random(ctx.seed)
    lines = ["crc -"] + ["crc %02x" % a for a in range(256)] + ["crc %02x%02x" % (a, b) for a in range(256) for b in range(256)]
    ctx.coverage["exhaustive"] = True
    fw.run_suite(ctx, exe, "S-crc/len0-2", lines, "CRC-32 / FCS")
    # single-bit basis
    lens = list(range(1, 161)) + [255, 256, 257, 1000, 1500, 2303, 2304] if ctx.tier == "quick" else list(range(1, 2305))
    basis = []
    for L in lens:
        bits = range(8 * L) if (L <= 40 or ctx.tier == "thorough" and L <= 300) else sorted(set([0, 1, 7, 8, 8 * L - 1, 8 * L - 8, 8 * L - 33, 8 * L - 32] + [rnd.randrange(8 * L) for _ in range(6)]))
        for bit in bits:
            if bit < 0:
                continue
            b = bytearray(L)
            b[bit // 8] = 1 << (bit % 8)
            basis.append("crc " + hexs(b))
    fw.run_suite(ctx, exe, "S-crc/single-bit", basis, "CRC-32 / FCS")
    # random strings
    rl = []
    for _ in range(300 if ctx.tier == "quick" else 3000):
        L = rnd.choice([3, 4, 5, 8, 16, 31, 32, 33, 100, 1500, 2304, 4096, 65535, rnd.randrange(0, 3000)])
        rl.append("crc " + hexs(bytes(rnd.getrandbits(8) for _ in range(L))))
    c_outs, _, _ = fw.run_suite(ctx, exe, "S-crc/random", rl, "CRC-32 / FCS")
    zbad = 0
    for l, c in zip(rl, c_outs):
        data_ = bytes.fromhex(l.split()[1]) if l.split()[1] != "-" else b""
        z = "%08x" % (zlib.crc32(data_) & 0xffffffff)
        if c and (("crc=" + z) not in c or ("ref=" + z) not in c):
            zbad += 1
            ctx.violation("S-crc/zlib:" + l[:80], "libwifi_crc32 differs from zlib/table-driven CRC-32 on a %d-byte string: %s (zlib %s)" % (len(data_), c, z),
                          {"kind": "line", "suite": "S-crc/random", "line": l, "observed": c, "expected": "crc=" + z})
    ctx.oblige("spec-on-impl", "libwifi_crc32 = zlib.crc32 = table-driven reference on %d random strings" % len(rl), zbad == 0)
    # frames: valid, corrupted
    fl = []
    for _ in range(60 if ctx.tier == "quick" else 600):
        L = rnd.choice([0, 1, 2, 3, 4, 10, 24, 36, 100, 300])
        p = bytes(rnd.getrandbits(8) for _ in range(L))
        fcs = (zlib.crc32(p) & 0xffffffff).to_bytes(4, "little")
        fr = bytearray(p + fcs)
        fl.append("crc " + hexs(fr))
        flips = range(8 * len(fr)) if len(fr) <= 40 else [rnd.randrange(8 * len(fr)) for _ in range(40)]
        for bit in flips:
            g = bytearray(fr)
            g[bit // 8] ^= 1 << (bit % 8)
            fl.append("crc " + hexs(g))
        # structured near-miss trailers: the right FCS in the wrong form must be refused
        f = int.from_bytes(fcs, "little")
        alts = [fcs[::-1], fcs[2:] + fcs[:2], bytes(b ^ 0xff for b in fcs), ((f + 1) & 0xffffffff).to_bytes(4, "little"), ((f - 1) & 0xffffffff).to_bytes(4, "little"),
                bytes([fcs[1], fcs[0], fcs[3], fcs[2]]), (f ^ 0xffffffff).to_bytes(4, "big"), (zlib.crc32(p[:-1]) & 0xffffffff).to_bytes(4, "little") if p else b"\0\0\0\0",
                (zlib.crc32(p + fcs) & 0xffffffff).to_bytes(4, "little"), bytes(4), b"\xff\xff\xff\xff", fcs[1:] + fcs[:1]]
        for a in alts:
            fl.append("crc " + hexs(p + a))
        for _ in range(10):  # bursts up to 32 bits
            start = rnd.randrange(8 * len(fr))
            g = bytearray(fr)
            pat = rnd.getrandbits(32) | 1
            for k in range(32):
                if pat >> k & 1 and start + k < 8 * len(fr):
                    g[(start + k) // 8] ^= 1 << ((start + k) % 8)
            fl.append("crc " + hexs(g))
    for L in range(0, 9):
        for _ in range(20):
            fl.append("crc " + hexs(bytes(rnd.getrandbits(8) for _ in range(L))))
    fw.run_suite(ctx, exe, "S-crc/frames", fl, "FCS verification")
    # frames whose true FCS is a value a program might treat as "no FCS" or "error": every sentinel is also a legitimate
    # checksum (the body is forged so that its CRC-32 is the sentinel); the same trailer on a body it does not belong to
    sl = ["crc ffffffffffffffff", "crc ffffffff"]
    for t in SENTINELS:
        for L in (0, 1, 10, 24, 100):
            body = forge(bytes(rnd.getrandbits(8) for _ in range(L)), t)
            fcs = t.to_bytes(4, "little")
            sl.append("crc " + hexs(body + fcs))
            sl.append("crc " + hexs(body))
            other = bytearray(body)
            other[rnd.randrange(len(other))] ^= 1 << rnd.randrange(8)
            sl.append("crc " + hexs(bytes(other) + fcs))
    fw.run_suite(ctx, exe, "S-crc/sentinel-fcs", sl, "FCS verification of frames whose checksum is a sentinel-like value")
    # the size ladder: frames at and around every width a length could be narrowed to (8, 16 and 17 bits), valid, with one
    # bit flipped, and "valid only when the covered length wraps": the first ((L-4) mod 2^k) octets followed by THEIR FCS
    ladder = []
    for L in [252, 255, 256, 257, 259, 260, 261, 65531, 65535, 65536, 65537, 65539, 65540, 65541, 65544, 70000, 131071, 131072, 131076] + ([262144, 262148, 1 << 20] if ctx.tier == "thorough" else []):
        p = bytes(rnd.getrandbits(8) for _ in range(L - 4))
        good = p + (zlib.crc32(p) & 0xffffffff).to_bytes(4, "little")
        ladder.append("crc " + hexs(good))
        for pos in (0, (L - 4) // 2, L - 5, L - 1):
            g = bytearray(good)
            g[pos] ^= 1 << rnd.randrange(8)
            ladder.append("crc " + hexs(g))
        for bits in (8, 16):
            k = (L - 4) % (1 << bits)
            if k != L - 4 and k + 4 <= L - 4:
                g = bytearray(bytes(rnd.getrandbits(8) for _ in range(L)))
                g[k:k + 4] = (zlib.crc32(bytes(g[:k])) & 0xffffffff).to_bytes(4, "little")
                ladder.append("crc " + hexs(g))
    fw.run_suite(ctx, exe, "S-crc/size-ladder", ladder, "FCS verification of long frames")
    ci = fw.corpus_inputs(ctx, random.Random(ctx.seed + 77), per_entry=1)
    fw.run_suite(ctx, exe, "S-crc/corpus", sorted({"crc " + (b.hex() or "-") for rt, b in ci}), "CRC-32 / FCS (corpus)")
    fw.conclude(ctx, broken)


def replay(rp):
    return fw.replay_line(rp)
