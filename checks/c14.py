"""C14 — every object lifecycle releases exactly what it allocated."""
import random
import re

from common import *  # noqa
import framework as fw
import frames
from checks import c03, c04, c05, c08, c12

MODULE = ["LWV.Props.C14", "LWV.Props.C14Full", "LWV.Props.C14Parse"]


def scenarios(rnd, tier):
    """Inner op lines covering create/edit/dump/free of every generator and classify/parse/free of
    generated, crafted, truncated and mutated frames through all parsers."""
    n = 40 if tier == "quick" else 400
    out = []
    for k in c03.KINDS:
        for i in range(n // 4):
            out.append(c03.gen_line(rnd, k, full=True))
    for _ in range(n):
        out.append(c05.random_history(rnd))
    # inputs of the coverage-guided corpus through classification, all parsers and the EAPOL extraction
    pool = [e for e in fw.parse_corpus() if len(e[1]) <= 400]
    for rt, b in rnd.sample(pool, min(len(pool), 300 if tier == "quick" else 3000)):
        out.append("%s %d %s" % (rnd.choice(["mp", "mp", "eap", "cls"]), rt, b.hex() or "-"))
    # systematic short call sequences on every generator kind (create, up to two edits, dump, free)
    out += c03.api_lines(rnd, 20 if tier == "quick" else 400)
    # every history of up to two operations over the C05 alphabet, a sample of length three, and histories that
    # drain the list completely before the release (an emptied list must not be released twice or kept)
    import itertools
    alpha = c05.alphabet()
    for k in (1, 2):
        out += ["tg " + ",".join(h) for h in itertools.product(alpha, repeat=k)]
    out += ["tg " + ",".join(rnd.choice(alpha) for _ in range(3)) for _ in range(n * 20)]
    for _ in range(n):
        h = c05.random_history(rnd)
        nums = sorted({op.split(":")[1] for op in h[3:].split(",") if op[0] in "ak" and ":" in op} | {"0", "3"})
        out.append(h + "," + ",".join("r:%s" % x for x in nums for _ in range(rnd.choice([1, 3, 8]))))
    # element bodies and SSIDs at and beyond what the one-octet element length can say (created, replaced, removed)
    out += [l for l in c03.boundary_lines() if "41" * 253 in l and "a1=000000000000" in l]
    out += ["tg a:221:%s,a:0:%s,r:221,s:%s" % ("5a" * L, "41" * M, "42" * K) for L in (255, 256, 300) for M in (254, 255, 256) for K in (1, 255, 256)]
    crafted = c04.crafted(rnd, n // 8)
    out += crafted
    for l in crafted[: n]:
        # truncations and mutations of the same frames
        rt, hx = l.split()[1], l.split()[2]
        b = bytearray(bytes.fromhex(hx)) if hx != "-" else bytearray()
        if b:
            cut = rnd.randrange(0, len(b))
            out.append("mp %s %s" % (rt, bytes(b[:cut]).hex() or "-"))
            b[rnd.randrange(len(b))] ^= 1 << rnd.randrange(8)
            out.append("mp %s %s" % (rt, bytes(b).hex()))
            out.append("cls %s %s" % (rt, bytes(b).hex()))
    out += c08.multi_lines(rnd, n // 2)
    for _ in range(n // 2):
        d, a = rnd.randrange(0, 1200), rnd.randrange(0, 1101)
        fr = c12.data_frame(rnd, rnd.randrange(2), c12.eapol_body(rnd, rnd.choice([0x008a, 0x010a, 0x13ca, 0x030a]), d, a))
        out.append(frames.mp_line(fr, rnd.randrange(3), rnd).replace("mp ", "eap ", 1))
        out.append(frames.mp_line(fr, rnd.randrange(3), rnd).replace("mp ", "cls ", 1))
    # every BSS-side parser on RSN / WPA elements cut at every octet (the parse fails after the tag copy was allocated)
    body = frames.rsn_body(frames.suite(frames.IEEE, 4), [frames.suite(frames.IEEE, 4), frames.suite(frames.IEEE, 2)], [frames.suite(frames.IEEE, 2)], caps=b"\x0c\x00")
    wb = frames.wpa_body(frames.suite(frames.MS, 2), [frames.suite(frames.MS, 2)], [frames.suite(frames.MS, 2)])
    for kind in frames.BSS_KINDS:
        for cut in range(len(body) + 1):
            out.append(frames.mp_line(frames.mgmt(kind, rnd, frames.elem(0, b"n") + frames.elem(48, body[:cut]) + frames.elem(3, b"\x01")), 0, rnd))
        for cut in range(len(wb) + 1):
            out.append(frames.mp_line(frames.mgmt(kind, rnd, frames.elem(0, b"n") + frames.elem(221, wb[:cut])), 0, rnd))
    # captures that end inside or right after the radiotap header (with and without an announced FCS)
    import rtbuild
    for fl in (0x00, 0x10):
        for fields in ([1], [1, 2, 3, 5], []):
            h = rtbuild.build([{"fields": fields, "values": {1: bytes([fl])}}], rnd)
            for extra in range(0, 8):
                tail = bytes(rnd.getrandbits(8) for _ in range(extra))
                for op in ("cls", "mp", "eap"):
                    out.append("%s 1 %s" % (op, (h + tail).hex()))
            for cut in range(0, len(h)):
                out.append("cls 1 " + (h[:cut].hex() or "-"))
    # declared x available key-data grid (includes "declared > 0, nothing present" and the 1024 cap)
    for d in (0, 1, 2, 16, 95, 1023, 1024, 1025, 2048, 65535):
        for a in (0, 1, 2, 16, 94, 95, 96, 1023, 1024, 1025):
            for qos in (0, 1):
                fr = c12.data_frame(rnd, qos, c12.eapol_body(rnd, rnd.choice([0x008a, 0x010a, 0x13ca, 0x030a]), d, a))
                out.append(frames.mp_line(fr, rnd.randrange(3), rnd).replace("mp ", "eap ", 1))
    out += c12.field_lines(rnd)          # e.g. a zero key length next to key data: the release must not key on the wrong field
    return [l for l in out if len(l) < 6000]


LEDGER = re.compile(r" \|\| live=(\d+) bad=(\d+) reqs=(\d+) faults=(\d+) trace=(.*)$")


def ledger_of(c):
    m = LEDGER.search(c or "")
    return None if not m else (int(m.group(1)), int(m.group(2)), int(m.group(3)), int(m.group(4)))


def fault_lines(exe, base, rnd):
    """every allocation request of every scenario failed once, alone and together with all later ones: the number N of
    requests is measured in a fault-free run of the real library"""
    import diffrun
    probe = ["alloc none 0 -1 " + l for l in base]
    outs = []
    for ch in diffrun.parallel_map(lambda c: diffrun.run_harness_all(exe, c), diffrun.chunked(probe, 16)):
        outs += ch[0]
    lines = []
    total = 0
    fault_lines.nofault = dict(zip(base, outs))      # the implementation's own fault-free answer per scenario
    for l, o in zip(base, outs):
        lg = ledger_of(o)
        N = lg[2] if lg else 0
        total += N
        for k in range(N):
            lines.append("alloc %d 0 %d %s" % (k, rnd.choice([-1, 0xCD]), l))
            lines.append("alloc %d 1 -1 %s" % (k, l))
    return lines, total


def failing_scenarios(rnd, tier):
    """lifecycles whose construction or parse FAILS half-way because an allocation is refused"""
    n = 2 if tier == "quick" else 12
    out = []
    for k in c03.KINDS:
        for _ in range(n):
            l = c03.gen_line(rnd, k, full=True)
            if len(l) < 1200:
                out.append(l)
    al = c03.api_lines(rnd, 0)
    out += [l for l in rnd.sample(al, min(len(al), 40 if tier == "quick" else 400)) if len(l) < 1200]
    out += ["tg a:0:41,a:3:01,a:221:0050f201", "tg a:0:-,s:4142,c:6,r:0,a:5:00", "tg s:41,s:4243,c:1,c:2"]
    for kind in frames.PARSABLE:
        els = frames.elem(0, b"net") + frames.elem(3, b"\x06") + frames.elem(48, frames.rsn_body(frames.suite(frames.IEEE, 4), [frames.suite(frames.IEEE, 4)], [frames.suite(frames.IEEE, 2)]))
        out.append(frames.mp_line(frames.mgmt(kind, rnd, els), rnd.randrange(3), rnd))
    for mode in range(3):
        fr = c12.data_frame(rnd, mode % 2, c12.eapol_body(rnd, 0x010a, 22, 22))
        out.append(frames.mp_line(fr, mode, rnd).replace("mp ", "eap ", 1))
        out.append(frames.mp_line(fr, mode, rnd).replace("mp ", "cls ", 1))
    return out


def check(ctx):
    ctx.rule = ("create/edit/dump/free histories of every generator object (16 kinds, random edit histories), tag edit histories, and classify / all-nine-parsers / data / EAPOL extraction followed by the documented releases "
                "on generated, crafted, truncated and bit-flipped frames (success and failure paths), and a sample of all of these with every single allocation request refused in turn (construction fails half-way, then the documented release); every library malloc/realloc/free is recorded by a link-time wrapper: after each history no library block may remain (live=0), "
                "no invalid or double free (bad=0; ASan for use-after-free), and the event trace must equal the model's predicted trace; distinct = (op, allocation trace)")
    r = fw.prepare(ctx, MODULE)
    if r is None:
        return
    ok, broken, data, exe = r
    rnd = random.Random(ctx.seed)
    lines = ["alloc none 0 %d %s" % (rnd.choice([-1, 0xCD]), l) for l in scenarios(rnd, ctx.tier)]
    c_outs, m_outs, nd = fw.run_suite(ctx, exe, "S-alloc/lifecycle", lines, "object lifecycle")
    leaks = 0
    traces = set()
    for l, c in zip(lines, c_outs):
        lg = ledger_of(c)
        if lg is None:
            continue
        traces.add(c.split(" trace=")[1][:200])
        if lg[0] != 0 or lg[1] != 0:
            leaks += 1
            ctx.violation("S-alloc/leak:" + l[:300], "after releasing every object %d library block(s) remain allocated and %d invalid free(s) happened: `%s` -> %s" % (lg[0], lg[1], l[:200], c[-200:]),
                          {"kind": "line", "suite": "S-alloc/lifecycle", "line": l, "observed": c, "expected": "live=0 bad=0"})
    # the same for lifecycles whose construction or parse fails because the allocator refuses a request
    flines, points = fault_lines(exe, failing_scenarios(rnd, ctx.tier), rnd)
    fc, _, _ = fw.run_suite(ctx, exe, "S-alloc/failed-construction", flines, "object lifecycle with a refused allocation")
    ctx.coverage["refused_allocation_points"] = points
    for l, c in zip(flines, fc):
        lg = ledger_of(c)
        if lg is None:
            continue
        traces.add(c.split(" trace=")[1][:200])
        if lg[0] != 0 or lg[1] != 0:
            leaks += 1
            ctx.violation("S-alloc/leak:" + l[:300], "construction failed on a refused allocation; after releasing every object %d library block(s) remain allocated and %d invalid free(s) happened: `%s` -> %s" % (lg[0], lg[1], l[:200], c[-200:]),
                          {"kind": "line", "suite": "S-alloc/failed-construction", "line": l, "observed": c, "expected": "live=0 bad=0"})
    ctx.distinct.update(("trace", t) for t in traces)
    ctx.coverage["distinct_allocation_traces"] = len(traces)
    ctx.oblige("spec-on-impl", "live=0 and bad=0 after every one of %d histories (%d of them with a refused allocation)" % (len(lines) + len(flines), len(flines)), leaks == 0)
    # "nothing is used after release" when the data argument lies inside the list being edited (the element bodies handed
    # back by the iterator are such pointers): copies of existing elements appended from the list's own buffer between
    # ordinary edits (op tgd), under the allocation recorder; decided on the implementation alone (ASan + ledger)
    import diffrun
    al = []
    for _ in range(150 if ctx.tier == "quick" else 2000):
        ops = ["a:%d:%s" % (rnd.choice([0, 3, 48, 221]), frames.tag_body(rnd, rnd.choice([1, 2, 16, 100, 255])).hex())]
        for _ in range(rnd.choice([1, 2, 4, 8])):
            n = rnd.choice([0, 3, 48, 221])
            ops.append(rnd.choice(["d:%d" % n, "d:%d" % n, "a:%d:%s" % (n, frames.tag_body(rnd, rnd.choice([1, 16, 255])).hex()), "r:%d" % n]))
        al.append("alloc none 0 %d tgd %s" % (rnd.choice([-1, 0xCD]), ",".join(ops)))
    ao, acr = diffrun.run_harness_all(exe, al)
    abad = 0
    for l, c in zip(al, ao):
        lg = ledger_of(c or "")
        if lg is None or lg[0] != 0 or lg[1] != 0:
            abad += 1
            ctx.violation("S-alloc/aliased:" + l[:300], "edit history whose added data lies inside the list's own buffer: `%s` -> %s" % (l[:200], (c or "")[-200:]),
                          {"kind": "line", "suite": "S-alloc/aliased-data", "line": l, "observed": c, "expected": "live=0 bad=0, no sanitizer report"})
    ctx.oblige("spec-on-impl", "S-alloc/aliased-data: no use after release, live=0 and bad=0 on %d histories whose added data points into the list itself" % len(al), abad == 0, "%d failing" % abad)
    # release routines on zero-initialised objects
    z = ["zerofree"]
    fw.run_suite(ctx, exe, "S-alloc/zero-init", z, "release of zero-initialised objects")
    fw.conclude(ctx, broken)


def replay(rp):
    import diffrun
    if rp.get("kind") != "line":
        return False, "replay names a broken obligation, not an input: %s" % rp.get("broken")
    exe, err = diffrun.build_harness("asan")
    co, cr = diffrun.run_harness_all(exe, [rp["line"]])
    lg = ledger_of(co[0])
    if rp["line"].startswith("zerofree"):
        return co[0] == "ok", co[0]
    return lg is not None and lg[0] == 0 and lg[1] == 0, "%s -> %s" % (rp["line"][:200], (co[0] or "")[-200:])
