"""C05 — tagged-parameter lists stay well-formed under any edit history."""
import itertools
import random

from common import *  # noqa
import framework as fw
import frames

MODULE = "LWV.Props.C05"

NUMS = [0, 3, 5, 221]


def alphabet():
    ops = []
    for n in NUMS:
        for l in (0, 1, 2):
            ops.append("a:%d:%s" % (n, ("%02x" % (0x40 + n % 16)) * l if l else "-"))
        ops.append("r:%d" % n)
    ops += ["a:221:0041", "s:-", "s:41", "s:4142", "c:1", "c:0", "k:0", "k:3"]
    return ops


def canon_state(out):
    """state after a history = last `ret/len/hex` (ret excluded)"""
    if not out or "/" not in out:
        return out
    last = out.split(" | ")[-1]
    return last.split("/", 1)[1]


def random_history(rnd):
    ops = []
    for _ in range(rnd.choice([5, 20, 60, 150])):
        r = rnd.random()
        n = rnd.choice(NUMS + [1, 48, 255, rnd.randrange(256)])
        if r < 0.45:
            l = rnd.choice([0, 1, 2, 3, 31, 32, 33, 100, 253, 254, 255, rnd.randrange(256), rnd.choice([256, 257, 300, 600])])
            ops.append("a:%d:%s" % (n, frames.tag_body(rnd, l).hex() or "-"))
        elif r < 0.7:
            ops.append("r:%d" % n)
        elif r < 0.8:
            l = rnd.choice([0, 1, 5, 32])
            ops.append("s:%s" % (bytes(rnd.randrange(0 if rnd.random() < 0.2 else 1, 256) for _ in range(l)).hex() or "-"))
        elif r < 0.88:
            ops.append("c:%d" % rnd.randrange(256))
        else:
            ops.append("k:%d" % n)
    return "tg " + ",".join(ops)


def long_history(rnd, total=70000):
    """a list grown beyond 64 KiB (maximal elements of assorted numbers behind SSID and DS), then edited at its front,
    in its middle and at its end: removal must move the whole tail whatever its size (op `tgl`: per-op ret/len, bytes at the end)"""
    ops = ["s:%s" % bytes(rnd.randrange(1, 256) for _ in range(rnd.choice([3, 32]))).hex(), "c:%d" % rnd.randrange(1, 200)]
    size = 0
    nums = []
    while size < total:
        n = rnd.choice([221, 48, 45, 61, 127, 7, rnd.randrange(4, 256)])
        l = rnd.choice([255, 255, 255, 254, 200, rnd.randrange(1, 256)])
        ops.append("a:%d:%s" % (n, frames.tag_body(rnd, l).hex()))
        nums.append(n)
        size += l + 2
    tail = ["r:%d" % nums[-1], "r:3", "k:%d" % nums[len(nums) // 2], "r:%d" % nums[0], "s:%s" % bytes(rnd.randrange(1, 256) for _ in range(5)).hex(),
            "c:%d" % rnd.randrange(256), "r:%d" % nums[len(nums) // 2], "k:%d" % nums[-2], "r:0", "r:%d" % nums[1]]
    rnd.shuffle(tail)
    return "tgl " + ",".join(ops + tail + ["a:0:-"])


def relcheck(line, c):
    if c is None or c.startswith("CRASH") or c in ("nop", "bad-op"):
        return None
    return "tgchk %s @ %s" % (line.split(" ", 1)[1], c)


def check(ctx):
    depth = 7 if ctx.tier == "thorough" else 5
    ctx.rule = ("operation sequences over the alphabet {add n with body length 0/1/2, remove n : n in 0,3,5,221} + set-SSID x3, set-channel x2, count x2 "
                "explored breadth-first with state deduplication to depth %d (every op applied to every distinct reachable state, each history replayed from the empty list on the real library), "
                "plus seeded long random histories (up to 150 ops, body lengths 0..255 and 256..600, all tag numbers) and lists grown beyond 64 KiB / 128 KiB and then edited at front, middle and end; after every op the stored bytes, recorded length and return value are "
                "compared with the model and checked against the Spec relation (well-formedness, add appends, remove/set/count agree with the reference list); distinct = (op, resulting state)" % depth)
    r = fw.prepare(ctx, MODULE)
    if r is None:
        return
    ok, broken, data, exe = r
    import diffrun
    alpha = alphabet()
    # breadth-first over distinct states, states taken from the *model* (driver), histories replayed on C
    frontier = {"": []}     # state -> history (list of ops)
    seen = {"0/-"}
    all_lines = []
    level = [[]]
    for d in range(1, depth + 1):
        cand = [h + [op] for h in level for op in alpha]
        lines = ["tg " + ",".join(h) for h in cand]
        outs = []
        for ch in diffrun.parallel_map(diffrun.run_driver, diffrun.chunked(lines, 16)):
            outs += ch
        nxt = []
        for h, o in zip(cand, outs):
            st = canon_state(o)
            all_lines.append("tg " + ",".join(h))
            if st not in seen:
                seen.add(st)
                nxt.append(h)
        level = nxt
        if len(all_lines) > (400000 if ctx.tier == "thorough" else 60000):
            ctx.notes.append("state exploration stopped at depth %d (%d histories)" % (d, len(all_lines)))
            depth = d
            break
    ctx.coverage["states"] = len(seen)
    ctx.coverage["depth"] = depth
    ctx.coverage["exhaustive"] = True
    fw.run_suite(ctx, exe, "S-tg/bfs", all_lines, "tag edit history", relcheck=relcheck)
    rnd = random.Random(ctx.seed)
    rl = [random_history(rnd) for _ in range(400 if ctx.tier == "quick" else 6000)]
    fw.run_suite(ctx, exe, "S-tg/random", rl, "tag edit history", relcheck=relcheck)
    # the per-kind setters (each kind has its own copy of the set-SSID / set-channel code): every sequence of up to three
    from checks import c03
    fw.run_suite(ctx, exe, "S-tg/setters-per-kind", c03.setter_lines(), "setter / remove sequence on a generated frame")
    fw.run_suite(ctx, exe, "S-tg/look-alike-contents", c03.lookalike_lines(), "setters on lists whose bodies look like the element searched for")
    # the data argument aliasing the list itself: copies of existing elements appended with the body pointer taken from the
    # list's own buffer (op tgd, pseudo-operation d:<num>), between ordinary edits, on small and growing lists
    dl = []
    for _ in range(300 if ctx.tier == "quick" else 3000):
        ops = []
        for _ in range(rnd.choice([2, 4, 8, 16])):
            r = rnd.random()
            n = rnd.choice(NUMS + [48, 221])
            if r < 0.4:
                ops.append("a:%d:%s" % (n, frames.tag_body(rnd, rnd.choice([1, 2, 16, 100, 255])).hex()))
            elif r < 0.75:
                ops.append("d:%d" % n)
            elif r < 0.85:
                ops.append("r:%d" % n)
            else:
                ops.append(rnd.choice(["s:4142", "c:7", "k:%d" % n]))
        dl.append("tgd " + ",".join(ops))
    fw.run_suite(ctx, exe, "S-tg/aliased-data", dl, "tag edit history whose added data lies inside the list's own buffer")
    fw.run_suite(ctx, exe, "S-tg/beyond-64KiB", [long_history(rnd, t) for t in ((66000, 70000, 131500) if ctx.tier == "quick" else (66000, 66000, 70000, 70000, 131500, 140000, 263000))],
                 "tag edit history on a list longer than 64 KiB")
    # the same relation when an allocation is refused in the middle of a history: a call that reports failure leaves the
    # stored bytes and the recorded length exactly as they were (every request index of short histories, once each)
    fl = []
    for h in [random_history(rnd).split(",")[:rnd.choice([3, 6, 10])] for _ in range(40 if ctx.tier == "quick" else 400)]:
        hist = ",".join(h)
        for k in range(0, 2 * len(h) + 2):
            fl.append("alloc %d %d -1 %s" % (k, rnd.randrange(2), hist))

    def relf(line, c):
        if c is None or c.startswith("CRASH"):
            return None
        return "tgchkf %s @ %s" % (line.split(" ", 4)[4].split(" ", 1)[1], c.split(" || ")[0])
    fw.run_suite(ctx, exe, "S-tg/refused-allocation", fl, "tag edit history under allocation failure", relcheck=relf)
    fw.conclude(ctx, broken)


def replay(rp):
    import diffrun
    if rp.get("kind") != "line":
        return False, "replay names a broken obligation, not an input: %s" % rp.get("broken")
    if rp["line"].startswith(("tgl ", "tgd ", "gen ")):
        return fw.replay_line(rp)
    exe, err = diffrun.build_harness("asan")
    co, cr = diffrun.run_harness_all(exe, [rp["line"]])
    if co[0] is None or co[0].startswith("CRASH"):
        return False, "%s -> %s" % (rp["line"][:200], co[0])
    v = diffrun.run_driver([relcheck(rp["line"], co[0])])[0]
    return v == "holds", "%s -> %s : %s" % (rp["line"][:200], co[0][:200], v)
