"""C02 — frame classification slices radiotap, header, body and FCS exactly."""
import random
import zlib

from common import *  # noqa
import framework as fw
import rtbuild

MODULE = ["LWV.Props.C02", "LWV.Props.C02Full"]
QOS = {8, 9, 10, 11, 12, 14, 15}


def hdr_len(fc0, fc1):
    ty, st = (fc0 >> 2) & 3, fc0 >> 4
    if ty == 0:
        return 28 if fc1 & 0x80 else 24
    if ty == 1:
        return 4
    if ty == 2:
        return 26 if st in QOS else 24
    return 24


def payload(rnd, n):
    return bytes(rnd.getrandbits(8) for _ in range(n))


def prefixes(rnd):
    """(name, bytes, announces_fcs)"""
    out = [("rt8", rtbuild.build([{"fields": []}], rnd), False)]
    for fl in (0x00, 0x10, 0x12, 0xff, 0xef):
        out.append(("rt-flags-%02x" % fl, rtbuild.build([{"fields": [1, 2], "values": {1: bytes([fl])}}], rnd), bool(fl & 0x10)))
    out.append(("rt-multi", rtbuild.build([{"fields": [1, 3, 5], "values": {1: b"\x10"}, "reset": True}, {"fields": [5, 11]}], rnd), True))
    out.append(("rt-vendor", rtbuild.build([{"fields": [2], "vendor": payload(rnd, 5)}, {"fields": [0, 1]}], rnd), False))
    out.append(("rt-ver1", rtbuild.build([{"fields": []}], rnd, version=1), False))
    out.append(("rt-len7", rtbuild.build([{"fields": []}], rnd, it_len=7), False))
    out.append(("rt-len-big", rtbuild.build([{"fields": []}], rnd, it_len=200), False))
    out.append(("rt-len256", rtbuild.build([{"fields": []}], rnd, it_len=256, trailer=bytes(248)), False))
    return out


def ext_chains(rnd):
    """present-word chains that run up to, onto and over the announced header length, with capture bytes following the
    header (a chain must be bounded by it_len, not by the capture)"""
    out = []
    for k in (1, 2, 3, 4):
        for last_ext in (True, False):
            words = []
            for i in range(k):
                w = 0x80000000 if (i < k - 1 or last_ext) else 0
                if rnd.random() < 0.3:
                    w |= 1 << 29
                words.append(w)
            chain = b"".join(w.to_bytes(4, "little") for w in words)
            for it_len in range(8, 8 + 4 * k + 5):
                for extra in (0, 1, 3, 4, 8, 30):
                    tail = bytes(rnd.getrandbits(7) for _ in range(extra))
                    out.append(bytes([0, 0]) + it_len.to_bytes(2, "little") + chain + tail)
    return out


def check(ctx):
    thorough = ctx.tier == "thorough"
    ctx.rule = ("all 65 536 frame-control values x frame lengths %s without radiotap (exhaustive), and x lengths {h-1, h, h+1} behind each radiotap prefix class "
                "(8-byte header; FLAGS with the FCS bit on/off; two-word header with namespace reset; vendor namespace; version 1; it_len 7; it_len beyond the buffer; it_len 256) for %s frame-control values, "
                "random payloads, computed FCS appended when announced; exact-size buffers under ASan; frame object pre-filled 0xA5; classification + data extraction compared with model and declarative Spec; distinct = (op, output shape)"
                % ("0..64" if thorough else "{0,1,2,3,h-1,h,h+1,64}", "all" if thorough else "4096 sampled"))
    r = fw.prepare(ctx, MODULE)
    if r is None:
        return
    ok, broken, data, exe = r
    rnd = random.Random(ctx.seed)
    pool = payload(rnd, 4096)
    for block in range(16):
        lines = []
        for fc in range(block * 4096, (block + 1) * 4096):
            fc0, fc1 = fc & 0xff, fc >> 8
            h = hdr_len(fc0, fc1)
            lens = range(0, 65) if thorough else sorted({0, 1, 2, 3, h - 1, h, h + 1, 64})
            for L in lens:
                o = rnd.randrange(0, 4000)
                fr = bytes([fc0, fc1]) + pool[o:o + max(0, L - 2)]
                lines.append("cls 0 " + (fr[:L].hex() or "-"))
        fw.run_suite(ctx, exe, "S-cls/plain-%02d" % block, lines, "frame classification")
    ctx.coverage["exhaustive"] = True
    pf = prefixes(rnd)
    lines = []
    fcs_all = range(65536) if thorough else sorted(set(rnd.sample(range(65536), 4096) + [0x0080, 0x8080, 0x0088, 0x00c8, 0x00d8, 0x00b4, 0x000c]))
    for fc in fcs_all:
        fc0, fc1 = fc & 0xff, fc >> 8
        h = hdr_len(fc0, fc1)
        name, pre, fcs = pf[fc % len(pf)]
        for L in (h - 1, h, h + 1, h + 7):
            fr = bytes([fc0, fc1]) + payload(rnd, max(0, L - 2))
            fr = fr[:L]
            tail = (zlib.crc32(fr) & 0xffffffff).to_bytes(4, "little") if fcs else b""
            cut = rnd.choice([0, 0, 0, 1, 3]) if fcs else 0
            whole = pre + fr + tail
            lines.append("cls 1 " + (whole[:len(whole) - cut].hex() or "-"))
        if fc % 97 == 0:
            lines.append("cls 1 " + (pre[:rnd.randrange(0, len(pre) + 1)].hex() or "-"))
    fw.run_suite(ctx, exe, "S-cls/radiotap", lines, "frame classification")
    # any field of the radiotap header other than FLAGS must be irrelevant to the slicing: random field subsets
    # (every defined field occurs) with random values, FLAGS present/absent with the FCS bit both ways
    lines = []
    defined = [0, 1, 2, 3, 4, 5, 6, 7, 8, 9, 10, 11, 12, 13, 14, 15, 16, 17, 19, 20, 21, 22]
    for i in range(6000 if thorough else 1500):
        fs = sorted(set(rnd.sample(defined, rnd.randrange(1, 9)) + [defined[i % len(defined)]]))
        fl = rnd.getrandbits(8)
        vals = {}
        if 1 in fs:
            vals[1] = bytes([fl])
        fcs = 1 in fs and bool(fl & 0x10)
        pre = rtbuild.build([{"fields": fs, "values": vals}], rnd)
        fc = rnd.choice([0x0080, 0x8080, 0x0088, 0x00c8, 0x0008, 0x00b4, 0x00d4, 0x0040, rnd.getrandbits(16)])
        fc0, fc1 = fc & 0xff, fc >> 8
        h = hdr_len(fc0, fc1)
        L = rnd.choice([h - 1, h, h, h + 1, h + 4, h + 30])
        fr = (bytes([fc0, fc1]) + payload(rnd, max(0, L - 2)))[:max(L, 0)]
        tail = (zlib.crc32(fr) & 0xffffffff).to_bytes(4, "little") if fcs else b""
        lines.append("cls %d %s" % (1 if i % 4 else rnd.choice([2, -1, 8, 255, 256, 65536, 2147483647, -2147483648]), (pre + fr + tail).hex() or "-"))   # any non-zero mode selector
    fw.run_suite(ctx, exe, "S-cls/radiotap-fields", lines, "frame classification")
    # the result may not depend on where the capture lies in memory (alignment is relative to the header start)
    for k in (1, 4):
        sub = lines[k::3][:1500]
        fw.run_suite(ctx, exe, "S-cls/radiotap-fields@+%d" % k, sub, "frame classification of a capture at a misaligned address", env={"LWV_MISALIGN": str(k)})
    # long radiotap headers: the announced length is a 16-bit field of which the library accepts up to 255 - every length
    # around that limit, the filler inside the header present, an FCS announced or not, a frame of each kind behind it
    lines = []
    for N in (64, 128, 200, 250, 253, 254, 255, 256, 257, 300, 511, 512):
        for fl in (0x00, 0x10):
            base = rtbuild.build([{"fields": [1, 2], "values": {1: bytes([fl])}}], rnd)
            pre = bytearray(base + payload(rnd, max(0, N - len(base))))
            pre[2:4] = N.to_bytes(2, "little")
            for fc0, fc1 in ((0x80, 0x00), (0x88, 0x00), (0x08, 0x80), (0xb4, 0x00)):
                h = hdr_len(fc0, fc1)
                for L in (h - 1, h, h + 5):
                    fr = (bytes([fc0, fc1]) + payload(rnd, max(0, L - 2)))[:max(L, 0)]
                    tail = (zlib.crc32(fr) & 0xffffffff).to_bytes(4, "little") if fl & 0x10 else b""
                    lines.append("cls 1 " + (bytes(pre) + fr + tail).hex())
    fw.run_suite(ctx, exe, "S-cls/radiotap-long", lines, "frame classification behind a long radiotap header")
    import frames
    fw.run_suite(ctx, exe, "S-cls/size-ladder", [l for l in frames.size_ladder(rnd, ctx.tier) if l.startswith("cls ")], "classification of long frames")
    fw.run_suite(ctx, exe, "S-cls/radiotap-ext-chains", sorted({"cls 1 " + b.hex() for b in ext_chains(rnd)}), "frame classification behind a present-word chain")
    # radiotap mode on frames without a radiotap header and vice versa
    mixed = []
    for _ in range(2000):
        L = rnd.choice([0, 1, 2, 4, 8, 10, 24, 30, 64])
        mixed.append("cls %d %s" % (rnd.randrange(2), payload(rnd, L).hex() or "-"))
    fw.run_suite(ctx, exe, "S-cls/mixed", mixed, "frame classification")
    ci = fw.corpus_inputs(ctx, random.Random(ctx.seed + 77))
    fw.run_suite(ctx, exe, "S-cls/corpus", ["cls %d %s" % (rt, b.hex() or "-") for rt, b in ci], "frame classification (coverage-guided corpus + mutants)")
    fw.conclude(ctx, broken)


def replay(rp):
    return fw.replay_line(rp)
