"""C03 — generated frames are byte-exact 802.11 encodings of their arguments."""
import random

from common import *  # noqa
import framework as fw
import frames

MODULE = ["LWV.Props.C03", "LWV.Props.C03Full", "LWV.Props.C07Any"]

KINDS = ["beacon", "probe_req", "probe_resp", "assoc_req", "assoc_resp", "reassoc_req", "reassoc_resp", "auth", "deauth", "disassoc",
         "action", "action_noack", "timing_ad", "atim", "rts", "cts"]
TAGGED = ["beacon", "probe_req", "probe_resp", "assoc_req", "assoc_resp", "reassoc_req", "reassoc_resp", "auth", "deauth", "disassoc", "timing_ad"]


def rmac(rnd):
    return rnd.choice(["000000000000", "ffffffffffff", bytes(rnd.getrandbits(8) for _ in range(6)).hex()])


def rssid(rnd, maxlen=32):
    l = rnd.choice([0, 1, 2, 31, 32, maxlen, rnd.randrange(0, maxlen + 1)])
    if maxlen >= 255 and rnd.random() < 0.3:
        l = rnd.choice([253, 254, 255, 256, 257, 300, 511, 512])     # at and beyond what the one-octet element length can say
    return bytes(rnd.randrange(1, 256) for _ in range(l)).hex() or "-"


def gen_line(rnd, kind, ops=True, full=False):
    kv = ["a1=" + rmac(rnd), "a2=" + rmac(rnd), "a3=" + rmac(rnd)]
    if kind in ("beacon", "probe_req", "probe_resp", "assoc_req", "reassoc_req"):
        kv += ["ssid=" + rssid(rnd, 255 if rnd.random() < 0.2 else 32), "ch=%d" % rnd.randrange(256)]
    if kind in ("assoc_resp", "reassoc_resp"):
        kv += ["ch=%d" % rnd.randrange(256)]
    if kind == "reassoc_req":
        kv += ["ap=" + rmac(rnd)]
    if kind == "auth":
        kv += ["alg=%d" % rnd.choice([0, 1, 2, 3, 65535, rnd.randrange(65536)]), "seq=%d" % rnd.randrange(65536), "status=%d" % rnd.randrange(65536)]
    if kind in ("deauth", "disassoc"):
        kv += ["reason=%d" % rnd.choice([0, 1, 7, 255, 256, 65535, rnd.randrange(65536)])]
    if kind in ("action", "action_noack"):
        kv += ["cat=%d" % rnd.choice([0, 4, 127, 255, rnd.randrange(256)])]
    if kind in ("rts", "cts"):
        kv += ["dur=%d" % rnd.choice([0, 1, 255, 256, 32767, 65535, rnd.randrange(65536)])]
    if kind == "timing_ad":
        kv += ["cap=%d" % rnd.choice([0, 1, 2, 3, 255]), "tv=" + bytes(rnd.getrandbits(8) for _ in range(10)).hex(), "te=" + bytes(rnd.getrandbits(8) for _ in range(5)).hex(),
               "tu=%02x" % rnd.getrandbits(8), "country=" + bytes(rnd.getrandbits(8) for _ in range(3)).hex(), "mrp=%d" % rnd.randrange(65536),
               "mtx=%d" % rnd.randrange(256), "txu=%d" % rnd.randrange(256), "nf=%d" % rnd.randrange(256)]
    if kind in ("beacon", "probe_resp", "timing_ad"):
        kv += ["clk=%d:%d" % (rnd.choice([0, 1, 1700000000, 2 ** 32, rnd.randrange(2 ** 40)]), rnd.choice([0, 999, 1000, 999999999, rnd.randrange(10 ** 9)]))]
    if ops:
        o = []
        if kind in TAGGED:
            budget = 2000
            for _ in range(rnd.choice([0, 1, 2, 5, 12])):
                l = rnd.choice([0, 1, 2, 8, 32, 200, 255])
                budget -= l + 2
                if budget < 0:
                    break
                o.append("a:%d:%s" % (rnd.choice([1, 3, 5, 42, 45, 48, 50, 221, 255, rnd.randrange(256)]), bytes(rnd.getrandbits(8) for _ in range(l)).hex() or "-"))
            if full and kind in ("beacon", "probe_resp") and rnd.random() < 0.4:
                z = rssid(rnd, 255 if rnd.random() < 0.15 else 32)
                if rnd.random() < 0.25 and z != "-" and len(z) >= 4:      # a NUL inside the C string ends it
                    cut = 2 * rnd.randrange(0, len(z) // 2)
                    z = z[:cut] + "00" + z[cut + 2:]
                o.append("s:" + z)
            if full and kind in ("beacon", "probe_resp", "assoc_resp", "reassoc_resp") and rnd.random() < 0.4:
                o.append("c:%d" % rnd.randrange(256))
            if full and rnd.random() < 0.3:
                o.append("r:%d" % rnd.choice([0, 3, 1, 221]))
            if full and rnd.random() < 0.35:
                # repeated setter / remove calls in random order: a setter must find its element wherever earlier calls left it
                extra = []
                for _ in range(rnd.choice([2, 3, 5])):
                    c = rnd.random()
                    if c < 0.4 and kind in ("beacon", "probe_resp"):
                        extra.append("s:" + rssid(rnd))
                    elif c < 0.7 and kind in ("beacon", "probe_resp", "assoc_resp", "reassoc_resp"):
                        extra.append("c:%d" % rnd.randrange(256))
                    elif c < 0.85:
                        extra.append("r:%d" % rnd.choice([0, 3, 1, 221]))
                    else:
                        extra.append("a:%d:%s" % (rnd.choice([0, 3, 7]), frames.tag_body(rnd, rnd.choice([1, 2, 5])).hex()))
                o += extra
        if kind in ("action", "action_noack"):
            total = 0
            for _ in range(rnd.choice([0, 1, 2, 6])):
                l = rnd.choice([0, 1, 2, 30, 100, 255 - total if total < 255 else 0, 256 - total, 300])
                if l > 300:
                    break
                if total + l <= 255:
                    total += l                # beyond the one-octet length the call must refuse and change nothing
                o.append("d:" + (bytes(rnd.getrandbits(8) for _ in range(l)).hex() or "-"))
                if full and rnd.random() < 0.25:
                    o.append("f")          # clear the details; later details start from an empty list again
                    total = 0
        if o:
            kv.append("ops=" + ",".join(o))
    return "gen %s %s" % (kind, " ".join(kv))


def boundary_lines():
    out = []
    for kind in KINDS:
        for mac in ("000000000000", "ffffffffffff"):
            base = "gen %s a1=%s a2=%s a3=%s" % (kind, mac, mac, mac)
            if kind in ("beacon", "probe_req", "probe_resp", "assoc_req", "reassoc_req"):
                for L in list(range(0, 34)) + [253, 254, 255, 256, 257, 300, 512]:
                    out.append(base + " ssid=%s ch=%d clk=1:0" % (("41" * L) or "-", L % 256))
                    if L >= 253 and kind in ("beacon", "probe_resp"):
                        # the long element replaced, removed, and replaced by another long one
                        for ops in ("s:6e6577", "r:0", "s:" + "42" * 254, "s:" + "43" * 300 + ",s:44", "c:9,s:45"):
                            out.append(base + " ssid=%s ch=%d clk=1:0 ops=%s" % ("41" * L, L % 256, ops))
            elif kind in ("assoc_resp", "reassoc_resp"):
                out += [base + " ch=%d" % c for c in range(256)]
            elif kind in ("deauth", "disassoc"):
                out += [base + " reason=%d" % v for v in (0, 1, 2, 255, 256, 257, 32767, 32768, 65534, 65535)]
            elif kind in ("action", "action_noack"):
                out += [base + " cat=%d" % c for c in range(256)]
            elif kind in ("rts", "cts"):
                out += [base + " dur=%d" % v for v in (0, 1, 255, 256, 32767, 32768, 65535)]
            else:
                out.append(base + " clk=1:0")
    return out


def grid_lines():
    """full cross products of small and special values of the numeric arguments of every generator that has more than one
    (a value-dependent special case needs its arguments to meet)"""
    out = []
    sv = [0, 1, 2, 3, 4, 5, 6, 13, 17, 255, 256, 65535]
    for alg in sv:
        for seq in sv:
            for st in (0, 1, 2, 13, 17, 0x5566, 65535):
                out.append("gen auth a1=010203040506 a2=0a0b0c0d0e0f a3=101112131415 alg=%d seq=%d status=%d" % (alg, seq, st))
    for kind in ("beacon", "probe_req", "probe_resp", "assoc_req", "reassoc_req"):
        for ch in range(256):
            for ss in ("-", "6e6574"):
                extra = " ap=202122232425" if kind == "reassoc_req" else ""
                out.append("gen %s a1=010203040506 a2=0a0b0c0d0e0f a3=101112131415 ssid=%s ch=%d%s clk=1700000000:123456789" % (kind, ss, ch, extra))
    for kind in ("deauth", "disassoc"):
        for r in range(0, 80):
            out.append("gen %s a1=010203040506 a2=0a0b0c0d0e0f a3=101112131415 reason=%d" % (kind, r))
    return out


def setter_lines():
    """every sequence of up to three setter / remove calls on the kinds that have setters (exhaustive over a small alphabet)"""
    import itertools
    out = []
    for kind, alpha in (("beacon", ["r:0", "r:3", "s:4e", "s:-", "c:9"]), ("probe_resp", ["r:0", "r:3", "s:4e", "s:-", "c:9"]),
                        ("assoc_resp", ["r:3", "r:1", "c:9", "a:3:07"]), ("reassoc_resp", ["r:3", "c:9", "a:3:07", "a:0:41"])):
        for n in (1, 2, 3):
            for seq in itertools.product(alpha, repeat=n):
                out.append("gen %s a1=010203040506 a2=0a0b0c0d0e0f a3=101112131415 ssid=6f6c64 ch=6 clk=1:0 ops=%s" % (kind, ",".join(seq)))
    return out


def lookalike_lines():
    """element bodies and SSIDs whose octets look like the element a setter searches for or is about to write: a setter
    must find elements by walking the list, not by matching octets"""
    out = []
    base = "gen %s a1=010203040506 a2=0a0b0c0d0e0f a3=101112131415 %s clk=1:0 ops=%s"
    for kind in ("beacon", "probe_resp", "assoc_resp", "reassoc_resp"):
        args = "ssid=6f6c64 ch=6" if kind in ("beacon", "probe_resp") else "ch=6"
        for ch in (6, 9, 11):
            ds = "0301%02x" % ch
            for ops in ("a:221:001337" + ds + ",c:%d" % ch, "a:221:" + ds + ",c:%d" % ch, "a:45:" + ds + ds + ",c:%d" % ch, "a:3:05,a:3:%02x,c:%d" % (ch, ch), "a:3:%02x,a:221:%s,c:%d" % (ch, ds, ch),
                        "c:%d,a:221:0000%s,c:%d" % (ch, ds, ch), "a:221:" + ds + ",r:3,c:%d" % ch):
                out.append(base % (kind, args, ops))
        if kind in ("beacon", "probe_resp"):
            for ops in ("a:221:0013370001" + "4e" + ",s:4e", "a:221:00014e,s:4e", "a:0:4e,s:4e", "a:221:0000,s:-", "s:4e,a:221:00014e,s:4e", "a:221:00014e,r:0,s:4e"):
                out.append(base % (kind, args, ops))
            for ssid, ch in (("6c6162030106", 6), ("030106", 6), ("61000301", 1), ("0301060301", 6)):
                for ops in ("-", "c:%d" % ch, "s:" + ssid, "c:%d,s:%s" % (ch, ssid)):
                    out.append("gen %s a1=010203040506 a2=0a0b0c0d0e0f a3=101112131415 ssid=%s ch=%d clk=1:0%s" % (kind, ssid, ch, "" if ops == "-" else " ops=" + ops))
    return out


def api_lines(rnd, samples3=120, bufs=False):
    """systematic API exploration: for every generator kind, every sequence of up to two edit calls over a small
    alphabet of calls the kind offers (plus sampled sequences of three), on two argument sets"""
    import itertools
    out = []
    argsets = [("a1=010203040506 a2=0a0b0c0d0e0f a3=101112131415", "ssid=6f6c64 ch=6"), ("a1=ffffffffffff a2=000000000000 a3=020000000001", "ssid=- ch=255")]
    for kind in KINDS:
        tag_ops = ["a:0:-", "a:0:4142", "a:3:07", "a:5:" + "11" * 8, "a:221:0050f20401", "a:48:0100", "a:255:" + "22" * 255, "r:0", "r:3", "r:5", "r:221"]
        alpha = []
        if kind in TAGGED:
            alpha += tag_ops
        if kind in ("beacon", "probe_resp"):
            alpha += ["s:4e45", "s:-", "s:" + "5a" * 32]
        if kind in ("beacon", "probe_resp", "assoc_resp", "reassoc_resp"):
            alpha += ["c:1", "c:200"]
        if kind in ("action", "action_noack"):
            alpha = ["d:01", "d:-", "d:" + "33" * 100, "d:" + "44" * 155, "d:" + "55" * 156, "f"]
        seqs = [()] + [(x,) for x in alpha] + list(itertools.product(alpha, repeat=2))
        if alpha:
            seqs += [tuple(rnd.choice(alpha) for _ in range(3)) for _ in range(samples3)]
        for ai, (macs, sc) in enumerate(argsets):
            kv = macs
            if kind in ("beacon", "probe_req", "probe_resp", "assoc_req", "reassoc_req"):
                kv += " " + sc
            elif kind in ("assoc_resp", "reassoc_resp"):
                kv += " " + sc.split()[1]
            if kind == "reassoc_req":
                kv += " ap=0a0a0a0a0a0a"
            if kind in ("beacon", "probe_resp", "timing_ad"):
                kv += " clk=%d:%d" % (1 + ai, 999999999 * ai)
            for q in (seqs if ai == 0 else seqs[: 1 + len(alpha)]):
                l = "gen %s %s" % (kind, kv) + ((" ops=" + ",".join(q)) if q else "")
                if rnd.random() < 0.3:
                    l += " fcflags=%d" % rnd.choice([0x80, 0x40, 0x01, 0xff, 0x88, rnd.getrandbits(8)])     # header flag octet set by the caller
                if bufs:
                    l += " buf=%d" % rnd.choice([0, 1, 23, 24, 25, 36, 40, 64, 300, 2000])
                if len(l) < 3000:
                    out.append(l)
    return out


def check(ctx):
    ctx.rule = ("every generator (16 kinds): boundary arguments (all-zero / all-FF MACs, SSID lengths 0..33, 253..257, 300 and 512 (created, then replaced / removed), every channel, every action category, boundary 16-bit reason/duration values%s) "
                "and seeded random arguments followed by random histories of appended tags / action details up to the one-octet limit (and, marked `full`, setter/remove edits); "
                "create + edit + get_length + dump into an exact heap block; compared with the model and with the Spec encoding (frame control, zero duration/sequence, addresses, "
                "little-endian fixed fields, elements in order); distinct = (kind, output)" % (", every 16-bit reason/status/duration value" if ctx.tier == "thorough" else ""))
    r = fw.prepare(ctx, MODULE)
    if r is None:
        return
    ok, broken, data, exe = r
    rnd = random.Random(ctx.seed)
    fw.run_suite(ctx, exe, "S-gen/boundary", boundary_lines(), "frame generation")
    fw.run_suite(ctx, exe, "S-gen/argument-grid", grid_lines(), "frame generation over the cross product of small argument values")
    fw.run_suite(ctx, exe, "S-gen/look-alike-contents", lookalike_lines(), "frame generation with bodies that look like the element a setter searches for")
    fw.run_suite(ctx, exe, "S-gen/setter-sequences", setter_lines(), "frame generation after setter / remove sequences")
    fw.run_suite(ctx, exe, "S-gen/api-sequences", api_lines(random.Random(ctx.seed + 5), 120 if ctx.tier == "quick" else 2000), "frame generation after a short call sequence")
    n = 250 if ctx.tier == "quick" else 4000
    lines = [gen_line(rnd, k, full=(i % 3 == 0)) for k in KINDS for i in range(n)]
    fw.run_suite(ctx, exe, "S-gen/random", lines, "frame generation")
    if ctx.tier == "thorough":
        sweep = []
        for v in range(65536):
            sweep.append("gen deauth a1=01 a2=02 a3=03 reason=%d" % v)
            sweep.append("gen disassoc a1=01 a2=02 a3=03 reason=%d" % v)
            sweep.append("gen auth a1=01 a2=02 a3=03 alg=%d seq=%d status=%d" % (v, (v * 7) % 65536, (v * 13) % 65536))
            sweep.append("gen rts a1=01 a2=02 dur=%d" % v)
        fw.run_suite(ctx, exe, "S-gen/16bit-sweep", sweep, "frame generation")
    fw.conclude(ctx, broken)


def replay(rp):
    return fw.replay_line(rp)
