"""C16 — no shared mutable state: concurrent use equals sequential use."""
from common import *  # noqa
import framework as fw
import diffrun

MODULE = "LWV.Props.C16"


def offenders(objects):
    bad = []
    for f in objects:
        for sec, size in f["writable_sections"].items():
            syms = [o[0] for o in f["objects"] if o[1] == sec]
            bad.append((f["file"], sec, size, syms))
        for sec, size in f["tls"].items():
            bad.append((f["file"], sec, size, [o[0] for o in f["objects"] if o[1] == sec]))
        for name, sec, cls, size in f["objects"]:
            if cls > 1 and not any(b[0] == f["file"] and b[1] == sec for b in bad):
                bad.append((f["file"], sec, size, [name]))
    return bad


def check(ctx):
    ctx.rule = ("every .c file of the working tree compiled with the shipping flags (-O2 -fPIC -fstack-protector-strong -D_FORTIFY_SOURCE=2); "
                "readelf section headers + symbol table (writable / thread-local storage) and undefined symbols (imports of libc functions that POSIX lists as keeping process-wide hidden state); distinct = object file; non-trivial = file with code or data; "
                "a mixed generate / parse workload in 8 (16) threads with per-thread digests compared with the sequential run, all threads also parsing captures kept in read-only storage (ASan build, every tier); "
                "thorough additionally runs the workload in 8 and 16 threads under ThreadSanitizer")
    meta, data = fw.run_gen(ctx)
    if meta is None:
        return
    ok, broken, failed = fw.lean_prove(ctx, MODULE)
    objs = data["objects"]
    ctx.count(len(objs), [("obj", f["file"]) for f in objs])
    bad = offenders(objs)
    for fn, sec, size, syms in bad:
        ctx.violation("writable:%s:%s" % (fn, ",".join(syms) or sec),
                      "%s has %d bytes of writable static storage in %s (%s): shared between all threads" % (fn, size, sec, ", ".join(syms) or "anonymous"),
                      {"kind": "object", "file": fn, "section": sec, "symbols": syms, "size": size})
    ctx.oblige("spec-on-impl", "no object file of the -O2 build has writable or thread-local static storage (%d files)" % len(objs), not bad)
    # the same question for state kept by the C library on the library's behalf (the list is the Spec's, read from the Lean source)
    import re
    shared = set(re.findall(r'n!"([^"]+)"', open(os.path.join(LEAN_DIR, "LWV", "Spec", "Posix.lean")).read().split("def sharedStateLibc", 1)[1]))
    hits = [(f["file"], sym) for f in objs for sym in f.get("imports", []) if sym in shared]
    for fn, sym in hits:
        ctx.violation("shared-libc:%s:%s" % (fn, sym), "%s calls %s(), which works on hidden state shared by all threads of the process (POSIX 2.9.1: need not be thread-safe)" % (fn, sym),
                      {"kind": "import", "file": fn, "symbol": sym})
    ctx.oblige("spec-on-impl", "no object file imports a libc function with process-wide hidden state (%d files, %d distinct imports, %d listed functions)" % (len(objs), len({s_ for f in objs for s_ in f.get("imports", [])}), len(shared)), not hits)
    ctx.sample({"file": objs[6]["file"], "objects": objs[6]["objects"], "writable_sections": objs[6]["writable_sections"]})
    run_threads_plain(ctx)
    if ctx.tier == "thorough":
        run_threads(ctx)
    if broken and not ctx.violations:
        for name, detail in broken[:3]:
            ctx.violation("theorem:" + name, "proof obligation no longer checks: %s — %s" % (name, detail[:300]), {"broken": name, "detail": detail}, found_input=False)


def run_threads_plain(ctx):
    """the threads workload on the ASan build (every tier): per-thread digests of a mixed generate / parse workload equal
    the sequential ones; all threads also parse captures that live in read-only storage (the library's input is const:
    a write into it is a write to state every thread shares, and faults here)"""
    exe, err = diffrun.build_harness("asan")
    if exe is None:
        ctx.oblige("harness", "ASan harness builds", False, (err or "")[-500:])
        ctx.violation("harness:build", "the working tree does not compile into the harness", {"broken": "harness build", "error": (err or "")[-2000:]}, found_input=False)
        return
    n, iters = (8, 400) if ctx.tier == "quick" else (16, 3000)
    line = "threads %d %d %d" % (n, ctx.seed, iters)
    co, cr = diffrun.run_harness_all(exe, [line], timeout=1800)
    good = bool(co[0]) and co[0].startswith("threads-ok")
    ctx.count(n * iters, [("thr-plain", n)])
    ctx.oblige("correspondence", "S-thr/plain: %d threads x %d iterations, per-thread digests equal the sequential run, shared read-only captures untouched" % (n, iters), good, (co[0] or "")[:300])
    if not good:
        ctx.violation("threads-plain:%d" % n, "concurrent use differs from sequential use, or the library wrote into a shared read-only capture: %s" % fw.clip(co[0], 300),
                      {"kind": "threads-plain", "line": line, "observed": co[0], "stderr": (cr[0][1] if cr else "")[-2000:]})


def run_threads(ctx):
    exe, err = diffrun.build_harness("tsan")
    if exe is None:
        ctx.oblige("harness", "TSan harness builds", False, (err or "")[-500:])
        ctx.violation("harness:tsan", "TSan harness does not build", {"broken": "tsan harness", "error": (err or "")[-2000:]}, found_input=False)
        return
    for nthreads in (8, 16):
        line = "threads %d %d 3000" % (nthreads, ctx.seed)
        o, rc, e = diffrun.run_lines(exe, [line], env={"TSAN_OPTIONS": "halt_on_error=0:exitcode=66"}, timeout=1800)
        good = rc == 0 and o and o[0].startswith("threads-ok")
        ctx.count(nthreads * 3000, [("thr", nthreads)])
        ctx.oblige("tsan", "S-thr: %d threads, per-thread digests equal the sequential run, no data race reported" % nthreads, good, (o[0] if o else "") + " " + e[-300:])
        if not good:
            import re
            m = re.search(r"WARNING: ThreadSanitizer: data race.*?\n(.*?\n){0,12}", e)
            ctx.violation("race:%d" % nthreads, "concurrent use differs from sequential use or races: %s %s" % (o[0] if o else "no output", (m.group(0)[:400] if m else e[-300:])),
                          {"kind": "threads", "line": line, "stderr": e[-3000:]})


def replay(rp):
    import gen as genmod
    if rp.get("kind") == "object":
        meta, data = genmod.generate()
        bad = [b for b in offenders(data["objects"]) if b[0] == rp["file"]]
        return not bad, "%s: writable static storage now: %s" % (rp["file"], bad)
    if rp.get("kind") == "import":
        meta, data = genmod.generate()
        still = [f["file"] for f in data["objects"] if f["file"] == rp["file"] and rp["symbol"] in f.get("imports", [])]
        return not still, "%s imports %s: %s" % (rp["file"], rp["symbol"], bool(still))
    if rp.get("kind") == "threads-plain":
        exe, err = diffrun.build_harness("asan")
        co, cr = diffrun.run_harness_all(exe, [rp["line"]], timeout=1800)
        return bool(co[0]) and co[0].startswith("threads-ok"), (co[0] or "no output")[:300]
    if rp.get("kind") == "threads":
        exe, err = diffrun.build_harness("tsan")
        o, rc, e = diffrun.run_lines(exe, [rp["line"]], env={"TSAN_OPTIONS": "halt_on_error=0:exitcode=66"}, timeout=1800)
        return rc == 0 and bool(o) and o[0].startswith("threads-ok"), (o[0] if o else "no output")
    return False, "replay names a broken obligation, not an input: %s" % rp.get("broken")
