"""C12 — EAPOL-Key frames are recognised, classified and extracted exactly."""
import random

from common import *  # noqa
import framework as fw
import frames

MODULE = "LWV.Props.C12"
LLC = bytes([0xaa, 0xaa, 0x03, 0x00, 0x00, 0x00, 0x88, 0x8e])


def data_frame(rnd, qos, body, fc1=None):
    fc0 = 0x88 if qos else 0x08
    hdr = bytes([fc0, rnd.getrandbits(7) if fc1 is None else fc1]) + bytes(rnd.getrandbits(8) for _ in range(22))
    if qos:
        hdr += bytes(rnd.getrandbits(8) for _ in range(2))
    return hdr + body


FIELDS = {"version": (0, 1), "type": (1, 1), "length": (2, 2), "descriptor": (4, 1), "key_length": (7, 2), "replay": (9, 8), "nonce": (17, 32), "iv": (49, 16),
          "rsc": (65, 8), "id": (73, 8), "mic": (81, 16)}


def eapol_body(rnd, keyinfo, declared, avail, llc=LLC, fill=None):
    """fill: {field name: octet} - that descriptor field filled with one octet value (e.g. a zero key length next to key data)"""
    e = bytearray(rnd.getrandbits(8) for _ in range(99))
    e[5:7] = keyinfo.to_bytes(2, "big")
    e[97:99] = declared.to_bytes(2, "big")
    for f, v in (fill or {}).items():
        off, n = FIELDS[f]
        e[off:off + n] = bytes([v]) * n
    return llc + bytes(e) + bytes(rnd.getrandbits(8) for _ in range(avail))


def field_lines(rnd):
    """every descriptor field all-zero and all-ones in turn, with and without key data, QoS and not"""
    out = []
    for f in FIELDS:
        for v in (0x00, 0xff):
            for d, a in ((0, 0), (22, 22), (22, 0), (5, 30)):
                for qos in (0, 1):
                    out.append("eap 0 " + data_frame(rnd, qos, eapol_body(rnd, rnd.choice([0x008a, 0x010a, 0x13ca, 0x030a]), d, a, fill={f: v})).hex())
    return out


def check(ctx):
    thorough = ctx.tier == "thorough"
    ctx.rule = ("QoS and non-QoS data frames x EVERY 16-bit key-information value (exhaustive) x declared key-data length 0..2048 versus available 0..1100 octets x random field contents; LLC OUI / EtherType perturbations; "
                "every truncation length around the 107-octet minimum; non-data frames; all wrappings; input scrubbed and released after classification; output object pre-filled 0xA5; compared with model and declarative Spec; distinct = (op, output)")
    r = fw.prepare(ctx, MODULE)
    if r is None:
        return
    ok, broken, data, exe = r
    rnd = random.Random(ctx.seed)
    lines = []
    for ki in range(65536):
        lines.append("eap 0 " + data_frame(rnd, ki & 1, eapol_body(rnd, ki, 0, 0)).hex())
    ctx.coverage["exhaustive"] = True
    fw.run_suite(ctx, exe, "S-eap/keyinfo", lines, "EAPOL")
    lines = []
    decl = [0, 1, 2, 16, 22, 95, 255, 256, 1023, 1024, 1025, 2048, 65535]
    av = [0, 1, 2, 16, 22, 94, 95, 96, 1023, 1024, 1025, 1100]
    for d in decl:
        for a in av:
            for qos in (0, 1):
                fr = data_frame(rnd, qos, eapol_body(rnd, rnd.choice([0x008a, 0x010a, 0x13ca, 0x030a, 0x0000]), d, a))
                lines.append(frames.mp_line(fr, rnd.randrange(3), rnd).replace("mp ", "eap ", 1))
    for _ in range(400 if not thorough else 8000):
        d, a = rnd.randrange(0, 2049), rnd.randrange(0, 1101)
        fr = data_frame(rnd, rnd.randrange(2), eapol_body(rnd, rnd.getrandbits(16), d, a))
        lines.append(frames.mp_line(fr, rnd.randrange(3), rnd).replace("mp ", "eap ", 1))
    fw.run_suite(ctx, exe, "S-eap/keydata", lines, "EAPOL")
    lines = []
    for cut in range(0, 125):
        for qos in (0, 1):
            body = eapol_body(rnd, 0x010a, 8, 16)[:cut]
            lines.append("eap 0 " + data_frame(rnd, qos, body).hex())
    for _ in range(600 if not thorough else 6000):
        llc = bytearray(LLC)
        k = rnd.randrange(8)
        llc[k] = rnd.choice([0, 1, 0x88, 0x8e, 0xaa, llc[k] ^ 1, rnd.getrandbits(8)])
        lines.append("eap 0 " + data_frame(rnd, rnd.randrange(2), eapol_body(rnd, 0x008a, 0, 4, bytes(llc))).hex())
    for _ in range(300):
        # the same payload in management / control frames must not be recognised
        fr = bytearray(data_frame(rnd, 0, eapol_body(rnd, 0x008a, 0, 0)))
        fr[0] = rnd.choice([0x80, 0x40, 0xb4, 0xd0, 0x0c, 0x48, 0xc8])
        lines.append("eap 0 " + bytes(fr).hex())
    fw.run_suite(ctx, exe, "S-eap/recognition", lines, "EAPOL")
    fw.run_suite(ctx, exe, "S-eap/field-extremes", field_lines(rnd), "EAPOL extraction with one descriptor field all-zero / all-ones")
    import frames as _fr
    fw.run_suite(ctx, exe, "S-eap/size-ladder", [l for l in _fr.size_ladder(rnd, ctx.tier) if l.startswith("eap ")], "EAPOL extraction from long frames")
    ci = fw.corpus_inputs(ctx, random.Random(ctx.seed + 77))
    fw.run_suite(ctx, exe, "S-eap/corpus", ["eap %d %s" % (rt, b.hex() or "-") for rt, b in ci], "EAPOL (coverage-guided corpus + mutants)")
    fw.conclude(ctx, broken)


def replay(rp):
    return fw.replay_line(rp)
