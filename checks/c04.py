"""C04 — management parsers report what the frame says; generated frames round-trip."""
import random

from common import *  # noqa
import framework as fw
import frames
from checks import c03

MODULE = ["LWV.Props.C04", "LWV.Props.C04Full", "LWV.Props.C04Round"]
GEN_PARSABLE = ["beacon", "probe_resp", "assoc_resp", "reassoc_resp", "probe_req", "assoc_req", "reassoc_req", "deauth", "disassoc"]


def crafted(rnd, count):
    out = []
    for kind in frames.PARSABLE:
        for i in range(count):
            els = b""
            mode = rnd.random()
            # SSID variants
            v = rnd.random()
            if v < 0.55:
                L = rnd.choice(list(range(0, 33)))
                els += frames.elem(0, bytes(rnd.randrange(1, 256) for _ in range(L)))
            elif v < 0.65:
                els += frames.elem(0, bytes(rnd.choice([1, 8, 32])))          # blanked SSID
            elif v < 0.75:
                els += frames.elem(0, bytes(rnd.randrange(256) for _ in range(rnd.choice([33, 64, 255]))))
            elif v < 0.82:
                els += frames.elem(0, b"abc") + frames.elem(1, b"\x82\x84") + frames.elem(0, b"Z")   # duplicated
            elif v < 0.92:
                # zero octets inside a non-blank SSID: leading, embedded, trailing, all but one
                L = rnd.choice([1, 2, 3, 4, 8, 31, 32])
                b = bytearray(rnd.randrange(256) if rnd.random() < 0.5 else 0 for _ in range(L))
                shape = rnd.randrange(4)
                if shape == 0:
                    b[0] = 0
                    b[-1] = rnd.randrange(1, 256)
                elif shape == 1:
                    b[-1] = 0
                    b[0] = rnd.randrange(1, 256)
                elif shape == 2:
                    b = bytearray(L)
                    b[rnd.randrange(L)] = rnd.randrange(1, 256)
                els += frames.elem(0, bytes(b))
            # channel elements
            c = rnd.random()
            if c < 0.5:
                els += frames.elem(3, bytes([rnd.randrange(256)]))
            elif c < 0.7:
                els += frames.elem(3, bytes([rnd.randrange(256)])) + frames.elem(61, bytes(rnd.getrandbits(8) for _ in range(22)))
            elif c < 0.8:
                els += frames.elem(61, bytes(rnd.getrandbits(8) for _ in range(22))) + frames.elem(3, bytes([rnd.randrange(256)]))
            for _ in range(rnd.randrange(0, 9)):
                n = rnd.choice([1, 5, 7, 42, 45, 50, 127, 191, 255, rnd.randrange(256)])
                if n in (48, 221):
                    n = 50
                L = rnd.choice([1, 2, 3, 8, 26, 100, 255])
                els += frames.elem(n, bytes(rnd.getrandbits(8) for _ in range(L)))
            if rnd.random() < 0.1:
                els = frames.elem(rnd.choice([0, 3, 1]), b"") + els        # leading empty element
            if rnd.random() < 0.08:
                els = els[:rnd.randrange(0, len(els) + 1)]                   # truncated region
            fr = frames.mgmt(kind, rnd, els, order=rnd.random() < 0.25, flags=rnd.getrandbits(7))
            out.append(frames.mp_line(fr, rnd.randrange(3), rnd))
    return out


def check(ctx):
    ctx.rule = ("nine parsable subtypes x {generated through the real generators with random arguments and edit histories, crafted (SSID length 0..32, 33..255, blanked, absent, duplicated; DS / HT-operation channel elements in both orders; "
                "order bit with HT-control; 0..8 extra elements; leading empty element; truncated regions)} x {no radiotap, radiotap, radiotap + computed FCS}; the input buffer is scrubbed and released after classification; "
                "ALL nine parsers run on every frame (the wrong-subtype parsers must refuse); output objects pre-filled 0xA5; compared with model and declarative Spec report; distinct = (op, output)")
    r = fw.prepare(ctx, MODULE)
    if r is None:
        return
    ok, broken, data, exe = r
    import diffrun
    rnd = random.Random(ctx.seed)
    # generated frames: ask the real generators for their bytes, then wrap
    n = 60 if ctx.tier == "quick" else 800
    glines = [c03.gen_line(rnd, k, full=(i % 2 == 0)) for k in GEN_PARSABLE + ["auth", "action", "atim", "timing_ad"] for i in range(n)]
    gouts, gcr = [], []
    for ch in diffrun.parallel_map(lambda c: diffrun.run_harness_all(exe, c), diffrun.chunked(glines, 16)):
        gouts += ch[0]
    lines = []
    for l, o in zip(glines, gouts):
        if not o or " dump=" not in o or "/" not in o.split(" dump=")[1]:
            continue
        hx = o.split(" dump=")[1].split()[0].split("/")[1]
        fr = bytes.fromhex(hx) if hx != "-" else b""
        for mode in range(3):
            lines.append(frames.mp_line(fr, mode, rnd))
    fw.run_suite(ctx, exe, "S-mp/generated", lines, "management parse")
    fw.run_suite(ctx, exe, "S-mp/crafted", crafted(rnd, 150 if ctx.tier == "quick" else 2500), "management parse")
    # other types / short frames through all parsers
    misc = []
    for _ in range(1500 if ctx.tier == "quick" else 20000):
        L = rnd.choice([24, 25, 26, 28, 30, 36, 38, 40, 60])
        b = bytearray(rnd.getrandbits(8) for _ in range(L))
        b[0] = rnd.choice([0x80, 0x50, 0x10, 0x30, 0x40, 0x00, 0x20, 0xc0, 0xa0, 0xb0, 0xd0, 0x08, 0x88, 0xb4, rnd.getrandbits(8)])
        misc.append(frames.mp_line(bytes(b), rnd.choice([0, 0, 1, 2]), rnd))
    fw.run_suite(ctx, exe, "S-mp/misc", misc, "management parse")
    import frames as _fr
    fw.run_suite(ctx, exe, "S-mp/size-ladder", [l for l in _fr.size_ladder(rnd, ctx.tier) if l.startswith("mp ")], "management parse of long frames")
    ci = fw.corpus_inputs(ctx, random.Random(ctx.seed + 77))
    fw.run_suite(ctx, exe, "S-mp/corpus", ["mp %d %s" % (rt, b.hex() or "-") for rt, b in ci], "management parse (coverage-guided corpus + mutants)")
    fw.conclude(ctx, broken)


def replay(rp):
    return fw.replay_line(rp)
