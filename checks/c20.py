"""C20 — timestamps in generated frames never run backwards."""
import itertools
import random

from common import *  # noqa
import framework as fw
import diffrun

MODULE = ["LWV.Props.C20", "LWV.Props.C20Full", "LWV.Props.C20Machine"]
LAST_SEC = 9223372036854   # (2^63 - 1) div 10^6


def parse(o):
    try:
        return dict((kv.split("=")[0], int(kv.split("=")[1])) for kv in o.split())
    except Exception:
        return None


def grid(seed, tier):
    subs = [0, 1, 999, 1000, 1001, 999999, 1000000, 1000001, 499999999, 999999000, 999999998, 999999999]
    secs = [0, 1, 2, 59, 60, 1000, 1700000000, 1700000001, 2 ** 31 - 1, 2 ** 31, 2 ** 32, 2 ** 43 - 2, 2 ** 43 - 1,
            # beyond the old 2^43 guard, up to the last second on which the C is defined (C20_machine_iff)
            2 ** 43, 2 ** 43 + 1, 10 ** 12, 2 ** 53, LAST_SEC - 1, LAST_SEC]
    pts = [(s, n) for s in secs for n in subs] + [(LAST_SEC, 775807000), (LAST_SEC, 775807999)]
    rnd = random.Random(seed)
    for _ in range(400 if tier == "quick" else 20000):
        s = rnd.choice([rnd.randrange(0, 2 ** 43), rnd.randrange(2 ** 43, LAST_SEC + 1), rnd.randrange(0, 4 * 10 ** 9), rnd.choice(secs)])
        pts.append((s, rnd.choice([rnd.randrange(0, 10 ** 9), rnd.choice(subs)])))
        if rnd.random() < 0.5:  # a close successor, often across the second boundary
            d = rnd.choice([1, 999, 1000, 10 ** 6, 10 ** 9 - 1])
            s2, n2 = pts[-1]
            n2 += d
            pts.append((s2 + n2 // 10 ** 9, n2 % 10 ** 9))
    # readings whose microsecond value does not fit a signed 64-bit long are undefined in the C
    # (C20_machine_first_undefined) and are not injected
    return sorted(p for p in set(pts) if p[0] * 10 ** 6 + p[1] // 1000 < 2 ** 63)


def check(ctx):
    ctx.rule = ("clock readings injected with -Wl,--wrap=clock_gettime: a grid of seconds x sub-second extremes (every second boundary), up to the last reading on which the C is defined (9223372036854 s 775807999 ns), "
                "plus seeded random readings and their close successors; libwifi_get_epoch and bytes 24..31 of a generated beacon, "
                "probe response and timing advertisement; ALL ordered pairs of adjacent readings in sorted order are compared "
                "(monotonicity over a sorted sequence implies it for every pair); distinct = distinct clock reading")
    meta, data = fw.run_gen(ctx)
    if meta is None:
        return
    ok, broken, failed = fw.lean_prove(ctx, MODULE)
    ctx.oblige("gen-validation", "epoch return expression extracted from the AST", data["epoch_expr"] is not None, str(data["epoch_expr"]))
    exe, err = diffrun.build_harness("asan")
    if exe is None:
        ctx.oblige("harness", "harness builds", False, err[-500:])
        ctx.violation("harness:build", "the working tree does not compile into the harness", {"broken": "harness build", "error": err[-2000:]}, found_input=False)
        return
    pts = grid(ctx.seed, ctx.tier)
    lines = ["epoch %d %d" % p for p in pts]
    have_driver = os.path.exists(fw.driver_path())
    if have_driver:
        c_outs, m_outs, dis, crashes = diffrun.differential(exe, lines)
        ctx.oblige("correspondence", "S-ep: C = model (epoch value and the three frame timestamps) on %d clock readings" % len(lines), not dis and not crashes,
                   "%d disagreements, %d crashes; first: %s" % (len(dis), len(crashes), dis[:1]))
        ctx.sample({"op": lines[len(lines) // 2], "c": c_outs[len(lines) // 2], "model": m_outs[len(lines) // 2]})
    else:
        c_outs, crashes = diffrun.run_harness_all(exe, lines)
        dis = []
    ctx.count(len(lines), [("clk",) + p for p in pts])
    # Spec predicate on the implementation: sorted readings must give non-decreasing values
    vals = [parse(o) for o in c_outs]
    bad = 0
    for i in range(len(pts) - 1):
        a, b = vals[i], vals[i + 1]
        if a is None or b is None:
            bad += 1
            ctx.violation("epoch:crash:%s" % (pts[i],), "epoch computation failed on %s: %r" % (pts[i], c_outs[i]), {"kind": "pair", "t1": pts[i], "t2": pts[i + 1]})
            continue
        for key, what in (("e", "libwifi_get_epoch"), ("b", "beacon timestamp"), ("p", "probe-response timestamp"), ("t", "timing-advertisement timestamp")):
            if a[key] > b[key]:
                bad += 1
                ctx.violation("epoch:backwards", "%s runs backwards: clock %ss+%sns -> %d, later clock %ss+%sns -> %d" % (what, pts[i][0], pts[i][1], a[key], pts[i + 1][0], pts[i + 1][1], b[key]),
                              {"kind": "pair", "t1": pts[i], "t2": pts[i + 1], "observed": [a[key], b[key]], "field": key})
                break
        if a["e"] != a["b"] or a["e"] != a["p"] or a["e"] != a["t"]:
            bad += 1
            ctx.violation("epoch:frame-differs", "a generated frame does not carry libwifi_get_epoch's value at clock %s: %s" % (pts[i], c_outs[i]),
                          {"kind": "pair", "t1": pts[i], "t2": pts[i], "observed": c_outs[i]})
    ctx.oblige("spec-on-impl", "timestamps non-decreasing along %d sorted clock readings, frames carry the epoch value" % len(pts), bad == 0)
    # a timestamp derives from the clock reading alone: the same readings with a non-zero errno left behind by an unrelated
    # earlier failure, an unrelated earlier library call and other heap contents
    env = {"LWV_ERRNO": "2", "LWV_PRECALL": "1", "LWV_FILL": "205"}
    sub = list(range(0, len(lines), max(1, len(lines) // 400)))
    eo, _ = diffrun.run_harness_all(exe, [lines[i] for i in sub], env=env)
    ebad = 0
    for i, o in zip(sub, eo):
        if o != c_outs[i]:
            ebad += 1
            if ebad <= 2:
                j = max(i - 1, 0)
                ctx.violation("epoch:environment:%s" % (pts[i],), "the timestamp depends on more than the clock reading: clock %ss+%sns gives %s, and %s when an earlier unrelated call left errno=2 "
                              "(so a frame stamped at the earlier reading %ss+%sns, %s, is followed by a smaller timestamp)" % (pts[i][0], pts[i][1], c_outs[i], o, pts[j][0], pts[j][1], c_outs[j]),
                              {"kind": "pair-env", "t1": pts[j], "t2": pts[i], "env": env, "observed": o, "expected": c_outs[i]})
    ctx.count(len(sub))
    ctx.oblige("spec-on-impl", "same timestamps with errno=2, an earlier unrelated call and other heap contents on %d readings" % len(sub), ebad == 0)
    if broken and not ctx.violations and not ctx.known_hits:
        for name, detail in broken[:3]:
            ctx.violation("theorem:" + name, "proof obligation no longer checks: %s — %s" % (name, detail[:300]), {"broken": name, "detail": detail}, found_input=False)
    if dis and not ctx.violations and not ctx.known_hits:
        ctx.violation("correspondence:epoch", "model and implementation disagree on the epoch value but monotonicity holds on all sampled pairs",
                      {"broken": "S-ep correspondence", "examples": [(l, c, m) for _, l, c, m in dis[:5]]}, found_input=False)


def replay(rp):
    exe, err = diffrun.build_harness("asan")
    if rp.get("kind") == "pair-env":
        a, _ = diffrun.run_harness_all(exe, ["epoch %d %d" % tuple(rp["t1"])])
        b, _ = diffrun.run_harness_all(exe, ["epoch %d %d" % tuple(rp["t2"])], env=rp["env"])
        pa, pb = parse(a[0]), parse(b[0])
        good = pa is not None and pb is not None and all(pa[k] <= pb[k] for k in "ebpt")
        return good, "clock %s -> %s ; later clock %s with %s -> %s" % (rp["t1"], a[0], rp["t2"], rp["env"], b[0])
    if rp.get("kind") != "pair":
        return False, "replay names a broken obligation, not an input: %s" % rp.get("broken")
    o, rc, e = diffrun.run_lines(exe, ["epoch %d %d" % tuple(rp["t1"]), "epoch %d %d" % tuple(rp["t2"])])
    a, b = parse(o[0]), parse(o[1])
    good = all(a[k] <= b[k] for k in "ebpt") and len({a[k] for k in "ebpt"}) == 1
    return good, "clock %s -> %s ; clock %s -> %s" % (rp["t1"], o[0], rp["t2"], o[1])
