import LWV.Model.Tables
import LWV.Spec.Ieee
import LWV.Model.Epoch
import LWV.Model.Describe
import LWV.Spec.Security
import LWV.Model.Tags
import LWV.Spec.TagsRef
import LWV.Model.Crc
/-
Line-protocol driver: runs the executable Model (and Spec) on the same operation lines the C
harness runs.  Compiled as `lwdriver` (nothing below imports Mathlib).
-/
open LWV

def specKinds : List (String × List (Name × Int)) := [
  ("libwifi_tag_numbers", Spec.ieeeTag), ("libwifi_reason_codes", Spec.ieeeReason),
  ("libwifi_status_codes", Spec.ieeeStatus), ("libwifi_actions", Spec.ieeeAction),
  ("libwifi_frame_type", Spec.ieeeFrameType), ("libwifi_mgmt_subtypes", Spec.ieeeMgmtSubtype),
  ("libwifi_control_subtypes", Spec.ieeeCtrlSubtype),
  ("libwifi_control_extension_subtypes", Spec.ieeeCtrlExtSubtype),
  ("libwifi_data_subtypes", Spec.ieeeDataSubtype), ("libwifi_extension_subtypes", Spec.ieeeExtSubtype),
  ("libwifi_capabilities", Spec.ieeeCapBit)]

def dumpTable (t : List (Name × Int)) : String :=
  " ".intercalate (t.map fun (n, v) => s!"{Name.toString n}={v}")

def routineOf : Nat → Option Model.Routine
  | 0 => some .securityType | 1 => some .groupCiphers | 2 => some .pairwiseCiphers | 3 => some .authKeySuites
  | _ => none

def parseNat (s : String) : Option Nat :=
  if s.startsWith "0x" then
    (s.drop 2).foldl (fun acc c => acc.bind fun a =>
      if c.isDigit then some (a * 16 + (c.toNat - 48))
      else if 'a' ≤ c ∧ c ≤ 'f' then some (a * 16 + (c.toNat - 87))
      else if 'A' ≤ c ∧ c ≤ 'F' then some (a * 16 + (c.toNat - 55)) else none) (some 0)
  else s.toNat?

def textToString (t : List Nat) : String := String.ofList (t.map Char.ofNat)

def fnvStep (h : UInt64) (b : UInt64) : UInt64 := (h ^^^ b) * 1099511628211

def descRange (r : Model.Routine) (extra lo hi : Nat) (bits : List Nat) : String := Id.run do
  let mut h : UInt64 := 1469598103934665603
  let mut maxlen := 0
  for i in [lo:hi] do
    let mut v := extra
    let mut j := 0
    for b in bits do
      if i.testBit j then v := v ||| (1 <<< b)
      j := j + 1
    let st := Model.describe r v
    if st.text.length > maxlen then maxlen := st.text.length
    for c in st.text do
      h := fnvStep h c.toUInt64
    h := fnvStep h 0xff
  return s!"digest={h} maxlen={maxlen}"

/-- the documented (flag bit, name) table of a routine: names from Spec, flag values from the
published macros — independent of the behaviourally regenerated `Gen.desc_*` tables -/
def specDescTable (r : Model.Routine) : List (Nat × Name) :=
  let t := match r with
    | .securityType => Spec.descGenerations | .groupCiphers => Spec.descGroup
    | .pairwiseCiphers => Spec.descPairwise | .authKeySuites => Spec.descAkm
  t.map fun (m, d) => (Nat.log2 ((Gen.macros.lookup m).getD 0).toNat, d)

def showElems (es : List Spec.ElemAt) : String :=
  "ok" ++ String.join (es.map fun e => s!" {e.off}:{e.num.toNat}:{e.len}")

def showOutcome {α} (f : α → String) : Outcome α → String
  | .ok a => f a
  | .err c => s!"err {c}"
  | .fault x => s!"FAULT {repr x}"

/-- parse one op token of a `tg` line -/
def parseTagOp (s : String) : Option Model.TagOp :=
  match s.splitOn ":" with
  | ["a", n, h] => do let n ← n.toNat?; let d ← ofHex h; some (.add n d)
  | ["r", n] => do let n ← n.toNat?; some (.remove n)
  | ["s", h] => do let d ← ofHex h; some (.setSsid d)
  | ["c", n] => do let n ← n.toNat?; some (.setChannel (UInt8.ofNat n))
  | ["k", n] => do let n ← n.toNat?; some (.check n)
  | _ => none

def showTagState (ret : Int) (t : Model.Tags) : String := s!"{ret}/{t.length}/{toHex t.params}"

def runTagOps (ops : List Model.TagOp) : String := Id.run do
  let mut t := Model.Tags.empty
  let mut outs : List String := []
  for op in ops do
    match Model.stepTag t op with
    | .ok (r, t') => t := t'; outs := outs ++ [showTagState r t']
    | .err c => outs := outs ++ [s!"err {c}"]
    | .fault f => outs := outs ++ [s!"FAULT {repr f}"]
  return if outs.isEmpty then "nop" else " | ".intercalate outs

def toEditOp : Model.TagOp → Spec.EditOp
  | .add n d => .add n d
  | .remove n => .remove n
  | .setSsid d => .set 0 d
  | .setChannel c => .set 3 [c]
  | .check n => .check n

/-- `tgchk ops @ ret/len/hex | ...`: evaluate the Spec relation on the implementation's states -/
def tagCheck (ops : List Model.TagOp) (states : List String) : String := Id.run do
  let mut before : Bytes := []
  let mut i := 0
  for (op, st) in ops.zip states do
    match st.trimAscii.toString.splitOn "/" with
    | [r, l, h] =>
      match r.toInt?, l.toNat?, ofHex h with
      | some r, some l, some after =>
        if l != after.length then return s!"fails {i} recorded length differs from the byte count"
        match Spec.editHolds before (toEditOp op) r after with
        | some why => return s!"fails {i} {why}"
        | none => before := after
      | _, _, _ => return s!"fails {i} unparsable state"
    | _ => return s!"fails {i} unparsable state {st}"
    i := i + 1
  return "holds"

def hex8 (v : Nat) : String := toHex [UInt8.ofNat (v / 16777216), UInt8.ofNat (v / 65536), UInt8.ofNat (v / 256), UInt8.ofNat v]

def showCrc (c : Reg) (fcs : Bytes) (verify : Nat) : String :=
  s!"crc={hex8 c.toNat} fcs={toHex fcs} verify={verify} ref={hex8 c.toNat}"

def step (line : String) : String :=
  match line.trimAscii.toString.splitOn " " with
  | ["tagname", v] =>
    match v.toInt? with
    | some n => Name.toString (Model.tagName n)
    | none => "bad-op"
  | ["tagtable"] =>
    s!"default={(Name.toString Gen.tagNameDefault).replace " " "\x01"} " ++
      " ".intercalate (Gen.tagNameCases.map fun (v, n) => s!"{v} {Name.toString n}")
  | ["epoch", s, n] =>
    match s.toNat?, n.toNat? with
    | some s, some n =>
      let e := Model.epoch ⟨s, n⟩ % 2 ^ 64
      s!"e={e} b={e} p={e} t={e}"
    | _, _ => "bad-op"
  | ["desc", r, v] =>
    match r.toNat?.bind routineOf, parseNat v with
    | some r, some v =>
      let st := Model.describe r v
      let sp := Spec.descText (specDescTable r) n!"None" v
      (if st.overflow then "overflow" else s!"len={st.text.length} text={textToString st.text}") ++ s!" ;; spec={textToString sp}"
    | _, _ => "bad-op"
  | "descrange" :: r :: extra :: lo :: hi :: bits =>
    match r.toNat?.bind routineOf, parseNat extra, lo.toNat?, hi.toNat? with
    | some r, some extra, some lo, some hi => descRange r extra lo hi (bits.filterMap String.toNat?)
    | _, _, _, _ => "bad-op"
  | ["it", h] =>
    match ofHex h with
    | some bs =>
      let sp := if Spec.firstFits bs then showElems (Spec.visible (Spec.parseAt bs)) else "refuse"
      showOutcome showElems (Model.reported bs) ++ " ;; spec=" ++ sp
    | none => "bad-op"
  | ["tg", ops] =>
    match (ops.splitOn ",").mapM parseTagOp with
    | some ops => runTagOps ops
    | none => "bad-op"
  | "tgchk" :: ops :: "@" :: rest =>
    match (ops.splitOn ",").mapM parseTagOp with
    | some ops => tagCheck ops ((" ".intercalate rest).splitOn " | ")
    | none => "bad-op"
  | ["crc", h] =>
    match ofHex h with
    | some bs =>
      let c := Model.crc32 bs
      let m := match Model.frameVerify bs with
        | .ok v => showCrc c (leBytes 4 (Model.calculateFcs bs).toNat) v
        | .err e => s!"err {e}"
        | .fault f => s!"FAULT {repr f}"
      let sc := Spec.crc32 bs
      let sv := if 4 ≤ bs.length ∧ bs.drop (bs.length - 4) = Spec.fcsOctets (bs.take (bs.length - 4)) then 1 else 0
      m ++ " ;; spec=" ++ showCrc sc (Spec.fcsOctets bs) sv
    | none => "bad-op"
  | ["spec-ieee", kind] =>
    match specKinds.lookup kind with
    | some t => dumpTable t
    | none => "bad-op"
  | _ => "bad-op"

partial def loop (h : IO.FS.Stream) (out : IO.FS.Stream) : IO Unit := do
  let line ← h.getLine
  if line.isEmpty then return ()
  out.putStrLn (step line)
  loop h out

def main : IO Unit := do
  let out ← IO.getStdout
  loop (← IO.getStdin) out
  out.flush
