import LWV.Model.Tables
import LWV.Spec.Ieee
import LWV.Model.Epoch
/-
Line-protocol driver: runs the executable Model (and Spec) on the same operation lines the C
harness runs.  Compiled as `lwdriver` (nothing below imports Mathlib).
-/
open LWV

def specKinds : List (String × List (Name × Int)) := [
  ("libwifi_tag_numbers", Spec.ieeeTag), ("libwifi_reason_codes", Spec.ieeeReason),
  ("libwifi_status_codes", Spec.ieeeStatus), ("libwifi_actions", Spec.ieeeAction),
  ("libwifi_frame_type", Spec.ieeeFrameType), ("libwifi_mgmt_subtypes", Spec.ieeeMgmtSubtype),
  ("libwifi_control_subtypes", Spec.ieeeCtrlSubtype),
  ("libwifi_control_extension_subtypes", Spec.ieeeCtrlExtSubtype),
  ("libwifi_data_subtypes", Spec.ieeeDataSubtype), ("libwifi_extension_subtypes", Spec.ieeeExtSubtype),
  ("libwifi_capabilities", Spec.ieeeCapBit)]

def dumpTable (t : List (Name × Int)) : String :=
  " ".intercalate (t.map fun (n, v) => s!"{Name.toString n}={v}")

def step (line : String) : String :=
  match line.trimAscii.toString.splitOn " " with
  | ["tagname", v] =>
    match v.toInt? with
    | some n => Name.toString (Model.tagName n)
    | none => "bad-op"
  | ["tagtable"] =>
    s!"default={(Name.toString Gen.tagNameDefault).replace " " "\x01"} " ++
      " ".intercalate (Gen.tagNameCases.map fun (v, n) => s!"{v} {Name.toString n}")
  | ["epoch", s, n] =>
    match s.toNat?, n.toNat? with
    | some s, some n =>
      let e := Model.epoch ⟨s, n⟩ % 2 ^ 64
      s!"e={e} b={e} p={e} t={e}"
    | _, _ => "bad-op"
  | ["spec-ieee", kind] =>
    match specKinds.lookup kind with
    | some t => dumpTable t
    | none => "bad-op"
  | _ => "bad-op"

partial def loop (h : IO.FS.Stream) (out : IO.FS.Stream) : IO Unit := do
  let line ← h.getLine
  if line.isEmpty then return ()
  out.putStrLn (step line)
  loop h out

def main : IO Unit := do
  let out ← IO.getStdout
  loop (← IO.getStdin) out
  out.flush
