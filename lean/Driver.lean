import LWV.Model.Tables
import LWV.Spec.Ieee
import LWV.Model.Epoch
import LWV.Model.Describe
import LWV.Spec.Security
import LWV.Model.Tags
import LWV.Spec.TagsRef
import LWV.Model.Crc
import LWV.Model.Radiotap
import LWV.Model.Rssi
import LWV.Spec.Radiotap
import LWV.Model.Frames
import LWV.Spec.Frames
import LWV.Model.Misc
import LWV.Model.Classify
import LWV.Spec.Classify
import LWV.Model.Mgmt
import LWV.Spec.Mgmt
import LWV.Model.Eapol
import LWV.Spec.Eapol
import LWV.Model.Heap
/-
Line-protocol driver: runs the executable Model (and Spec) on the same operation lines the C
harness runs.  Compiled as `lwdriver` (nothing below imports Mathlib).
-/
open LWV

def specKinds : List (String × List (Name × Int)) := [
  ("libwifi_tag_numbers", Spec.ieeeTag), ("libwifi_reason_codes", Spec.ieeeReason),
  ("libwifi_status_codes", Spec.ieeeStatus), ("libwifi_actions", Spec.ieeeAction),
  ("libwifi_frame_type", Spec.ieeeFrameType), ("libwifi_mgmt_subtypes", Spec.ieeeMgmtSubtype),
  ("libwifi_control_subtypes", Spec.ieeeCtrlSubtype),
  ("libwifi_control_extension_subtypes", Spec.ieeeCtrlExtSubtype),
  ("libwifi_data_subtypes", Spec.ieeeDataSubtype), ("libwifi_extension_subtypes", Spec.ieeeExtSubtype),
  ("libwifi_capabilities", Spec.ieeeCapBit)]

def dumpTable (t : List (Name × Int)) : String :=
  " ".intercalate (t.map fun (n, v) => s!"{Name.toString n}={v}")

def routineOf : Nat → Option Model.Routine
  | 0 => some .securityType | 1 => some .groupCiphers | 2 => some .pairwiseCiphers | 3 => some .authKeySuites
  | _ => none

def parseNat (s : String) : Option Nat :=
  if s.startsWith "0x" then
    (s.drop 2).foldl (fun acc c => acc.bind fun a =>
      if c.isDigit then some (a * 16 + (c.toNat - 48))
      else if 'a' ≤ c ∧ c ≤ 'f' then some (a * 16 + (c.toNat - 87))
      else if 'A' ≤ c ∧ c ≤ 'F' then some (a * 16 + (c.toNat - 55)) else none) (some 0)
  else s.toNat?

def textToString (t : List Nat) : String := String.ofList (t.map Char.ofNat)

def fnvStep (h : UInt64) (b : UInt64) : UInt64 := (h ^^^ b) * 1099511628211

def descRange (r : Model.Routine) (extra lo hi : Nat) (bits : List Nat) : String := Id.run do
  let mut h : UInt64 := 1469598103934665603
  let mut maxlen := 0
  for i in [lo:hi] do
    let mut v := extra
    let mut j := 0
    for b in bits do
      if i.testBit j then v := v ||| (1 <<< b)
      j := j + 1
    let st := Model.describe r v
    if st.text.length > maxlen then maxlen := st.text.length
    for c in st.text do
      h := fnvStep h c.toUInt64
    h := fnvStep h 0xff
  return s!"digest={h} maxlen={maxlen}"

/-- the documented (flag bit, name) table of a routine: names from Spec, flag values from the
published macros — independent of the behaviourally regenerated `Gen.desc_*` tables -/
def specDescTable (r : Model.Routine) : List (Nat × Name) :=
  let t := match r with
    | .securityType => Spec.descGenerations | .groupCiphers => Spec.descGroup
    | .pairwiseCiphers => Spec.descPairwise | .authKeySuites => Spec.descAkm
  t.map fun (m, d) => (Nat.log2 ((Gen.macros.lookup m).getD 0).toNat, d)

def showElems (es : List Spec.ElemAt) : String :=
  "ok" ++ String.join (es.map fun e => s!" {e.off}:{e.num.toNat}:{e.len}")

def showOutcome {α} (f : α → String) : Outcome α → String
  | .ok a => f a
  | .err c => s!"err {c}"
  | .fault x => s!"FAULT {repr x}"

/-- parse one op token of a `tg` line -/
def parseTagOp (s : String) : Option Model.TagOp :=
  match s.splitOn ":" with
  | ["a", n, h] => do let n ← n.toNat?; let d ← ofHex h; some (.add n d)
  | ["r", n] => do let n ← n.toNat?; some (.remove n)
  | ["s", h] => do
    -- the harness hands the octets to the setter as a C string: the call sees them up to the first NUL
    let d ← ofHex h; some (.setSsid (d.takeWhile (· ≠ 0)))
  | ["c", n] => do let n ← n.toNat?; some (.setChannel (UInt8.ofNat n))
  | ["k", n] => do let n ← n.toNat?; some (.check n)
  | _ => none

def showTagState (ret : Int) (t : Model.Tags) : String := s!"{ret}/{t.length}/{toHex t.params}"

def runTagOps (ops : List Model.TagOp) : String := Id.run do
  let mut t := Model.Tags.empty
  let mut outs : List String := []
  for op in ops do
    match Model.stepTag t op with
    | .ok (r, t') => t := t'; outs := outs ++ [showTagState r t']
    | .err c => outs := outs ++ [s!"err {c}"]
    | .fault f => outs := outs ++ [s!"FAULT {repr f}"]
  return if outs.isEmpty then "nop" else " | ".intercalate outs

/-- `tgl`: long histories — per operation only `ret/len`, the stored bytes once at the end -/
def runTagOpsL (ops : List Model.TagOp) : String := Id.run do
  let mut t := Model.Tags.empty
  let mut outs : Array String := #[]
  for op in ops do
    match Model.stepTag t op with
    | .ok (r, t') => t := t'; outs := outs.push s!"{r}/{t'.length}"
    | .err c => outs := outs.push s!"err {c}"
    | .fault f => outs := outs.push s!"FAULT {repr f}"
  return " | ".intercalate outs.toList ++ s!" final={t.length}/{toHex t.params}"

/-- the property's reading of a whole history on the plain element list (C05: add appends, remove deletes the first
element with that number, a setter replaces it); `none` as soon as that reading promises nothing (an element that
cannot be stored, or a list with an empty element that is not the first) -/
def refHistory : List Model.TagOp → List Spec.Elem → Option (List Spec.Elem)
  | [], es => some es
  | op :: rest, es =>
    let set (n : Nat) (d : Bytes) : Option (List Spec.Elem) :=
      if Spec.noInnerEmpty es ∧ d.length ≤ 255 then some (es.eraseP (fun e => e.num.toNat == n) ++ [⟨UInt8.ofNat n, d⟩]) else none
    let next : Option (List Spec.Elem) := match op with
      | .add n d => if n < 256 ∧ d.length ≤ 255 then some (es ++ [⟨UInt8.ofNat n, d⟩]) else none
      | .remove n => if Spec.noInnerEmpty es then some (es.eraseP (fun e => e.num.toNat == n)) else none
      | .setSsid d => set 0 d
      | .setChannel c => set 3 [c]
      | .check _ => some es
    match next with
    | some es' => refHistory rest es'
    | none => none

/-- `tgd`: histories with the pseudo-operation `d:<num>` = "append a copy of the first element numbered num, handing
the library a pointer INTO the list's own buffer as the data to copy" (the data argument aliases the object being
edited; the API documents it as data to copy) -/
def runTagOpsD (raw : List String) : String := Id.run do
  let mut t := Model.Tags.empty
  let mut outs : Array String := #[]
  for r in raw do
    let op : Option (Option Model.TagOp) := match r.splitOn ":" with
      | ["d", n] => match n.toNat? with
        | some n => match (Spec.parse t.params).find? (fun e => e.num.toNat == n) with
          | some e => some (some (.add n e.body))
          | none => some none
        | none => none
      | _ => (parseTagOp r).map some
    match op with
    | none => return "bad-op"
    | some none => outs := outs.push (showTagState (-7777) t)
    | some (some op) =>
      match Model.stepTag t op with
      | .ok (r, t') => t := t'; outs := outs.push (showTagState r t')
      | .err c => outs := outs.push s!"err {c}"
      | .fault f => outs := outs.push s!"FAULT {repr f}"
  return if outs.isEmpty then "nop" else " | ".intercalate outs.toList

def toEditOp : Model.TagOp → Spec.EditOp
  | .add n d => .add n d
  | .remove n => .remove n
  | .setSsid d => .set 0 d
  | .setChannel c => .set 3 [c]
  | .check n => .check n

/-- `tgchk ops @ ret/len/hex | ...`: evaluate the Spec relation on the implementation's states -/
def tagCheck (ops : List Model.TagOp) (states : List String) (faulty : Bool := false) : String := Id.run do
  let mut before : Bytes := []
  let mut i := 0
  for (op, st) in ops.zip states do
    match st.trimAscii.toString.splitOn "/" with
    | [r, l, h] =>
      match r.toInt?, l.toNat?, ofHex h with
      | some r, some l, some after =>
        if l != after.length then return s!"fails {i} recorded length differs from the byte count"
        match (if faulty then Spec.editHoldsF before (toEditOp op) r after else Spec.editHolds before (toEditOp op) r after) with
        | some why => return s!"fails {i} {why}"
        | none => before := after
      | _, _, _ => return s!"fails {i} unparsable state"
    | _ => return s!"fails {i} unparsable state {st}"
    i := i + 1
  return "holds"

def hex8 (v : Nat) : String := toHex [UInt8.ofNat (v / 16777216), UInt8.ofNat (v / 65536), UInt8.ofNat (v / 256), UInt8.ofNat v]

def showCrc (c : Reg) (fcs : Bytes) (verify : Nat) : String :=
  s!"crc={hex8 c.toNat} fcs={toHex fcs} verify={verify} ref={hex8 c.toNat}"

def showAnts (l : List (Nat × Nat)) : String :=
  if l.isEmpty then "-" else ",".intercalate (l.map fun (n, s) => s!"{n}:{s}")

def showRtInfo (i : Model.RtInfo) : String :=
  s!"len={i.length} freq={i.chanFreq} cfl={i.chanFlags} center={i.chanCenter} band={i.chanBand} rate={i.rateRaw} sig={i.signal} nant={i.antennaCount} ants={showAnts (i.antennas.take i.antennaCount)} flags={i.flags} rx={i.rxFlags} tx={i.txFlags} mcs={i.mcsKnown}/{i.mcsFlags}/{i.mcsMcs} txp={i.txPower} ts={i.tsTimestamp}/{i.tsAccuracy}/{i.tsUnit}/{i.tsFlags} rts={i.rtsRetries} data={i.dataRetries}"

def showRtValues (v : Spec.RtValues) : String :=
  s!"len={v.length} freq={v.chanFreq} cfl={v.chanFlags} center={v.chanCenter} band={v.chanBand} rate={v.rateRaw} sig={v.signal} nant={v.antennas.length} ants={showAnts v.antennas} flags={v.flags} rx={v.rxFlags} tx={v.txFlags} mcs={v.mcs.1}/{v.mcs.2.1}/{v.mcs.2.2} txp={v.txPower} ts={v.ts.1}/{v.ts.2.1}/{v.ts.2.2.1}/{v.ts.2.2.2} rts={v.rtsRetries} data={v.dataRetries}"

def specRtp (bs : Bytes) : String :=
  match Spec.rtFields bs with
  | none => "refuse"
  | some (itLen, fields) => "ok " ++ showRtValues (Spec.rtValues bs itLen fields 16)

def parseKV (s : String) : List (String × Nat) :=
  (s.splitOn ",").filterMap fun kv => match kv.splitOn "=" with
    | [k, v] => (parseNat v).map fun n => (k, n)
    | _ => none

def rtGenOf (kv : List (String × Nat)) : Model.RtGen :=
  let g (k : String) (m : Nat) : Nat := ((kv.lookup k).getD 0) % m
  { present := g "present" (2^32), chanFreq := g "freq" 65536, chanFlags := g "cfl" 65536, rateRaw := g "rate" 256, signal := g "sig" 256,
    antennaCount := g "nant" 256, ant0Number := g "a0n" 256, ant0Signal := g "a0s" 256, flags := g "flags" 256, rxFlags := g "rx" 65536,
    txFlags := g "tx" 65536, mcsKnown := g "mk" 256, mcsFlags := g "mf" 256, mcsMcs := g "mm" 256, txPower := g "txp" 256,
    tsTimestamp := g "ts" (2^64), tsAccuracy := g "tsa" 65536, tsUnit := g "tsu" 256, tsFlags := g "tsf" 256, rtsRetries := g "rts" 256, dataRetries := g "data" 256 }

def rtDescOf (g : Model.RtGen) : Spec.RtDesc :=
  { present := g.present, value := fun f => Model.rtGenField g f }

/-- what a decode of the generated header must return: the supplied value of every selected field -/
def rtBackOf (g : Model.RtGen) (len : Nat) : String :=
  let p (b : Nat) (v : Nat) : Nat := if g.present.testBit b then v else 0
  let bc := Spec.channelOf (p 3 g.chanFreq)
  s!"len={len} freq={p 3 g.chanFreq} cfl={p 3 g.chanFlags} center={bc.2 % 256} band={bc.1} rate={p 2 g.rateRaw} sig={p 5 g.signal} nant=0 ants=- flags={p 1 g.flags} rx={p 14 g.rxFlags} tx={p 15 g.txFlags} mcs={p 19 g.mcsKnown}/{p 19 g.mcsFlags}/{p 19 g.mcsMcs} txp={p 10 g.txPower} ts={p 22 g.tsTimestamp}/{p 22 g.tsAccuracy}/{p 22 g.tsUnit}/{p 22 g.tsFlags} rts={p 16 g.rtsRetries} data={p 17 g.dataRetries}"

/-! generator ops -/

def kvOf (toks : List String) : List (String × String) :=
  toks.filterMap fun t => match t.splitOn "=" with
    | [k, v] => some (k, v)
    | _ => none

def kvHex (kv : List (String × String)) (k : String) : Bytes := ((kv.lookup k).bind ofHex).getD []
def kvNat (kv : List (String × String)) (k : String) : Nat := ((kv.lookup k).bind parseNat).getD 0

def gkindOf : String → Option (Model.GKind × Spec.Kind)
  | "beacon" => some (.beacon, .beacon) | "probe_req" => some (.probeReq, .probeReq) | "probe_resp" => some (.probeResp, .probeResp)
  | "assoc_req" => some (.assocReq, .assocReq) | "assoc_resp" => some (.assocResp, .assocResp)
  | "reassoc_req" => some (.reassocReq, .reassocReq) | "reassoc_resp" => some (.reassocResp, .reassocResp)
  | "auth" => some (.auth, .auth) | "deauth" => some (.deauth, .deauth) | "disassoc" => some (.disassoc, .disassoc)
  | "action" => some (.action, .action) | "action_noack" => some (.actionNoAck, .actionNoAck) | "timing_ad" => some (.timingAd, .timingAd)
  | "atim" => some (.atim, .atim) | "rts" => some (.rts, .rts) | "cts" => some (.cts, .cts)
  | _ => none

def pad (b : Bytes) (n : Nat) : Bytes := (b ++ List.replicate n 0).take n

def gargsOf (kv : List (String × String)) : Model.GArgs :=
  let clk := ((kv.lookup "clk").getD "0:0").splitOn ":"
  { a1 := pad (kvHex kv "a1") 6, a2 := pad (kvHex kv "a2") 6, a3 := pad (kvHex kv "a3") 6, ap := pad (kvHex kv "ap") 6,
    ssid := kvHex kv "ssid", ch := kvNat kv "ch" % 256, alg := kvNat kv "alg" % 65536, seq := kvNat kv "seq" % 65536,
    status := kvNat kv "status" % 65536, reason := kvNat kv "reason" % 65536, cat := kvNat kv "cat" % 256, dur := kvNat kv "dur" % 65536,
    cap := kvNat kv "cap" % 256, tv := pad (kvHex kv "tv") 10, te := pad (kvHex kv "te") 5, tu := pad (kvHex kv "tu") 1,
    country := pad (kvHex kv "country") 3, mrp := kvNat kv "mrp" % 65536, mtx := kvNat kv "mtx" % 256, txu := kvNat kv "txu" % 256,
    nf := kvNat kv "nf" % 256,
    clk := ⟨(clk.getD 0 "0").toNat?.getD 0, (clk.getD 1 "0").toNat?.getD 0⟩ }

def parseGEdit (s : String) : Option Model.GEdit :=
  match s.splitOn ":" with
  | ["d", h] => (ofHex h).map .detail
  | ["f"] => some .freeDetail
  | _ => (parseTagOp s).map .tag

/-- is the edit applicable to the kind (mirrors the harness, which answers -7777 otherwise) -/
def editApplies (k : Model.GKind) (e : Model.GEdit) (o : Model.GObj) : Bool :=
  match e with
  | .detail _ => k == .action || k == .actionNoAck
  | .freeDetail => k == .action || k == .actionNoAck
  | .tag (.setSsid _) => k == .beacon || k == .probeResp
  | .tag (.setChannel _) => k == .beacon || k == .probeResp || k == .assocResp || k == .reassocResp
  | .tag (.check _) => false
  | .tag _ => o.hasTags

/-- the caller may set the flag octet of the frame control directly in the object's header (there is no setter):
the serialisers copy the header as it is -/
def withFcFlags (o : Model.GObj) : Option Nat → Model.GObj
  | some n => Model.setFcFlags o n          -- under the theorems of Props/C07Any.lean
  | none => o

def runGen (k : Model.GKind) (a : Model.GArgs) (edits : List Model.GEdit) (bufLen : Option Nat) (fcFlags : Option Nat := none) : String :=
  match Model.create k a with
  | .ok (r, o0) => Id.run do
    let mut o := if r == 0 then withFcFlags o0 fcFlags else o0
    let mut er : Int := 0
    for e in edits do
      if editApplies k e o then
        match o.edit e with
        | .ok (r', o') => o := o'; er := r'
        | .err c => er := c
        | .fault f => return s!"FAULT {repr f}"
      else er := -7777
    let len := o.length
    let buf := List.replicate (bufLen.getD len) (0xA5 : UInt8)
    match Model.dumpInto o buf with
    | .ok (d, after) =>
      if d < 0 then s!"ret={r} edit={er} len={len} dump=err touched={if after == buf then 0 else 1}"
      else
        let n := d.toNat
        s!"ret={r} edit={er} len={len} dump={n}/{toHex (after.take n)} touched={if after.drop n == buf.drop n then 0 else 1}"
    | .err c => s!"err {c}"
    | .fault f => s!"FAULT {repr f}"
  | .err c => s!"err {c}"
  | .fault f => s!"FAULT {repr f}"

def specArgsOf (a : Model.GArgs) : Spec.Args :=
  { a1 := a.a1, a2 := a.a2, a3 := a.a3, ap := a.ap, ssid := Model.cstr a.ssid, ch := a.ch, alg := a.alg, seq := a.seq, status := a.status,
    reason := a.reason, cat := a.cat, dur := a.dur,
    timingElem := [UInt8.ofNat a.cap] ++ (if a.cap = 1 then a.tv ++ a.te else if a.cap = 2 then a.tv ++ a.te ++ a.tu else []),
    country := a.country, mrp := a.mrp, mtx := a.mtx, txu := a.txu, nf := a.nf, sec := a.clk.sec, nsec := a.clk.nsec }

/-- the property's expectation for a gen line, or "any" where the property fixes nothing -/
def specGen (mk : Model.GKind) (k : Spec.Kind) (a : Model.GArgs) (edits : List Model.GEdit) (bufLen : Option Nat) (fcFlags : Option Nat := none) : String := Id.run do
  let sa := specArgsOf a
  if sa.ssid.length > 255 then return "any"
  let mut elems := Spec.initialElems k sa
  let mut details : Bytes := []
  let mut er : Int := 0
  let o0 : Model.GObj := { kind := mk, fc := [], a1 := [], a2 := [], a3 := [] }
  for e in edits do
    if !editApplies mk e o0 then return "any"
    match e with
    | .detail d =>
      -- the detail length is one octet: what it cannot describe is refused and nothing changes
      if details.length + d.length > 255 then
        er := -22
      else
        details := details ++ d
        er := details.length
    | .freeDetail =>
      details := []
      er := 0
    | .tag op =>
      match Spec.refEdit elems (toEditOp op) with
      | some es =>
        elems := es
        er := match op with
          | .remove _ => -999999       -- the return value of a removal is not fixed by the property
          | _ => 0
      | none => return "any"
  let enc0 := Spec.frame k sa elems details
  let enc := match fcFlags with
    | some n => enc0.set 1 (UInt8.ofNat n)      -- the second frame-control octet is the caller's
    | none => enc0
  let shown := s!"ret=0 edit={if edits.isEmpty then "0" else if er == -999999 then "*" else toString er} len={enc.length}"
  match bufLen with
  | some n => if n < enc.length then return shown ++ " dump=err touched=0" else return shown ++ s!" dump={enc.length}/{toHex enc} touched=0"
  | none => return shown ++ s!" dump={enc.length}/{toHex enc} touched=0"

def rtgMax : Model.RtGen :=
  { present := 0, chanFreq := 65535, chanFlags := 65535, rateRaw := 255, signal := 255, antennaCount := 16,
    ant0Number := 255, ant0Signal := 255, flags := 255, rxFlags := 65535, txFlags := 65535, mcsKnown := 255, mcsFlags := 255, mcsMcs := 255,
    txPower := 255, tsTimestamp := 2^64 - 1, tsAccuracy := 65535, tsUnit := 255, tsFlags := 255, rtsRetries := 255, dataRetries := 255 }

def rtgRange (lo hi : Nat) : String := Id.run do
  let mut h : UInt64 := 1469598103934665603
  let mut maxlen := 0
  for m in [lo:hi] do
    match Model.createRadiotap { rtgMax with present := m } with
    | .ok hdr =>
      if hdr.length > maxlen then maxlen := hdr.length
      h := fnvStep h (UInt64.ofNat (hdr.length % 256))
    | _ => return "FAULT"
  return s!"maxlen={maxlen} digest={h}"

/-- random source of the harness: mode 1 delivers `rnd`, mode 2 at most `rnd.length` octets, mode 3 fails -/
def randomMac (pfx : Option Bytes) (mode : Nat) (rnd : Bytes) : Bytes :=
  Model.randomMac pfx (if mode == 3 then [] else rnd)

def showData (f : Model.Frame) : String :=
  match Model.parseData f with
  | .ok d => s!"data={toHex d.receiver}/{toHex d.transmitter}/{toHex d.body}"
  | _ => "data=err"

def showFrame (f : Model.Frame) : String :=
  let rt := match f.radiotap with
    | some i => s!"{i.length}/{i.flags}"
    | none => "-"
  s!"ok flags={f.flags} len={f.len} hl={f.headerLen} fc={toHex f.fc} hdr={toHex f.header} body={toHex f.body} rt={rt} {showData f}"

/-- the property's expectation for a classification line -/
def specCls (rt : Bool) (bs : Bytes) : String :=
  let pre : Option (Nat × Bool × String) :=
    if rt then
      match Spec.rtFields bs with
      | none => none
      | some (itLen, fields) =>
        let v := Spec.rtValues bs itLen fields 16
        some (itLen, (v.flags / 16) % 2 == 1, s!"{itLen}/{v.flags}")
    else some (0, false, "-")
  match pre with
  | none => "refuse"
  | some (skip, fcs, rts) =>
    match Spec.classifyCore bs skip fcs with
    | none => "refuse"
    | some s =>
      let flags := (if s.fcs then 1 else 0) + (if s.qos then 2 else 0) + (if s.ordered then 4 else 0) + (if rt then 8 else 0)
      let ty := ((s.fc.getD 0 0).toNat / 4) % 4
      let data := if ty == 2 then s!"data={toHex ((s.header.drop 4).take 6)}/{toHex ((s.header.drop 10).take 6)}/{toHex s.body}" else "data=err"
      s!"ok flags={flags} len={s.len} hl={s.headerLen} fc={toHex s.fc} hdr={toHex s.header} body={toHex s.body} rt={rts} {data}"

/-! management parsers -/

def showSuite (oui : Bytes) (ty : Nat) : String := s!"{toHex (pad oui 3)}:{ty}"

def showSuites6 (l : List (Bytes × Nat)) : String :=
  ",".intercalate ((l ++ List.replicate (6 - l.length) ([0, 0, 0], 0)).map fun (o, t) => showSuite o t)

def showRsn (version : Nat) (g : Bytes × Nat) (pw ak : List (Bytes × Nat)) (caps : Nat) : String :=
  s!"{version}/{showSuite g.1 g.2}/{pw.length}[{showSuites6 pw}]/{ak.length}[{showSuites6 ak}]/{caps}"

def showWpa (version : Nat) (g : Bytes × Nat) (uc ak : List (Bytes × Nat)) : String :=
  s!"{version}/{showSuite g.1 g.2}/{uc.length}[{showSuites6 uc}]/{ak.length}[{showSuites6 ak}]"

def hexNat (n : Nat) : String := String.ofList (Nat.toDigits 16 n)

def showBssWith (rx tx bssid ssid : Bytes) (hidden ch wps enc : Nat) (rsn wpa : String) (tags : Bytes) : String :=
  s!"bss rx={toHex rx} tx={toHex tx} bssid={toHex bssid} ssid={toHex ssid} hidden={hidden} ch={ch} wps={wps} enc={hexNat enc} sig=0 rsn={rsn} wpa={wpa} tags={toHex tags}"

def mSuite (s : Model.Suite) : Bytes × Nat := (s.oui, s.ty)
def sSuite (s : Spec.SuiteSel) : Bytes × Nat := (s.oui, s.ty)

def showParsed : Model.Parsed → String
  | .bss b => showBssWith b.receiver b.transmitter b.bssid b.ssid b.hidden b.channel b.wps b.enc
      (showRsn b.rsn.version (mSuite b.rsn.group) (b.rsn.pairwise.map mSuite) (b.rsn.akms.map mSuite) b.rsn.caps)
      (showWpa b.wpa.version (mSuite b.wpa.multicast) (b.wpa.unicast.map mSuite) (b.wpa.akms.map mSuite)) b.tags
  | .sta s => s!"sta ch={s.channel} rand={s.randomized} tx={toHex s.transmitter} rx=000000000000 bssid={toHex s.bssid} ssid={toHex s.ssid} bcast=0 tags={toHex s.tags}"
  | .reason r => s!"reason ord={if r.ordered then 1 else 0} hdr={toHex r.header} code={r.reason} tags={toHex r.tags}"

def mkinds : List (String × Model.MKind) :=
  [("beacon", .beacon), ("probe_resp", .probeResp), ("assoc_resp", .assocResp), ("reassoc_resp", .reassocResp),
   ("probe_req", .probeReq), ("assoc_req", .assocReq), ("reassoc_req", .reassocReq), ("deauth", .deauth), ("disassoc", .disassoc)]

/-- the property's expectation for parser `k` on an accepted frame given as Spec slices -/
def specParse (k : Model.MKind) (s : Spec.Slices) : String :=
  let b0 := (s.fc.getD 0 0).toNat
  let ty := (b0 / 4) % 4
  let st := b0 / 16
  if ty != 0 || st != k.subtype then "err*"
  else
    let a1 := (s.header.drop 4).take 6
    let a2 := (s.header.drop 10).take 6
    let a3 := (s.header.drop 16).take 6
    let fixedLen := match k with
      | .beacon | .probeResp => 12 | .assocResp | .reassocResp => 6 | .probeReq => 0 | .assocReq => 4 | .reassocReq => 10
      | .deauth | .disassoc => 2
    if s.body.length < fixedLen then "err*"
    else
      let tags := s.body.drop fixedLen
      match k with
      | .deauth | .disassoc =>
        s!"reason ord={if s.ordered then 1 else 0} hdr={toHex s.header} code={Spec.u16le s.body 0} tags={toHex tags}"
      | .beacon | .probeResp | .assocResp | .reassocResp =>
        if !Spec.wellFormedTags tags then "?"
        else
          let capOff := match k with | .beacon | .probeResp => 10 | _ => 0
          let privacy := ((s.body.getD capOff 0).toNat / 16) % 2 == 1
          match Spec.bssReport privacy (Spec.parse tags) with
          | none => "err*"
          | some r =>
            let rsn := match r.rsn with
              | some d => showRsn d.version (sSuite d.group) (d.pairwise.map sSuite) (d.akms.map sSuite) d.caps
              | none => showRsn 0 ([0, 0, 0], 0) [] [] 0
            let wpa := match r.wpa with
              | some d => showWpa d.version (sSuite d.multicast) (d.unicast.map sSuite) (d.akms.map sSuite)
              | none => showWpa 0 ([0, 0, 0], 0) [] []
            showBssWith a1 a2 a3 r.ssid r.hidden r.channel r.wps r.enc rsn wpa tags
      | .probeReq | .assocReq | .reassocReq =>
        if !Spec.wellFormedTags tags then "?"
        else
          let r := Spec.staReport (Spec.parse tags)
          let rand := if ((a2.getD 0 0).toNat / 2) % 2 == 1 then 1 else 0
          s!"sta ch={r.channel} rand={rand} tx={toHex a2} rx=000000000000 bssid={toHex a3} ssid={toHex r.ssid} bcast=0 tags={toHex tags}"

def slicesOfCls (rt : Bool) (bs : Bytes) : Option Spec.Slices :=
  if rt then
    match Spec.rtFields bs with
    | none => none
    | some (itLen, fields) =>
      let v := Spec.rtValues bs itLen fields 16
      Spec.classifyCore bs itLen ((v.flags / 16) % 2 == 1)
  else Spec.classifyCore bs 0 false

def stepMp (rt : Bool) (bs : Bytes) : String :=
  let m := match Model.classify rt bs with
    | .ok f => "cls=ok" ++ String.join (mkinds.map fun (n, k) => s!" # {n}=" ++ (match Model.parseMgmt k f with
        | .ok p => showParsed p
        | .err c => s!"err{c}"
        | .fault x => s!"FAULT {repr x}"))
    | .err _ => "cls=err"
    | .fault x => s!"FAULT {repr x}"
  let sp := match slicesOfCls rt bs with
    | none => "cls=err"
    | some s => "cls=ok" ++ String.join (mkinds.map fun (n, k) => s!" # {n}=" ++ specParse k s)
  m ++ " ;; spec=" ++ sp

def showWpaData (v t l d i kl rc : Nat) (nonce iv rsc id mic : Bytes) (kd : Bytes) : String :=
  s!"v={v} t={t} l={l} d={d} i={i} kl={kl} rc={rc} nonce={toHex nonce} iv={toHex iv} rsc={toHex rsc} id={toHex id} mic={toHex mic} kdl={kd.length} kd={toHex kd}"

def stepEap (rt : Bool) (bs : Bytes) : String :=
  let m := match Model.classify rt bs with
    | .ok f =>
      let hs := match Model.checkHandshake f with | .ok r => toString r | _ => "FAULT"
      let msg := match Model.checkMessage f with | .ok r => toString r | _ => "FAULT"
      let kdl := match Model.keyDataLength f with | .ok r => toString r | _ => "FAULT"
      let data := match Model.getWpaData f with
        | .ok d => showWpaData d.version d.type d.length d.descriptor d.information d.keyLength d.replay d.nonce d.iv d.rsc d.id d.mic d.keyData
        | .err c => s!"err{c}"
        | .fault x => s!"FAULT {repr x}"
      let str := match Model.checkMessage f with
        | .ok 1 => "Message_1" | .ok 2 => "Message_2" | .ok 4 => "Message_3" | .ok 8 => "Message_4" | .ok _ => "Invalid" | _ => "FAULT"
      s!"cls=ok hs={hs} msg={msg} str={str} kdl={kdl} data={data}"
    | .err _ => "cls=err"
    | .fault x => s!"FAULT {repr x}"
  let sp := match slicesOfCls rt bs with
    | none => "cls=err"
    | some s =>
      let isData := ((s.fc.getD 0 0).toNat / 4) % 4 == 2
      let hs := Spec.isHandshake isData s.body
      let msg := if s.body.length < 107 then 16 else match Spec.messageOf (Spec.beVal s.body 13 2) with
        | some 1 => 1 | some 2 => 2 | some 3 => 4 | some 4 => 8 | _ => 16
      let str := if msg == 1 then "Message_1" else if msg == 2 then "Message_2" else if msg == 4 then "Message_3" else if msg == 8 then "Message_4" else "Invalid"
      if hs then
        let k := Spec.keyFrame s.body
        s!"cls=ok hs=1 msg={msg} str={str} kdl={Spec.beVal s.body 105 2} data=" ++
          showWpaData k.version k.type k.length k.descriptor k.information k.keyLength k.replay k.nonce k.iv k.rsc k.id k.mic k.keyData
      else s!"cls=ok hs=-22 msg={msg} str={str} kdl=-22 data=err-22"
  m ++ " ;; spec=" ++ sp

/-! allocation-aware runs (`alloc` lines) -/
open LWV.Heap in
def sigmaOf (k : Option Nat) (fromOn : Bool) : Nat → Bool :=
  match k with
  | none => fun _ => false
  | some k => fun i => i == k || (fromOn && i > k)

open LWV.Heap in
def ledgerLine (h : H) : String :=
  let tr := String.join (h.trace.map fun e => e ++ " ")
  s!" || live={h.live.length} bad={h.bad} reqs={h.reqs} faults={h.faults} trace={tr}"

open LWV.Heap in
def runTagOpsH (σ : Nat → Bool) (ops : List Model.TagOp) : M String := do
  let mut th : TagsH := {}
  let mut outs : List String := []
  for op in ops do
    let (r, th') ← stepTagH σ th op
    th := th'
    outs := outs ++ [showTagState r th'.t]
  -- libwifi_free_beacon
  free th.ptr
  return if outs.isEmpty then "nop" else " | ".intercalate outs

open LWV.Heap in
def runGenH (σ : Nat → Bool) (k : Model.GKind) (a : Model.GArgs) (edits : List Model.GEdit) (bufLen : Option Nat) (fcFlags : Option Nat := none) : M String := do
  let (r, g0) ← createH σ k a
  let mut g := if r == 0 then { g0 with o := withFcFlags g0.o fcFlags } else g0
  let mut er : Int := 0
  for e in edits do
    if editApplies k e g.o then
      let (r', g') ← editH σ g e
      g := g'
      er := r'
    else er := -7777
  let o := g.o
  let len := o.length
  let buf := List.replicate (bufLen.getD len) (0xA5 : UInt8)
  let line := match Model.dumpInto o buf with
    | .ok (d, after) =>
      if d < 0 then s!"ret={r} edit={er} len={len} dump=err touched={if after == buf then 0 else 1}"
      else
        let n := d.toNat
        s!"ret={r} edit={er} len={len} dump={n}/{toHex (after.take n)} touched={if after.drop n == buf.drop n then 0 else 1}"
    | .err c => s!"err {c}"
    | .fault f => s!"FAULT {repr f}"
  freeH g
  return line

open LWV.Heap in
def stepClsH (σ : Nat → Bool) (rt : Bool) (bs : Bytes) : M String := do
  let (r, fh) ← classifyH σ rt bs
  match fh.f with
  | some f =>
    -- libwifi_parse_data: type check, then malloc(body_len)
    let first ← parseDataReleaseH σ f
    -- the harness extracts once more into the same object when the first extraction succeeded
    if first matches .ok _ then let _ ← parseDataReleaseH σ f
    let dataStr := match first with
      | .ok d => s!"data={toHex d.receiver}/{toHex d.transmitter}/{toHex d.body}"
      | _ => "data=err"
    freeFrameH fh
    let rts := match f.radiotap with
      | some i => s!"{i.length}/{i.flags}"
      | none => "-"
    return s!"ok flags={f.flags} len={f.len} hl={f.headerLen} fc={toHex f.fc} hdr={toHex f.header} body={toHex f.body} rt={rts} {dataStr}"
  | none =>
    freeFrameH fh
    return s!"err {r}"

open LWV.Heap in
def stepMpH (σ : Nat → Bool) (rt : Bool) (bs : Bytes) : M String := do
  let (_, fh) ← classifyH σ rt bs
  match fh.f with
  | some f =>
    let mut out := "cls=ok"
    for (n, k) in mkinds do
      let r ← parseReleaseH σ k f
      if r matches .ok _ then let _ ← parseReleaseH σ k f
      out := out ++ s!" # {n}=" ++ (match r with
        | .ok p => showParsed p
        | .err c => s!"err{c}"
        | .fault x => s!"FAULT {repr x}")
    freeFrameH fh
    return out
  | none =>
    freeFrameH fh
    return "cls=err"

open LWV.Heap in
def stepEapH (σ : Nat → Bool) (rt : Bool) (bs : Bytes) : M String := do
  let (_, fh) ← classifyH σ rt bs
  match fh.f with
  | some f =>
    let hs := match Model.checkHandshake f with | .ok r => toString r | _ => "FAULT"
    let msg := match Model.checkMessage f with | .ok r => toString r | _ => "FAULT"
    let kdl := match Model.keyDataLength f with | .ok r => toString r | _ => "FAULT"
    let firstW ← wpaDataReleaseH σ f
    if firstW matches .ok _ then let _ ← wpaDataReleaseH σ f
    let data := match firstW with
      | .ok d => showWpaData d.version d.type d.length d.descriptor d.information d.keyLength d.replay d.nonce d.iv d.rsc d.id d.mic d.keyData
      | .err c => s!"err{c}"
      | .fault x => s!"FAULT {repr x}"
    freeFrameH fh
    let str := match Model.checkMessage f with
      | .ok 1 => "Message_1" | .ok 2 => "Message_2" | .ok 4 => "Message_3" | .ok 8 => "Message_4" | .ok _ => "Invalid" | _ => "FAULT"
    return s!"cls=ok hs={hs} msg={msg} str={str} kdl={kdl} data={data}"
  | none =>
    freeFrameH fh
    return "cls=err"

open LWV.Heap in
def stepAlloc (k : Option Nat) (fromOn : Bool) (inner : List String) : String :=
  let σ := sigmaOf k fromOn
  let run (m : M String) : String := let (s, h) := m.run {}; s ++ ledgerLine h
  match inner with
  | ["tg", ops] =>
    match (ops.splitOn ",").mapM parseTagOp with
    | some ops => run (runTagOpsH σ ops)
    | none => "bad-op"
  | "gen" :: kind :: rest =>
    match gkindOf kind with
    | some (mk, _) =>
      let kv := kvOf rest
      let ops := (kv.lookup "ops").getD "-"
      match (if ops == "-" then some [] else (ops.splitOn ",").mapM parseGEdit) with
      | some edits => run (runGenH σ mk (gargsOf kv) edits ((kv.lookup "buf").bind parseNat) ((kv.lookup "fcflags").bind parseNat))
      | none => "bad-op"
    | none => "bad-op"
  | ["cls", rt, h] => match ofHex h with | some bs => run (stepClsH σ (rt != "0") bs) | none => "bad-op"
  | ["mp", rt, h] => match ofHex h with | some bs => run (stepMpH σ (rt != "0") bs) | none => "bad-op"
  | ["eap", rt, h] => match ofHex h with | some bs => run (stepEapH σ (rt != "0") bs) | none => "bad-op"
  | _ => "bad-op"

def step (line : String) : String :=
  match line.trimAscii.toString.splitOn " " with
  | ["tagname", v] =>
    match v.toInt? with
    | some n => Name.toString (Model.tagName n)
    | none => "bad-op"
  | ["spec-reserved-tags"] => " ".intercalate (Spec.ieeeReservedTag.map toString)
  | ["tagtable"] =>
    s!"default={(Name.toString Gen.tagNameDefault).replace " " "\x01"} " ++
      " ".intercalate (Gen.tagNameCases.map fun (v, n) => s!"{v} {Name.toString n}")
  | ["epoch", s, n] =>
    match s.toNat?, n.toNat? with
    | some s, some n =>
      let e := Model.epoch ⟨s, n⟩ % 2 ^ 64
      s!"e={e} b={e} p={e} t={e}"
    | _, _ => "bad-op"
  | ["desc", r, v] =>
    match r.toNat?.bind routineOf, parseNat v with
    | some r, some v =>
      let st := Model.describe r v
      let sp := Spec.descText (specDescTable r) n!"None" v
      (if st.overflow then "overflow" else s!"len={st.text.length} text={textToString st.text}") ++ s!" ;; spec={textToString sp}"
    | _, _ => "bad-op"
  | "descrange" :: r :: extra :: lo :: hi :: bits =>
    match r.toNat?.bind routineOf, parseNat extra, lo.toNat?, hi.toNat? with
    | some r, some extra, some lo, some hi => descRange r extra lo hi (bits.filterMap String.toNat?)
    | _, _, _, _ => "bad-op"
  | ["it", h] =>
    match ofHex h with
    | some bs =>
      let sp := if Spec.firstFits bs then showElems (Spec.visible (Spec.parseAt bs)) else "refuse"
      showOutcome showElems (Model.reported bs) ++ " ;; spec=" ++ sp
    | none => "bad-op"
  | ["tg", ops] =>
    match (ops.splitOn ",").mapM parseTagOp with
    | some ops => runTagOps ops
    | none => "bad-op"
  | ["tgd", ops] => runTagOpsD (ops.splitOn ",")
  | ["tgl", ops] =>
    match (ops.splitOn ",").mapM parseTagOp with
    | some ops =>
      let sp := match refHistory ops [] with
        | some es => let b := Spec.encode es; s!"ends-with final={b.length}/{toHex b}"
        | none => "any"
      runTagOpsL ops ++ " ;; spec=" ++ sp
    | none => "bad-op"
  | "tgchkf" :: ops :: "@" :: rest =>
    match (ops.splitOn ",").mapM parseTagOp with
    | some ops => tagCheck ops ((" ".intercalate rest).splitOn " | ") true
    | none => "bad-op"
  | "tgchk" :: ops :: "@" :: rest =>
    match (ops.splitOn ",").mapM parseTagOp with
    | some ops => tagCheck ops ((" ".intercalate rest).splitOn " | ")
    | none => "bad-op"
  | ["crc", h] =>
    match ofHex h with
    | some bs =>
      let c := Model.crc32 bs
      let m := match Model.frameVerify bs with
        | .ok v => showCrc c (leBytes 4 (Model.calculateFcs bs).toNat) v
        | .err e => s!"err {e}"
        | .fault f => s!"FAULT {repr f}"
      let sc := Spec.crc32 bs
      let sv := if 4 ≤ bs.length ∧ bs.drop (bs.length - 4) = Spec.fcsOctets (bs.take (bs.length - 4)) then 1 else 0
      m ++ " ;; spec=" ++ showCrc sc (Spec.fcsOctets bs) sv
    | none => "bad-op"
  | ["rtp", h] =>
    match ofHex h with
    | some bs => showOutcome (fun i => "ok " ++ showRtInfo i) (Model.parseRadiotapInfo bs) ++ " ;; spec=" ++ specRtp bs
    | none => "bad-op"
  | ["version"] => "version=verif ;; spec=version=verif"
  | ["ie", "rsn", h] =>
    match ofHex h with
    | some el =>
      let m := match Model.getRsnInfo el with
        | .ok i => "ok " ++ showRsn i.version (mSuite i.group) (i.pairwise.map mSuite) (i.akms.map mSuite) i.caps
        | .err c => s!"err {c}"
        | .fault f => s!"FAULT {repr f}"
      let sp := match Spec.rsnDecode el with
        | some d => "ok " ++ showRsn d.version (sSuite d.group) (d.pairwise.map sSuite) (d.akms.map sSuite) d.caps
        | none => "refuse"
      m ++ " ;; spec=" ++ sp
    | none => "bad-op"
  | ["ie", "wpa", h] =>
    match ofHex h with
    | some el =>
      let m := match Model.getWpaInfo el with
        | .ok i => "ok " ++ showWpa i.version (mSuite i.multicast) (i.unicast.map mSuite) (i.akms.map mSuite)
        | .err c => s!"err {c}"
        | .fault f => s!"FAULT {repr f}"
      let sp := match Spec.wpaDecode el with
        | some d => "ok " ++ showWpa d.version (sSuite d.multicast) (d.unicast.map sSuite) (d.akms.map sSuite)
        | none => "refuse"
      m ++ " ;; spec=" ++ sp
    | none => "bad-op"
  | ["rssi", h] =>
    match ofHex h with
    | some bs =>
      let sg (v : Nat) : Int := if v ≥ 128 then (v : Int) - 256 else v
      let m := match Model.parseRssi bs with
        | .ok v => s!"rssi={sg v}"
        | .err c => s!"err {c}"
        | .fault f => s!"FAULT {repr f}"
      let sp := if Model.rssiCovered bs then
          match Spec.rtFields bs with
          | some (itLen, fields) => s!"rssi={sg (Spec.rtValues bs itLen fields 16).signal}"
          | none => "any"
        else "any"
      m ++ " ;; spec=" ++ sp
    | none => "bad-op"
  | ["rtg", kvs] =>
    let g := rtGenOf (parseKV kvs)
    match Model.createRadiotap g with
    | .ok hdr =>
      let back := match Model.parseRadiotapInfo hdr with
        | .ok i => showRtInfo i
        | .err c => s!"err{c}"
        | .fault f => s!"FAULT {repr f}"
      let sp := if g.present &&& (2^32 - 1 - Spec.carriedMask) == 0 then
          let e := Spec.rtEncode (rtDescOf g)
          s!"len={e.length} hdr={toHex e} back={rtBackOf g e.length}"
        else "any"
      s!"len={hdr.length} hdr={toHex hdr} back={back} ;; spec={sp}"
    | .err c => s!"err {c} ;; spec=any"
    | .fault f => s!"FAULT {repr f} ;; spec=any"
  | "gen" :: kind :: rest =>
    match gkindOf kind with
    | some (mk, sk) =>
      let kv := kvOf rest
      let a := gargsOf kv
      let ops := (kv.lookup "ops").getD "-"
      let edits := if ops == "-" then some [] else (ops.splitOn ",").mapM parseGEdit
      let bufLen := (kv.lookup "buf").bind parseNat
      match edits with
      | some edits =>
        let ff := (kv.lookup "fcflags").bind parseNat
        runGen mk a edits bufLen ff ++ " ;; spec=" ++ specGen mk sk a edits bufLen ff
      | none => "bad-op"
    | none => "bad-op"
  | ["rtgrange", lo, hi] =>
    match parseNat lo, parseNat hi with
    | some lo, some hi => rtgRange lo hi ++ s!" ;; spec=any"
    | _, _ => "bad-op"
  | "rmac" :: rest =>
    let kv := kvOf rest
    let pfx := match kv.lookup "pfx" with
      | some "none" | none => none
      | some h => ofHex h
    let m := randomMac pfx (kvNat kv "mode") (kvHex kv "rnd")
    let sp := match pfx with
      | some p => s!"prefix {toHex (pad p 3)}"
      | none => "six"
    s!"mac={toHex m} calls=1 ;; spec={sp}"
  | ["tagdump", num, h, blen] =>
    match num.toNat?, ofHex h, blen.toNat? with
    | some num, some d, some blen =>
      let tag := Model.createTag num d
      let buf := List.replicate blen (0xA5 : UInt8)
      let enc : Bytes := tag.num :: tag.len :: d.take tag.len.toNat
      let sp := if blen < enc.length then s!"create={2 + d.length} dump=err touched=0"
                else s!"create={2 + d.length} dump={enc.length}/{toHex enc} touched=0"
      let m := match Model.dumpTag tag buf with
        | .ok (r, after) =>
          if r < 0 then s!"create={2 + d.length} dump=err touched={if after == buf then 0 else 1}"
          else s!"create={2 + d.length} dump={r}/{toHex (after.take r.toNat)} touched={if after.drop r.toNat == buf.drop r.toNat then 0 else 1}"
        | .err c => s!"err {c}"
        | .fault f => s!"FAULT {repr f}"
      m ++ " ;; spec=" ++ sp
    | _, _, _ => "bad-op"
  | ["cls", rt, h] =>
    match ofHex h with
    | some bs => showOutcome showFrame (Model.classify (rt != "0") bs) ++ " ;; spec=" ++ specCls (rt != "0") bs
    | none => "bad-op"
  | ["mp", rt, h] =>
    match ofHex h with
    | some bs => stepMp (rt != "0") bs
    | none => "bad-op"
  | ["eap", rt, h] =>
    match ofHex h with
    | some bs => stepEap (rt != "0") bs
    | none => "bad-op"
  | "alloc" :: k :: fromOn :: _fill :: inner =>
    stepAlloc (if k == "none" then none else k.toNat?) (fromOn == "1") inner
  | ["zerofree"] => "ok ;; spec=ok"
  | ["spec-ieee", kind] =>
    match specKinds.lookup kind with
    | some t => dumpTable t
    | none => "bad-op"
  | _ => "bad-op"

partial def loop (h : IO.FS.Stream) (out : IO.FS.Stream) : IO Unit := do
  let line ← h.getLine
  if line.isEmpty then return ()
  out.putStrLn (step line)
  loop h out

def main : IO Unit := do
  let out ← IO.getStdout
  loop (← IO.getStdin) out
  out.flush
