import LWV.GenTypes
import LWV.Lemmas.Assoc
import LWV.Props.C19
