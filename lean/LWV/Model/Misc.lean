import LWV.Basic
/-
Model of core/core.c `libwifi_random_mac`: the random source is a parameter — it returns how
many octets it delivered (possibly fewer than requested, or none on failure).
-/
namespace LWV.Model
open LWV

/-- a `getrandom` call: asked for `n` octets, delivers a prefix of its supply -/
def getrandom (supply : Bytes) (n : Nat) : Bytes := supply.take n

/-- `libwifi_random_mac(buf, prefix)`: the six octets of `buf` afterwards -/
def randomMac (pfx : Option Bytes) (supply : Bytes) : Bytes :=
  match pfx with
  | some p =>
    let p3 := (p ++ [0, 0, 0]).take 3
    let r := getrandom supply 3
    p3 ++ r ++ List.replicate (3 - r.length) 0
  | none =>
    let r := getrandom supply 6
    r ++ List.replicate (6 - r.length) 0

end LWV.Model
