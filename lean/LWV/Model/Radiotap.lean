import LWV.Basic
import LWV.Gen.Tables
import LWV.Gen.Enums
/-
Model of core/radiotap/radiotap.c (the vendored iterator), parse/misc/radiotap.c and
gen/misc/radiotap.c.  Pointers are offsets from the start of the buffer (= `_rtheader`).
-/
namespace LWV.Model
open LWV

def le16At (what : String) (bs : Bytes) (i : Nat) : Outcome Nat := do
  let a ← rd what bs i
  let b ← rd what bs (i + 1)
  .ok (le16 a b)

def le32At (what : String) (bs : Bytes) (i : Nat) : Outcome Nat := do
  let s ← rdSlice what bs i 4
  .ok (leNat s)

def le64At (what : String) (bs : Bytes) (i : Nat) : Outcome Nat := do
  let s ← rdSlice what bs i 8
  .ok (leNat s)

/-- alignment and size of field `i` of the radiotap namespace (regenerated table) -/
def rtAlign (i : Nat) : Nat := (Gen.rtapSizes.getD i (0, 0)).1
def rtSize (i : Nat) : Nat := (Gen.rtapSizes.getD i (0, 0)).2

structure RtIt where
  maxLength : Nat
  argIndex : Nat
  shifter : Nat              -- _bitmap_shifter (32 bits)
  arg : Nat                  -- _arg
  nextNsData : Nat           -- _next_ns_data; the parser zero-initialises the iterator: NULL - header is a huge offset (`wildOffset`)
  nextBitmap : Nat           -- _next_bitmap
  resetOnExt : Bool
  inRadiotapNs : Bool        -- current_namespace == &radiotap_ns (otherwise NULL: no vendor namespaces are registered)
  thisArg : Nat
  thisArgIndex : Nat
  thisArgSize : Nat
  deriving Repr, DecidableEq

/-- offset standing for `(unsigned long) NULL - (unsigned long) header`: larger than any length -/
def wildOffset : Nat := 2 ^ 40

/-- `ieee80211_radiotap_iterator_init(&it, bs, maxLength, NULL)` -/
def rtInit (bs : Bytes) (maxLength : Nat) : Outcome RtIt :=
  if maxLength < 8 then .err (-EINVAL)
  else do
    let ver ← rd "radiotap" bs 0
    if ver.toNat ≠ 0 then .err (-EINVAL)
    else do
      let itLen ← le16At "radiotap" bs 2
      if maxLength < itLen then .err (-EINVAL)
      else do
        let present ← le32At "radiotap" bs 4
        let it : RtIt := { maxLength := itLen, argIndex := 0, shifter := present, arg := 8, nextNsData := wildOffset,
                           nextBitmap := 8, resetOnExt := false, inRadiotapNs := true,
                           thisArg := 8, thisArgIndex := 0, thisArgSize := 0 }
        if present.testBit 31 then
          if it.arg + 4 > it.maxLength then .err (-EINVAL)
          else
            -- skip the chain of extended present words
            let rec skip (fuel : Nat) (arg : Nat) : Outcome Nat :=
              match fuel with
              | 0 => .fault (.fuel "rtInit.skip")
              | fuel + 1 => do
                let w ← le32At "radiotap" bs arg
                if w.testBit 31 then
                  let arg := arg + 4
                  if arg + 4 > itLen then .err (-EINVAL) else skip fuel arg
                else .ok (arg + 4)
            do
              let a ← skip (bs.length + 1) it.arg
              .ok { it with arg := a, thisArg := a }
        else .ok it

inductive RtNext where
  | hit (it : RtIt)
  | stop (code : Int)        -- -ENOENT (end) or -EINVAL (malformed)
  deriving Repr

def ENOENT : Int := 2

/-- one trip through the `while (1)` body of `ieee80211_radiotap_iterator_next` that does not
return: advance to the next bitmap bit -/
def nextEntry (it : RtIt) : RtIt := { it with shifter := it.shifter / 2, argIndex := it.argIndex + 1 }

/-- `ieee80211_radiotap_iterator_next` -/
def rtNext (bs : Bytes) : Nat → RtIt → Outcome RtNext
  | 0, _ => .fault (.fuel "rtNext")
  | fuel + 1, it =>
    let bit := it.argIndex % 32
    let present := it.shifter % 2 = 1
    if bit = 31 ∧ ¬ present then .ok (.stop (-ENOENT))
    else if ¬ present then rtNext bs fuel (nextEntry it)
    else
      -- alignment / size of the data
      let r : Option (Nat × Nat) × Bool :=   -- (some (align,size) | none = give up on namespace), stopENOENT
        if bit = 29 ∨ bit = 31 then (some (1, 0), false)
        else if bit = 30 then (some (2, 6), false)
        else if ¬ it.inRadiotapNs ∨ it.argIndex ≥ Gen.rtapNBits then
          (none, it.inRadiotapNs)
        else
          let a := rtAlign it.argIndex
          -- an undefined field of the radiotap namespace has no known size: the iteration ends (-ENOENT)
          if a = 0 then (none, true) else (some (a, rtSize it.argIndex), false)
      if r.2 then .ok (.stop (-ENOENT))
      else match r.1 with
      | none =>
        -- skip all subsequent data, give up on this namespace
        rtNext bs fuel (nextEntry { it with arg := it.nextNsData, inRadiotapNs := false })
      | some (align, size) =>
        let pad := it.arg % align          -- align is a power of two: (arg - hdr) & (align-1)
        let arg := if pad ≠ 0 then it.arg + (align - pad) else it.arg
        if bit = 30 then
          if arg + size > it.maxLength then .ok (.stop (-EINVAL))
          else do
            let vnslen ← le16At "radiotap" bs (arg + 4)
            -- no vendor namespaces registered: current_namespace = NULL, raw skip
            let size := size + vnslen
            let it1 := { it with nextNsData := arg + 6 + vnslen, inRadiotapNs := false,
                                 thisArgIndex := 30, thisArg := arg, thisArgSize := size, arg := arg + size }
            if it1.arg > it.maxLength then .ok (.stop (-EINVAL))
            else .ok (.hit (nextEntry { it1 with resetOnExt := true }))
        else
          let it1 := { it with thisArgIndex := it.argIndex, thisArg := arg, thisArgSize := size, arg := arg + size }
          if it1.arg > it.maxLength then .ok (.stop (-EINVAL))
          else if bit = 29 then
            rtNext bs fuel (nextEntry { it1 with resetOnExt := true, inRadiotapNs := true })
          else if bit = 31 then do
            let w ← le32At "radiotap" bs it.nextBitmap
            rtNext bs fuel { it1 with shifter := w, nextBitmap := it.nextBitmap + 4,
                                      argIndex := if it.resetOnExt then 0 else it.argIndex + 1, resetOnExt := false }
          else .ok (.hit (nextEntry it1))

/-- `struct libwifi_radiotap_info`, the fields the parser fills -/
structure RtInfo where
  present : Nat := 0
  chanFreq : Nat := 0
  chanFlags : Nat := 0
  chanCenter : Nat := 0
  chanBand : Nat := 0
  rateRaw : Nat := 0
  antennaCount : Nat := 0
  antennas : List (Nat × Nat) := []     -- (antenna_number, signal) for the first `antennaCount` slots
  signal : Nat := 0
  flags : Nat := 0
  rxFlags : Nat := 0
  txFlags : Nat := 0
  mcsKnown : Nat := 0
  mcsFlags : Nat := 0
  mcsMcs : Nat := 0
  txPower : Nat := 0
  tsTimestamp : Nat := 0
  tsAccuracy : Nat := 0
  tsUnit : Nat := 0
  tsFlags : Nat := 0
  rtsRetries : Nat := 0
  dataRetries : Nat := 0
  length : Nat := 0
  deriving Repr, DecidableEq

/-- band and channel number derived from the frequency, as in the parser -/
def bandCenter (freq : Nat) : Nat × Nat :=
  if 2412 ≤ freq ∧ freq ≤ 2484 then (Gen.m_LIBWIFI_RADIOTAP_BAND_2GHZ, if freq = 2484 then 14 else (freq - 2407) / 5)
  else if 5160 ≤ freq ∧ freq ≤ 5885 then (Gen.m_LIBWIFI_RADIOTAP_BAND_5GHZ, ((freq - 5000) / 5) % 256)
  else if 5955 ≤ freq ∧ freq ≤ 7115 then (Gen.m_LIBWIFI_RADIOTAP_BAND_6GHZ, ((freq - 5950) / 5) % 256)
  else (0, 0)

def setNth {α} (l : List α) (i : Nat) (v : α) : List α := l.set i v

/-- the `switch (it.this_arg_index)` of `libwifi_parse_radiotap_info` -/
def rtField (bs : Bytes) (it : RtIt) (st : RtInfo × Bool) : Outcome (RtInfo × Bool) :=
  let info := st.1
  let skippedAntenna := st.2
  let a := it.thisArg
  match it.thisArgIndex with
  | 3 => do
    let freq ← le16At "radiotap" bs a
    let fl ← le16At "radiotap" bs (a + 2)
    let bc := bandCenter freq
    .ok ({ info with chanFreq := freq, chanFlags := fl, chanBand := info.chanBand ||| bc.1,
                     chanCenter := if bc.1 = 0 then info.chanCenter else bc.2 }, skippedAntenna)
  | 2 => do let v ← rd "radiotap" bs a; .ok ({ info with rateRaw := v.toNat }, skippedAntenna)
  | 5 => do
    let v ← rd "radiotap" bs a
    if ¬ skippedAntenna then .ok ({ info with signal := v.toNat }, true)
    else if info.antennaCount < Gen.m_LIBWIFI_MAX_RADIOTAP_ANTENNAS then
      .ok ({ info with antennas := info.antennas ++ [(info.antennaCount, v.toNat)], antennaCount := info.antennaCount + 1 }, skippedAntenna)
    else .ok (info, skippedAntenna)
  | 11 => do
    let v ← rd "radiotap" bs a
    if info.antennaCount > 0 then
      let i := info.antennaCount - 1
      .ok ({ info with antennas := setNth info.antennas i (v.toNat, (info.antennas.getD i (0, 0)).2) }, skippedAntenna)
    else .ok (info, skippedAntenna)
  | 1 => do let v ← rd "radiotap" bs a; .ok ({ info with flags := v.toNat }, skippedAntenna)
  | 14 => do let v ← le16At "radiotap" bs a; .ok ({ info with rxFlags := v }, skippedAntenna)
  | 15 => do let v ← le16At "radiotap" bs a; .ok ({ info with txFlags := v }, skippedAntenna)
  | 19 => do
    let k ← rd "radiotap" bs a
    let f ← rd "radiotap" bs (a + 1)
    let m ← rd "radiotap" bs (a + 2)
    .ok ({ info with mcsKnown := k.toNat, mcsFlags := f.toNat, mcsMcs := m.toNat }, skippedAntenna)
  | 10 => do let v ← rd "radiotap" bs a; .ok ({ info with txPower := v.toNat }, skippedAntenna)
  | 22 => do
    let t ← le64At "radiotap" bs a
    let acc ← le16At "radiotap" bs (a + 8)
    let u ← rd "radiotap" bs (a + 10)
    let f ← rd "radiotap" bs (a + 11)
    .ok ({ info with tsTimestamp := t, tsAccuracy := acc, tsUnit := u.toNat, tsFlags := f.toNat }, skippedAntenna)
  | 16 => do let v ← rd "radiotap" bs a; .ok ({ info with rtsRetries := v.toNat }, skippedAntenna)
  | 17 => do let v ← rd "radiotap" bs a; .ok ({ info with dataRetries := v.toNat }, skippedAntenna)
  | _ => .ok st

/-- the `while (!ret)` loop -/
def rtLoop (bs : Bytes) : Nat → RtIt → RtInfo × Bool → Outcome RtInfo
  | 0, _, _ => .fault (.fuel "rtLoop")
  | fuel + 1, it, st => do
    let st ← rtField bs it st
    match ← rtNext bs (40 * (bs.length + 2)) it with
    | .stop _ => .ok st.1
    | .hit it' => rtLoop bs fuel it' st

/-- `libwifi_parse_radiotap_info(info, bs, bs.length)` -/
def parseRadiotapInfo (bs : Bytes) : Outcome RtInfo :=
  if bs.length < 8 then .err (-EINVAL)
  else do
    let itLen ← le16At "radiotap" bs 2
    if itLen > 255 ∨ itLen < 8 then .err (-EINVAL)
    else do
      let it ← rtInit bs bs.length
      let present ← le32At "radiotap" bs 4
      -- the C enters the loop with the freshly initialised iterator: this_arg_index is 0 (TSFT, not
      -- handled by the switch), so the first trip only calls `next`
      rtLoop bs (32 * (bs.length + 2)) it ({ length := itLen, present := 0 }, false)

end LWV.Model

namespace LWV.Model
open LWV

/-- the fields of `struct libwifi_radiotap_info` the generator reads -/
structure RtGen where
  present : Nat := 0
  chanFreq : Nat := 0
  chanFlags : Nat := 0
  rateRaw : Nat := 0
  signal : Nat := 0
  antennaCount : Nat := 0
  ant0Number : Nat := 0
  ant0Signal : Nat := 0
  flags : Nat := 0
  rxFlags : Nat := 0
  txFlags : Nat := 0
  mcsKnown : Nat := 0
  mcsFlags : Nat := 0
  mcsMcs : Nat := 0
  txPower : Nat := 0
  tsTimestamp : Nat := 0
  tsAccuracy : Nat := 0
  tsUnit : Nat := 0
  tsFlags : Nat := 0
  rtsRetries : Nat := 0
  dataRetries : Nat := 0
  deriving Repr, DecidableEq

/-- bytes the generator emits for one present field (after padding) -/
def rtGenField (g : RtGen) : Nat → Bytes
  | 3 => leBytes 2 g.chanFreq ++ leBytes 2 g.chanFlags
  | 2 => leBytes 1 g.rateRaw
  | 5 => leBytes 1 g.signal
  | 11 => (List.range g.antennaCount).flatMap (fun _ => leBytes 1 g.ant0Number ++ leBytes 1 g.ant0Signal)
  | 1 => leBytes 1 g.flags
  | 14 => leBytes 2 g.rxFlags
  | 15 => leBytes 2 g.txFlags
  | 19 => leBytes 1 g.mcsKnown ++ leBytes 1 g.mcsFlags ++ leBytes 1 g.mcsMcs
  | 10 => leBytes 1 g.txPower
  | 22 => leBytes 8 g.tsTimestamp ++ leBytes 2 g.tsAccuracy ++ leBytes 1 g.tsUnit ++ leBytes 1 g.tsFlags
  | 16 => leBytes 1 g.rtsRetries
  | 17 => leBytes 1 g.dataRetries
  | _ => []

def rtStagingCap : Nat := Gen.m_LIBWIFI_MAX_RADIOTAP_LEN - 8

/-- the field loop of `libwifi_create_radiotap` over the staging area `rtap_data` -/
def rtGenLoop (g : RtGen) : List Nat → Bytes → Outcome Bytes
  | [], data => .ok data
  | field :: rest, data =>
    if g.present.testBit field then
      let align := rtAlign field
      if align = 0 then rtGenLoop g rest data      -- the table does not define the field: nothing can be placed
      else
        let padding := (align - data.length % align) % align
        let data1 := data ++ List.replicate padding 0 ++ rtGenField g field
        if data1.length > rtStagingCap then .fault (.oobWrite "rtap_data" data1.length rtStagingCap)
        else rtGenLoop g rest data1
    else rtGenLoop g rest data

/-- `libwifi_create_radiotap`: the header bytes written to the caller's buffer -/
def createRadiotap (g : RtGen) : Outcome Bytes := do
  let data ← rtGenLoop g (List.range Gen.rtapNBits) []
  .ok ([0, 0] ++ leBytes 2 (8 + data.length) ++ leBytes 4 g.present ++ data)

end LWV.Model
