import LWV.Model.Tags
import LWV.Model.Epoch
import LWV.Gen.Enums
import LWV.Gen.Layout
/-
Model of the frame generators (gen/management/*.c, gen/control/*.c): `create_*`, the edit
helpers, `get_*_length` and `dump_*`.  Objects are modelled by the bytes of their wire-relevant
members; enumerators and defaults come from the regenerated `Gen` tables.
-/
namespace LWV.Model
open LWV

inductive GKind
  | beacon | probeReq | probeResp | assocReq | assocResp | reassocReq | reassocResp | auth | deauth | disassoc
  | action | actionNoAck | timingAd | atim | rts | cts
  deriving DecidableEq, Repr

structure GArgs where
  a1 : Bytes := List.replicate 6 0
  a2 : Bytes := List.replicate 6 0
  a3 : Bytes := List.replicate 6 0
  ap : Bytes := List.replicate 6 0
  ssid : Bytes := []
  ch : Nat := 0
  alg : Nat := 0
  seq : Nat := 0
  status : Nat := 0
  reason : Nat := 0
  cat : Nat := 0
  dur : Nat := 0
  cap : Nat := 0
  tv : Bytes := List.replicate 10 0
  te : Bytes := List.replicate 5 0
  tu : Bytes := List.replicate 1 0
  country : Bytes := List.replicate 3 0
  mrp : Nat := 0
  mtx : Nat := 0
  txu : Nat := 0
  nf : Nat := 0
  clk : Timespec := ⟨0, 0⟩
  deriving Repr

/-- a C string argument: the bytes before the first NUL -/
def cstr (s : Bytes) : Bytes := s.takeWhile (· ≠ 0)

structure GObj where
  kind : GKind
  /-- frame-control octets as laid out by the bit-fields (version:2 type:2 subtype:4, then flags) -/
  fc : Bytes
  duration : Nat := 0
  a1 : Bytes
  a2 : Bytes
  a3 : Bytes
  fixed : Bytes := []
  tags : Tags := Tags.empty
  detail : Bytes := []
  detailLen : Nat := 0
  deriving Repr

def enumVal (l : List (Name × Int)) (n : Name) : Nat := ((l.lookup n).getD 0).toNat

def mgmtType : Nat := enumVal Gen.enum_libwifi_frame_type n!"TYPE_MANAGEMENT"
def ctrlType : Nat := enumVal Gen.enum_libwifi_frame_type n!"TYPE_CONTROL"

def GKind.subtype : GKind → Nat
  | .beacon => enumVal Gen.enum_libwifi_mgmt_subtypes n!"SUBTYPE_BEACON"
  | .probeReq => enumVal Gen.enum_libwifi_mgmt_subtypes n!"SUBTYPE_PROBE_REQ"
  | .probeResp => enumVal Gen.enum_libwifi_mgmt_subtypes n!"SUBTYPE_PROBE_RESP"
  | .assocReq => enumVal Gen.enum_libwifi_mgmt_subtypes n!"SUBTYPE_ASSOC_REQ"
  | .assocResp => enumVal Gen.enum_libwifi_mgmt_subtypes n!"SUBTYPE_ASSOC_RESP"
  | .reassocReq => enumVal Gen.enum_libwifi_mgmt_subtypes n!"SUBTYPE_REASSOC_REQ"
  | .reassocResp => enumVal Gen.enum_libwifi_mgmt_subtypes n!"SUBTYPE_REASSOC_RESP"
  | .auth => enumVal Gen.enum_libwifi_mgmt_subtypes n!"SUBTYPE_AUTH"
  | .deauth => enumVal Gen.enum_libwifi_mgmt_subtypes n!"SUBTYPE_DEAUTH"
  | .disassoc => enumVal Gen.enum_libwifi_mgmt_subtypes n!"SUBTYPE_DISASSOC"
  | .action => enumVal Gen.enum_libwifi_mgmt_subtypes n!"SUBTYPE_ACTION"
  | .actionNoAck => enumVal Gen.enum_libwifi_mgmt_subtypes n!"SUBTYPE_ACTION_NOACK"
  | .timingAd => enumVal Gen.enum_libwifi_mgmt_subtypes n!"SUBTYPE_TIME_ADV"
  | .atim => enumVal Gen.enum_libwifi_mgmt_subtypes n!"SUBTYPE_ATIM"
  | .rts => enumVal Gen.enum_libwifi_control_subtypes n!"SUBTYPE_RTS"
  | .cts => enumVal Gen.enum_libwifi_control_subtypes n!"SUBTYPE_CTS"

def GKind.isCtrl : GKind → Bool
  | .rts | .cts => true
  | _ => false

/-- the two frame-control octets after `frame_control.type = t; frame_control.subtype = s` on a
zeroed header -/
def fcBytes (ty st : Nat) : Bytes := [UInt8.ofNat ((ty % 4) * 4 + (st % 16) * 16), 0]

def mac (b : Bytes) : Bytes := (b ++ List.replicate 6 0).take 6

def tagSsid : Nat := enumVal Gen.enum_libwifi_tag_numbers n!"TAG_SSID"
def tagDs : Nat := enumVal Gen.enum_libwifi_tag_numbers n!"TAG_DS_PARAMETER"
def tagSuppRates : Nat := enumVal Gen.enum_libwifi_tag_numbers n!"TAG_SUPP_RATES"
def tagTimeAdv : Nat := enumVal Gen.enum_libwifi_tag_numbers n!"TAG_TIME_ADVERTISEMENT"

/-- fixed parameters as `create_*` leaves them in memory -/
def fixedOf (k : GKind) (a : GArgs) : Bytes :=
  let apCaps := leBytes 2 Gen.m_LIBWIFI_DEFAULT_AP_CAPABS
  let ts := leBytes 8 (epoch a.clk % 2 ^ 64)
  match k with
  | .beacon => ts ++ leBytes 2 Gen.m_LIBWIFI_DEFAULT_BEACON_INTERVAL ++ apCaps
  | .probeResp => ts ++ leBytes 2 100 ++ apCaps
  | .assocReq => apCaps ++ leBytes 2 Gen.m_LIBWIFI_DEFAULT_LISTEN_INTERVAL
  | .reassocReq => apCaps ++ leBytes 2 Gen.m_LIBWIFI_DEFAULT_LISTEN_INTERVAL ++ mac a.ap
  | .assocResp | .reassocResp =>
    apCaps ++ leBytes 2 (enumVal Gen.enum_libwifi_status_codes n!"STATUS_SUCCESS") ++ leBytes 2 0
  | .auth => leBytes 2 a.alg ++ leBytes 2 a.seq ++ leBytes 2 a.status
  | .deauth | .disassoc => leBytes 2 a.reason
  | .action | .actionNoAck => leBytes 1 a.cat
  | .timingAd =>
    ts ++ leBytes 1 Gen.m_LIBWIFI_DEFAULT_BEACON_INTERVAL ++ leBytes 2 Gen.m_LIBWIFI_DEFAULT_BEACON_INTERVAL ++ apCaps
      ++ (a.country ++ [0, 0, 0]).take 3 ++ leBytes 2 a.mrp ++ leBytes 1 a.mtx ++ leBytes 1 a.txu ++ leBytes 1 a.nf
  | _ => []

def timingElement (a : GArgs) : Bytes :=
  let c := a.cap % 256
  let tv := (a.tv ++ List.replicate 10 0).take 10
  let te := (a.te ++ List.replicate 5 0).take 5
  let tu := (a.tu ++ List.replicate 1 0).take 1
  leBytes 1 c ++ (if c = 1 then tv ++ te else if c = 2 then tv ++ te ++ tu else [])

/-- value of an `Outcome (Int × Tags)` step, keeping the state on a non-zero return -/
def tagStep (t : Tags) (f : Tags → Outcome (Int × Tags)) : Outcome (Int × Tags) := f t

/-- the tag edits `create_*` performs; returns the create function's return value and the list -/
def initialTags (k : GKind) (a : GArgs) : Outcome (Int × Tags) :=
  let e := Tags.empty
  let ssid := cstr a.ssid
  let chan : Bytes := [UInt8.ofNat a.ch]
  match k with
  | .beacon | .probeResp => do
    let (r, t) ← setTag e tagSsid ssid
    if r ≠ 0 then .ok (r, t) else setTag t tagDs chan
  | .probeReq | .assocReq | .reassocReq => do
    let t ← quickAddTag e tagSsid ssid
    let t ← quickAddTag t tagDs chan
    .ok (0, t)
  | .assocResp => do
    let (_, t) ← setTag e tagDs chan           -- the result of the setter is not examined
    let t ← quickAddTag t tagSuppRates Gen.s_LIBWIFI_DEFAULT_SUPP_RATES
    .ok (0, t)
  | .reassocResp => setTag e tagDs chan
  | .timingAd => do
    let t ← quickAddTag e tagTimeAdv (timingElement a)
    .ok (0, t)
  | _ => .ok (0, e)

/-- `libwifi_create_<kind>(…)`: (return value, object) -/
def create (k : GKind) (a : GArgs) : Outcome (Int × GObj) := do
  let (r, t) ← initialTags k a
  let o : GObj :=
    match k with
    | .rts => { kind := k, fc := fcBytes ctrlType k.subtype, duration := a.dur % 65536, a1 := mac a.a2, a2 := mac a.a1, a3 := [] }
    | .cts => { kind := k, fc := fcBytes ctrlType k.subtype, duration := a.dur % 65536, a1 := mac a.a1, a2 := [], a3 := [] }
    | _ => { kind := k, fc := fcBytes mgmtType k.subtype, a1 := mac a.a1, a2 := mac a.a2, a3 := mac a.a3, fixed := fixedOf k a, tags := t }
  .ok (r, o)

def GObj.hasTags (o : GObj) : Bool :=
  match o.kind with
  | .action | .actionNoAck | .atim | .rts | .cts => false
  | _ => true

/-- header bytes as they sit in memory -/
def GObj.header (o : GObj) : Bytes :=
  if o.kind.isCtrl then o.fc ++ leBytes 2 o.duration ++ o.a1 ++ o.a2
  else o.fc ++ leBytes 2 o.duration ++ o.a1 ++ o.a2 ++ o.a3 ++ [0, 0]

/-- `libwifi_get_<kind>_length` (sizeof for ATIM/RTS/CTS) -/
def GObj.length (o : GObj) : Nat :=
  match o.kind with
  | .action | .actionNoAck => Gen.sz_libwifi_mgmt_unordered_frame_header + 1 + o.detailLen
  | .atim => Gen.sz_libwifi_atim
  | .rts => Gen.sz_libwifi_rts
  | .cts => Gen.sz_libwifi_cts
  | _ => Gen.sz_libwifi_mgmt_unordered_frame_header + o.fixed.length + o.tags.length

/-- what `dump_<kind>` copies, in order -/
def GObj.encoding (o : GObj) : Outcome Bytes :=
  match o.kind with
  | .action | .actionNoAck => do
    let d ← rdSlice "detail" o.detail 0 o.detailLen
    .ok (o.header ++ o.fixed ++ d)
  | .atim | .rts | .cts => .ok o.header
  | _ => do
    let t ← rdSlice "tags" o.tags.params 0 o.tags.length
    .ok (o.header ++ o.fixed ++ t)

/-- `libwifi_dump_<kind>(obj, buf, buf.length)`: (return value, buffer afterwards) -/
def dumpInto (o : GObj) (buf : Bytes) : Outcome (Int × Bytes) :=
  if o.length > buf.length then .ok (-EINVAL, buf)
  else do
    let e ← o.encoding
    if e.length > buf.length then .fault (.oobWrite "dump buffer" e.length buf.length)
    else .ok (e.length, e ++ buf.drop e.length)

/-- the structs are public and there is no setter for the frame-control flag octet: a caller stores into it directly
(`obj.frame_header.frame_control.flags`); the serialisers copy the header as it is -/
def setFcFlags (o : GObj) (n : Nat) : GObj := { o with fc := [o.fc.getD 0 0, UInt8.ofNat n] }

inductive GEdit
  | tag (op : TagOp)
  | detail (data : Bytes)
  | freeDetail
  deriving Repr

/-- one edit call on an object: (return value, object) -/
def GObj.edit (o : GObj) : GEdit → Outcome (Int × GObj)
  | .tag op =>
    -- setters exist only for some kinds; the harness applies only those
    match stepTag o.tags op with
    | .ok (r, t) => .ok (r, { o with tags := t })
    | .err c => .err c
    | .fault f => .fault f
  | .detail d =>
    -- libwifi_add_action_detail: (re)allocate detail_length + data_len bytes, append, 8-bit length
    if d.length = 0 then .ok (o.detailLen, o)
    else if d.length > 255 - o.detailLen then .ok (-EINVAL, o)      -- the 8-bit length could not describe it
    else
      let buf := (o.detail.take o.detailLen) ++ d
      let nl := o.detailLen + d.length
      .ok (nl, { o with detail := buf, detailLen := nl })
  | .freeDetail =>
    -- libwifi_free_action_detail: the details are gone and the object is as freshly created
    .ok (0, { o with detail := [], detailLen := 0 })

end LWV.Model
