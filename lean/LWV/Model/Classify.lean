import LWV.Model.Radiotap
import LWV.Gen.Layout
/-
Model of core/frame/frame.c `libwifi_get_wifi_frame` and parse/data/data.c `libwifi_parse_data`.
-/
namespace LWV.Model
open LWV

structure Frame where
  flags : Nat
  fc : Bytes              -- the two frame-control octets
  len : Nat               -- fi->len
  headerLen : Nat
  header : Bytes          -- first headerLen octets of the header union
  body : Bytes            -- fi->body (len - headerLen octets; none allocated when empty)
  radiotap : Option RtInfo
  deriving Repr, DecidableEq

def fcType (b0 : UInt8) : Nat := (b0.toNat / 4) % 4
def fcSubtype (b0 : UInt8) : Nat := b0.toNat / 16
def fcOrdered (b1 : UInt8) : Bool := b1.toNat / 128 = 1

def flagFcs : Nat := Gen.m_LIBWIFI_FLAGS_FCS_PRESENT
def flagQos : Nat := Gen.m_LIBWIFI_FLAGS_IS_QOS
def flagOrdered : Nat := Gen.m_LIBWIFI_FLAGS_IS_ORDERED
def flagRadiotap : Nat := Gen.m_LIBWIFI_FLAGS_RADIOTAP_PRESENT

/-- the part of `libwifi_get_wifi_frame` after the radiotap header has been dealt with:
`skip` octets of radiotap were removed from the front, `fcs` says the trailing FCS is present -/
def classifyCore (bs : Bytes) (skip : Nat) (fcs : Bool) (flags0 : Nat) (rt : Option RtInfo) : Outcome Frame :=
  let avail := bs.length - skip
  if fcs ∧ avail < 4 then .err (-EINVAL)
  else
    let dataLen := if fcs then avail - 4 else avail
    let flags1 := if fcs then flags0 ||| flagFcs else flags0
    if dataLen < 2 then .err (-EINVAL)
    else do
      let b0 ← rd "frame" bs skip
      let b1 ← rd "frame" bs (skip + 1)
      let ty := fcType b0
      let st := fcSubtype b0
      let r : Option (Nat × Nat) :=      -- (header length, flags)
        if ty = 2 then
          if Gen.qosSubtypes.contains st then some (Gen.sz_libwifi_data_qos_frame_header, flags1 ||| flagQos)
          else some (Gen.sz_libwifi_data_frame_header, flags1)
        else if ty = 0 then
          if fcOrdered b1 then some (Gen.sz_libwifi_mgmt_ordered_frame_header, flags1 ||| flagOrdered)
          else some (Gen.sz_libwifi_mgmt_unordered_frame_header, flags1)
        else if ty = 1 then some (Gen.sz_libwifi_ctrl_frame_header, flags1)
        else none
      match r with
      | none => .err (-EINVAL)
      | some (hl, flags) =>
        if dataLen < hl then .err (-EINVAL)
        else do
          let hdr ← rdSlice "frame" bs skip hl
          let body ← rdSlice "frame" bs (skip + hl) (dataLen - hl)
          .ok { flags := flags, fc := [b0, b1], len := dataLen, headerLen := hl, header := hdr, body := body, radiotap := rt }

def rtFlagFcs : Nat := 0x10   -- IEEE80211_RADIOTAP_F_FCS

/-- `libwifi_get_wifi_frame(fi, bs, bs.length, radiotap)` -/
def classify (radiotap : Bool) (bs : Bytes) : Outcome Frame :=
  if radiotap then do
    let info ← parseRadiotapInfo bs
    classifyCore bs info.length ((info.flags / rtFlagFcs) % 2 = 1) flagRadiotap (some info)
  else classifyCore bs 0 false 0 none

structure DataInfo where
  receiver : Bytes
  transmitter : Bytes
  body : Bytes
  deriving Repr, DecidableEq

/-- `libwifi_parse_data` -/
def parseData (f : Frame) : Outcome DataInfo :=
  match f.fc with
  | b0 :: _ =>
    if fcType b0 ≠ 2 then .err (-EINVAL)
    else do
      let a1 ← rdSlice "header" f.header 4 6
      let a2 ← rdSlice "header" f.header 10 6
      .ok ⟨a1, a2, f.body⟩
  | [] => .err (-EINVAL)

end LWV.Model
