import LWV.Gen.Tables
import LWV.Gen.Enums
/-
Model of the table-shaped routines.  `tagName` mirrors `libwifi_get_tag_name`: a switch over
the regenerated case list with a default.
-/
namespace LWV.Model

def tagName (n : Int) : Name := (Gen.tagNameCases.lookup n).getD Gen.tagNameDefault

end LWV.Model
