import LWV.Model.Frames
import LWV.Model.Mgmt
import LWV.Model.Eapol
/-
Allocation-aware skeletons of the API (C14, C15).  The heap is a ledger of live block ids; the
k-th allocation request fails iff `σ k`.  Every *decision* (lengths, accept / reject, contents)
is taken from the pure models; the skeletons only add the allocation events in C order.
-/
namespace LWV.Heap
open LWV LWV.Model

structure H where
  live : List Nat := []
  next : Nat := 1
  reqs : Nat := 0
  faults : Nat := 0
  bad : Nat := 0
  trace : List String := []
  deriving Repr

abbrev M := StateM H

abbrev Ptr := Option Nat

def request (σ : Nat → Bool) (tag : String) (n : Nat) : M Ptr := fun h =>
  if σ h.reqs then
    (none, { h with reqs := h.reqs + 1, faults := h.faults + 1, trace := h.trace ++ [s!"{tag}{n}=NULL"] })
  else
    (some h.next, { h with reqs := h.reqs + 1, next := h.next + 1, live := h.next :: h.live, trace := h.trace ++ [s!"{tag}{n}=ok"] })

def malloc (σ : Nat → Bool) (n : Nat) : M Ptr := request σ "m" n

def release (p : Nat) : M Unit := fun h =>
  if h.live.contains p then ((), { h with live := h.live.erase p })
  else ((), { h with bad := h.bad + 1 })

/-- `free(p)`: nothing for NULL -/
def free (p : Ptr) : M Unit :=
  match p with
  | none => pure ()
  | some id => do
    release id
    modify fun h => { h with trace := h.trace ++ ["f"] }

/-- `realloc(p, n)` with n > 0: on failure the old block stays allocated -/
def realloc (σ : Nat → Bool) (p : Ptr) (n : Nat) : M Ptr := fun h =>
  if σ h.reqs then
    (none, { h with reqs := h.reqs + 1, faults := h.faults + 1, trace := h.trace ++ [s!"r{n}=NULL"] })
  else
    let h1 := match p with
      | some id => ((release id).run h).2
      | none => h
    (some h1.next, { h1 with reqs := h1.reqs + 1, next := h1.next + 1, live := h1.next :: h1.live, trace := h1.trace ++ [s!"r{n}=ok"] })

/-! ### tagged parameters -/

structure TagsH where
  t : Tags := Tags.empty
  ptr : Ptr := none
  deriving Repr

def okOr {α} (d : α) : Outcome α → α
  | .ok a => a
  | _ => d

/-- `libwifi_add_tag` -/
def addTagH (σ : Nat → Bool) (th : TagsH) (tag : Tag) : M (Int × TagsH) := do
  let n := 2 + tag.len.toNat
  let t' := okOr th.t (addTag th.t tag)
  if th.t.length = 0 then
    match ← malloc σ n with
    | none => pure (-ENOMEM, th)
    | some p => pure (0, { t := t', ptr := some p })
  else
    match ← realloc σ th.ptr (th.t.length + n) with
    | none => pure (-ENOMEM, th)
    | some p => pure (0, { t := t', ptr := some p })

/-- `libwifi_quick_add_tag` -/
def quickAddTagH (σ : Nat → Bool) (th : TagsH) (num : Nat) (data : Bytes) : M (Int × TagsH) := do
  match ← malloc σ data.length with
  | none => pure (-ENOMEM, th)
  | some body =>
    let r ← addTagH σ th (createTag num data)
    free (some body)
    pure r

/-- `libwifi_remove_tag` -/
def removeTagH (σ : Nat → Bool) (th : TagsH) (num : Nat) : M (Int × TagsH) := do
  match findTag th.t num with
  | .ok (some e) =>
    let newLen := th.t.length - (2 + e.len)
    let t' : Tags := ⟨newLen, th.t.params.take e.off ++ th.t.params.drop (e.off + 2 + e.len)⟩
    if newLen = 0 then
      free th.ptr
      pure (0, { t := t', ptr := none })
    else
      match ← realloc σ th.ptr newLen with
      | none => pure (0, { t := t', ptr := th.ptr })       -- shrinking failed: the old block is kept
      | some p => pure (0, { t := t', ptr := some p })
  | .ok none => pure (0, th)
  | .err c => pure (c, th)
  | .fault _ => pure (-999, th)

def setTagH (σ : Nat → Bool) (th : TagsH) (num : Nat) (data : Bytes) : M (Int × TagsH) := do
  let had := th.t.length ≠ 0 ∧ okOr (-999) (checkTag th.t num) > 0
  let (r, th') ← quickAddTagH σ th num data
  if r ≠ 0 then pure (r, th')
  else if had then removeTagH σ th' num else pure (0, th')

def stepTagH (σ : Nat → Bool) (th : TagsH) : TagOp → M (Int × TagsH)
  | .add n d => quickAddTagH σ th n d
  | .remove n => removeTagH σ th n
  | .setSsid d => setTagH σ th 0 d
  | .setChannel c => setTagH σ th 3 [c]
  | .check n => pure (okOr (-999) (checkTag th.t n), th)

/-! ### generators -/

structure GObjH where
  o : GObj
  tags : TagsH := {}
  detailPtr : Ptr := none
  deriving Repr

/-- the tag edits of `create_<kind>` with the C's early returns -/
def initialTagsH (σ : Nat → Bool) (k : GKind) (a : GArgs) : M (Int × TagsH) := do
  let e : TagsH := {}
  let ssid := cstr a.ssid
  let chan : Bytes := [UInt8.ofNat a.ch]
  match k with
  | .beacon | .probeResp =>
    let (r, t) ← setTagH σ e tagSsid ssid
    if r ≠ 0 then pure (r, t) else setTagH σ t tagDs chan
  | .probeReq | .assocReq | .reassocReq =>
    let (r, t) ← quickAddTagH σ e tagSsid ssid
    if r ≠ 0 then pure (r, t) else quickAddTagH σ t tagDs chan
  | .assocResp =>
    let (r, t) ← setTagH σ e tagDs chan
    if r ≠ 0 then pure (r, t) else quickAddTagH σ t tagSuppRates Gen.s_LIBWIFI_DEFAULT_SUPP_RATES
  | .reassocResp => setTagH σ e tagDs chan
  | .timingAd => quickAddTagH σ e tagTimeAdv (timingElement a)
  | _ => pure (0, e)

def createH (σ : Nat → Bool) (k : GKind) (a : GArgs) : M (Int × GObjH) := do
  let (r, th) ← initialTagsH σ k a
  -- the pure object with the tags actually stored
  let o0 := match create k a with
    | .ok (_, o) => o
    | _ => { kind := k, fc := [], a1 := [], a2 := [], a3 := [] }
  pure (r, { o := { o0 with tags := th.t }, tags := th })

def editH (σ : Nat → Bool) (g : GObjH) : GEdit → M (Int × GObjH)
  | .tag op => do
    let (r, th) ← stepTagH σ g.tags op
    pure (r, { g with tags := th, o := { g.o with tags := th.t } })
  | .detail d => do
    -- libwifi_add_action_detail
    if d.length = 0 then return (g.o.detailLen, g)
    if d.length > 255 - g.o.detailLen then return (-EINVAL, g)
    let p ← if g.o.detailLen ≠ 0 then realloc σ g.detailPtr (d.length + g.o.detailLen) else malloc σ d.length
    match p with
    | none => pure (-EINVAL, g)
    | some q =>
      let nl := g.o.detailLen + d.length
      pure (nl, { g with detailPtr := some q, o := { g.o with detail := (g.o.detail.take g.o.detailLen) ++ d, detailLen := nl } })
  | .freeDetail => do
    -- libwifi_free_action_detail: release only when something is stored
    if g.o.detailLen ≠ 0 then
      free g.detailPtr
      pure (0, { g with detailPtr := none, o := { g.o with detail := [], detailLen := 0 } })
    else pure (0, g)

/-- `libwifi_free_<kind>` -/
def freeH (g : GObjH) : M Unit :=
  match g.o.kind with
  | .action | .actionNoAck => free g.detailPtr
  | .atim | .rts | .cts => pure ()
  | _ => free g.tags.ptr

/-! ### classification and parsers -/

structure FrameH where
  f : Option Frame         -- the classified frame when classification succeeded
  rtPtr : Ptr := none
  bodyPtr : Ptr := none

def rtInfoSize : Nat := Gen.sz_libwifi_radiotap_info

/-- stage 1 of `libwifi_get_wifi_frame`: the radiotap parse and the FCS length check happen before any allocation -/
def classifyPre (radiotap : Bool) (bs : Bytes) : Outcome (Nat × Bool) :=
  if radiotap then
    match parseRadiotapInfo bs with
    | .ok info =>
      let fcs := (info.flags / rtFlagFcs) % 2 = 1
      if fcs ∧ bs.length - info.length < 4 then .err (-EINVAL) else .ok (info.length, fcs)
    | .err c => .err c
    | .fault f => .fault f
  else .ok (0, false)

/-- last stage: the body copy -/
def classifyTail (σ : Nat → Bool) (rtPtr : Ptr) : Outcome Frame → M (Int × FrameH)
  | .ok fr =>
    if fr.len - fr.headerLen > 0 then do
      match ← malloc σ (fr.len - fr.headerLen) with
      | none => pure (-ENOMEM, { f := none, rtPtr := rtPtr })
      | some b => pure (0, { f := some fr, rtPtr := rtPtr, bodyPtr := some b })
    else pure (0, { f := some fr, rtPtr := rtPtr })
  | .err c => pure (c, { f := none, rtPtr := rtPtr })
  | .fault _ => pure (-999, { f := none, rtPtr := rtPtr })

/-- `libwifi_get_wifi_frame`: (return value, frame with its owned blocks) -/
def classifyH (σ : Nat → Bool) (radiotap : Bool) (bs : Bytes) : M (Int × FrameH) := do
  match classifyPre radiotap bs with
  | .err c => pure (c, { f := none })
  | .fault _ => pure (-999, { f := none })
  | .ok _ =>
    let rtPtr ← if radiotap then malloc σ rtInfoSize else pure none
    if radiotap ∧ rtPtr.isNone then pure (-ENOMEM, { f := none })
    else classifyTail σ rtPtr (classify radiotap bs)

def freeFrameH (fh : FrameH) : M Unit := do
  free fh.rtPtr
  free fh.bodyPtr

/-- does parser `k` reach its allocation on frame `f` (all checks before the malloc pass), and how many bytes -/
def parseAllocSize (k : MKind) (f : Frame) : Option Nat :=
  if ¬ typeOk f k then none
  else match k with
    | .beacon | .probeResp | .assocResp | .reassocResp =>
      if f.len < f.headerLen + k.fixedLen + 2 then none else some (f.len - (f.headerLen + k.fixedLen))
    | .probeReq => some (f.len - f.headerLen)
    | .assocReq | .reassocReq =>
      if f.len ≤ f.headerLen + k.fixedLen then none else some (f.len - (f.headerLen + k.fixedLen))
    | .deauth | .disassoc =>
      if f.len < f.headerLen + k.fixedLen then none
      else if f.len - f.headerLen - k.fixedLen > 0 then some (f.len - f.headerLen - k.fixedLen) else none

/-- `libwifi_parse_<kind>` followed by the documented release of the output object -/
def parseReleaseH (σ : Nat → Bool) (k : MKind) (f : Frame) : M (Outcome Parsed) := do
  match parseAllocSize k f with
  | none => pure (parseMgmt k f)
  | some n =>
    match ← malloc σ n with
    | none => pure (.err (-ENOMEM))
    | some p =>
      free (some p)
      pure (parseMgmt k f)

/-- `libwifi_parse_data` (type check and address copies, then `malloc(body_len)` for the body copy) followed by
`libwifi_free_data` -/
def parseDataReleaseH (σ : Nat → Bool) (f : Frame) : M (Outcome DataInfo) := do
  match parseData f with
  | .ok d =>
    match ← malloc σ (f.len - f.headerLen) with
    | none => pure (.err (-ENOMEM))
    | some p =>
      free (some p)
      pure (.ok d)
  | r => pure r

/-- `libwifi_get_wpa_data` (recognition, fixed fields, key-data clamp, then `malloc(key_data_length)` when that is
positive) followed by `libwifi_free_wpa_data` -/
def wpaDataReleaseH (σ : Nat → Bool) (f : Frame) : M (Outcome WpaData) := do
  match getWpaData f with
  | .ok d =>
    if d.keyDataLength > 0 then
      match ← malloc σ d.keyDataLength with
      | none => pure (.err (-ENOMEM))
      | some p =>
        free (some p)
        pure (.ok d)
    else pure (.ok d)
  | r => pure r

end LWV.Heap
