import LWV.Gen.Tables
import LWV.Gen.Enums
/-
Model of the four description routines of parse/misc/security.c.  Text is a list of bytes.
`describe` mirrors the C: "None" for an empty summary, otherwise one `_libwifi_add_sec_item`
per table entry whose bit is set — (", " when something was appended before) ++ name — with
`offset` advanced by the string lengths.
-/
namespace LWV.Model

abbrev Text := List Nat

def sep : Text := [44, 32]   -- ", "

structure DescState where
  text : Text
  append : Bool
  /-- some `snprintf` was asked to write (terminator included) beyond the buffer size -/
  overflow : Bool

/-- one `_libwifi_add_sec_item(buf, &offset, &append, item)` against a buffer of `cap` bytes -/
def addItem (cap : Nat) (st : DescState) (item : Text) : DescState :=
  let t1 := if st.append then st.text ++ sep else st.text
  let t2 := t1 ++ item
  { text := t2, append := true, overflow := st.overflow || decide (cap < t2.length + 1) }

def describeWith (cap : Nat) (table : List (Nat × Name)) (none : Name) (v : Nat) : DescState :=
  if v = 0 then { text := Name.bytes none, append := false, overflow := decide (cap < (Name.bytes none).length + 1) }
  else table.foldl (fun st e => if v.testBit e.1 then addItem cap st (Name.bytes e.2) else st)
        { text := [], append := false, overflow := false }

inductive Routine | securityType | groupCiphers | pairwiseCiphers | authKeySuites
  deriving DecidableEq, Repr

def Routine.table : Routine → List (Nat × Name)
  | .securityType => Gen.desc_security_type
  | .groupCiphers => Gen.desc_group_ciphers
  | .pairwiseCiphers => Gen.desc_pairwise_ciphers
  | .authKeySuites => Gen.desc_auth_key_suites

def Routine.none : Routine → Name
  | .securityType => Gen.descNone_security_type
  | .groupCiphers => Gen.descNone_group_ciphers
  | .pairwiseCiphers => Gen.descNone_pairwise_ciphers
  | .authKeySuites => Gen.descNone_auth_key_suites

def Routine.all : List Routine := [.securityType, .groupCiphers, .pairwiseCiphers, .authKeySuites]

def describe (r : Routine) (v : Nat) : DescState :=
  describeWith Gen.m_LIBWIFI_SECURITY_BUF_LEN r.table r.none v

end LWV.Model
