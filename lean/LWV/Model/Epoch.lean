import LWV.Gen.Epoch
/-
Model of `libwifi_get_epoch`: evaluate the *regenerated* return expression on a clock reading.
Arithmetic is in `Nat`: the C computes in signed 64-bit `long`; the theorems carry the guard
`sec < 2^43`, under which no intermediate value reaches 2^63 for any multiplier below 2^20.
-/
namespace LWV

def EExpr.eval (sec nsec : Nat) : EExpr → Nat
  | .lit n => n
  | .sec => sec
  | .nsec => nsec
  | .add a b => a.eval sec nsec + b.eval sec nsec
  | .sub a b => a.eval sec nsec - b.eval sec nsec
  | .mul a b => a.eval sec nsec * b.eval sec nsec
  | .div a b => a.eval sec nsec / b.eval sec nsec

/-- recognise `sec * A + nsec / B` (with the commutative variants of `*` and `+`) -/
def EExpr.shape : EExpr → Option (Nat × Nat)
  | .add (.mul .sec (.lit a)) (.div .nsec (.lit b)) => some (a, b)
  | .add (.mul (.lit a) .sec) (.div .nsec (.lit b)) => some (a, b)
  | .add (.div .nsec (.lit b)) (.mul .sec (.lit a)) => some (a, b)
  | .add (.div .nsec (.lit b)) (.mul (.lit a) .sec) => some (a, b)
  | _ => none

namespace Model

structure Timespec where
  sec : Nat
  nsec : Nat
  deriving Repr, DecidableEq

/-- clock order: seconds first, then nanoseconds -/
def Timespec.le (a b : Timespec) : Prop := a.sec < b.sec ∨ (a.sec = b.sec ∧ a.nsec ≤ b.nsec)

/-- the value `libwifi_get_epoch` returns for a clock reading (0 if the expression was not extracted) -/
def epoch (t : Timespec) : Nat :=
  match Gen.epochExpr with
  | some e => e.eval t.sec t.nsec
  | none => 0

end Model
end LWV
