import LWV.Basic
/-
Model of core/frame/crc.c and the CRC-32 Spec.

Model: the C loop — XOR the octet into the low byte of the register, then eight times
`crc = (crc >> 1) ^ (0xEDB88320 & -(crc & 1))`; preset all-ones; final complement.

Spec: IEEE 802.3 CRC-32 as a bit-serial LFSR over the message bits in *transmission order*
(each octet least-significant bit first): one register step per message bit,
feedback = register bit 0 XOR message bit, generator 0xEDB88320 (the coefficients of
x^32+x^26+x^23+x^22+x^16+x^12+x^11+x^10+x^8+x^7+x^5+x^4+x^2+x+1, highest power in bit 0),
register preset to all ones, result complemented; the FCS octets are the result's octets
least-significant first.
-/
namespace LWV

abbrev Reg := BitVec 32

def crcPoly : Reg := 0xEDB88320#32

/-- one shift of the register with feedback from bit 0 -/
def crcStep (r : Reg) : Reg := (r >>> 1) ^^^ (if r.getLsbD 0 then crcPoly else 0#32)

/-- feed one message bit (Spec) -/
def feed (r : Reg) (b : Bool) : Reg := crcStep (r ^^^ (if b then 1#32 else 0#32))

def feedBits (r : Reg) (bits : List Bool) : Reg := bits.foldl feed r

/-- bits of an octet in transmission order (least significant first) -/
def octetBits (b : UInt8) : List Bool := (List.range 8).map (fun i => b.toNat.testBit i)

def messageBits (m : Bytes) : List Bool := m.flatMap octetBits

namespace Spec
/-- IEEE 802.3 CRC-32 of a message -/
def crc32 (m : Bytes) : Reg := ~~~ (feedBits 0xFFFFFFFF#32 (messageBits m))
/-- the four FCS octets as transmitted -/
def fcsOctets (m : Bytes) : Bytes := leBytes 4 (crc32 m).toNat
end Spec

namespace Model

def iter {α} (f : α → α) : Nat → α → α
  | 0, x => x
  | n + 1, x => iter f n (f x)

/-- the inner loop of `libwifi_crc32` for one octet -/
def crcByte (r : Reg) (b : UInt8) : Reg := iter crcStep 8 (r ^^^ BitVec.ofNat 32 b.toNat)

/-- `libwifi_crc32(message, message.length)` (for message.length < 2^31) -/
def crc32 (m : Bytes) : Reg := ~~~ (m.foldl crcByte 0xFFFFFFFF#32)

/-- `libwifi_calculate_fcs` on a little-endian host (BYTESWAP32 is the identity) -/
def calculateFcs (m : Bytes) : Reg := crc32 m

/-- `libwifi_frame_verify`: 1 iff the last four octets, read as a host-order 32-bit word, equal
the FCS computed over the octets before them; 0 for frames shorter than an FCS -/
def frameVerify (f : Bytes) : Outcome Nat :=
  if f.length < 4 then .ok 0
  else do
    let tail ← rdSlice "frame" f (f.length - 4) 4
    let o := leNat tail
    let r := (calculateFcs (f.take (f.length - 4))).toNat
    .ok (if r = o then 1 else 0)

end Model
end LWV
