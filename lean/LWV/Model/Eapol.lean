import LWV.Model.Classify
import LWV.Gen.Layout
/-
Model of parse/data/eapol.c.
-/
namespace LWV.Model
open LWV

def llcLen : Nat := Gen.sz_libwifi_logical_link_ctrl                              -- 8
def authFixedLen : Nat := Gen.sz_libwifi_wpa_auth_data - 8                         -- 107 - pointer = 99
def eapolMin : Nat := llcLen + authFixedLen                                        -- 107

def frameType (f : Frame) : Nat := match f.fc with | b0 :: _ => fcType b0 | [] => 3

/-- `libwifi_check_wpa_handshake`: the C return value (1, or a negative code) -/
def checkHandshake (f : Frame) : Outcome Int :=
  if frameType f ≠ 2 then .ok (-EINVAL)
  else if f.len < f.headerLen + llcLen then .ok (-EINVAL)
  else do
    let oui ← rdSlice "body" f.body 3 3
    if oui ≠ Gen.s_XEROX_OUI then .ok (-EINVAL)
    else do
      let hi ← rd "body" f.body 6
      let lo ← rd "body" f.body 7
      if be16 hi lo ≠ Gen.m_LLC_TYPE_AUTH then .ok (-EINVAL)
      else if f.len < f.headerLen + eapolMin then .ok (-EINVAL)
      else .ok 1

def msgOf (info : Nat) : Nat :=
  if info = Gen.m_EAPOL_KEY_INFO_M1 then 1
  else if info = Gen.m_EAPOL_KEY_INFO_M2 then 2
  else if info = Gen.m_EAPOL_KEY_INFO_M3 then 4
  else if info = Gen.m_EAPOL_KEY_INFO_M4 then 8
  else 16

/-- `libwifi_check_wpa_message`: HANDSHAKE_M1..M4 = 1, 2, 4, 8; HANDSHAKE_INVALID = 16 -/
def checkMessage (f : Frame) : Outcome Nat :=
  if f.len < f.headerLen + eapolMin then .ok 16
  else do
    let hi ← rd "body" f.body (llcLen + 5)
    let lo ← rd "body" f.body (llcLen + 6)
    .ok (msgOf (be16 hi lo))

structure WpaData where
  version : Nat
  type : Nat
  length : Nat
  descriptor : Nat
  information : Nat
  keyLength : Nat
  replay : Nat
  nonce : Bytes
  iv : Bytes
  rsc : Bytes
  id : Bytes
  mic : Bytes
  keyDataLength : Nat
  keyData : Bytes
  deriving Repr, DecidableEq

def keyDataCap : Nat := 1024

/-- `libwifi_get_wpa_key_data_length` -/
def keyDataLength (f : Frame) : Outcome Int := do
  let r ← checkHandshake f
  if r < 0 then .ok (-EINVAL)
  else do
    let hi ← rd "body" f.body (llcLen + 97)
    let lo ← rd "body" f.body (llcLen + 98)
    .ok (be16 hi lo)

/-- `libwifi_get_wpa_data` -/
def getWpaData (f : Frame) : Outcome WpaData := do
  let r ← checkHandshake f
  if r < 0 then .err (-EINVAL)
  else do
    let b := llcLen
    let v ← rd "body" f.body b
    let t ← rd "body" f.body (b + 1)
    let len ← rdSlice "body" f.body (b + 2) 2
    let d ← rd "body" f.body (b + 4)
    let info ← rdSlice "body" f.body (b + 5) 2
    let kl ← rdSlice "body" f.body (b + 7) 2
    let rc ← rdSlice "body" f.body (b + 9) 8
    let nonce ← rdSlice "body" f.body (b + 17) 32
    let iv ← rdSlice "body" f.body (b + 49) 16
    let rsc ← rdSlice "body" f.body (b + 65) 8
    let id ← rdSlice "body" f.body (b + 73) 8
    let mic ← rdSlice "body" f.body (b + 81) 16
    let kdl ← rdSlice "body" f.body (b + 97) 2
    let declared := beNat kdl
    let avail := (f.len - f.headerLen) - eapolMin
    let n := min (min declared keyDataCap) avail
    let kd ← rdSlice "body" f.body eapolMin n
    .ok { version := v.toNat, type := t.toNat, length := beNat len, descriptor := d.toNat, information := beNat info, keyLength := beNat kl,
          replay := beNat rc, nonce := nonce, iv := iv, rsc := rsc, id := id, mic := mic, keyDataLength := n, keyData := kd }

end LWV.Model
