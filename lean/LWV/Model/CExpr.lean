import LWV.GenTypes
/-
C expression fragment (C18): rendering to tokens, operator precedence, substitution of macro
parameters and evaluation.  Precedence levels follow the C grammar (6.5): primary 16, unary 14,
multiplicative 13, additive 12, shift 11, relational 10, equality 9, AND 8, XOR 7, OR 6,
logical-AND 5, logical-OR 4, conditional 3.
-/
namespace LWV

def BinOp.prec : BinOp → Nat
  | .mul | .div | .mod => 13
  | .add | .sub => 12
  | .shl | .shr => 11
  | .lt | .gt | .le | .ge => 10
  | .eq | .ne => 9
  | .band => 8
  | .bxor => 7
  | .bor => 6
  | .land => 5
  | .lor => 4

def BinOp.tok : BinOp → Name
  | .mul => n!"*" | .div => n!"/" | .mod => n!"%" | .add => n!"+" | .sub => n!"-" | .shl => n!"<<" | .shr => n!">>"
  | .lt => n!"<" | .gt => n!">" | .le => n!"<=" | .ge => n!">=" | .eq => n!"==" | .ne => n!"!=" | .band => n!"&"
  | .bxor => n!"^" | .bor => n!"|" | .land => n!"&&" | .lor => n!"||"

namespace CExpr

/-- the token string a tree stands for -/
def render : CExpr → List Name
  | var x => [x]
  | num _ s => [s]
  | paren e => n!"(" :: (render e ++ [n!")"])
  | un op e => op :: render e
  | bin op a b => render a ++ [op.tok] ++ render b
  | cond c a b => render c ++ [n!"?"] ++ render a ++ [n!":"] ++ render b

/-- binding strength of the top-level construct -/
def level : CExpr → Nat
  | var _ | num _ _ | paren _ => 16
  | un _ _ => 14
  | bin op _ _ => op.prec
  | cond _ _ _ => 3

/-- the tree is the one the C grammar derives for its rendering: every operand binds at least
as tightly as its position requires (left-associative binary operators) -/
def wellPrec : CExpr → Bool
  | var _ | num _ _ => true
  | paren e => wellPrec e
  | un _ e => decide (14 ≤ level e) && wellPrec e
  | bin op a b => decide (op.prec ≤ level a) && decide (op.prec < level b) && wellPrec a && wellPrec b
  | cond c a b => decide (4 ≤ level c) && decide (3 ≤ level b) && wellPrec c && wellPrec a && wellPrec b

/-- macro-parameter substitution at the tree level -/
def subst (x : Name) (e : CExpr) : CExpr → CExpr
  | var y => if y = x then e else var y
  | num n s => num n s
  | paren t => paren (subst x e t)
  | un op t => un op (subst x e t)
  | bin op a b => bin op (subst x e a) (subst x e b)
  | cond c a b => cond (subst x e c) (subst x e a) (subst x e b)

/-- macro-parameter substitution at the token level (what the preprocessor does) -/
def substTokens (x : Name) (arg : List Name) (ts : List Name) : List Name :=
  ts.flatMap fun t => if t = x then arg else [t]

/-- every occurrence of parameter `x` is immediately enclosed in its own parentheses -/
def guarded (x : Name) : CExpr → Bool
  | var y => decide (y ≠ x)
  | num _ _ => true
  | paren (var _) => true
  | paren t => guarded x t
  | un _ t => guarded x t
  | bin _ a b => guarded x a && guarded x b
  | cond c a b => guarded x c && guarded x a && guarded x b

def b2n (b : Bool) : Nat := if b then 1 else 0

/-- evaluation over naturals (the capability test only uses `&` and `<<` on non-negative ints) -/
def eval (env : Name → Nat) : CExpr → Nat
  | var x => env x
  | num n _ => n
  | paren e => eval env e
  | un op e => if op = n!"!" then b2n (eval env e == 0) else eval env e
  | bin op a b =>
    let x := eval env a
    let y := eval env b
    match op with
    | .mul => x * y | .div => x / y | .mod => x % y | .add => x + y | .sub => x - y
    | .shl => x <<< y | .shr => x >>> y
    | .lt => b2n (decide (x < y)) | .gt => b2n (decide (x > y)) | .le => b2n (decide (x ≤ y)) | .ge => b2n (decide (x ≥ y))
    | .eq => b2n (x == y) | .ne => b2n (x != y)
    | .band => x &&& y | .bxor => x ^^^ y | .bor => x ||| y
    | .land => b2n (x != 0 && y != 0) | .lor => b2n (x != 0 || y != 0)
  | cond c a b => if eval env c ≠ 0 then eval env a else eval env b

/-- remove all parentheses -/
def strip : CExpr → CExpr
  | var x => var x
  | num n s => num n s
  | paren e => strip e
  | un op e => un op (strip e)
  | bin op a b => bin op (strip a) (strip b)
  | cond c a b => cond (strip c) (strip a) (strip b)

end CExpr
end LWV
