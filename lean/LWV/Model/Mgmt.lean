import LWV.Model.Classify
import LWV.Model.Tags
import LWV.Model.Security
/-
Model of parse/management/*.c: the nine management-frame parsers and the common element handlers.
-/
namespace LWV.Model
open LWV

structure Bss where
  receiver : Bytes := List.replicate 6 0
  transmitter : Bytes := List.replicate 6 0
  bssid : Bytes := List.replicate 6 0
  ssid : Bytes := List.replicate 33 0
  hidden : Nat := 0
  channel : Nat := 0
  wps : Nat := 0
  enc : Nat := 0
  wpa : WpaInfo := {}
  rsn : RsnInfo := {}
  tags : Bytes := []
  deriving Repr, DecidableEq

structure Sta where
  channel : Nat := 0
  randomized : Nat := 0
  transmitter : Bytes := List.replicate 6 0
  bssid : Bytes := List.replicate 6 0
  ssid : Bytes := List.replicate 33 0
  tags : Bytes := []
  deriving Repr, DecidableEq

structure ParsedReason where
  ordered : Bool
  header : Bytes
  reason : Nat
  tags : Bytes
  deriving Repr, DecidableEq

def WEP : Nat := Gen.m_WEP
def WPA : Nat := Gen.m_WPA

/-- `libwifi_handle_ssid_tag`: (new 33-byte SSID array, hidden) -/
def handleSsid (old : Bytes) (data : Bytes) : Bytes × Nat :=
  let n := min data.length 32
  let d := data.take n
  let hidden := if data.length = 0 ∨ d.all (· == 0) then 1 else 0
  (d ++ old.drop n, hidden)

/-- clear WEP the way the C does: `encryption_info &= ~(unsigned int) WEP` (also clears bits 32..63) -/
def clearWep (enc : Nat) : Nat :=
  if enc &&& WEP ≠ 0 then enc &&& (2 ^ 32 - 1 - WEP) else enc

def tagRsn : Nat := ((Gen.enum_libwifi_tag_numbers.lookup n!"TAG_RSN").getD 0).toNat
def tagVendor : Nat := ((Gen.enum_libwifi_tag_numbers.lookup n!"TAG_VENDOR_SPECIFIC").getD 0).toNat
def tagHtOp : Nat := ((Gen.enum_libwifi_tag_numbers.lookup n!"TAG_HT_OPERATION").getD 0).toNat
def tagSsidN : Nat := ((Gen.enum_libwifi_tag_numbers.lookup n!"TAG_SSID").getD 0).toNat
def tagDsN : Nat := ((Gen.enum_libwifi_tag_numbers.lookup n!"TAG_DS_PARAMETER").getD 0).toNat

/-- one element through the `switch` of `libwifi_bss_tag_parser` -/
def bssElem (tags : Bytes) (bss : Bss) (e : Spec.ElemAt) : Outcome Bss := do
  let body ← rdSlice "tags" tags (e.off + 2) e.len
  let num := e.num.toNat
  if num = tagSsidN then
    let (s, h) := handleSsid bss.ssid body
    .ok { bss with ssid := s, hidden := h }
  else if num = tagDsN ∨ num = tagHtOp then
    if e.len ≥ 1 then .ok { bss with channel := (body.getD 0 0).toNat } else .ok bss
  else if num = tagRsn then
    let enc := clearWep bss.enc
    if e.len < 6 then .err (-EINVAL)
    else match getRsnInfo body with
      | .ok info => .ok { bss with enc := enc ||| enumerateRsn info, rsn := info }
      | .err _ => .err (-EINVAL)
      | .fault f => .fault f
  else if num = tagVendor then
    if e.len ≥ 4 ∧ body.take 3 = Gen.s_MICROSOFT_OUI then
      let ty := (body.getD 3 0).toNat
      if ty = Gen.m_MICROSOFT_OUI_TYPE_WPA then
        let enc := clearWep bss.enc ||| WPA
        match getWpaInfo (body.drop 4) with
        | .ok info => .ok { bss with enc := enc ||| enumerateWpa info, wpa := info }
        | .err _ => .err (-EINVAL)
        | .fault f => .fault f
      else if ty = Gen.m_MICROSOFT_OUI_TYPE_WPS then .ok { bss with wps := 1 }
      else .ok bss
    else .ok bss
  else .ok bss

def foldElems {σ} (f : σ → Spec.ElemAt → Outcome σ) : σ → List Spec.ElemAt → Outcome σ
  | s, [] => .ok s
  | s, e :: rest => do
    let s' ← f s e
    foldElems f s' rest

def staElem (tags : Bytes) (sta : Sta) (e : Spec.ElemAt) : Outcome Sta := do
  let body ← rdSlice "tags" tags (e.off + 2) e.len
  let num := e.num.toNat
  if num = tagSsidN then .ok { sta with ssid := (handleSsid sta.ssid body).1 }
  else if num = tagDsN then
    if e.len ≥ 1 then .ok { sta with channel := (body.getD 0 0).toNat } else .ok sta
  else .ok sta

inductive MKind
  | beacon | probeResp | assocResp | reassocResp | probeReq | assocReq | reassocReq | deauth | disassoc
  deriving DecidableEq, Repr

def MKind.subtype : MKind → Nat
  | .beacon => 8 | .probeResp => 5 | .assocResp => 1 | .reassocResp => 3 | .probeReq => 4 | .assocReq => 0 | .reassocReq => 2
  | .deauth => 12 | .disassoc => 10

/-- size of the fixed parameters the parser skips -/
def MKind.fixedLen : MKind → Nat
  | .beacon => Gen.sz_libwifi_beacon_fixed_parameters
  | .probeResp => Gen.sz_libwifi_probe_resp_fixed_parameters
  | .assocResp => Gen.sz_libwifi_assoc_resp_fixed_parameters
  | .reassocResp => Gen.sz_libwifi_reassoc_resp_fixed_parameters
  | .probeReq => 0
  | .assocReq => Gen.sz_libwifi_assoc_req_fixed_parameters
  | .reassocReq => Gen.sz_libwifi_reassoc_req_fixed_parameters
  | .deauth => Gen.sz_libwifi_deauth_fixed_parameters
  | .disassoc => Gen.sz_libwifi_disassoc_fixed_parameters

inductive Parsed
  | bss (b : Bss)
  | sta (s : Sta)
  | reason (r : ParsedReason)
  deriving Repr, DecidableEq

def typeOk (f : Frame) (k : MKind) : Bool :=
  match f.fc with
  | b0 :: _ => fcType b0 == 0 && fcSubtype b0 == k.subtype
  | [] => false

def addrs (f : Frame) : Bytes × Bytes × Bytes :=
  (slice f.header 4 6, slice f.header 10 6, slice f.header 16 6)

/-- offset of the capability field inside the fixed parameters of the BSS kinds -/
def MKind.capsOff : MKind → Nat
  | .beacon | .probeResp => 10
  | _ => 0

/-- the element loop shared by the parsers: iterate over the tag region, any failure becomes -EINVAL -/
def walkTags {σ} (tags : Bytes) (f : σ → Spec.ElemAt → Outcome σ) (s0 : σ) (g : σ → Parsed) : Outcome Parsed :=
  match reported tags with
  | .ok es =>
    match foldElems f s0 es with
    | .ok b => .ok (g b)
    | .err _ => .err (-EINVAL)
    | .fault x => .fault x
  | .err _ => .err (-EINVAL)
  | .fault x => .fault x

/-- beacon / probe response / (re)association response: fixed parameters of `fixedLen` octets whose capability
field sits at `capsOff`, then the tagged parameters -/
def parseBssKind (f : Frame) (fixedLen capsOff : Nat) (a1 a2 a3 : Bytes) : Outcome Parsed :=
  if f.len ≤ f.headerLen + fixedLen then .err (-EINVAL)
  else if f.len < f.headerLen + fixedLen + 2 then .err (-EINVAL)
  else do
    let capLo ← rd "body" f.body capsOff
    let _capHi ← rd "body" f.body (capsOff + 1)
    let enc0 := if (capLo.toNat / 16) % 2 = 1 then WEP else 0     -- CAPABILITIES_PRIVACY = bit 4
    let tlen := f.len - (f.headerLen + fixedLen)
    let tags ← rdSlice "body" f.body fixedLen tlen
    let b0 : Bss := { receiver := a1, transmitter := a2, bssid := a3, enc := enc0, tags := tags }
    walkTags tags (bssElem tags) b0 Parsed.bss

/-- probe request (`strict = false`: an empty tag region is allowed) / (re)association request -/
def parseStaKind (f : Frame) (fixedLen : Nat) (strict : Bool) (a2 a3 : Bytes) : Outcome Parsed :=
  if strict ∧ f.len ≤ f.headerLen + fixedLen then .err (-EINVAL)
  else do
    let tlen := f.len - (f.headerLen + fixedLen)
    let tags ← rdSlice "body" f.body fixedLen tlen
    let randomized := if (a2.getD 0 0).toNat / 2 % 2 = 1 then 1 else 0
    let s0 : Sta := { transmitter := a2, bssid := a3, randomized := randomized, tags := tags }
    walkTags tags (staElem tags) s0 Parsed.sta

/-- deauthentication / disassociation -/
def parseReasonKind (f : Frame) (fixedLen : Nat) : Outcome Parsed :=
  if f.len < f.headerLen + fixedLen then .err (-EINVAL)
  else do
    let lo ← rd "body" f.body 0
    let hi ← rd "body" f.body 1
    let tlen := f.len - f.headerLen - fixedLen
    let tags ← rdSlice "body" f.body fixedLen tlen
    let ordered := match f.fc with
      | _ :: b1 :: _ => fcOrdered b1
      | _ => false
    .ok (.reason { ordered := ordered, header := f.header, reason := le16 lo hi, tags := tags })

/-- the nine `libwifi_parse_<kind>(out, frame)` -/
def parseMgmt (k : MKind) (f : Frame) : Outcome Parsed :=
  if ¬ typeOk f k then .err (-EINVAL)
  else
    let (a1, a2, a3) := addrs f
    match k with
    | .beacon | .probeResp | .assocResp | .reassocResp => parseBssKind f k.fixedLen k.capsOff a1 a2 a3
    | .probeReq => parseStaKind f k.fixedLen false a2 a3
    | .assocReq | .reassocReq => parseStaKind f k.fixedLen true a2 a3
    | .deauth | .disassoc => parseReasonKind f k.fixedLen

end LWV.Model
