/-
Model of concurrent use (C16).  The library has no state of its own (that is what the
regenerated object-file facts establish), so an API call is a function of the objects the
calling thread owns.  `σ` is a thread's private store (its frames, tag lists, buffers), a call
is a state transformer on that store producing an observable result.
-/
namespace LWV.Model

structure Call (σ ρ : Type) where
  run : σ → σ × ρ

/-- a thread's program run alone -/
def runSeq {σ ρ} : List (Call σ ρ) → σ → σ × List ρ
  | [], s => (s, [])
  | c :: cs, s =>
    let (s', r) := c.run s
    let (s'', rs) := runSeq cs s'
    (s'', r :: rs)

/-- global state: one private store per thread; results are logged per thread -/
structure World (σ ρ : Type) where
  store : Nat → σ
  log : Nat → List ρ

/-- one scheduler step: thread `t` performs call `c` atomically on its own store -/
def stepSched {σ ρ} (w : World σ ρ) (tc : Nat × Call σ ρ) : World σ ρ :=
  let (s', r) := tc.2.run (w.store tc.1)
  { store := fun u => if u = tc.1 then s' else w.store u,
    log := fun u => if u = tc.1 then w.log u ++ [r] else w.log u }

/-- run an arbitrary interleaving -/
def runSched {σ ρ} (sched : List (Nat × Call σ ρ)) (w : World σ ρ) : World σ ρ :=
  sched.foldl stepSched w

/-- the calls of thread `t` in a schedule, in order -/
def project {σ ρ} (sched : List (Nat × Call σ ρ)) (t : Nat) : List (Call σ ρ) :=
  (sched.filter (fun tc => tc.1 == t)).map (·.2)

end LWV.Model
