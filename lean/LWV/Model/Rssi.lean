import LWV.Model.Radiotap
/-
Model of parse/misc/radiotap.c `libwifi_parse_radiotap_rssi(frame)`: the entry point without a
length parameter.  It trusts the header's own `it_len`; the model reads through `rd`, so a buffer
shorter than what the header announces shows up as a fault (this is known finding D22).
-/
namespace LWV.Model
open LWV

def rssiLoop (bs : Bytes) : Nat → RtIt → Outcome Nat
  | 0, _ => .fault (.fuel "rssiLoop")
  | fuel + 1, it =>
    if it.thisArgIndex = 5 then do
      let v ← rd "radiotap" bs it.thisArg
      .ok v.toNat
    else do
      match ← rtNext bs (40 * (bs.length + 2)) it with
      | .stop _ => .ok 0
      | .hit it' => rssiLoop bs fuel it'

/-- `libwifi_parse_radiotap_rssi(bs)`; the result is the signal octet (as unsigned), 0 when none -/
def parseRssi (bs : Bytes) : Outcome Nat := do
  let itLen ← le16At "radiotap" bs 2
  match rtInit bs itLen with
  | .ok it => rssiLoop bs (32 * (bs.length + 2)) it
  | .err _ => .ok 0
  | .fault f => .fault f

/-- the contract under which the entry point can be safe: the buffer holds the whole announced header -/
def rssiCovered (bs : Bytes) : Bool :=
  match le16At "radiotap" bs 2 with
  | .ok n => decide (n ≤ bs.length)
  | _ => false

end LWV.Model
