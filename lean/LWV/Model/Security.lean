import LWV.Basic
import LWV.Gen.Tables
import LWV.Gen.Enums
/-
Model of parse/misc/security.c: the RSN / WPA element walkers and the suite enumeration.
`data` is an offset into the element body, `tag_end` is its length.
-/
namespace LWV.Model
open LWV

structure Suite where
  oui : Bytes
  ty : Nat
  deriving Repr, DecidableEq

structure RsnInfo where
  version : Nat := 0
  group : Suite := ⟨[0, 0, 0], 0⟩
  pairwise : List Suite := []
  akms : List Suite := []
  caps : Nat := 0
  deriving Repr, DecidableEq

structure WpaInfo where
  version : Nat := 0
  multicast : Suite := ⟨[0, 0, 0], 0⟩
  unicast : List Suite := []
  akms : List Suite := []
  deriving Repr, DecidableEq

def maxSuites : Nat := Gen.m_LIBWIFI_MAX_CIPHER_SUITES

def suiteAt (el : Bytes) (off : Nat) : Outcome Suite := do
  let s ← rdSlice "element" el off 4
  .ok ⟨s.take 3, (s.getD 3 0).toNat⟩

/-- read `n` stored suites starting at `off` -/
def suitesAt (el : Bytes) (off : Nat) : Nat → Outcome (List Suite)
  | 0 => .ok []
  | n + 1 => do
    let s ← suiteAt el off
    let rest ← suitesAt el (off + 4) n
    .ok (s :: rest)

def le16El (el : Bytes) (off : Nat) : Outcome Nat := do
  let a ← rd "element" el off
  let b ← rd "element" el (off + 1)
  .ok (le16 a b)

/-- one suite list: 16-bit count, then the suites; returns (stored suites, offset after the list) -/
def suiteList (el : Bytes) (data : Nat) : Outcome (List Suite × Nat) :=
  if el.length - data < 2 then .err (-EINVAL)
  else do
    let count ← le16El el data
    let data := data + 2
    if el.length - data < count * 4 then .err (-EINVAL)
    else do
      let stored ← suitesAt el data (min count maxSuites)
      .ok (stored, data + count * 4)

/-- `libwifi_get_rsn_info(info, el, el + el.length)` -/
def getRsnInfo (el : Bytes) : Outcome RsnInfo :=
  if el.length < 6 then .err (-EINVAL)
  else do
    let version ← le16El el 0
    let group ← suiteAt el 2
    let (pw, d1) ← suiteList el 6
    let (ak, d2) ← suiteList el d1
    if el.length - d2 < 2 then .err (-EINVAL)
    else do
      let caps ← le16El el d2
      .ok { version := version, group := group, pairwise := pw, akms := ak, caps := caps }

/-- `libwifi_get_wpa_info(info, el, el + el.length)` (el = the vendor element body after OUI and type) -/
def getWpaInfo (el : Bytes) : Outcome WpaInfo :=
  if el.length < 6 then .err (-EINVAL)
  else do
    let version ← le16El el 0
    let mc ← suiteAt el 2
    let (uc, d1) ← suiteList el 6
    let (ak, _) ← suiteList el d1
    .ok { version := version, multicast := mc, unicast := uc, akms := ak }

/-- OUI class used by the regenerated enumeration tables: 0 IEEE 00-0F-AC, 1 Microsoft 00-50-F2, 2 other -/
def ouiKind (oui : Bytes) : Nat :=
  if oui = Gen.s_CIPHER_SUITE_OUI then 0 else if oui = Gen.s_MICROSOFT_OUI then 1 else 2

def enumLookup (table : List (Nat × Nat × Nat × Nat)) (pos : Nat) (s : Suite) : Nat :=
  match table.find? (fun e => e.1 == pos && e.2.1 == ouiKind s.oui && e.2.2.1 == s.ty) with
  | some e => e.2.2.2
  | none => 0

/-- `libwifi_enumerate_rsn_suites`: flags OR-ed into the summary -/
def enumerateRsn (i : RsnInfo) : Nat :=
  (i.akms.foldl (fun acc s => acc ||| enumLookup Gen.rsnEnum 2 s)
    (i.pairwise.foldl (fun acc s => acc ||| enumLookup Gen.rsnEnum 1 s) (enumLookup Gen.rsnEnum 0 i.group)))

def enumerateWpa (i : WpaInfo) : Nat :=
  (i.akms.foldl (fun acc s => acc ||| enumLookup Gen.wpaEnum 2 s)
    (i.unicast.foldl (fun acc s => acc ||| enumLookup Gen.wpaEnum 1 s) (enumLookup Gen.wpaEnum 0 i.multicast)))

end LWV.Model
