import LWV.Basic
import LWV.Spec.Tlv
/-
Model of core/frame/tag_iterator.c and core/frame/tag.c.  Pointers are offsets into the
buffer handed to `libwifi_tag_iterator_init`; `_frame_end` is `len - 1` as in the C.
-/
namespace LWV.Model
open LWV

structure TagIt where
  hdr : Nat      -- tag_header
  data : Nat     -- tag_data
  next : Nat     -- _next_tag_header
  endp : Nat     -- _frame_end
  deriving Repr, DecidableEq

/-- `libwifi_tag_iterator_init(it, bs, bs.length)` -/
def iterInit (bs : Bytes) : Outcome TagIt :=
  if bs.length < 2 then .err (-EINVAL)
  else do
    let tl ← rd "tags" bs 1
    if tl.toNat > bs.length - 2 then .err (-EINVAL)
    else .ok { hdr := 0, data := 2, next := 2 + tl.toNat, endp := bs.length - 1 }

/-- `libwifi_tag_iterator_next`: `none` stands for the return value -1 -/
def iterNext (bs : Bytes) (it : TagIt) : Outcome (Option TagIt) :=
  if it.next ≥ it.endp then .ok none
  else do
    let hdr := it.next
    let tl ← rd "tags" bs (hdr + 1)
    if tl.toNat = 0 then .ok none
    else
      let bytesLeft := it.endp - hdr
      if tl.toNat ≥ bytesLeft then .ok none
      else .ok (some { hdr := hdr, data := hdr + 2, next := hdr + 2 + tl.toNat, endp := it.endp })

/-- (offset, number, length) of the element the iterator currently points at -/
def current (bs : Bytes) (it : TagIt) : Outcome Spec.ElemAt := do
  let n ← rd "tags" bs it.hdr
  let l ← rd "tags" bs (it.hdr + 1)
  .ok ⟨it.hdr, n, l.toNat⟩

/-- the do/while loop every caller writes: visit the current element, then `next` until -1 -/
def iterLoop (bs : Bytes) : Nat → TagIt → Outcome (List Spec.ElemAt)
  | 0, _ => .fault (.fuel "iterLoop")
  | fuel + 1, it => do
    let e ← current bs it
    match ← iterNext bs it with
    | none => .ok [e]
    | some it' => do
      let rest ← iterLoop bs fuel it'
      .ok (e :: rest)

/-- everything a caller sees for a buffer: init, then the loop -/
def reported (bs : Bytes) : Outcome (List Spec.ElemAt) := do
  let it ← iterInit bs
  iterLoop bs (bs.length + 1) it

end LWV.Model

namespace LWV.Model
open LWV

/-- `struct libwifi_tagged_parameters`: recorded length and the heap block (exactly that long) -/
structure Tags where
  length : Nat
  params : Bytes
  deriving Repr, DecidableEq

def Tags.empty : Tags := ⟨0, []⟩

/-- `struct libwifi_tagged_parameter` as built by `libwifi_create_tag`: the length octet is the
requested length truncated to 8 bits, the body block holds all requested bytes -/
structure Tag where
  num : UInt8
  len : UInt8
  body : Bytes
  deriving Repr, DecidableEq

def createTag (num : Nat) (data : Bytes) : Tag := ⟨UInt8.ofNat num, UInt8.ofNat data.length, data⟩

/-- `libwifi_add_tag` -/
def addTag (t : Tags) (tag : Tag) : Outcome Tags := do
  let body ← rdSlice "tag body" tag.body 0 tag.len.toNat
  .ok ⟨t.length + 2 + tag.len.toNat, t.params ++ tag.num :: tag.len :: body⟩

/-- `libwifi_quick_add_tag(tags, num, data, data.length)`; return value 0 -/
def quickAddTag (t : Tags) (num : Nat) (data : Bytes) : Outcome Tags :=
  addTag t (createTag num data)

/-- `libwifi_dump_tag(tag, buf, buf.length)`: (return value, buffer afterwards) -/
def dumpTag (tag : Tag) (buf : Bytes) : Outcome (Int × Bytes) :=
  if 2 + tag.len.toNat > buf.length then .ok (-EINVAL, buf)
  else do
    let body ← rdSlice "tag body" tag.body 0 tag.len.toNat
    let e := tag.num :: tag.len :: body
    .ok (e.length, e ++ buf.drop e.length)

/-- first element the caller's loop visits whose number is `num` -/
def findTag (t : Tags) (num : Nat) : Outcome (Option Spec.ElemAt) := do
  let es ← reported (t.params.take t.length)
  .ok (es.find? (fun e => e.num.toNat == num % 256 && num < 256))

/-- `libwifi_remove_tag`: (return code, new state) -/
def removeTag (t : Tags) (num : Nat) : Outcome (Int × Tags) :=
  match findTag t num with
  | .ok (some e) =>
    .ok (0, ⟨t.length - (2 + e.len), t.params.take e.off ++ t.params.drop (e.off + 2 + e.len)⟩)
  | .ok none => .ok (0, t)
  | .err c => .ok (c, t)
  | .fault f => .fault f

/-- `libwifi_check_tag` -/
def checkTag (t : Tags) (num : Nat) : Outcome Int :=
  if t.length = 0 then .ok 0
  else match reported (t.params.take t.length) with
    | .ok es => .ok (es.countP (fun e => e.num.toNat == num % 256 && num < 256))
    | .err c => .ok c
    | .fault f => .fault f

/-- the `libwifi_set_*_ssid` / `libwifi_set_*_channel` helpers: note whether the tag is present,
add the new one, then remove the old (first) occurrence -/
def setTag (t : Tags) (num : Nat) (data : Bytes) : Outcome (Int × Tags) := do
  let had ← (if t.length ≠ 0 then do let c ← checkTag t num; pure (decide (c > 0)) else pure false)
  let t' ← quickAddTag t num data
  if had then removeTag t' num else .ok (0, t')

inductive TagOp where
  | add (num : Nat) (data : Bytes)
  | remove (num : Nat)
  | setSsid (data : Bytes)
  | setChannel (ch : UInt8)
  | check (num : Nat)
  deriving Repr, DecidableEq

/-- one API call on a tag list: (return value, new state) -/
def stepTag (t : Tags) : TagOp → Outcome (Int × Tags)
  | .add n d => do let t' ← quickAddTag t n d; .ok (0, t')
  | .remove n => removeTag t n
  | .setSsid d => setTag t 0 d
  | .setChannel c => setTag t 3 [c]
  | .check n => do let r ← checkTag t n; .ok (r, t)

end LWV.Model
