/-
Types used by the generated files under LWV/Gen (written by /verif/tools/gen.py).
Hand-written and fixed; contains no facts about libwifi.
-/
namespace LWV

/-- Identifiers and fixed strings are carried as natural numbers (big-endian base-256 of their
ASCII bytes): equality of `String`s is very slow in the kernel, equality of `Nat` literals is a
GMP comparison.  `n!"TAG_SSID"` is notation for the literal `0x5441475F53534944`. -/
abbrev Name := Nat

open Lean in
macro:max "n!" s:str : term => do
  let v := s.getString.toUTF8.foldl (fun a b => a * 256 + b.toNat) 0
  return Syntax.mkNumLit (toString v)

/-- bytes of a name, most significant first (fuel = an upper bound on the length) -/
def Name.bytesAux : Nat → Nat → List Nat → List Nat
  | 0, _, acc => acc
  | fuel + 1, n, acc => if n = 0 then acc else Name.bytesAux fuel (n / 256) ((n % 256) :: acc)

def Name.bytes (n : Name) : List Nat := Name.bytesAux 64 n []

def Name.len (n : Name) : Nat := (Name.bytes n).length

def Name.toString (n : Name) : String := String.ofList ((Name.bytes n).map Char.ofNat)

/-- struct field: name, byte offset, byte size -/
structure Field where
  name : String
  off : Nat
  size : Nat
  deriving Repr, DecidableEq

/-- bit-field: name and the bytes of the struct when only this field is all-ones -/
structure BitField where
  name : String
  mask : List Nat
  deriving Repr, DecidableEq

structure Layout where
  name : String
  size : Nat
  fields : List Field
  bitfields : List BitField
  deriving Repr, DecidableEq

/-- data symbol of an object file: name, section, section class, size.
Section class (computed by the translator from the ELF section flags, not from its name):
0 = not writable (`.rodata*`, `.text*`), 1 = relocated-then-read-only (`.data.rel.ro*`),
2 = writable initialised data, 3 = `.bss`-like (NOBITS, writable), 4 = thread-local, 5 = COMMON -/
structure ObjSym where
  name : String
  sect : String
  cls : Nat
  size : Nat
  deriving Repr, DecidableEq

/-- facts about one object file of a -O2 -fPIC build of the working tree -/
structure ObjFile where
  file : String
  /-- allocated, writable, non-empty sections (other than `.data.rel.ro*`) with their size -/
  writable : List (String × Nat)
  /-- thread-local sections with their size -/
  tls : List (String × Nat)
  objects : List ObjSym
  deriving Repr, DecidableEq

/-- arithmetic fragment in which `libwifi_get_epoch` computes its result -/
inductive EExpr where
  | lit (n : Nat)
  | sec
  | nsec
  | add (a b : EExpr)
  | sub (a b : EExpr)
  | mul (a b : EExpr)
  | div (a b : EExpr)
  deriving Repr, DecidableEq

inductive BinOp where
  | mul | div | mod | add | sub | shl | shr | lt | gt | le | ge | eq | ne | band | bxor | bor | land | lor
  deriving Repr, DecidableEq

/-- C expression fragment used by the capability macro (a parse tree *certificate*: the
translator emits it together with the token string, and `render tree = tokens` is checked
by the kernel). -/
inductive CExpr where
  | var (name : Name)
  | num (n : Nat) (spelling : Name)
  | paren (e : CExpr)
  | un (op : Name) (e : CExpr)
  | bin (op : BinOp) (a b : CExpr)
  | cond (c a b : CExpr)
  deriving Repr, DecidableEq

end LWV
