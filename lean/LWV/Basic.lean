/-
Basic vocabulary of the model: byte strings, outcomes (ok / negative error / memory fault),
checked reads.  A C pointer into a buffer is a `Nat` offset into the `Bytes` value that models
that allocation; every read goes through `rd`, which faults outside the allocation.
-/
namespace LWV

abbrev Bytes := List UInt8

inductive Fault where
  | oobRead (what : String) (idx len : Nat)
  | oobWrite (what : String) (idx len : Nat)
  | nullDeref (site : String)
  | divZero (site : String)
  | doubleFree
  | useAfterFree
  | fuel (site : String)
  deriving Repr, DecidableEq

inductive Outcome (α : Type) where
  | ok (a : α)
  | err (code : Int)
  | fault (f : Fault)
  deriving Repr, DecidableEq

namespace Outcome

def isFault {α} : Outcome α → Bool
  | fault _ => true
  | _ => false

def isOk {α} : Outcome α → Bool
  | ok _ => true
  | _ => false

@[inline] def bind {α β} (x : Outcome α) (f : α → Outcome β) : Outcome β :=
  match x with
  | ok a => f a
  | err c => err c
  | fault f => fault f

instance : Monad Outcome where
  pure := ok
  bind := bind

@[simp] theorem bind_ok {α β} (a : α) (f : α → Outcome β) : (ok a >>= f) = f a := rfl
@[simp] theorem bind_err {α β} (c : Int) (f : α → Outcome β) : ((err c : Outcome α) >>= f) = err c := rfl
@[simp] theorem bind_fault {α β} (x : Fault) (f : α → Outcome β) : ((fault x : Outcome α) >>= f) = fault x := rfl
@[simp] theorem pure_eq {α} (a : α) : (pure a : Outcome α) = ok a := rfl

end Outcome

def EINVAL : Int := 22
def ENOMEM : Int := 12

/-- checked byte read -/
def rd (what : String) (bs : Bytes) (i : Nat) : Outcome UInt8 :=
  match bs[i]? with
  | some b => .ok b
  | none => .fault (.oobRead what i bs.length)

theorem rd_ok {what : String} {bs : Bytes} {i : Nat} (h : i < bs.length) : rd what bs i = .ok bs[i] := by
  simp [rd, List.getElem?_eq_getElem h]

/-- `n` bytes starting at `off` (checked) -/
def rdSlice (what : String) (bs : Bytes) (off n : Nat) : Outcome Bytes :=
  if off + n ≤ bs.length then .ok ((bs.drop off).take n)
  else .fault (.oobRead what (off + n) bs.length)

def slice (bs : Bytes) (off n : Nat) : Bytes := (bs.drop off).take n

def le16 (lo hi : UInt8) : Nat := lo.toNat + 256 * hi.toNat
def be16 (hi lo : UInt8) : Nat := 256 * hi.toNat + lo.toNat

def leNat : Bytes → Nat
  | [] => 0
  | b :: t => b.toNat + 256 * leNat t

def beNat (bs : Bytes) : Nat := bs.foldl (fun a b => a * 256 + b.toNat) 0

/-- little-endian encoding of `v` in `n` bytes -/
def leBytes : Nat → Nat → Bytes
  | 0, _ => []
  | n + 1, v => UInt8.ofNat (v % 256) :: leBytes n (v / 256)

def hexDigit (n : Nat) : Char := if n < 10 then Char.ofNat (48 + n) else Char.ofNat (87 + n)

def toHex (bs : Bytes) : String :=
  if bs.isEmpty then "-" else String.ofList (bs.flatMap fun b => [hexDigit (b.toNat / 16), hexDigit (b.toNat % 16)])

def hexVal (c : Char) : Option Nat :=
  if '0' ≤ c ∧ c ≤ '9' then some (c.toNat - 48)
  else if 'a' ≤ c ∧ c ≤ 'f' then some (c.toNat - 87)
  else if 'A' ≤ c ∧ c ≤ 'F' then some (c.toNat - 55)
  else none

def ofHexAux : List Char → Bytes → Option Bytes
  | [], acc => some acc.reverse
  | [_], _ => none
  | a :: b :: t, acc =>
    match hexVal a, hexVal b with
    | some x, some y => ofHexAux t (UInt8.ofNat (x * 16 + y) :: acc)
    | _, _ => none

def ofHex (s : String) : Option Bytes := if s == "-" then some [] else ofHexAux s.toList []

end LWV
