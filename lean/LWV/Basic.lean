def hello := "world"
