import LWV.Model.Crc
/-
Linear-algebra facts about the CRC register step, proved bit-wise (no bv_decide).
-/
namespace LWV

theorem crcStep_zero : crcStep 0#32 = 0#32 := by decide

theorem fb_xor (p q : Bool) :
    (if (p != q) then crcPoly else 0#32) = (if p then crcPoly else 0#32) ^^^ (if q then crcPoly else 0#32) := by
  cases p <;> cases q <;> simp

/-- the step is linear over GF(2) -/
theorem crcStep_xor (a b : Reg) : crcStep (a ^^^ b) = crcStep a ^^^ crcStep b := by
  unfold crcStep
  have h0 : (a ^^^ b).getLsbD 0 = (a.getLsbD 0 != b.getLsbD 0) := by simp
  rw [h0, BitVec.ushiftRight_xor_distrib, fb_xor]
  ac_rfl

/-- without feedback the step is a plain shift -/
theorem crcStep_even (y : Reg) (h : y.getLsbD 0 = false) : crcStep y = y >>> 1 := by
  unfold crcStep; rw [h]; simp

theorem crcStep_bit31 (x : Reg) : (crcStep x).getLsbD 31 = x.getLsbD 0 := by
  unfold crcStep
  cases h : x.getLsbD 0 <;> simp [BitVec.getLsbD_xor, BitVec.getLsbD_ushiftRight, crcPoly]

/-- the step is injective: bit 31 of the result reveals the feedback bit -/
theorem crcStep_inj (a b : Reg) (h : crcStep a = crcStep b) : a = b := by
  have h31 : a.getLsbD 0 = b.getLsbD 0 := by rw [← crcStep_bit31, ← crcStep_bit31, h]
  unfold crcStep at h
  rw [h31] at h
  have hs : a >>> 1 = b >>> 1 := by
    have := congrArg (fun z => z ^^^ (if b.getLsbD 0 then crcPoly else 0#32)) h
    simpa [BitVec.xor_assoc] using this
  ext i hi
  by_cases hi0 : i = 0
  · subst hi0; exact h31
  · have := congrArg (fun z => z.getLsbD (i - 1)) hs
    simp only [BitVec.getLsbD_ushiftRight] at this
    have e : 1 + (i - 1) = i := by omega
    rwa [e] at this

theorem crcStep_ne_zero (a : Reg) (h : a ≠ 0#32) : crcStep a ≠ 0#32 := by
  intro hz; apply h; apply crcStep_inj; rw [hz, crcStep_zero]

end LWV

namespace LWV
open Model

theorem iter_succ' {α} (f : α → α) (n : Nat) (x : α) : iter f (n + 1) x = f (iter f n x) := by
  induction n generalizing x with
  | zero => rfl
  | succ n ih => rw [iter, ih (f x)]; rfl

def bitOf (b : Bool) : Reg := if b then 1#32 else 0#32

theorem feed_def (r : Reg) (b : Bool) : feed r b = crcStep (r ^^^ bitOf b) := rfl

theorem feedBits_append (r : Reg) (a b : List Bool) : feedBits r (a ++ b) = feedBits (feedBits r a) b := by
  simp [feedBits, List.foldl_append]

theorem bitOf_shift (b : Bool) : bitOf b >>> 1 = 0#32 := by cases b <;> decide

theorem bitOf_lsb (b : Bool) : (bitOf b).getLsbD 0 = b := by cases b <;> decide

/-- the first `k` bits of `x`, least significant first -/
def lowBits (x : Reg) (k : Nat) : List Bool := (List.range k).map (fun i => x.getLsbD i)

/-- XOR-ing a whole octet in and shifting k times = feeding its k low bits one at a time, with
the not yet consumed bits still sitting (shifted) in the register -/
theorem iter_bits (s x : Reg) (k : Nat) :
    iter crcStep k (s ^^^ x) = feedBits s (lowBits x k) ^^^ (x >>> k) := by
  induction k with
  | zero => simp [iter, lowBits, feedBits]
  | succ k ih =>
    rw [iter_succ', ih]
    have hl : lowBits x (k + 1) = lowBits x k ++ [x.getLsbD k] := by
      simp [lowBits, List.range_succ]
    rw [hl, feedBits_append]
    generalize feedBits s (lowBits x k) = A
    show crcStep (A ^^^ x >>> k) = feed A (x.getLsbD k) ^^^ x >>> (k + 1)
    rw [feed_def]
    have hsplit : A ^^^ x >>> k = (A ^^^ bitOf (x.getLsbD k)) ^^^ (x >>> k ^^^ bitOf (x.getLsbD k)) := by
      have : bitOf (x.getLsbD k) ^^^ bitOf (x.getLsbD k) = 0#32 := BitVec.xor_self
      calc A ^^^ x >>> k = A ^^^ x >>> k ^^^ 0#32 := by simp
        _ = A ^^^ x >>> k ^^^ (bitOf (x.getLsbD k) ^^^ bitOf (x.getLsbD k)) := by rw [this]
        _ = _ := by ac_rfl
    rw [hsplit, crcStep_xor]
    congr 1
    have hev : (x >>> k ^^^ bitOf (x.getLsbD k)).getLsbD 0 = false := by
      rw [BitVec.getLsbD_xor, bitOf_lsb, BitVec.getLsbD_ushiftRight]
      simp
    rw [crcStep_even _ hev, BitVec.ushiftRight_xor_distrib, bitOf_shift, BitVec.xor_zero,
      BitVec.shiftRight_add]

theorem octet_lowBits (b : UInt8) : lowBits (BitVec.ofNat 32 b.toNat) 8 = octetBits b := by
  simp only [lowBits, octetBits]
  apply List.map_congr_left
  intro i hi
  have : i < 8 := by simpa using hi
  rw [BitVec.getLsbD_ofNat]
  have : i < 32 := by omega
  simp [this]

theorem octet_shift8 (b : UInt8) : BitVec.ofNat 32 b.toNat >>> 8 = 0#32 := by
  apply BitVec.eq_of_toNat_eq
  have := b.toNat_lt
  simp only [BitVec.toNat_ushiftRight, BitVec.toNat_ofNat, BitVec.toNat_zero]
  rw [Nat.shiftRight_eq_div_pow, Nat.mod_eq_of_lt (by omega)]
  omega

/-- the C inner loop for one octet is eight steps of the bit-serial LFSR -/
theorem crcByte_eq (s : Reg) (b : UInt8) : crcByte s b = feedBits s (octetBits b) := by
  unfold crcByte
  rw [iter_bits, octet_lowBits, octet_shift8, BitVec.xor_zero]

theorem foldl_crcByte (s : Reg) (m : Bytes) : m.foldl crcByte s = feedBits s (messageBits m) := by
  induction m generalizing s with
  | nil => rfl
  | cons b t ih =>
    simp only [List.foldl_cons, messageBits, List.flatMap_cons]
    rw [ih, crcByte_eq, feedBits_append]
    rfl

end LWV

namespace LWV
open Model

theorem bitOf_bne (b c : Bool) : bitOf (b != c) = bitOf b ^^^ bitOf c := by
  cases b <;> cases c <;> decide

theorem feed_xor (s t : Reg) (b c : Bool) : feed (s ^^^ t) (b != c) = feed s b ^^^ feed t c := by
  rw [feed_def, feed_def, feed_def, bitOf_bne, ← crcStep_xor]
  congr 1
  ac_rfl

/-- the register after a message is affine in the message: flipping bits `e` changes it by the
zero-preset register of `e` -/
theorem feedBits_xor (s t : Reg) (m e : List Bool) (h : m.length = e.length) :
    feedBits (s ^^^ t) (List.zipWith (fun a b => a != b) m e) = feedBits s m ^^^ feedBits t e := by
  induction m generalizing s t e with
  | nil =>
    cases e with
    | nil => rfl
    | cons _ _ => simp at h
  | cons a m ih =>
    cases e with
    | nil => simp at h
    | cons b e =>
      simp only [List.zipWith_cons_cons, feedBits, List.foldl_cons]
      rw [feed_xor]
      exact ih _ _ e (by simpa using h)

theorem feed_zero_false : feed 0#32 false = 0#32 := by decide

theorem feedBits_zero_zeros (n : Nat) : feedBits 0#32 (List.replicate n false) = 0#32 := by
  induction n with
  | zero => rfl
  | succ n ih => simp only [List.replicate_succ, feedBits, List.foldl_cons, feed_zero_false]; exact ih

theorem feedBits_zeros_ne (r : Reg) (h : r ≠ 0#32) (n : Nat) : feedBits r (List.replicate n false) ≠ 0#32 := by
  induction n generalizing r with
  | zero => simpa [feedBits] using h
  | succ n ih =>
    simp only [List.replicate_succ, feedBits, List.foldl_cons]
    apply ih
    rw [feed_def]
    have : r ^^^ bitOf false = r := by simp [bitOf]
    rw [this]
    exact crcStep_ne_zero r h

/-- register contents written as a bit list, least significant first -/
def pack : List Bool → Reg
  | [] => 0#32
  | b :: t => (pack t <<< 1) ^^^ bitOf b

theorem pack_getLsbD (bits : List Bool) (i : Nat) (hi : i < 32) : (pack bits).getLsbD i = bits.getD i false := by
  induction bits generalizing i with
  | nil => simp [pack]
  | cons b t ih =>
    simp only [pack, BitVec.getLsbD_xor, BitVec.getLsbD_shiftLeft]
    cases i with
    | zero => cases b <;> simp [bitOf]
    | succ j =>
      have hj : j < 32 := by omega
      cases b <;> simp [bitOf, hi, ih j hj]

theorem pack_high (bits : List Bool) (i : Nat) (hi : bits.length ≤ i) : (pack bits).getLsbD i = false := by
  by_cases h32 : i < 32
  · rw [pack_getLsbD bits i h32]
    simp [List.getD, List.getElem?_eq_none hi]
  · exact BitVec.getLsbD_of_ge _ _ (by omega)

theorem crcStep_shl (y : Reg) (h : y.getLsbD 31 = false) : crcStep (y <<< 1) = y := by
  have hev : (y <<< 1).getLsbD 0 = false := by simp [BitVec.getLsbD_shiftLeft]
  rw [crcStep_even _ hev]
  apply BitVec.eq_of_getLsbD_eq
  intro i hi
  simp only [BitVec.getLsbD_ushiftRight, BitVec.getLsbD_shiftLeft]
  by_cases h31 : i = 31
  · subst h31
    have h' : y[31] = false := by simpa [BitVec.getLsbD_eq_getElem] using h
    simp [h']
  · have : 1 + i < 32 := by omega
    simp [this]

/-- running the LFSR backwards: if feeding at most 32 bits ends in the zero register, the
register held exactly those bits -/
theorem feedBits_zero_pack (bits : List Bool) (s : Reg) (hl : bits.length ≤ 32)
    (h : feedBits s bits = 0#32) : s = pack bits := by
  induction bits generalizing s with
  | nil => simpa [feedBits, pack] using h
  | cons b t ih =>
    simp only [feedBits, List.foldl_cons] at h
    have ht : t.length ≤ 31 := by simp only [List.length_cons] at hl; omega
    have h1 : feed s b = pack t := ih (feed s b) (by omega) h
    have h31 : (pack t).getLsbD 31 = false := pack_high t 31 ht
    have h2 : crcStep (s ^^^ bitOf b) = crcStep (pack t <<< 1) := by
      rw [crcStep_shl _ h31, ← feed_def]; exact h1
    have h3 := crcStep_inj _ _ h2
    simp only [pack]
    rw [← h3, BitVec.xor_assoc, BitVec.xor_self, BitVec.xor_zero]

theorem pack_zero_all_false (bits : List Bool) (hl : bits.length ≤ 32) (h : pack bits = 0#32) :
    ∀ b ∈ bits, b = false := by
  intro b hb
  obtain ⟨i, hi, rfl⟩ := List.getElem_of_mem hb
  have := pack_getLsbD bits i (by omega)
  rw [h] at this
  simp only [BitVec.getLsbD_zero, List.getD, List.getElem?_eq_getElem hi, Option.getD_some] at this
  exact this.symm

/-- an error pattern confined to at most 32 consecutive bits -/
def IsBurstBits (e : List Bool) : Prop :=
  ∃ a w c, e = List.replicate a false ++ w ++ List.replicate c false ∧ w.length ≤ 32 ∧ true ∈ w

/-- a burst never leaves the zero-preset register at zero -/
theorem burst_nonzero (e : List Bool) (h : IsBurstBits e) : feedBits 0#32 e ≠ 0#32 := by
  obtain ⟨a, w, c, rfl, hw, hmem⟩ := h
  rw [feedBits_append, feedBits_append, feedBits_zero_zeros]
  apply feedBits_zeros_ne
  intro hz
  have hp := feedBits_zero_pack w 0#32 hw hz
  have := pack_zero_all_false w hw hp.symm true hmem
  cases this

end LWV
