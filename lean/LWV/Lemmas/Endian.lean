import LWV.Basic
/- little-endian encode/decode round trips -/
namespace LWV

theorem leBytes_length (n v : Nat) : (leBytes n v).length = n := by
  induction n generalizing v with
  | zero => rfl
  | succ n ih => simp [leBytes, ih]

theorem leBytes_leNat (bs : Bytes) : leBytes bs.length (leNat bs) = bs := by
  induction bs with
  | nil => rfl
  | cons b t ih =>
    have hb := b.toNat_lt
    simp only [List.length_cons, leBytes, leNat]
    have h1 : (b.toNat + 256 * leNat t) % 256 = b.toNat := by omega
    have h2 : (b.toNat + 256 * leNat t) / 256 = leNat t := by omega
    rw [h1, h2, ih]
    simp

theorem leNat_leBytes (n v : Nat) : leNat (leBytes n v) = v % 256 ^ n := by
  induction n generalizing v with
  | zero => simp [leBytes, leNat, Nat.mod_one]
  | succ n ih =>
    simp only [leBytes, leNat, ih]
    rw [UInt8.toNat_ofNat']
    have : v % 256 ^ (n + 1) = v % 256 + 256 * (v / 256 % 256 ^ n) := by
      rw [Nat.pow_succ, Nat.mul_comm (256 ^ n) 256, Nat.mod_mul]
    rw [this]
    have : v % 256 % 2 ^ 8 = v % 256 := by omega
    omega

theorem leNat_lt (bs : Bytes) : leNat bs < 256 ^ bs.length := by
  induction bs with
  | nil => simp [leNat]
  | cons b t ih =>
    have := b.toNat_lt
    simp only [leNat, List.length_cons, Nat.pow_succ]
    omega

end LWV
