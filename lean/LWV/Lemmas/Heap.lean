import LWV.Model.Heap
import LWV.Props.C06
/-
Ledger discipline of the allocation-aware skeletons.
-/
namespace LWV.Heap
open LWV LWV.Model

/-- the ledger holds exactly the blocks in `owned`, nothing was released twice or invalidly -/
structure Clean (h : H) (owned : List Nat) : Prop where
  bad : h.bad = 0
  mem : ∀ x, x ∈ h.live ↔ x ∈ owned
  nodup : h.live.Nodup
  fresh : ∀ x ∈ h.live, x < h.next

theorem clean_init : Clean {} [] := ⟨rfl, fun _ => Iff.rfl, List.nodup_nil, fun _ hx => by cases hx⟩

theorem request_spec (σ : Nat → Bool) (tag : String) (n : Nat) (h : H) (own : List Nat) (c : Clean h own) :
    (((request σ tag n).run h).1 = none ∧ Clean ((request σ tag n).run h).2 own) ∨
    (∃ id, ((request σ tag n).run h).1 = some id ∧ id ∉ own ∧ Clean ((request σ tag n).run h).2 (id :: own)) := by
  unfold request
  by_cases hf : σ h.reqs = true
  · left
    simp only [StateT.run, hf, if_true]
    exact ⟨trivial, ⟨c.bad, c.mem, c.nodup, c.fresh⟩⟩
  · right
    simp only [StateT.run, hf, Bool.false_eq_true, if_false]
    have hnew : h.next ∉ h.live := fun hm => Nat.lt_irrefl _ (c.fresh _ hm)
    refine ⟨h.next, rfl, fun hm => hnew ((c.mem _).mpr hm), ⟨c.bad, ?_, List.nodup_cons.mpr ⟨hnew, c.nodup⟩, ?_⟩⟩
    · intro x; simp only [List.mem_cons, c.mem]
    · intro x hx
      rcases List.mem_cons.mp hx with rfl | hx
      · exact Nat.lt_succ_self _
      · exact Nat.lt_succ_of_lt (c.fresh x hx)

theorem release_spec (id : Nat) (h : H) (own : List Nat) (c : Clean h (id :: own)) (hid : id ∉ own) :
    Clean ((release id).run h).2 own := by
  unfold release
  have hm : id ∈ h.live := (c.mem id).mpr List.mem_cons_self
  have hc : h.live.contains id = true := by simpa using hm
  simp only [StateT.run, hc, if_true]
  refine ⟨c.bad, ?_, c.nodup.erase _, ?_⟩
  · intro x
    rw [c.nodup.mem_erase_iff, c.mem]
    constructor
    · rintro ⟨hne, hx⟩
      rcases List.mem_cons.mp hx with rfl | hx
      · exact absurd rfl hne
      · exact hx
    · intro hx
      exact ⟨fun he => hid (he ▸ hx), List.mem_cons_of_mem _ hx⟩
  · intro x hx
    exact c.fresh x (List.mem_of_mem_erase hx)

/-- owned blocks of an optional pointer -/
def blocks (p : Ptr) : List Nat := p.toList

theorem free_spec (p : Ptr) (h : H) (own : List Nat) (c : Clean h (blocks p ++ own)) (hp : ∀ id, p = some id → id ∉ own) :
    Clean ((free p).run h).2 own := by
  cases p with
  | none => simpa [free, blocks, StateT.run, pure, StateT.pure] using c
  | some id =>
    have := release_spec id h own (by simpa [blocks] using c) (hp id rfl)
    simp only [free, StateT.run, bind, StateT.bind, modify, modifyGet, MonadStateOf.modifyGet, StateT.modifyGet, pure] at this ⊢
    exact ⟨this.bad, this.mem, this.nodup, this.fresh⟩

end LWV.Heap

namespace LWV.Heap
open LWV LWV.Model

theorem push_fresh (h1 : H) (own : List Nat) (c1 : Clean h1 own) (reqs faults : Nat) (tr : List String) :
    h1.next ∉ own ∧ Clean { h1 with reqs := reqs, faults := faults, next := h1.next + 1, live := h1.next :: h1.live, trace := tr } (h1.next :: own) := by
  have hnew : h1.next ∉ h1.live := fun hm => Nat.lt_irrefl _ (c1.fresh _ hm)
  refine ⟨fun hm => hnew ((c1.mem _).mpr hm), ⟨c1.bad, ?_, List.nodup_cons.mpr ⟨hnew, c1.nodup⟩, ?_⟩⟩
  · intro x; simp only [List.mem_cons, c1.mem]
  · intro x hx
    rcases List.mem_cons.mp hx with rfl | hx
    · exact Nat.lt_succ_self _
    · exact Nat.lt_succ_of_lt (c1.fresh x hx)

theorem realloc_spec (σ : Nat → Bool) (p : Ptr) (n : Nat) (h : H) (own : List Nat)
    (c : Clean h (blocks p ++ own)) (hp : ∀ id, p = some id → id ∉ own) :
    (((realloc σ p n).run h).1 = none ∧ Clean ((realloc σ p n).run h).2 (blocks p ++ own)) ∨
    (∃ id, ((realloc σ p n).run h).1 = some id ∧ id ∉ own ∧ Clean ((realloc σ p n).run h).2 (id :: own)) := by
  unfold realloc
  by_cases hf : σ h.reqs = true
  · left
    simp only [StateT.run, hf, if_true]
    exact ⟨trivial, ⟨c.bad, c.mem, c.nodup, c.fresh⟩⟩
  · right
    simp only [StateT.run, hf, Bool.false_eq_true, if_false]
    cases p with
    | none =>
      have c1 : Clean h own := by simpa [blocks] using c
      obtain ⟨h1, h2⟩ := push_fresh h own c1 (h.reqs + 1) h.faults (h.trace ++ [s!"r{n}=ok"])
      exact ⟨h.next, rfl, h1, h2⟩
    | some id =>
      have c1 := release_spec id h own (by simpa [blocks] using c) (hp id rfl)
      obtain ⟨h1, h2⟩ := push_fresh _ own c1 (((release id).run h).2.reqs + 1) ((release id).run h).2.faults (((release id).run h).2.trace ++ [s!"r{n}=ok"])
      exact ⟨_, rfl, h1, h2⟩

theorem malloc_spec (σ : Nat → Bool) (n : Nat) (h : H) (own : List Nat) (c : Clean h own) :
    (((malloc σ n).run h).1 = none ∧ Clean ((malloc σ n).run h).2 own) ∨
    (∃ id, ((malloc σ n).run h).1 = some id ∧ id ∉ own ∧ Clean ((malloc σ n).run h).2 (id :: own)) :=
  request_spec σ "m" n h own c

/-- the tag list owns its block exactly when it is not empty -/
def Owns (th : TagsH) : Prop := (th.t.length = 0 → th.ptr = none) ∧ (th.t.length ≠ 0 → th.ptr.isSome)

end LWV.Heap

namespace LWV.Heap
open LWV LWV.Model

theorem run_bind {α β} (m : M α) (f : α → M β) (h : H) :
    (m >>= f).run h = (f (m.run h).1).run (m.run h).2 := rfl

theorem run_pure {α} (a : α) (h : H) : (pure a : M α).run h = (a, h) := rfl

/-- what one allocation-aware call on a tag list guarantees (C15 + the ledger part of C14):
either it reports an error and the list is unchanged, or it reports success and the list is the
pure model's result; the ledger stays exact and the ownership invariant holds -/
structure StepOk (th : TagsH) (pureT : Outcome Tags) (r : Int) (th' : TagsH) (h' : H) (own : List Nat) : Prop where
  dich : (r < 0 ∧ th' = th) ∨ (r = 0 ∧ pureT = .ok th'.t)
  clean : Clean h' (blocks th'.ptr ++ own)
  fresh : ∀ id, th'.ptr = some id → id ∉ own
  owns : Owns th'

theorem addTag_len (t : Tags) (tag : Tag) (t' : Tags) (h : addTag t tag = .ok t') : t'.length ≠ 0 := by
  unfold addTag at h
  cases hs : rdSlice "tag body" tag.body 0 tag.len.toNat with
  | ok b => simp [hs] at h; rw [← h]; simp
  | err c => simp [hs] at h
  | fault f => simp [hs] at h

/-- `libwifi_add_tag` under any fault schedule -/
theorem addTagH_ok (σ : Nat → Bool) (th : TagsH) (tag : Tag) (t' : Tags) (hpure : addTag th.t tag = .ok t')
    (h : H) (own : List Nat) (c : Clean h (blocks th.ptr ++ own)) (hf : ∀ id, th.ptr = some id → id ∉ own) (ho : Owns th) :
    StepOk th (addTag th.t tag) ((addTagH σ th tag).run h).1.1 ((addTagH σ th tag).run h).1.2 ((addTagH σ th tag).run h).2 own := by
  have hl := addTag_len _ _ _ hpure
  unfold addTagH
  simp only [hpure, okOr]
  by_cases h0 : th.t.length = 0
  · have hp : th.ptr = none := ho.1 h0
    simp only [h0, if_true]
    rw [run_bind]
    have c0 : Clean h own := by simpa [hp, blocks] using c
    rcases malloc_spec σ (2 + tag.len.toNat) h own c0 with ⟨hn, cn⟩ | ⟨id, hs, hid, cs⟩
    · simp only [hn, run_pure]
      exact ⟨Or.inl ⟨by decide, rfl⟩, by simpa [hp, blocks] using cn, by simp [hp], ho⟩
    · simp only [hs, run_pure]
      refine ⟨Or.inr ⟨rfl, rfl⟩, by simpa [blocks] using cs, fun i hi => by simp at hi; exact hi ▸ hid, ?_⟩
      exact ⟨fun hz => absurd hz hl, fun _ => rfl⟩
  · simp only [h0, if_false]
    rw [run_bind]
    rcases realloc_spec σ th.ptr (th.t.length + (2 + tag.len.toNat)) h own c hf with ⟨hn, cn⟩ | ⟨id, hs, hid, cs⟩
    · simp only [hn, run_pure]
      exact ⟨Or.inl ⟨by decide, rfl⟩, cn, hf, ho⟩
    · simp only [hs, run_pure]
      refine ⟨Or.inr ⟨rfl, rfl⟩, by simpa [blocks] using cs, fun i hi => by simp at hi; exact hi ▸ hid, ?_⟩
      exact ⟨fun hz => absurd hz hl, fun _ => rfl⟩

end LWV.Heap

namespace LWV.Heap
open LWV LWV.Model

theorem Clean.congr {h : H} {l1 l2 : List Nat} (c : Clean h l1) (hm : ∀ x, x ∈ l1 ↔ x ∈ l2) : Clean h l2 :=
  ⟨c.bad, fun x => (c.mem x).trans (hm x), c.nodup, c.fresh⟩

/-- ledger facts carried from call to call -/
structure Ledger (th : TagsH) (h : H) (own : List Nat) : Prop where
  clean : Clean h (blocks th.ptr ++ own)
  fresh : ∀ id, th.ptr = some id → id ∉ own
  owns : Owns th

theorem StepOk.ledger {th : TagsH} {p : Outcome Tags} {r : Int} {th' : TagsH} {h' : H} {own : List Nat}
    (s : StepOk th p r th' h' own) : Ledger th' h' own := ⟨s.clean, s.fresh, s.owns⟩

theorem quickAdd_pure_ok (t : Tags) (num : Nat) (data : Bytes) : ∃ t', quickAddTag t num data = .ok t' := by
  have hle : data.length % 256 ≤ data.length := Nat.mod_le _ _
  simp [quickAddTag, addTag, createTag, rdSlice, hle]

/-- **quick add** under any fault schedule: error-and-unchanged or success-and-stored; ledger exact -/
theorem quickAddTagH_ok (σ : Nat → Bool) (th : TagsH) (num : Nat) (data : Bytes) (h : H) (own : List Nat) (l : Ledger th h own) :
    ((((quickAddTagH σ th num data).run h).1.1 < 0 ∧ ((quickAddTagH σ th num data).run h).1.2 = th) ∨
      (((quickAddTagH σ th num data).run h).1.1 = 0 ∧ quickAddTag th.t num data = .ok ((quickAddTagH σ th num data).run h).1.2.t)) ∧
    Ledger ((quickAddTagH σ th num data).run h).1.2 ((quickAddTagH σ th num data).run h).2 own := by
  obtain ⟨t', ht'⟩ := quickAdd_pure_ok th.t num data
  have hneg : (-ENOMEM : Int) < 0 := by decide
  unfold quickAddTagH
  rw [run_bind]
  rcases malloc_spec σ data.length h (blocks th.ptr ++ own) l.clean with ⟨hn, cn⟩ | ⟨body, hs, hbody, cs⟩
  · simp only [hn, run_pure]
    exact ⟨Or.inl ⟨hneg, trivial⟩, ⟨cn, l.fresh, l.owns⟩⟩
  · simp only [hs]
    rw [run_bind]
    -- the body block joins the blocks owned elsewhere while the tag is added
    have hb_ptr : ∀ id, th.ptr = some id → id ≠ body := by
      intro id hid he; apply hbody; simp [blocks, hid, he]
    have hb_own : body ∉ own := fun hm => hbody (by simp [hm])
    have c1 : Clean ((malloc σ data.length).run h).2 (blocks th.ptr ++ (body :: own)) :=
      cs.congr (by
        intro x; simp only [List.mem_cons, List.mem_append]
        constructor
        · rintro (h | h | h) <;> simp [h]
        · rintro (h | h | h) <;> simp [h])
    have hf1 : ∀ id, th.ptr = some id → id ∉ body :: own := by
      intro id hid hm
      rcases List.mem_cons.mp hm with he | hm
      · exact hb_ptr id hid he
      · exact l.fresh id hid hm
    have ht'' : addTag th.t (createTag num data) = .ok t' := ht'
    have step := addTagH_ok σ th (createTag num data) t' ht'' _ (body :: own) c1 hf1 l.owns
    generalize hres : (addTagH σ th (createTag num data)).run ((malloc σ data.length).run h).2 = res2 at step
    obtain ⟨⟨r, th2⟩, h2⟩ := res2
    simp only at step
    rw [run_bind]
    -- release the body
    have hth2 : ∀ id, th2.ptr = some id → id ∉ body :: own := step.fresh
    have c2 : Clean h2 (blocks (some body) ++ (blocks th2.ptr ++ own)) :=
      step.clean.congr (by
        intro x; simp only [blocks, Option.toList, List.mem_cons, List.mem_append, List.not_mem_nil, or_false]
        constructor
        · rintro (h | h | h) <;> simp [h]
        · rintro (h | h | h) <;> simp [h])
    have hbody2 : ∀ id, (some body : Ptr) = some id → id ∉ blocks th2.ptr ++ own := by
      intro id hid hm
      cases hid
      rcases List.mem_append.mp hm with hm | hm
      · cases hp : th2.ptr with
        | none => simp [blocks, hp] at hm
        | some q =>
          simp [blocks, hp] at hm
          exact hth2 q hp (by simp [hm])
      · exact hb_own hm
    have c3 := free_spec (some body) h2 (blocks th2.ptr ++ own) c2 hbody2
    simp only [run_pure]
    refine ⟨?_, ⟨c3, fun id hid hm => hth2 id hid (List.mem_cons_of_mem _ hm), step.owns⟩⟩
    rcases step.dich with ⟨hr, hth⟩ | ⟨hr, hp⟩
    · exact Or.inl ⟨hr, hth⟩
    · exact Or.inr ⟨hr, hp⟩

end LWV.Heap

namespace LWV.Heap
open LWV LWV.Model

theorem findTag_nonempty (t : Tags) (num : Nat) (e : Spec.ElemAt) (h : findTag t num = .ok (some e)) : t.length ≠ 0 := by
  intro h0
  unfold findTag at h
  rw [h0] at h
  simp [reported, iterInit] at h

/-- **remove** never needs an allocation to succeed: whatever the fault schedule, the result is the
pure model's; the ledger stays exact -/
theorem removeTagH_ok (σ : Nat → Bool) (th : TagsH) (num : Nat) (h : H) (own : List Nat) (l : Ledger th h own)
    (hnf : ∀ f, findTag th.t num ≠ .fault f) :
    removeTag th.t num = .ok (((removeTagH σ th num).run h).1.1, ((removeTagH σ th num).run h).1.2.t) ∧
    Ledger ((removeTagH σ th num).run h).1.2 ((removeTagH σ th num).run h).2 own := by
  unfold removeTagH removeTag
  cases hfind : findTag th.t num with
  | fault f => exact absurd hfind (hnf f)
  | err c => simp only [run_pure]; exact ⟨trivial, l⟩
  | ok o =>
    cases o with
    | none => simp only [run_pure]; exact ⟨trivial, l⟩
    | some e =>
      have hne := findTag_nonempty th.t num e hfind
      have hsome : th.ptr.isSome := l.owns.2 hne
      obtain ⟨pid, hpid⟩ := Option.isSome_iff_exists.mp hsome
      simp only
      by_cases hz : th.t.length - (2 + e.len) = 0
      · simp only [hz, if_true]
        rw [run_bind]
        have c1 := free_spec th.ptr h own l.clean l.fresh
        simp only [run_pure]
        refine ⟨trivial, ⟨by simpa [blocks] using c1, by simp, ⟨fun _ => rfl, fun hh => absurd rfl hh⟩⟩⟩
      · simp only [hz, if_false]
        rw [run_bind]
        rcases realloc_spec σ th.ptr (th.t.length - (2 + e.len)) h own l.clean l.fresh with ⟨hn, cn⟩ | ⟨id, hs, hid, cs⟩
        · simp only [hn, run_pure]
          exact ⟨trivial, ⟨cn, l.fresh, ⟨fun hh => absurd hh hz, fun _ => hsome⟩⟩⟩
        · simp only [hs, run_pure]
          exact ⟨trivial, ⟨by simpa [blocks] using cs, fun i hi => by simp at hi; exact hi ▸ hid, ⟨fun hh => absurd hh hz, fun _ => rfl⟩⟩⟩

end LWV.Heap

namespace LWV.Heap
open LWV LWV.Model

theorem reported_no_fault (bs : Bytes) (f : Fault) : reported bs ≠ .fault f := by
  intro h
  have := LWV.Props.C06.C06_total bs
  rw [h] at this
  cases this

theorem findTag_no_fault (t : Tags) (num : Nat) (f : Fault) : findTag t num ≠ .fault f := by
  unfold findTag
  cases h : reported (t.params.take t.length) with
  | ok es => simp
  | err c => simp
  | fault g => exact absurd h (reported_no_fault _ g)

theorem checkTag_no_fault (t : Tags) (num : Nat) : ∃ c, checkTag t num = .ok c := by
  unfold checkTag
  by_cases h0 : t.length = 0
  · exact ⟨0, by simp [h0]⟩
  · simp only [h0, if_false]
    cases h : reported (t.params.take t.length) with
    | ok es => exact ⟨_, rfl⟩
    | err c => exact ⟨c, rfl⟩
    | fault g => exact absurd h (reported_no_fault _ g)

/-- **set** under any fault schedule: on failure nothing previously stored is lost -/
theorem setTagH_ok (σ : Nat → Bool) (th : TagsH) (num : Nat) (data : Bytes) (h : H) (own : List Nat) (l : Ledger th h own) :
    ((((setTagH σ th num data).run h).1.1 < 0 ∧ ((setTagH σ th num data).run h).1.2 = th) ∨
      setTag th.t num data = .ok (((setTagH σ th num data).run h).1.1, ((setTagH σ th num data).run h).1.2.t)) ∧
    Ledger ((setTagH σ th num data).run h).1.2 ((setTagH σ th num data).run h).2 own := by
  obtain ⟨c, hc⟩ := checkTag_no_fault th.t num
  have hq := quickAddTagH_ok σ th num data h own l
  unfold setTagH setTag
  simp only [hc, okOr]
  rw [run_bind]
  generalize hres : (quickAddTagH σ th num data).run h = res at hq
  obtain ⟨⟨r, th1⟩, h1⟩ := res
  simp only at hq ⊢
  obtain ⟨hd, l1⟩ := hq
  rcases hd with ⟨hr, hth⟩ | ⟨hr, hp⟩
  · have : r ≠ 0 := by omega
    simp only [this, ne_eq, not_false_eq_true, if_true, run_pure]
    exact ⟨Or.inl ⟨hr, hth⟩, l1⟩
  · subst hr
    simp only [ne_eq, not_true_eq_false, if_false]
    by_cases hhad : th.t.length ≠ 0 ∧ c > 0
    · have hrm := removeTagH_ok σ th1 num h1 own l1 (findTag_no_fault _ _)
      simp only [hhad, if_true]
      refine ⟨Or.inr ?_, hrm.2⟩
      have h0 : th.t.length ≠ 0 := hhad.1
      simp only [h0, ne_eq, not_false_eq_true, if_true, Outcome.bind_ok, Outcome.pure_eq, hp, hhad.2, decide_true]
      exact hrm.1
    · simp only [hhad, if_false, run_pure]
      refine ⟨Or.inr ?_, l1⟩
      by_cases h0 : th.t.length = 0
      · simp [h0, hp]
      · have hc0 : ¬ c > 0 := fun hh => hhad ⟨h0, hh⟩
        simp [h0, hp, hc0]

/-- any one call of the tag API under any fault schedule keeps the ledger exact -/
theorem stepTagH_ledger (σ : Nat → Bool) (th : TagsH) (op : TagOp) (h : H) (own : List Nat) (l : Ledger th h own) :
    Ledger ((stepTagH σ th op).run h).1.2 ((stepTagH σ th op).run h).2 own := by
  cases op with
  | add n d => exact (quickAddTagH_ok σ th n d h own l).2
  | remove n => exact (removeTagH_ok σ th n h own l (findTag_no_fault _ _)).2
  | setSsid d => exact (setTagH_ok σ th 0 d h own l).2
  | setChannel c => exact (setTagH_ok σ th 3 [c] h own l).2
  | check n => exact l

/-- run a whole history -/
def runHistory (σ : Nat → Bool) : List TagOp → TagsH → M TagsH
  | [], th => pure th
  | op :: ops, th => do
    let (_, th') ← stepTagH σ th op
    runHistory σ ops th'

theorem runHistory_ledger (σ : Nat → Bool) (ops : List TagOp) (th : TagsH) (h : H) (own : List Nat) (l : Ledger th h own) :
    Ledger ((runHistory σ ops th).run h).1 ((runHistory σ ops th).run h).2 own := by
  induction ops generalizing th h with
  | nil => exact l
  | cons op ops ih =>
    unfold runHistory
    rw [run_bind]
    exact ih _ _ (stepTagH_ledger σ th op h own l)

end LWV.Heap
