import LWV.Lemmas.Tlv
import LWV.Spec.TagsRef
/-
Lemmas about `encode` / `parse` round trips and byte-level surgery on encoded lists.
-/
namespace LWV
open LWV.Spec

def bodiesOk (es : List Elem) : Prop := ∀ e ∈ es, e.body.length ≤ 255

theorem bodiesOk_cons {e : Elem} {t : List Elem} : bodiesOk (e :: t) ↔ e.body.length ≤ 255 ∧ bodiesOk t := by
  simp [bodiesOk]

theorem toNat_ofNat_le {n : Nat} (h : n ≤ 255) : (UInt8.ofNat n).toNat = n := by
  rw [UInt8.toNat_ofNat']; omega

/-- offsets of the elements of a list laid out from `base` -/
def offsets : Nat → List Elem → List ElemAt
  | _, [] => []
  | base, e :: t => ⟨base, e.num, e.body.length⟩ :: offsets (base + 2 + e.body.length) t

theorem encode_cons (e : Elem) (t : List Elem) : encode (e :: t) = encodeElem e ++ encode t := by
  simp [encode]

theorem encode_append (a b : List Elem) : encode (a ++ b) = encode a ++ encode b := by
  simp [encode]

theorem encodeElem_length (e : Elem) : (encodeElem e).length = 2 + e.body.length := by
  simp [encodeElem]; omega

theorem parseF_encode (es : List Elem) (h : bodiesOk es) (f : Nat) (hf : (encode es).length ≤ f) :
    parseF f (encode es) = es := by
  induction es generalizing f with
  | nil => cases f <;> rfl
  | cons e t ih =>
    obtain ⟨he, ht⟩ := bodiesOk_cons.mp h
    rw [encode_cons] at hf ⊢
    simp only [encodeElem, List.cons_append] at hf ⊢
    cases f with
    | zero => simp at hf
    | succ f =>
      simp only [parseF, toNat_ofNat_le he, List.length_append, Nat.le_add_right, if_true,
        List.take_left', List.drop_left']
      rw [ih ht f (by simp only [List.length_cons, List.length_append] at hf; omega)]

theorem parse_encode (es : List Elem) (h : bodiesOk es) : parse (encode es) = es :=
  parseF_encode es h _ (Nat.le_refl _)

theorem parseAtF_encode (es : List Elem) (h : bodiesOk es) (base f : Nat) (hf : (encode es).length ≤ f) :
    parseAtF f base (encode es) = offsets base es := by
  induction es generalizing f base with
  | nil => cases f <;> rfl
  | cons e t ih =>
    obtain ⟨he, ht⟩ := bodiesOk_cons.mp h
    rw [encode_cons] at hf ⊢
    simp only [encodeElem, List.cons_append] at hf ⊢
    cases f with
    | zero => simp at hf
    | succ f =>
      simp only [parseAtF, toNat_ofNat_le he, List.length_append, Nat.le_add_right, if_true,
        List.drop_left', offsets]
      rw [ih ht _ f (by simp only [List.length_cons, List.length_append] at hf; omega)]

theorem parseAt_encode (es : List Elem) (h : bodiesOk es) : parseAt (encode es) = offsets 0 es :=
  parseAtF_encode es h 0 _ (Nat.le_refl _)

/-- every body produced by the parse is at most 255 octets long -/
theorem parseF_bodiesOk (f : Nat) (bs : Bytes) : bodiesOk (parseF f bs) := by
  induction f generalizing bs with
  | zero => intro e he; simp [parseF] at he
  | succ f ih =>
    match bs with
    | [] => intro e he; simp [parseF] at he
    | [_] => intro e he; simp [parseF] at he
    | n :: l :: rest =>
      intro e he
      simp only [parseF] at he
      split at he
      · rcases List.mem_cons.mp he with rfl | he
        · have := l.toNat_lt
          simp only [List.length_take]; omega
        · exact ih _ e he
      · simp at he

theorem wf_iff (bs : Bytes) : wf bs = true ↔ encode (parse bs) = bs := by
  simp [wf]

/-- a well-formed buffer is the encoding of its parse, whose bodies all fit one octet -/
theorem wf_decompose (bs : Bytes) (h : wf bs = true) : ∃ es, bodiesOk es ∧ bs = encode es ∧ parse bs = es :=
  ⟨parse bs, parseF_bodiesOk _ _, ((wf_iff bs).mp h).symm, rfl⟩

theorem wf_encode (es : List Elem) (h : bodiesOk es) : wf (encode es) = true := by
  rw [wf_iff, parse_encode es h]

theorem firstFits_encode_cons (e : Elem) (t : List Elem) (he : e.body.length ≤ 255) :
    firstFits (encode (e :: t)) := by
  rw [encode_cons]
  simp only [encodeElem, List.cons_append, firstFits, toNat_ofNat_le he, List.length_append]
  omega

/-- with no inner empty element, the iterator shows the whole list -/
theorem visible_offsets (base : Nat) (es : List Elem) (h : noInnerEmpty es = true) :
    visible (offsets base es) = offsets base es := by
  cases es with
  | nil => rfl
  | cons e t =>
    simp only [offsets, visible, noInnerEmpty] at h ⊢
    congr 1
    generalize base + 2 + e.body.length = b
    induction t generalizing b with
    | nil => rfl
    | cons x u ih =>
      simp only [List.all_cons, Bool.and_eq_true, Bool.not_eq_true', List.isEmpty_eq_false_iff] at h
      have hx : x.body.length ≠ 0 := by
        intro h0; exact h.1 (List.eq_nil_of_length_eq_zero h0)
      simp only [offsets, List.takeWhile_cons, hx, ne_eq, not_false_eq_true, decide_true, if_true]
      rw [ih h.2]

/-- byte surgery: cutting the first element whose number satisfies `p` out of the encoded bytes
gives the encoding of the list with that element erased -/
theorem splice_erase (p : UInt8 → Bool) (es : List Elem) (pre : Bytes) :
    match (offsets pre.length es).find? (fun a => p a.num) with
    | none => es.eraseP (fun e => p e.num) = es
    | some a => (pre ++ encode es).take a.off ++ (pre ++ encode es).drop (a.off + 2 + a.len)
                  = pre ++ encode (es.eraseP (fun e => p e.num)) ∧ a.off + 2 + a.len ≤ (pre ++ encode es).length := by
  induction es generalizing pre with
  | nil => simp [offsets]
  | cons e t ih =>
    simp only [offsets, List.find?_cons]
    by_cases hp : p e.num = true
    · simp only [hp, List.eraseP_cons, cond_true]
      rw [encode_cons]
      constructor
      · rw [List.take_left' rfl, ← List.append_assoc, List.drop_append_of_le_length (by simp [encodeElem_length]; omega)]
        have : (pre ++ encodeElem e).length = pre.length + 2 + e.body.length := by
          simp [encodeElem_length]; omega
        rw [← this, List.drop_length]
        simp
      · simp [encodeElem_length]; omega
    · simp only [hp, List.eraseP_cons, cond_false]
      have hl : (pre ++ encodeElem e).length = pre.length + 2 + e.body.length := by
        simp [encodeElem_length]; omega
      have := ih (pre ++ encodeElem e)
      rw [hl] at this
      split
      · rename_i h; rw [h] at this; simp only [List.cons.injEq, true_and]; exact this
      · rename_i a h
        rw [h] at this
        rw [encode_cons, encode_cons, ← List.append_assoc, ← List.append_assoc]
        exact this

theorem offsets_append (b : Nat) (a c : List Elem) :
    offsets b (a ++ c) = offsets b a ++ offsets (b + (encode a).length) c := by
  induction a generalizing b with
  | nil => simp [offsets, encode]
  | cons e t ih =>
    simp only [List.cons_append, offsets, ih, encode_cons, List.length_append, encodeElem_length]
    congr 3
    omega

/-- with no inner empty element in `es`, everything of `es` stays visible when one more element
is appended -/
theorem offsets_prefix_visible_append (b : Nat) (es : List Elem) (x : Elem) (h : noInnerEmpty es = true) :
    offsets b es <+: visible (offsets b (es ++ [x])) := by
  cases es with
  | nil => exact List.nil_prefix
  | cons e t =>
    simp only [List.cons_append, offsets, visible]
    apply (List.prefix_cons_inj _).mpr
    simp only [noInnerEmpty] at h
    generalize b + 2 + e.body.length = c
    induction t generalizing c with
    | nil => exact List.nil_prefix
    | cons y u ih =>
      simp only [List.all_cons, Bool.and_eq_true, Bool.not_eq_true', List.isEmpty_eq_false_iff] at h
      have hy : y.body.length ≠ 0 := fun h0 => h.1 (List.eq_nil_of_length_eq_zero h0)
      simp only [List.cons_append, offsets, List.takeWhile_cons, hy, ne_eq, not_false_eq_true, decide_true, if_true]
      exact (List.prefix_cons_inj _).mpr (ih h.2 _)

theorem find_offsets_of_countP (p : UInt8 → Bool) (b : Nat) (es : List Elem) (h : 0 < es.countP (fun e => p e.num)) :
    ∃ a, (offsets b es).find? (fun a => p a.num) = some a := by
  induction es generalizing b with
  | nil => simp at h
  | cons e t ih =>
    simp only [offsets, List.find?_cons]
    by_cases hp : p e.num = true
    · exact ⟨⟨b, e.num, e.body.length⟩, by simp [hp]⟩
    · simp only [hp, Bool.false_eq_true]
      have : 0 < t.countP (fun e => p e.num) := by
        simp only [List.countP_cons, hp, Bool.false_eq_true, if_false, Nat.add_zero] at h
        exact h
      exact ih _ this

theorem eraseP_append_of_countP (p : Elem → Bool) (es : List Elem) (x : Elem) (h : 0 < es.countP p) :
    (es ++ [x]).eraseP p = es.eraseP p ++ [x] := by
  induction es with
  | nil => simp at h
  | cons e t ih =>
    by_cases hp : p e = true
    · simp [List.eraseP_cons, hp]
    · have : 0 < t.countP p := by
        simp only [List.countP_cons, hp, Bool.false_eq_true, if_false, Nat.add_zero] at h
        exact h
      simp only [List.cons_append, List.eraseP_cons, hp, cond_false, ih this]

theorem eraseP_of_countP_zero (p : Elem → Bool) (es : List Elem) (h : es.countP p = 0) : es.eraseP p = es := by
  apply List.eraseP_of_forall_not
  intro a ha hpa
  have : 0 < es.countP p := List.countP_pos_iff.mpr ⟨a, ha, hpa⟩
  omega

theorem countP_offsets (p : UInt8 → Bool) (base : Nat) (es : List Elem) :
    (offsets base es).countP (fun a => p a.num) = es.countP (fun e => p e.num) := by
  induction es generalizing base with
  | nil => rfl
  | cons e t ih => simp only [offsets, List.countP_cons, ih]

end LWV
