/-
Association-list lemmas (core Lean only).
-/
namespace LWV

theorem mem_of_lookup_eq_some {α β} [BEq α] [LawfulBEq α] {l : List (α × β)} {a : α} {b : β}
    (h : l.lookup a = some b) : (a, b) ∈ l := by
  induction l with
  | nil => simp [List.lookup] at h
  | cons p t ih =>
    obtain ⟨k, v⟩ := p
    by_cases hk : a == k
    · have : a = k := by simpa using hk
      subst this
      simp [List.lookup] at h
      subst h
      exact List.mem_cons_self
    · simp [List.lookup, hk] at h
      exact List.mem_cons_of_mem _ (ih h)

theorem lookup_eq_some_of_mem {α β} [BEq α] [LawfulBEq α] {l : List (α × β)} {a : α} {b : β}
    (nd : (l.map (·.1)).Nodup) (h : (a, b) ∈ l) : l.lookup a = some b := by
  induction l with
  | nil => cases h
  | cons p t ih =>
    obtain ⟨k, v⟩ := p
    simp only [List.map_cons, List.nodup_cons] at nd
    rcases List.mem_cons.mp h with h1 | h2
    · cases h1
      simp [List.lookup]
    · have hne : (a == k) = false := by
        apply Bool.eq_false_iff.mpr
        intro hk
        have hak : a = k := by simpa using hk
        exact nd.1 (List.mem_map.mpr ⟨(a, b), h2, by simp [hak]⟩)
      rw [List.lookup_cons, hne]
      exact ih nd.2 h2

theorem lookup_eq_none_of_forall {α β} [BEq α] [LawfulBEq α] {l : List (α × β)} {a : α}
    (h : ∀ b, (a, b) ∉ l) : l.lookup a = none := by
  induction l with
  | nil => rfl
  | cons p t ih =>
    obtain ⟨k, v⟩ := p
    have hne : (a == k) = false := by
      apply Bool.eq_false_iff.mpr
      intro hk
      have hak : a = k := by simpa using hk
      exact h v (by simp [hak])
    rw [List.lookup_cons, hne]
    exact ih (fun b hb => h b (List.mem_cons_of_mem _ hb))

/-- Two association lists that are converses of each other (as sets of pairs), with
distinct keys on both sides, define the same partial function. -/
theorem lookup_converse {α β} [BEq α] [LawfulBEq α] [BEq β] [LawfulBEq β]
    {l : List (α × β)} {r : List (β × α)}
    (ndl : (l.map (·.1)).Nodup)
    (h1 : ∀ p ∈ l, (p.2, p.1) ∈ r) (h2 : ∀ q ∈ r, (q.2, q.1) ∈ l) (a : α) :
    l.lookup a = (r.find? (fun q => q.2 == a)).map (·.1) := by
  cases hf : r.find? (fun q => q.2 == a) with
  | none =>
    simp only [Option.map_none]
    apply lookup_eq_none_of_forall
    intro b hb
    have := h1 _ hb
    have hn := List.find?_eq_none.mp hf _ this
    simp at hn
  | some q =>
    simp only [Option.map_some]
    have hq := List.find?_some hf
    have hm := List.mem_of_find?_eq_some hf
    have : q.2 = a := by simpa using hq
    subst this
    exact lookup_eq_some_of_mem ndl (h2 _ hm)

end LWV

namespace LWV

/-- structural insertion sort (reduces in the kernel, unlike `List.mergeSort`) -/
def insertBy {α} (key : α → Int) (x : α) : List α → List α
  | [] => [x]
  | y :: ys => if key x ≤ key y then x :: y :: ys else y :: insertBy key x ys

def isort {α} (key : α → Int) (l : List α) : List α := l.foldr (insertBy key) []

theorem mem_insertBy {α} (key : α → Int) (x a : α) (l : List α) :
    a ∈ insertBy key x l ↔ a = x ∨ a ∈ l := by
  induction l with
  | nil => simp [insertBy]
  | cons y ys ih =>
    unfold insertBy
    split
    · simp
    · simp only [List.mem_cons, ih]
      constructor
      · rintro (h | h | h) <;> simp [h]
      · rintro (h | h | h) <;> simp [h]

theorem mem_isort {α} (key : α → Int) (a : α) (l : List α) : a ∈ isort key l ↔ a ∈ l := by
  induction l with
  | nil => simp [isort]
  | cons y ys ih =>
    have : isort key (y :: ys) = insertBy key y (isort key ys) := rfl
    rw [this, mem_insertBy, ih]
    simp

end LWV

namespace LWV

theorem insertBy_perm {α} (key : α → Int) (x : α) (l : List α) : (insertBy key x l).Perm (x :: l) := by
  induction l with
  | nil => exact List.Perm.refl _
  | cons y ys ih =>
    unfold insertBy
    split
    · exact List.Perm.refl _
    · exact (List.Perm.cons y ih).trans (List.Perm.swap x y ys)

theorem isort_perm {α} (key : α → Int) (l : List α) : (isort key l).Perm l := by
  induction l with
  | nil => exact List.Perm.refl _
  | cons y ys ih =>
    have : isort key (y :: ys) = insertBy key y (isort key ys) := rfl
    rw [this]
    exact (insertBy_perm key y _).trans (List.Perm.cons y ih)

/-- O(n) distinctness check for a list that is (after sorting) strictly ascending -/
def strictAsc : List Int → Bool
  | [] => true
  | [_] => true
  | x :: y :: t => decide (x < y) && strictAsc (y :: t)

theorem strictAsc_lt_all : ∀ (l : List Int) (x : Int), strictAsc (x :: l) = true → ∀ y ∈ l, x < y
  | [], _, _ => by intro y hy; cases hy
  | z :: t, x, h => by
    simp only [strictAsc, Bool.and_eq_true, decide_eq_true_eq] at h
    intro y hy
    rcases List.mem_cons.mp hy with rfl | hy
    · exact h.1
    · exact Int.lt_trans h.1 (strictAsc_lt_all t z h.2 y hy)

theorem strictAsc_nodup : ∀ (l : List Int), strictAsc l = true → l.Nodup
  | [], _ => List.nodup_nil
  | [x], _ => by simp
  | x :: y :: t, h => by
    have hlt := strictAsc_lt_all (y :: t) x h
    simp only [strictAsc, Bool.and_eq_true, decide_eq_true_eq] at h
    refine List.nodup_cons.mpr ⟨?_, strictAsc_nodup (y :: t) h.2⟩
    intro hm
    exact Int.lt_irrefl _ (hlt x hm)

/-- distinctness, checked in O(n) kernel steps when the list is already ascending -/
theorem nodup_of_sorted_strictAsc (l : List Int) (h : strictAsc (isort id l) = true) : l.Nodup :=
  (isort_perm id l).nodup_iff.mp (strictAsc_nodup _ h)

end LWV
