import LWV.Model.Radiotap
/-
Memory safety and termination (fuel sufficiency) of the radiotap parser model:
`parseRadiotapInfo bs` is never a `.fault`.
-/
namespace LWV.Model
open LWV

/-! ### checked reads inside the buffer succeed -/

theorem rd_ex {what : String} {bs : Bytes} {i : Nat} (h : i < bs.length) : ∃ v, rd what bs i = .ok v :=
  ⟨_, rd_ok h⟩

theorem le16At_ex {what : String} {bs : Bytes} {i : Nat} (h : i + 2 ≤ bs.length) :
    ∃ v, le16At what bs i = .ok v := by
  unfold le16At
  rw [rd_ok (show i < bs.length by omega), rd_ok (show i + 1 < bs.length by omega)]
  exact ⟨_, rfl⟩

theorem le32At_ex {what : String} {bs : Bytes} {i : Nat} (h : i + 4 ≤ bs.length) :
    ∃ v, le32At what bs i = .ok v := by
  unfold le32At rdSlice
  rw [if_pos h]
  exact ⟨_, rfl⟩

theorem le64At_ex {what : String} {bs : Bytes} {i : Nat} (h : i + 8 ≤ bs.length) :
    ∃ v, le64At what bs i = .ok v := by
  unfold le64At rdSlice
  rw [if_pos h]
  exact ⟨_, rfl⟩

theorem le32At_ok_bound {what : String} {bs : Bytes} {i w : Nat} (h : le32At what bs i = .ok w) :
    i + 4 ≤ bs.length := by
  unfold le32At rdSlice at h
  split at h
  · assumption
  · simp at h

/-! ### the chain of extended `present` words -/

/-- the `present` words starting at `off` form a readable chain ending in a word without bit 31 -/
inductive Chain (bs : Bytes) : Nat → Prop
  | last (off w : Nat) : le32At "radiotap" bs off = .ok w → w.testBit 31 = false → Chain bs off
  | more (off w : Nat) : le32At "radiotap" bs off = .ok w → w.testBit 31 = true → Chain bs (off + 4) → Chain bs off

theorem Chain.next {bs : Bytes} {off w : Nat} (hc : Chain bs off) (hw : le32At "radiotap" bs off = .ok w)
    (hb : w.testBit 31 = true) : Chain bs (off + 4) := by
  cases hc with
  | last _ w' hw' hb' => rw [hw] at hw'; cases hw'; rw [hb] at hb'; cases hb'
  | more _ w' hw' hb' hn => exact hn

/-! ### `rtInit` -/

theorem rtInit_skip_spec (bs : Bytes) (itLen : Nat) (hlen : itLen ≤ bs.length) :
    ∀ (fuel arg : Nat), arg + 4 ≤ itLen → bs.length < fuel + arg →
      (∀ f, rtInit.skip bs itLen fuel arg ≠ .fault f) ∧
      (∀ a, rtInit.skip bs itLen fuel arg = .ok a → Chain bs arg) := by
  intro fuel
  induction fuel with
  | zero => intro arg h1 h2; omega
  | succ fuel ih =>
    intro arg h1 h2
    obtain ⟨w, hw⟩ := le32At_ex (what := "radiotap") (bs := bs) (i := arg) (by omega)
    unfold rtInit.skip
    simp only [hw, Outcome.bind_ok]
    cases hb : w.testBit 31 with
    | false =>
      simp only [Bool.false_eq_true, if_false]
      exact ⟨(fun f h => nomatch h), fun a _ => Chain.last arg w hw hb⟩
    | true =>
      simp only [if_true]
      split
      · exact ⟨(fun f h => nomatch h), fun a h => nomatch h⟩
      · rename_i hgt
        have ih' := ih (arg + 4) (by omega) (by omega)
        exact ⟨ih'.1, fun a h => Chain.more arg w hw hb (ih'.2 a h)⟩

/-- invariant of the iterator: the present word the shifter was loaded from is the last link read of
a readable chain, and the shifter is that word shifted by the current bit number -/
def RtInv (bs : Bytes) (it : RtIt) : Prop :=
  it.maxLength ≤ bs.length ∧ 8 ≤ it.nextBitmap ∧
    ∃ w, le32At "radiotap" bs (it.nextBitmap - 4) = .ok w ∧ Chain bs (it.nextBitmap - 4) ∧
      it.shifter = w / 2 ^ (it.argIndex % 32)

/-- termination measure of `rtNext` -/
def rtMu (bs : Bytes) (it : RtIt) : Nat := 8 * (bs.length + 4 - it.nextBitmap) + (32 - it.argIndex % 32)

theorem rtInit_spec (bs : Bytes) (n : Nat) (h : n ≤ bs.length) :
    (∀ f, rtInit bs n ≠ .fault f) ∧
    (∀ it, rtInit bs n = .ok it → RtInv bs it ∧ it.thisArgIndex = 0) := by
  unfold rtInit
  split
  · exact ⟨(fun f h => nomatch h), fun a h => nomatch h⟩
  · rename_i h8
    obtain ⟨ver, hver⟩ := rd_ex (what := "radiotap") (bs := bs) (i := 0) (by omega)
    obtain ⟨itLen, hlen⟩ := le16At_ex (what := "radiotap") (bs := bs) (i := 2) (by omega)
    obtain ⟨w, hw⟩ := le32At_ex (what := "radiotap") (bs := bs) (i := 4) (by omega)
    simp only [hver, hlen, hw, Outcome.bind_ok]
    split
    · exact ⟨(fun f h => nomatch h), fun a h => nomatch h⟩
    split
    · exact ⟨(fun f h => nomatch h), fun a h => nomatch h⟩
    rename_i hle
    cases hb : w.testBit 31 with
    | false =>
      simp only [Bool.false_eq_true, if_false]
      refine ⟨(fun f h => nomatch h), fun it hit => ?_⟩
      cases hit
      exact ⟨⟨by simp only; omega, by simp only; omega, w, hw, Chain.last 4 w hw hb, by simp⟩, rfl⟩
    | true =>
      simp only [if_true]
      split
      · exact ⟨(fun f h => nomatch h), fun a h => nomatch h⟩
      rename_i h12
      have hs := rtInit_skip_spec bs itLen (by omega) (bs.length + 1) 8 (by omega) (by omega)
      cases hsk : rtInit.skip bs itLen (bs.length + 1) 8 with
      | fault f => exact absurd hsk (hs.1 f)
      | err c => exact ⟨(fun f h => nomatch h), fun a h => nomatch h⟩
      | ok a =>
        simp only [Outcome.bind_ok]
        refine ⟨(fun f h => nomatch h), fun it hit => ?_⟩
        cases hit
        exact ⟨⟨by simp only; omega, by simp only; omega, w, hw, Chain.more 4 w hw hb (hs.2 a hsk), by simp⟩, rfl⟩

theorem rtInit_no_fault (bs : Bytes) (n : Nat) (h : n ≤ bs.length) (f : Fault) : rtInit bs n ≠ .fault f :=
  (rtInit_spec bs n h).1 f

theorem rtInit_inv {bs : Bytes} {n : Nat} {it : RtIt} (hi : rtInit bs n = .ok it) (h : n ≤ bs.length) :
    RtInv bs it :=
  ((rtInit_spec bs n h).2 it hi).1

theorem rtInit_thisArgIndex {bs : Bytes} {n : Nat} {it : RtIt} (hi : rtInit bs n = .ok it) (h : n ≤ bs.length) :
    it.thisArgIndex = 0 :=
  ((rtInit_spec bs n h).2 it hi).2

/-! ### `rtNext` -/

theorem pow_shift (w b : Nat) : w / 2 ^ b / 2 = w / 2 ^ (b + 1) := by
  rw [Nat.div_div_eq_div_mul, Nat.pow_succ]

/-- advancing to the next bit (not from bit 31) keeps the invariant and decreases the measure -/
theorem RtInv.step {bs : Bytes} {it it' : RtIt} (h : RtInv bs it) (hb : it.argIndex % 32 ≠ 31)
    (h1 : it'.maxLength = it.maxLength) (h2 : it'.nextBitmap = it.nextBitmap)
    (h3 : it'.shifter = it.shifter / 2) (h4 : it'.argIndex = it.argIndex + 1) :
    RtInv bs it' ∧ rtMu bs it' < rtMu bs it := by
  obtain ⟨hm, h8, w, hw, hc, hs⟩ := h
  have hmod : (it.argIndex + 1) % 32 = it.argIndex % 32 + 1 := by omega
  refine ⟨⟨by omega, by omega, w, by rw [h2]; exact hw, by rw [h2]; exact hc, ?_⟩, ?_⟩
  · rw [h3, h4, hs, hmod, pow_shift]
  · unfold rtMu; rw [h2, h4]; omega

theorem RtInv.load {bs : Bytes} {it : RtIt} (h : RtInv bs it) (hb : it.argIndex % 32 = 31)
    (hp : it.shifter % 2 = 1) :
    ∃ w, le32At "radiotap" bs it.nextBitmap = .ok w ∧
      ∀ it' : RtIt, it'.maxLength = it.maxLength → it'.nextBitmap = it.nextBitmap + 4 →
        it'.shifter = w → (it'.argIndex = 0 ∨ it'.argIndex = it.argIndex + 1) →
        RtInv bs it' ∧ rtMu bs it' < rtMu bs it := by
  obtain ⟨hm, h8, w, hw, hc, hs⟩ := h
  have hbit : w.testBit 31 = true := by
    rw [Nat.testBit_eq_decide_div_mod_eq, decide_eq_true_eq, ← hb, ← hs]; exact hp
  have hc' := hc.next hw hbit
  have e : it.nextBitmap - 4 + 4 = it.nextBitmap := by omega
  rw [e] at hc'
  have : ∃ w', le32At "radiotap" bs it.nextBitmap = .ok w' := by
    cases hc' with
    | last _ w' hw' _ => exact ⟨w', hw'⟩
    | more _ w' hw' _ _ => exact ⟨w', hw'⟩
  obtain ⟨w', hw'⟩ := this
  refine ⟨w', hw', fun it' h1 h2 h3 h4 => ?_⟩
  have hbound := le32At_ok_bound hw'
  have hmod : it'.argIndex % 32 = 0 := by omega
  have e' : it'.nextBitmap - 4 = it.nextBitmap := by omega
  refine ⟨⟨by omega, by omega, w', by rw [e']; exact hw', by rw [e']; exact hc', ?_⟩, ?_⟩
  · rw [h3, hmod]; simp
  · unfold rtMu; rw [h2, hmod, hb]; omega

/-- what a hit of `rtNext` started from `it` guarantees about the new iterator `it'` -/
def RtHit (bs : Bytes) (it it' : RtIt) : Prop :=
  RtInv bs it' ∧ rtMu bs it' < rtMu bs it ∧ it'.thisArg + it'.thisArgSize ≤ it'.maxLength ∧
    (it'.thisArgIndex = 30 ∨ (it'.thisArgIndex < Gen.rtapNBits ∧ it'.thisArgSize = rtSize it'.thisArgIndex))

/-- acceptable results of `rtNext` started from `it` -/
def RtNextOk (bs : Bytes) (it : RtIt) : Outcome RtNext → Prop
  | .fault _ => False
  | .ok (.hit it') => RtHit bs it it'
  | _ => True

theorem RtNextOk.mono {bs : Bytes} {it it1 : RtIt} {r : Outcome RtNext} (h : RtNextOk bs it1 r)
    (hlt : rtMu bs it1 < rtMu bs it) : RtNextOk bs it r := by
  match r, h with
  | .ok (.hit it'), h =>
    obtain ⟨a, b, c, d⟩ := h
    exact ⟨a, by omega, c, d⟩
  | .ok (.stop _), _ => trivial
  | .err _, _ => trivial

theorem RtNextOk.hit {bs : Bytes} {it it' : RtIt} (h : RtInv bs it) (hb : it.argIndex % 32 ≠ 31)
    (h1 : it'.maxLength = it.maxLength) (h2 : it'.nextBitmap = it.nextBitmap)
    (h3 : it'.shifter = it.shifter / 2) (h4 : it'.argIndex = it.argIndex + 1)
    (h5 : it'.thisArg + it'.thisArgSize ≤ it'.maxLength)
    (h6 : it'.thisArgIndex = 30 ∨ (it'.thisArgIndex < Gen.rtapNBits ∧ it'.thisArgSize = rtSize it'.thisArgIndex)) :
    RtNextOk bs it (.ok (.hit it')) :=
  have hs := h.step hb h1 h2 h3 h4
  ⟨hs.1, hs.2, h5, h6⟩

theorem rtNext_ok (bs : Bytes) : ∀ (fuel : Nat) (it : RtIt), RtInv bs it → rtMu bs it ≤ fuel →
    RtNextOk bs it (rtNext bs fuel it) := by
  intro fuel
  induction fuel with
  | zero => intro it _ h; unfold rtMu at h; omega
  | succ fuel ih =>
    intro it hinv hfuel
    -- recursive trips: any iterator with smaller measure satisfying the invariant
    have trip : ∀ it1, RtInv bs it1 ∧ rtMu bs it1 < rtMu bs it → RtNextOk bs it (rtNext bs fuel it1) :=
      fun it1 h => (ih it1 h.1 (by omega)).mono h.2
    unfold rtNext
    simp only []
    by_cases hp : it.shifter % 2 = 1
    case neg =>
      by_cases h31 : it.argIndex % 32 = 31
      · simp only [h31, hp, not_false_eq_true, and_self, if_true]; trivial
      · simp only [h31, hp, not_false_eq_true, false_and, if_true, if_false]
        exact trip _ (hinv.step h31 rfl rfl rfl rfl)
    case pos =>
      by_cases h31 : it.argIndex % 32 = 31
      · obtain ⟨w, hw, hload⟩ := hinv.load h31 hp
        simp [h31, hp, hw, Nat.mod_one]
        split
        · trivial
        · exact trip _ (hload _ rfl rfl rfl (by dsimp only; split; exact Or.inl rfl; exact Or.inr rfl))
      by_cases h29 : it.argIndex % 32 = 29
      · simp [h29, hp, Nat.mod_one]
        split
        · trivial
        · exact trip _ (hinv.step h31 rfl rfl rfl rfl)
      by_cases h30 : it.argIndex % 32 = 30
      · simp [h30, hp]
        generalize (if it.arg % 2 = 1 then it.arg + (2 - it.arg % 2) else it.arg) = a
        split
        · trivial
        rename_i hle
        obtain ⟨v, hv⟩ := le16At_ex (what := "radiotap") (bs := bs) (i := a + 4) (by have := hinv.1; omega)
        simp only [hv, Outcome.bind_ok]
        split
        · trivial
        rename_i hle2
        exact RtNextOk.hit hinv h31 rfl rfl rfl rfl (by show a + (6 + v) ≤ it.maxLength; omega) (Or.inl rfl)
      simp [h29, h30, h31, hp]
      by_cases hns : it.inRadiotapNs = false ∨ Gen.rtapNBits ≤ it.argIndex
      · simp only [if_pos hns]
        by_cases hb : it.inRadiotapNs = true
        · simp [hb]; trivial
        · simp [hb]
          exact trip _ (hinv.step h31 rfl rfl rfl rfl)
      by_cases ha : rtAlign it.argIndex = 0
      · simp [hns, ha]; trivial
      simp [hns, ha]
      generalize (if it.arg % rtAlign it.argIndex = 0 then it.arg
                  else it.arg + (rtAlign it.argIndex - it.arg % rtAlign it.argIndex)) = a
      split
      · trivial
      rename_i hle
      exact RtNextOk.hit hinv h31 rfl rfl rfl rfl (by show a + rtSize it.argIndex ≤ it.maxLength; omega)
        (Or.inr ⟨by show it.argIndex < Gen.rtapNBits; omega, rfl⟩)

theorem rtNext_inv {bs : Bytes} {fuel : Nat} {it : RtIt} (h : RtInv bs it) (hf : rtMu bs it ≤ fuel) :
    (∀ f, rtNext bs fuel it ≠ .fault f) ∧
    (∀ it', rtNext bs fuel it = .ok (.hit it') →
      RtInv bs it' ∧ rtMu bs it' < rtMu bs it ∧ it'.thisArg + it'.thisArgSize ≤ it'.maxLength ∧
        (it'.thisArgIndex = 30 ∨
          (it'.thisArgIndex < Gen.rtapNBits ∧ it'.thisArgSize = rtSize it'.thisArgIndex))) := by
  have hok := rtNext_ok bs fuel it h hf
  constructor
  · intro f hfa; rw [hfa] at hok; exact hok
  · intro it' hit; rw [hit] at hok; exact hok

/-! ### `rtField` -/

theorem rd_eq {what : String} {bs : Bytes} {i : Nat} (h : i < bs.length) :
    rd what bs i = .ok (bs.getD i 0) := by
  rw [rd_ok h]; simp [List.getD_eq_getElem?_getD, List.getElem?_eq_getElem h]

theorem le16At_eq {what : String} {bs : Bytes} {i : Nat} (h : i + 2 ≤ bs.length) :
    le16At what bs i = .ok (le16 (bs.getD i 0) (bs.getD (i + 1) 0)) := by
  unfold le16At
  rw [rd_eq (show i < bs.length by omega), rd_eq (show i + 1 < bs.length by omega)]
  rfl

theorem le64At_eq {what : String} {bs : Bytes} {i : Nat} (h : i + 8 ≤ bs.length) :
    le64At what bs i = .ok (leNat ((bs.drop i).take 8)) := by
  unfold le64At rdSlice
  rw [if_pos h]; rfl

/-- sizes of the fields the parser reads, from the regenerated table -/
theorem rtSize_handled :
    rtSize 1 = 1 ∧ rtSize 2 = 1 ∧ rtSize 3 = 4 ∧ rtSize 5 = 1 ∧ rtSize 10 = 1 ∧ rtSize 11 = 1 ∧
    rtSize 14 = 2 ∧ rtSize 15 = 2 ∧ rtSize 16 = 1 ∧ rtSize 17 = 1 ∧ rtSize 19 = 3 ∧ rtSize 22 = 12 := by
  decide

/-- the argument of the current field lies inside the buffer (or the field is one `rtField` ignores) -/
def RtArgOk (bs : Bytes) (it : RtIt) : Prop :=
  it.thisArgIndex = 0 ∨ it.thisArgIndex = 30 ∨
    (it.thisArgSize = rtSize it.thisArgIndex ∧ it.thisArg + it.thisArgSize ≤ bs.length)

theorem rtField_no_fault {bs : Bytes} {it : RtIt} (h : RtArgOk bs it) (st : RtInfo × Bool) (f : Fault) :
    rtField bs it st ≠ .fault f := by
  obtain ⟨s1, s2, s3, s5, s10, s11, s14, s15, s16, s17, s19, s22⟩ := rtSize_handled
  unfold rtField
  simp only []
  rcases h with h | h | ⟨hsz, hle⟩
  · rw [h]; exact fun h => nomatch h
  · rw [h]; exact fun h => nomatch h
  · split
    all_goals first
      | (intro hc; cases hc; done)
      | (rename_i heq
         rw [heq] at hsz
         simp only [s1, s2, s3, s5, s10, s11, s14, s15, s16, s17, s19, s22] at hsz
         simp (disch := omega) only [rd_eq, le16At_eq, le64At_eq, Outcome.bind_ok]
         repeat' split
         all_goals exact fun h => nomatch h)

/-! ### the loop and the parser -/

theorem rtMu_pos (bs : Bytes) (it : RtIt) : 0 < rtMu bs it := by
  unfold rtMu; omega

theorem rtMu_le {bs : Bytes} {it : RtIt} (h : RtInv bs it) : rtMu bs it ≤ 8 * bs.length := by
  obtain ⟨_, h8, w, hw, _, _⟩ := h
  have := le32At_ok_bound hw
  unfold rtMu; omega

theorem rtLoop_no_fault (bs : Bytes) : ∀ (fuel : Nat) (it : RtIt) (st : RtInfo × Bool),
    RtInv bs it → RtArgOk bs it → rtMu bs it ≤ fuel → ∀ f, rtLoop bs fuel it st ≠ .fault f := by
  intro fuel
  induction fuel with
  | zero => intro it _ _ _ h; have := rtMu_pos bs it; omega
  | succ fuel ih =>
    intro it st hinv harg hfuel f
    unfold rtLoop
    cases hfld : rtField bs it st with
    | fault g => exact absurd hfld (rtField_no_fault harg st g)
    | err c => exact fun h => nomatch h
    | ok st' =>
      simp only [Outcome.bind_ok]
      have hn := rtNext_inv (fuel := 40 * (bs.length + 2)) hinv (by have := rtMu_le hinv; omega)
      cases hnx : rtNext bs (40 * (bs.length + 2)) it with
      | fault g => exact absurd hnx (hn.1 g)
      | err c => exact fun h => nomatch h
      | ok r =>
        simp only [Outcome.bind_ok]
        cases r with
        | stop c => exact fun h => nomatch h
        | hit it' =>
          obtain ⟨hinv', hmu, hle, hidx⟩ := hn.2 it' hnx
          refine ih it' st' hinv' ?_ (by omega) f
          rcases hidx with h30 | ⟨_, hsz⟩
          · exact Or.inr (Or.inl h30)
          · exact Or.inr (Or.inr ⟨hsz, by have := hinv'.1; omega⟩)

theorem parseRadiotapInfo_no_fault (bs : Bytes) (f : Fault) : parseRadiotapInfo bs ≠ .fault f := by
  unfold parseRadiotapInfo
  split
  · exact fun h => nomatch h
  rename_i h8
  obtain ⟨itLen, hlen⟩ := le16At_ex (what := "radiotap") (bs := bs) (i := 2) (by omega)
  obtain ⟨w, hw⟩ := le32At_ex (what := "radiotap") (bs := bs) (i := 4) (by omega)
  simp only [hlen, Outcome.bind_ok]
  split
  · exact fun h => nomatch h
  cases hi : rtInit bs bs.length with
  | fault g => exact absurd hi (rtInit_no_fault bs bs.length (Nat.le_refl _) g)
  | err c => exact fun h => nomatch h
  | ok it =>
    simp only [hw, Outcome.bind_ok]
    have hinv := rtInit_inv hi (Nat.le_refl _)
    exact rtLoop_no_fault bs _ it _ hinv (Or.inl (rtInit_thisArgIndex hi (Nat.le_refl _)))
      (by have := rtMu_le hinv; omega) f

end LWV.Model
