import LWV.Model.Radiotap
import LWV.Spec.Radiotap
import LWV.Lemmas.Endian
/-
Lemmas about the radiotap generator loop: it never overruns its staging area, and on carried
fields it is the Spec encoder.
-/
namespace LWV
open LWV.Model

/-- the most one field can add to the staging area: worst-case padding plus its bytes -/
def rtWorst (g : RtGen) (f : Nat) : Nat := (rtAlign f - 1) + (rtGenField g f).length

theorem mod_pad_le (n a : Nat) (ha : 0 < a) : (a - n % a) % a ≤ a - 1 := by
  have := Nat.mod_lt (a - n % a) ha
  omega

/-- the loop succeeds and its output is bounded, whenever the worst cases fit the staging area -/
theorem rtGenLoop_ok (g : RtGen) (fs : List Nat) (data : Bytes)
    (h : data.length + (fs.map (rtWorst g)).sum ≤ rtStagingCap) :
    ∃ out, rtGenLoop g fs data = .ok out ∧ out.length ≤ data.length + (fs.map (rtWorst g)).sum := by
  induction fs generalizing data with
  | nil => exact ⟨data, rfl, by simp⟩
  | cons f rest ih =>
    simp only [List.map_cons, List.sum_cons] at h ⊢
    unfold rtGenLoop
    by_cases hp : g.present.testBit f = true
    · simp only [hp, if_true]
      by_cases ha : rtAlign f = 0
      · simp only [ha, if_true]
        obtain ⟨out, h1, h2⟩ := ih data (by omega)
        exact ⟨out, h1, by omega⟩
      · simp only [ha, if_false]
        have hpad := mod_pad_le data.length (rtAlign f) (Nat.pos_of_ne_zero ha)
        have hlen : (data ++ List.replicate ((rtAlign f - data.length % rtAlign f) % rtAlign f) 0 ++ rtGenField g f).length
            ≤ data.length + rtWorst g f := by
          simp only [List.length_append, List.length_replicate, rtWorst]; omega
        have hcap : ¬ ((data ++ List.replicate ((rtAlign f - data.length % rtAlign f) % rtAlign f) 0 ++ rtGenField g f).length > rtStagingCap) := by
          omega
        simp only [hcap, if_false]
        generalize data ++ List.replicate ((rtAlign f - data.length % rtAlign f) % rtAlign f) 0 ++ rtGenField g f = d1 at hlen hcap ⊢
        obtain ⟨out, h1, h2⟩ := ih d1 (by omega)
        exact ⟨out, h1, by omega⟩
    · simp only [hp, Bool.false_eq_true, if_false]
      obtain ⟨out, h1, h2⟩ := ih data (by omega)
      exact ⟨out, h1, by omega⟩

end LWV

namespace LWV
open LWV.Model

theorem antenna_len (c a b : Nat) :
    ((List.range c).flatMap (fun _ => leBytes 1 a ++ leBytes 1 b)).length = 2 * c := by
  induction c with
  | zero => rfl
  | succ c ih =>
    rw [List.range_succ, List.flatMap_append, List.length_append, ih]
    simp [leBytes]
    omega

theorem range23 : List.range 23 = [0, 1, 2, 3, 4, 5, 6, 7, 8, 9, 10, 11, 12, 13, 14, 15, 16, 17, 18, 19, 20, 21, 22] := by
  decide

theorem rtAligns : (List.range 23).map rtAlign = [8, 1, 1, 2, 2, 1, 1, 2, 2, 2, 1, 1, 1, 1, 2, 2, 1, 1, 0, 1, 4, 2, 8] := by
  decide +kernel

theorem fieldLens (g : RtGen) : (List.range 23).map (fun f => (rtGenField g f).length)
    = [0, 1, 1, 4, 0, 1, 0, 0, 0, 0, 1, 2 * g.antennaCount, 0, 0, 2, 2, 1, 1, 0, 3, 0, 0, 12] := by
  rw [range23]
  have e0 : rtGenField g 0 = [] := rfl
  have e1 : rtGenField g 1 = leBytes 1 g.flags := rfl
  have e2 : rtGenField g 2 = leBytes 1 g.rateRaw := rfl
  have e3 : rtGenField g 3 = leBytes 2 g.chanFreq ++ leBytes 2 g.chanFlags := rfl
  have e4 : rtGenField g 4 = [] := rfl
  have e5 : rtGenField g 5 = leBytes 1 g.signal := rfl
  have e6 : rtGenField g 6 = [] := rfl
  have e7 : rtGenField g 7 = [] := rfl
  have e8 : rtGenField g 8 = [] := rfl
  have e9 : rtGenField g 9 = [] := rfl
  have e10 : rtGenField g 10 = leBytes 1 g.txPower := rfl
  have e11 : rtGenField g 11 = (List.range g.antennaCount).flatMap (fun _ => leBytes 1 g.ant0Number ++ leBytes 1 g.ant0Signal) := rfl
  have e12 : rtGenField g 12 = [] := rfl
  have e13 : rtGenField g 13 = [] := rfl
  have e14 : rtGenField g 14 = leBytes 2 g.rxFlags := rfl
  have e15 : rtGenField g 15 = leBytes 2 g.txFlags := rfl
  have e16 : rtGenField g 16 = leBytes 1 g.rtsRetries := rfl
  have e17 : rtGenField g 17 = leBytes 1 g.dataRetries := rfl
  have e18 : rtGenField g 18 = [] := rfl
  have e19 : rtGenField g 19 = leBytes 1 g.mcsKnown ++ leBytes 1 g.mcsFlags ++ leBytes 1 g.mcsMcs := rfl
  have e20 : rtGenField g 20 = [] := rfl
  have e21 : rtGenField g 21 = [] := rfl
  have e22 : rtGenField g 22 = leBytes 8 g.tsTimestamp ++ leBytes 2 g.tsAccuracy ++ leBytes 1 g.tsUnit ++ leBytes 1 g.tsFlags := rfl
  simp only [List.map_cons, List.map_nil, e0, e1, e2, e3, e4, e5, e6, e7, e8, e9, e10, e11, e12, e13, e14, e15, e16, e17,
    e18, e19, e20, e21, e22, List.length_append, leBytes_length, antenna_len, List.length_nil]

/-- worst-case growth of the staging area over all 23 table fields, for any description -/
theorem worst_sum (g : RtGen) : ((List.range 23).map (rtWorst g)).sum = 54 + 2 * g.antennaCount := by
  have hw : (List.range 23).map (rtWorst g)
      = List.zipWith (fun a l => (a - 1) + l) ((List.range 23).map rtAlign) ((List.range 23).map (fun f => (rtGenField g f).length)) := by
    rw [List.zipWith_map_left, List.zipWith_map_right, List.zipWith_self]
    rfl
  rw [hw, rtAligns, fieldLens]
  simp only [List.zipWith_cons_cons, List.zipWith_nil_right, List.sum_cons, List.sum_nil]
  omega

end LWV

namespace LWV
open LWV.Model

theorem pad_eq (n a : Nat) (ha : a = 1 ∨ a = 2 ∨ a = 4 ∨ a = 8) :
    Spec.alignUp (8 + n) a - (8 + n) = (a - n % a) % a := by
  unfold Spec.alignUp
  rcases ha with rfl | rfl | rfl | rfl <;> omega

/-- the Spec encoder's body fold, one table entry at a time -/
def specStep (d : Spec.RtDesc) (acc : Bytes) (e : Nat × Nat × Nat) : Bytes :=
  if d.present.testBit e.1 then
    acc ++ List.replicate (Spec.alignUp (8 + acc.length) e.2.1 - (8 + acc.length)) 0 ++ d.value e.1
  else acc

theorem rtEncode_body (d : Spec.RtDesc) :
    Spec.rtEncode d = [0, 0] ++ leBytes 2 (8 + (Spec.rtTable.foldl (specStep d) []).length) ++ leBytes 4 d.present
      ++ Spec.rtTable.foldl (specStep d) [] := rfl

/-- the table facts the loop needs, re-decided against the regenerated table -/
theorem table_aligns : ∀ e ∈ Spec.rtTable, rtAlign e.1 = e.2.1 ∧ (e.2.1 = 1 ∨ e.2.1 = 2 ∨ e.2.1 = 4 ∨ e.2.1 = 8) := by
  decide +kernel

/-- on any list of table entries the generator loop is the Spec fold, as long as the staging
area is large enough for the worst case -/
theorem rtGenLoop_spec (g : RtGen) (es : List (Nat × Nat × Nat)) (hes : ∀ e ∈ es, e ∈ Spec.rtTable) (data : Bytes)
    (hcap : data.length + ((es.map (·.1)).map (rtWorst g)).sum ≤ rtStagingCap) :
    rtGenLoop g (es.map (·.1)) data = .ok (es.foldl (specStep ⟨g.present, rtGenField g⟩) data) := by
  induction es generalizing data with
  | nil => rfl
  | cons e rest ih =>
    have hrest : ∀ x ∈ rest, x ∈ Spec.rtTable := fun x hx => hes x (List.mem_cons_of_mem _ hx)
    obtain ⟨hal, hpow⟩ := table_aligns e (hes e List.mem_cons_self)
    simp only [List.map_cons, List.sum_cons] at hcap
    simp only [List.map_cons, List.foldl_cons]
    unfold rtGenLoop
    by_cases hp : g.present.testBit e.1 = true
    · have ha : rtAlign e.1 ≠ 0 := by rw [hal]; rcases hpow with h | h | h | h <;> omega
      simp only [hp, if_true, ha, if_false]
      have hpad := mod_pad_le data.length (rtAlign e.1) (Nat.pos_of_ne_zero ha)
      have hstep : specStep ⟨g.present, rtGenField g⟩ data e
          = data ++ List.replicate ((rtAlign e.1 - data.length % rtAlign e.1) % rtAlign e.1) 0 ++ rtGenField g e.1 := by
        simp only [specStep, hp, if_true]
        rw [pad_eq data.length e.2.1 hpow, hal]
      rw [hstep]
      have hlen : (data ++ List.replicate ((rtAlign e.1 - data.length % rtAlign e.1) % rtAlign e.1) 0 ++ rtGenField g e.1).length
          ≤ data.length + rtWorst g e.1 := by
        simp only [List.length_append, List.length_replicate, rtWorst]; omega
      generalize data ++ List.replicate ((rtAlign e.1 - data.length % rtAlign e.1) % rtAlign e.1) 0 ++ rtGenField g e.1 = d1 at hlen ⊢
      have hc : ¬ (d1.length > rtStagingCap) := by omega
      simp only [hc, if_false]
      exact ih hrest d1 (by omega)
    · have hstep : specStep ⟨g.present, rtGenField g⟩ data e = data := by simp [specStep, hp]
      simp only [hp, Bool.false_eq_true, if_false, hstep]
      exact ih hrest data (by omega)

/-- absent fields are skipped -/
theorem rtGenLoop_skip (g : RtGen) (f : Nat) (fs : List Nat) (data : Bytes) (h : g.present.testBit f = false) :
    rtGenLoop g (f :: fs) data = rtGenLoop g fs data := by
  rw [rtGenLoop]; simp [h]

theorem rtGenLoop_cons (g : RtGen) (f : Nat) (fs : List Nat) (data : Bytes) :
    rtGenLoop g (f :: fs) data =
      if g.present.testBit f then
        if rtAlign f = 0 then rtGenLoop g fs data
        else
          if (data ++ List.replicate ((rtAlign f - data.length % rtAlign f) % rtAlign f) 0 ++ rtGenField g f).length > rtStagingCap then
            .fault (.oobWrite "rtap_data" (data ++ List.replicate ((rtAlign f - data.length % rtAlign f) % rtAlign f) 0 ++ rtGenField g f).length rtStagingCap)
          else rtGenLoop g fs (data ++ List.replicate ((rtAlign f - data.length % rtAlign f) % rtAlign f) 0 ++ rtGenField g f)
      else rtGenLoop g fs data := by
  rw [rtGenLoop]

theorem rtGenLoop_append (g : RtGen) (a b : List Nat) (data : Bytes) :
    rtGenLoop g (a ++ b) data = (rtGenLoop g a data >>= fun d => rtGenLoop g b d) := by
  induction a generalizing data with
  | nil => rfl
  | cons f rest ih =>
    simp only [List.cons_append]
    rw [rtGenLoop_cons, rtGenLoop_cons]
    by_cases hp : g.present.testBit f = true
    · simp only [hp, if_true]
      by_cases ha : rtAlign f = 0
      · simp only [ha, if_true]; exact ih data
      · simp only [ha, if_false]
        split
        · rfl
        · exact ih _
    · simp only [hp, Bool.false_eq_true, if_false]; exact ih data

end LWV
