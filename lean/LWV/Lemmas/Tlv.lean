import LWV.Model.Tags
/-
Lemmas relating the iterator model to the greedy TLV parse.
-/
namespace LWV
open LWV.Spec LWV.Model

theorem rd_append_right (what : String) (pre rest : Bytes) (k : Nat) :
    rd what (pre ++ rest) (pre.length + k) = match rest[k]? with
      | some b => .ok b
      | none => .fault (.oobRead what (pre.length + k) (pre ++ rest).length) := by
  unfold rd
  rw [List.getElem?_append_right (Nat.le_add_right _ _)]
  have : pre.length + k - pre.length = k := by omega
  rw [this]
  cases rest[k]? <;> rfl

/-- the offset parse does not depend on surplus fuel -/
theorem parseAtF_fuel2 (f g : Nat) (base : Nat) (bs : Bytes) (hf : bs.length ≤ f) (hg : bs.length ≤ g) :
    parseAtF f base bs = parseAtF g base bs := by
  induction f generalizing g base bs with
  | zero =>
    have : bs = [] := List.eq_nil_of_length_eq_zero (Nat.le_zero.mp hf)
    subst this
    cases g <;> rfl
  | succ f ih =>
    match bs, g with
    | [], 0 => rfl
    | [], g + 1 => rfl
    | [_], 0 => simp at hg
    | [_], g + 1 => rfl
    | n :: l :: rest, 0 => simp at hg
    | n :: l :: rest, g + 1 =>
      simp only [parseAtF]
      split
      · have h1 : (rest.drop l.toNat).length ≤ f := by
          simp only [List.length_drop, List.length_cons] at hf ⊢; omega
        have h2 : (rest.drop l.toNat).length ≤ g := by
          simp only [List.length_drop, List.length_cons] at hg ⊢; omega
        rw [ih g _ _ h1 h2]
      · rfl

theorem parseAtF_fuel (f : Nat) (base : Nat) (bs : Bytes) (h : bs.length ≤ f) :
    parseAtF f base bs = parseAtF bs.length base bs :=
  parseAtF_fuel2 f bs.length base bs h (Nat.le_refl _)

theorem parseF_fuel2 (f g : Nat) (bs : Bytes) (hf : bs.length ≤ f) (hg : bs.length ≤ g) :
    parseF f bs = parseF g bs := by
  induction f generalizing g bs with
  | zero =>
    have : bs = [] := List.eq_nil_of_length_eq_zero (Nat.le_zero.mp hf)
    subst this
    cases g <;> rfl
  | succ f ih =>
    match bs, g with
    | [], 0 => rfl
    | [], g + 1 => rfl
    | [_], 0 => simp at hg
    | [_], g + 1 => rfl
    | n :: l :: rest, 0 => simp at hg
    | n :: l :: rest, g + 1 =>
      simp only [parseF]
      split
      · have h1 : (rest.drop l.toNat).length ≤ f := by
          simp only [List.length_drop, List.length_cons] at hf ⊢; omega
        have h2 : (rest.drop l.toNat).length ≤ g := by
          simp only [List.length_drop, List.length_cons] at hg ⊢; omega
        rw [ih g _ h1 h2]
      · rfl

theorem parseF_fuel (f : Nat) (bs : Bytes) (h : bs.length ≤ f) :
    parseF f bs = parseF bs.length bs :=
  parseF_fuel2 f bs.length bs h (Nat.le_refl _)

/-- unfolding of the parse at a complete element -/
theorem parseAt_cons (base : Nat) (n l : UInt8) (rest : Bytes) (h : l.toNat ≤ rest.length) :
    parseAtF (n :: l :: rest).length base (n :: l :: rest)
      = ⟨base, n, l.toNat⟩ :: parseAtF (rest.drop l.toNat).length (base + 2 + l.toNat) (rest.drop l.toNat) := by
  simp only [List.length_cons, parseAtF, h, if_true]
  rw [parseAtF_fuel]
  simp only [List.length_drop]; omega

theorem parseAt_cons_not (base : Nat) (n l : UInt8) (rest : Bytes) (h : ¬ l.toNat ≤ rest.length) :
    parseAtF (n :: l :: rest).length base (n :: l :: rest) = [] := by
  simp only [List.length_cons, parseAtF, h, if_false]

/-- the loop invariant: positioned on a complete element at offset `pre.length`, the caller's
do/while loop reports that element and then exactly the non-empty complete elements that follow -/
theorem iterLoop_spec (fuel : Nat) (pre : Bytes) (n l : UInt8) (body tail : Bytes)
    (hb : body.length = l.toNat) (hf : tail.length < fuel) :
    iterLoop (pre ++ n :: l :: (body ++ tail)) fuel
        ⟨pre.length, pre.length + 2, pre.length + 2 + l.toNat, (pre ++ n :: l :: (body ++ tail)).length - 1⟩
      = .ok (⟨pre.length, n, l.toNat⟩ ::
          (parseAtF tail.length (pre.length + 2 + l.toNat) tail).takeWhile (fun x => x.len ≠ 0)) := by
  induction fuel generalizing pre n l body tail with
  | zero => omega
  | succ fuel ih =>
    have hcur : current (pre ++ n :: l :: (body ++ tail))
        ⟨pre.length, pre.length + 2, pre.length + 2 + l.toNat, (pre ++ n :: l :: (body ++ tail)).length - 1⟩
        = .ok ⟨pre.length, n, l.toNat⟩ := by
      unfold current
      have h0 := rd_append_right "tags" pre (n :: l :: (body ++ tail)) 0
      have h1 := rd_append_right "tags" pre (n :: l :: (body ++ tail)) 1
      simp only [Nat.add_zero, List.getElem?_cons_zero, List.getElem?_cons_succ] at h0 h1
      simp only [h0, h1, Outcome.bind_ok]
    have hlen : (pre ++ n :: l :: (body ++ tail)).length = pre.length + 2 + l.toNat + tail.length := by
      simp only [List.length_append, List.length_cons, hb]; omega
    unfold iterLoop
    rw [hcur]
    simp only [Outcome.bind_ok]
    -- the `next` step
    match htail : tail with
    | [] =>
      have : iterNext (pre ++ n :: l :: (body ++ [])) ⟨pre.length, pre.length + 2, pre.length + 2 + l.toNat, (pre ++ n :: l :: (body ++ [])).length - 1⟩ = .ok none := by
        unfold iterNext
        have : pre.length + 2 + l.toNat ≥ (pre ++ n :: l :: (body ++ [])).length - 1 := by
          simp only [List.length_append, List.length_cons, hb, List.length_nil]; omega
        simp only [this, if_true]
      rw [this]
      simp [parseAtF]
    | [x] =>
      have : iterNext (pre ++ n :: l :: (body ++ [x])) ⟨pre.length, pre.length + 2, pre.length + 2 + l.toNat, (pre ++ n :: l :: (body ++ [x])).length - 1⟩ = .ok none := by
        unfold iterNext
        have : pre.length + 2 + l.toNat ≥ (pre ++ n :: l :: (body ++ [x])).length - 1 := by
          simp only [List.length_append, List.length_cons, hb, List.length_nil]; omega
        simp only [this, if_true]
      rw [this]
      simp [parseAtF]
    | n' :: l' :: rest =>
      subst htail
      have hnot : ¬ (pre.length + 2 + l.toNat ≥ (pre ++ n :: l :: (body ++ n' :: l' :: rest)).length - 1) := by
        rw [hlen]; simp only [List.length_cons]; omega
      -- the read of the next length octet
      have hrd : rd "tags" (pre ++ n :: l :: (body ++ n' :: l' :: rest)) (pre.length + 2 + l.toNat + 1) = .ok l' := by
        have hsplit : pre ++ n :: l :: (body ++ n' :: l' :: rest) = (pre ++ n :: l :: body) ++ (n' :: l' :: rest) := by simp
        have hpl : (pre ++ n :: l :: body).length = pre.length + 2 + l.toNat := by
          simp only [List.length_append, List.length_cons, hb]; omega
        have := rd_append_right "tags" (pre ++ n :: l :: body) (n' :: l' :: rest) 1
        rw [hpl] at this
        rw [hsplit, this]
        simp
      unfold iterNext
      simp only [hnot, if_false, hrd, Outcome.bind_ok]
      by_cases hz : l'.toNat = 0
      · simp only [hz, if_true]
        have : l'.toNat ≤ rest.length := by omega
        rw [parseAt_cons _ _ _ _ this]
        simp [hz]
      · simp only [hz, if_false]
        by_cases hge : l'.toNat ≥ (pre ++ n :: l :: (body ++ n' :: l' :: rest)).length - 1 - (pre.length + 2 + l.toNat)
        · simp only [hge, if_true]
          have : ¬ l'.toNat ≤ rest.length := by
            rw [hlen] at hge; simp only [List.length_cons] at hge; omega
          rw [parseAt_cons_not _ _ _ _ this]
          simp
        · simp only [hge, if_false]
          have hfit : l'.toNat ≤ rest.length := by
            rw [hlen] at hge; simp only [List.length_cons] at hge; omega
          -- re-associate the buffer around the next element and apply the induction hypothesis
          have hbuf : pre ++ n :: l :: (body ++ n' :: l' :: rest)
              = (pre ++ n :: l :: body) ++ n' :: l' :: (rest.take l'.toNat ++ rest.drop l'.toNat) := by
            simp [List.take_append_drop]
          have hpl : (pre ++ n :: l :: body).length = pre.length + 2 + l.toNat := by
            simp only [List.length_append, List.length_cons, hb]; omega
          have hb' : (rest.take l'.toNat).length = l'.toNat := by
            simp only [List.length_take]; omega
          have hf' : (rest.drop l'.toNat).length < fuel := by
            simp only [List.length_drop, List.length_cons] at hf ⊢; omega
          have := ih (pre ++ n :: l :: body) n' l' (rest.take l'.toNat) (rest.drop l'.toNat) hb' hf'
          rw [hpl] at this
          rw [← hbuf] at this
          simp only [Outcome.bind_ok]
          rw [this]
          simp only [Outcome.bind_ok]
          rw [parseAt_cons _ _ _ _ hfit]
          simp [hz]

end LWV
