import LWV.Props.C07
/-
C07 (every well-formed object) — the serialisation clause of C07 for objects the caller has
written into directly.

The C structs are public, so a caller may store into an object's header without going through a
setter — the harness does so for the flag octet of the frame control (`fcflags=<n>`).  Such objects
are not `Good` (they no longer serialise to the Spec frame of their arguments), so `C07_dump` is
silent about them.  Here the clause is proved from a representation invariant `WF` alone, `WF` is
shown to be the weakest hypothesis under which it can hold, to hold for every created object, and
to be preserved by every edit the API offers and by the store into the flag octet.
-/
namespace LWV.Props.C07Any
open LWV LWV.Model

-- `setFcFlags` is `LWV.Model.setFcFlags` (Model/Frames.lean): the driver applies the same function to the model object

/-- the kinds that carry action details -/
def isAct : GKind → Bool
  | .action | .actionNoAck => true
  | _ => false

/-- the part of the object whose size `libwifi_get_<kind>_length` takes from `sizeof`: the header
struct, and for action frames also the one-octet fixed part (the category) -/
def sizeofPart (o : GObj) : Bytes := if isAct o.kind then o.header ++ o.fixed else o.header

/-- the `sizeof` the length routines use for that part -/
def sizeofLen : GKind → Nat
  | .action | .actionNoAck => Gen.sz_libwifi_mgmt_unordered_frame_header + 1
  | .atim => Gen.sz_libwifi_atim
  | .rts => Gen.sz_libwifi_rts
  | .cts => Gen.sz_libwifi_cts
  | _ => Gen.sz_libwifi_mgmt_unordered_frame_header

/-- Representation invariant of a generator object: the model value is the image of a C object.
Nothing is said about the VALUES of any octet (frame control, addresses, fixed part, tags are
arbitrary), so objects the caller has written into are covered.  By `wf_iff` this is, next to the
two-octet frame control, EXACTLY the statement that the encoding exists and has the reported length
— no weaker hypothesis can give the serialisation clause. -/
structure WF (o : GObj) : Prop where
  /-- `frame_control` is a two-octet member.  Needed so that the store into the flag octet replaces
  octet 1 of the header and moves nothing. -/
  fc : o.fc.length = 2
  /-- The memory image of the structs that the length routine measures with `sizeof` has that size.
  In C this is automatic (fixed-size array members); in the model the addresses are lists, so it has
  to be said.  Spelled out (`WF.of_fields`): six-octet addresses — RTS two, CTS one and an empty
  `a2`, the others three — and a one-octet fixed part for action frames. -/
  sized : (sizeofPart o).length = sizeofLen o.kind
  /-- Action frames: the recorded detail length does not exceed the detail block, so `dump` reads
  inside it.  (The first `detailLen` octets are copied.) -/
  det : isAct o.kind = true → o.detailLen ≤ o.detail.length
  /-- Kinds with tagged parameters: the recorded length does not exceed the parameter block, so
  `dump` reads inside it.  (The first `tags.length` octets are copied.) -/
  tags : o.hasTags = true → o.tags.length ≤ o.tags.params.length

instance (o : GObj) : Decidable (WF o) :=
  decidable_of_iff
    (o.fc.length = 2 ∧ (sizeofPart o).length = sizeofLen o.kind ∧
      (isAct o.kind = true → o.detailLen ≤ o.detail.length) ∧
      (o.hasTags = true → o.tags.length ≤ o.tags.params.length))
    ⟨fun ⟨a, b, c, d⟩ => ⟨a, b, c, d⟩, fun w => ⟨w.fc, w.sized, w.det, w.tags⟩⟩

/-! ### helper lemmas -/

theorem rdSlice_zero_ok (what : String) (bs : Bytes) (n : Nat) (d : Bytes) :
    rdSlice what bs 0 n = .ok d ↔ n ≤ bs.length ∧ d = bs.take n := by
  unfold rdSlice
  by_cases h : n ≤ bs.length
  · simp only [Nat.zero_add, h, if_true, List.drop_zero, true_and]
    exact ⟨fun e => (by injection e with e; exact e.symm), fun e => (by rw [e])⟩
  · simp only [Nat.zero_add, h, if_false, false_and]
    exact ⟨fun e => (by cases e), False.elim⟩

/-- the three shapes of `libwifi_dump_<kind>` / `libwifi_get_<kind>_length` -/
theorem shapes (o : GObj) :
    (isAct o.kind = true ∧ o.hasTags = false ∧
      o.encoding = (rdSlice "detail" o.detail 0 o.detailLen >>= fun d => .ok (o.header ++ o.fixed ++ d)) ∧
      o.length = sizeofLen o.kind + o.detailLen) ∨
    (isAct o.kind = false ∧ o.hasTags = false ∧ o.encoding = .ok o.header ∧ o.length = sizeofLen o.kind) ∨
    (isAct o.kind = false ∧ o.hasTags = true ∧
      o.encoding = (rdSlice "tags" o.tags.params 0 o.tags.length >>= fun t => .ok (o.header ++ o.fixed ++ t)) ∧
      o.length = sizeofLen o.kind + o.fixed.length + o.tags.length) := by
  unfold GObj.encoding GObj.length GObj.hasTags
  cases hk : o.kind <;> simp [isAct, sizeofLen]

theorem bind_ok_iff {α β} (x : Outcome α) (f : α → β) (e : β) :
    (x >>= fun d => Outcome.ok (f d)) = .ok e ↔ ∃ d, x = .ok d ∧ e = f d := by
  cases x with
  | ok a => exact ⟨fun h => ⟨a, rfl, (by injection h with h; exact h.symm)⟩, fun ⟨d, h1, h2⟩ => (by injection h1 with h1; subst h1; rw [h2]; rfl)⟩
  | err c => exact ⟨fun h => (by cases h), fun ⟨d, h1, _⟩ => (by cases h1)⟩
  | fault c => exact ⟨fun h => (by cases h), fun ⟨d, h1, _⟩ => (by cases h1)⟩

/-- **`WF` is the weakest hypothesis**: an object is well formed exactly when its frame control is
two octets and `libwifi_dump_<kind>` has an encoding whose length is what
`libwifi_get_<kind>_length` reports. -/
theorem wf_iff (o : GObj) : WF o ↔ o.fc.length = 2 ∧ ∃ e, o.encoding = .ok e ∧ e.length = o.length := by
  rcases shapes o with ⟨ha, ht, he, hl⟩ | ⟨ha, ht, he, hl⟩ | ⟨ha, ht, he, hl⟩
  · -- action frames
    have hsz : (sizeofPart o).length = o.header.length + o.fixed.length := by
      simp only [sizeofPart, ha, if_true, List.length_append]
    constructor
    · intro w
      have hd := w.det ha
      refine ⟨w.fc, o.header ++ o.fixed ++ o.detail.take o.detailLen, ?_, ?_⟩
      · rw [he, (rdSlice_zero_ok _ _ _ _).mpr ⟨hd, rfl⟩]; rfl
      · rw [hl, ← w.sized, hsz]
        simp only [List.length_append, List.length_take]; omega
    · rintro ⟨hfc, e, h1, h2⟩
      rw [he] at h1
      obtain ⟨d, hr, rfl⟩ := (bind_ok_iff _ _ _).mp h1
      obtain ⟨hd, rfl⟩ := (rdSlice_zero_ok _ _ _ _).mp hr
      refine ⟨hfc, ?_, fun _ => hd, fun h => by rw [ht] at h; cases h⟩
      rw [hl] at h2
      simp only [List.length_append, List.length_take] at h2
      rw [hsz]; omega
  · -- ATIM, RTS, CTS
    have hsz : sizeofPart o = o.header := by simp only [sizeofPart, ha, Bool.false_eq_true, if_false]
    constructor
    · intro w
      exact ⟨w.fc, o.header, he, by rw [hl, ← w.sized, hsz]⟩
    · rintro ⟨hfc, e, h1, h2⟩
      rw [he] at h1
      injection h1 with h1
      subst h1
      exact ⟨hfc, by rw [hsz, h2, hl], fun h => (by rw [ha] at h; cases h), fun h => (by rw [ht] at h; cases h)⟩
  · -- kinds with tagged parameters
    have hsz : sizeofPart o = o.header := by simp only [sizeofPart, ha, Bool.false_eq_true, if_false]
    constructor
    · intro w
      have hd := w.tags ht
      refine ⟨w.fc, o.header ++ o.fixed ++ o.tags.params.take o.tags.length, ?_, ?_⟩
      · rw [he, (rdSlice_zero_ok _ _ _ _).mpr ⟨hd, rfl⟩]; rfl
      · rw [hl, ← w.sized, hsz]
        simp only [List.length_append, List.length_take]; omega
    · rintro ⟨hfc, e, h1, h2⟩
      rw [he] at h1
      obtain ⟨d, hr, rfl⟩ := (bind_ok_iff _ _ _).mp h1
      obtain ⟨hd, rfl⟩ := (rdSlice_zero_ok _ _ _ _).mp hr
      refine ⟨hfc, ?_, fun h => (by rw [ha] at h; cases h), fun _ => hd⟩
      rw [hl] at h2
      simp only [List.length_append, List.length_take] at h2
      rw [hsz]; omega


/-- the header is the frame control followed by octets that do not depend on it -/
def hdrRest (o : GObj) : Bytes :=
  if o.kind.isCtrl then leBytes 2 o.duration ++ o.a1 ++ o.a2
  else leBytes 2 o.duration ++ o.a1 ++ o.a2 ++ o.a3 ++ [0, 0]

theorem header_eq (o : GObj) : o.header = o.fc ++ hdrRest o := by
  unfold GObj.header hdrRest
  split <;> simp only [List.append_assoc]

/-- `WF` spelled out field by field: six-octet addresses (RTS: receiver and transmitter; CTS: the
receiver and an empty second address; every other kind: three), a one-octet fixed part on action
frames, recorded lengths within their blocks. -/
theorem WF.of_fields (o : GObj) (hfc : o.fc.length = 2) (h1 : o.a1.length = 6)
    (h2 : o.a2.length = if o.kind = .cts then 0 else 6) (h3 : o.kind.isCtrl = false → o.a3.length = 6)
    (hfx : isAct o.kind = true → o.fixed.length = 1)
    (hdet : isAct o.kind = true → o.detailLen ≤ o.detail.length)
    (htg : o.hasTags = true → o.tags.length ≤ o.tags.params.length) : WF o := by
  obtain ⟨h24, _, _, _, _, hatim, hrts, hcts, _⟩ := C03.C03_layout
  refine ⟨hfc, ?_, hdet, htg⟩
  unfold sizeofPart GObj.header
  cases hk : o.kind <;> simp [hk, isAct, GKind.isCtrl] at h2 h3 hfx <;>
    simp only [isAct, sizeofLen, GKind.isCtrl, if_true, if_false, Bool.false_eq_true, List.length_append,
      leBytes_length, List.length_cons, List.length_nil, hfc, h1, h2, h24, hatim, hrts, hcts] <;>
    omega

/-! ### the serialisation clause -/

/-- For every well-formed object `libwifi_dump_<kind>` has an encoding, and its length is what
`libwifi_get_<kind>_length` reports. -/
theorem wf_encoding_length (o : GObj) (w : WF o) : ∃ e, o.encoding = .ok e ∧ e.length = o.length :=
  ((wf_iff o).mp w).2

/-- **C07 (dump, every well-formed object)** for every object that is the image of a C object —
whatever its octets, in particular after the caller has stored into its header — and EVERY buffer:
`libwifi_dump_<kind>` refuses a buffer smaller than `libwifi_get_<kind>_length` with `-EINVAL` and
leaves it untouched; otherwise it writes exactly the encoding from the first byte, returns its
length (the reported one), and the rest of the buffer is unchanged. -/
theorem C07_dump_any (o : GObj) (w : WF o) (buf : Bytes) :
    ∃ e, o.encoding = .ok e ∧ e.length = o.length ∧
      dumpInto o buf = if buf.length < e.length then .ok (-EINVAL, buf)
                       else .ok ((e.length : Nat), e ++ buf.drop e.length) := by
  obtain ⟨e, he, hl⟩ := wf_encoding_length o w
  refine ⟨e, he, hl, ?_⟩
  unfold dumpInto
  rw [he, ← hl]
  by_cases h : buf.length < e.length
  · simp [h]
  · simp [h]

/-- Reading of the success case of `libwifi_dump_<kind>`: the buffer keeps its size, its first
`e.length` octets are the encoding, and every octet from index `e.length` on is the one that was
there before — nothing beyond the reported count is written. -/
theorem C07_dump_any_extent (e buf : Bytes) (h : ¬ buf.length < e.length) :
    (e ++ buf.drop e.length).length = buf.length ∧
    (e ++ buf.drop e.length).take e.length = e ∧
    ∀ i, e.length ≤ i → (e ++ buf.drop e.length)[i]? = buf[i]? := by
  refine ⟨?_, ?_, ?_⟩
  · simp only [List.length_append, List.length_drop]; omega
  · simp
  · intro i hi
    rw [List.getElem?_append_right hi, List.getElem?_drop]
    congr 1; omega

/-- `C07_dump_any` and its reading in one statement: `libwifi_dump_<kind>` returns either
`-EINVAL` with the buffer as it was (exactly when the buffer is shorter than the reported length),
or the reported length with a buffer of the same size that starts with the encoding and is
unchanged from that index on. -/
theorem C07_dump_any_cases (o : GObj) (w : WF o) (buf : Bytes) :
    (buf.length < o.length ∧ dumpInto o buf = .ok (-EINVAL, buf)) ∨
    (o.length ≤ buf.length ∧ ∃ e buf', o.encoding = .ok e ∧ e.length = o.length ∧
      dumpInto o buf = .ok ((o.length : Nat), buf') ∧ buf'.length = buf.length ∧ buf'.take o.length = e ∧
      ∀ i, o.length ≤ i → buf'[i]? = buf[i]?) := by
  obtain ⟨e, he, hl, hd⟩ := C07_dump_any o w buf
  by_cases h : buf.length < e.length
  · left
    rw [if_pos h] at hd
    exact ⟨by omega, hd⟩
  · right
    rw [if_neg h] at hd
    obtain ⟨x1, x2, x3⟩ := C07_dump_any_extent e buf h
    rw [hl] at x1 x2 x3 hd
    exact ⟨by omega, e, _, he, hl, hd, x1, x2, x3⟩

/-! ### objects reachable through the API are well formed -/

/-- Every object the generator theorems speak about (`Good`: created by `libwifi_create_<kind>`
and edited by any admissible history) is well formed. -/
theorem good_wf (k : GKind) (a : GArgs) (o : GObj) (es : List Spec.Elem) (det : Bytes) (g : C03.Good k a o es det) : WF o :=
  (wf_iff o).mpr ⟨by rw [g.wf.fc]; rfl, _, g.enc, g.len.symm⟩


/-! ### the caller-set flag octet -/

theorem encoding_if (o : GObj) :
    o.encoding =
      if isAct o.kind = true then rdSlice "detail" o.detail 0 o.detailLen >>= fun d => .ok (o.header ++ o.fixed ++ d)
      else if o.hasTags = true then rdSlice "tags" o.tags.params 0 o.tags.length >>= fun t => .ok (o.header ++ o.fixed ++ t)
      else .ok o.header := by
  rcases shapes o with ⟨ha, ht, he, -⟩ | ⟨ha, ht, he, -⟩ | ⟨ha, ht, he, -⟩ <;> simp [ha, ht, he]

/-- The store into the flag octet does not change what `libwifi_get_<kind>_length` reports. -/
theorem setFcFlags_length (o : GObj) (n : Nat) : (setFcFlags o n).length = o.length := rfl

theorem setFcFlags_header (o : GObj) (n : Nat) :
    (setFcFlags o n).header = [o.fc.getD 0 0, UInt8.ofNat n] ++ hdrRest o := header_eq (setFcFlags o n)

/-- An object stays well formed when the caller stores into the flag octet of its frame control. -/
theorem setFcFlags_wf (o : GObj) (n : Nat) (w : WF o) : WF (setFcFlags o n) := by
  refine ⟨rfl, ?_, w.det, w.tags⟩
  have hs := w.sized
  have hfc := w.fc
  show (if isAct o.kind = true then (setFcFlags o n).header ++ o.fixed else (setFcFlags o n).header).length = sizeofLen o.kind
  unfold sizeofPart at hs
  rw [header_eq] at hs
  rw [setFcFlags_header]
  by_cases h : isAct o.kind = true
  · rw [if_pos h] at hs ⊢
    simp only [List.length_append, List.length_cons, List.length_nil, hfc] at hs ⊢; omega
  · rw [if_neg h] at hs ⊢
    simp only [List.length_append, List.length_cons, List.length_nil, hfc] at hs ⊢; omega

/-- After the store into the flag octet `libwifi_dump_<kind>` copies the same octets as before
except octet 1, which is the stored value. -/
theorem setFcFlags_encoding (o : GObj) (n : Nat) (w : WF o) (e : Bytes) (he : o.encoding = .ok e) :
    (setFcFlags o n).encoding = .ok (e.set 1 (UInt8.ofNat n)) := by
  obtain ⟨x, y, hxy⟩ : ∃ x y, o.fc = [x, y] := by
    have := w.fc
    match h : o.fc, this with
    | [x, y], _ => exact ⟨x, y, rfl⟩
  have hh : o.header = x :: y :: hdrRest o := by rw [header_eq, hxy]; rfl
  have hh' : (setFcFlags o n).header = x :: UInt8.ofNat n :: hdrRest o := by
    rw [setFcFlags_header, hxy]; rfl
  rw [encoding_if] at he ⊢
  rw [hh'] 
  rw [hh] at he
  show (if isAct o.kind = true then rdSlice "detail" o.detail 0 o.detailLen >>= fun d => Outcome.ok (x :: UInt8.ofNat n :: hdrRest o ++ o.fixed ++ d)
      else if o.hasTags = true then rdSlice "tags" o.tags.params 0 o.tags.length >>= fun t => .ok (x :: UInt8.ofNat n :: hdrRest o ++ o.fixed ++ t)
      else .ok (x :: UInt8.ofNat n :: hdrRest o)) = _
  by_cases ha : isAct o.kind = true
  · rw [if_pos ha] at he ⊢
    obtain ⟨d, hr, rfl⟩ := (bind_ok_iff _ _ _).mp he
    rw [hr]; rfl
  · rw [if_neg ha] at he ⊢
    by_cases ht : o.hasTags = true
    · rw [if_pos ht] at he ⊢
      obtain ⟨d, hr, rfl⟩ := (bind_ok_iff _ _ _).mp he
      rw [hr]; rfl
    · rw [if_neg ht] at he ⊢
      injection he with he
      subst he; rfl


/-- **C07 (dump after a store into the flag octet)** for every well-formed object and every
buffer, `libwifi_dump_<kind>` on the object whose flag octet the caller has set refuses a short
buffer untouched, or writes exactly the former encoding with octet 1 replaced by the stored value,
and nothing beyond. -/
theorem C07_dump_setFcFlags (o : GObj) (w : WF o) (e : Bytes) (he : o.encoding = .ok e) (n : Nat) (buf : Bytes) :
    dumpInto (setFcFlags o n) buf =
      if buf.length < e.length then .ok (-EINVAL, buf)
      else .ok ((e.length : Nat), e.set 1 (UInt8.ofNat n) ++ buf.drop e.length) := by
  obtain ⟨e', he', _, hd⟩ := C07_dump_any (setFcFlags o n) (setFcFlags_wf o n w) buf
  rw [setFcFlags_encoding o n w e he] at he'
  injection he' with he'
  subst he'
  rw [List.length_set] at hd
  exact hd

/-- **C07 (dump, created objects with a caller-set flag octet)** for every object the generators
produce (any arguments, any admissible edit history), every stored flag value and every buffer:
`libwifi_dump_<kind>` refuses a buffer shorter than the Spec frame untouched, and otherwise writes
exactly the Spec frame with octet 1 replaced by the stored value, reports its length, and leaves the
rest of the buffer unchanged. -/
theorem C07_dump_fcflags (k : GKind) (a : GArgs) (o : GObj) (es : List Spec.Elem) (det : Bytes)
    (g : C03.Good k a o es det) (n : Nat) (buf : Bytes) :
    dumpInto (setFcFlags o n) buf =
      if buf.length < (Spec.frame (C03.sk k) (C03.sa a) es det).length then .ok (-EINVAL, buf)
      else .ok (((Spec.frame (C03.sk k) (C03.sa a) es det).length : Nat),
                (Spec.frame (C03.sk k) (C03.sa a) es det).set 1 (UInt8.ofNat n)
                  ++ buf.drop (Spec.frame (C03.sk k) (C03.sa a) es det).length) :=
  C07_dump_setFcFlags o (good_wf k a o es det g) _ g.enc n buf

/-! ### the edits the API offers keep objects well formed -/

theorem bind_eq_ok {α β} (x : Outcome α) (f : α → Outcome β) (b : β) (h : (x >>= f) = .ok b) :
    ∃ a, x = .ok a ∧ f a = .ok b := by
  cases x with
  | ok a => exact ⟨a, rfl, h⟩
  | err c => cases h
  | fault c => cases h

/-- `libwifi_quick_add_tag` keeps the recorded length within the parameter block -/
theorem quickAddTag_len (t t' : Tags) (n : Nat) (d : Bytes) (h : t.length ≤ t.params.length)
    (hs : quickAddTag t n d = .ok t') : t'.length ≤ t'.params.length := by
  unfold quickAddTag addTag createTag at hs
  obtain ⟨b, hr, hb⟩ := bind_eq_ok _ _ _ hs
  obtain ⟨hle, rfl⟩ := (rdSlice_zero_ok _ _ _ _).mp hr
  injection hb with hb
  subst hb
  dsimp only at hle ⊢
  simp only [List.length_append, List.length_cons, List.length_take]
  omega

/-- `libwifi_remove_tag` keeps the recorded length within the parameter block: whatever the
iterator reports lies inside the first `length` octets (C06) -/
theorem removeTag_len (t t' : Tags) (n : Nat) (r : Int) (h : t.length ≤ t.params.length)
    (hs : removeTag t n = .ok (r, t')) : t'.length ≤ t'.params.length := by
  unfold removeTag at hs
  split at hs
  · rename_i e hf
    injection hs with hs
    injection hs with _ hs
    subst hs
    unfold findTag at hf
    obtain ⟨es, hr, he⟩ := bind_eq_ok _ _ _ hf
    injection he with he
    have hmem : e ∈ es := List.mem_of_find?_eq_some he
    have hb := ((C06.C06_sound _ es hr).2 e hmem).1
    simp only [List.length_take, List.length_append, List.length_drop] at hb ⊢
    omega
  · injection hs with hs; injection hs with _ hs; subst hs; exact h
  · injection hs with hs; injection hs with _ hs; subst hs; exact h
  · cases hs

/-- the `libwifi_set_*_ssid` / `libwifi_set_*_channel` helpers keep it as well -/
theorem setTag_len (t t' : Tags) (n : Nat) (d : Bytes) (r : Int) (h : t.length ≤ t.params.length)
    (hs : setTag t n d = .ok (r, t')) : t'.length ≤ t'.params.length := by
  unfold setTag at hs
  obtain ⟨had, _, hs⟩ := bind_eq_ok _ _ _ hs
  obtain ⟨t1, h1, hs⟩ := bind_eq_ok _ _ _ hs
  have hl1 := quickAddTag_len t t1 n d h h1
  cases had with
  | true => exact removeTag_len t1 t' n r hl1 hs
  | false =>
    simp only [Bool.false_eq_true, if_false] at hs
    injection hs with hs; injection hs with _ hs; subst hs; exact hl1

/-- every tag operation of the API keeps the recorded length within the parameter block, on any
list (no assumption that the stored bytes parse) -/
theorem stepTag_len (t t' : Tags) (op : TagOp) (r : Int) (h : t.length ≤ t.params.length)
    (hs : stepTag t op = .ok (r, t')) : t'.length ≤ t'.params.length := by
  cases op with
  | add n d =>
    obtain ⟨t1, h1, hs⟩ := bind_eq_ok _ _ _ hs
    injection hs with hs; injection hs with _ hs; subst hs
    exact quickAddTag_len t t1 n d h h1
  | remove n => exact removeTag_len t t' n r h hs
  | setSsid d => exact setTag_len t t' 0 d r h hs
  | setChannel c => exact setTag_len t t' 3 [c] r h hs
  | check n =>
    obtain ⟨c, _, hs⟩ := bind_eq_ok _ _ _ hs
    injection hs with hs; injection hs with _ hs; subst hs; exact h

/-- **Edits keep objects well formed**: whenever a tag edit (`libwifi_quick_add_tag`,
`libwifi_remove_tag`, the SSID / channel setters, `libwifi_check_tag`),
`libwifi_add_action_detail` or `libwifi_free_action_detail` returns (with any return value) on a
well-formed object — whatever its octets — the object afterwards is well formed. -/
theorem edit_wf (o o' : GObj) (ed : GEdit) (r : Int) (w : WF o) (h : o.edit ed = .ok (r, o')) : WF o' := by
  cases ed with
  | tag op =>
    unfold GObj.edit at h
    simp only at h
    split at h
    · rename_i r1 t hst
      injection h with h; injection h with _ h; subst h
      exact ⟨w.fc, w.sized, w.det, fun ht => stepTag_len o.tags t op r1 (w.tags ht) hst⟩
    · cases h
    · cases h
  | detail d =>
    unfold GObj.edit at h
    simp only at h
    split at h
    · injection h with h; injection h with _ h; subst h; exact w
    · split at h
      · injection h with h; injection h with _ h; subst h; exact w
      · injection h with h; injection h with _ h; subst h
        refine ⟨w.fc, w.sized, fun ha => ?_, w.tags⟩
        have := w.det ha
        show o.detailLen + d.length ≤ (o.detail.take o.detailLen ++ d).length
        simp only [List.length_append, List.length_take]; omega
  | freeDetail =>
    unfold GObj.edit at h
    injection h with h; injection h with _ h; subst h
    exact ⟨w.fc, w.sized, fun _ => Nat.le_refl _, w.tags⟩


/-! ### every created object is well formed -/

/-- the tag list `libwifi_create_<kind>` builds has its recorded length within its block, for all
arguments and whatever the create function returns -/
theorem initialTags_len (k : GKind) (a : GArgs) (r : Int) (t : Tags) (h : initialTags k a = .ok (r, t)) :
    t.length ≤ t.params.length := by
  have h0 : Tags.empty.length ≤ Tags.empty.params.length := Nat.le_refl _
  have setters : ∀ d1 d2, (do let (r, t) ← setTag Tags.empty tagSsid d1; if r ≠ 0 then Outcome.ok (r, t) else setTag t tagDs d2) = .ok (r, t) →
      t.length ≤ t.params.length := by
    intro d1 d2 h
    obtain ⟨⟨r1, t1⟩, h1, hs⟩ := bind_eq_ok _ _ _ h
    have hl1 := setTag_len _ _ _ _ _ h0 h1
    dsimp only at hs
    split at hs
    · injection hs with hs; injection hs with _ hs; subst hs; exact hl1
    · exact setTag_len _ _ _ _ _ hl1 hs
  have adds : ∀ d1 d2, (do let t ← quickAddTag Tags.empty tagSsid d1; let t ← quickAddTag t tagDs d2; Outcome.ok ((0 : Int), t)) = .ok (r, t) →
      t.length ≤ t.params.length := by
    intro d1 d2 h
    obtain ⟨t1, h1, hs⟩ := bind_eq_ok _ _ _ h
    obtain ⟨t2, h2, hs⟩ := bind_eq_ok _ _ _ hs
    injection hs with hs; injection hs with _ hs; subst hs
    exact quickAddTag_len _ _ _ _ (quickAddTag_len _ _ _ _ h0 h1) h2
  cases k
  case beacon => exact setters _ _ h
  case probeResp => exact setters _ _ h
  case probeReq => exact adds _ _ h
  case assocReq => exact adds _ _ h
  case reassocReq => exact adds _ _ h
  case assocResp =>
    obtain ⟨⟨r1, t1⟩, h1, hs⟩ := bind_eq_ok _ _ _ h
    obtain ⟨t2, h2, hs⟩ := bind_eq_ok _ _ _ hs
    injection hs with hs; injection hs with _ hs; subst hs
    exact quickAddTag_len _ _ _ _ (setTag_len _ _ _ _ _ h0 h1) h2
  case reassocResp => exact setTag_len _ _ _ _ _ h0 h
  case timingAd =>
    obtain ⟨t1, h1, hs⟩ := bind_eq_ok _ _ _ h
    injection hs with hs; injection hs with _ hs; subst hs
    exact quickAddTag_len _ _ _ _ h0 h1
  all_goals (injection h with h; injection h with _ h; subst h; exact h0)

/-- **Created objects are well formed**: whatever `libwifi_create_<kind>` returns — for ALL
arguments (no bound on the SSID) and any return value — the object it leaves is well formed. -/
theorem create_wf (k : GKind) (a : GArgs) (r : Int) (o : GObj) (h : create k a = .ok (r, o)) : WF o := by
  unfold create at h
  obtain ⟨⟨r1, t⟩, h1, hs⟩ := bind_eq_ok _ _ _ h
  have ht := initialTags_len k a r1 t h1
  dsimp only at hs
  injection hs with hs; injection hs with _ hs; subst hs
  cases k <;>
    exact WF.of_fields _ rfl (C03.mac_length _) (by simp [C03.mac_length])
      (by first | exact fun _ => C03.mac_length _ | exact fun h => by cases h)
      (by first | exact fun _ => rfl | exact fun h => by cases h)
      (fun _ => Nat.zero_le _)
      (by first | exact fun _ => ht | exact fun h => by cases h)

/-! ### everything a caller can reach -/

/-- what a caller can do to an object between creation and serialisation: call an edit function,
or store into the flag octet of the header -/
inductive Act
  | edit (e : GEdit)
  | flags (n : Nat)

/-- run a sequence of caller actions; an edit that reports an error leaves the object as it was
(as in the harness), a fault stops the run -/
def runActs : GObj → List Act → Outcome GObj
  | o, [] => .ok o
  | o, .flags n :: as => runActs (setFcFlags o n) as
  | o, .edit e :: as =>
    match o.edit e with
    | .ok (_, o') => runActs o' as
    | .err _ => runActs o as
    | .fault f => .fault f

theorem runActs_wf (acts : List Act) (o o' : GObj) (w : WF o) (h : runActs o acts = .ok o') : WF o' := by
  induction acts generalizing o with
  | nil => injection h with h; subst h; exact w
  | cons act acts ih =>
    cases act with
    | flags n => exact ih _ (setFcFlags_wf o n w) h
    | edit e =>
      unfold runActs at h
      split at h
      · rename_i r o1 he
        exact ih _ (edit_wf o o1 e r w he) h
      · exact ih _ w h
      · cases h

/-- **C07 (dump, everything a caller can reach)** create an object with any arguments, then apply
ANY sequence of edit calls and stores into the flag octet, in any order: for every buffer,
`libwifi_dump_<kind>` on the result either returns `-EINVAL` leaving the buffer untouched (exactly
when the buffer is shorter than `libwifi_get_<kind>_length`), or returns that length with a buffer
of the same size that starts with the encoding and is unchanged from that index on. -/
theorem C07_dump_reachable (k : GKind) (a : GArgs) (r : Int) (o0 o : GObj) (acts : List Act)
    (hc : create k a = .ok (r, o0)) (hr : runActs o0 acts = .ok o) (buf : Bytes) :
    (buf.length < o.length ∧ dumpInto o buf = .ok (-EINVAL, buf)) ∨
    (o.length ≤ buf.length ∧ ∃ e buf', o.encoding = .ok e ∧ e.length = o.length ∧
      dumpInto o buf = .ok ((o.length : Nat), buf') ∧ buf'.length = buf.length ∧ buf'.take o.length = e ∧
      ∀ i, o.length ≤ i → buf'[i]? = buf[i]?) :=
  C07_dump_any_cases o (runActs_wf acts o0 o (create_wf k a r o0 hc) hr) buf


/-! ### non-vacuity

A beacon (SSID "AB", channel 6): the created object is well formed, is no longer the Spec frame once
the caller has set the flag octet to 0x80, and `libwifi_dump_beacon` into a 64-octet buffer then
returns 43, puts 0x80 at index 1 and leaves the last 21 octets as they were; a 42-octet buffer is
refused untouched.  Evaluated on the model itself, independently of the theorems; the theorems'
hypotheses hold for the same object. -/

def exArgs : GArgs := { ssid := [0x41, 0x42], ch := 6, clk := ⟨5, 1000⟩ }

def exFrame : Bytes :=
  [0x80, 0x80, 0, 0] ++ List.replicate 18 0 ++ [0, 0, 0x41, 0x4b, 0x4c, 0, 0, 0, 0, 0, 0x64, 0, 1, 0, 0, 2, 0x41, 0x42, 3, 1, 6]

/-- the object of a successful `libwifi_create_<kind>` call (so that the checks below are decidable) -/
def created (k : GKind) (a : GArgs) : Option GObj :=
  match create k a with
  | .ok (r, o) => if r = 0 then some o else none
  | _ => none

theorem created_spec (k : GKind) (a : GArgs) (o : GObj) (h : o ∈ created k a) : create k a = .ok (0, o) := by
  unfold created at h
  split at h
  · rename_i r o1 hc
    split at h
    · rename_i hr
      cases h
      rw [hc, hr]
    · cases h
  · cases h

example : ∃ o, o ∈ created .beacon exArgs ∧ WF o ∧ WF (setFcFlags o 128) ∧
    (setFcFlags o 128).length = 43 ∧
    (setFcFlags o 128).encoding ≠ o.encoding ∧
    dumpInto (setFcFlags o 128) (List.replicate 64 0xA5) = .ok (43, exFrame ++ List.replicate 21 0xA5) ∧
    (exFrame ++ List.replicate 21 0xA5)[1]? = some 0x80 ∧
    (exFrame ++ List.replicate 21 0xA5).drop 43 = (List.replicate 64 0xA5).drop 43 ∧
    dumpInto (setFcFlags o 128) (List.replicate 42 0xA5) = .ok (-EINVAL, List.replicate 42 0xA5) := by
  decide +kernel

/-- store, then an edit (the order the harness uses), then another store: the run succeeds, the
result is well formed, carries the last stored value and reports 47 octets -/
example : ∃ o, o ∈ created .beacon exArgs ∧
    (match runActs o [.flags 128, .edit (.tag (.add 221 [1, 2])), .flags 1] with
      | .ok o' => decide (WF o' ∧ o'.length = 47 ∧ o'.fc = [0x80, 1])
      | _ => false) = true := by
  decide +kernel

/-- `C07_dump_fcflags` applies to that object: for EVERY buffer the dump is refused below 43 octets
and otherwise writes `exFrame` — the Spec frame with 0x80 in octet 1 — and keeps the rest -/
example : ∃ o, create .beacon exArgs = .ok (0, o) ∧ ∀ buf : Bytes,
    dumpInto (setFcFlags o 128) buf =
      if buf.length < 43 then .ok (-EINVAL, buf) else .ok (43, exFrame ++ buf.drop 43) := by
  obtain ⟨o, h, g⟩ := C03.good_create .beacon exArgs (by decide +kernel)
  refine ⟨o, h, fun buf => ?_⟩
  have hf : Spec.frame (C03.sk .beacon) (C03.sa exArgs) (Spec.initialElems (C03.sk .beacon) (C03.sa exArgs)) []
      = exFrame.set 1 0 := by decide +kernel
  have h1 : (exFrame.set 1 0).length = 43 := by decide +kernel
  have h2 : (exFrame.set 1 0).set 1 (UInt8.ofNat 128) = exFrame := by decide +kernel
  rw [C07_dump_fcflags _ _ _ _ _ g 128 buf, hf, h1, h2]
  rfl

end LWV.Props.C07Any
