import LWV.Props.C09Full
import LWV.Props.C01
/-
C02 (full) — classification behind a radiotap header stated against the Spec alone, with the
pieces that were still missing around it:

A. `C09_refuse_full`, `C09_accept_iff`: the radiotap parser refuses (with -EINVAL) EVERY header the
   Spec refuses, including a chain of present words that leaves the header; together with
   `C09Full.C09_decode_full` the parser accepts exactly the headers the Spec accepts.
B. `C02_radiotap_spec`: `classify true bs` is determined by `Spec.rtFields`, `Spec.rtValues` and
   `Spec.classifyCore` (no reference to the model's radiotap parser on the Spec side).
C. `*_err`, `C01_error_codes`: every error any parsing entry point of the model reports is -EINVAL,
   hence negative.
D. `C10_prefix_invariance`: prepending the generated radiotap header (and the FCS octets it may
   announce) to a frame does not change the frame's classification.
-/
namespace LWV.Props.C02Full
open LWV LWV.Model
open LWV.Props.C09Full

/-! ### A. complete refusal -/

/-- a present-word chain that leaves the header (the fuel of `Spec.presentWords` not being the
reason) makes the iterator's skip loop return -EINVAL -/
theorem skip_refuse (bs : Bytes) (itLen : Nat) (hlen : itLen ≤ bs.length) :
    ∀ (f arg : Nat), Spec.presentWords bs itLen f arg = none → arg + 4 ≤ itLen → itLen < arg + 4 * f →
      ∀ fm, bs.length < fm + arg → rtInit.skip bs itLen fm arg = .err (-EINVAL) := by
  intro f
  induction f with
  | zero => intro arg _ h1 h2; omega
  | succ f ih =>
    intro arg hnone h1 h2 fm hfm
    obtain ⟨fm, rfl⟩ : ∃ k, fm = k + 1 := ⟨fm - 1, by omega⟩
    rw [Spec.presentWords, if_neg (by omega)] at hnone
    simp only [] at hnone
    rw [rtInit.skip, le32At_u32 (by omega)]
    simp only [Outcome.bind_ok]
    by_cases hb : (Spec.u32 bs arg).testBit 31 = true
    · simp only [hb, if_true] at hnone ⊢
      have hn : Spec.presentWords bs itLen f (arg + 4) = none := by
        cases hr : Spec.presentWords bs itLen f (arg + 4) with
        | none => rfl
        | some ws => rw [hr] at hnone; cases hnone
      by_cases hfit : arg + 4 + 4 > itLen
      · rw [if_pos hfit]
      · rw [if_neg hfit]
        exact ih (arg + 4) hn (by omega) (by omega) fm (by omega)
    · simp only [hb, Bool.false_eq_true, if_false] at hnone
      cases hnone

theorem C09_refuse_chain (bs : Bytes) (h8 : 8 ≤ bs.length) (hv : Spec.u8 bs 0 = 0) (hl8 : 8 ≤ Spec.u16 bs 2)
    (hl : Spec.u16 bs 2 ≤ bs.length) (h255 : Spec.u16 bs 2 ≤ 255)
    (hws : Spec.presentWords bs (Spec.u16 bs 2) 64 4 = none) :
    parseRadiotapInfo bs = .err (-EINVAL) := by
  have hinit : rtInit bs bs.length = .err (-EINVAL) := by
    unfold rtInit
    have hv' : (bs.getD 0 0).toNat = 0 := hv
    rw [if_neg (by omega), rd_eq (by omega)]
    simp only [Outcome.bind_ok, hv', ne_eq, not_true_eq_false, if_false]
    rw [le16At_u16 (by omega)]
    simp only [Outcome.bind_ok]
    rw [if_neg (by omega), le32At_u32 (by omega)]
    simp only [Outcome.bind_ok]
    rw [Spec.presentWords, if_neg (by omega)] at hws
    simp only [] at hws
    by_cases hb : (Spec.u32 bs 4).testBit 31 = true
    · simp only [hb, if_true] at hws ⊢
      have hn : Spec.presentWords bs (Spec.u16 bs 2) 63 8 = none := by
        cases hr : Spec.presentWords bs (Spec.u16 bs 2) 63 8 with
        | none => rfl
        | some ws => rw [hr] at hws; cases hws
      by_cases hfit : 8 + 4 > Spec.u16 bs 2
      · rw [if_pos hfit]
      · rw [if_neg hfit, skip_refuse bs _ hl 63 8 hn (by omega) (by omega) (bs.length + 1) (by omega)]
        rfl
    · simp only [hb, Bool.false_eq_true, if_false] at hws
      cases hws
  unfold parseRadiotapInfo
  rw [if_neg (by omega), le16At_u16 (by omega)]
  simp only [Outcome.bind_ok]
  rw [if_neg (by omega), hinit]
  rfl

/-- **C09 (refuse, complete)** every header the Spec refuses is refused by the parser with -EINVAL -/
theorem C09_refuse_full (bs : Bytes) (h : Spec.rtFields bs = none) : parseRadiotapInfo bs = .err (-EINVAL) := by
  unfold Spec.rtFields at h
  split at h
  · rename_i h8; exact C09.C09_refuse bs (Or.inl h8)
  rename_i h8
  simp only [] at h
  split at h
  · rename_i hc
    refine C09.C09_refuse bs (Or.inr ?_)
    rcases hc with hc | hc | hc | hc
    · exact Or.inl hc
    · exact Or.inr (Or.inl hc)
    · exact Or.inr (Or.inr (Or.inl hc))
    · exact Or.inr (Or.inr (Or.inr hc))
  rename_i hc
  split at h
  · rename_i hws
    exact C09_refuse_chain bs (by omega) (by omega) (by omega) (by omega) (by omega) hws
  · cases h

theorem C09_accept_iff (bs : Bytes) : (∃ info, parseRadiotapInfo bs = .ok info) ↔ (Spec.rtFields bs).isSome = true := by
  constructor
  · rintro ⟨info, hi⟩
    cases hr : Spec.rtFields bs with
    | none => rw [C09_refuse_full bs hr] at hi; cases hi
    | some p => rfl
  · intro h
    cases hr : Spec.rtFields bs with
    | none => rw [hr] at h; cases h
    | some p =>
      obtain ⟨itLen, fields⟩ := p
      obtain ⟨info, hi, _⟩ := C09_decode_full bs itLen fields hr
      exact ⟨info, hi⟩

/-! ### B. classification behind a radiotap header, in terms of the Spec only -/

theorem C02_radiotap_spec (bs : Bytes) :
    match Spec.rtFields bs with
    | none => classify true bs = .err (-EINVAL)
    | some (itLen, fields) =>
      let v := Spec.rtValues bs itLen fields Gen.m_LIBWIFI_MAX_RADIOTAP_ANTENNAS
      match Spec.classifyCore bs itLen (decide ((v.flags / 16) % 2 = 1)) with
      | none => classify true bs = .err (-EINVAL)
      | some s => ∃ info, classify true bs = .ok (C02.frameOf s 8 (some info)) ∧ valuesOf info = v ∧
          info.length = itLen ∧ info.flags = v.flags := by
  cases hr : Spec.rtFields bs with
  | none =>
    simp only
    rw [C02.C02_radiotap, C09_refuse_full bs hr]
  | some p =>
    obtain ⟨itLen, fields⟩ := p
    simp only
    obtain ⟨info, hi, hv⟩ := C09_decode_full bs itLen fields hr
    have hlen : info.length = itLen := by
      have := congrArg Spec.RtValues.length hv
      rw [rtValues_length] at this
      exact this
    have hfl : info.flags = (Spec.rtValues bs itLen fields Gen.m_LIBWIFI_MAX_RADIOTAP_ANTENNAS).flags :=
      congrArg Spec.RtValues.flags hv
    rw [C02.C02_radiotap, hi]
    simp only
    rw [hlen, hfl]
    cases hc : Spec.classifyCore bs itLen (decide ((Spec.rtValues bs itLen fields Gen.m_LIBWIFI_MAX_RADIOTAP_ANTENNAS).flags / 16 % 2 = 1)) with
    | none => rfl
    | some s => exact ⟨info, rfl, hv, hlen, hfl⟩

/-! ### C. error codes -/

/-- the only error code an outcome can carry is -EINVAL -/
def ErrInval {α} (o : Outcome α) : Prop := ∀ c, o = .err c → c = -EINVAL

theorem einval_neg : (-EINVAL : Int) < 0 := by decide

theorem ErrInval.neg {α} {o : Outcome α} (h : ErrInval o) : ∀ c, o = .err c → c < 0 := by
  intro c hc; rw [h c hc]; exact einval_neg

theorem ErrInval.ok {α} (a : α) : ErrInval (.ok a : Outcome α) := fun _ h => by cases h
theorem ErrInval.fault {α} (f : Fault) : ErrInval (.fault f : Outcome α) := fun _ h => by cases h
theorem ErrInval.err {α} : ErrInval (.err (-EINVAL) : Outcome α) := fun _ h => by cases h; rfl

theorem ErrInval.bind {α β} {x : Outcome α} {f : α → Outcome β} (hx : ErrInval x) (hf : ∀ a, ErrInval (f a)) :
    ErrInval (x >>= f) := by
  cases x with
  | ok a => exact hf a
  | err c => intro c' h; cases h; exact hx c rfl
  | fault g => exact ErrInval.fault g

theorem ErrInval.rd (w : String) (bs : Bytes) (i : Nat) : ErrInval (rd w bs i) := by
  unfold LWV.rd; split
  · exact ErrInval.ok _
  · exact ErrInval.fault _

theorem ErrInval.rdSlice (w : String) (bs : Bytes) (i n : Nat) : ErrInval (rdSlice w bs i n) := by
  unfold LWV.rdSlice; split
  · exact ErrInval.ok _
  · exact ErrInval.fault _

/-- radiotap parser -/
theorem parseRadiotapInfo_err (bs : Bytes) : ErrInval (parseRadiotapInfo bs) := by
  intro c hc
  cases hr : Spec.rtFields bs with
  | none => rw [C09_refuse_full bs hr] at hc; cases hc; rfl
  | some p =>
    obtain ⟨itLen, fields⟩ := p
    obtain ⟨info, hi, _⟩ := C09_decode_full bs itLen fields hr
    rw [hi] at hc; cases hc

/-- classification, both modes -/
theorem classify_err (rt : Bool) (bs : Bytes) : ErrInval (classify rt bs) := by
  cases rt with
  | false =>
    rw [C02.C02_plain]
    split
    · exact ErrInval.err
    · exact ErrInval.ok _
  | true =>
    rw [C02.C02_radiotap]
    cases h : parseRadiotapInfo bs with
    | ok info =>
      simp only
      split
      · exact ErrInval.err
      · exact ErrInval.ok _
    | err c => simp only; rw [parseRadiotapInfo_err bs c h]; exact ErrInval.err
    | fault f => exact ErrInval.fault _

theorem parseData_err (f : Frame) : ErrInval (parseData f) := by
  unfold parseData
  split
  · split
    · exact ErrInval.err
    · exact ErrInval.bind (ErrInval.rdSlice _ _ _ _) fun _ =>
        ErrInval.bind (ErrInval.rdSlice _ _ _ _) fun _ => ErrInval.ok _
  · exact ErrInval.err

theorem reported_err (bs : Bytes) : ErrInval (reported bs) := by
  rw [C06.C06_exact]
  split
  · exact ErrInval.ok _
  · exact ErrInval.err

theorem getRsnInfo_err (el : Bytes) : ErrInval (getRsnInfo el) := by
  have := C08.C08_rsn_decode el
  split at this
  · rw [this]; exact ErrInval.err
  · obtain ⟨i, hi, _⟩ := this; rw [hi]; exact ErrInval.ok _

theorem getWpaInfo_err (el : Bytes) : ErrInval (getWpaInfo el) := by
  have := C08.C08_wpa_decode el
  split at this
  · rw [this]; exact ErrInval.err
  · obtain ⟨i, hi, _⟩ := this; rw [hi]; exact ErrInval.ok _

theorem walkTags_err {σ} (tags : Bytes) (f : σ → Spec.ElemAt → Outcome σ) (s0 : σ) (g : σ → Parsed) :
    ErrInval (walkTags tags f s0 g) := by
  unfold walkTags
  split
  · split
    · exact ErrInval.ok _
    · exact ErrInval.err
    · exact ErrInval.fault _
  · exact ErrInval.err
  · exact ErrInval.fault _

theorem parseBssKind_err (f : Frame) (fixedLen capsOff : Nat) (a1 a2 a3 : Bytes) :
    ErrInval (parseBssKind f fixedLen capsOff a1 a2 a3) := by
  unfold parseBssKind
  split
  · exact ErrInval.err
  split
  · exact ErrInval.err
  exact ErrInval.bind (ErrInval.rd _ _ _) fun _ => ErrInval.bind (ErrInval.rd _ _ _) fun _ =>
    ErrInval.bind (ErrInval.rdSlice _ _ _ _) fun _ => walkTags_err _ _ _ _

theorem parseStaKind_err (f : Frame) (fixedLen : Nat) (strict : Bool) (a2 a3 : Bytes) :
    ErrInval (parseStaKind f fixedLen strict a2 a3) := by
  unfold parseStaKind
  split
  · exact ErrInval.err
  exact ErrInval.bind (ErrInval.rdSlice _ _ _ _) fun _ => walkTags_err _ _ _ _

theorem parseReasonKind_err (f : Frame) (fixedLen : Nat) : ErrInval (parseReasonKind f fixedLen) := by
  unfold parseReasonKind
  split
  · exact ErrInval.err
  exact ErrInval.bind (ErrInval.rd _ _ _) fun _ => ErrInval.bind (ErrInval.rd _ _ _) fun _ =>
    ErrInval.bind (ErrInval.rdSlice _ _ _ _) fun _ => ErrInval.ok _

/-- the nine management parsers (no assumption on the frame) -/
theorem parseMgmt_err (k : MKind) (f : Frame) : ErrInval (parseMgmt k f) := by
  unfold parseMgmt
  split
  · exact ErrInval.err
  cases k <;> first
    | exact parseBssKind_err _ _ _ _ _ _
    | exact parseStaKind_err _ _ _ _ _
    | exact parseReasonKind_err _ _

theorem checkHandshake_err (f : Frame) : ErrInval (checkHandshake f) := by
  unfold checkHandshake
  split
  · exact ErrInval.ok _
  split
  · exact ErrInval.ok _
  refine ErrInval.bind (ErrInval.rdSlice _ _ _ _) fun _ => ?_
  split
  · exact ErrInval.ok _
  refine ErrInval.bind (ErrInval.rd _ _ _) fun _ => ErrInval.bind (ErrInval.rd _ _ _) fun _ => ?_
  repeat' split
  all_goals exact ErrInval.ok _

theorem getWpaData_err (f : Frame) : ErrInval (getWpaData f) := by
  unfold getWpaData
  refine ErrInval.bind (checkHandshake_err f) fun r => ?_
  split
  · exact ErrInval.err
  exact ErrInval.bind (ErrInval.rd _ _ _) fun _ => ErrInval.bind (ErrInval.rd _ _ _) fun _ =>
    ErrInval.bind (ErrInval.rdSlice _ _ _ _) fun _ => ErrInval.bind (ErrInval.rd _ _ _) fun _ =>
    ErrInval.bind (ErrInval.rdSlice _ _ _ _) fun _ => ErrInval.bind (ErrInval.rdSlice _ _ _ _) fun _ =>
    ErrInval.bind (ErrInval.rdSlice _ _ _ _) fun _ => ErrInval.bind (ErrInval.rdSlice _ _ _ _) fun _ =>
    ErrInval.bind (ErrInval.rdSlice _ _ _ _) fun _ => ErrInval.bind (ErrInval.rdSlice _ _ _ _) fun _ =>
    ErrInval.bind (ErrInval.rdSlice _ _ _ _) fun _ => ErrInval.bind (ErrInval.rdSlice _ _ _ _) fun _ =>
    ErrInval.bind (ErrInval.rdSlice _ _ _ _) fun _ => ErrInval.bind (ErrInval.rdSlice _ _ _ _) fun _ =>
    ErrInval.ok _

theorem checkMessage_err (f : Frame) : ErrInval (checkMessage f) := by
  unfold checkMessage
  split
  · exact ErrInval.ok _
  exact ErrInval.bind (ErrInval.rd _ _ _) fun _ => ErrInval.bind (ErrInval.rd _ _ _) fun _ => ErrInval.ok _

theorem keyDataLength_err (f : Frame) : ErrInval (keyDataLength f) := by
  unfold keyDataLength
  refine ErrInval.bind (checkHandshake_err f) fun r => ?_
  split
  · exact ErrInval.ok _
  exact ErrInval.bind (ErrInval.rd _ _ _) fun _ => ErrInval.bind (ErrInval.rd _ _ _) fun _ => ErrInval.ok _

/-! ### D. prefix invariance -/

/-- `enc_walk` of C09Full with arbitrary octets `Z` following the header -/
theorem enc_walk_ext (g : RtGen) (hc : C10.OnlyCarried g) (E H Z : Bytes) (hH : H.length = 8) :
    ∀ (n b : Nat) (acc : Bytes) (fs : List Spec.RtField),
      b + n = 29 → encBits (C10.descOf g) n b acc = E →
      fs.foldl (Spec.valueStep (H ++ E ++ Z) 16) (expVals g (8 + E.length) 0) = expVals g (8 + E.length) b →
      (Spec.placeBits (8 + E.length) g.present n b ⟨8 + acc.length, .radiotap, 0, fs, false, false⟩).fields.foldl
        (Spec.valueStep (H ++ E ++ Z) 16) (expVals g (8 + E.length) 0) = expVals g (8 + E.length) 29 := by
  intro n
  induction n with
  | zero =>
    intro b acc fs hb _ hfs
    have : b = 29 := by omega
    subst this
    exact hfs
  | succ n ih =>
    intro b acc fs hb henc hfs
    rw [encBits] at henc
    by_cases hp : g.present.testBit b = true
    · obtain ⟨hdef, hlen, hstep⟩ := carried_facts g b (hc b hp) hp
      have hpre := encBits_prefix (C10.descOf g) n (b + 1) (encStep (C10.descOf g) acc b)
      rw [henc, encStep_present g acc b hp hdef] at hpre
      rw [encStep_present g acc b hp hdef] at henc
      obtain ⟨X, hX⟩ := hpre
      have hge := alignUp_ge (8 + acc.length) (rtAlign b) (Nat.pos_of_ne_zero hdef.2)
      have hEl : E.length = acc.length + (Spec.alignUp (8 + acc.length) (rtAlign b) - (8 + acc.length)) + rtSize b + X.length := by
        rw [← hX]; simp only [List.length_append, List.length_replicate, hlen]
      rw [placeBits_rt _ _ _ _ _ hp rfl rfl rfl]
      simp only [Nat.zero_add]
      rw [if_pos hdef, if_neg (by omega)]
      have hoff : Spec.alignUp (8 + acc.length) (rtAlign b) + rtSize b =
          8 + (acc ++ List.replicate (Spec.alignUp (8 + acc.length) (rtAlign b) - (8 + acc.length)) 0 ++ rtGenField g b).length := by
        simp only [List.length_append, List.length_replicate, hlen]; omega
      rw [hoff]
      refine ih (b + 1) _ _ (by omega) henc ?_
      rw [List.foldl_append, hfs, List.foldl_cons, List.foldl_nil]
      have hA : (H ++ acc ++ List.replicate (Spec.alignUp (8 + acc.length) (rtAlign b) - (8 + acc.length)) 0).length =
          Spec.alignUp (8 + acc.length) (rtAlign b) := by
        simp only [List.length_append, List.length_replicate, hH]; omega
      have hE : H ++ E ++ Z = (H ++ acc ++ List.replicate (Spec.alignUp (8 + acc.length) (rtAlign b) - (8 + acc.length)) 0) ++
          rtGenField g b ++ (X ++ Z) := by
        rw [← hX]; simp only [List.append_assoc]
      have hs := hstep (8 + E.length)
        (H ++ acc ++ List.replicate (Spec.alignUp (8 + acc.length) (rtAlign b) - (8 + acc.length)) 0) (X ++ Z)
      rw [hA] at hs
      rw [hE]
      exact hs
    · have hp' : g.present.testBit b = false := by simpa using hp
      rw [encStep_absent g acc b hp'] at henc
      rw [placeBits_absent _ _ _ _ _ hp' rfl rfl]
      exact ih (b + 1) acc fs (by omega) henc (by rw [expVals_absent g _ b hp']; exact hfs)

/-- **C10 (round trip, embedded)** the generated header decodes to the supplied values whatever octets
follow it in the buffer -/
theorem C10_roundtrip_ext (g : RtGen) (hc : C10.OnlyCarried g) (ha : g.antennaCount ≤ 16) (Z : Bytes) :
    ∃ info, parseRadiotapInfo (Spec.rtEncode (C10.descOf g) ++ Z) = .ok info ∧
      valuesOf info = roundtripValues g (Spec.rtEncode (C10.descOf g)).length := by
  have hE := encBody_le g ha
  have hp := present_lt g hc
  rw [rtEncode_shape]
  generalize hEdef : encBits (C10.descOf g) 29 0 [] = E at hE ⊢
  generalize hH : [0, 0] ++ leBytes 2 (8 + E.length) ++ leBytes 4 g.present = H
  have hHl : H.length = 8 := by rw [← hH]; simp [leBytes_length]
  have hlen : (H ++ E).length = 8 + E.length := by rw [List.length_append, hHl]
  have hlenZ : (H ++ E ++ Z).length = 8 + E.length + Z.length := by rw [List.length_append, hlen]
  have hu8 : Spec.u8 (H ++ E ++ Z) 0 = 0 := by rw [← hH]; rfl
  have hu16 : Spec.u16 (H ++ E ++ Z) 2 = 8 + E.length := by
    have := u16_mid0 [0, 0] (leBytes 2 (8 + E.length)) (leBytes 4 g.present ++ E ++ Z) (by simp [leBytes_length])
    rw [rd2] at this
    rw [← hH]
    simp only [List.append_assoc, List.length_cons, List.length_nil] at this ⊢
    rw [this]; omega
  have hu32 : Spec.u32 (H ++ E ++ Z) 4 = g.present := by
    have := u32_mid0 ([0, 0] ++ leBytes 2 (8 + E.length)) (leBytes 4 g.present) (E ++ Z) (by simp [leBytes_length])
    rw [rd4] at this
    rw [← hH]
    simp only [List.length_append, List.length_cons, List.length_nil, leBytes_length, List.append_assoc] at this ⊢
    rw [this]; omega
  have hrt := rtFields_single (H ++ E ++ Z) (by omega) hu8 (by omega) (by omega) (by omega)
    (by rw [hu32]; exact testBit_of_lt hp (by omega))
  rw [hu16, hu32] at hrt
  obtain ⟨info, h1, h2⟩ := C09_decode_full _ _ _ hrt
  refine ⟨info, h1, ?_⟩
  have hw := enc_walk_ext g hc E H Z hHl 29 0 [] [] rfl hEdef rfl
  rw [h2, maxAnt, hlen, ← expVals_final]
  unfold Spec.rtValues
  rw [← expVals_zero g, ← hw]
  rfl

/-- the Spec's classification of a frame proper (`Spec.classifyCore` after the radiotap header and
the FCS have been removed) -/
def coreOf (frame : Bytes) (fcs : Bool) : Option Spec.Slices :=
  match frame with
  | b0 :: b1 :: _ =>
    let ty := (b0.toNat / 4) % 4
    let st := b0.toNat / 16
    let order := b1.toNat ≥ 128
    match Spec.hdrLen ty st order with
    | none => none
    | some h =>
      if frame.length < h then none
      else some { fcs := fcs, qos := ty = 2 ∧ st ∈ Spec.qosSubtypes, ordered := ty = 0 ∧ order, len := frame.length, headerLen := h,
                  fc := [b0, b1], header := frame.take h, body := frame.drop h }
  | _ => none

theorem classifyCore_coreOf (bs : Bytes) (skip : Nat) (fcs : Bool) :
    Spec.classifyCore bs skip fcs =
      if fcs ∧ (bs.drop skip).length < 4 then none
      else coreOf (if fcs then (bs.drop skip).take ((bs.drop skip).length - 4) else bs.drop skip) fcs := rfl

/-- the FCS announcement only shows in the `fcs` component -/
theorem coreOf_cases (frame : Bytes) :
    (∀ c, coreOf frame c = none) ∨ ∃ s : Spec.Slices, s.fcs = false ∧ ∀ c, coreOf frame c = some { s with fcs := c } := by
  unfold coreOf
  match frame with
  | [] => exact Or.inl fun _ => rfl
  | [_] => exact Or.inl fun _ => rfl
  | b0 :: b1 :: t =>
    simp only []
    cases hh : Spec.hdrLen (b0.toNat / 4 % 4) (b0.toNat / 16) (decide (b1.toNat ≥ 128)) with
    | none => exact Or.inl fun _ => rfl
    | some h =>
      simp only []
      by_cases hl : (b0 :: b1 :: t).length < h
      · exact Or.inl fun _ => if_pos hl
      · exact Or.inr ⟨⟨false, _, _, _, _, _, _, _⟩, rfl, fun _ => if_neg hl⟩

/-- removing the generated header and the announced FCS leaves exactly the frame -/
theorem spec_core_prefix (hdr fr tail : Bytes) (fcs : Bool) (ht : tail.length = if fcs then 4 else 0) :
    Spec.classifyCore (hdr ++ fr ++ tail) hdr.length fcs = coreOf fr fcs := by
  rw [classifyCore_coreOf]
  have hdrop : (hdr ++ fr ++ tail).drop hdr.length = fr ++ tail := by
    rw [List.append_assoc, List.drop_left]
  rw [hdrop]
  cases fcs with
  | false =>
    have : tail = [] := List.eq_nil_of_length_eq_zero (by simpa using ht)
    subst this
    simp
  | true =>
    have h4 : tail.length = 4 := by simpa using ht
    have hlen : ¬ ((fr ++ tail).length < 4) := by rw [List.length_append]; omega
    have htake : (fr ++ tail).take ((fr ++ tail).length - 4) = fr := by
      rw [List.length_append, h4, Nat.add_sub_cancel, List.take_left]
    simp only [hlen, and_false, if_false, if_true, htake]

theorem spec_core_plain (fr : Bytes) : Spec.classifyCore fr 0 false = coreOf fr false := by
  rw [classifyCore_coreOf]; simp

/-- the FLAGS field of the generated header is selected and announces a trailing FCS -/
def announcesFcs (g : RtGen) : Bool := g.present.testBit 1 && decide ((g.flags / 16) % 2 = 1)

/-- **C10 (prefix invariance)** prepending the generated header (and appending the four FCS octets
exactly when the header's FLAGS field announces them) does not change the classification of a frame -/
theorem C10_prefix_invariance (g : RtGen) (hc : C10.OnlyCarried g) (ha : g.antennaCount ≤ 16) (fr tail : Bytes)
    (htail : tail.length = if announcesFcs g then 4 else 0) :
    let hdr := Spec.rtEncode (C10.descOf g)
    (classify true (hdr ++ fr ++ tail) = .err (-EINVAL) ↔ classify false fr = .err (-EINVAL)) ∧
    (∀ f0, classify false fr = .ok f0 →
      ∃ f1 info, classify true (hdr ++ fr ++ tail) = .ok f1 ∧
        f1.len = f0.len ∧ f1.headerLen = f0.headerLen ∧ f1.fc = f0.fc ∧ f1.header = f0.header ∧ f1.body = f0.body ∧
        f1.flags = f0.flags ||| 8 ||| (if announcesFcs g then 1 else 0) ∧
        f0.radiotap = none ∧ f1.radiotap = some info ∧ valuesOf info = roundtripValues g hdr.length) ∧
    (∀ f1, classify true (hdr ++ fr ++ tail) = .ok f1 → ∃ f0, classify false fr = .ok f0) := by
  intro hdr
  obtain ⟨info, hi, hv⟩ := C10_roundtrip_ext g hc ha (fr ++ tail)
  have hlen : info.length = hdr.length := congrArg Spec.RtValues.length hv
  have hfl : info.flags = if g.present.testBit 1 then g.flags % 256 else 0 := congrArg Spec.RtValues.flags hv
  have hfcs : decide (info.flags / 16 % 2 = 1) = announcesFcs g := by
    unfold announcesFcs
    rw [hfl]
    cases g.present.testBit 1 with
    | false => simp
    | true =>
      have : g.flags % 256 / 16 % 2 = g.flags / 16 % 2 := by omega
      simp [this]
  have htrue : classify true (hdr ++ fr ++ tail) =
      match coreOf fr (announcesFcs g) with
      | none => .err (-EINVAL)
      | some s => .ok (C02.frameOf s 8 (some info)) := by
    rw [C02.C02_radiotap]
    have : hdr ++ fr ++ tail = hdr ++ (fr ++ tail) := List.append_assoc _ _ _
    rw [this, hi]
    simp only
    rw [← this, hlen, hfcs, spec_core_prefix hdr fr tail _ htail]
    rfl
  have hfalse : classify false fr =
      match coreOf fr false with
      | none => .err (-EINVAL)
      | some s => .ok (C02.frameOf s 0 none) := by
    rw [C02.C02_plain, spec_core_plain]
    rfl
  rcases coreOf_cases fr with hn | ⟨s, hs, hsome⟩
  · rw [hn] at htrue hfalse
    simp only at htrue hfalse
    rw [htrue, hfalse]
    exact ⟨Iff.rfl, fun f0 h => (nomatch h), fun f1 h => (nomatch h)⟩
  · rw [hsome] at htrue hfalse
    simp only at htrue hfalse
    rw [htrue, hfalse]
    refine ⟨⟨fun h => (nomatch h), fun h => (nomatch h)⟩, fun f0 h0 => ?_, fun f1 _ => ⟨_, rfl⟩⟩
    cases h0
    refine ⟨_, info, rfl, rfl, rfl, rfl, rfl, rfl, ?_, rfl, rfl, hv⟩
    simp only [C02.frameOf]
    cases announcesFcs g <;> cases s.qos <;> cases s.ordered <;> simp

theorem announcesFcs_iff (g : RtGen) :
    announcesFcs g = true ↔ (g.present.testBit 1 = true ∧ (g.flags / 16) % 2 = 1) := by
  unfold announcesFcs; simp

/-- the same for the octets the model of `libwifi_create_radiotap` writes -/
theorem C10_prefix_invariance_created (g : RtGen) (hc : C10.OnlyCarried g) (ha : g.antennaCount ≤ 16)
    (hdr fr tail : Bytes) (hgen : createRadiotap g = .ok hdr) (htail : tail.length = if announcesFcs g then 4 else 0) :
    (classify true (hdr ++ fr ++ tail) = .err (-EINVAL) ↔ classify false fr = .err (-EINVAL)) ∧
    (∀ f0, classify false fr = .ok f0 →
      ∃ f1 info, classify true (hdr ++ fr ++ tail) = .ok f1 ∧
        f1.len = f0.len ∧ f1.headerLen = f0.headerLen ∧ f1.fc = f0.fc ∧ f1.header = f0.header ∧ f1.body = f0.body ∧
        f1.flags = f0.flags ||| 8 ||| (if announcesFcs g then 1 else 0) ∧
        f0.radiotap = none ∧ f1.radiotap = some info ∧ valuesOf info = roundtripValues g hdr.length) ∧
    (∀ f1, classify true (hdr ++ fr ++ tail) = .ok f1 → ∃ f0, classify false fr = .ok f0) := by
  rw [C10.C10_valid g hc ha] at hgen
  cases hgen
  exact C10_prefix_invariance g hc ha fr tail htail

/-! ### C (bundled): "reports success or a negative error code" for the model -/

/-- **C01 (error codes)** whatever any parsing entry point reports as an error is a negative code
(in fact always -EINVAL) — for all inputs, no assumption on the frame handed to the parsers -/
theorem C01_error_codes :
    (∀ rt bs c, classify rt bs = .err c → c < 0) ∧
    (∀ bs c, parseRadiotapInfo bs = .err c → c < 0) ∧
    (∀ f c, parseData f = .err c → c < 0) ∧
    (∀ k f c, parseMgmt k f = .err c → c < 0) ∧
    (∀ f c, getWpaData f = .err c → c < 0) ∧
    (∀ f c, checkHandshake f = .err c → c < 0) ∧
    (∀ f c, checkMessage f = .err c → c < 0) ∧
    (∀ f c, keyDataLength f = .err c → c < 0) ∧
    (∀ bs c, reported bs = .err c → c < 0) ∧
    (∀ el c, getRsnInfo el = .err c → c < 0) ∧
    (∀ el c, getWpaInfo el = .err c → c < 0) :=
  ⟨fun rt bs => (classify_err rt bs).neg, fun bs => (parseRadiotapInfo_err bs).neg, fun f => (parseData_err f).neg,
    fun k f => (parseMgmt_err k f).neg, fun f => (getWpaData_err f).neg, fun f => (checkHandshake_err f).neg,
    fun f => (checkMessage_err f).neg, fun f => (keyDataLength_err f).neg,
    fun bs => (reported_err bs).neg, fun el => (getRsnInfo_err el).neg, fun el => (getWpaInfo_err el).neg⟩

/-- every entry point ends in exactly one of: success, or the error -EINVAL (never a fault: C01) -/
theorem classify_ok_or_einval (rt : Bool) (bs : Bytes) :
    (∃ f, classify rt bs = .ok f) ∨ classify rt bs = .err (-EINVAL) := by
  cases h : classify rt bs with
  | ok f => exact Or.inl ⟨f, rfl⟩
  | err c => rw [classify_err rt bs c h]; exact Or.inr rfl
  | fault x => exact absurd h (C01.C01_classify rt bs x)

/-! ### non-vacuity -/

/-- A: a chain of present words that leaves the header (both words carry bit 31, `it_len` = 12, all
header-level conditions fine): refused by the Spec and by the parser -/
example : Spec.rtFields [0, 0, 12, 0, 0, 0, 0, 0x80, 0, 0, 0, 0x80] = none ∧
    ¬ (([0, 0, 12, 0, 0, 0, 0, 0x80, 0, 0, 0, 0x80] : Bytes).length < 8 ∨ Spec.u8 [0, 0, 12, 0, 0, 0, 0, 0x80, 0, 0, 0, 0x80] 0 ≠ 0 ∨
      Spec.u16 [0, 0, 12, 0, 0, 0, 0, 0x80, 0, 0, 0, 0x80] 2 < 8 ∨ Spec.u16 [0, 0, 12, 0, 0, 0, 0, 0x80, 0, 0, 0, 0x80] 2 > 12 ∨
      Spec.u16 [0, 0, 12, 0, 0, 0, 0, 0x80, 0, 0, 0, 0x80] 2 > 255) ∧
    parseRadiotapInfo [0, 0, 12, 0, 0, 0, 0, 0x80, 0, 0, 0, 0x80] = .err (-EINVAL) := by
  decide +kernel

/-- A: the chain leaves the header at the very first extension (`it_len` = 8) -/
example : Spec.rtFields [0, 0, 8, 0, 0, 0, 0, 0x80, 1, 2, 3, 4] = none ∧
    parseRadiotapInfo [0, 0, 8, 0, 0, 0, 0, 0x80, 1, 2, 3, 4] = .err (-EINVAL) := by
  decide +kernel

/-- B: FLAGS = 0x10 (FCS at end) in a 9-octet header, then a 4-octet control frame and 4 FCS octets:
all three Spec stages accept, and the classifier reports what `C02_radiotap_spec` says -/
example :
    Spec.rtFields [0, 0, 9, 0, 2, 0, 0, 0, 0x10, 0xd4, 0, 0, 0, 1, 2, 3, 4] = some (9, [⟨1, 8⟩]) ∧
    (Spec.rtValues [0, 0, 9, 0, 2, 0, 0, 0, 0x10, 0xd4, 0, 0, 0, 1, 2, 3, 4] 9 [⟨1, 8⟩] Gen.m_LIBWIFI_MAX_RADIOTAP_ANTENNAS).flags = 0x10 ∧
    Spec.classifyCore [0, 0, 9, 0, 2, 0, 0, 0, 0x10, 0xd4, 0, 0, 0, 1, 2, 3, 4] 9 true =
      some { fcs := true, qos := false, ordered := false, len := 4, headerLen := 4, fc := [0xd4, 0],
             header := [0xd4, 0, 0, 0], body := [] } ∧
    classify true [0, 0, 9, 0, 2, 0, 0, 0, 0x10, 0xd4, 0, 0, 0, 1, 2, 3, 4] =
      .ok { flags := 9, fc := [0xd4, 0], len := 4, headerLen := 4, header := [0xd4, 0, 0, 0], body := [],
            radiotap := some { length := 9, flags := 0x10 } } := by
  decide +kernel

/-- B: the same header, but the announced FCS does not fit: refused -/
example : Spec.classifyCore [0, 0, 9, 0, 2, 0, 0, 0, 0x10, 0xd4, 0, 0] 9 true = none ∧
    classify true [0, 0, 9, 0, 2, 0, 0, 0, 0x10, 0xd4, 0, 0] = .err (-EINVAL) := by
  decide +kernel

/-- C: errors do occur -/
example : classify false [] = .err (-EINVAL) ∧ parseData ⟨0, [0x80, 0], 0, 0, [], [], none⟩ = .err (-EINVAL) ∧
    reported [0, 0x20] = .err (-EINVAL) := by
  decide +kernel

/-- D: FLAGS announcing an FCS: the generated header is `00 00 09 00 02 00 00 00 10`; a control frame
behind it (plus four FCS octets) is classified like the bare frame, with flags 8 | 1 -/
example : Spec.rtEncode (C10.descOf { present := 2, flags := 0x10 }) = [0, 0, 9, 0, 2, 0, 0, 0, 0x10] ∧
    announcesFcs { present := 2, flags := 0x10 } = true := by
  decide +kernel

example : ∃ f1, classify true (Spec.rtEncode (C10.descOf { present := 2, flags := 0x10 }) ++ [0xd4, 0, 0, 0] ++ [1, 2, 3, 4]) = .ok f1 ∧
    f1.flags = 9 ∧ f1.len = 4 ∧ f1.header = [0xd4, 0, 0, 0] := by
  obtain ⟨-, h, -⟩ := C10_prefix_invariance { present := 2, flags := 0x10 } (C10.onlyCarried_of_subset _ (by decide)) (by decide)
    [0xd4, 0, 0, 0] [1, 2, 3, 4] (by decide)
  obtain ⟨f1, info, h1, h2, -, -, h5, -, h7, -⟩ := h
    { flags := 0, fc := [0xd4, 0], len := 4, headerLen := 4, header := [0xd4, 0, 0, 0], body := [], radiotap := none }
    (by decide +kernel)
  exact ⟨f1, h1, h7, h2, h5⟩

/-- D: without the FLAGS field no FCS is expected and none is appended -/
example : ∃ f1, classify true (Spec.rtEncode (C10.descOf { present := 4, rateRaw := 12 }) ++ [0xd4, 0, 0, 0] ++ []) = .ok f1 ∧
    f1.flags = 8 ∧ f1.len = 4 := by
  obtain ⟨-, h, -⟩ := C10_prefix_invariance { present := 4, rateRaw := 12 } (C10.onlyCarried_of_subset _ (by decide)) (by decide)
    [0xd4, 0, 0, 0] [] (by decide)
  obtain ⟨f1, info, h1, h2, -, -, -, -, h7, -⟩ := h
    { flags := 0, fc := [0xd4, 0], len := 4, headerLen := 4, header := [0xd4, 0, 0, 0], body := [], radiotap := none }
    (by decide +kernel)
  exact ⟨f1, h1, h7, h2⟩

end LWV.Props.C02Full
