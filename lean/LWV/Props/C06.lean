import LWV.Lemmas.Tlv
/-
C06 — tag iteration reports only genuine in-bounds elements, in order, and terminates.
-/
namespace LWV.Props.C06
open LWV LWV.Spec LWV.Model

/-- **C06 (exact)** for EVERY buffer: if the first element does not fit the buffer is refused;
otherwise the caller's loop terminates and reports exactly the first element followed by every
complete element up to the first empty one, with their true offsets. -/
theorem C06_exact (bs : Bytes) :
    reported bs = if firstFits bs then .ok (visible (parseAt bs)) else .err (-EINVAL) := by
  unfold reported iterInit
  match bs with
  | [] => simp [firstFits]
  | [_] => simp [firstFits]
  | n :: l :: rest =>
    have hlen : ¬ ((n :: l :: rest).length < 2) := by simp
    have hrd : rd "tags" (n :: l :: rest) 1 = .ok l := by simp [rd]
    simp only [hlen, if_false, hrd, Outcome.bind_ok, firstFits]
    by_cases hfit : l.toNat ≤ rest.length
    · have hgt : ¬ (l.toNat > (n :: l :: rest).length - 2) := by simp only [List.length_cons]; omega
      simp only [hgt, if_false, hfit, if_true, Outcome.bind_ok]
      have hb : (rest.take l.toNat).length = l.toNat := by simp only [List.length_take]; omega
      have hf : (rest.drop l.toNat).length < (n :: l :: rest).length + 1 := by
        simp only [List.length_drop, List.length_cons]; omega
      have hbuf : n :: l :: rest = [] ++ n :: l :: (rest.take l.toNat ++ rest.drop l.toNat) := by
        simp [List.take_append_drop]
      have := iterLoop_spec ((n :: l :: rest).length + 1) [] n l (rest.take l.toNat) (rest.drop l.toNat) hb hf
      simp only [List.length_nil, Nat.zero_add] at this
      rw [← hbuf] at this
      rw [this]
      unfold parseAt
      rw [parseAt_cons 0 n l rest hfit]
      simp [visible]
    · have hgt : l.toNat > (n :: l :: rest).length - 2 := by simp only [List.length_cons]; omega
      simp only [hgt, if_true, hfit, if_false, Outcome.bind_err]

/-- iteration terminates without touching memory outside the buffer, on every input -/
theorem C06_total (bs : Bytes) : (reported bs).isFault = false := by
  rw [C06_exact]; split <;> rfl

theorem C06_refuse_first (bs : Bytes) (h : ¬ firstFits bs) : reported bs = .err (-EINVAL) := by
  rw [C06_exact]; simp [h]

/-! ### every element of the greedy parse is a real, in-bounds element; offsets ascend -/

theorem parseAt_sound (f base : Nat) (bs : Bytes) :
    ∀ e ∈ parseAtF f base bs, base ≤ e.off ∧ e.off + 2 + e.len ≤ base + bs.length ∧
      bs[e.off - base]? = some e.num ∧ (bs[e.off - base + 1]?).map UInt8.toNat = some e.len := by
  induction f generalizing base bs with
  | zero => intro e he; simp [parseAtF] at he
  | succ f ih =>
    match bs with
    | [] => intro e he; simp [parseAtF] at he
    | [_] => intro e he; simp [parseAtF] at he
    | n :: l :: rest =>
      intro e he
      simp only [parseAtF] at he
      split at he
      · rename_i hl
        rcases List.mem_cons.mp he with rfl | he
        · simp only [List.length_cons, Nat.sub_self, List.getElem?_cons_zero, List.getElem?_cons_succ, Option.map_some]
          refine ⟨Nat.le_refl _, by omega, trivial, trivial⟩
        · obtain ⟨h1, h2, h3, h4⟩ := ih (base + 2 + l.toNat) (rest.drop l.toNat) e he
          have hd : (rest.drop l.toNat).length = rest.length - l.toNat := List.length_drop
          refine ⟨by omega, by simp only [List.length_cons]; omega, ?_, ?_⟩
          · have : e.off - base = (e.off - (base + 2 + l.toNat)) + l.toNat + 1 + 1 := by omega
            rw [this, List.getElem?_cons_succ, List.getElem?_cons_succ, ← h3, List.getElem?_drop]
            congr 1; omega
          · have : e.off - base + 1 = (e.off - (base + 2 + l.toNat) + 1) + l.toNat + 1 + 1 := by omega
            rw [this, List.getElem?_cons_succ, List.getElem?_cons_succ, ← h4, List.getElem?_drop]
            congr 2; omega
      · simp at he

theorem visible_prefix (l : List ElemAt) : visible l <+: l := by
  cases l with
  | nil => exact List.prefix_refl _
  | cons e t =>
    simp only [visible]
    exact (List.prefix_cons_inj e).mpr (List.takeWhile_prefix _)

/-- **C06 (sound)** whatever is reported is a prefix of the buffer's genuine element sequence
(wire order, none skipped, none repeated), and each reported element lies wholly inside the
buffer with the number and length octets the buffer holds at its offset. -/
theorem C06_sound (bs : Bytes) (es : List ElemAt) (h : reported bs = .ok es) :
    es <+: parseAt bs ∧
    ∀ e ∈ es, e.off + 2 + e.len ≤ bs.length ∧ bs[e.off]? = some e.num ∧
      (bs[e.off + 1]?).map UInt8.toNat = some e.len := by
  rw [C06_exact] at h
  split at h
  · cases h
    refine ⟨visible_prefix _, fun e he => ?_⟩
    have hm : e ∈ parseAt bs := (visible_prefix _).subset he
    obtain ⟨_, h2, h3, h4⟩ := parseAt_sound bs.length 0 bs e hm
    exact ⟨by omega, by simpa using h3, by simpa using h4⟩
  · cases h

/-- **C06 (complete)** every element that precedes the first truncated or non-leading empty
element is reported: what is cut off the genuine sequence starts with an empty element. -/
theorem C06_complete (bs : Bytes) (es : List ElemAt) (h : reported bs = .ok es) :
    ∃ rest, parseAt bs = es ++ rest ∧ (es = [] → rest = []) ∧ ∀ r ∈ rest.head?, r.len = 0 := by
  rw [C06_exact] at h
  split at h
  · cases h
    cases hp : parseAt bs with
    | nil => exact ⟨[], by simp [visible], fun _ => rfl, by simp⟩
    | cons e t =>
      refine ⟨t.dropWhile (fun x => x.len ≠ 0), ?_, by simp [visible], ?_⟩
      · simp [visible, List.takeWhile_append_dropWhile]
      · intro r hr
        have := List.head?_dropWhile_not (fun x : ElemAt => decide (x.len ≠ 0)) t
        simp only [Option.mem_def] at hr
        rw [hr] at this
        simpa using this
  · cases h

/-! non-vacuity -/
example : reported [0, 2, 65, 66, 3, 1, 7, 1, 0, 9, 1, 5] =
    .ok [⟨0, 0, 2⟩, ⟨4, 3, 1⟩] := by decide
example : reported [0, 0x20] = .err (-EINVAL) := by decide

end LWV.Props.C06
