import LWV.Gen.Objects
import LWV.Gen.Imports
import LWV.Spec.Posix
import LWV.Model.Sched
/-
C16 — no shared mutable state: concurrent use equals sequential use.
`Gen.objectFiles` is regenerated from a -O2 -fPIC build of every .c file of the working tree
(readelf section headers and symbol tables).
-/
namespace LWV.Props.C16
open LWV LWV.Model

/-- no object file has a non-empty writable data section (`.data`, `.bss`, `.tdata`, `.tbss`, COMMON) -/
theorem C16_sections : ∀ f ∈ Gen.objectFiles, f.writable = [] ∧ f.tls = [] := by decide +kernel

/-- every file-scope or function-static object lives in a read-only section class
(0: `.rodata`/`.text`, 1: `.data.rel.ro*`, written only by the dynamic loader) -/
theorem C16_no_writable : ∀ f ∈ Gen.objectFiles, ∀ o ∈ f.objects, o.cls ≤ 1 := by decide +kernel

/-- the translator saw the whole library (a vanished file list would make the above vacuous) -/
theorem C16_nonvacuous : 30 ≤ Gen.objectFiles.length ∧
    (Gen.objectFiles.flatMap (·.objects)).length ≥ 1 := by decide +kernel

/-- the state the library shares could also sit in the C library: no object file imports a function that POSIX lists
as working on process-wide hidden state (`rand`, `strtok`, `localtime`, `strerror`, `getenv`, ...).
`Gen.imports` is regenerated from the undefined symbols of the -O2 objects. -/
theorem C16_no_shared_libc : ∀ s ∈ Gen.imports, s ∉ Spec.sharedStateLibc := by decide +kernel

/-- the import table is not empty (the allocator and `memcpy` are always there), and the two generators of hidden
state the property is most often broken with are on the list -/
theorem C16_imports_nonvacuous : n!"malloc" ∈ Gen.imports ∧ n!"memcpy" ∈ Gen.imports ∧
    n!"rand" ∈ Spec.sharedStateLibc ∧ n!"strtok" ∈ Spec.sharedStateLibc := by decide +kernel

/-! schedule independence of the API-call model -/

theorem runSched_append {σ ρ} (a b : List (Nat × Call σ ρ)) (w : World σ ρ) :
    runSched (a ++ b) w = runSched b (runSched a w) := by
  simp [runSched, List.foldl_append]

/-- generalised statement: after any schedule, thread `t`'s store and log are what running its
projected program from its own initial store gives, appended to its earlier log -/
theorem sched_local {σ ρ} (sched : List (Nat × Call σ ρ)) (w : World σ ρ) (t : Nat) :
    (runSched sched w).store t = (runSeq (project sched t) (w.store t)).1 ∧
    (runSched sched w).log t = w.log t ++ (runSeq (project sched t) (w.store t)).2 := by
  induction sched generalizing w with
  | nil => simp [runSched, project, runSeq]
  | cons tc rest ih =>
    have hstep : runSched (tc :: rest) w = runSched rest (stepSched w tc) := rfl
    rw [hstep]
    obtain ⟨ih1, ih2⟩ := ih (stepSched w tc)
    by_cases h : tc.1 = t
    · subst h
      have hp : project (tc :: rest) tc.1 = tc.2 :: project rest tc.1 := by
        simp [project, List.filter_cons]
      rw [hp, ih1, ih2]
      simp [stepSched, runSeq, List.append_assoc]
    · have hne : (tc.1 == t) = false := by simpa using h
      have hp : project (tc :: rest) t = project rest t := by
        simp [project, List.filter_cons, hne]
      have hs : (stepSched w tc).store t = w.store t := by
        simp [stepSched, Ne.symm h]
      have hl : (stepSched w tc).log t = w.log t := by
        simp [stepSched, Ne.symm h]
      rw [hp, ih1, ih2, hs, hl]
      exact ⟨rfl, rfl⟩

/-- **C16** every interleaving `sched` of the threads' programs gives every thread exactly the
results (and final objects) it obtains running alone. -/
theorem C16_schedule_independent {σ ρ} (progs : Nat → List (Call σ ρ)) (init : Nat → σ)
    (sched : List (Nat × Call σ ρ)) (hproj : ∀ t, project sched t = progs t) (t : Nat) :
    (runSched sched ⟨init, fun _ => []⟩).log t = (runSeq (progs t) (init t)).2 ∧
    (runSched sched ⟨init, fun _ => []⟩).store t = (runSeq (progs t) (init t)).1 := by
  have := sched_local sched ⟨init, fun _ => []⟩ t
  rw [hproj t] at this
  exact ⟨by simpa using this.2, this.1⟩

/-! non-vacuity: a two-thread interleaving of three calls satisfies the hypothesis -/
example : project [(0, (⟨fun s => (s + 1, s)⟩ : Call Nat Nat)), (1, ⟨fun s => (s * 2, s)⟩), (0, ⟨fun s => (s + 5, s)⟩)] 0
    = [⟨fun s => (s + 1, s)⟩, ⟨fun s => (s + 5, s)⟩] := rfl

end LWV.Props.C16
