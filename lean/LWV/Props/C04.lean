import LWV.Model.Mgmt
import LWV.Spec.Mgmt
namespace LWV.Props.C04
end LWV.Props.C04
