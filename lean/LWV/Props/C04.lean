import LWV.Model.Mgmt
import LWV.Spec.Mgmt
import LWV.Props.C08
/-
C04 — management parsers report what the frame says; generated frames round-trip.

Proved here: every parser refuses frames of another type or subtype (for every frame); the
constants the parsers use (subtype numbers, fixed-parameter sizes, element numbers) are the
standard's.  The positive clause — the parser of the frame's own subtype reports the Spec's values
for every well-formed frame (`C04_parse_statement`) — composes C06 (iteration), C08 (element
decode) and the per-element handlers; it is decided by the correspondence run against the
declarative Spec report and is not yet a Lean theorem (DESIGN.md, C04, "partial").
-/
namespace LWV.Props.C04
open LWV LWV.Model

/-- **C04 (constants)** -/
theorem C04_consts :
    (∀ k : MKind, (k.subtype : Int) ∈ (Gen.enum_libwifi_mgmt_subtypes.map (·.2))) ∧
    MKind.subtype .beacon = ((Gen.enum_libwifi_mgmt_subtypes.lookup n!"SUBTYPE_BEACON").getD 99).toNat ∧
    MKind.subtype .probeResp = ((Gen.enum_libwifi_mgmt_subtypes.lookup n!"SUBTYPE_PROBE_RESP").getD 99).toNat ∧
    MKind.subtype .assocResp = ((Gen.enum_libwifi_mgmt_subtypes.lookup n!"SUBTYPE_ASSOC_RESP").getD 99).toNat ∧
    MKind.subtype .reassocResp = ((Gen.enum_libwifi_mgmt_subtypes.lookup n!"SUBTYPE_REASSOC_RESP").getD 99).toNat ∧
    MKind.subtype .probeReq = ((Gen.enum_libwifi_mgmt_subtypes.lookup n!"SUBTYPE_PROBE_REQ").getD 99).toNat ∧
    MKind.subtype .assocReq = ((Gen.enum_libwifi_mgmt_subtypes.lookup n!"SUBTYPE_ASSOC_REQ").getD 99).toNat ∧
    MKind.subtype .reassocReq = ((Gen.enum_libwifi_mgmt_subtypes.lookup n!"SUBTYPE_REASSOC_REQ").getD 99).toNat ∧
    MKind.subtype .deauth = ((Gen.enum_libwifi_mgmt_subtypes.lookup n!"SUBTYPE_DEAUTH").getD 99).toNat ∧
    MKind.subtype .disassoc = ((Gen.enum_libwifi_mgmt_subtypes.lookup n!"SUBTYPE_DISASSOC").getD 99).toNat ∧
    (∀ k : MKind, k.fixedLen = match k with
      | .beacon | .probeResp => 12 | .assocResp | .reassocResp => 6 | .probeReq => 0 | .assocReq => 4 | .reassocReq => 10
      | .deauth | .disassoc => 2) ∧
    tagSsidN = 0 ∧ tagDsN = 3 ∧ tagHtOp = 61 ∧ tagRsn = 48 ∧ tagVendor = 221 := by
  refine ⟨fun k => by cases k <;> decide +kernel, ?_, ?_, ?_, ?_, ?_, ?_, ?_, ?_, ?_, fun k => by cases k <;> decide +kernel, ?_⟩ <;>
    decide +kernel

/-- **C04 (other subtype)** the parser of every other type or subtype refuses the frame with an
error — for every frame whatsoever -/
theorem C04_other_subtype (k : MKind) (f : Frame) (h : typeOk f k = false) : parseMgmt k f = .err (-EINVAL) := by
  unfold parseMgmt
  simp [h]

/-- reading of `typeOk`: management type and the parser's own subtype -/
theorem typeOk_iff (k : MKind) (f : Frame) (b0 : UInt8) (rest : Bytes) (hfc : f.fc = b0 :: rest) :
    typeOk f k = true ↔ fcType b0 = 0 ∧ fcSubtype b0 = k.subtype := by
  simp [typeOk, hfc]

/-- a parser never faults on a coherent frame of the wrong kind and never accepts it -/
theorem C04_wrong_kind_no_fault (k : MKind) (f : Frame) (h : typeOk f k = false) : (parseMgmt k f).isFault = false := by
  rw [C04_other_subtype k f h]; rfl

/-- The positive clause (proved in `Props/C04Full.lean`: `C04_parse_statement_holds`, and in the stronger forms
`C04_parse_bss`, `C04_parse_sta`, `C04_parse_reason`): on a frame of the parser's own
subtype whose tagged-parameter region is well formed, the parser succeeds and reports the
declarative Spec values. -/
def C04_parse_statement : Prop :=
  ∀ (f : Frame) (tags : Bytes), f.len = f.headerLen + f.body.length → typeOk f .beacon = true →
    f.body.length ≥ 12 → tags = f.body.drop 12 → Spec.wellFormedTags tags = true →
    ∀ r, Spec.bssReport (((f.body.getD 10 0).toNat / 16) % 2 = 1) (Spec.parse tags) = some r →
      ∃ b, parseMgmt .beacon f = .ok (.bss b) ∧ b.ssid = r.ssid ∧ b.hidden = r.hidden ∧ b.channel = r.channel ∧
        b.wps = r.wps ∧ b.enc = r.enc ∧ b.tags = tags

end LWV.Props.C04
