import LWV.Gen.Objects
import LWV.Model.Heap
import LWV.Lemmas.Heap
/-
C13 — parsing is a pure function of the input bytes.

In the model the parsers are Lean functions of `(mode, bytes)`; what a theorem can add to that is
the part of "nothing else matters" that is visible in the model:

* there is no file-scope writable object through which an earlier call could reach a later one
  (regenerated from the object files of the working tree);
* the allocation-aware skeletons return, from *any* heap state an earlier history of calls may
  have left behind, exactly what the pure models return (when no allocation fails);
* a checked read that succeeds is unaffected by whatever follows the stated length.

Dependence on output pre-fill, uninitialised heap bytes and compiler flags cannot be exhibited by
this model (it has no uninitialised memory); those clauses are decided by the two-environment /
three-build correspondence of checks/c13.py against these same functions.
-/
namespace LWV.Props.C13
open LWV LWV.Model LWV.Heap

/-- no `.data`/`.bss`/TLS/COMMON storage anywhere in the library -/
theorem C13_no_hidden_state : ∀ f ∈ Gen.objectFiles, f.writable = [] ∧ f.tls = [] ∧ ∀ o ∈ f.objects, o.cls ≤ 1 := by
  decide +kernel

def noFail : Nat → Bool := fun _ => false

theorem malloc_noFail (n : Nat) (h : H) : ∃ h', (malloc noFail n).run h = (some h.next, h') := by
  unfold malloc request noFail
  exact ⟨_, rfl⟩

/-- a checked read inside the stated length does not see what follows the buffer -/
theorem C13_rd_trailing (w : String) (bs extra : Bytes) (i : Nat) (v : UInt8) (h : rd w bs i = .ok v) :
    rd w (bs ++ extra) i = .ok v := by
  unfold rd at *
  by_cases hi : i < bs.length
  · have h2 : i < (bs ++ extra).length := by simp; omega
    simp only [List.getElem?_eq_getElem hi] at h
    simp only [List.getElem?_eq_getElem h2, List.getElem_append_left hi]
    exact h
  · simp [List.getElem?_eq_none (Nat.le_of_not_lt hi)] at h

theorem C13_slice_trailing (w : String) (bs extra : Bytes) (off n : Nat) (s : Bytes) (h : rdSlice w bs off n = .ok s) :
    rdSlice w (bs ++ extra) off n = .ok s := by
  unfold rdSlice at *
  by_cases hi : off + n ≤ bs.length
  · simp only [hi, if_true] at h
    have h2 : off + n ≤ (bs ++ extra).length := by simp; omega
    simp only [h2, if_true]
    rw [← h]
    congr 1
    rw [List.drop_append_of_le_length (by omega), List.take_append_of_le_length (by simp; omega)]
  · simp [hi] at h

theorem core_ok_fcs (bs : Bytes) (skip : Nat) (fcs : Bool) (fl : Nat) (rt : Option RtInfo) (fr : Frame)
    (h : classifyCore bs skip fcs fl rt = .ok fr) : ¬ (fcs = true ∧ bs.length - skip < 4) := by
  intro hc
  unfold classifyCore at h
  simp [hc] at h

theorem tail_ok (rp : Ptr) (fr : Frame) (h1 : H) :
    ((classifyTail noFail rp (.ok fr)).run h1).1.1 = 0 ∧ ((classifyTail noFail rp (.ok fr)).run h1).1.2.f = some fr := by
  unfold classifyTail
  by_cases hb : fr.len - fr.headerLen > 0
  · simp only [hb, if_true]
    obtain ⟨h', hm⟩ := malloc_noFail (fr.len - fr.headerLen) h1
    simp only [StateT.run] at hm
    simp [bind, StateT.bind, StateT.run, hm, pure, StateT.pure]
  · simp [hb, pure, StateT.pure, StateT.run]

theorem tail_err (rp : Ptr) (c : Int) (h1 : H) : ((classifyTail noFail rp (.err c)).run h1).1.2.f = none := by
  simp [classifyTail, pure, StateT.pure, StateT.run]

theorem pre_of_ok (bs : Bytes) (fr : Frame) (hc : classify true bs = .ok fr) : ∃ x, classifyPre true bs = .ok x := by
  unfold classify at hc
  unfold classifyPre
  simp only [if_true] at hc ⊢
  cases hp : parseRadiotapInfo bs with
  | ok info =>
    simp only [hp, Outcome.bind_ok] at hc
    have := core_ok_fcs _ _ _ _ _ _ hc
    simp only [decide_eq_true_eq] at this
    simp [this]
  | err c => simp [hp, Outcome.bind_err] at hc
  | fault f => simp [hp, Outcome.bind_fault] at hc

/-- **classification does not depend on the heap an earlier history left behind**: from every
ledger state `h`, without allocation failure, `libwifi_get_wifi_frame` returns 0 and the frame of
the pure classifier, or reports no frame when the pure classifier refuses -/
theorem C13_classify_history (rt : Bool) (bs : Bytes) (h : H) :
    (∀ fr, classify rt bs = .ok fr → ((classifyH noFail rt bs).run h).1.1 = 0 ∧ ((classifyH noFail rt bs).run h).1.2.f = some fr) ∧
    (∀ c, classify rt bs = .err c → ((classifyH noFail rt bs).run h).1.2.f = none) := by
  cases rt with
  | false =>
    have hpre : classifyPre false bs = .ok (0, false) := by simp [classifyPre]
    constructor
    · intro fr hc
      unfold classifyH
      simp only [hpre, Bool.false_eq_true, if_false, false_and, bind, StateT.bind, pure, StateT.pure, StateT.run, hc]
      exact tail_ok none fr h
    · intro c hc
      unfold classifyH
      simp only [hpre, Bool.false_eq_true, if_false, false_and, bind, StateT.bind, pure, StateT.pure, StateT.run, hc]
      exact tail_err none c h
  | true =>
    obtain ⟨h', hm⟩ := malloc_noFail rtInfoSize h
    simp only [StateT.run] at hm
    constructor
    · intro fr hc
      obtain ⟨x, hx⟩ := pre_of_ok bs fr hc
      unfold classifyH
      simp only [hx, if_true, bind, StateT.bind, StateT.run, hm, Option.isNone_some, Bool.false_eq_true, and_false, if_false, hc]
      exact tail_ok _ fr h'
    · intro c hc
      unfold classifyH
      cases hx : classifyPre true bs with
      | ok x =>
        simp only [if_true, bind, StateT.bind, StateT.run, hm, Option.isNone_some, Bool.false_eq_true, and_false, if_false, hc]
        exact tail_err _ c h'
      | err c' => simp [pure, StateT.pure, StateT.run]
      | fault f => simp [pure, StateT.pure, StateT.run]

/-- the same for the management parsers: whatever heap an earlier history left, the parser's report
is the pure model's report -/
theorem C13_parse_history (k : MKind) (f : Frame) (h : H) :
    ((parseReleaseH noFail k f).run h).1 = parseMgmt k f := by
  unfold parseReleaseH
  cases hs : parseAllocSize k f with
  | none => simp [pure, StateT.pure, StateT.run]
  | some n =>
    obtain ⟨h', hm⟩ := malloc_noFail n h
    simp only [StateT.run] at hm
    simp [bind, StateT.bind, StateT.run, hm, pure, StateT.pure]
    rfl

end LWV.Props.C13
