import LWV.Model.Classify
import LWV.Spec.Classify
/-
C02 — frame classification slices radiotap, header, body and FCS exactly.
-/
namespace LWV.Props.C02
open LWV LWV.Model

/-- **C02 (tables)** the QoS subtype list and the header sizes the classifier uses are the standard's -/
theorem C02_tables :
    Gen.qosSubtypes = Spec.qosSubtypes ∧
    Gen.sz_libwifi_mgmt_ordered_frame_header = 28 ∧ Gen.sz_libwifi_mgmt_unordered_frame_header = 24 ∧
    Gen.sz_libwifi_ctrl_frame_header = 4 ∧ Gen.sz_libwifi_data_frame_header = 24 ∧ Gen.sz_libwifi_data_qos_frame_header = 26 ∧
    flagFcs = 1 ∧ flagQos = 2 ∧ flagOrdered = 4 ∧ flagRadiotap = 8 := by decide +kernel

/-- what the classifier must return for given Spec slices -/
def frameOf (s : Spec.Slices) (flags0 : Nat) (rt : Option RtInfo) : Frame :=
  { flags := ((flags0 ||| (if s.fcs then 1 else 0)) ||| (if s.qos then 2 else 0)) ||| (if s.ordered then 4 else 0),
    fc := s.fc, len := s.len, headerLen := s.headerLen, header := s.header, body := s.body, radiotap := rt }

theorem rd_drop (w : String) (bs : Bytes) (skip i : Nat) (h : i < (bs.drop skip).length) :
    rd w bs (skip + i) = .ok (bs.drop skip)[i] := by
  have h2 : skip + i < bs.length := by simp only [List.length_drop] at h; omega
  rw [rd_ok h2]
  simp [List.getElem_drop]

theorem rdSlice_drop (w : String) (bs : Bytes) (skip off n : Nat) (hs : skip ≤ bs.length) (h : off + n ≤ (bs.drop skip).length) :
    rdSlice w bs (skip + off) n = .ok (((bs.drop skip).drop off).take n) := by
  have h2 : skip + off + n ≤ bs.length := by simp only [List.length_drop] at h; omega
  unfold rdSlice
  simp only [h2, if_true, List.drop_drop]

/-- **C02 (core)** for EVERY buffer, every radiotap length already removed and every FCS
announcement: the classifier accepts exactly the frames the Spec accepts, refuses all others with
an error, and on acceptance reports exactly the Spec's slices and flags. -/
theorem C02_core (bs : Bytes) (skip : Nat) (hskip : skip ≤ bs.length) (fcs : Bool) (flags0 : Nat) (rt : Option RtInfo) :
    classifyCore bs skip fcs flags0 rt =
      match Spec.classifyCore bs skip fcs with
      | none => .err (-EINVAL)
      | some s => .ok (frameOf s flags0 rt) := by
  obtain ⟨hq, h28, h24, h4, hd24, hd26, hF, hQ, hO, _⟩ := C02_tables
  unfold classifyCore Spec.classifyCore
  have hav : bs.length - skip = (bs.drop skip).length := by simp
  rw [hav]
  generalize hrest : bs.drop skip = rest
  by_cases hshort : fcs = true ∧ rest.length < 4
  · simp [hshort]
  · simp only [hshort, if_false]
    -- the frame proper: the remaining octets without the announced FCS
    generalize hdl : (if fcs = true then rest.length - 4 else rest.length) = dataLen
    have hframe : (if fcs = true then rest.take (rest.length - 4) else rest) = rest.take dataLen := by
      cases fcs <;> simp at hdl ⊢ <;> subst hdl <;> simp
    have hdle : dataLen ≤ rest.length := by cases fcs <;> simp at hdl <;> omega
    rw [hframe]
    by_cases h2 : dataLen < 2
    · simp only [h2, if_true]
      have : (rest.take dataLen).length < 2 := by simp only [List.length_take]; omega
      match hm : rest.take dataLen with
      | [] => rfl
      | [_] => rfl
      | _ :: _ :: _ => rw [hm] at this; simp only [List.length_cons] at this; omega
    · simp only [h2, if_false]
      have hl2 : 2 ≤ rest.length := by omega
      match hr : rest with
      | [] => simp at hl2
      | [_] => simp at hl2
      | b0 :: b1 :: tl =>
        have e0 : rd "frame" bs skip = .ok b0 := by
          have := rd_drop "frame" bs skip 0 (by rw [hrest]; simp)
          simpa [hrest] using this
        have e1 : rd "frame" bs (skip + 1) = .ok b1 := by
          have := rd_drop "frame" bs skip 1 (by rw [hrest]; simp)
          simpa [hrest] using this
        have htk : (b0 :: b1 :: tl).take dataLen = b0 :: b1 :: tl.take (dataLen - 2) := by
          obtain ⟨d, rfl⟩ : ∃ d, dataLen = d + 2 := ⟨dataLen - 2, by omega⟩
          simp
        simp only [e0, e1, Outcome.bind_ok, htk]
        have hflen : (b0 :: b1 :: tl.take (dataLen - 2)).length = dataLen := by
          rw [← htk, List.length_take]; omega
        have hmin : min (dataLen - 2) tl.length + 1 + 1 = dataLen := by
          simpa [List.length_take] using hflen
        have hord : fcOrdered b1 = decide (b1.toNat ≥ 128) := by
          have := b1.toNat_lt
          unfold fcOrdered
          by_cases h : b1.toNat ≥ 128 <;> simp [h] <;> omega
        -- header and body slices
        have hslice : ∀ hl, hl ≤ dataLen →
            rdSlice "frame" bs skip hl = .ok ((b0 :: b1 :: tl.take (dataLen - 2)).take hl) ∧
            rdSlice "frame" bs (skip + hl) (dataLen - hl) = .ok ((b0 :: b1 :: tl.take (dataLen - 2)).drop hl) := by
          intro hl hle
          have a := rdSlice_drop "frame" bs skip 0 hl hskip (by rw [hrest, Nat.zero_add]; omega)
          have b := rdSlice_drop "frame" bs skip hl (dataLen - hl) hskip (by rw [hrest]; omega)
          rw [hrest] at a b
          simp only [Nat.add_zero, List.drop_zero] at a
          refine ⟨?_, ?_⟩
          · rw [a, ← htk, List.take_take, Nat.min_eq_left hle]
          · rw [b, ← htk, List.drop_take]
        unfold fcType fcSubtype
        simp only [Spec.hdrLen, hq, h28, h24, h4, hd24, hd26, hF, hQ, hO, hord]
        -- case analysis on the type bits
        have hty : b0.toNat / 4 % 4 = 0 ∨ b0.toNat / 4 % 4 = 1 ∨ b0.toNat / 4 % 4 = 2 ∨ b0.toNat / 4 % 4 = 3 := by omega
        rcases hty with t | t | t | t <;> simp only [t]
        · -- management
          by_cases ho : b1.toNat ≥ 128
          · simp only [ho, decide_true, if_true]
            by_cases hlen : dataLen < 28
            · simp [hlen, hmin]
            · obtain ⟨s1, s2⟩ := hslice 28 (by omega)
              simp [hlen, s1, s2, frameOf, ho, hmin]
              cases fcs <;> simp
          · simp only [ho, decide_false, Bool.false_eq_true, if_false]
            by_cases hlen : dataLen < 24
            · simp [hlen, hmin]
            · obtain ⟨s1, s2⟩ := hslice 24 (by omega)
              simp [hlen, s1, s2, frameOf, ho, hmin]
              cases fcs <;> simp
        · -- control
          by_cases hlen : dataLen < 4
          · simp [hlen, hmin]
          · obtain ⟨s1, s2⟩ := hslice 4 (by omega)
            simp [hlen, s1, s2, frameOf, hmin]
            cases fcs <;> simp
        · -- data
          by_cases hqs : b0.toNat / 16 ∈ Spec.qosSubtypes
          · have hc : Spec.qosSubtypes.contains (b0.toNat / 16) = true := by simpa using hqs
            simp only [hc, if_true, hqs]
            by_cases hlen : dataLen < 26
            · simp [hlen, hmin]
            · obtain ⟨s1, s2⟩ := hslice 26 (by omega)
              simp [hlen, s1, s2, frameOf, hqs, hmin]
              cases fcs <;> simp
          · have hc : Spec.qosSubtypes.contains (b0.toNat / 16) = false := by simpa using hqs
            simp only [hc, Bool.false_eq_true, if_false, hqs]
            by_cases hlen : dataLen < 24
            · simp [hlen, hmin]
            · obtain ⟨s1, s2⟩ := hslice 24 (by omega)
              simp [hlen, s1, s2, frameOf, hqs, hmin]
              cases fcs <;> simp
        · -- extension type: refused
          simp

/-- **C02 (no radiotap)** for every input: acceptance, refusal and slices are exactly the Spec's -/
theorem C02_plain (bs : Bytes) :
    classify false bs =
      match Spec.classifyCore bs 0 false with
      | none => .err (-EINVAL)
      | some s => .ok (frameOf s 0 none) := by
  unfold classify
  simp only [Bool.false_eq_true, if_false]
  exact C02_core bs 0 (Nat.zero_le _) false 0 none

/-- **C02 (radiotap)** with a radiotap prefix: whatever header the radiotap parser accepts (its
reported length and flags — C09), the remainder is classified exactly as the Spec says, with the
FCS removed when the flags announce it; a refused header refuses the frame -/
theorem C02_radiotap (bs : Bytes) :
    classify true bs =
      match parseRadiotapInfo bs with
      | .ok info =>
        (match Spec.classifyCore bs info.length ((info.flags / 16) % 2 = 1) with
          | none => .err (-EINVAL)
          | some s => .ok (frameOf s 8 (some info)))
      | .err c => .err c
      | .fault f => .fault f := by
  unfold classify
  simp only [if_true]
  cases h : parseRadiotapInfo bs with
  | err c => rfl
  | fault f => rfl
  | ok info =>
    simp only [Outcome.bind_ok]
    have h8 : flagRadiotap = 8 := C02_tables.2.2.2.2.2.2.2.2.2
    have h16 : rtFlagFcs = 16 := rfl
    rw [h8, h16]
    -- the reported length is the header's own length field, which fits the buffer
    by_cases hle : info.length ≤ bs.length
    · exact C02_core bs info.length hle _ 8 (some info)
    · -- impossible for an accepted header; both sides refuse anyway
      have hdrop : bs.drop info.length = [] := List.drop_eq_nil_of_le (by omega)
      unfold classifyCore Spec.classifyCore
      have : bs.length - info.length = 0 := by omega
      simp [this, hdrop]

/-- **C02 (data)** data-frame extraction: address 1 is the receiver, address 2 the transmitter,
the body is the frame's body; any other type is refused -/
theorem C02_data (f : Frame) (b0 b1 : UInt8) (hfc : f.fc = [b0, b1]) (hh : 16 ≤ f.header.length) :
    parseData f = if fcType b0 = 2 then .ok ⟨(f.header.drop 4).take 6, (f.header.drop 10).take 6, f.body⟩ else .err (-EINVAL) := by
  unfold parseData
  rw [hfc]
  by_cases h : fcType b0 = 2
  · simp [h, rdSlice, show 4 + 6 ≤ f.header.length by omega, show 10 + 6 ≤ f.header.length by omega]
  · simp [h]

/-! non-vacuity: a QoS-null frame of exactly 26 octets is accepted with header length 26 -/
example : classify false ([0xc8, 0x00] ++ List.replicate 24 0) =
    .ok { flags := 2, fc := [0xc8, 0], len := 26, headerLen := 26, header := [0xc8, 0] ++ List.replicate 24 0, body := [], radiotap := none } := by
  decide +kernel
example : classify false ([0xc8, 0x00] ++ List.replicate 23 0) = .err (-EINVAL) := by decide +kernel

end LWV.Props.C02
