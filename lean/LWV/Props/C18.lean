import LWV.Model.CExpr
import LWV.Gen.Cap
import LWV.Gen.Enums
import LWV.Spec.Ieee
import LWV.Lemmas.Assoc
/-
C18 — capability tests select the IEEE-assigned capability bit, however the argument
expression is written.

`Gen.capTokens` is the real preprocessor's expansion of
`libwifi_check_capabilities(LWV_X, LWV_CAP)` (gcc -E on the working tree); `Gen.capTree` is the
parse tree the translator proposes for it.  The kernel checks that the tree renders to exactly
those tokens and is precedence-correct, so it *is* the C parse of the expansion.
-/
namespace LWV.Props.C18
open LWV LWV.CExpr

def X : Name := n!"LWV_X"
def CAP : Name := n!"LWV_CAP"

/-! ### generic facts about substitution -/

/-- `x` is not the spelling of any non-variable token of `t` -/
def clean (x : Name) : CExpr → Bool
  | .var _ => true
  | .num _ s => decide (s ≠ x)
  | .paren t => decide (n!"(" ≠ x) && decide (n!")" ≠ x) && clean x t
  | .un op t => decide (op ≠ x) && clean x t
  | .bin op a b => decide (op.tok ≠ x) && clean x a && clean x b
  | .cond c a b => decide (n!"?" ≠ x) && decide (n!":" ≠ x) && clean x c && clean x a && clean x b

theorem substTokens_append (x : Name) (arg a b : List Name) :
    substTokens x arg (a ++ b) = substTokens x arg a ++ substTokens x arg b := by
  simp [substTokens, List.flatMap_append]

theorem substTokens_single_ne (x : Name) (arg : List Name) (t : Name) (h : t ≠ x) :
    substTokens x arg [t] = [t] := by
  simp [substTokens, h]

theorem substTokens_cons_ne (x : Name) (arg : List Name) (t : Name) (ts : List Name) (h : t ≠ x) :
    substTokens x arg (t :: ts) = t :: substTokens x arg ts := by
  simp [substTokens, h]

/-- token-level substitution (the preprocessor) commutes with tree-level substitution -/
theorem render_subst (x : Name) (e t : CExpr) (hc : clean x t = true) :
    render (subst x e t) = substTokens x (render e) (render t) := by
  induction t with
  | var y =>
    by_cases h : y = x <;> simp [subst, render, substTokens, h]
  | num n s =>
    simp only [clean, decide_eq_true_eq] at hc
    simp [subst, render, substTokens, hc]
  | paren t ih =>
    simp only [clean, Bool.and_eq_true, decide_eq_true_eq] at hc
    simp only [subst, render]
    rw [substTokens_cons_ne _ _ _ _ hc.1.1, substTokens_append, substTokens_single_ne _ _ _ hc.1.2, ih hc.2]
  | un op t ih =>
    simp only [clean, Bool.and_eq_true, decide_eq_true_eq] at hc
    simp only [subst, render]
    rw [substTokens_cons_ne _ _ _ _ hc.1, ih hc.2]
  | bin op a b iha ihb =>
    simp only [clean, Bool.and_eq_true, decide_eq_true_eq] at hc
    simp only [subst, render]
    rw [substTokens_append, substTokens_append, substTokens_single_ne _ _ _ hc.1.1, iha hc.1.2, ihb hc.2]
  | cond c a b ihc iha ihb =>
    simp only [clean, Bool.and_eq_true, decide_eq_true_eq] at hc
    simp only [subst, render]
    rw [substTokens_append, substTokens_append, substTokens_append, substTokens_append,
      substTokens_single_ne _ _ _ hc.1.1.1.1, substTokens_single_ne _ _ _ hc.1.1.1.2, ihc hc.1.1.2, iha hc.1.2, ihb hc.2]

/-- a guarded parameter never sits at the top of a term, so substitution keeps every level -/
theorem level_subst (x : Name) (e t : CExpr) (hg : guarded x t = true) :
    level (subst x e t) = level t := by
  cases t with
  | var y =>
    simp only [guarded, decide_eq_true_eq] at hg
    simp [subst, hg]
  | num n s => rfl
  | paren t => rfl
  | un op t => rfl
  | bin op a b => rfl
  | cond c a b => rfl

/-- **hygiene**: if every parameter occurrence is parenthesised, substituting ANY
precedence-correct argument expression gives a precedence-correct tree — the argument can never
re-associate with the macro's own operators -/
theorem wellPrec_subst (x : Name) (e t : CExpr) (he : wellPrec e = true)
    (hg : guarded x t = true) (hw : wellPrec t = true) : wellPrec (subst x e t) = true := by
  induction t with
  | var y =>
    simp only [guarded, decide_eq_true_eq] at hg
    simp [subst, hg, wellPrec]
  | num n s => simp [subst, wellPrec]
  | paren t ih =>
    cases t with
    | var y =>
      by_cases h : y = x
      · simp [subst, h, wellPrec, he]
      · simp [subst, h, wellPrec]
    | num n s => simp [subst, wellPrec]
    | paren u => exact ih (by simpa [guarded] using hg) (by simpa [wellPrec] using hw)
    | un op u => exact ih (by simpa [guarded] using hg) (by simpa [wellPrec] using hw)
    | bin op a b => exact ih (by simpa [guarded] using hg) (by simpa [wellPrec] using hw)
    | cond c a b => exact ih (by simpa [guarded] using hg) (by simpa [wellPrec] using hw)
  | un op t ih =>
    simp only [guarded] at hg
    simp only [wellPrec, Bool.and_eq_true, decide_eq_true_eq] at hw
    simp only [subst, wellPrec, Bool.and_eq_true, decide_eq_true_eq]
    exact ⟨by rw [level_subst x e t hg]; exact hw.1, ih hg hw.2⟩
  | bin op a b iha ihb =>
    simp only [guarded, Bool.and_eq_true] at hg
    simp only [wellPrec, Bool.and_eq_true, decide_eq_true_eq] at hw
    simp only [subst, wellPrec, Bool.and_eq_true, decide_eq_true_eq]
    refine ⟨⟨⟨?_, ?_⟩, iha hg.1 hw.1.2⟩, ihb hg.2 hw.2⟩
    · rw [level_subst x e a hg.1]; exact hw.1.1.1
    · rw [level_subst x e b hg.2]; exact hw.1.1.2
  | cond c a b ihc iha ihb =>
    simp only [guarded, Bool.and_eq_true] at hg
    simp only [wellPrec, Bool.and_eq_true, decide_eq_true_eq] at hw
    simp only [subst, wellPrec, Bool.and_eq_true, decide_eq_true_eq]
    refine ⟨⟨⟨⟨?_, ?_⟩, ihc hg.1.1 hw.1.1.2⟩, iha hg.1.2 hw.1.2⟩, ihb hg.2 hw.2⟩
    · rw [level_subst x e c hg.1.1]; exact hw.1.1.1.1
    · rw [level_subst x e b hg.2]; exact hw.1.1.1.2

theorem guarded_subst_other (x y : Name) (e t : CExpr) (hxy : ∀ z, e = var z → z ≠ x)
    (he : guarded x e = true) (hg : guarded x t = true) : guarded x (subst y e t) = true := by
  induction t with
  | var z =>
    by_cases h : z = y
    · simp [subst, h, he]
    · simpa [subst, h] using hg
  | num n s => simp [subst, guarded]
  | paren t ih =>
    cases t with
    | var z =>
      by_cases h : z = y
      · simp only [subst, h, if_true]
        cases e <;> simp_all [guarded]
      · simp [subst, h, guarded]
    | num n s => simp [subst, guarded]
    | paren u => simpa [subst, guarded] using ih (by simpa [guarded] using hg)
    | un op u => simpa [subst, guarded] using ih (by simpa [guarded] using hg)
    | bin op a b => simpa [subst, guarded] using ih (by simpa [guarded] using hg)
    | cond c a b => simpa [subst, guarded] using ih (by simpa [guarded] using hg)
  | un op t ih => simpa [subst, guarded] using ih (by simpa [guarded] using hg)
  | bin op a b iha ihb =>
    simp only [guarded, Bool.and_eq_true] at hg
    simp [subst, guarded, iha hg.1, ihb hg.2]
  | cond c a b ihc iha ihb =>
    simp only [guarded, Bool.and_eq_true] at hg
    simp [subst, guarded, ihc hg.1.1, iha hg.1.2, ihb hg.2]

theorem eval_strip (env : Name → Nat) (t : CExpr) : eval env (strip t) = eval env t := by
  induction t with
  | var y => rfl
  | num n s => rfl
  | paren t ih => simpa [strip, eval] using ih
  | un op t ih => simp [strip, eval, ih]
  | bin op a b iha ihb => simp [strip, eval, iha, ihb]
  | cond c a b ihc iha ihb => simp [strip, eval, ihc, iha, ihb]

theorem strip_subst (x : Name) (e t : CExpr) : strip (subst x e t) = subst x (strip e) (strip t) := by
  induction t with
  | var y => by_cases h : y = x <;> simp [subst, strip, h]
  | num n s => rfl
  | paren t ih => simpa [subst, strip] using ih
  | un op t ih => simp [subst, strip, ih]
  | bin op a b iha ihb => simp [subst, strip, iha, ihb]
  | cond c a b ihc iha ihb => simp [subst, strip, ihc, iha, ihb]

/-! identifiers that do not occur in an expression -/

theorem subst_id_of_notin (x : Name) (c t : CExpr) (h : x ∉ render t) : subst x c t = t := by
  induction t with
  | var y =>
    have : y ≠ x := by intro e; apply h; simp [render, e]
    simp [subst, this]
  | num n s => rfl
  | paren t ih =>
    simp only [render, List.mem_cons, List.mem_append, not_or] at h
    simp [subst, ih h.2.1]
  | un op t ih =>
    simp only [render, List.mem_cons, not_or] at h
    simp [subst, ih h.2]
  | bin op a b iha ihb =>
    simp only [render, List.mem_append, List.mem_cons, not_or] at h
    simp [subst, iha h.1.1, ihb h.2]
  | cond c a b ihc iha ihb =>
    simp only [render, List.mem_append, List.mem_cons, not_or] at h
    simp [subst, ihc h.1.1.1.1, iha h.1.1.2, ihb h.2]

theorem clean_of_notin (x : Name) (t : CExpr) (h : x ∉ render t) : clean x t = true := by
  induction t with
  | var y => rfl
  | num n s =>
    simp only [render, List.mem_cons, List.not_mem_nil, or_false] at h
    simp [clean, Ne.symm h]
  | paren t ih =>
    simp only [render, List.mem_cons, List.mem_append, not_or, List.not_mem_nil, or_false] at h
    simp [clean, Ne.symm h.1, Ne.symm h.2.2, ih h.2.1]
  | un op t ih =>
    simp only [render, List.mem_cons, not_or] at h
    simp [clean, Ne.symm h.1, ih h.2]
  | bin op a b iha ihb =>
    simp only [render, List.mem_append, List.mem_cons, not_or, List.not_mem_nil, or_false] at h
    simp [clean, Ne.symm h.1.2, iha h.1.1, ihb h.2]
  | cond c a b ihc iha ihb =>
    simp only [render, List.mem_append, List.mem_cons, not_or, List.not_mem_nil, or_false] at h
    simp [clean, Ne.symm h.1.1.1.2, Ne.symm h.1.2, ihc h.1.1.1.1, iha h.1.1.2, ihb h.2]

theorem guarded_of_notin (x : Name) (t : CExpr) (h : x ∉ render t) : guarded x t = true := by
  induction t with
  | var y =>
    have : y ≠ x := by intro e; apply h; simp [render, e]
    simp [guarded, this]
  | num n s => rfl
  | paren t ih =>
    simp only [render, List.mem_cons, List.mem_append, not_or] at h
    cases t <;> simp_all [guarded]
  | un op t ih =>
    simp only [render, List.mem_cons, not_or] at h
    simp [guarded, ih h.2]
  | bin op a b iha ihb =>
    simp only [render, List.mem_append, List.mem_cons, not_or] at h
    simp [guarded, iha h.1.1, ihb h.2]
  | cond c a b ihc iha ihb =>
    simp only [render, List.mem_append, List.mem_cons, not_or] at h
    simp [guarded, ihc h.1.1.1.1, iha h.1.1.2, ihb h.2]

/-! ### facts re-decided against the regenerated macro -/

/-- the shape every fact below is about -/
def macroOK : Bool :=
  match Gen.capTree with
  | some t =>
    decide (render t = Gen.capTokens) && wellPrec t && guarded X t && guarded CAP t && clean X t && clean CAP t
      && decide (strip t = bin .band (var X) (bin .shl (num 1 n!"1") (var CAP)))
  | none => false

/-- the proposed tree renders to the preprocessor's tokens, is precedence-correct, guards both
parameters with parentheses, and modulo parentheses is `X & (1 << CAP)` -/
theorem C18_macro : macroOK = true := by decide +kernel

/-- the tree of the expansion for argument expressions `e` and `c` -/
def expansion (e c : CExpr) : Option CExpr := Gen.capTree.map fun t => subst CAP c (subst X e t)

/-- **C18 (hygiene)**: for ANY precedence-correct argument expressions the expanded token string
(the preprocessor's output) is the rendering of a precedence-correct tree in which the arguments
are intact sub-expressions. -/
theorem C18_hygienic (e c : CExpr) (he : wellPrec e = true) (hc : wellPrec c = true)
    (hfree : CAP ∉ render e) :
    ∃ t, expansion e c = some t ∧ wellPrec t = true ∧
      render t = substTokens CAP (render c) (substTokens X (render e) Gen.capTokens) := by
  have hX : guarded CAP e = true := guarded_of_notin CAP e hfree
  have hclean : clean CAP e = true := clean_of_notin CAP e hfree
  have hXv : ∀ z, e = var z → z ≠ CAP := by
    intro z hz hzc; apply hfree; simp [hz, render, hzc]
  have hm := C18_macro
  unfold macroOK at hm
  unfold expansion
  cases hT : Gen.capTree with
  | none => simp [hT] at hm
  | some T =>
    simp only [hT, Bool.and_eq_true, decide_eq_true_eq] at hm
    obtain ⟨⟨⟨⟨⟨⟨hr, hwp⟩, hgX⟩, hgC⟩, hcX⟩, hcC⟩, _⟩ := hm
    refine ⟨_, rfl, ?_, ?_⟩
    · apply wellPrec_subst CAP c _ hc
      · exact guarded_subst_other CAP X e T hXv hX hgC
      · exact wellPrec_subst X e T he hgX hwp
    · have hclean2 : clean CAP (subst X e T) = true := by
        -- substituting a CAP-clean argument into a CAP-clean tree stays CAP-clean
        have : ∀ t, clean CAP t = true → clean CAP (subst X e t) = true := by
          intro t
          induction t with
          | var y => intro _; by_cases h : y = X <;> simp [subst, h, clean, hclean]
          | num n s => intro h; simpa [subst] using h
          | paren t ih => intro h; simp only [clean, Bool.and_eq_true] at h; simp [subst, clean, h.1, ih h.2]
          | un op t ih => intro h; simp only [clean, Bool.and_eq_true] at h; simp [subst, clean, h.1, ih h.2]
          | bin op a b iha ihb => intro h; simp only [clean, Bool.and_eq_true] at h; simp [subst, clean, h.1.1, iha h.1.2, ihb h.2]
          | cond c a b ihc iha ihb =>
            intro h; simp only [clean, Bool.and_eq_true] at h
            simp [subst, clean, h.1.1.1.1, h.1.1.1.2, ihc h.1.1.2, iha h.1.2, ihb h.2]
        exact this T hcC
      rw [render_subst CAP c _ hclean2, render_subst X e T hcX, hr]

/-- **C18 (value)**: whatever the argument expressions are, the expansion evaluates to
`value(e) & (1 << value(c))`. -/
theorem C18_eval (env : Name → Nat) (e c : CExpr) (hfree : CAP ∉ render e) :
    ∃ t, expansion e c = some t ∧ eval env t = eval env e &&& (1 <<< eval env c) := by
  have hm := C18_macro
  unfold macroOK at hm
  unfold expansion
  cases hT : Gen.capTree with
  | none => simp [hT] at hm
  | some T =>
    simp only [hT, Bool.and_eq_true, decide_eq_true_eq] at hm
    refine ⟨_, rfl, ?_⟩
    have hne : ¬ (CAP = X) := by decide
    rw [← eval_strip, strip_subst, strip_subst, hm.2]
    simp only [subst, if_true, hne, if_false]
    rw [← strip_subst, subst_id_of_notin CAP c e hfree]
    simp [eval, eval_strip]

/-- the bit test: for a 16-bit value and a bit number below 16, `x & (1 << b)` is non-zero
exactly when bit `b` of `x` is set -/
theorem and_shift_ne_zero (x b : Nat) : x &&& (1 <<< b) ≠ 0 ↔ x.testBit b = true := by
  rw [Nat.one_shiftLeft]
  constructor
  · intro h
    obtain ⟨i, hi⟩ := Nat.exists_testBit_of_ne_zero h
    rw [Nat.testBit_and, Nat.testBit_two_pow] at hi
    simp only [Bool.and_eq_true, decide_eq_true_eq] at hi
    rw [hi.2]; exact hi.1
  · intro h hz
    have : (x &&& 2 ^ b).testBit b = true := by
      rw [Nat.testBit_and, Nat.testBit_two_pow]; simp [h]
    rw [hz] at this
    simp at this

/-- **C18 (bit)**: for every capability value and every published name, the test is non-zero
exactly when the IEEE-assigned bit is set — for every way of writing the argument. -/
theorem C18_bit (env : Name → Nat) (e c : CExpr) (hfree : CAP ∉ render e) :
    ∃ t, expansion e c = some t ∧ (eval env t ≠ 0 ↔ (eval env e).testBit (eval env c) = true) := by
  obtain ⟨t, ht, hv⟩ := C18_eval env e c hfree
  exact ⟨t, ht, by rw [hv]; exact and_shift_ne_zero _ _⟩

/-- **C18 (table)**: the published capability numbers are the IEEE bit positions (9.4.1.4),
and no two capabilities test the same bit -/
theorem C18_table : Gen.enum_libwifi_capabilities = Spec.ieeeCapBit := by decide +kernel

theorem C18_distinct : (Gen.enum_libwifi_capabilities.map (·.2)).Nodup :=
  nodup_of_sorted_strictAsc _ (by decide +kernel)

/-! non-vacuity: `a | b` (the shape that breaks an unparenthesised macro) meets the hypotheses -/
example : wellPrec (bin .bor (var n!"a") (var n!"b")) = true ∧ CAP ∉ render (bin .bor (var n!"a") (var n!"b")) := by
  decide

end LWV.Props.C18
