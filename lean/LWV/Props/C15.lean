import LWV.Lemmas.Heap
/-
C15 — allocation failure is reported as an error, never a crash or silent loss.

`σ : Nat → Bool` is an ARBITRARY fault schedule (the k-th allocation request fails iff `σ k`):
single failures, "all from k on" and every other pattern are covered at once.  The skeletons
(`LWV.Heap.*H`) perform the allocation events of the C in order and are tied to the code by the
allocation-trace correspondence (every fault index of every scenario, both modes).
-/
namespace LWV.Props.C15
open LWV LWV.Model LWV.Heap

/-- **C15 (add)** a tag that could not be stored is never reported as stored: under every fault
schedule, `quick_add_tag` either reports an error and leaves the list (bytes, length and block)
exactly as it was, or reports success and the list is the fault-free result -/
theorem C15_add_reported (σ : Nat → Bool) (th : TagsH) (num : Nat) (data : Bytes) (h : H) (own : List Nat) (l : Ledger th h own) :
    (((quickAddTagH σ th num data).run h).1.1 < 0 ∧ ((quickAddTagH σ th num data).run h).1.2 = th) ∨
    (((quickAddTagH σ th num data).run h).1.1 = 0 ∧ quickAddTag th.t num data = .ok ((quickAddTagH σ th num data).run h).1.2.t) :=
  (quickAddTagH_ok σ th num data h own l).1

/-- **C15 (remove)** removal completes correctly without needing its allocation: the result is the
fault-free result under every schedule (a failed shrink keeps the old block) -/
theorem C15_remove (σ : Nat → Bool) (th : TagsH) (num : Nat) (h : H) (own : List Nat) (l : Ledger th h own) :
    removeTag th.t num = .ok (((removeTagH σ th num).run h).1.1, ((removeTagH σ th num).run h).1.2.t) :=
  (removeTagH_ok σ th num h own l (findTag_no_fault _ _)).1

/-- **C15 (set)** the SSID / channel setters lose no previously stored data: error-and-unchanged,
or the fault-free result -/
theorem C15_set (σ : Nat → Bool) (th : TagsH) (num : Nat) (data : Bytes) (h : H) (own : List Nat) (l : Ledger th h own) :
    (((setTagH σ th num data).run h).1.1 < 0 ∧ ((setTagH σ th num data).run h).1.2 = th) ∨
    setTag th.t num data = .ok (((setTagH σ th num data).run h).1.1, ((setTagH σ th num data).run h).1.2.t) :=
  (setTagH_ok σ th num data h own l).1

/-- **C15 (releasable)** after any history under any schedule the object is releasable without a
leak, a double free or an invalid free: releasing its one block empties the ledger -/
theorem C15_releasable (σ : Nat → Bool) (ops : List TagOp) :
    let r := (do let th ← runHistory σ ops {}; free th.ptr : M Unit).run {}
    r.2.live = [] ∧ r.2.bad = 0 := by
  have l0 : Ledger ({} : TagsH) ({} : H) [] := ⟨by simpa [blocks] using clean_init, by simp, ⟨fun _ => rfl, fun h => absurd rfl h⟩⟩
  have l1 := runHistory_ledger σ ops {} {} [] l0
  show ((runHistory σ ops {} >>= fun th => free th.ptr).run {}).2.live = [] ∧ _
  rw [run_bind]
  have c := free_spec _ _ [] l1.clean l1.fresh
  refine ⟨?_, c.bad⟩
  apply List.eq_nil_iff_forall_not_mem.mpr
  intro x hx
  exact absurd ((c.mem x).mp hx) (by simp)

/-! non-vacuity: the ledger hypothesis holds for the freshly zeroed object -/
example : Ledger ({} : TagsH) ({} : H) [] := ⟨by simpa [blocks] using clean_init, by simp, ⟨fun _ => rfl, fun h => absurd rfl h⟩⟩

end LWV.Props.C15
