import LWV.Lemmas.RtSafe
import LWV.Model.Rssi
import LWV.Props.C02
import LWV.Props.C06
import LWV.Props.C08
import LWV.Props.C12
import LWV.Props.C11
/-
C01 — parsing arbitrary bytes is memory-safe and always returns.

Every read of the model goes through `rd` / `rdSlice`, which fault outside the allocation they
read from, and every loop carries fuel whose exhaustion is a fault too.  "No entry point ever
produces `Outcome.fault`" therefore says: for EVERY byte string, no read leaves the buffer (or the
library's own copies) and every loop terminates within its bound.  The theorems below state this
for each parsing entry point of the model, for all inputs, and compose them end to end: whatever
bytes are classified, every parser applied to the classified frame is fault free.
-/
namespace LWV.Props.C01
open LWV LWV.Model

def NoFault {α} (o : Outcome α) : Prop := ∀ f, o ≠ .fault f

theorem NoFault.ok {α} (a : α) : NoFault (.ok a : Outcome α) := fun _ h => by cases h
theorem NoFault.err {α} (c : Int) : NoFault (.err c : Outcome α) := fun _ h => by cases h

theorem noFault_of_isFault {α} {o : Outcome α} (h : o.isFault = false) : NoFault o := by
  intro f hf; rw [hf] at h; cases h

/-- the radiotap parser (vendored iterator included) never reads outside the buffer and never
exhausts its fuel -/
theorem C01_radiotap (bs : Bytes) : NoFault (parseRadiotapInfo bs) := parseRadiotapInfo_no_fault bs

/-- shape of every frame the classifier hands out -/
structure Shape (f : Frame) : Prop where
  fc : ∃ b0 b1, f.fc = [b0, b1]
  header : f.header.length = f.headerLen
  body : f.len = f.headerLen + f.body.length
  hmin : 4 ≤ f.headerLen
  long : ∀ b0 b1, f.fc = [b0, b1] → fcType b0 ≠ 1 → 24 ≤ f.headerLen

theorem hdrLen_bounds (ty st : Nat) (o : Bool) (h : Nat) (hh : Spec.hdrLen ty st o = some h) : 4 ≤ h ∧ (ty ≠ 1 → 24 ≤ h) := by
  unfold Spec.hdrLen at hh
  split at hh
  · cases hh; constructor <;> (intros; split <;> omega)
  · cases hh; exact ⟨by omega, fun hne => absurd rfl hne⟩
  · cases hh; constructor <;> (intros; split <;> omega)
  · cases hh

theorem spec_core_some (bs : Bytes) (skip : Nat) (fcs : Bool) (s : Spec.Slices) (h : Spec.classifyCore bs skip fcs = some s) :
    ∃ (frame : Bytes) (b0 b1 : UInt8) (hl : Nat), Spec.hdrLen (b0.toNat / 4 % 4) (b0.toNat / 16) (decide (b1.toNat ≥ 128)) = some hl ∧
      hl ≤ frame.length ∧ s.fc = [b0, b1] ∧ s.len = frame.length ∧ s.headerLen = hl ∧ s.header = frame.take hl ∧ s.body = frame.drop hl := by
  unfold Spec.classifyCore at h
  simp only at h
  by_cases h1 : fcs = true ∧ (bs.drop skip).length < 4
  · rw [if_pos h1] at h; cases h
  · rw [if_neg h1] at h
    generalize (if fcs = true then (bs.drop skip).take ((bs.drop skip).length - 4) else bs.drop skip) = frame at h
    match frame, h with
    | [], h => simp at h
    | [_], h => simp at h
    | b0 :: b1 :: rest, h =>
      simp only at h
      cases hh : Spec.hdrLen (b0.toNat / 4 % 4) (b0.toNat / 16) (decide (b1.toNat ≥ 128)) with
      | none => simp [hh] at h
      | some hl =>
        simp only [hh] at h
        by_cases hlen : (b0 :: b1 :: rest).length < hl
        · rw [if_pos hlen] at h; cases h
        · rw [if_neg hlen] at h
          cases h
          exact ⟨b0 :: b1 :: rest, b0, b1, hl, hh, Nat.le_of_not_lt hlen, rfl, rfl, rfl, rfl, rfl⟩

theorem core_shape (bs : Bytes) (skip : Nat) (fcs : Bool) (s : Spec.Slices) (h : Spec.classifyCore bs skip fcs = some s)
    (fl : Nat) (rt : Option RtInfo) : Shape (C02.frameOf s fl rt) := by
  obtain ⟨frame, b0, b1, hl, hh, hle, hfc, hlen, hhl, hhdr, hbody⟩ := spec_core_some bs skip fcs s h
  obtain ⟨h4, h24⟩ := hdrLen_bounds _ _ _ _ hh
  refine ⟨⟨b0, b1, hfc⟩, ?_, ?_, ?_, ?_⟩
  · simp only [C02.frameOf, hhdr, hhl, List.length_take]; omega
  · simp only [C02.frameOf, hbody, hhl, hlen, List.length_drop]; omega
  · simp only [C02.frameOf, hhl]; exact h4
  · intro c0 c1 hc hne
    simp only [C02.frameOf] at hc ⊢
    rw [hfc] at hc
    cases hc
    rw [hhl]
    exact h24 hne

/-- **classification** never faults, in either mode, on any byte string -/
theorem C01_classify (rt : Bool) (bs : Bytes) : NoFault (classify rt bs) := by
  cases rt with
  | false =>
    rw [C02.C02_plain]
    split
    · exact NoFault.err _
    · exact NoFault.ok _
  | true =>
    rw [C02.C02_radiotap]
    cases h : parseRadiotapInfo bs with
    | ok info =>
      simp only
      split
      · exact NoFault.err _
      · exact NoFault.ok _
    | err c => exact NoFault.err _
    | fault f => exact absurd h (C01_radiotap bs f)

theorem classify_shape (rt : Bool) (bs : Bytes) (f : Frame) (h : classify rt bs = .ok f) : Shape f := by
  cases rt with
  | false =>
    rw [C02.C02_plain] at h
    split at h
    · cases h
    · rename_i s hs
      cases h
      exact core_shape _ _ _ _ hs _ _
  | true =>
    rw [C02.C02_radiotap] at h
    cases hp : parseRadiotapInfo bs with
    | ok info =>
      simp only [hp] at h
      split at h
      · cases h
      · rename_i s hs
        cases h
        exact core_shape _ _ _ _ hs _ _
    | err c => simp [hp] at h
    | fault x => simp [hp] at h

/-- strings shorter than the shortest header are refused in both modes -/
theorem C01_short (rt : Bool) (bs : Bytes) (h : bs.length < 4) : classify rt bs = .err (-EINVAL) := by
  cases rt with
  | false =>
    rw [C02.C02_plain]
    have : Spec.classifyCore bs 0 false = none := by
      unfold Spec.classifyCore
      simp only [List.drop_zero, Bool.false_eq_true, false_and, if_false]
      match bs, h with
      | [], _ => rfl
      | [_], _ => rfl
      | [b0, b1], _ =>
        simp only
        cases hh : Spec.hdrLen (b0.toNat / 4 % 4) (b0.toNat / 16) (decide (b1.toNat ≥ 128)) with
        | none => rfl
        | some hl => have := (hdrLen_bounds _ _ _ _ hh).1; simp; omega
      | [b0, b1, _], _ =>
        simp only
        cases hh : Spec.hdrLen (b0.toNat / 4 % 4) (b0.toNat / 16) (decide (b1.toNat ≥ 128)) with
        | none => rfl
        | some hl => have := (hdrLen_bounds _ _ _ _ hh).1; simp; omega
    simp [this]
  | true =>
    unfold classify parseRadiotapInfo
    have : bs.length < 8 := by omega
    simp [this]

/-- **data extraction** -/
theorem C01_data (f : Frame) (hs : Shape f) : NoFault (parseData f) := by
  obtain ⟨b0, b1, hfc⟩ := hs.fc
  by_cases h2 : fcType b0 = 2
  · have hl := hs.long b0 b1 hfc (by omega)
    rw [C02.C02_data f b0 b1 hfc (by rw [hs.header]; omega)]
    simp only [h2, if_true]
    exact NoFault.ok _
  · unfold parseData
    rw [hfc]
    simp only [ne_eq, h2, not_false_eq_true, if_true]
    exact NoFault.err _

/-- **tag iteration** -/
theorem C01_iterator (bs : Bytes) : NoFault (reported bs) := noFault_of_isFault (C06.C06_total bs)

/-- **RSN / WPA element walkers**: hostile counts are refused or clamped, never followed -/
theorem C01_security (el : Bytes) : NoFault (getRsnInfo el) ∧ NoFault (getWpaInfo el) := by
  constructor
  · have := C08.C08_rsn_decode el
    split at this
    · rw [this]; exact NoFault.err _
    · obtain ⟨i, hi, _⟩ := this; rw [hi]; exact NoFault.ok _
  · have := C08.C08_wpa_decode el
    split at this
    · rw [this]; exact NoFault.err _
    · obtain ⟨i, hi, _⟩ := this; rw [hi]; exact NoFault.ok _


/-! ### management parsers -/

theorem foldElems_noFault {σ} (f : σ → Spec.ElemAt → Outcome σ) (es : List Spec.ElemAt)
    (hf : ∀ s e, e ∈ es → NoFault (f s e)) : ∀ s, NoFault (foldElems f s es) := by
  induction es with
  | nil => intro s; exact NoFault.ok _
  | cons e rest ih =>
    intro s
    unfold foldElems
    cases h : f s e with
    | ok s' =>
      simp only [Outcome.bind_ok]
      exact ih (fun s e he => hf s e (List.mem_cons_of_mem _ he)) s'
    | err c => exact NoFault.err _
    | fault x => exact absurd h (hf s e (List.mem_cons_self) x)

theorem bssElem_noFault (tags : Bytes) (b : Bss) (e : Spec.ElemAt) (he : e.off + 2 + e.len ≤ tags.length) :
    NoFault (bssElem tags b e) := by
  unfold bssElem
  rw [C12.rdSlice_ok _ _ _ _ he]
  simp only [Outcome.bind_ok]
  repeat' split
  all_goals first
    | exact NoFault.ok _
    | exact NoFault.err _
    | exact absurd ‹_› ((C01_security _).1 _)
    | exact absurd ‹_› ((C01_security _).2 _)

theorem staElem_noFault (tags : Bytes) (st : Sta) (e : Spec.ElemAt) (he : e.off + 2 + e.len ≤ tags.length) :
    NoFault (staElem tags st e) := by
  unfold staElem
  rw [C12.rdSlice_ok _ _ _ _ he]
  simp only [Outcome.bind_ok]
  repeat' split
  all_goals first
    | exact NoFault.ok _
    | exact NoFault.err _

theorem walk_noFault {σ} (tags : Bytes) (f : σ → Spec.ElemAt → Outcome σ) (s0 : σ) (g : σ → Parsed)
    (hf : ∀ s e, e.off + 2 + e.len ≤ tags.length → NoFault (f s e)) : NoFault (walkTags tags f s0 g) := by
  unfold walkTags
  cases hr : reported tags with
  | ok es =>
    simp only
    have hsound := (C06.C06_sound tags es hr).2
    have := foldElems_noFault f es (fun s e he => hf s e (hsound e he).1) s0
    cases hfo : foldElems f s0 es with
    | ok b => exact NoFault.ok _
    | err c => exact NoFault.err _
    | fault x => exact absurd hfo (this x)
  | err c => exact NoFault.err _
  | fault x => exact absurd hr (C01_iterator tags x)

theorem bssKind_noFault (f : Frame) (hs : Shape f) (fixedLen capsOff : Nat) (hc : capsOff + 1 < fixedLen + 2) (a1 a2 a3 : Bytes) :
    NoFault (parseBssKind f fixedLen capsOff a1 a2 a3) := by
  unfold parseBssKind
  have hb := hs.body
  by_cases h1 : f.len ≤ f.headerLen + fixedLen
  · rw [if_pos h1]; exact NoFault.err _
  · rw [if_neg h1]
    by_cases h2 : f.len < f.headerLen + fixedLen + 2
    · rw [if_pos h2]; exact NoFault.err _
    · rw [if_neg h2]
      rw [rd_ok (show capsOff < f.body.length by omega), rd_ok (show capsOff + 1 < f.body.length by omega)]
      simp only [Outcome.bind_ok]
      rw [C12.rdSlice_ok _ _ _ _ (show fixedLen + (f.len - (f.headerLen + fixedLen)) ≤ f.body.length by omega)]
      simp only [Outcome.bind_ok]
      exact walk_noFault _ (bssElem _) _ Parsed.bss (fun s e he => bssElem_noFault _ s e he)

theorem staKind_noFault (f : Frame) (hs : Shape f) (fixedLen : Nat) (strict : Bool) (hfix : f.headerLen + fixedLen ≤ f.len ∨ fixedLen = 0) (a2 a3 : Bytes) :
    NoFault (parseStaKind f fixedLen strict a2 a3) := by
  unfold parseStaKind
  have hb := hs.body
  by_cases h1 : strict = true ∧ f.len ≤ f.headerLen + fixedLen
  · rw [if_pos h1]; exact NoFault.err _
  · rw [if_neg h1]
    dsimp only
    rw [C12.rdSlice_ok _ _ _ _ (show fixedLen + (f.len - (f.headerLen + fixedLen)) ≤ f.body.length by omega)]
    simp only [Outcome.bind_ok]
    exact walk_noFault _ (staElem _) _ Parsed.sta (fun s e he => staElem_noFault _ s e he)

theorem reasonKind_noFault (f : Frame) (hs : Shape f) (fixedLen : Nat) (h2 : 2 ≤ fixedLen) : NoFault (parseReasonKind f fixedLen) := by
  unfold parseReasonKind
  have hb := hs.body
  by_cases h1 : f.len < f.headerLen + fixedLen
  · rw [if_pos h1]; exact NoFault.err _
  · rw [if_neg h1]
    rw [rd_ok (show 0 < f.body.length by omega), rd_ok (show 1 < f.body.length by omega)]
    simp only [Outcome.bind_ok]
    rw [C12.rdSlice_ok _ _ _ _ (show fixedLen + (f.len - f.headerLen - fixedLen) ≤ f.body.length by omega)]
    simp only [Outcome.bind_ok]
    exact NoFault.ok _

theorem staKind_strict_noFault (f : Frame) (hs : Shape f) (fixedLen : Nat) (a2 a3 : Bytes) :
    NoFault (parseStaKind f fixedLen true a2 a3) := by
  unfold parseStaKind
  have hb := hs.body
  by_cases h1 : true = true ∧ f.len ≤ f.headerLen + fixedLen
  · rw [if_pos h1]; exact NoFault.err _
  · rw [if_neg h1]
    have : ¬ f.len ≤ f.headerLen + fixedLen := fun h => h1 ⟨rfl, h⟩
    dsimp only
    rw [C12.rdSlice_ok _ _ _ _ (show fixedLen + (f.len - (f.headerLen + fixedLen)) ≤ f.body.length by omega)]
    simp only [Outcome.bind_ok]
    exact walk_noFault _ (staElem _) _ Parsed.sta (fun s e he => staElem_noFault _ s e he)

theorem rssiLoop_noFault (bs : Bytes) : ∀ fuel it, RtInv bs it → RtArgOk bs it → rtMu bs it ≤ fuel → NoFault (rssiLoop bs fuel it) := by
  intro fuel
  induction fuel with
  | zero => intro it _ _ hm; have := rtMu_pos bs it; omega
  | succ n ih =>
    intro it hinv harg hm
    unfold rssiLoop
    by_cases h5 : it.thisArgIndex = 5
    · simp only [h5, if_true]
      have hsz : rtSize 5 = 1 := by decide
      rcases harg with h0 | h30 | ⟨hs, hb⟩
      · omega
      · omega
      · rw [h5, hsz] at hs
        rw [rd_ok (show it.thisArg < bs.length by omega)]
        simp only [Outcome.bind_ok]
        exact NoFault.ok _
    · simp only [h5, if_false]
      have hfuel : rtMu bs it ≤ 40 * (bs.length + 2) := by have := rtMu_le hinv; omega
      obtain ⟨hnf, hhit⟩ := rtNext_inv hinv hfuel
      cases hn : rtNext bs (40 * (bs.length + 2)) it with
      | ok r =>
        simp only [Outcome.bind_ok]
        cases r with
        | stop c => exact NoFault.ok _
        | hit it' =>
          simp only
          obtain ⟨hinv', hlt, hbound, hidx⟩ := hhit it' hn
          refine ih it' hinv' ?_ (by omega)
          rcases hidx with h30 | ⟨_, hsz⟩
          · exact Or.inr (Or.inl h30)
          · exact Or.inr (Or.inr ⟨hsz, by have := hinv'.1; omega⟩)
      | err c => exact NoFault.err _
      | fault x => exact absurd hn (hnf x)

theorem fixed_facts : ∀ k : MKind, k.capsOff + 1 < k.fixedLen + 2 ∧ (k = .deauth ∨ k = .disassoc → 2 ≤ k.fixedLen) ∧ (k = .probeReq → k.fixedLen = 0) := by
  intro k; cases k <;> decide

/-- **the nine management parsers** never fault on a classified frame, whatever its subtype and
whatever its element region contains (truncated elements, hostile suite counts, empty regions) -/
theorem C01_mgmt (k : MKind) (f : Frame) (hs : Shape f) : NoFault (parseMgmt k f) := by
  unfold parseMgmt
  by_cases ht : typeOk f k = true
  · simp only [ht, not_true_eq_false, if_false]
    obtain ⟨hc, hr, hp⟩ := fixed_facts k
    cases k
    case beacon => exact bssKind_noFault f hs _ _ hc _ _ _
    case probeResp => exact bssKind_noFault f hs _ _ hc _ _ _
    case assocResp => exact bssKind_noFault f hs _ _ hc _ _ _
    case reassocResp => exact bssKind_noFault f hs _ _ hc _ _ _
    case probeReq => exact staKind_noFault f hs _ _ (Or.inr (hp rfl)) _ _
    case assocReq => exact staKind_strict_noFault f hs _ _ _
    case reassocReq => exact staKind_strict_noFault f hs _ _ _
    case deauth => exact reasonKind_noFault f hs _ (hr (Or.inl rfl))
    case disassoc => exact reasonKind_noFault f hs _ (hr (Or.inr rfl))
  · simp only [ht]
    exact NoFault.err _

/-! ### EAPOL -/

theorem C01_eapol (f : Frame) (hs : Shape f) :
    NoFault (checkHandshake f) ∧ NoFault (checkMessage f) ∧ NoFault (keyDataLength f) ∧ NoFault (getWpaData f) := by
  have hc : C12.Coherent f := hs.body
  have h1 := C12.C12_recognise f hc
  have h2 := C12.C12_message f hc
  refine ⟨by rw [h1]; exact NoFault.ok _, by rw [h2]; exact NoFault.ok _, ?_, ?_⟩
  · unfold keyDataLength
    rw [h1]
    simp only [Outcome.bind_ok]
    by_cases hh : Spec.isHandshake (frameType f == 2) f.body = true
    · obtain ⟨h8, h107, _⟩ := C12.C12_tables
      have hlen : 107 ≤ f.body.length := by
        unfold Spec.isHandshake Spec.eapolMinBody at hh
        simp only [Bool.and_eq_true, decide_eq_true_eq] at hh
        omega
      have hpos : ¬ ((1 : Int) < 0) := by decide
      simp only [hh, if_true, hpos, if_false]
      rw [h8]
      rw [rd_ok (show 8 + 97 < f.body.length by omega), rd_ok (show 8 + 98 < f.body.length by omega)]
      simp only [Outcome.bind_ok]
      exact NoFault.ok _
    · have hf : Spec.isHandshake (frameType f == 2) f.body = false := by simpa using hh
      have hneg : (-EINVAL : Int) < 0 := by decide
      simp only [hf, Bool.false_eq_true, if_false, hneg, if_true]
      exact NoFault.ok _
  · by_cases hh : Spec.isHandshake (frameType f == 2) f.body = true
    · obtain ⟨d, hd, _⟩ := C12.C12_extract f hc hh
      rw [hd]; exact NoFault.ok _
    · unfold getWpaData
      rw [h1]
      have hf : Spec.isHandshake (frameType f == 2) f.body = false := by simpa using hh
      have hneg : (-EINVAL : Int) < 0 := by decide
      simp only [Outcome.bind_ok, hf, Bool.false_eq_true, if_false, hneg, if_true]
      exact NoFault.err _

/-! ### CRC / FCS -/

theorem C01_crc (bs : Bytes) : NoFault (frameVerify bs) := by
  rw [C11.C11_verify]; exact NoFault.ok _

/-! ### the entry point without a length parameter -/

/-- `libwifi_parse_radiotap_rssi` is fault free on every buffer that holds the header its own
length field announces (the function has no way to know the buffer's real length: D22) -/
theorem C01_rssi_covered (bs : Bytes) (h : rssiCovered bs = true) : NoFault (parseRssi bs) := by
  unfold rssiCovered at h
  unfold parseRssi
  cases hl : le16At "radiotap" bs 2 with
  | ok n =>
    simp only [hl, decide_eq_true_eq] at h
    simp only [Outcome.bind_ok]
    cases hi : rtInit bs n with
    | ok it =>
      simp only
      have hinv := rtInit_inv hi h
      have h0 := rtInit_thisArgIndex hi h
      exact rssiLoop_noFault bs _ it hinv (Or.inl h0) (by have := rtMu_le hinv; omega)
    | err c => exact NoFault.ok _
    | fault x => exact absurd hi (rtInit_no_fault bs n h x)
  | err c => simp [hl] at h
  | fault x => simp [hl] at h

/-! ### end to end -/

/-- **C01** for every byte string and either mode: classification never faults, and every parser
applied to whatever frame it produced never faults either -/
theorem C01_end_to_end (rt : Bool) (bs : Bytes) :
    NoFault (classify rt bs) ∧
    ∀ f, classify rt bs = .ok f →
      (∀ k, NoFault (parseMgmt k f)) ∧ NoFault (parseData f) ∧
      NoFault (checkHandshake f) ∧ NoFault (checkMessage f) ∧ NoFault (keyDataLength f) ∧ NoFault (getWpaData f) := by
  refine ⟨C01_classify rt bs, fun f hf => ?_⟩
  have hs := classify_shape rt bs f hf
  obtain ⟨e1, e2, e3, e4⟩ := C01_eapol f hs
  exact ⟨fun k => C01_mgmt k f hs, C01_data f hs, e1, e2, e3, e4⟩

/-- non-vacuity: a beacon with an SSID element is classified and parsed; a truncated element is refused -/
example : (classify false ([0x80, 0] ++ List.replicate 22 0 ++ List.replicate 12 0 ++ [0, 2, 0x61, 0x62]) >>= parseMgmt .beacon).isOk = true := by
  decide +kernel
example : (classify false ([0x80, 0] ++ List.replicate 22 0 ++ List.replicate 12 0 ++ [0, 9, 0x61, 0x62]) >>= parseMgmt .beacon) = .err (-EINVAL) := by
  decide +kernel

end LWV.Props.C01
