import LWV.Lemmas.Encode
import LWV.Props.C06
/-
C05 — tagged-parameter lists stay well-formed under any edit history.
Refinement shape: the reference is the plain element list `Spec.parse params`; every operation of
the model commutes with it.
-/
namespace LWV.Props.C05
open LWV LWV.Spec LWV.Model LWV.Props.C06

/-- recorded length = byte count, and the bytes are a well-formed element sequence -/
def Inv (t : Tags) : Prop := t.length = t.params.length ∧ wf t.params = true

theorem inv_empty : Inv Tags.empty := ⟨rfl, by decide⟩

theorem take_self (t : Tags) (h : Inv t) : t.params.take t.length = t.params := by
  rw [h.1]; exact List.take_length

/-! ### add -/

/-- adding always succeeds, keeps the invariant and appends exactly one element (whose body is
the data truncated to the one-octet length) — nothing else changes -/
theorem add_general (t : Tags) (h : Inv t) (n : Nat) (d : Bytes) :
    ∃ t', quickAddTag t n d = .ok t' ∧ Inv t' ∧
      t'.params = t.params ++ encodeElem ⟨UInt8.ofNat n, d.take (d.length % 256)⟩ := by
  have hlen : (UInt8.ofNat d.length).toNat = d.length % 256 := by rw [UInt8.toNat_ofNat']
  have hle : d.length % 256 ≤ d.length := Nat.mod_le _ _
  have hlt : d.length % 256 < 256 := Nat.mod_lt _ (by decide)
  have htk : (d.take (d.length % 256)).length = d.length % 256 := by
    simp only [List.length_take]; omega
  have henc : encodeElem ⟨UInt8.ofNat n, d.take (d.length % 256)⟩
      = UInt8.ofNat n :: UInt8.ofNat d.length :: d.take (d.length % 256) := by
    simp only [encodeElem, htk]
    congr 2
    apply UInt8.toNat_inj.mp
    rw [UInt8.toNat_ofNat', UInt8.toNat_ofNat']; omega
  refine ⟨⟨t.length + 2 + d.length % 256, t.params ++ UInt8.ofNat n :: UInt8.ofNat d.length :: d.take (d.length % 256)⟩, ?_, ?_, ?_⟩
  · simp only [quickAddTag, addTag, createTag, rdSlice, hlen, Nat.zero_add, hle, if_true, List.drop_zero, Outcome.bind_ok]
  · obtain ⟨es, hes, hp, _⟩ := wf_decompose t.params h.2
    constructor
    · simp only [List.length_append, List.length_cons, htk, h.1]; omega
    · show wf (t.params ++ _) = true
      rw [← henc, hp]
      have : encode es ++ encodeElem ⟨UInt8.ofNat n, d.take (d.length % 256)⟩
          = encode (es ++ [⟨UInt8.ofNat n, d.take (d.length % 256)⟩]) := by
        simp [encode_append, encode]
      rw [this]
      apply wf_encode
      intro e he
      rcases List.mem_append.mp he with he | he
      · exact hes e he
      · simp only [List.mem_singleton] at he; subst he; simp only [htk]; omega
  · show t.params ++ _ = t.params ++ _
    rw [henc]

/-- **C05 (add)** a storable element (number and length fit one octet) is appended verbatim:
the reference list grows by exactly that element -/
theorem C05_add (t : Tags) (h : Inv t) (n : Nat) (d : Bytes) (hd : d.length ≤ 255) :
    ∃ t', quickAddTag t n d = .ok t' ∧ Inv t' ∧
      t'.params = t.params ++ encodeElem ⟨UInt8.ofNat n, d⟩ ∧
      parse t'.params = parse t.params ++ [⟨UInt8.ofNat n, d⟩] := by
  obtain ⟨t', h1, h2, h3⟩ := add_general t h n d
  have hm : d.length % 256 = d.length := Nat.mod_eq_of_lt (by omega)
  rw [hm, List.take_length] at h3
  refine ⟨t', h1, h2, h3, ?_⟩
  obtain ⟨es, hes, hp, hpe⟩ := wf_decompose t.params h.2
  rw [h3, hpe, hp]
  have : encode es ++ encodeElem ⟨UInt8.ofNat n, d⟩ = encode (es ++ [⟨UInt8.ofNat n, d⟩]) := by
    simp [encode_append, encode]
  rw [this]
  apply parse_encode
  intro e he
  rcases List.mem_append.mp he with he | he
  · exact hes e he
  · simp only [List.mem_singleton] at he; subst he; exact hd

/-! ### what the iterator shows of a well-formed list -/

theorem reported_encode (es : List Elem) (hes : bodiesOk es) :
    reported (encode es) = match es with
      | [] => .err (-EINVAL)
      | _ :: _ => .ok (visible (offsets 0 es)) := by
  rw [C06_exact]
  cases es with
  | nil => simp [encode, firstFits]
  | cons e u =>
    have := firstFits_encode_cons e u (hes e List.mem_cons_self)
    simp only [this, if_true, parseAt_encode _ hes]

theorem pred_eq (n : Nat) (x : UInt8) : (x.toNat == n % 256 && decide (n < 256)) = (x.toNat == n) := by
  by_cases h : n < 256
  · simp [h, Nat.mod_eq_of_lt h]
  · have := x.toNat_lt
    have : ¬ x.toNat = n := by omega
    simp [h, this]

/-! ### remove -/

/-- destructuring of a state that satisfies the invariant: it is `encode es` with its length -/
theorem inv_cases (t : Tags) (h : Inv t) :
    ∃ es, bodiesOk es ∧ t = ⟨(encode es).length, encode es⟩ ∧ parse (encode es) = es := by
  obtain ⟨len, params⟩ := t
  obtain ⟨hlen, hwf⟩ := h
  obtain ⟨es, hes, hp, hpe⟩ := wf_decompose params hwf
  simp only at hlen hp
  subst hp; subst hlen
  exact ⟨es, hes, rfl, hpe⟩

theorem remove_general (t : Tags) (h : Inv t) (n : Nat) :
    ∃ r t', removeTag t n = .ok (r, t') ∧ Inv t' ∧
      (noInnerEmpty (parse t.params) = true →
        parse t'.params = (parse t.params).eraseP (fun e => e.num.toNat == n)) ∧
      ((∃ a, (visible (offsets 0 (parse t.params))).find? (fun a => a.num.toNat == n) = some a) →
        parse t'.params = (parse t.params).eraseP (fun e => e.num.toNat == n)) := by
  obtain ⟨es, hes, rfl, hpe⟩ := inv_cases t h
  unfold removeTag findTag
  simp only [List.take_length]
  rw [reported_encode es hes, hpe]
  cases es with
  | nil =>
    exact ⟨-EINVAL, _, by simp, h, fun _ => by simp [encode, parse, parseF], fun _ => by simp [encode, parse, parseF]⟩
  | cons e u =>
    simp only [Outcome.bind_ok]
    have hpred : (fun a : ElemAt => a.num.toNat == n % 256 && decide (n < 256)) = (fun a => (fun x : UInt8 => x.toNat == n) a.num) := by
      funext a; exact pred_eq n a.num
    rw [hpred]
    have hsp := splice_erase (fun x : UInt8 => x.toNat == n) (e :: u) []
    simp only [List.length_nil, List.nil_append] at hsp
    cases hf : (visible (offsets 0 (e :: u))).find? (fun a => (fun x : UInt8 => x.toNat == n) a.num) with
    | none =>
      refine ⟨0, _, rfl, h, fun hne => ?_, fun hex => ?_⟩
      · rw [visible_offsets 0 _ hne] at hf
        rw [hf] at hsp
        simp only [hpe]; exact hsp.symm
      · obtain ⟨a, ha⟩ := hex
        first
          | cases ha
          | (rw [hpe, hf] at ha; cases ha)
    | some a =>
      have hfull := (visible_prefix (offsets 0 (e :: u))).find?_eq_some hf
      rw [hfull] at hsp
      obtain ⟨hbytes, hbound⟩ := hsp
      have hok : bodiesOk ((e :: u).eraseP (fun e => (fun x : UInt8 => x.toNat == n) e.num)) :=
        fun x hx => hes x (List.mem_of_mem_eraseP hx)
      have hres : parse ((encode (e :: u)).take a.off ++ (encode (e :: u)).drop (a.off + 2 + a.len))
          = (e :: u).eraseP (fun e => e.num.toNat == n) := by rw [hbytes, parse_encode _ hok]
      refine ⟨0, ⟨(encode (e :: u)).length - (2 + a.len), (encode (e :: u)).take a.off ++ (encode (e :: u)).drop (a.off + 2 + a.len)⟩, rfl, ⟨?_, ?_⟩, fun _ => hres, fun _ => hres⟩
      · simp only [List.length_append, List.length_take, List.length_drop]
        omega
      · show wf ((encode (e :: u)).take a.off ++ (encode (e :: u)).drop (a.off + 2 + a.len)) = true
        rw [hbytes]; exact wf_encode _ hok

/-- **C05 (remove)** with no inner empty element, removing deletes exactly the first element
with that number and is a no-op when it is absent; the invariant holds regardless -/
theorem C05_remove (t : Tags) (h : Inv t) (hne : noInnerEmpty (parse t.params) = true) (n : Nat) :
    ∃ r t', removeTag t n = .ok (r, t') ∧ Inv t' ∧
      parse t'.params = (parse t.params).eraseP (fun e => e.num.toNat == n) := by
  obtain ⟨r, t', h1, h2, h3, _⟩ := remove_general t h n
  exact ⟨r, t', h1, h2, h3 hne⟩

theorem C05_remove_wf (t : Tags) (h : Inv t) (n : Nat) :
    ∃ r t', removeTag t n = .ok (r, t') ∧ Inv t' := by
  obtain ⟨r, t', h1, h2, _, _⟩ := remove_general t h n
  exact ⟨r, t', h1, h2⟩

/-- on a non-empty well-formed list the model's remove reports success -/
theorem remove_ret_zero (t : Tags) (h : Inv t) (h0 : t.length ≠ 0) (n : Nat) (r : Int) (t' : Tags)
    (hr : removeTag t n = .ok (r, t')) : r = 0 := by
  obtain ⟨es, hes, rfl, hpe⟩ := inv_cases t h
  unfold removeTag findTag at hr
  simp only [List.take_length] at hr
  rw [reported_encode es hes] at hr
  cases es with
  | nil => simp [encode] at h0
  | cons e u =>
    simp only [Outcome.bind_ok] at hr
    split at hr <;> simp_all

/-! ### count -/

/-- **C05 (count)** occurrence counting agrees with the reference list -/
theorem C05_check (t : Tags) (h : Inv t) (hne : noInnerEmpty (parse t.params) = true) (n : Nat) :
    checkTag t n = .ok ((parse t.params).countP (fun e => e.num.toNat == n) : Nat) := by
  obtain ⟨es, hes, rfl, hpe⟩ := inv_cases t h
  unfold checkTag
  simp only [List.take_length, hpe] at hne ⊢
  cases es with
  | nil => simp [encode]
  | cons e u =>
    have hlen : (encode (e :: u)).length ≠ 0 := by rw [encode_cons]; simp [encodeElem]
    simp only [hlen, if_false]
    rw [reported_encode _ hes]
    have hpred : (fun a : ElemAt => a.num.toNat == n % 256 && decide (n < 256)) = (fun a => (fun x : UInt8 => x.toNat == n) a.num) := by
      funext a; exact pred_eq n a.num
    simp only [hpred]
    rw [visible_offsets 0 _ hne, countP_offsets (fun x : UInt8 => x.toNat == n)]

/-! ### set (remove + add) -/

/-- **C05 (set)** the setters replace the element and keep all others in order -/
theorem C05_set (t : Tags) (h : Inv t) (hne : noInnerEmpty (parse t.params) = true) (n : Nat) (d : Bytes)
    (hd : d.length ≤ 255) :
    ∃ t', setTag t n d = .ok (0, t') ∧ Inv t' ∧
      parse t'.params = (parse t.params).eraseP (fun e => e.num.toNat == n) ++ [⟨UInt8.ofNat n, d⟩] := by
  obtain ⟨t1, hadd, hinv1, hparams1, hparse1⟩ := C05_add t h n d hd
  unfold setTag
  -- was the tag present?
  by_cases hc : 0 < (parse t.params).countP (fun e => e.num.toNat == n)
  · -- present: the list is not empty, the count is positive, the first occurrence is removed after the add
    have h0 : t.length ≠ 0 := by
      intro hz
      have : t.params = [] := List.eq_nil_of_length_eq_zero (by rw [← h.1]; exact hz)
      rw [this] at hc; simp [parse, parseF] at hc
    have hchk := C05_check t h hne n
    simp only [h0, ne_eq, not_false_eq_true, if_true, hchk, Outcome.bind_ok, hadd]
    have hpos : decide (((List.countP (fun e => e.num.toNat == n) (parse t.params) : Nat) : Int) > 0) = true := by
      simp only [decide_eq_true_eq]; exact_mod_cast hc
    simp only [Outcome.pure_eq, Outcome.bind_ok, hpos, if_true]
    obtain ⟨r, t2, hrem, hinv2, _, hfound⟩ := remove_general t1 hinv1 n
    have hr0 : r = 0 := by
      apply remove_ret_zero t1 hinv1 _ n r t2 hrem
      intro hz
      have : t1.params = [] := List.eq_nil_of_length_eq_zero (by rw [← hinv1.1]; exact hz)
      rw [hparams1] at this
      simp [encodeElem] at this
    subst hr0
    refine ⟨t2, hrem, hinv2, ?_⟩
    rw [hfound ?_, hparse1, eraseP_append_of_countP _ _ _ hc]
    -- the old occurrence is visible to the iterator
    rw [hparse1]
    obtain ⟨a, ha⟩ := find_offsets_of_countP (fun x : UInt8 => x.toNat == n) 0 (parse t.params) hc
    exact ⟨a, (offsets_prefix_visible_append 0 _ _ hne).find?_eq_some ha⟩
  · -- absent: nothing to remove
    have hc0 : (parse t.params).countP (fun e => e.num.toNat == n) = 0 := by omega
    have hhad : (if t.length ≠ 0 then (do let c ← checkTag t n; pure (decide (c > 0))) else (pure false : Outcome Bool)) = .ok false := by
      by_cases h0 : t.length = 0
      · simp [h0]
      · simp only [h0, ne_eq, not_false_eq_true, if_true, C05_check t h hne n, Outcome.bind_ok, hc0]
        rfl
    rw [hhad]
    simp only [Outcome.bind_ok, hadd, Bool.false_eq_true, if_false]
    exact ⟨t1, rfl, hinv1, by rw [hparse1, eraseP_of_countP_zero _ _ hc0]⟩

/-! ### every reachable state -/

/-- run a history, discarding return values -/
def runOps : Tags → List TagOp → Outcome Tags
  | t, [] => .ok t
  | t, op :: ops => match stepTag t op with
    | .ok (_, t') => runOps t' ops
    | .err c => .err c
    | .fault f => .fault f

theorem checkTag_total (t : Tags) (h : Inv t) (n : Nat) : ∃ c, checkTag t n = .ok c := by
  obtain ⟨es, hes, rfl, hpe⟩ := inv_cases t h
  simp only [checkTag, List.take_length]
  rw [reported_encode es hes]
  cases es with
  | nil => exact ⟨0, by simp [encode]⟩
  | cons e u =>
    have hlen : (encode (e :: u)).length ≠ 0 := by rw [encode_cons]; simp [encodeElem]
    exact ⟨((visible (offsets 0 (e :: u))).countP (fun e => e.num.toNat == n % 256 && decide (n < 256)) : Nat), by simp [hlen]⟩

/-- the setters keep the invariant on every well-formed list (no assumption on empty elements) -/
theorem set_inv (t : Tags) (h : Inv t) (n : Nat) (d : Bytes) : ∃ r t', setTag t n d = .ok (r, t') ∧ Inv t' := by
  obtain ⟨c, hc⟩ := checkTag_total t h n
  obtain ⟨t1, h1, hinv1, _⟩ := add_general t h n d
  unfold setTag
  by_cases h0 : t.length = 0
  · simp only [h0, ne_eq, not_true_eq_false, if_false, Outcome.pure_eq, Outcome.bind_ok, h1, Bool.false_eq_true]
    exact ⟨0, t1, rfl, hinv1⟩
  · simp only [h0, ne_eq, not_false_eq_true, if_true, hc, Outcome.bind_ok, Outcome.pure_eq, h1]
    by_cases hpos : c > 0
    · obtain ⟨r, t2, h2, hinv2⟩ := C05_remove_wf t1 hinv1 n
      simp only [hpos, decide_true, if_true]
      exact ⟨r, t2, h2, hinv2⟩
    · simp only [hpos, decide_false, Bool.false_eq_true, if_false]
      exact ⟨0, t1, rfl, hinv1⟩

theorem step_inv (t : Tags) (h : Inv t) (op : TagOp) : ∃ r t', stepTag t op = .ok (r, t') ∧ Inv t' := by
  cases op with
  | add n d =>
    obtain ⟨t', h1, h2, _⟩ := add_general t h n d
    exact ⟨0, t', by simp [stepTag, h1], h2⟩
  | remove n =>
    obtain ⟨r, t', h1, h2⟩ := C05_remove_wf t h n
    exact ⟨r, t', by simp [stepTag, h1], h2⟩
  | setSsid d => simpa [stepTag] using set_inv t h 0 d
  | setChannel c => simpa [stepTag] using set_inv t h 3 [c]
  | check n =>
    obtain ⟨es, hes, rfl, hpe⟩ := inv_cases t h
    simp only [stepTag, checkTag, List.take_length]
    rw [reported_encode es hes]
    cases es with
    | nil => exact ⟨0, _, by simp [encode], h⟩
    | cons e u =>
      have hlen : (encode (e :: u)).length ≠ 0 := by rw [encode_cons]; simp [encodeElem]
      exact ⟨((visible (offsets 0 (e :: u))).countP (fun e => e.num.toNat == n % 256 && decide (n < 256)) : Nat), _, by simp [hlen], h⟩

/-- **C05 (invariant)** after ANY sequence of add / remove / set-SSID / set-channel / count
operations, starting from the empty list, no operation faults or fails and the stored bytes are
a well-formed element sequence whose recorded length equals the byte count. -/
theorem C05_inv (ops : List TagOp) : ∃ t, runOps Tags.empty ops = .ok t ∧ Inv t := by
  suffices ∀ t, Inv t → ∃ t', runOps t ops = .ok t' ∧ Inv t' from this _ inv_empty
  induction ops with
  | nil => intro t h; exact ⟨t, rfl, h⟩
  | cons op ops ih =>
    intro t h
    obtain ⟨r, t1, h1, h2⟩ := step_inv t h op
    obtain ⟨t', h3, h4⟩ := ih t1 h2
    exact ⟨t', by simp [runOps, h1, h3], h4⟩

/-! non-vacuity: a concrete five-element state meets the hypotheses of remove/set/count -/
example : Inv ⟨12, [0, 2, 65, 66, 3, 1, 7, 1, 3, 120, 121, 122]⟩ ∧
    noInnerEmpty (parse [0, 2, 65, 66, 3, 1, 7, 1, 3, 120, 121, 122]) = true := by
  refine ⟨⟨by decide, by decide⟩, by decide⟩

end LWV.Props.C05
