import LWV.Props.C14Parse
namespace LWV.Props.C15Parse
open LWV LWV.Model LWV.Heap LWV.Props.C14Full

/-!
C15 for the nine management parsers `libwifi_parse_<kind>` (beacon, probe response, (re)association
response, probe request, (re)association request, deauthentication, disassociation), each followed by
the documented release of its output object (`libwifi_free_bss`, `libwifi_free_sta`,
`libwifi_free_parsed_deauth`, `libwifi_free_parsed_disassoc`), and for the harness pattern "call the
routine a second time on the same output object after releasing it" — also for `libwifi_parse_data` /
`libwifi_free_data` and `libwifi_get_wpa_data` / `libwifi_free_wpa_data`.

Everything is stated for an ARBITRARY fault schedule `σ : Nat → Bool`, every parser kind `k`, every
frame `f` and every starting ledger `h`.  The allocation request issued in ledger state `h` is refused
exactly when `σ h.reqs` (`h.reqs` is the ledger's request counter, see `LWV.Heap.request`).
-/

/-! ## the one allocation request -/

/-- a refused request: `malloc` returns NULL exactly when the schedule says so at the ledger's request counter -/
theorem malloc_refused (σ : Nat → Bool) (n : Nat) (h : H) (hf : σ h.reqs = true) :
    ((malloc σ n).run h).1 = none := by
  simp [malloc, request, StateT.run, hf]

/-- a granted request: `malloc` returns the ledger's next block id -/
theorem malloc_granted (σ : Nat → Bool) (n : Nat) (h : H) (hf : σ h.reqs = false) :
    ((malloc σ n).run h).1 = some h.next := by
  simp [malloc, request, StateT.run, hf]

/-! ## T1 an allocation failure is reported, never a silent loss -/

/-- **T1** under every fault schedule `libwifi_parse_<kind>` either returns exactly what the fault-free
parser returns (same return code, same output object), or it reports `-ENOMEM` — and the latter only on
a frame on which the parser really reaches its allocation (the copy of the tagged parameters), i.e.
only when there was something to lose -/
theorem mgmt_release_result (σ : Nat → Bool) (k : MKind) (f : Frame) (h : H) :
    ((parseReleaseH σ k f).run h).1 = parseMgmt k f ∨
    (((parseReleaseH σ k f).run h).1 = .err (-ENOMEM) ∧ ∃ n, parseAllocSize k f = some n) := by
  unfold parseReleaseH
  cases parseAllocSize k f with
  | none => exact Or.inl rfl
  | some n =>
    simp only
    rw [run_bind]
    cases ((malloc σ n).run h).1 with
    | none => exact Or.inr ⟨rfl, n, rfl⟩
    | some p => exact Or.inl rfl

/-! ## T2 the fault-free schedule -/

/-- **T2** when no allocation fails `libwifi_parse_<kind>` returns exactly the pure model's result -/
theorem mgmt_release_nf (k : MKind) (f : Frame) (h : H) : ((parseReleaseH nf k f).run h).1 = parseMgmt k f := by
  unfold parseReleaseH
  cases parseAllocSize k f with
  | none => rfl
  | some n =>
    simp only
    rw [run_bind]
    simp only [C14Parse.malloc_nf_some]
    rfl

/-- T2 with the schedule written out -/
theorem mgmt_release_never_fail (k : MKind) (f : Frame) (h : H) :
    ((parseReleaseH (fun _ => false) k f).run h).1 = parseMgmt k f := mgmt_release_nf k f h

/-! ## T3 `-ENOMEM` exactly on a refused request -/

/-- **T3 (refused)** when `libwifi_parse_<kind>` reaches its allocation and the request is refused (the
schedule is true at the ledger's request counter `h.reqs`), the parser returns `-ENOMEM` -/
theorem mgmt_release_refused (σ : Nat → Bool) (k : MKind) (f : Frame) (h : H) (n : Nat)
    (ha : parseAllocSize k f = some n) (hf : σ h.reqs = true) :
    ((parseReleaseH σ k f).run h).1 = .err (-ENOMEM) := by
  unfold parseReleaseH
  rw [ha]
  simp only
  rw [run_bind]
  simp only [malloc_refused σ n h hf]
  rfl

/-- **T3 (granted)** when `libwifi_parse_<kind>` reaches its allocation and the request is granted, the
parser returns exactly what the fault-free parser returns -/
theorem mgmt_release_granted (σ : Nat → Bool) (k : MKind) (f : Frame) (h : H) (n : Nat)
    (ha : parseAllocSize k f = some n) (hf : σ h.reqs = false) :
    ((parseReleaseH σ k f).run h).1 = parseMgmt k f := by
  unfold parseReleaseH
  rw [ha]
  simp only
  rw [run_bind]
  simp only [malloc_granted σ n h hf]
  rfl

/-- **T3 (no allocation)** when `libwifi_parse_<kind>` does not reach its allocation (wrong frame type,
frame too short, empty tag region of a deauthentication / disassociation frame), the fault schedule is
irrelevant: the parser returns exactly what the fault-free parser returns and issues no request -/
theorem mgmt_release_noalloc (σ : Nat → Bool) (k : MKind) (f : Frame) (h : H)
    (ha : parseAllocSize k f = none) :
    ((parseReleaseH σ k f).run h).1 = parseMgmt k f ∧ ((parseReleaseH σ k f).run h).2 = h := by
  unfold parseReleaseH
  rw [ha]
  exact ⟨rfl, rfl⟩

/-- **T3** the three cases together: which of the two outcomes of `mgmt_release_result` occurs is
determined by whether `libwifi_parse_<kind>` reaches its allocation and by the schedule at the ledger's
request counter `h.reqs` -/
theorem mgmt_release_enomem_iff (σ : Nat → Bool) (k : MKind) (f : Frame) (h : H) :
    (∀ n, parseAllocSize k f = some n → σ h.reqs = true →
      ((parseReleaseH σ k f).run h).1 = .err (-ENOMEM)) ∧
    (∀ n, parseAllocSize k f = some n → σ h.reqs = false →
      ((parseReleaseH σ k f).run h).1 = parseMgmt k f) ∧
    (parseAllocSize k f = none → ((parseReleaseH σ k f).run h).1 = parseMgmt k f) :=
  ⟨fun n ha hf => mgmt_release_refused σ k f h n ha hf,
   fun n ha hf => mgmt_release_granted σ k f h n ha hf,
   fun ha => (mgmt_release_noalloc σ k f h ha).1⟩

/-- the request counter: `libwifi_parse_<kind>` issues exactly one allocation request when it reaches its
allocation and none otherwise -/
theorem mgmt_release_reqs (σ : Nat → Bool) (k : MKind) (f : Frame) (h : H) :
    ((parseReleaseH σ k f).run h).2.reqs = h.reqs + (if (parseAllocSize k f).isSome then 1 else 0) := by
  unfold parseReleaseH
  cases parseAllocSize k f with
  | none => rfl
  | some n =>
    simp only
    rw [run_bind]
    by_cases hf : σ h.reqs = true
    · simp [malloc, request, StateT.run, hf, pure, StateT.pure]
    · simp [malloc, request, StateT.run, hf, pure, StateT.pure, free, release, bind, StateT.bind, modify,
        modifyGet, MonadStateOf.modifyGet, StateT.modifyGet]

/-! ## T4 a second call on the same output object -/

/-- `libwifi_parse_<kind>(&out, frame)`, release of `out`, then the same call on the same `out` and its
release again -/
def parseTwiceH (σ : Nat → Bool) (k : MKind) (f : Frame) : M (Outcome Parsed × Outcome Parsed) := do
  let a ← parseReleaseH σ k f
  let b ← parseReleaseH σ k f
  pure (a, b)

/-- `libwifi_parse_data(&out, frame)`, `libwifi_free_data(&out)`, and both once more on the same `out` -/
def parseDataTwiceH (σ : Nat → Bool) (f : Frame) : M (Outcome DataInfo × Outcome DataInfo) := do
  let a ← parseDataReleaseH σ f
  let b ← parseDataReleaseH σ f
  pure (a, b)

/-- `libwifi_get_wpa_data(frame, &out)`, `libwifi_free_wpa_data(&out)`, and both once more on the same `out` -/
def wpaDataTwiceH (σ : Nat → Bool) (f : Frame) : M (Outcome WpaData × Outcome WpaData) := do
  let a ← wpaDataReleaseH σ f
  let b ← wpaDataReleaseH σ f
  pure (a, b)

/-- **T4 (ledger)** calling `libwifi_parse_<kind>` a second time on the same output object after its
documented release: under every fault schedule (which may refuse the first request, the second, both or
neither) at most one block is live at a time and each is released exactly once — the ledger is restored -/
theorem mgmt_twice_clean (σ : Nat → Bool) (k : MKind) (f : Frame) (h : H) (own : List Nat) (c : Clean h own) :
    Clean ((parseTwiceH σ k f).run h).2 own := by
  unfold parseTwiceH
  rw [run_bind, run_bind]
  exact C14.C14_parse_release σ k f _ own (C14.C14_parse_release σ k f h own c)

/-- **T4 (headline)** from the empty ledger: after the two calls of `libwifi_parse_<kind>` and the two
releases no library block is allocated and nothing was released twice or invalidly -/
theorem C15_mgmt_twice (σ : Nat → Bool) (k : MKind) (f : Frame) :
    let r := (parseTwiceH σ k f).run {}
    r.2.live = [] ∧ r.2.bad = 0 :=
  clean_nil_live (mgmt_twice_clean σ k f {} [] clean_init)

/-- **T4 (results)** under every fault schedule each of the two calls of `libwifi_parse_<kind>` returns
either exactly the fault-free result or `-ENOMEM`, the latter only when the parser reaches its
allocation: a refused request in the first call does not disturb the second one -/
theorem mgmt_twice_result (σ : Nat → Bool) (k : MKind) (f : Frame) (h : H) :
    (((parseTwiceH σ k f).run h).1.1 = parseMgmt k f ∨
      (((parseTwiceH σ k f).run h).1.1 = .err (-ENOMEM) ∧ ∃ n, parseAllocSize k f = some n)) ∧
    (((parseTwiceH σ k f).run h).1.2 = parseMgmt k f ∨
      (((parseTwiceH σ k f).run h).1.2 = .err (-ENOMEM) ∧ ∃ n, parseAllocSize k f = some n)) := by
  unfold parseTwiceH
  rw [run_bind, run_bind]
  exact ⟨mgmt_release_result σ k f h, mgmt_release_result σ k f _⟩

/-- **T4 (fault-free)** when no allocation fails both calls of `libwifi_parse_<kind>` return exactly the
pure model's result -/
theorem mgmt_twice_nf (k : MKind) (f : Frame) (h : H) :
    ((parseTwiceH nf k f).run h).1 = (parseMgmt k f, parseMgmt k f) := by
  unfold parseTwiceH
  rw [run_bind, run_bind]
  exact Prod.ext (mgmt_release_nf k f h) (mgmt_release_nf k f _)

/-- T4 (fault-free) with the schedule written out, componentwise -/
theorem mgmt_twice_never_fail (k : MKind) (f : Frame) (h : H) :
    ((parseTwiceH (fun _ => false) k f).run h).1.1 = parseMgmt k f ∧
    ((parseTwiceH (fun _ => false) k f).run h).1.2 = parseMgmt k f := by
  have := mgmt_twice_nf k f h
  exact ⟨congrArg Prod.fst this, congrArg Prod.snd this⟩

/-- **T4 (data, ledger)** `libwifi_parse_data` + `libwifi_free_data` twice on the same output object:
the ledger is restored under every fault schedule -/
theorem data_twice_clean (σ : Nat → Bool) (f : Frame) (h : H) (own : List Nat) (c : Clean h own) :
    Clean ((parseDataTwiceH σ f).run h).2 own := by
  unfold parseDataTwiceH
  rw [run_bind, run_bind]
  exact C14Parse.data_release_clean σ f _ own (C14Parse.data_release_clean σ f h own c)

/-- **T4 (data, headline)** from the empty ledger nothing stays allocated, nothing is released twice -/
theorem C15_data_twice (σ : Nat → Bool) (f : Frame) :
    let r := (parseDataTwiceH σ f).run {}
    r.2.live = [] ∧ r.2.bad = 0 :=
  clean_nil_live (data_twice_clean σ f {} [] clean_init)

/-- **T4 (data, results)** each of the two calls of `libwifi_parse_data` returns the fault-free result
or reports `-ENOMEM`, the latter only on a frame the fault-free routine accepts -/
theorem data_twice_result (σ : Nat → Bool) (f : Frame) (h : H) :
    (((parseDataTwiceH σ f).run h).1.1 = parseData f ∨
      (((parseDataTwiceH σ f).run h).1.1 = .err (-ENOMEM) ∧ ∃ d, parseData f = .ok d)) ∧
    (((parseDataTwiceH σ f).run h).1.2 = parseData f ∨
      (((parseDataTwiceH σ f).run h).1.2 = .err (-ENOMEM) ∧ ∃ d, parseData f = .ok d)) := by
  unfold parseDataTwiceH
  rw [run_bind, run_bind]
  exact ⟨C14Parse.data_release_result σ f h, C14Parse.data_release_result σ f _⟩

/-- **T4 (data, fault-free)** both calls of `libwifi_parse_data` return exactly the pure model's result -/
theorem data_twice_nf (f : Frame) (h : H) :
    ((parseDataTwiceH nf f).run h).1 = (parseData f, parseData f) := by
  unfold parseDataTwiceH
  rw [run_bind, run_bind]
  exact Prod.ext (C14Parse.data_release_nf f h) (C14Parse.data_release_nf f _)

/-- **T4 (EAPOL, ledger)** `libwifi_get_wpa_data` + `libwifi_free_wpa_data` twice on the same output
object: the ledger is restored under every fault schedule -/
theorem wpa_twice_clean (σ : Nat → Bool) (f : Frame) (h : H) (own : List Nat) (c : Clean h own) :
    Clean ((wpaDataTwiceH σ f).run h).2 own := by
  unfold wpaDataTwiceH
  rw [run_bind, run_bind]
  exact C14Parse.wpa_release_clean σ f _ own (C14Parse.wpa_release_clean σ f h own c)

/-- **T4 (EAPOL, headline)** from the empty ledger nothing stays allocated, nothing is released twice -/
theorem C15_wpa_twice (σ : Nat → Bool) (f : Frame) :
    let r := (wpaDataTwiceH σ f).run {}
    r.2.live = [] ∧ r.2.bad = 0 :=
  clean_nil_live (wpa_twice_clean σ f {} [] clean_init)

/-- **T4 (EAPOL, results)** each of the two calls of `libwifi_get_wpa_data` returns the fault-free
result or reports `-ENOMEM`, the latter only when there was a key-data copy to lose -/
theorem wpa_twice_result (σ : Nat → Bool) (f : Frame) (h : H) :
    (((wpaDataTwiceH σ f).run h).1.1 = getWpaData f ∨
      (((wpaDataTwiceH σ f).run h).1.1 = .err (-ENOMEM) ∧ ∃ d, getWpaData f = .ok d ∧ 0 < d.keyDataLength)) ∧
    (((wpaDataTwiceH σ f).run h).1.2 = getWpaData f ∨
      (((wpaDataTwiceH σ f).run h).1.2 = .err (-ENOMEM) ∧ ∃ d, getWpaData f = .ok d ∧ 0 < d.keyDataLength)) := by
  unfold wpaDataTwiceH
  rw [run_bind, run_bind]
  exact ⟨C14Parse.wpa_release_result σ f h, C14Parse.wpa_release_result σ f _⟩

/-- **T4 (EAPOL, fault-free)** both calls of `libwifi_get_wpa_data` return exactly the pure model's result -/
theorem wpa_twice_nf (f : Frame) (h : H) :
    ((wpaDataTwiceH nf f).run h).1 = (getWpaData f, getWpaData f) := by
  unfold wpaDataTwiceH
  rw [run_bind, run_bind]
  exact Prod.ext (C14Parse.wpa_release_nf f h) (C14Parse.wpa_release_nf f _)

/-! ## T5 non-vacuity -/

/-- what `libwifi_get_wifi_frame` makes of the beacon `C14Full.bcn`: 24 header octets, 12 octets of fixed
parameters, an SSID element "AB" -/
def bcnF : Frame :=
  { flags := 0, fc := [0x80, 0], len := 40, headerLen := 24, header := [0x80, 0] ++ List.replicate 22 0,
    body := List.replicate 12 0 ++ [0, 2, 65, 66], radiotap := none }

/-- the frame is what classification produces -/
example : classify false bcn = .ok bcnF := by decide +kernel

/-- the beacon parser reaches its allocation on `bcnF` (4 octets of tagged parameters), so the `∃ n` of
`mgmt_release_result` and the hypotheses of `mgmt_release_refused` are inhabited; the probe-response
parser rejects the same frame before allocating -/
example : parseAllocSize .beacon bcnF = some 4 ∧ parseAllocSize .probeResp bcnF = none := by decide +kernel

/-- the copy of the tagged parameters cannot be allocated: `libwifi_parse_beacon` reports `-ENOMEM`, one
request, one fault, nothing live, nothing released -/
example :
    let r := (parseReleaseH C14Parse.failFirst .beacon bcnF).run {}
    r.1 = .err (-ENOMEM) ∧ r.2.reqs = 1 ∧ r.2.faults = 1 ∧ r.2.live = [] ∧ r.2.bad = 0 := by decide +kernel

/-- the same with the schedule written out -/
example :
    let r := (parseReleaseH (fun n => n == 0) .beacon bcnF).run {}
    r.1 = .err (-ENOMEM) ∧ r.2.live = [] ∧ r.2.bad = 0 := by decide +kernel

/-- fault-free: the pure result, which is a success, one request, the block released -/
example :
    let r := (parseReleaseH nf .beacon bcnF).run {}
    r.1 = parseMgmt .beacon bcnF ∧ r.1.isOk = true ∧ r.2.reqs = 1 ∧ r.2.faults = 0 ∧ r.2.live = [] ∧ r.2.bad = 0 := by
  decide +kernel

/-- the second call on the same output object after a refused first request: first `-ENOMEM`, then the
full result; two requests, one fault, empty ledger -/
example :
    let r := (parseTwiceH C14Parse.failFirst .beacon bcnF).run {}
    r.1.1 = .err (-ENOMEM) ∧ r.1.2 = parseMgmt .beacon bcnF ∧ r.1.2.isOk = true ∧
    r.2.reqs = 2 ∧ r.2.faults = 1 ∧ r.2.live = [] ∧ r.2.bad = 0 := by decide +kernel

/-- the parser that rejects the frame does so without a request, whatever the schedule -/
example :
    let r := (parseReleaseH (fun _ => true) .probeResp bcnF).run {}
    r.1 = .err (-EINVAL) ∧ r.2.reqs = 0 := by decide +kernel

end LWV.Props.C15Parse
