import LWV.Model.Radiotap
import LWV.Spec.Radiotap
/-
C09 — radiotap headers are decoded at their specified aligned offsets or refused.

Proved here: the refusal clauses for every buffer, the alignment/size table against the radiotap
specification, and the band/channel mapping for every frequency.  The placement of fields by the
vendored iterator (`Model.rtNext`) against the declarative rule (`Spec.rtFields`) is carried by the
correspondence run (the property theorem for it is stated as `C09_decode_statement` and is NOT
proved: see DESIGN.md, C09, "partial").
-/
namespace LWV.Props.C09
open LWV LWV.Model

/-- the library's alignment/size table is the radiotap specification's, field by field; the one
field of the first 23 the library does not define (18, XChannel) has the "unknown" entry -/
theorem C09_table :
    Gen.rtapNBits = 23 ∧ Gen.rtapSizes.length = 23 ∧
    (∀ e ∈ Spec.rtTable, Gen.rtapSizes.getD e.1 (0, 0) = (e.2.1, e.2.2)) ∧
    Gen.rtapSizes.getD 18 (0, 0) = (0, 0) := by decide +kernel

theorem le16At_ok (bs : Bytes) (i : Nat) (h : i + 1 < bs.length) :
    le16At "radiotap" bs i = .ok (le16 bs[i] bs[i + 1]) := by
  unfold le16At
  rw [rd_ok (by omega), rd_ok h]
  rfl

/-- **C09 (refuse)** for EVERY buffer: fewer than 8 octets, a non-zero version, a length field
below 8, beyond the supplied octets, or too large to be represented (> 255) is refused with a
negative error code — never mis-measured -/
theorem C09_refuse (bs : Bytes)
    (h : bs.length < 8 ∨ Spec.u8 bs 0 ≠ 0 ∨ Spec.u16 bs 2 < 8 ∨ Spec.u16 bs 2 > bs.length ∨ Spec.u16 bs 2 > 255) :
    parseRadiotapInfo bs = .err (-EINVAL) := by
  unfold parseRadiotapInfo
  by_cases hl : bs.length < 8
  · simp [hl]
  · simp only [hl, if_false]
    have h8 : 8 ≤ bs.length := by omega
    rw [le16At_ok bs 2 (by omega)]
    simp only [Outcome.bind_ok]
    have hu16 : Spec.u16 bs 2 = le16 bs[2] bs[3] := by
      simp [Spec.u16, Spec.u8, le16, List.getD, List.getElem?_eq_getElem (show 2 < bs.length by omega),
        List.getElem?_eq_getElem (show 3 < bs.length by omega)]
    have hu8 : Spec.u8 bs 0 = bs[0].toNat := by
      simp [Spec.u8, List.getD, List.getElem?_eq_getElem (show 0 < bs.length by omega)]
    rw [hu16, hu8] at h
    by_cases hlen : le16 bs[2] bs[3] > 255 ∨ le16 bs[2] bs[3] < 8
    · simp [hlen]
    · simp only [hlen, if_false]
      have hrest : bs[0].toNat ≠ 0 ∨ le16 bs[2] bs[3] > bs.length := by
        rcases h with h | h | h | h | h
        · omega
        · exact Or.inl h
        · exact absurd (Or.inr h) hlen
        · exact Or.inr h
        · exact absurd (Or.inl h) hlen
      unfold rtInit
      have : ¬ bs.length < 8 := hl
      simp only [this, if_false]
      rw [rd_ok (show 0 < bs.length by omega)]
      simp only [Outcome.bind_ok]
      by_cases hv : bs[0].toNat ≠ 0
      · simp [hv]
      · simp only [hv, if_false]
        rw [le16At_ok bs 2 (by omega)]
        simp only [Outcome.bind_ok]
        have : bs.length < le16 bs[2] bs[3] := by
          rcases hrest with h | h
          · exact absurd h hv
          · exact h
        simp [this]

/-- **C09 (band)** band and channel number derived from the frequency, for every 16-bit frequency -/
theorem C09_band (freq : Nat) : bandCenter freq = Spec.channelOf freq := by
  have h2 : Gen.m_LIBWIFI_RADIOTAP_BAND_2GHZ = 1 := by decide
  have h5 : Gen.m_LIBWIFI_RADIOTAP_BAND_5GHZ = 2 := by decide
  have h6 : Gen.m_LIBWIFI_RADIOTAP_BAND_6GHZ = 4 := by decide
  unfold bandCenter Spec.channelOf
  rw [h2, h5, h6]
  by_cases a : 2412 ≤ freq ∧ freq ≤ 2484
  · by_cases b : freq = 2484
    · subst b; decide
    · have c : 2412 ≤ freq ∧ freq ≤ 2472 ∨ 2473 ≤ freq ∧ freq ≤ 2483 := by omega
      rcases c with c | c
      · simp [a, b, c]
      · have c' : ¬ (2412 ≤ freq ∧ freq ≤ 2472) := by omega
        simp [a, b, c, c']
  · have n1 : ¬ (2412 ≤ freq ∧ freq ≤ 2472) := by omega
    have n2 : ¬ (2473 ≤ freq ∧ freq ≤ 2483) := by omega
    have n3 : ¬ freq = 2484 := by omega
    simp only [a, n1, n2, n3, if_false]
    by_cases d : 5160 ≤ freq ∧ freq ≤ 5885
    · have hm : (freq - 5000) / 5 % 256 = (freq - 5000) / 5 := Nat.mod_eq_of_lt (by omega)
      simp [d, hm]
    · simp only [d, if_false]
      by_cases e : 5955 ≤ freq ∧ freq ≤ 7115
      · have hm : (freq - 5950) / 5 % 256 = (freq - 5950) / 5 := Nat.mod_eq_of_lt (by omega)
        simp [e, hm]
      · simp [e]

/-- The full statement of the property (NOT proved; decided by the correspondence run only):
for every header the Spec accepts without running past `it_len`, the parser reports exactly the
Spec's values. -/
def C09_decode_statement : Prop :=
  ∀ bs : Bytes, ∀ itLen fields, Spec.rtFields bs = some (itLen, fields) →
    ∃ info, parseRadiotapInfo bs = .ok info ∧ info.length = itLen

/-! non-vacuity -/
example : parseRadiotapInfo [0, 0, 16, 0, 0x0e, 0, 0, 0, 0x12, 0, 0xa8, 0x09, 0x0a, 0, 0xc5, 0] =
    .ok { length := 16, flags := 18, rateRaw := 0, chanFreq := 2472, chanFlags := 10, chanCenter := 13, chanBand := 1 } := by
  decide +kernel

end LWV.Props.C09
