import LWV.Model.Frames
import LWV.Spec.Frames
import LWV.Props.C05
import LWV.Lemmas.Endian
import Batteries.Tactic.SeqFocus
/-
C03 — generated frames are byte-exact 802.11 encodings of their arguments.
-/
namespace LWV.Props.C03
open LWV LWV.Model LWV.Spec LWV.Props.C05

def sk : GKind → Kind
  | .beacon => .beacon | .probeReq => .probeReq | .probeResp => .probeResp | .assocReq => .assocReq | .assocResp => .assocResp
  | .reassocReq => .reassocReq | .reassocResp => .reassocResp | .auth => .auth | .deauth => .deauth | .disassoc => .disassoc
  | .action => .action | .actionNoAck => .actionNoAck | .timingAd => .timingAd | .atim => .atim | .rts => .rts | .cts => .cts

/-- the generator arguments as the Spec sees them (C strings cut at the first NUL, addresses six octets) -/
def sa (a : GArgs) : Args :=
  { a1 := mac a.a1, a2 := mac a.a2, a3 := mac a.a3, ap := mac a.ap, ssid := cstr a.ssid, ch := a.ch, alg := a.alg, seq := a.seq,
    status := a.status, reason := a.reason, cat := a.cat, dur := a.dur % 65536, timingElem := timingElement a,
    country := (a.country ++ [0, 0, 0]).take 3, mrp := a.mrp, mtx := a.mtx, txu := a.txu, nf := a.nf, sec := a.clk.sec, nsec := a.clk.nsec }

/-- **C03 (constants)** every number the generators take from the headers is the IEEE / documented one -/
theorem C03_consts :
    (∀ k : GKind, (if k.isCtrl then ctrlType else mgmtType) = (sk k).typeSubtype.1 ∧ k.subtype = (sk k).typeSubtype.2) ∧
    tagSsid = 0 ∧ tagDs = 3 ∧ tagSuppRates = 1 ∧ tagTimeAdv = 69 ∧
    Gen.m_LIBWIFI_DEFAULT_AP_CAPABS = 1 ∧ Gen.m_LIBWIFI_DEFAULT_BEACON_INTERVAL = 100 ∧ Gen.m_LIBWIFI_DEFAULT_LISTEN_INTERVAL = 1 ∧
    Gen.s_LIBWIFI_DEFAULT_SUPP_RATES = [0x82, 0x84, 0x8b, 0x96, 0x24, 0x30, 0x48, 0x6c] ∧
    enumVal Gen.enum_libwifi_status_codes n!"STATUS_SUCCESS" = 0 := by
  refine ⟨fun k => by cases k <;> decide +kernel, ?_⟩
  decide +kernel

/-- **C03 (layout)** the packed wire structs have their 802.11 sizes, and the frame-control
bit-fields sit where the standard puts them (version bits 0-1, type 2-3, subtype 4-7 of octet 0) -/
theorem C03_layout :
    Gen.sz_libwifi_mgmt_unordered_frame_header = 24 ∧ Gen.sz_libwifi_mgmt_ordered_frame_header = 28 ∧
    Gen.sz_libwifi_ctrl_frame_header = 4 ∧ Gen.sz_libwifi_data_frame_header = 24 ∧ Gen.sz_libwifi_data_qos_frame_header = 26 ∧
    Gen.sz_libwifi_atim = 24 ∧ Gen.sz_libwifi_rts = 16 ∧ Gen.sz_libwifi_cts = 10 ∧
    Gen.sz_libwifi_beacon_fixed_parameters = 12 ∧ Gen.sz_libwifi_probe_resp_fixed_parameters = 12 ∧
    Gen.sz_libwifi_assoc_req_fixed_parameters = 4 ∧ Gen.sz_libwifi_assoc_resp_fixed_parameters = 6 ∧
    Gen.sz_libwifi_reassoc_req_fixed_parameters = 10 ∧ Gen.sz_libwifi_reassoc_resp_fixed_parameters = 6 ∧
    Gen.sz_libwifi_auth_fixed_parameters = 6 ∧ Gen.sz_libwifi_deauth_fixed_parameters = 2 ∧
    Gen.sz_libwifi_disassoc_fixed_parameters = 2 ∧ Gen.sz_libwifi_timing_advert_fixed_params = 21 ∧
    Gen.off_libwifi_mgmt_unordered_frame_header_duration = 2 ∧ Gen.off_libwifi_mgmt_unordered_frame_header_addr1 = 4 ∧
    Gen.off_libwifi_mgmt_unordered_frame_header_addr2 = 10 ∧ Gen.off_libwifi_mgmt_unordered_frame_header_addr3 = 16 ∧
    Gen.off_libwifi_mgmt_unordered_frame_header_seq_control = 22 ∧
    (Gen.layouts.find? (fun l => l.name == "libwifi_frame_ctrl")).map (fun l => l.bitfields.map (·.mask))
      = some [[3, 0], [12, 0], [240, 0]] := by decide +kernel

/-! ### the timestamp -/

theorem shape_eval (e : EExpr) (a b : Nat) (h : e.shape = some (a, b)) (s n : Nat) : e.eval s n = s * a + n / b := by
  unfold EExpr.shape at h
  split at h
  all_goals first
    | (cases h; simp only [EExpr.eval]; done)
    | (cases h; simp only [EExpr.eval]; rw [Nat.mul_comm a s]; done)
    | (cases h; simp only [EExpr.eval]; rw [Nat.add_comm]; done)
    | (cases h; simp only [EExpr.eval]; rw [Nat.add_comm, Nat.mul_comm a s]; done)
    | (cases h; done)

/-- the regenerated return expression of `libwifi_get_epoch` is `sec * 1000000 + nsec / 1000`, up to the
order of the operands of `+` and `*` -/
theorem epoch_us (t : Timespec) : epoch t = (t.sec * 1000000000 + t.nsec) / 1000 := by
  have h : Gen.epochExpr.bind EExpr.shape = some (1000000, 1000) := by decide
  unfold epoch
  cases he : Gen.epochExpr with
  | none => simp [he] at h
  | some e =>
    simp only [he, Option.bind_some] at h
    show e.eval t.sec t.nsec = _
    rw [shape_eval e _ _ h]
    omega

/-! ### fixed fields -/

theorem le2 (v : Nat) : leBytes 2 v = [UInt8.ofNat (v % 256), UInt8.ofNat (v / 256 % 256)] := by
  simp [leBytes]

theorem ofNat_mod256 (n : Nat) : UInt8.ofNat (n % 256) = UInt8.ofNat n := by
  apply UInt8.toNat_inj.mp
  rw [UInt8.toNat_ofNat', UInt8.toNat_ofNat']
  omega

theorem fixed_eq (k : GKind) (a : GArgs) : fixedOf k a = Spec.fixed (sk k) (sa a) := by
  obtain ⟨_, _, _, _, _, hcap, hbi, hli, _, hss⟩ := C03_consts
  cases k <;> simp only [fixedOf, Spec.fixed, sk, sa, hcap, hbi, hli, hss, Spec.timestamp, epoch_us] <;>
    simp [leBytes, ofNat_mod256]

/-! ### the tagged parameters a fresh frame carries -/

theorem tags_of_parse (t : Tags) (h : Inv t) (es : List Elem) (hp : parse t.params = es) :
    t.params = encode es ∧ t.length = (encode es).length := by
  have := (wf_iff t.params).mp h.2
  rw [hp] at this
  exact ⟨this.symm, by rw [h.1, ← this]⟩

theorem parse_nil : parse ([] : Bytes) = [] := rfl

/-- every kind with tagged parameters starts with exactly the documented elements -/
theorem initialTags_spec (k : GKind) (a : GArgs) (hs : (cstr a.ssid).length ≤ 255) :
    ∃ t, initialTags k a = .ok (0, t) ∧ Inv t ∧ parse t.params = Spec.initialElems (sk k) (sa a) := by
  obtain ⟨_, hS, hD, hR, hT, _, _, _, hrates, _⟩ := C03_consts
  have hE := inv_empty
  have hch : ([UInt8.ofNat a.ch] : Bytes).length ≤ 255 := by simp
  -- SSID then DS through the setters (beacon, probe response)
  have setters : ∃ t, (do let (r, t) ← setTag Tags.empty tagSsid (cstr a.ssid); if r ≠ 0 then Outcome.ok (r, t) else setTag t tagDs [UInt8.ofNat a.ch])
        = .ok (0, t) ∧ Inv t ∧ parse t.params = [⟨0, cstr a.ssid⟩, ⟨3, [UInt8.ofNat a.ch]⟩] := by
    obtain ⟨t1, h1, i1, p1⟩ := C05_set Tags.empty hE (by decide) tagSsid (cstr a.ssid) hs
    have p1' : parse t1.params = [⟨0, cstr a.ssid⟩] := by rw [p1, hS]; rfl
    obtain ⟨t2, h2, i2, p2⟩ := C05_set t1 i1 (by rw [p1']; rfl) tagDs [UInt8.ofNat a.ch] hch
    refine ⟨t2, by simp [h1, h2], i2, ?_⟩
    rw [p2, p1', hD]
    simp [List.eraseP_cons]
  -- SSID then DS by plain adds (probe request, (re)association request)
  have adds : ∃ t, (do let t ← quickAddTag Tags.empty tagSsid (cstr a.ssid); let t ← quickAddTag t tagDs [UInt8.ofNat a.ch]; Outcome.ok ((0 : Int), t))
        = .ok (0, t) ∧ Inv t ∧ parse t.params = [⟨0, cstr a.ssid⟩, ⟨3, [UInt8.ofNat a.ch]⟩] := by
    obtain ⟨t1, h1, i1, _, p1⟩ := C05_add Tags.empty hE tagSsid (cstr a.ssid) hs
    obtain ⟨t2, h2, i2, _, p2⟩ := C05_add t1 i1 tagDs [UInt8.ofNat a.ch] hch
    refine ⟨t2, by simp [h1, h2], i2, ?_⟩
    rw [p2, p1, hS, hD]; rfl
  cases k
  case beacon => simpa [initialTags, Spec.initialElems, sk, sa] using setters
  case probeResp => simpa [initialTags, Spec.initialElems, sk, sa] using setters
  case probeReq => simpa [initialTags, Spec.initialElems, sk, sa] using adds
  case assocReq => simpa [initialTags, Spec.initialElems, sk, sa] using adds
  case reassocReq => simpa [initialTags, Spec.initialElems, sk, sa] using adds
  case assocResp =>
    obtain ⟨t1, h1, i1, p1⟩ := C05_set Tags.empty hE (by decide) tagDs [UInt8.ofNat a.ch] hch
    have hrl : Gen.s_LIBWIFI_DEFAULT_SUPP_RATES.length ≤ 255 := by rw [hrates]; decide
    obtain ⟨t2, h2, i2, _, p2⟩ := C05_add t1 i1 tagSuppRates Gen.s_LIBWIFI_DEFAULT_SUPP_RATES hrl
    refine ⟨t2, by simp [initialTags, h1, h2], i2, ?_⟩
    rw [p2, p1, hD, hR, hrates]; rfl
  case reassocResp =>
    obtain ⟨t1, h1, i1, p1⟩ := C05_set Tags.empty hE (by decide) tagDs [UInt8.ofNat a.ch] hch
    refine ⟨t1, by simp [initialTags, h1], i1, ?_⟩
    rw [p1, hD]; rfl
  case timingAd =>
    have hl : (timingElement a).length ≤ 255 := by
      simp only [timingElement, List.length_append, leBytes_length]
      split
      · simp
      · split <;> simp
    obtain ⟨t1, h1, i1, _, p1⟩ := C05_add Tags.empty hE tagTimeAdv (timingElement a) hl
    refine ⟨t1, by simp [initialTags, h1], i1, ?_⟩
    rw [p1, hT]; rfl
  all_goals exact ⟨Tags.empty, rfl, hE, rfl⟩

/-! ### the serialised frame -/

theorem mac_length (b : Bytes) : (mac b).length = 6 := by
  simp [mac, List.length_take]

theorem fc_eq (k : GKind) : fcBytes (if k.isCtrl then ctrlType else mgmtType) k.subtype = Spec.frameControl (sk k) := by
  obtain ⟨h, _⟩ := C03_consts
  obtain ⟨h1, h2⟩ := h k
  rw [h1, h2]
  cases k <;> decide

theorem rdSlice_all (what : String) (bs : Bytes) : rdSlice what bs 0 bs.length = .ok bs := by
  simp [rdSlice]

/-- the object invariant the generators maintain -/
structure WF (o : GObj) (es : List Elem) (details : Bytes) : Prop where
  fc : o.fc = Spec.frameControl (sk o.kind)
  inv : Inv o.tags
  parse : parse o.tags.params = es
  det : o.detail = details ∧ o.detailLen = details.length ∧ details.length ≤ 255
  noTags : o.hasTags = false → es = []
  noDet : (o.kind ≠ .action ∧ o.kind ≠ .actionNoAck) → details = []

/-- **C03 (create)** for every generator and all arguments (SSID up to the one-octet limit) the
created object succeeds and serialises to the Spec frame; the reported length is the length of
that encoding. -/
theorem C03_create (k : GKind) (a : GArgs) (hs : (cstr a.ssid).length ≤ 255) :
    ∃ o, create k a = .ok (0, o) ∧ o.kind = k ∧
      o.encoding = .ok (Spec.frame (sk k) (sa a) (Spec.initialElems (sk k) (sa a)) []) ∧
      o.length = (Spec.frame (sk k) (sa a) (Spec.initialElems (sk k) (sa a)) []).length ∧
      WF o (Spec.initialElems (sk k) (sa a)) [] := by
  obtain ⟨t, ht, hinv, hparse⟩ := initialTags_spec k a hs
  obtain ⟨hparams, hlen⟩ := tags_of_parse t hinv _ hparse
  obtain ⟨h24, _, _, _, _, hatim, hrts, hcts, _⟩ := C03_layout
  have hfx := fixed_eq k a
  have hfc := fc_eq k
  unfold create
  rw [ht]
  simp only [Outcome.bind_ok]
  have hE := inv_empty
  cases k <;>
    (simp only [GKind.isCtrl, if_true, if_false, Bool.false_eq_true] at hfc
     refine ⟨_, rfl, rfl, ?_, ?_, ?_⟩ <;> [
      (simp only [GObj.encoding, GObj.header, GKind.isCtrl, Bool.false_eq_true, if_false, if_true, hlen, hparams,
          Outcome.bind_ok, Spec.frame, sk, hfc, hfx, sa, leBytes, List.append_assoc, rdSlice, Nat.zero_add, Nat.le_refl,
          List.drop_zero, List.take_zero, List.length_nil, List.append_nil]
        <;> simp [sk, Spec.initialElems, Spec.frame, sa, leBytes, ofNat_mod256] at *);
      (first
        | (simp only [GObj.length, h24, hatim, hrts, hcts, hlen, hfx, Spec.frame, sk, List.length_append, mac_length, Spec.frameControl,
            List.length_cons, List.length_nil, leBytes_length, sa]
           <;> simp [Spec.initialElems, encode, sk, sa] at * <;> omega)
        | (simp [GObj.length, h24, Spec.frame, sk, Spec.fixed, Spec.frameControl, sa, mac_length]));
      (first
        | exact ⟨hfc, hinv, hparse, ⟨rfl, rfl, by decide⟩, fun h => by simp_all [GObj.hasTags, Spec.initialElems, sk], fun _ => rfl⟩
        | exact ⟨hfc, hE, rfl, ⟨rfl, rfl, by decide⟩, fun _ => by simp [Spec.initialElems, sk], fun _ => rfl⟩)])

/-! ### appended tags and action details -/

/-- everything the property says about an object: it serialises to the Spec frame for the
elements / details added so far, and reports that encoding's length -/
structure Good (k : GKind) (a : GArgs) (o : GObj) (es : List Elem) (details : Bytes) : Prop where
  kind : o.kind = k
  wf : WF o es details
  enc : o.encoding = .ok (Spec.frame (sk k) (sa a) es details)
  len : o.length = (Spec.frame (sk k) (sa a) es details).length

theorem good_create (k : GKind) (a : GArgs) (hs : (cstr a.ssid).length ≤ 255) :
    ∃ o, create k a = .ok (0, o) ∧ Good k a o (Spec.initialElems (sk k) (sa a)) [] := by
  obtain ⟨o, h1, h2, h3, h4, h5⟩ := C03_create k a hs
  exact ⟨o, h1, ⟨h2, h5, h3, h4⟩⟩

theorem encoding_tagged (o : GObj) (ht : o.hasTags = true) (hl : o.tags.length = o.tags.params.length) :
    o.encoding = .ok (o.header ++ o.fixed ++ o.tags.params) := by
  unfold GObj.encoding
  cases hk : o.kind <;> simp_all [GObj.hasTags, rdSlice]

theorem length_tagged (o : GObj) (ht : o.hasTags = true) :
    o.length = Gen.sz_libwifi_mgmt_unordered_frame_header + o.fixed.length + o.tags.length := by
  unfold GObj.length
  cases hk : o.kind <;> simp_all [GObj.hasTags]

theorem frame_tagged_append (k : GKind) (hk : ∀ o : GObj, o.kind = k → o.hasTags = true) (a : GArgs) (es : List Elem) (e : Elem) :
    Spec.frame (sk k) (sa a) (es ++ [e]) [] = Spec.frame (sk k) (sa a) es [] ++ encodeElem e := by
  have hh := hk { kind := k, fc := [], a1 := [], a2 := [], a3 := [] } rfl
  cases k <;> simp_all [GObj.hasTags, Spec.frame, sk, encode_append, encode]

/-- **C03 (append)** adding a storable tag appends exactly its encoding to the serialised frame -/
theorem good_add_tag (k : GKind) (a : GArgs) (o : GObj) (es : List Elem) (g : Good k a o es [])
    (ht : o.hasTags = true) (n : Nat) (d : Bytes) (hd : d.length ≤ 255) :
    ∃ o', o.edit (.tag (.add n d)) = .ok (0, o') ∧ o'.hasTags = true ∧ Good k a o' (es ++ [⟨UInt8.ofNat n, d⟩]) [] := by
  obtain ⟨hkind, wf, henc, hlen⟩ := g
  obtain ⟨t', h1, hinv', hparams', hparse'⟩ := C05_add o.tags wf.inv n d hd
  have hstep : stepTag o.tags (.add n d) = .ok (0, t') := by simp [stepTag, h1]
  refine ⟨{ o with tags := t' }, by simp [GObj.edit, hstep], by simpa [GObj.hasTags] using ht, ?_⟩
  have ht' : ({ o with tags := t' } : GObj).hasTags = true := by simpa [GObj.hasTags] using ht
  have hall : ∀ o2 : GObj, o2.kind = k → o2.hasTags = true := by
    intro o2 h2; rw [← hkind] at h2; simp only [GObj.hasTags, h2] ; simpa [GObj.hasTags] using ht
  have e0 := encoding_tagged o ht wf.inv.1
  rw [henc] at e0
  have e1 := encoding_tagged { o with tags := t' } ht' hinv'.1
  refine ⟨hkind, ⟨wf.fc, hinv', ?_, wf.det, fun h => by simp [ht'] at h, wf.noDet⟩, ?_, ?_⟩
  · rw [hparse', wf.parse]
  · rw [e1, frame_tagged_append k hall]
    injection e0 with e0
    show Outcome.ok (o.header ++ o.fixed ++ t'.params) = _
    rw [hparams', e0]
    simp [List.append_assoc]
  · rw [length_tagged _ ht', frame_tagged_append k hall, List.length_append, ← hlen, length_tagged o ht]
    have : t'.length = o.tags.length + (encodeElem ⟨UInt8.ofNat n, d⟩).length := by
      rw [hinv'.1, hparams', List.length_append, wf.inv.1]
    simp only [this]
    omega

/-- **C03 (history)** any sequence of appended storable tags: the frame carries the initial
elements followed by the added ones, in order, and the reported length is its length -/
theorem C03_history (k : GKind) (a : GArgs) (hs : (cstr a.ssid).length ≤ 255)
    (htag : ∀ o : GObj, o.kind = k → o.hasTags = true)
    (adds : List (Nat × Bytes)) (hadds : ∀ p ∈ adds, p.2.length ≤ 255) :
    ∃ o0 o, create k a = .ok (0, o0) ∧
      adds.foldl (fun (st : Outcome GObj) p => st >>= fun o => (o.edit (.tag (.add p.1 p.2))) >>= fun r => .ok r.2) (.ok o0) = .ok o ∧
      Good k a o (Spec.initialElems (sk k) (sa a) ++ adds.map (fun p => ⟨UInt8.ofNat p.1, p.2⟩)) [] := by
  obtain ⟨o0, hc, g0⟩ := good_create k a hs
  refine ⟨o0, ?_⟩
  suffices ∀ (es : List Elem) (o1 : GObj), Good k a o1 es [] → o1.hasTags = true →
      ∃ o, adds.foldl (fun (st : Outcome GObj) p => st >>= fun o => (o.edit (.tag (.add p.1 p.2))) >>= fun r => .ok r.2) (.ok o1) = .ok o ∧
        Good k a o (es ++ adds.map (fun p => ⟨UInt8.ofNat p.1, p.2⟩)) [] by
    obtain ⟨o, h1, h2⟩ := this _ o0 g0 (htag o0 g0.kind)
    exact ⟨o, hc, h1, h2⟩
  induction adds with
  | nil => intro es o1 g _; exact ⟨o1, rfl, by simpa using g⟩
  | cons p rest ih =>
    intro es o1 g ht
    obtain ⟨o', h1, ht', g'⟩ := good_add_tag k a o1 es g ht p.1 p.2 (hadds p List.mem_cons_self)
    obtain ⟨o, h2, g2⟩ := ih (fun q hq => hadds q (List.mem_cons_of_mem _ hq)) _ o' g' ht'
    refine ⟨o, ?_, by simpa [List.append_assoc] using g2⟩
    simp only [List.foldl_cons, Outcome.bind_ok, h1]
    exact h2

/-- **C03 (details)** action frames: appended details follow the category octet in order, up to
the one-octet length limit -/
theorem good_add_detail (k : GKind) (hk : k = .action ∨ k = .actionNoAck) (a : GArgs) (o : GObj) (det : Bytes)
    (g : Good k a o [] det) (d : Bytes) (hd : det.length + d.length ≤ 255) :
    ∃ o', o.edit (.detail d) = .ok (((det ++ d).length : Nat), o') ∧ Good k a o' [] (det ++ d) := by
  obtain ⟨hkind, wf, henc, hlen⟩ := g
  obtain ⟨hd1, hd2, hd3⟩ := wf.det
  have hmod : o.detailLen + d.length = (det ++ d).length := by
    rw [hd2, List.length_append]
  have htake : o.detail.take o.detailLen = det := by rw [hd1, hd2, List.take_length]
  refine ⟨{ o with detail := det ++ d, detailLen := (det ++ d).length }, ?_, ?_⟩
  · simp only [GObj.edit, hmod, htake]
    by_cases hz : d.length = 0
    · have hnil : d = [] := List.eq_nil_of_length_eq_zero hz
      subst hnil
      simp only [List.length_nil, if_true, List.append_nil, hd2]
      congr 2
      cases o
      simp_all
    · have hfit : ¬ (255 - det.length < d.length) := by omega
      simp [hz, hd2, hfit]
  · have hkk : o.kind = .action ∨ o.kind = .actionNoAck := by rw [hkind]; exact hk
    refine ⟨hkind, ⟨wf.fc, wf.inv, wf.parse, ⟨rfl, rfl, by rw [List.length_append]; exact hd⟩, wf.noTags, fun h => by rcases hkk with h1 | h1 <;> simp_all⟩, ?_, ?_⟩
    · have e0 : o.encoding = .ok (o.header ++ o.fixed ++ det) := by
        unfold GObj.encoding
        rcases hkk with h1 | h1 <;> simp [h1, rdSlice, hd2, hd1]
      rw [henc] at e0
      injection e0 with e0
      have : Spec.frame (sk k) (sa a) [] (det ++ d) = Spec.frame (sk k) (sa a) [] det ++ d := by
        rcases hk with rfl | rfl <;> simp [Spec.frame, sk, List.append_assoc]
      rw [this, e0]
      unfold GObj.encoding
      have htk : List.take (det.length + d.length) (det ++ d) = det ++ d := by
        rw [← List.length_append, List.take_length]
      rcases hkk with h1 | h1 <;> simp [h1, rdSlice, GObj.header, List.append_assoc, htk]
    · have : Spec.frame (sk k) (sa a) [] (det ++ d) = Spec.frame (sk k) (sa a) [] det ++ d := by
        rcases hk with rfl | rfl <;> simp [Spec.frame, sk, List.append_assoc]
      rw [this]
      simp only [List.length_append]
      rw [← hlen]
      unfold GObj.length
      rcases hkk with h1 | h1 <;> simp [h1, hd2] <;> omega

/-! non-vacuity -/
example : (cstr [0x41, 0x42, 0x43]).length ≤ 255 := by decide
example : ∃ o, create .beacon { ssid := [0x41, 0x42, 0x43], ch := 6, clk := ⟨5, 1000⟩ } = .ok (0, o) ∧
    o.encoding = .ok ([0x80, 0, 0, 0] ++ List.replicate 18 0 ++ [0, 0, 0x41, 0x4b, 0x4c, 0, 0, 0, 0, 0, 0x64, 0, 1, 0, 0, 3, 0x41, 0x42, 0x43, 3, 1, 6]) := by
  obtain ⟨o, h1, _, h3, _⟩ := C03_create .beacon { ssid := [0x41, 0x42, 0x43], ch := 6, clk := ⟨5, 1000⟩ } (by decide)
  exact ⟨o, h1, by rw [h3]; decide +kernel⟩

end LWV.Props.C03
