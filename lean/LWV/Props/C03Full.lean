import LWV.Props.C03
import LWV.Props.C05
import LWV.Props.C07
/-
C03 (full histories) — the generator theorem for ARBITRARY edit histories.

`Props/C03.lean` proves that a freshly created object serialises to the Spec frame and that this
stays true while tags (or action details) are APPENDED.  Here every edit the API offers is covered:

  1. `good_replace_tags`                       the one structural fact: swapping the tag list of a `Good`
                                               object for any other well-formed list is `Good` again
  2. `good_add`, `good_remove`, `good_setSsid`, `good_setChannel`, `good_check`,
     `good_detail`, `good_freeDetail`          single steps
     `good_any_tag`, `tags_any_history`        without side conditions: never a fault, always the frame
                                               of the elements the tag bytes parse to
  3. `refStep`, `Admissible`, `retOk`, `good_step`   the reference interpreter on (elements, details),
                                               its side conditions, and the uniform single-step theorem
  4. `C03_full_history`, `C03_full_frame`      create + any admissible history = the Spec frame
  5. `C03_full_dump`                           the buffer-size clause for the final object (with C07)

The reference semantics of the tag edits is `Spec.refEdit` (`refStep_refEdit`); the Model-side
facts come from C05 (`C05_add`, `C05_remove`, `C05_set`, `checkTag_total`, `C05_check`).
-/
namespace LWV.Props.C03Full
open LWV LWV.Model LWV.Spec LWV.Props.C05 LWV.Props.C03

/-! ## kinds -/

/-- the kinds whose struct has a `tags` member (`GObj.hasTags`, as a function of the kind) -/
def kindHasTags : GKind → Bool
  | .action | .actionNoAck | .atim | .rts | .cts => false
  | _ => true

/-- the kinds with action details -/
def isAction : GKind → Bool
  | .action | .actionNoAck => true
  | _ => false

/-- kinds for which `libwifi_set_<kind>_ssid` exists -/
def hasSsidSetter : GKind → Bool
  | .beacon | .probeResp => true
  | _ => false

/-- kinds for which `libwifi_set_<kind>_channel` exists -/
def hasChannelSetter : GKind → Bool
  | .beacon | .probeResp | .assocResp | .reassocResp => true
  | _ => false

theorem hasTags_eq (o : GObj) : o.hasTags = kindHasTags o.kind := by
  unfold GObj.hasTags kindHasTags
  cases o.kind <;> rfl

theorem ssidSetter_hasTags (k : GKind) (h : hasSsidSetter k = true) : kindHasTags k = true := by
  cases k <;> first | rfl | (simp [hasSsidSetter] at h)

theorem channelSetter_hasTags (k : GKind) (h : hasChannelSetter k = true) : kindHasTags k = true := by
  cases k <;> first | rfl | (simp [hasChannelSetter] at h)

theorem isAction_iff (k : GKind) : isAction k = true ↔ (k = .action ∨ k = .actionNoAck) := by
  cases k <;> simp [isAction]

/-- a tagged frame is a prefix that does not depend on the elements, followed by the elements -/
theorem frame_tagged (k : GKind) (hk : kindHasTags k = true) (a : GArgs) (es : List Elem) (det : Bytes) :
    Spec.frame (sk k) (sa a) es det = Spec.frame (sk k) (sa a) [] [] ++ encode es := by
  cases k <;> first
    | (simp [kindHasTags] at hk; done)
    | simp [Spec.frame, sk, encode, List.append_assoc]

/-- an action frame is a prefix that does not depend on the details, followed by the details -/
theorem frame_action (k : GKind) (hk : isAction k = true) (a : GArgs) (es : List Elem) (det : Bytes) :
    Spec.frame (sk k) (sa a) es det = Spec.frame (sk k) (sa a) [] [] ++ det := by
  cases k <;> first
    | (simp [isAction] at hk; done)
    | simp [Spec.frame, sk, List.append_assoc]

/-! ## 1. replacing the tag list -/

/-- If an object with tags is `Good` for `es`, then putting ANY well-formed tag list in its place
gives an object that is `Good` for that list's elements: header and fixed fields are untouched and
the serialisation copies exactly the recorded tag bytes. -/
theorem good_replace_tags (k : GKind) (a : GArgs) (o : GObj) (es : List Elem) (det : Bytes) (g : Good k a o es det)
    (ht : o.hasTags = true) (t' : Tags) (hinv : Inv t') (es' : List Elem) (hp : parse t'.params = es') :
    ({ o with tags := t' } : GObj).hasTags = true ∧ Good k a { o with tags := t' } es' det := by
  obtain ⟨hkind, wf, henc, hlen⟩ := g
  have hkt : kindHasTags k = true := by rw [← hkind, ← hasTags_eq]; exact ht
  have ht' : ({ o with tags := t' } : GObj).hasTags = true := by simpa [GObj.hasTags] using ht
  obtain ⟨hpar, hl⟩ := tags_of_parse o.tags wf.inv es wf.parse
  obtain ⟨hpar', hl'⟩ := tags_of_parse t' hinv es' hp
  have e0 := encoding_tagged o ht wf.inv.1
  rw [henc, frame_tagged k hkt, hpar] at e0
  injection e0 with e0
  have hpre : Spec.frame (sk k) (sa a) [] [] = o.header ++ o.fixed := List.append_cancel_right e0
  refine ⟨ht', hkind, ⟨wf.fc, hinv, hp, wf.det, fun h => by simp [ht'] at h, wf.noDet⟩, ?_, ?_⟩
  · rw [encoding_tagged _ ht' hinv.1, frame_tagged k hkt, hpre]
    show Outcome.ok (o.header ++ o.fixed ++ t'.params) = _
    rw [hpar']
  · have h1 := length_tagged o ht
    have h2 := length_tagged { o with tags := t' } ht'
    rw [frame_tagged k hkt, List.length_append, hpre] at hlen
    rw [frame_tagged k hkt, List.length_append, hpre, h2]
    show Gen.sz_libwifi_mgmt_unordered_frame_header + o.fixed.length + t'.length = _
    omega

/-! ## 2. single steps -/

/-- **add** (restating `good_add_tag` for arbitrary details) -/
theorem good_add (k : GKind) (a : GArgs) (o : GObj) (es : List Elem) (det : Bytes) (g : Good k a o es det)
    (ht : o.hasTags = true) (n : Nat) (d : Bytes) (hd : d.length ≤ 255) :
    ∃ o', o.edit (.tag (.add n d)) = .ok (0, o') ∧ o'.hasTags = true ∧ Good k a o' (es ++ [⟨UInt8.ofNat n, d⟩]) det := by
  obtain ⟨t', h1, hinv', _, hparse'⟩ := C05_add o.tags g.wf.inv n d hd
  have hstep : stepTag o.tags (.add n d) = .ok (0, t') := by simp [stepTag, h1]
  obtain ⟨h2, h3⟩ := good_replace_tags k a o es det g ht t' hinv' _ (by rw [hparse', g.wf.parse])
  exact ⟨{ o with tags := t' }, by simp [GObj.edit, hstep], h2, h3⟩

/-- **remove** with no inner empty element the first element with that number disappears from the
frame (nothing happens when there is none); on a non-empty list the call reports 0 -/
theorem good_remove (k : GKind) (a : GArgs) (o : GObj) (es : List Elem) (det : Bytes) (g : Good k a o es det)
    (ht : o.hasTags = true) (hne : noInnerEmpty es = true) (n : Nat) :
    ∃ r o', o.edit (.tag (.remove n)) = .ok (r, o') ∧ o'.hasTags = true ∧ (es ≠ [] → r = 0) ∧
      Good k a o' (es.eraseP (fun e => e.num.toNat == n)) det := by
  obtain ⟨r, t', h1, hinv', hparse'⟩ := C05_remove o.tags g.wf.inv (by rw [g.wf.parse]; exact hne) n
  have hstep : stepTag o.tags (.remove n) = .ok (r, t') := by simp [stepTag, h1]
  obtain ⟨h2, h3⟩ := good_replace_tags k a o es det g ht t' hinv' _ (by rw [hparse', g.wf.parse])
  refine ⟨r, { o with tags := t' }, by simp [GObj.edit, hstep], h2, ?_, h3⟩
  intro hes
  apply remove_ret_zero o.tags g.wf.inv _ n r t' h1
  obtain ⟨_, hl⟩ := tags_of_parse o.tags g.wf.inv es g.wf.parse
  rw [hl]
  cases es with
  | nil => exact absurd rfl hes
  | cons e u => rw [encode_cons]; simp [encodeElem]

/-- the setters, for any element number -/
theorem good_set (k : GKind) (a : GArgs) (o : GObj) (es : List Elem) (det : Bytes) (g : Good k a o es det)
    (ht : o.hasTags = true) (hne : noInnerEmpty es = true) (n : Nat) (d : Bytes) (hd : d.length ≤ 255) :
    ∃ t', setTag o.tags n d = .ok (0, t') ∧ ({ o with tags := t' } : GObj).hasTags = true ∧
      Good k a { o with tags := t' } (es.eraseP (fun e => e.num.toNat == n) ++ [⟨UInt8.ofNat n, d⟩]) det := by
  obtain ⟨t', h1, hinv', hparse'⟩ := C05_set o.tags g.wf.inv (by rw [g.wf.parse]; exact hne) n d hd
  obtain ⟨h2, h3⟩ := good_replace_tags k a o es det g ht t' hinv' _ (by rw [hparse', g.wf.parse])
  exact ⟨t', h1, h2, h3⟩

/-- **set SSID** the (first) SSID element is dropped and the new one appended -/
theorem good_setSsid (k : GKind) (a : GArgs) (o : GObj) (es : List Elem) (det : Bytes) (g : Good k a o es det)
    (ht : o.hasTags = true) (hne : noInnerEmpty es = true) (d : Bytes) (hd : d.length ≤ 255) :
    ∃ o', o.edit (.tag (.setSsid d)) = .ok (0, o') ∧ o'.hasTags = true ∧
      Good k a o' (es.eraseP (fun e => e.num.toNat == 0) ++ [⟨0, d⟩]) det := by
  obtain ⟨t', h1, h2, h3⟩ := good_set k a o es det g ht hne 0 d hd
  have hstep : stepTag o.tags (.setSsid d) = .ok (0, t') := by simp [stepTag, h1]
  exact ⟨{ o with tags := t' }, by simp [GObj.edit, hstep], h2, h3⟩

/-- the same for a C string argument (`libwifi_set_*_ssid` takes `strlen` octets): the model's
`setSsid` carries the octets before the terminating NUL -/
theorem good_setSsid_cstr (k : GKind) (a : GArgs) (o : GObj) (es : List Elem) (det : Bytes) (g : Good k a o es det)
    (ht : o.hasTags = true) (hne : noInnerEmpty es = true) (s : Bytes) (hd : (cstr s).length ≤ 255) :
    ∃ o', o.edit (.tag (.setSsid (cstr s))) = .ok (0, o') ∧ o'.hasTags = true ∧
      Good k a o' (es.eraseP (fun e => e.num.toNat == 0) ++ [⟨0, cstr s⟩]) det :=
  good_setSsid k a o es det g ht hne (cstr s) hd

/-- **set channel** the (first) DS parameter element is dropped and the new one appended -/
theorem good_setChannel (k : GKind) (a : GArgs) (o : GObj) (es : List Elem) (det : Bytes) (g : Good k a o es det)
    (ht : o.hasTags = true) (hne : noInnerEmpty es = true) (c : UInt8) :
    ∃ o', o.edit (.tag (.setChannel c)) = .ok (0, o') ∧ o'.hasTags = true ∧
      Good k a o' (es.eraseP (fun e => e.num.toNat == 3) ++ [⟨3, [c]⟩]) det := by
  obtain ⟨t', h1, h2, h3⟩ := good_set k a o es det g ht hne 3 [c] (by simp)
  have hstep : stepTag o.tags (.setChannel c) = .ok (0, t') := by simp [stepTag, h1]
  exact ⟨{ o with tags := t' }, by simp [GObj.edit, hstep], h2, h3⟩

/-- **check** the object is unchanged; with no inner empty element the count is the reference count -/
theorem good_check (k : GKind) (a : GArgs) (o : GObj) (es : List Elem) (det : Bytes) (g : Good k a o es det) (n : Nat) :
    ∃ r, o.edit (.tag (.check n)) = .ok (r, o) ∧
      (noInnerEmpty es = true → r = ((es.countP (fun e => e.num.toNat == n) : Nat) : Int)) := by
  obtain ⟨c, hc⟩ := checkTag_total o.tags g.wf.inv n
  have hstep : stepTag o.tags (.check n) = .ok (c, o.tags) := by simp [stepTag, hc]
  refine ⟨c, by simp [GObj.edit, hstep], fun hne => ?_⟩
  have := C05_check o.tags g.wf.inv (by rw [g.wf.parse]; exact hne) n
  rw [hc, g.wf.parse] at this
  injection this

/-- **any tag edit, no side condition** whatever the operation and its arguments (over-long
bodies, numbers beyond one octet, inner empty elements): the call does not fail or fault, and the
object still serialises to the Spec frame of the elements its tag bytes parse to, with the matching
length.  Outside the admissible region only WHICH elements these are is not fixed. -/
theorem good_any_tag (k : GKind) (a : GArgs) (o : GObj) (es : List Elem) (det : Bytes) (g : Good k a o es det)
    (ht : o.hasTags = true) (op : TagOp) :
    ∃ r o', o.edit (.tag op) = .ok (r, o') ∧ o'.hasTags = true ∧ Good k a o' (parse o'.tags.params) det := by
  obtain ⟨r, t', h1, hinv'⟩ := step_inv o.tags g.wf.inv op
  obtain ⟨h2, h3⟩ := good_replace_tags k a o es det g ht t' hinv' _ rfl
  exact ⟨r, { o with tags := t' }, by simp [GObj.edit, h1], h2, h3⟩

/-- an action object never has elements -/
theorem good_action_nil (k : GKind) (hk : isAction k = true) (a : GArgs) (o : GObj) (es : List Elem) (det : Bytes)
    (g : Good k a o es det) : es = [] := by
  apply g.wf.noTags
  rw [hasTags_eq, g.kind]
  cases k <;> first | rfl | (simp [isAction] at hk)

/-- **detail** (restating `good_add_detail`) -/
theorem good_detail (k : GKind) (hk : isAction k = true) (a : GArgs) (o : GObj) (es : List Elem) (det : Bytes)
    (g : Good k a o es det) (d : Bytes) (hd : det.length + d.length ≤ 255) :
    ∃ o', o.edit (.detail d) = .ok (((det ++ d).length : Nat), o') ∧ Good k a o' es (det ++ d) := by
  have hnil := good_action_nil k hk a o es det g
  subst hnil
  exact good_add_detail k ((isAction_iff k).mp hk) a o det g d hd

/-- **free details** the object is as freshly created: no details, and the frame ends after the
category octet -/
theorem good_freeDetail (k : GKind) (hk : isAction k = true) (a : GArgs) (o : GObj) (es : List Elem) (det : Bytes)
    (g : Good k a o es det) :
    ∃ o', o.edit .freeDetail = .ok (0, o') ∧ Good k a o' es [] := by
  obtain ⟨hkind, wf, henc, hlen⟩ := g
  obtain ⟨hd1, hd2, hd3⟩ := wf.det
  have hkk : o.kind = .action ∨ o.kind = .actionNoAck := by rw [hkind]; exact (isAction_iff k).mp hk
  have e0 : o.encoding = .ok (o.header ++ o.fixed ++ det) := by
    unfold GObj.encoding
    rcases hkk with h1 | h1 <;> simp [h1, rdSlice, hd2, hd1]
  rw [henc, frame_action k hk] at e0
  injection e0 with e0
  have hpre : Spec.frame (sk k) (sa a) [] [] = o.header ++ o.fixed := List.append_cancel_right e0
  refine ⟨{ o with detail := [], detailLen := 0 }, rfl, hkind,
    ⟨wf.fc, wf.inv, wf.parse, ⟨rfl, rfl, by decide⟩, wf.noTags, fun _ => rfl⟩, ?_, ?_⟩
  · rw [frame_action k hk, hpre]
    unfold GObj.encoding
    rcases hkk with h1 | h1 <;> simp [h1, rdSlice, GObj.header]
  · rw [frame_action k hk, List.length_append] at hlen
    rw [frame_action k hk, List.length_append]
    have h0 : o.length = Gen.sz_libwifi_mgmt_unordered_frame_header + 1 + o.detailLen := by
      unfold GObj.length
      rcases hkk with h1 | h1 <;> simp [h1]
    have h1 : ({ o with detail := [], detailLen := 0 } : GObj).length = Gen.sz_libwifi_mgmt_unordered_frame_header + 1 + 0 := by
      unfold GObj.length
      rcases hkk with h1 | h1 <;> simp [h1]
    rw [h1]
    simp only [List.length_nil]
    omega

/-! ## 3. the reference interpreter -/

/-- reference semantics of one edit on (elements, action details) -/
def refStep (st : List Elem × Bytes) : GEdit → List Elem × Bytes
  | .tag (.add n d) => (st.1 ++ [⟨UInt8.ofNat n, d⟩], st.2)
  | .tag (.remove n) => (st.1.eraseP (fun e => e.num.toNat == n), st.2)
  | .tag (.setSsid d) => (st.1.eraseP (fun e => e.num.toNat == 0) ++ [⟨0, d⟩], st.2)
  | .tag (.setChannel c) => (st.1.eraseP (fun e => e.num.toNat == 3) ++ [⟨3, [c]⟩], st.2)
  | .tag (.check _) => st
  | .detail d => (st.1, st.2 ++ d)
  | .freeDetail => (st.1, [])

/-- the edit exists for the kind (`editApplies` of the harness; counting is allowed wherever there
are tags) and is storable / inside the iterator's documented limits in the reference state -/
def Admissible (k : GKind) (st : List Elem × Bytes) : GEdit → Bool
  | .tag (.add n d) => kindHasTags k && decide (n < 256) && decide (d.length ≤ 255)
  | .tag (.remove _) => kindHasTags k && noInnerEmpty st.1
  | .tag (.setSsid d) => hasSsidSetter k && noInnerEmpty st.1 && decide (d.length ≤ 255)
  | .tag (.setChannel _) => hasChannelSetter k && noInnerEmpty st.1
  | .tag (.check _) => kindHasTags k
  | .detail d => isAction k && decide (st.2.length + d.length ≤ 255)
  | .freeDetail => isAction k

/-- what the property says about the value an edit returns, in the reference state before it -/
def retOk (st : List Elem × Bytes) : GEdit → Int → Prop
  | .tag (.remove _), r => st.1 ≠ [] → r = 0
  | .tag (.check n), r => noInnerEmpty st.1 = true → r = ((st.1.countP (fun e => e.num.toNat == n) : Nat) : Int)
  | .tag _, r => r = 0
  | .detail d, r => r = ((st.2 ++ d).length : Nat)
  | .freeDetail, r => r = 0

/-- the tag edits of `TagOp` as operations of the Spec's reference semantics -/
def toEditOp : TagOp → EditOp
  | .add n d => .add n d
  | .remove n => .remove n
  | .setSsid d => .set 0 d
  | .setChannel c => .set 3 [c]
  | .check n => .check n

/-- on admissible tag edits `refStep` IS `Spec.refEdit` -/
theorem refStep_refEdit (k : GKind) (st : List Elem × Bytes) (op : TagOp) (h : Admissible k st (.tag op) = true) :
    Spec.refEdit st.1 (toEditOp op) = some (refStep st (.tag op)).1 ∧ (refStep st (.tag op)).2 = st.2 := by
  cases op <;> simp_all [Admissible, Spec.refEdit, toEditOp, refStep]

/-- **C03 (step)** one admissible edit on a `Good` object succeeds, returns what the property
fixes, and the object is `Good` for the reference state after the edit -/
theorem good_step (k : GKind) (a : GArgs) (o : GObj) (st : List Elem × Bytes) (g : Good k a o st.1 st.2)
    (e : GEdit) (had : Admissible k st e = true) :
    ∃ r o', o.edit e = .ok (r, o') ∧ retOk st e r ∧ Good k a o' (refStep st e).1 (refStep st e).2 := by
  have hto : kindHasTags k = true → o.hasTags = true := fun h => by rw [hasTags_eq, g.kind]; exact h
  cases e with
  | tag op =>
    cases op with
    | add n d =>
      simp only [Admissible, Bool.and_eq_true, decide_eq_true_eq] at had
      obtain ⟨o', h1, _, h3⟩ := good_add k a o st.1 st.2 g (hto had.1.1) n d had.2
      exact ⟨0, o', h1, rfl, h3⟩
    | remove n =>
      simp only [Admissible, Bool.and_eq_true] at had
      obtain ⟨r, o', h1, _, h3, h4⟩ := good_remove k a o st.1 st.2 g (hto had.1) had.2 n
      exact ⟨r, o', h1, h3, h4⟩
    | setSsid d =>
      simp only [Admissible, Bool.and_eq_true, decide_eq_true_eq] at had
      obtain ⟨o', h1, _, h3⟩ := good_setSsid k a o st.1 st.2 g (hto (ssidSetter_hasTags k had.1.1)) had.1.2 d had.2
      exact ⟨0, o', h1, rfl, h3⟩
    | setChannel c =>
      simp only [Admissible, Bool.and_eq_true] at had
      obtain ⟨o', h1, _, h3⟩ := good_setChannel k a o st.1 st.2 g (hto (channelSetter_hasTags k had.1)) had.2 c
      exact ⟨0, o', h1, rfl, h3⟩
    | check n =>
      obtain ⟨r, h1, h2⟩ := good_check k a o st.1 st.2 g n
      exact ⟨r, o, h1, h2, g⟩
  | detail d =>
    simp only [Admissible, Bool.and_eq_true, decide_eq_true_eq] at had
    obtain ⟨o', h1, h2⟩ := good_detail k had.1 a o st.1 st.2 g d had.2
    exact ⟨_, o', h1, rfl, h2⟩
  | freeDetail =>
    obtain ⟨o', h1, h2⟩ := good_freeDetail k had a o st.1 st.2 g
    exact ⟨0, o', h1, rfl, h2⟩

/-! ## 4. histories -/

/-- run a history on an object, collecting the return values; any failing call stops the run -/
def runEdits : GObj → List GEdit → Outcome (List Int × GObj)
  | o, [] => .ok ([], o)
  | o, e :: es =>
    match o.edit e with
    | .ok (r, o') =>
      match runEdits o' es with
      | .ok (rs, o'') => .ok (r :: rs, o'')
      | .err c => .err c
      | .fault f => .fault f
    | .err c => .err c
    | .fault f => .fault f

/-- the reference state after a history -/
def refRun (st : List Elem × Bytes) (edits : List GEdit) : List Elem × Bytes := edits.foldl refStep st

/-- every edit of the history is admissible in the reference state it is applied to -/
def admissibleAll (k : GKind) : List Elem × Bytes → List GEdit → Bool
  | _, [] => true
  | st, e :: es => Admissible k st e && admissibleAll k (refStep st e) es

/-- the return values of a history are the ones the property fixes -/
def retsOk : List Elem × Bytes → List GEdit → List Int → Prop
  | _, [], [] => True
  | st, e :: es, r :: rs => retOk st e r ∧ retsOk (refStep st e) es rs
  | _, _, _ => False

theorem good_history (k : GKind) (a : GArgs) (edits : List GEdit) (o : GObj) (st : List Elem × Bytes)
    (g : Good k a o st.1 st.2) (had : admissibleAll k st edits = true) :
    ∃ rs o', runEdits o edits = .ok (rs, o') ∧ retsOk st edits rs ∧
      Good k a o' (refRun st edits).1 (refRun st edits).2 := by
  induction edits generalizing o st with
  | nil => exact ⟨[], o, rfl, trivial, g⟩
  | cons e es ih =>
    simp only [admissibleAll, Bool.and_eq_true] at had
    obtain ⟨r, o1, h1, h2, g1⟩ := good_step k a o st g e had.1
    obtain ⟨rs, o', h3, h4, g2⟩ := ih o1 (refStep st e) g1 had.2
    exact ⟨r :: rs, o', by simp [runEdits, h1, h3], ⟨h2, h4⟩, by simpa [refRun] using g2⟩

/-- **any tag history, no side condition** on an object with tags every sequence of tag edits runs
to the end, and the final object serialises to the Spec frame of the elements its tag bytes parse to -/
theorem tags_any_history (k : GKind) (a : GArgs) (ops : List TagOp) (o : GObj) (es : List Elem) (det : Bytes)
    (g : Good k a o es det) (ht : o.hasTags = true) :
    ∃ rs o', runEdits o (ops.map .tag) = .ok (rs, o') ∧ o'.hasTags = true ∧ Good k a o' (parse o'.tags.params) det := by
  induction ops generalizing o es with
  | nil =>
    refine ⟨[], o, rfl, ht, ?_⟩
    rw [g.wf.parse]; exact g
  | cons op ops ih =>
    obtain ⟨r, o1, h1, ht1, g1⟩ := good_any_tag k a o es det g ht op
    obtain ⟨rs, o', h2, ht2, g2⟩ := ih o1 _ g1 ht1
    exact ⟨r :: rs, o', by simp [runEdits, h1, h2], ht2, g2⟩

/-- the reference state of a freshly created object -/
def st0 (k : GKind) (a : GArgs) : List Elem × Bytes := (Spec.initialElems (sk k) (sa a), [])

/-- **C03 (full history)** for every generator, all arguments (SSID up to the one-octet limit) and
EVERY admissible history of edits — appended, removed and replaced tags, occurrence counts, appended
and freed action details, in any order —: creation and every edit succeed, every return value is
the one the property fixes, and the final object is `Good` for the reference state, i.e. it
serialises to `Spec.frame` of the reference elements / details and reports that frame's length. -/
theorem C03_full_history (k : GKind) (a : GArgs) (hs : (cstr a.ssid).length ≤ 255)
    (edits : List GEdit) (had : admissibleAll k (st0 k a) edits = true) :
    ∃ o0 rs o, create k a = .ok (0, o0) ∧ runEdits o0 edits = .ok (rs, o) ∧ retsOk (st0 k a) edits rs ∧
      Good k a o (refRun (st0 k a) edits).1 (refRun (st0 k a) edits).2 := by
  obtain ⟨o0, hc, g0⟩ := good_create k a hs
  obtain ⟨rs, o, h1, h2, h3⟩ := good_history k a edits o0 (st0 k a) g0 had
  exact ⟨o0, rs, o, hc, h1, h2, h3⟩

/-- the same, spelled out: what is serialised and the reported length -/
theorem C03_full_frame (k : GKind) (a : GArgs) (hs : (cstr a.ssid).length ≤ 255)
    (edits : List GEdit) (had : admissibleAll k (st0 k a) edits = true) :
    ∃ o0 rs o, create k a = .ok (0, o0) ∧ runEdits o0 edits = .ok (rs, o) ∧ retsOk (st0 k a) edits rs ∧
      o.kind = k ∧
      o.encoding = .ok (Spec.frame (sk k) (sa a) (refRun (st0 k a) edits).1 (refRun (st0 k a) edits).2) ∧
      o.length = (Spec.frame (sk k) (sa a) (refRun (st0 k a) edits).1 (refRun (st0 k a) edits).2).length := by
  obtain ⟨o0, rs, o, h1, h2, h3, g⟩ := C03_full_history k a hs edits had
  exact ⟨o0, rs, o, h1, h2, h3, g.kind, g.enc, g.len⟩

/-! ## 5. the buffer-size clause -/

/-- **C03/C07 (full history, dump)** the final object of any admissible history, dumped into ANY
buffer: a buffer shorter than the Spec frame is refused with `-EINVAL` and left untouched; otherwise
exactly the Spec frame is written from the first byte, its length is returned, and the rest of the
buffer is unchanged. -/
theorem C03_full_dump (k : GKind) (a : GArgs) (hs : (cstr a.ssid).length ≤ 255)
    (edits : List GEdit) (had : admissibleAll k (st0 k a) edits = true) :
    ∃ o0 rs o, create k a = .ok (0, o0) ∧ runEdits o0 edits = .ok (rs, o) ∧
      ∀ buf : Bytes,
        let f := Spec.frame (sk k) (sa a) (refRun (st0 k a) edits).1 (refRun (st0 k a) edits).2
        dumpInto o buf = if buf.length < f.length then .ok (-EINVAL, buf) else .ok ((f.length : Nat), f ++ buf.drop f.length) := by
  obtain ⟨o0, rs, o, h1, h2, _, g⟩ := C03_full_history k a hs edits had
  exact ⟨o0, rs, o, h1, h2, fun buf => C07.C07_dump k a o _ _ g buf⟩

/-! ## non-vacuity

A beacon history with add, set-SSID, remove and count, and an action history with detail,
free-detail, detail: the hypotheses of the theorems hold (`decide`), the Spec frame is the expected
octet string, and — independently of the theorems — evaluating the MODEL on the same history in
the kernel gives the same octets, return values and buffer behaviour. -/

/-- create, run the edits, dump into `buf`: (edit return values, dump return value, buffer) -/
def modelRun (k : GKind) (a : GArgs) (edits : List GEdit) (buf : Bytes) : Outcome (List Int × Int × Bytes) := do
  let (_, o0) ← create k a
  let (rs, o) ← runEdits o0 edits
  let (r, b) ← dumpInto o buf
  .ok (rs, r, b)

def exArgs : GArgs := { ssid := [0x41, 0x42, 0, 0x43], ch := 6, clk := ⟨5, 1000⟩ }

/-- SSID "AB", channel 6; then: add vendor element, SSID := "XY", drop the DS element, count 221 -/
def exEdits : List GEdit :=
  [.tag (.add 221 [1, 2]), .tag (.setSsid [0x58, 0x59]), .tag (.remove 3), .tag (.check 221)]

def exFrame : Bytes :=
  [0x80, 0, 0, 0] ++ List.replicate 18 0 ++ [0, 0, 0x41, 0x4b, 0x4c, 0, 0, 0, 0, 0, 0x64, 0, 1, 0,
    221, 2, 1, 2, 0, 2, 0x58, 0x59]

theorem exFrame_eq :
    Spec.frame (sk .beacon) (sa exArgs) (refRun (st0 .beacon exArgs) exEdits).1 (refRun (st0 .beacon exArgs) exEdits).2 = exFrame := by
  decide +kernel

example : ∃ o0 rs o, create .beacon exArgs = .ok (0, o0) ∧ runEdits o0 exEdits = .ok (rs, o) ∧
    o.encoding = .ok exFrame ∧ o.length = 44 ∧
    dumpInto o (List.replicate 43 0xA5) = .ok (-EINVAL, List.replicate 43 0xA5) ∧
    dumpInto o (List.replicate 46 0xA5) = .ok (44, exFrame ++ [0xA5, 0xA5]) := by
  obtain ⟨o0, rs, o, h1, h2, _, g⟩ := C03_full_history .beacon exArgs (by decide +kernel) exEdits (by decide +kernel)
  have henc := g.enc
  have hlen := g.len
  rw [exFrame_eq] at henc hlen
  refine ⟨o0, rs, o, h1, h2, henc, by rw [hlen]; rfl, ?_, ?_⟩
  · rw [C07.C07_dump .beacon exArgs o _ _ g, exFrame_eq]; rfl
  · rw [C07.C07_dump .beacon exArgs o _ _ g, exFrame_eq]; rfl

/-- the model itself, evaluated: same octets, return values 0, 0, 0 and the count 1 -/
example : modelRun .beacon exArgs exEdits (List.replicate 46 0xA5) = .ok ([0, 0, 0, 1], 44, exFrame ++ [0xA5, 0xA5]) := by
  decide +kernel

def exActArgs : GArgs := { cat := 4 }

def exActEdits : List GEdit := [.detail [1, 2], .freeDetail, .detail [3]]

def exActFrame : Bytes := [0xd0, 0, 0, 0] ++ List.replicate 18 0 ++ [0, 0, 4, 3]

theorem exActFrame_eq :
    Spec.frame (sk .action) (sa exActArgs) (refRun (st0 .action exActArgs) exActEdits).1
      (refRun (st0 .action exActArgs) exActEdits).2 = exActFrame := by
  decide +kernel

example : ∃ o0 rs o, create .action exActArgs = .ok (0, o0) ∧ runEdits o0 exActEdits = .ok (rs, o) ∧
    o.encoding = .ok exActFrame ∧ o.length = 26 := by
  obtain ⟨o0, rs, o, h1, h2, _, g⟩ := C03_full_history .action exActArgs (by decide +kernel) exActEdits (by decide +kernel)
  have henc := g.enc
  have hlen := g.len
  rw [exActFrame_eq] at henc hlen
  exact ⟨o0, rs, o, h1, h2, henc, by rw [hlen]; rfl⟩

/-- the model itself, evaluated: the detail lengths 2, 0 (freed), 1 are returned -/
example : modelRun .action exActArgs exActEdits (List.replicate 26 0xA5) = .ok ([2, 0, 1], 26, exActFrame) := by
  decide +kernel

/-- the side conditions exclude something: an SSID setter on an authentication frame, details beyond
255 octets, and a removal behind an inner empty element are not admissible -/
example : admissibleAll .auth (st0 .auth {}) [.tag (.setSsid [0x58])] = false ∧
    admissibleAll .action (st0 .action {}) [.detail (List.replicate 200 0), .detail (List.replicate 56 0)] = false ∧
    admissibleAll .beacon (st0 .beacon exArgs) [.tag (.add 7 []), .tag (.add 9 [1]), .tag (.remove 9)] = false := by
  decide +kernel

/-- … and the last exclusion is necessary: behind an inner empty element the iterator (and with it
`libwifi_remove_tag`) sees nothing, so element 9 stays in the frame -/
example : modelRun .beacon exArgs [.tag (.add 7 []), .tag (.add 9 [1]), .tag (.remove 9)] (List.replicate 50 0xA5) =
    .ok ([0, 0, 0], 48, [0x80, 0, 0, 0] ++ List.replicate 18 0 ++ [0, 0, 0x41, 0x4b, 0x4c, 0, 0, 0, 0, 0, 0x64, 0, 1, 0,
      0, 2, 0x41, 0x42, 3, 1, 6, 7, 0, 9, 1, 1] ++ [0xA5, 0xA5]) := by
  decide +kernel

end LWV.Props.C03Full
