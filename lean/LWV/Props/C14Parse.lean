import LWV.Props.C14Full
/-
C14 / C15 for the two extraction routines that allocate: `libwifi_parse_data` (body copy) and
`libwifi_get_wpa_data` (key-data copy), each followed by its documented release
(`libwifi_free_data`, `libwifi_free_wpa_data`), alone and inside the classify / parse / extract /
release pipeline.

Everything is stated for an ARBITRARY fault schedule `σ : Nat → Bool`, an arbitrary frame / byte
string and an arbitrary starting ledger `h` with `Clean h own`, so the statements compose with
those of `LWV.Props.C14Full`.
-/
namespace LWV.Props.C14Parse
open LWV LWV.Model LWV.Heap LWV.Props.C14Full

/-! ## helper lemmas -/

/-- a private block that was just allocated next to `own` is released again: the ledger is back to `own` -/
theorem free_fresh (id : Nat) (h : H) (own : List Nat) (hid : id ∉ own) (cs : Clean h (id :: own)) :
    Clean ((free (some id)).run h).2 own :=
  free_spec (some id) h own (by simpa [blocks] using cs) (fun i hi => by cases hi; exact hid)

/-- the never-failing schedule leaves the result of an allocation request `some _` -/
theorem malloc_nf_some (n : Nat) (h : H) : ((malloc nf n).run h).1 = some h.next := malloc_nf n h

/-! ## T1 / T2 ledger discipline of the two extraction routines -/

/-- **T1** `libwifi_parse_data` followed by `libwifi_free_data`, on every frame and under every fault
schedule: at most one block (the body copy) is allocated and it is released exactly once — the ledger
is restored, whether the frame is rejected, the allocation fails or the call succeeds -/
theorem data_release_clean (σ : Nat → Bool) (f : Frame) (h : H) (own : List Nat) (c : Clean h own) :
    Clean ((parseDataReleaseH σ f).run h).2 own := by
  unfold parseDataReleaseH
  cases parseData f with
  | err e => exact c
  | fault e => exact c
  | ok d =>
    simp only
    rw [run_bind]
    rcases malloc_spec σ (f.len - f.headerLen) h own c with ⟨hn, cn⟩ | ⟨id, hs, hid, cs⟩
    · simp only [hn]; exact cn
    · simp only [hs]
      rw [run_bind]
      exact free_fresh id _ own hid cs

/-- **T2** `libwifi_get_wpa_data` followed by `libwifi_free_wpa_data`, on every frame and under every
fault schedule: at most one block (the key-data copy, only when the clamped key-data length is
positive) is allocated and it is released exactly once — the ledger is restored on every path -/
theorem wpa_release_clean (σ : Nat → Bool) (f : Frame) (h : H) (own : List Nat) (c : Clean h own) :
    Clean ((wpaDataReleaseH σ f).run h).2 own := by
  unfold wpaDataReleaseH
  cases getWpaData f with
  | err e => exact c
  | fault e => exact c
  | ok d =>
    simp only
    by_cases hk : d.keyDataLength > 0
    · simp only [hk, if_true]
      rw [run_bind]
      rcases malloc_spec σ d.keyDataLength h own c with ⟨hn, cn⟩ | ⟨id, hs, hid, cs⟩
      · simp only [hn]; exact cn
      · simp only [hs]
        rw [run_bind]
        exact free_fresh id _ own hid cs
    · simp only [hk, if_false]
      exact c

/-! ## T3 an allocation failure is reported, never a silent loss -/

/-- **T3 (data)** under every fault schedule `libwifi_parse_data` either returns exactly what the
fault-free routine returns, or it reports `-ENOMEM` — and that only on a frame the fault-free routine
accepts (the body copy is the only thing that can be lost, and its loss is reported) -/
theorem data_release_result (σ : Nat → Bool) (f : Frame) (h : H) :
    ((parseDataReleaseH σ f).run h).1 = parseData f ∨
    (((parseDataReleaseH σ f).run h).1 = .err (-ENOMEM) ∧ ∃ d, parseData f = .ok d) := by
  unfold parseDataReleaseH
  cases parseData f with
  | err e => exact Or.inl rfl
  | fault e => exact Or.inl rfl
  | ok d =>
    simp only
    rw [run_bind]
    cases ((malloc σ (f.len - f.headerLen)).run h).1 with
    | none => exact Or.inr ⟨rfl, d, rfl⟩
    | some p => exact Or.inl rfl

/-- **T3 (EAPOL)** under every fault schedule `libwifi_get_wpa_data` either returns exactly what the
fault-free routine returns, or it reports `-ENOMEM` — and that only on a frame the fault-free routine
accepts with a positive (clamped) key-data length, i.e. only when there was a copy to lose -/
theorem wpa_release_result (σ : Nat → Bool) (f : Frame) (h : H) :
    ((wpaDataReleaseH σ f).run h).1 = getWpaData f ∨
    (((wpaDataReleaseH σ f).run h).1 = .err (-ENOMEM) ∧ ∃ d, getWpaData f = .ok d ∧ 0 < d.keyDataLength) := by
  unfold wpaDataReleaseH
  cases getWpaData f with
  | err e => exact Or.inl rfl
  | fault e => exact Or.inl rfl
  | ok d =>
    simp only
    by_cases hk : d.keyDataLength > 0
    · simp only [hk, if_true]
      rw [run_bind]
      cases ((malloc σ d.keyDataLength).run h).1 with
      | none => exact Or.inr ⟨rfl, d, rfl, hk⟩
      | some p => exact Or.inl rfl
    · simp only [hk, if_false]
      exact Or.inl rfl

/-! ## T4 the fault-free schedule -/

/-- **T4 (data)** when no allocation fails `libwifi_parse_data` returns exactly the pure model's result -/
theorem data_release_nf (f : Frame) (h : H) : ((parseDataReleaseH nf f).run h).1 = parseData f := by
  unfold parseDataReleaseH
  cases parseData f with
  | err e => rfl
  | fault e => rfl
  | ok d =>
    simp only
    rw [run_bind]
    simp only [malloc_nf_some]
    rfl

/-- **T4 (EAPOL)** when no allocation fails `libwifi_get_wpa_data` returns exactly the pure model's result -/
theorem wpa_release_nf (f : Frame) (h : H) : ((wpaDataReleaseH nf f).run h).1 = getWpaData f := by
  unfold wpaDataReleaseH
  cases getWpaData f with
  | err e => rfl
  | fault e => rfl
  | ok d =>
    simp only
    by_cases hk : d.keyDataLength > 0
    · simp only [hk, if_true]
      rw [run_bind]
      simp only [malloc_nf_some]
      rfl
    · simp only [hk, if_false]
      rfl

/-- T4 with the schedule written out -/
theorem data_release_never_fail (f : Frame) (h : H) :
    ((parseDataReleaseH (fun _ => false) f).run h).1 = parseData f := data_release_nf f h

theorem wpa_release_never_fail (f : Frame) (h : H) :
    ((wpaDataReleaseH (fun _ => false) f).run h).1 = getWpaData f := wpa_release_nf f h

/-! ## T5 the extraction pipeline -/

/-- the two extraction routines applied to a classified frame (none when classification failed),
each followed by the documented release of its output -/
def extractClassified (σ : Nat → Bool) (fh : FrameH) : M Unit :=
  match fh.f with
  | some f => do
    let _ ← wpaDataReleaseH σ f
    let _ ← parseDataReleaseH σ f
    pure ()
  | none => pure ()

/-- `libwifi_get_wifi_frame`, every management parser in `ks`, `libwifi_get_wpa_data` +
`libwifi_free_wpa_data`, `libwifi_parse_data` + `libwifi_free_data`, `libwifi_free_wifi_frame` -/
def extractPipeline (σ : Nat → Bool) (rt : Bool) (bs : Bytes) (ks : List MKind) : M Unit := do
  let (_, fh) ← classifyH σ rt bs
  parseClassified σ ks fh
  extractClassified σ fh
  freeFrameH fh

/-- the extraction routines only allocate and release a private block each: the ledger stays exact -/
theorem extractClassified_clean (σ : Nat → Bool) (fh : FrameH) (h : H) (own : List Nat) (c : Clean h own) :
    Clean ((extractClassified σ fh).run h).2 own := by
  unfold extractClassified
  cases fh.f with
  | none => exact c
  | some f =>
    simp only
    rw [run_bind, run_bind]
    exact data_release_clean σ f _ own (wpa_release_clean σ f h own c)

/-- `libwifi_get_wpa_data` + `libwifi_free_wpa_data` and `libwifi_parse_data` + `libwifi_free_data`
on a classified frame leave the frame's own blocks (radiotap info, body copy) exactly as they were -/
theorem extractClassified_inv (σ : Nat → Bool) (fh : FrameH) (h : H) (own : List Nat) (i : FrameInv fh h own) :
    FrameInv fh ((extractClassified σ fh).run h).2 own :=
  { i with clean := extractClassified_clean σ fh h _ i.clean }

/-- **T5 (composable)** `libwifi_get_wifi_frame`, any list of management parsers, the EAPOL key-data
extraction, the data extraction (each followed by the documented release of its output) and
`libwifi_free_wifi_frame`: from any clean ledger back to the same clean ledger, for every byte string,
both radiotap modes and every fault schedule -/
theorem extractPipeline_clean (σ : Nat → Bool) (rt : Bool) (bs : Bytes) (ks : List MKind) (h : H) (own : List Nat)
    (c : Clean h own) : Clean ((extractPipeline σ rt bs ks).run h).2 own := by
  unfold extractPipeline
  rw [run_bind]
  show Clean ((parseClassified σ ks ((classifyH σ rt bs).run h).1.2 >>= fun _ =>
      extractClassified σ ((classifyH σ rt bs).run h).1.2 >>= fun _ =>
      freeFrameH ((classifyH σ rt bs).run h).1.2).run ((classifyH σ rt bs).run h).2).2 own
  rw [run_bind, run_bind]
  exact freeFrameH_clean _ _ own
    (extractClassified_inv σ _ _ own (parseClassified_inv σ ks _ _ own (classifyH_inv σ rt bs h own c)))

/-- **T5 (headline)** for EVERY byte string, both radiotap modes, every list of parsers and EVERY fault
schedule: `libwifi_get_wifi_frame`, then all parsers, then `libwifi_get_wpa_data` /
`libwifi_free_wpa_data`, then `libwifi_parse_data` / `libwifi_free_data`, then
`libwifi_free_wifi_frame`, from the empty ledger, leaves no library block allocated and releases
nothing twice or invalidly -/
theorem C14_extract_pipeline (σ : Nat → Bool) (rt : Bool) (bs : Bytes) (ks : List MKind) :
    let r := (extractPipeline σ rt bs ks).run {}
    r.2.live = [] ∧ r.2.bad = 0 :=
  clean_nil_live (extractPipeline_clean σ rt bs ks {} [] clean_init)

/-! ## T6 non-vacuity -/

/-- a data frame (type 2, subtype 0): 24 header octets, 3 body octets -/
def dat : Bytes := [0x08, 0] ++ List.replicate 22 0 ++ [1, 2, 3]

/-- what `libwifi_get_wifi_frame` makes of `dat` -/
def datF : Frame :=
  { flags := 0, fc := [0x08, 0], len := 27, headerLen := 24, header := [0x08, 0] ++ List.replicate 22 0,
    body := [1, 2, 3], radiotap := none }

/-- a data frame carrying an EAPOL key message: 24 header octets, LLC/SNAP with the 802.1X type, 99 octets
of fixed key fields declaring 2 octets of key data, and those 2 octets -/
def eap : Bytes :=
  [0x08, 0] ++ List.replicate 22 0 ++ [0xaa, 0xaa, 3, 0, 0, 0, 0x88, 0x8e] ++ List.replicate 97 0 ++ [0, 2] ++ [7, 9]

/-- what `libwifi_get_wifi_frame` makes of `eap` -/
def eapF : Frame :=
  { flags := 0, fc := [0x08, 0], len := 133, headerLen := 24, header := [0x08, 0] ++ List.replicate 22 0,
    body := [0xaa, 0xaa, 3, 0, 0, 0, 0x88, 0x8e] ++ List.replicate 97 0 ++ [0, 2] ++ [7, 9], radiotap := none }

/-- fails exactly the first allocation request -/
def failFirst : Nat → Bool := fun n => n == 0

/-- the two frames are what classification produces -/
example : classify false dat = .ok datF ∧ classify false eap = .ok eapF := by decide +kernel

/-- the data routine accepts `datF` (so the `∃ d` of `data_release_result` is inhabited) -/
example : parseData datF = .ok ⟨List.replicate 6 0, List.replicate 6 0, [1, 2, 3]⟩ := by decide +kernel

/-- the body copy cannot be allocated: `libwifi_parse_data` reports `-ENOMEM`, one request, one fault,
nothing live, nothing released -/
example :
    let r := (parseDataReleaseH failFirst datF).run {}
    r.1 = .err (-ENOMEM) ∧ r.2.reqs = 1 ∧ r.2.faults = 1 ∧ r.2.live = [] ∧ r.2.bad = 0 := by decide +kernel

/-- fault-free: the pure result, one request, the block released -/
example :
    let r := (parseDataReleaseH nf datF).run {}
    r.1 = parseData datF ∧ r.1.isOk = true ∧ r.2.reqs = 1 ∧ r.2.faults = 0 ∧ r.2.live = [] ∧ r.2.bad = 0 := by
  decide +kernel

/-- the EAPOL routine accepts `eapF` with a positive key-data length (so the ENOMEM clause of
`wpa_release_result` is inhabited) and a lost key-data copy is reported as `-ENOMEM` -/
example :
    (∃ d, getWpaData eapF = .ok d ∧ d.keyDataLength = 2 ∧ d.keyData = [7, 9]) ∧
    ((wpaDataReleaseH failFirst eapF).run {}).1 = .err (-ENOMEM) ∧
    ((wpaDataReleaseH failFirst eapF).run {}).2.live = [] ∧
    ((wpaDataReleaseH nf eapF).run {}).1 = getWpaData eapF ∧
    ((wpaDataReleaseH nf eapF).run {}).2.reqs = 1 ∧ ((wpaDataReleaseH nf eapF).run {}).2.live = [] := by
  refine ⟨⟨_, rfl, ?_, ?_⟩, ?_⟩ <;> decide +kernel

/-- the data routine rejects a management frame without allocating -/
example :
    let r := (parseDataReleaseH failFirst { datF with fc := [0x80, 0] }).run {}
    r.1 = .err (-EINVAL) ∧ r.2.reqs = 0 := by decide +kernel

/-- the whole extraction pipeline on the EAPOL frame, fault-free: three requests (frame body, key data,
data body), all released -/
example :
    let r := (extractPipeline nf false eap [.beacon]).run {}
    r.2.live = [] ∧ r.2.bad = 0 ∧ r.2.reqs = 3 ∧ r.2.faults = 0 := by decide +kernel

/-- the same pipeline with the second request (the key-data copy) failing: the data extraction still
runs, everything is released -/
example :
    let r := (extractPipeline (fun n => n == 1) false eap [.beacon]).run {}
    r.2.live = [] ∧ r.2.bad = 0 ∧ r.2.reqs = 3 ∧ r.2.faults = 1 := by decide +kernel

/-- the same pipeline with the first request (the frame's body copy) failing: no frame, no parser, no
extraction -/
example :
    let r := (extractPipeline failFirst false eap [.beacon]).run {}
    r.2.live = [] ∧ r.2.bad = 0 ∧ r.2.reqs = 1 ∧ r.2.faults = 1 := by decide +kernel

end LWV.Props.C14Parse
