import LWV.Model.Tables
import LWV.Spec.Ieee
import LWV.Lemmas.Assoc
/-
C19 — Published protocol numbers and tag names follow the IEEE assignments.
Property theorems only; every `Gen.*` constant is regenerated from the working tree.
-/
namespace LWV.Props.C19
open LWV

/-- the ten kinds of published numbers: (kind, published enumerators, IEEE table) -/
def kinds : List (String × List (Name × Int) × List (Name × Int)) := [
  ("element ids", Gen.enum_libwifi_tag_numbers, Spec.ieeeTag),
  ("reason codes", Gen.enum_libwifi_reason_codes, Spec.ieeeReason),
  ("status codes", Gen.enum_libwifi_status_codes, Spec.ieeeStatus),
  ("action categories", Gen.enum_libwifi_actions, Spec.ieeeAction),
  ("frame types", Gen.enum_libwifi_frame_type, Spec.ieeeFrameType),
  ("management subtypes", Gen.enum_libwifi_mgmt_subtypes, Spec.ieeeMgmtSubtype),
  ("control subtypes", Gen.enum_libwifi_control_subtypes, Spec.ieeeCtrlSubtype),
  ("control extension subtypes", Gen.enum_libwifi_control_extension_subtypes, Spec.ieeeCtrlExtSubtype),
  ("data subtypes", Gen.enum_libwifi_data_subtypes, Spec.ieeeDataSubtype),
  ("extension subtypes", Gen.enum_libwifi_extension_subtypes, Spec.ieeeExtSubtype)]

/-- Every IEEE assignment the Spec vouches for is published under that name with exactly that
value (as a sub-sequence of the header's enumerator list: O(n) kernel string comparisons).
Enumerator names are unique identifiers in C, so this fixes the value of every vouched name. -/
theorem C19_values : ∀ k ∈ kinds, k.2.2.Sublist k.2.1 := by decide +kernel

/-- no name is published for an element ID the standard reserves (a freshly added name with a wrong number lands on
a reserved ID or on a number that is already taken - the latter is `C19_distinct`) -/
theorem C19_no_reserved_tag : ∀ p ∈ Gen.enum_libwifi_tag_numbers, p.2 ∉ Spec.ieeeReservedTag := by decide +kernel

/-- and the name lookup answers every reserved ID with the unknown-tag string -/
theorem C19_reserved_unknown : ∀ n ∈ Spec.ieeeReservedTag, Model.tagName n = Gen.tagNameDefault := by decide +kernel

/-- the reserved list is the 83-number list of the standard's table (non-vacuity of the two statements above) -/
theorem C19_reserved_count : Spec.ieeeReservedTag.length = 83 ∧ (149 : Int) ∈ Spec.ieeeReservedTag ∧ (148 : Int) ∉ Spec.ieeeReservedTag := by decide +kernel

theorem C19_values_pointwise (k) (hk : k ∈ kinds) (name : Name) (w : Int)
    (hi : (name, w) ∈ k.2.2) : (name, w) ∈ k.2.1 :=
  (C19_values k hk).subset hi

/-- no two names of one kind share a number -/
theorem C19_distinct_sorted : ∀ k ∈ kinds, strictAsc (isort id (k.2.1.map (·.2))) = true := by decide +kernel

theorem C19_distinct : ∀ k ∈ kinds, (k.2.1.map (·.2)).Nodup :=
  fun k hk => nodup_of_sorted_strictAsc _ (C19_distinct_sorted k hk)

/-- hence a number determines its name, and a vouched number cannot be carried by another name -/
theorem C19_unique_name (k) (hk : k ∈ kinds) (n m : Name) (v : Int)
    (h1 : (n, v) ∈ k.2.1) (h2 : (m, v) ∈ k.2.1) : n = m := by
  have nd := C19_distinct k hk
  generalize k.2.1 = l at *
  induction l with
  | nil => cases h1
  | cons p t ih =>
    simp only [List.map_cons, List.nodup_cons] at nd
    rcases List.mem_cons.mp h1 with e1 | e1 <;> rcases List.mem_cons.mp h2 with e2 | e2
    · exact (Prod.mk.inj (e1.trans e2.symm)).1
    · exact absurd (List.mem_map.mpr ⟨(m, v), e2, by rw [← e1]⟩) nd.1
    · exact absurd (List.mem_map.mpr ⟨(n, v), e1, by rw [← e2]⟩) nd.1
    · exact ih e1 e2 nd.2

/-! tag-name lookup -/

theorem tagCases_keys_nodup : (Gen.tagNameCases.map (·.1)).Nodup :=
  nodup_of_sorted_strictAsc _ (by decide +kernel)

/-- the switch's (label, string) pairs are, up to order, exactly the enumerators' (value, name) -/
theorem tagCases_eq_enum :
    isort (·.1) Gen.tagNameCases = (isort (·.2) Gen.enum_libwifi_tag_numbers).map (fun e => (e.2, e.1)) := by
  decide +kernel

theorem tagCases_sub_enum : ∀ p ∈ Gen.tagNameCases, (p.2, p.1) ∈ Gen.enum_libwifi_tag_numbers := by
  intro p hp
  have h := (mem_isort (·.1) p Gen.tagNameCases).mpr hp
  rw [tagCases_eq_enum] at h
  obtain ⟨e, he, rfl⟩ := List.mem_map.mp h
  exact (mem_isort _ _ _).mp he

theorem enum_sub_tagCases : ∀ q ∈ Gen.enum_libwifi_tag_numbers, (q.2, q.1) ∈ Gen.tagNameCases := by
  intro q hq
  apply (mem_isort (·.1) _ Gen.tagNameCases).mp
  rw [tagCases_eq_enum]
  exact List.mem_map.mpr ⟨q, (mem_isort _ _ _).mpr hq, rfl⟩

theorem tagName_default : Gen.tagNameDefault = n!"Unknown Tag" := by decide

/-- For **every** integer the lookup returns the published identifier of the tag with that
number, or the fixed unknown-tag string. -/
theorem C19_tag_name (n : Int) :
    Model.tagName n =
      match Gen.enum_libwifi_tag_numbers.find? (fun e => e.2 == n) with
      | some e => e.1
      | none => n!"Unknown Tag" := by
  unfold Model.tagName
  rw [lookup_converse tagCases_keys_nodup tagCases_sub_enum enum_sub_tagCases n, tagName_default]
  cases Gen.enum_libwifi_tag_numbers.find? (fun e => e.2 == n) <;> rfl

/-- the returned string is never empty and is one of finitely many constants -/
theorem C19_tag_name_total (n : Int) :
    Model.tagName n = n!"Unknown Tag" ∨ Model.tagName n ∈ Gen.enum_libwifi_tag_numbers.map (·.1) := by
  rw [C19_tag_name]
  cases h : Gen.enum_libwifi_tag_numbers.find? (fun e => e.2 == n) with
  | none => exact Or.inl rfl
  | some e => exact Or.inr (List.mem_map.mpr ⟨e, List.mem_of_find?_eq_some h, rfl⟩)

/-! non-vacuity -/
example : Model.tagName 48 = n!"TAG_RSN" := by decide +kernel
example : Model.tagName (-7) = n!"Unknown Tag" := by decide +kernel
example : Model.tagName 256 = n!"Unknown Tag" := by decide +kernel
example : Spec.ieeeTag.lookup n!"TAG_RSN" = some 48 := by decide +kernel
example : Name.toString n!"TAG_RSN" = "TAG_RSN" := by decide

end LWV.Props.C19


