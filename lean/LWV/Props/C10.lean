import LWV.Lemmas.RtGen
/-
C10 — generated radiotap headers are valid and decode to the same values.

Proved: for EVERY description that selects only carried fields (all 2^11 subsets at once, all
field values), the generator's output is exactly the Spec encoding: version 0, pad 0, length
field = number of bytes produced, the requested present word, and each selected field
little-endian at its naturally aligned offset in bit order.
The decode-back clause is stated (`C10_roundtrip_statement`) and decided by the exhaustive
correspondence run (it needs the iterator simulation that C09 leaves to correspondence).
-/
namespace LWV.Props.C10
open LWV LWV.Model

def descOf (g : RtGen) : Spec.RtDesc := ⟨g.present, rtGenField g⟩

/-- only carried fields are selected -/
def OnlyCarried (g : RtGen) : Prop := ∀ f, g.present.testBit f = true → f ∈ Spec.carried

theorem table_fields : Spec.rtTable.map (·.1) = [0, 1, 2, 3, 4, 5, 6, 7, 8, 9, 10, 11, 12, 13, 14, 15, 16, 17] ++ [19, 20, 21, 22] := by
  decide

theorem table_worst (g : RtGen) (h : g.antennaCount ≤ 16) :
    ((Spec.rtTable.map (·.1)).map (rtWorst g)).sum ≤ rtStagingCap := by
  have hs := worst_sum g
  have hsplit : List.range 23 = [0, 1, 2, 3, 4, 5, 6, 7, 8, 9, 10, 11, 12, 13, 14, 15, 16, 17] ++ 18 :: [19, 20, 21, 22] := by
    decide
  rw [hsplit] at hs
  rw [table_fields]
  generalize [0, 1, 2, 3, 4, 5, 6, 7, 8, 9, 10, 11, 12, 13, 14, 15, 16, 17] = A at hs ⊢
  generalize [19, 20, 21, 22] = B at hs ⊢
  simp only [List.map_append, List.map_cons, List.sum_append, List.sum_cons] at hs ⊢
  have : rtStagingCap = 120 := by decide
  omega

/-- **C10 (valid)** -/
theorem C10_valid (g : RtGen) (hc : OnlyCarried g) (ha : g.antennaCount ≤ 16) :
    createRadiotap g = .ok (Spec.rtEncode (descOf g)) := by
  have h18 : g.present.testBit 18 = false := by
    cases h : g.present.testBit 18
    · rfl
    · have := hc 18 h; simp [Spec.carried] at this
  unfold createRadiotap
  have hN : Gen.rtapNBits = 23 := by decide
  rw [hN]
  have hsplit : List.range 23 = [0, 1, 2, 3, 4, 5, 6, 7, 8, 9, 10, 11, 12, 13, 14, 15, 16, 17] ++ 18 :: [19, 20, 21, 22] := by
    decide
  have hloop : rtGenLoop g (List.range 23) [] = rtGenLoop g (Spec.rtTable.map (·.1)) [] := by
    rw [hsplit, table_fields, rtGenLoop_append, rtGenLoop_append]
    congr 1
    funext d
    exact rtGenLoop_skip g 18 _ d h18
  rw [hloop, rtGenLoop_spec g Spec.rtTable (fun e he => he) [] (by simpa using table_worst g ha)]
  simp only [Outcome.bind_ok]
  rw [rtEncode_body]
  rfl

/-- the generated header announces exactly its own size, version 0 and the requested present word -/
theorem C10_header (g : RtGen) (hc : OnlyCarried g) (ha : g.antennaCount ≤ 16) :
    ∃ h body, createRadiotap g = .ok h ∧ h = [0, 0] ++ leBytes 2 h.length ++ leBytes 4 g.present ++ body := by
  refine ⟨_, Spec.rtTable.foldl (specStep (descOf g)) [], C10_valid g hc ha, ?_⟩
  rw [rtEncode_body]
  simp only [List.length_append, List.length_cons, List.length_nil, leBytes_length, descOf]

/-- decode-back clause (NOT proved here; exhaustive over the 2^11 subsets in the correspondence run) -/
def C10_roundtrip_statement : Prop :=
  ∀ g : RtGen, OnlyCarried g → g.antennaCount ≤ 16 →
    ∃ h info, createRadiotap g = .ok h ∧ parseRadiotapInfo h = .ok info ∧ info.length = h.length

/-- a present word inside the carried mask selects only carried fields -/
theorem onlyCarried_of_subset (g : RtGen) (h : g.present ||| Spec.carriedMask = Spec.carriedMask) : OnlyCarried g := by
  intro f hf
  have hm : Spec.carriedMask.testBit f = true := by
    rw [← h, Nat.testBit_or, hf]; rfl
  by_cases hlt : f < 23
  · have : ∀ k, k < 23 → Spec.carriedMask.testBit k = true → k ∈ Spec.carried := by decide
    exact this f hlt hm
  · have : Spec.carriedMask.testBit f = false := Nat.testBit_lt_two_pow (by
      calc Spec.carriedMask < 2 ^ 23 := by decide
        _ ≤ 2 ^ f := Nat.pow_le_pow_right (by decide) (by omega))
    rw [this] at hm; cases hm

/-! non-vacuity: FLAGS | TIMESTAMP (the selection the unfixed generator mis-padded) -/
example : OnlyCarried { present := 0x400002 } := onlyCarried_of_subset _ (by decide)
example : createRadiotap { present := 0x400002, flags := 0x10, tsTimestamp := 0x1122334455667788, tsAccuracy := 3, tsUnit := 4, tsFlags := 5 }
    = .ok [0, 0, 28, 0, 2, 0, 0x40, 0, 0x10, 0, 0, 0, 0, 0, 0, 0, 0x88, 0x77, 0x66, 0x55, 0x44, 0x33, 0x22, 0x11, 3, 0, 4, 5] := by
  decide +kernel

end LWV.Props.C10
