import LWV.Model.Mgmt
import LWV.Spec.Mgmt
/-
C08 — security classification follows the RSN and WPA elements exactly.
-/
namespace LWV.Props.C08
open LWV LWV.Model

/-- the enumeration the Spec's selector tables prescribe, in the translator's tabulation order:
(position, OUI class, selector, flags) -/
def rsnExpected : List (Nat × Nat × Nat × Nat) :=
  Spec.rsnGroupBit.map (fun e => (0, 0, e.1, Spec.bit e.2)) ++
  Spec.rsnPairwiseBit.map (fun e => (1, 0, e.1, Spec.bit e.2)) ++
  Spec.akmBit.map (fun e => (2, 0, e.1, Spec.bit e.2 ||| Spec.bit (Spec.rsnGeneration e.1)))

def wpaExpected : List (Nat × Nat × Nat × Nat) :=
  Spec.wpaMulticastBit.map (fun e => (0, 1, e.1, Spec.bit e.2)) ++
  Spec.wpaUnicastBit.map (fun e => (1, 1, e.1, Spec.bit e.2)) ++
  Spec.wpaAkmSel.map (fun s => (2, 1, s, Spec.lookupBit Spec.akmBit s ||| Spec.bit 2))

/-- **C08 (tables)** the exhaustive tabulation of the compiled enumeration routines (every selector
0..255 x {IEEE, Microsoft, foreign OUI} x {group, pairwise, AKM}) is exactly the documented
assignment: suites count only under the element's own OUI, undefined selectors contribute
nothing, each AKM carries its documented generation -/
theorem C08_tables :
    Gen.rsnEnum = rsnExpected ∧ Gen.wpaEnum = wpaExpected ∧
    Gen.s_CIPHER_SUITE_OUI = Spec.ieeeOui ∧ Gen.s_MICROSOFT_OUI = Spec.msOui ∧
    Gen.m_MICROSOFT_OUI_TYPE_WPA = 1 ∧ Gen.m_MICROSOFT_OUI_TYPE_WPS = 4 ∧ Gen.m_LIBWIFI_MAX_CIPHER_SUITES = 6 ∧
    Gen.m_WEP = 2 ∧ Gen.m_WPA = 4 ∧ Gen.m_WPA2 = 8 ∧ Gen.m_WPA3 = 16 := by decide +kernel

/-- the summary bits the tables use are pairwise distinct (generation bits 1..4, group 5..17,
pairwise 18..31, AKM 32..53), so no two suites or generations share a flag -/
theorem C08_flags_distinct :
    (([1, 2, 3, 4] : List Nat) ++ Spec.rsnGroupBit.map Prod.snd ++ [18, 19, 20, 21, 22, 23, 24, 25, 26, 27, 28, 29, 30, 31] ++ Spec.akmBit.map Prod.snd).Nodup ∧
    (∀ e ∈ Spec.rsnPairwiseBit ++ Spec.wpaUnicastBit, 18 ≤ e.2 ∧ e.2 ≤ 31) ∧
    (∀ e ∈ Spec.wpaMulticastBit, e ∈ Spec.rsnGroupBit) := by decide

/-! ### the element walkers -/

theorem rd_getD (w : String) (bs : Bytes) (i : Nat) (h : i < bs.length) : rd w bs i = .ok (bs.getD i 0) := by
  rw [rd_ok h]; simp [List.getD, List.getElem?_eq_getElem h]

theorem le16El_ok (el : Bytes) (off : Nat) (h : off + 1 < el.length) : le16El el off = .ok (Spec.u16le el off) := by
  unfold le16El
  rw [rd_getD _ _ _ (by omega), rd_getD _ _ _ h]
  rfl

def toSel (s : Suite) : Spec.SuiteSel := ⟨s.oui, s.ty⟩

theorem suiteAt_ok (el : Bytes) (off : Nat) (h : off + 4 ≤ el.length) :
    ∃ s, suiteAt el off = .ok s ∧ toSel s = Spec.suiteAtS el off := by
  unfold suiteAt
  simp only [rdSlice, h, if_true, Outcome.bind_ok]
  refine ⟨_, rfl, ?_⟩
  simp only [toSel, Spec.suiteAtS]
  congr 1
  · rw [List.take_take]; simp
  · congr 1
    simp only [List.getD_eq_getElem?_getD, List.getElem?_take, List.getElem?_drop]
    simp

theorem suitesAt_ok (el : Bytes) (off n : Nat) (h : off + 4 * n ≤ el.length) :
    ∃ l, suitesAt el off n = .ok l ∧ l.map toSel = Spec.suitesS el off n := by
  induction n generalizing off with
  | zero => exact ⟨[], rfl, rfl⟩
  | succ n ih =>
    obtain ⟨s, hs, hsel⟩ := suiteAt_ok el off (by omega)
    obtain ⟨l, hl, hmap⟩ := ih (off + 4) (by omega)
    refine ⟨s :: l, by simp [suitesAt, hs, hl], ?_⟩
    simp only [List.map_cons, hsel, hmap, Spec.suitesS, List.range_succ_eq_map, List.map_cons, List.map_map, Nat.mul_zero, Nat.add_zero]
    congr 1
    apply List.map_congr_left
    intro k _
    simp only [Function.comp]
    congr 1
    omega

/-- one suite list: refused exactly when the element cannot hold the declared suites -/
theorem suiteList_spec (el : Bytes) (data : Nat) (hd : data ≤ el.length) :
    (el.length < data + 2 + 4 * Spec.u16le el data → suiteList el data = .err (-EINVAL)) ∧
    (data + 2 + 4 * Spec.u16le el data ≤ el.length →
      ∃ l, suiteList el data = .ok (l, data + 2 + 4 * Spec.u16le el data) ∧
        l.map toSel = Spec.suitesS el (data + 2) (min (Spec.u16le el data) 6)) := by
  have h6 : maxSuites = 6 := by decide
  unfold suiteList
  by_cases h2 : el.length - data < 2
  · refine ⟨fun _ => by simp [h2], fun h => by omega⟩
  · simp only [h2, if_false]
    rw [le16El_ok el data (by omega)]
    simp only [Outcome.bind_ok]
    by_cases h4 : el.length - (data + 2) < Spec.u16le el data * 4
    · refine ⟨fun _ => by simp [h4], fun h => by omega⟩
    · simp only [h4, if_false]
      refine ⟨fun h => by omega, fun h => ?_⟩
      obtain ⟨l, hl, hmap⟩ := suitesAt_ok el (data + 2) (min (Spec.u16le el data) maxSuites) (by rw [h6]; omega)
      refine ⟨l, ?_, by rw [hmap, h6]⟩
      rw [hl]
      simp only [Outcome.bind_ok]
      congr 2
      omega

/-- **C08 (RSN decode)** for EVERY element body: the decoded version, group suite, stored pairwise
and AKM suites (at most six each) and capabilities are the element's bytes at their offsets; an
element too short for its own counts (or without capabilities) makes the walk fail -/
theorem C08_rsn_decode (el : Bytes) :
    match Spec.rsnDecode el with
    | none => getRsnInfo el = .err (-EINVAL)
    | some d => ∃ i, getRsnInfo el = .ok i ∧ i.version = d.version ∧ toSel i.group = d.group ∧
        i.pairwise.map toSel = d.pairwise ∧ i.akms.map toSel = d.akms ∧ i.caps = d.caps := by
  unfold Spec.rsnDecode getRsnInfo
  by_cases h8 : el.length < 8
  · simp only [h8, if_true]
    by_cases h6 : el.length < 6
    · simp [h6]
    · simp only [h6, if_false]
      rw [le16El_ok el 0 (by omega)]
      obtain ⟨g, hg, _⟩ := suiteAt_ok el 2 (by omega)
      simp only [Outcome.bind_ok, hg]
      have := (suiteList_spec el 6 (by omega)).1 (by omega)
      simp [this]
  · have h6 : ¬ el.length < 6 := by omega
    simp only [h8, h6, if_false]
    rw [le16El_ok el 0 (by omega)]
    obtain ⟨g, hg, hgs⟩ := suiteAt_ok el 2 (by omega)
    simp only [Outcome.bind_ok, hg]
    by_cases hp : el.length < 8 + 4 * Spec.u16le el 6 + 2
    · simp only [hp, if_true]
      by_cases hp1 : el.length < 6 + 2 + 4 * Spec.u16le el 6
      · simp [(suiteList_spec el 6 (by omega)).1 hp1]
      · obtain ⟨pw, hpw, _⟩ := (suiteList_spec el 6 (by omega)).2 (by omega)
        simp only [hpw, Outcome.bind_ok]
        have := (suiteList_spec el (6 + 2 + 4 * Spec.u16le el 6) (by omega)).1 (by omega)
        simp [this]
    · simp only [hp, if_false]
      obtain ⟨pw, hpw, hpwm⟩ := (suiteList_spec el 6 (by omega)).2 (by omega)
      simp only [hpw, Outcome.bind_ok]
      have hao : 6 + 2 + 4 * Spec.u16le el 6 = 8 + 4 * Spec.u16le el 6 := by omega
      rw [hao]
      by_cases ha : el.length < 8 + 4 * Spec.u16le el 6 + 2 + 4 * Spec.u16le el (8 + 4 * Spec.u16le el 6) + 2
      · simp only [ha, if_true]
        by_cases ha1 : el.length < 8 + 4 * Spec.u16le el 6 + 2 + 4 * Spec.u16le el (8 + 4 * Spec.u16le el 6)
        · simp [(suiteList_spec el (8 + 4 * Spec.u16le el 6) (by omega)).1 ha1]
        · obtain ⟨ak, hak, _⟩ := (suiteList_spec el (8 + 4 * Spec.u16le el 6) (by omega)).2 (by omega)
          simp only [hak, Outcome.bind_ok]
          have : el.length - (8 + 4 * Spec.u16le el 6 + 2 + 4 * Spec.u16le el (8 + 4 * Spec.u16le el 6)) < 2 := by omega
          simp [this]
      · simp only [ha, if_false]
        obtain ⟨ak, hak, hakm⟩ := (suiteList_spec el (8 + 4 * Spec.u16le el 6) (by omega)).2 (by omega)
        simp only [hak, Outcome.bind_ok]
        have : ¬ (el.length - (8 + 4 * Spec.u16le el 6 + 2 + 4 * Spec.u16le el (8 + 4 * Spec.u16le el 6)) < 2) := by omega
        simp only [this, if_false]
        rw [le16El_ok el _ (by omega)]
        exact ⟨_, rfl, rfl, hgs, hpwm, hakm, rfl⟩

/-- **C08 (WPA decode)** the same for the WPA element (no capabilities field) -/
theorem C08_wpa_decode (el : Bytes) :
    match Spec.wpaDecode el with
    | none => getWpaInfo el = .err (-EINVAL)
    | some d => ∃ i, getWpaInfo el = .ok i ∧ i.version = d.version ∧ toSel i.multicast = d.multicast ∧
        i.unicast.map toSel = d.unicast ∧ i.akms.map toSel = d.akms := by
  unfold Spec.wpaDecode getWpaInfo
  by_cases h8 : el.length < 8
  · simp only [h8, if_true]
    by_cases h6 : el.length < 6
    · simp [h6]
    · simp only [h6, if_false]
      rw [le16El_ok el 0 (by omega)]
      obtain ⟨g, hg, _⟩ := suiteAt_ok el 2 (by omega)
      simp only [Outcome.bind_ok, hg]
      have := (suiteList_spec el 6 (by omega)).1 (by omega)
      simp [this]
  · have h6 : ¬ el.length < 6 := by omega
    simp only [h8, h6, if_false]
    rw [le16El_ok el 0 (by omega)]
    obtain ⟨g, hg, hgs⟩ := suiteAt_ok el 2 (by omega)
    simp only [Outcome.bind_ok, hg]
    by_cases hp : el.length < 8 + 4 * Spec.u16le el 6 + 2
    · simp only [hp, if_true]
      by_cases hp1 : el.length < 6 + 2 + 4 * Spec.u16le el 6
      · simp [(suiteList_spec el 6 (by omega)).1 hp1]
      · obtain ⟨pw, hpw, _⟩ := (suiteList_spec el 6 (by omega)).2 (by omega)
        simp only [hpw, Outcome.bind_ok]
        have := (suiteList_spec el (6 + 2 + 4 * Spec.u16le el 6) (by omega)).1 (by omega)
        simp [this]
    · simp only [hp, if_false]
      obtain ⟨pw, hpw, hpwm⟩ := (suiteList_spec el 6 (by omega)).2 (by omega)
      simp only [hpw, Outcome.bind_ok]
      have hao : 6 + 2 + 4 * Spec.u16le el 6 = 8 + 4 * Spec.u16le el 6 := by omega
      rw [hao]
      by_cases ha : el.length < 8 + 4 * Spec.u16le el 6 + 2 + 4 * Spec.u16le el (8 + 4 * Spec.u16le el 6)
      · simp only [ha, if_true]
        simp [(suiteList_spec el (8 + 4 * Spec.u16le el 6) (by omega)).1 ha]
      · simp only [ha, if_false]
        obtain ⟨ak, hak, hakm⟩ := (suiteList_spec el (8 + 4 * Spec.u16le el 6) (by omega)).2 (by omega)
        simp only [hak, Outcome.bind_ok]
        exact ⟨_, rfl, rfl, hgs, hpwm, hakm⟩

end LWV.Props.C08
