import LWV.Model.Mgmt
import LWV.Spec.Mgmt
namespace LWV.Props.C08
end LWV.Props.C08
