import LWV.Props.C02Full
import LWV.Props.C03Full
import LWV.Props.C04Full
/-
C04 (round trip) — a frame produced by the generators, classified and handed to the parser of its
subtype, reports the arguments it was generated from.

The file only COMPOSES existing theorems:
  generation      C03.C03_create, C03Full.C03_full_history   (the dumped octets are `Spec.frame …`)
  classification  C02.C02_plain, C02Full.C10_prefix_invariance
  parsing         C04Full.C04_parse_bss / _sta / _reason, visible_all, Lemmas.Encode.parse_encode

  0. `gk`, `mkind`, `hdr24`, `bodyOf`, `genFrame`, `classify_gen`
        the nine generator kinds with a parser; a generated frame is 24 header octets followed by
        fixed fields and encoded elements, and the classifier slices it exactly there
  1. `bss_core`, `sta_core`, `reason_core`   (`BssRound`, `StaRound`, `ReasonRound`)
        the parser on such a frame, for ANY element list with one-octet bodies and no inner empty
        element: the Spec report of the list (`Agrees` / `StaAgrees`), the three addresses, the
        element bytes; refusal (-EINVAL) when the Spec report is `none` or the list is empty
  2. `C04_round_{bss,sta,reason}_history`     R2: after any admissible edit history
  3. `C04_round_{bss,sta,reason}_fresh`, `C04_round_fresh`   R1: freshly created, fields spelled out
        (`BssFresh`, `StaFresh`, `FreshReport`)
  4. `classify_behind_radiotap`, `parseMgmt_same`, `*_rt`   R3: the same behind a generated radiotap
        header, with the four FCS octets exactly when the header announces them
  5. non-vacuity: the model evaluated in the kernel, the theorems instantiated, and examples showing
        that the refusal clauses occur and that `noInnerEmpty` is necessary

What "the arguments" are (follow `Model.create`, `C03.sa`): addresses are the first six octets of the
argument (zero padded), the SSID is the C string before the first NUL, the channel is one octet
(`a.ch % 256`), the reason code two (`a.reason % 65536`).  The parsers keep 32 SSID octets.
-/
namespace LWV.Props.C04Round
open LWV LWV.Model LWV.Spec LWV.Props.C03 LWV.Props.C03Full LWV.Props.C04Full

/-! ## 0. generated frames and their classification -/

/-- the generator of a parser kind -/
def gk : MKind → GKind
  | .beacon => .beacon | .probeResp => .probeResp | .assocResp => .assocResp | .reassocResp => .reassocResp
  | .probeReq => .probeReq | .assocReq => .assocReq | .reassocReq => .reassocReq | .deauth => .deauth | .disassoc => .disassoc

/-- the parser of a generator kind (none for authentication, action, timing advertisement, ATIM, RTS, CTS) -/
def mkind : GKind → Option MKind
  | .beacon => some .beacon | .probeResp => some .probeResp | .assocResp => some .assocResp | .reassocResp => some .reassocResp
  | .probeReq => some .probeReq | .assocReq => some .assocReq | .reassocReq => some .reassocReq
  | .deauth => some .deauth | .disassoc => some .disassoc
  | _ => none

theorem mkind_gk (m : MKind) : mkind (gk m) = some m := by cases m <;> rfl
theorem gk_of_mkind (k : GKind) (m : MKind) (h : mkind k = some m) : k = gk m := by
  cases k <;> simp [mkind] at h <;> subst h <;> rfl

/-- the 24 header octets of a generated management frame -/
def hdr24 (m : MKind) (a : GArgs) : Bytes :=
  Spec.frameControl (sk (gk m)) ++ [0, 0] ++ mac a.a1 ++ mac a.a2 ++ mac a.a3 ++ [0, 0]

/-- the body of a generated management frame: fixed fields, then the elements -/
def bodyOf (m : MKind) (a : GArgs) (es : List Elem) : Bytes := Spec.fixed (sk (gk m)) (sa a) ++ encode es

theorem frame_eq (m : MKind) (a : GArgs) (es : List Elem) (det : Bytes) :
    Spec.frame (sk (gk m)) (sa a) es det = hdr24 m a ++ bodyOf m a es := by
  cases m <;> simp [Spec.frame, gk, sk, hdr24, bodyOf, sa, List.append_assoc]

/-- what the classifier returns for `hdr24 m a ++ body` (no radiotap) -/
def genFrame (m : MKind) (a : GArgs) (body : Bytes) : Frame :=
  { flags := 0, fc := Spec.frameControl (sk (gk m)), len := 24 + body.length, headerLen := 24,
    header := hdr24 m a, body := body, radiotap := none }

theorem hdr24_length (m : MKind) (a : GArgs) : (hdr24 m a).length = 24 := by
  simp [hdr24, Spec.frameControl, mac_length]

/-- **classification of a generated frame** header = the 24 octets, body = everything after -/
theorem classify_gen (m : MKind) (a : GArgs) (body : Bytes) :
    classify false (hdr24 m a ++ body) = .ok (genFrame m a body) := by
  rw [C02.C02_plain]
  have hl := hdr24_length m a
  have hfc : ∃ b0 rest, hdr24 m a = b0 :: 0 :: rest ∧ Spec.frameControl (sk (gk m)) = [b0, 0] ∧ b0.toNat / 4 % 4 = 0 := by
    cases m <;> exact ⟨_, _, rfl, rfl, by decide⟩
  obtain ⟨b0, rest, hh, hfc, hty⟩ := hfc
  have hrest : rest.length = 22 := by rw [hh] at hl; simpa using hl
  unfold genFrame
  rw [hfc]
  have hcore : Spec.classifyCore (hdr24 m a ++ body) 0 false =
      some { fcs := false, qos := false, ordered := false, len := 24 + body.length, headerLen := 24,
             fc := [b0, 0], header := hdr24 m a, body := body } := by
    rw [hh]
    have ht : (rest ++ body).take 22 = rest := List.take_left' hrest
    have hd : (rest ++ body).drop 22 = body := List.drop_left' hrest
    simp [Spec.classifyCore, Spec.hdrLen, hty, ht, hd, hrest]
    omega
  rw [hcore]
  simp [C02.frameOf]

theorem genFrame_shape (m : MKind) (a : GArgs) (body : Bytes) : C01.Shape (genFrame m a body) := by
  refine ⟨?_, hdr24_length m a, rfl, by show 4 ≤ 24; decide, fun _ _ _ _ => Nat.le_refl 24⟩
  cases m <;> exact ⟨_, _, rfl⟩

theorem genFrame_typeOk (m : MKind) (a : GArgs) (body : Bytes) : typeOk (genFrame m a body) m = true := by
  cases m <;> rfl

theorem slice_mid (pre x post : Bytes) (n k : Nat) (hp : pre.length = n) (hx : x.length = k) :
    slice (pre ++ x ++ post) n k = x := by
  unfold slice
  rw [List.append_assoc, List.drop_left' hp, List.take_left' hx]

/-- the parsers' three addresses are the generator's three address arguments, in order -/
theorem genFrame_addrs (m : MKind) (a : GArgs) (body : Bytes) :
    addrs (genFrame m a body) = (mac a.a1, mac a.a2, mac a.a3) := by
  have h1 := mac_length a.a1
  have h2 := mac_length a.a2
  have h3 := mac_length a.a3
  have hfc : (Spec.frameControl (sk (gk m))).length = 2 := rfl
  unfold addrs genFrame hdr24
  simp only
  congr 1
  · rw [List.append_assoc _ (mac a.a3), List.append_assoc _ (mac a.a2)]
    exact slice_mid _ _ _ 4 6 (by simp [hfc]) h1
  congr 1
  · rw [List.append_assoc _ (mac a.a3)]
    exact slice_mid _ _ _ 10 6 (by simp [hfc, h1]) h2
  · exact slice_mid _ _ _ 16 6 (by simp [hfc, h1, h2]) h3


theorem fixed_length (m : MKind) (a : GArgs) : (Spec.fixed (sk (gk m)) (sa a)).length = m.fixedLen := by
  obtain ⟨_, _, _, _, _, _, _, _, _, _, hfl, _⟩ := C04.C04_consts
  rw [hfl m]
  cases m <;> simp [Spec.fixed, gk, sk, sa, leBytes_length, mac_length]

theorem body_tags (m : MKind) (a : GArgs) (es : List Elem) : (bodyOf m a es).drop m.fixedLen = encode es :=
  List.drop_left' (fixed_length m a)

theorem body_length (m : MKind) (a : GArgs) (es : List Elem) : (bodyOf m a es).length = m.fixedLen + (encode es).length := by
  rw [bodyOf, List.length_append, fixed_length]

/-- the capability field the generators write has the Privacy bit clear -/
theorem body_privacy (m : MKind) (hm : MKind.isBss m) (a : GArgs) (es : List Elem) :
    privacyBit (bodyOf m a es) m.capsOff = false := by
  rcases hm with rfl | rfl | rfl | rfl <;>
    simp [privacyBit, bodyOf, Spec.fixed, gk, sk, MKind.capsOff, leBytes]

theorem encode_length_ge (es : List Elem) (h : es ≠ []) : 2 ≤ (encode es).length := by
  cases es with
  | nil => exact absurd rfl h
  | cons e t => rw [encode_cons, List.length_append, encodeElem_length]; omega


/-! ## 1. the parsers on a generated frame, any element list -/

theorem visible_encode (es : List Elem) (hb : bodiesOk es) (hne : noInnerEmpty es = true) :
    visibleElems (encode es) = es := by
  rw [visible_all _ (by rw [parse_encode es hb]; exact hne), parse_encode es hb]

theorem firstFits_encode (es : List Elem) (hb : bodiesOk es) (h : es ≠ []) : firstFits (encode es) := by
  cases es with
  | nil => exact absurd rfl h
  | cons e t => exact firstFits_encode_cons e t (hb e List.mem_cons_self)

theorem not_firstFits_nil : ¬ firstFits (encode []) := by
  intro h; exact h

/-- what the BSS-side parser of kind `m` says about a frame `f` generated from `a` with elements `es` -/
def BssRound (m : MKind) (a : GArgs) (es : List Elem) (f : Frame) : Prop :=
  typeOk f m = true ∧
  (es = [] → parseMgmt m f = .err (-EINVAL)) ∧
  (es ≠ [] →
    match Spec.bssReport false es with
    | none => parseMgmt m f = .err (-EINVAL)
    | some r => ∃ b, parseMgmt m f = .ok (.bss b) ∧
        b.receiver = mac a.a1 ∧ b.transmitter = mac a.a2 ∧ b.bssid = mac a.a3 ∧ b.tags = encode es ∧ Agrees b r)

theorem bss_core (m : MKind) (hm : MKind.isBss m) (a : GArgs) (es : List Elem) (hb : bodiesOk es)
    (hne : noInnerEmpty es = true) : BssRound m a es (genFrame m a (bodyOf m a es)) := by
  have hs := genFrame_shape m a (bodyOf m a es)
  have ht := genFrame_typeOk m a (bodyOf m a es)
  obtain ⟨h1, h2⟩ := C04_parse_bss m hm _ hs ht
  have hbody : (genFrame m a (bodyOf m a es)).body = bodyOf m a es := rfl
  have hlen : (genFrame m a (bodyOf m a es)).len = 24 + (m.fixedLen + (encode es).length) := by
    show 24 + (bodyOf m a es).length = _
    rw [body_length]
  have hhl : (genFrame m a (bodyOf m a es)).headerLen = 24 := rfl
  simp only [hbody, body_tags, hlen, hhl, genFrame_addrs] at h1 h2
  refine ⟨ht, fun he => ?_, fun he => ?_⟩
  · subst he
    exact h1 (Or.inr not_firstFits_nil)
  · have := h2 (by have := encode_length_ge es he; omega) (firstFits_encode es hb he)
    rw [body_privacy m hm, visible_encode es hb hne] at this
    exact this


/-- what the station-side parser of kind `m` says about a frame `f` generated from `a` with elements `es` -/
def StaRound (m : MKind) (a : GArgs) (es : List Elem) (f : Frame) : Prop :=
  typeOk f m = true ∧
  (es = [] → parseMgmt m f = .err (-EINVAL)) ∧
  (es ≠ [] → ∃ s, parseMgmt m f = .ok (.sta s) ∧
      s.transmitter = mac a.a2 ∧ s.bssid = mac a.a3 ∧
      s.randomized = (if ((mac a.a2).getD 0 0).toNat / 2 % 2 = 1 then 1 else 0) ∧
      s.tags = encode es ∧ StaAgrees s (Spec.staReport es))

theorem sta_core (m : MKind) (hm : MKind.isSta m) (a : GArgs) (es : List Elem) (hb : bodiesOk es)
    (hne : noInnerEmpty es = true) : StaRound m a es (genFrame m a (bodyOf m a es)) := by
  have hs := genFrame_shape m a (bodyOf m a es)
  have ht := genFrame_typeOk m a (bodyOf m a es)
  obtain ⟨h1, h2⟩ := C04_parse_sta m hm _ hs ht
  have hbody : (genFrame m a (bodyOf m a es)).body = bodyOf m a es := rfl
  simp only [hbody, body_tags, genFrame_addrs] at h1 h2
  refine ⟨ht, fun he => ?_, fun he => ?_⟩
  · subst he
    exact h1 not_firstFits_nil
  · have := h2 (firstFits_encode es hb he)
    rw [visible_encode es hb hne] at this
    exact this

/-- without the side condition on empty elements: the BSS-side parser reports the Spec report of the
elements the iterator SHOWS (`visibleElems`), whatever the list -/
theorem bss_core_visible (m : MKind) (hm : MKind.isBss m) (a : GArgs) (es : List Elem) (hb : bodiesOk es) (he : es ≠ []) :
    match Spec.bssReport false (visibleElems (encode es)) with
    | none => parseMgmt m (genFrame m a (bodyOf m a es)) = .err (-EINVAL)
    | some r => ∃ b, parseMgmt m (genFrame m a (bodyOf m a es)) = .ok (.bss b) ∧
        b.receiver = mac a.a1 ∧ b.transmitter = mac a.a2 ∧ b.bssid = mac a.a3 ∧ b.tags = encode es ∧ Agrees b r := by
  have hs := genFrame_shape m a (bodyOf m a es)
  have ht := genFrame_typeOk m a (bodyOf m a es)
  obtain ⟨_, h2⟩ := C04_parse_bss m hm _ hs ht
  have hbody : (genFrame m a (bodyOf m a es)).body = bodyOf m a es := rfl
  have hlen : (genFrame m a (bodyOf m a es)).len = 24 + (m.fixedLen + (encode es).length) := by
    show 24 + (bodyOf m a es).length = _
    rw [body_length]
  have hhl : (genFrame m a (bodyOf m a es)).headerLen = 24 := rfl
  simp only [hbody, body_tags, hlen, hhl, genFrame_addrs] at h2
  have := h2 (by have := encode_length_ge es he; omega) (firstFits_encode es hb he)
  rw [body_privacy m hm] at this
  exact this

theorem sta_core_visible (m : MKind) (hm : MKind.isSta m) (a : GArgs) (es : List Elem) (hb : bodiesOk es) (he : es ≠ []) :
    ∃ s, parseMgmt m (genFrame m a (bodyOf m a es)) = .ok (.sta s) ∧
      s.transmitter = mac a.a2 ∧ s.bssid = mac a.a3 ∧ s.tags = encode es ∧
      StaAgrees s (Spec.staReport (visibleElems (encode es))) := by
  have hs := genFrame_shape m a (bodyOf m a es)
  have ht := genFrame_typeOk m a (bodyOf m a es)
  obtain ⟨_, h2⟩ := C04_parse_sta m hm _ hs ht
  have hbody : (genFrame m a (bodyOf m a es)).body = bodyOf m a es := rfl
  simp only [hbody, body_tags, genFrame_addrs] at h2
  obtain ⟨s, h1, h3, h4, _, h6, h7⟩ := h2 (firstFits_encode es hb he)
  exact ⟨s, h1, h3, h4, h6, h7⟩


/-- what the deauthentication / disassociation parser says about a generated frame -/
def ReasonRound (m : MKind) (a : GArgs) (es : List Elem) (f : Frame) : Prop :=
  typeOk f m = true ∧
  parseMgmt m f = .ok (.reason { ordered := false, header := hdr24 m a, reason := a.reason % 65536, tags := encode es })

theorem reason_core (m : MKind) (hm : MKind.isReason m) (a : GArgs) (es : List Elem) :
    ReasonRound m a es (genFrame m a (bodyOf m a es)) := by
  have hs := genFrame_shape m a (bodyOf m a es)
  have ht := genFrame_typeOk m a (bodyOf m a es)
  obtain ⟨_, h2⟩ := C04_parse_reason m hm _ hs ht
  refine ⟨ht, ?_⟩
  have hfl : m.fixedLen = 2 := by rcases hm with rfl | rfl <;> decide
  have hfc : (genFrame m a (bodyOf m a es)).fc = [UInt8.ofNat ((sk (gk m)).typeSubtype.1 * 4 + (sk (gk m)).typeSubtype.2 * 16), 0] := rfl
  have := h2 (by show 24 + 2 ≤ 24 + (bodyOf m a es).length; rw [body_length, hfl]; omega) _ _ hfc
  rw [this]
  have hbody : (genFrame m a (bodyOf m a es)).body = bodyOf m a es := rfl
  have hd := body_tags m a es
  rw [hfl] at hd
  rw [hbody, hd]
  have hfx : bodyOf m a es = UInt8.ofNat (a.reason % 256) :: UInt8.ofNat (a.reason / 256 % 256) :: encode es := by
    rcases hm with rfl | rfl <;> simp [bodyOf, Spec.fixed, gk, sk, sa, leBytes]
  have hr : le16 ((bodyOf m a es).getD 0 0) ((bodyOf m a es).getD 1 0) = a.reason % 65536 := by
    rw [hfx]
    simp only [List.getD_cons_zero, List.getD_cons_succ, le16, UInt8.toNat_ofNat']
    omega
  rw [hr]
  rfl


/-! ### the reports of the initial elements -/

theorem cstr_ne_zero (s : Bytes) : ∀ x ∈ cstr s, x ≠ 0 := by
  unfold cstr
  induction s with
  | nil => intro x hx; simp at hx
  | cons y t ih =>
    intro x hx
    rw [List.takeWhile_cons] at hx
    by_cases hy : y = 0
    · simp [hy] at hx
    · simp only [ne_eq, hy, not_false_eq_true, decide_true, if_true] at hx
      rcases List.mem_cons.mp hx with rfl | hx
      · exact hy
      · exact ih x hx

theorem hidden_cstr (s : Bytes) :
    (if (cstr s).isEmpty ∨ ((cstr s).take 32).all (· == 0) then 1 else 0 : Nat) = if cstr s = [] then 1 else 0 := by
  have hz := cstr_ne_zero s
  generalize cstr s = c at hz
  cases c with
  | nil => simp
  | cons x t =>
    have : x ≠ 0 := hz x List.mem_cons_self
    simp [this]

/-- kinds whose generator writes an SSID element -/
def carriesSsid : MKind → Bool
  | .beacon | .probeResp | .probeReq | .assocReq | .reassocReq => true
  | _ => false

/-- the 33-octet SSID array the parsers report for a generated frame -/
def ssidOf (m : MKind) (a : GArgs) : Bytes :=
  if carriesSsid m then Spec.overlay (List.replicate 33 0) (cstr a.ssid) else List.replicate 33 0

def freshBss (m : MKind) (a : GArgs) : Spec.BssReport :=
  { ssid := ssidOf m a, hidden := if carriesSsid m ∧ cstr a.ssid = [] then 1 else 0, channel := a.ch % 256,
    wps := 0, enc := 0, rsn := none, wpa := none }

theorem bssReport_fresh (m : MKind) (hm : MKind.isBss m) (a : GArgs) :
    Spec.bssReport false (Spec.initialElems (sk (gk m)) (sa a)) = some (freshBss m a) := by
  rw [bssReport_specFold]
  have hh := hidden_cstr a.ssid
  rcases hm with rfl | rfl | rfl | rfl <;>
    simp [Spec.initialElems, gk, sk, sa, specFold, C04Full.specStep, specInit, freshBss, ssidOf, carriesSsid]
  all_goals simpa using hh


def freshSta (a : GArgs) : Spec.StaReport :=
  { ssid := Spec.overlay (List.replicate 33 0) (cstr a.ssid), channel := a.ch % 256 }

theorem staReport_fresh (m : MKind) (hm : MKind.isSta m) (a : GArgs) :
    Spec.staReport (Spec.initialElems (sk (gk m)) (sa a)) = freshSta a := by
  rw [staReport_eq]
  rcases hm with rfl | rfl | rfl <;>
    simp [Spec.initialElems, gk, sk, sa, staStep, freshSta]

theorem initial_bodiesOk (m : MKind) (a : GArgs) (hs : (cstr a.ssid).length ≤ 255) :
    bodiesOk (Spec.initialElems (sk (gk m)) (sa a)) := by
  cases m <;> simp [bodiesOk, Spec.initialElems, gk, sk, sa, hs]

theorem initial_noInner (m : MKind) (a : GArgs) :
    noInnerEmpty (Spec.initialElems (sk (gk m)) (sa a)) = true := by
  cases m <;> simp [noInnerEmpty, Spec.initialElems, gk, sk, sa]

theorem initial_ne (m : MKind) (hm : MKind.isBss m ∨ MKind.isSta m) (a : GArgs) :
    Spec.initialElems (sk (gk m)) (sa a) ≠ [] := by
  rcases hm with (rfl | rfl | rfl | rfl) | (rfl | rfl | rfl) <;> simp [Spec.initialElems, gk, sk]

theorem initial_reason (m : MKind) (hm : MKind.isReason m) (a : GArgs) :
    Spec.initialElems (sk (gk m)) (sa a) = [] := by
  rcases hm with rfl | rfl <;> rfl


/-! ## 2. composition with the generator theorems (R2) -/

/-- the octets dumped after an admissible history, and the one-octet bound on every element body -/
theorem history_bytes (m : MKind) (a : GArgs) (hs : (cstr a.ssid).length ≤ 255) (edits : List GEdit)
    (had : admissibleAll (gk m) (st0 (gk m) a) edits = true)
    (o0 o : GObj) (rs : List Int) (bytes : Bytes)
    (hc : create (gk m) a = .ok (0, o0)) (hr : runEdits o0 edits = .ok (rs, o)) (he : o.encoding = .ok bytes) :
    bytes = hdr24 m a ++ bodyOf m a (refRun (st0 (gk m) a) edits).1 ∧ bodiesOk (refRun (st0 (gk m) a) edits).1 := by
  obtain ⟨o0', rs', o', h1, h2, _, g⟩ := C03_full_history (gk m) a hs edits had
  rw [hc] at h1
  cases h1
  rw [hr] at h2
  cases h2
  have henc := g.enc
  rw [he, frame_eq] at henc
  cases henc
  refine ⟨rfl, ?_⟩
  rw [← g.wf.parse]
  exact parseF_bodiesOk _ _

/-- **C04 (round trip, R2, BSS side)** create, ANY admissible edit history, dump, classify, parse: with no
inner empty element in the reference state the parser reports `Spec.bssReport false` of the
reference elements (`Agrees`), the three address arguments and the element bytes; it refuses with
-EINVAL exactly when that report is `none` (an added RSN / WPA element too short for its counts) or
when every element has been removed -/
theorem C04_round_bss_history (m : MKind) (hm : MKind.isBss m) (a : GArgs) (hs : (cstr a.ssid).length ≤ 255)
    (edits : List GEdit) (had : admissibleAll (gk m) (st0 (gk m) a) edits = true)
    (hne : noInnerEmpty (refRun (st0 (gk m) a) edits).1 = true)
    (o0 o : GObj) (rs : List Int) (bytes : Bytes)
    (hc : create (gk m) a = .ok (0, o0)) (hr : runEdits o0 edits = .ok (rs, o)) (he : o.encoding = .ok bytes) :
    ∃ f, classify false bytes = .ok f ∧ BssRound m a (refRun (st0 (gk m) a) edits).1 f := by
  obtain ⟨hb, hok⟩ := history_bytes m a hs edits had o0 o rs bytes hc hr he
  exact ⟨_, by rw [hb]; exact classify_gen m a _, bss_core m hm a _ hok hne⟩

/-- **C04 (round trip, R2, station side)** likewise with `Spec.staReport` (`StaAgrees`) -/
theorem C04_round_sta_history (m : MKind) (hm : MKind.isSta m) (a : GArgs) (hs : (cstr a.ssid).length ≤ 255)
    (edits : List GEdit) (had : admissibleAll (gk m) (st0 (gk m) a) edits = true)
    (hne : noInnerEmpty (refRun (st0 (gk m) a) edits).1 = true)
    (o0 o : GObj) (rs : List Int) (bytes : Bytes)
    (hc : create (gk m) a = .ok (0, o0)) (hr : runEdits o0 edits = .ok (rs, o)) (he : o.encoding = .ok bytes) :
    ∃ f, classify false bytes = .ok f ∧ StaRound m a (refRun (st0 (gk m) a) edits).1 f := by
  obtain ⟨hb, hok⟩ := history_bytes m a hs edits had o0 o rs bytes hc hr he
  exact ⟨_, by rw [hb]; exact classify_gen m a _, sta_core m hm a _ hok hne⟩

/-- for deauthentication / disassociation the SSID argument plays no role: no bound is needed -/
theorem history_bytes_reason (m : MKind) (hm : MKind.isReason m) (a : GArgs)
    (edits : List GEdit) (had : admissibleAll (gk m) (st0 (gk m) a) edits = true)
    (o0 o : GObj) (rs : List Int) (bytes : Bytes)
    (hc : create (gk m) a = .ok (0, o0)) (hr : runEdits o0 edits = .ok (rs, o)) (he : o.encoding = .ok bytes) :
    bytes = hdr24 m a ++ bodyOf m a (refRun (st0 (gk m) a) edits).1 := by
  have e1 : create (gk m) { a with ssid := [] } = create (gk m) a := by rcases hm with rfl | rfl <;> rfl
  have e2 : st0 (gk m) { a with ssid := [] } = st0 (gk m) a := by rcases hm with rfl | rfl <;> rfl
  have e3 : ∀ es, bodyOf m { a with ssid := [] } es = bodyOf m a es := by intro es; rcases hm with rfl | rfl <;> rfl
  have e4 : hdr24 m { a with ssid := [] } = hdr24 m a := rfl
  obtain ⟨hb, _⟩ := history_bytes m { a with ssid := [] } (Nat.zero_le 255) edits (by rw [e2]; exact had) o0 o rs bytes
    (by rw [e1]; exact hc) hr he
  rw [e2, e3, e4] at hb
  exact hb

/-- **C04 (round trip, R2, deauthentication / disassociation)** after any admissible history the parser
reports the reason code (mod 2^16) and, as `tags`, the encoding of the reference elements -/
theorem C04_round_reason_history (m : MKind) (hm : MKind.isReason m) (a : GArgs)
    (edits : List GEdit) (had : admissibleAll (gk m) (st0 (gk m) a) edits = true)
    (o0 o : GObj) (rs : List Int) (bytes : Bytes)
    (hc : create (gk m) a = .ok (0, o0)) (hr : runEdits o0 edits = .ok (rs, o)) (he : o.encoding = .ok bytes) :
    ∃ f, classify false bytes = .ok f ∧ ReasonRound m a (refRun (st0 (gk m) a) edits).1 f := by
  have hb := history_bytes_reason m hm a edits had o0 o rs bytes hc hr he
  exact ⟨_, by rw [hb]; exact classify_gen m a _, reason_core m hm a _⟩

/-! ## 3. R1: freshly created frames, spelled out -/

/-- what a BSS-side parser reports for a freshly generated frame of kind `m` -/
structure BssFresh (m : MKind) (a : GArgs) (b : Bss) : Prop where
  receiver : b.receiver = mac a.a1
  transmitter : b.transmitter = mac a.a2
  bssid : b.bssid = mac a.a3
  channel : b.channel = a.ch % 256
  ssid : b.ssid = ssidOf m a
  hidden : b.hidden = if carriesSsid m ∧ cstr a.ssid = [] then 1 else 0
  enc : b.enc = 0
  wps : b.wps = 0
  rsn : b.rsn = {}
  wpa : b.wpa = {}
  tags : b.tags = encode (Spec.initialElems (sk (gk m)) (sa a))

/-- what a station-side parser reports for a freshly generated frame of kind `m` -/
structure StaFresh (m : MKind) (a : GArgs) (s : Sta) : Prop where
  transmitter : s.transmitter = mac a.a2
  bssid : s.bssid = mac a.a3
  randomized : s.randomized = if ((mac a.a2).getD 0 0).toNat / 2 % 2 = 1 then 1 else 0
  channel : s.channel = a.ch % 256
  ssid : s.ssid = Spec.overlay (List.replicate 33 0) (cstr a.ssid)
  tags : s.tags = encode (Spec.initialElems (sk (gk m)) (sa a))

theorem bss_fresh_of_round (m : MKind) (hm : MKind.isBss m) (a : GArgs) (f : Frame)
    (h : BssRound m a (Spec.initialElems (sk (gk m)) (sa a)) f) :
    typeOk f m = true ∧ ∃ b, parseMgmt m f = .ok (.bss b) ∧ BssFresh m a b := by
  obtain ⟨ht, _, h3⟩ := h
  have := h3 (initial_ne m (Or.inl hm) a)
  rw [bssReport_fresh m hm a] at this
  obtain ⟨b, hb, r1, r2, r3, r4, hag⟩ := this
  exact ⟨ht, b, hb, ⟨r1, r2, r3, hag.channel, hag.ssid, hag.hidden, hag.enc, hag.wps, hag.rsn, hag.wpa, r4⟩⟩

theorem sta_fresh_of_round (m : MKind) (hm : MKind.isSta m) (a : GArgs) (f : Frame)
    (h : StaRound m a (Spec.initialElems (sk (gk m)) (sa a)) f) :
    typeOk f m = true ∧ ∃ s, parseMgmt m f = .ok (.sta s) ∧ StaFresh m a s := by
  obtain ⟨ht, _, h3⟩ := h
  obtain ⟨s, hs, r1, r2, r3, r4, hag⟩ := h3 (initial_ne m (Or.inr hm) a)
  rw [staReport_fresh m hm a] at hag
  exact ⟨ht, s, hs, ⟨r1, r2, r3, hag.channel, hag.ssid, r4⟩⟩

/-- **C04 (round trip, R1, BSS side)** -/
theorem C04_round_bss_fresh (m : MKind) (hm : MKind.isBss m) (a : GArgs) (hs : (cstr a.ssid).length ≤ 255)
    (o : GObj) (bytes : Bytes) (hc : create (gk m) a = .ok (0, o)) (he : o.encoding = .ok bytes) :
    ∃ f b, classify false bytes = .ok f ∧ typeOk f m = true ∧ parseMgmt m f = .ok (.bss b) ∧ BssFresh m a b := by
  obtain ⟨f, hf, hr⟩ := C04_round_bss_history m hm a hs [] rfl (initial_noInner m a) o o [] bytes hc rfl he
  obtain ⟨ht, b, hb, hfr⟩ := bss_fresh_of_round m hm a f hr
  exact ⟨f, b, hf, ht, hb, hfr⟩

/-- **C04 (round trip, R1, station side)** -/
theorem C04_round_sta_fresh (m : MKind) (hm : MKind.isSta m) (a : GArgs) (hs : (cstr a.ssid).length ≤ 255)
    (o : GObj) (bytes : Bytes) (hc : create (gk m) a = .ok (0, o)) (he : o.encoding = .ok bytes) :
    ∃ f s, classify false bytes = .ok f ∧ typeOk f m = true ∧ parseMgmt m f = .ok (.sta s) ∧ StaFresh m a s := by
  obtain ⟨f, hf, hr⟩ := C04_round_sta_history m hm a hs [] rfl (initial_noInner m a) o o [] bytes hc rfl he
  obtain ⟨ht, s, hs', hfr⟩ := sta_fresh_of_round m hm a f hr
  exact ⟨f, s, hf, ht, hs', hfr⟩

/-- **C04 (round trip, R1, deauthentication / disassociation)** -/
theorem C04_round_reason_fresh (m : MKind) (hm : MKind.isReason m) (a : GArgs)
    (o : GObj) (bytes : Bytes) (hc : create (gk m) a = .ok (0, o)) (he : o.encoding = .ok bytes) :
    ∃ f, classify false bytes = .ok f ∧ typeOk f m = true ∧
      parseMgmt m f = .ok (.reason { ordered := false, header := hdr24 m a, reason := a.reason % 65536, tags := [] }) := by
  obtain ⟨f, hf, ht, hp⟩ := C04_round_reason_history m hm a [] rfl o o [] bytes hc rfl he
  have : (refRun (st0 (gk m) a) []).1 = [] := initial_reason m hm a
  rw [this] at hp
  exact ⟨f, hf, ht, hp⟩


/-! ## 4. R3: behind a generated radiotap header -/

/-- two classified frames that differ at most in the flags and the radiotap record -/
def SameFrame (f f' : Frame) : Prop :=
  f'.fc = f.fc ∧ f'.len = f.len ∧ f'.headerLen = f.headerLen ∧ f'.header = f.header ∧ f'.body = f.body

/-- the management parsers look at nothing else -/
theorem parseMgmt_same (k : MKind) (f f' : Frame) (h : SameFrame f f') :
    typeOk f' k = typeOk f k ∧ parseMgmt k f' = parseMgmt k f := by
  obtain ⟨fl, fc, len, hl, hdr, body, rt⟩ := f
  obtain ⟨fl', fc', len', hl', hdr', body', rt'⟩ := f'
  obtain ⟨h1, h2, h3, h4, h5⟩ := h
  simp only at h1 h2 h3 h4 h5
  subst h1 h2 h3 h4 h5
  exact ⟨rfl, rfl⟩

theorem BssRound.same {m : MKind} {a : GArgs} {es : List Elem} {f f' : Frame} (h : BssRound m a es f) (hs : SameFrame f f') :
    BssRound m a es f' := by
  obtain ⟨e1, e2⟩ := parseMgmt_same m f f' hs
  unfold BssRound
  rw [e1, e2]
  exact h

theorem StaRound.same {m : MKind} {a : GArgs} {es : List Elem} {f f' : Frame} (h : StaRound m a es f) (hs : SameFrame f f') :
    StaRound m a es f' := by
  obtain ⟨e1, e2⟩ := parseMgmt_same m f f' hs
  unfold StaRound
  rw [e1, e2]
  exact h

theorem ReasonRound.same {m : MKind} {a : GArgs} {es : List Elem} {f f' : Frame} (h : ReasonRound m a es f) (hs : SameFrame f f') :
    ReasonRound m a es f' := by
  obtain ⟨e1, e2⟩ := parseMgmt_same m f f' hs
  unfold ReasonRound
  rw [e1, e2]
  exact h

/-- a frame the classifier accepts bare is accepted behind the generated radiotap header (with the
four FCS octets exactly when the header announces them), as the same frame up to the flags -/
theorem classify_behind_radiotap (g : RtGen) (hc : C10.OnlyCarried g) (ha : g.antennaCount ≤ 16) (fr tail : Bytes)
    (htail : tail.length = if C02Full.announcesFcs g then 4 else 0) (f0 : Frame) (h0 : classify false fr = .ok f0) :
    ∃ f1, classify true (Spec.rtEncode (C10.descOf g) ++ fr ++ tail) = .ok f1 ∧ SameFrame f0 f1 ∧
      f1.flags = f0.flags ||| 8 ||| (if C02Full.announcesFcs g then 1 else 0) := by
  obtain ⟨_, h, _⟩ := C02Full.C10_prefix_invariance g hc ha fr tail htail
  obtain ⟨f1, info, h1, h2, h3, h4, h5, h6, h7, _⟩ := h f0 h0
  exact ⟨f1, h1, ⟨h4, h2, h3, h5, h6⟩, h7⟩


/-- **C04 (round trip, R3, BSS side, any admissible history)** -/
theorem C04_round_bss_history_rt (m : MKind) (hm : MKind.isBss m) (a : GArgs) (hs : (cstr a.ssid).length ≤ 255)
    (edits : List GEdit) (had : admissibleAll (gk m) (st0 (gk m) a) edits = true)
    (hne : noInnerEmpty (refRun (st0 (gk m) a) edits).1 = true)
    (o0 o : GObj) (rs : List Int) (bytes : Bytes)
    (hc : create (gk m) a = .ok (0, o0)) (hr : runEdits o0 edits = .ok (rs, o)) (he : o.encoding = .ok bytes)
    (g : RtGen) (hg : C10.OnlyCarried g) (ha : g.antennaCount ≤ 16) (tail : Bytes)
    (htail : tail.length = if C02Full.announcesFcs g then 4 else 0) :
    ∃ f, classify true (Spec.rtEncode (C10.descOf g) ++ bytes ++ tail) = .ok f ∧
      f.flags = 8 ||| (if C02Full.announcesFcs g then 1 else 0) ∧
      BssRound m a (refRun (st0 (gk m) a) edits).1 f := by
  obtain ⟨hb, hok⟩ := history_bytes m a hs edits had o0 o rs bytes hc hr he
  obtain ⟨f1, h1, hsame, hfl⟩ := classify_behind_radiotap g hg ha bytes tail htail _ (by rw [hb]; exact classify_gen m a _)
  exact ⟨f1, h1, by rw [hfl]; simp [genFrame], (bss_core m hm a _ hok hne).same hsame⟩

/-- **C04 (round trip, R3, station side, any admissible history)** -/
theorem C04_round_sta_history_rt (m : MKind) (hm : MKind.isSta m) (a : GArgs) (hs : (cstr a.ssid).length ≤ 255)
    (edits : List GEdit) (had : admissibleAll (gk m) (st0 (gk m) a) edits = true)
    (hne : noInnerEmpty (refRun (st0 (gk m) a) edits).1 = true)
    (o0 o : GObj) (rs : List Int) (bytes : Bytes)
    (hc : create (gk m) a = .ok (0, o0)) (hr : runEdits o0 edits = .ok (rs, o)) (he : o.encoding = .ok bytes)
    (g : RtGen) (hg : C10.OnlyCarried g) (ha : g.antennaCount ≤ 16) (tail : Bytes)
    (htail : tail.length = if C02Full.announcesFcs g then 4 else 0) :
    ∃ f, classify true (Spec.rtEncode (C10.descOf g) ++ bytes ++ tail) = .ok f ∧
      f.flags = 8 ||| (if C02Full.announcesFcs g then 1 else 0) ∧
      StaRound m a (refRun (st0 (gk m) a) edits).1 f := by
  obtain ⟨hb, hok⟩ := history_bytes m a hs edits had o0 o rs bytes hc hr he
  obtain ⟨f1, h1, hsame, hfl⟩ := classify_behind_radiotap g hg ha bytes tail htail _ (by rw [hb]; exact classify_gen m a _)
  exact ⟨f1, h1, by rw [hfl]; simp [genFrame], (sta_core m hm a _ hok hne).same hsame⟩

/-- **C04 (round trip, R3, deauthentication / disassociation, any admissible history)** -/
theorem C04_round_reason_history_rt (m : MKind) (hm : MKind.isReason m) (a : GArgs)
    (edits : List GEdit) (had : admissibleAll (gk m) (st0 (gk m) a) edits = true)
    (o0 o : GObj) (rs : List Int) (bytes : Bytes)
    (hc : create (gk m) a = .ok (0, o0)) (hr : runEdits o0 edits = .ok (rs, o)) (he : o.encoding = .ok bytes)
    (g : RtGen) (hg : C10.OnlyCarried g) (ha : g.antennaCount ≤ 16) (tail : Bytes)
    (htail : tail.length = if C02Full.announcesFcs g then 4 else 0) :
    ∃ f, classify true (Spec.rtEncode (C10.descOf g) ++ bytes ++ tail) = .ok f ∧
      f.flags = 8 ||| (if C02Full.announcesFcs g then 1 else 0) ∧
      ReasonRound m a (refRun (st0 (gk m) a) edits).1 f := by
  have hb := history_bytes_reason m hm a edits had o0 o rs bytes hc hr he
  obtain ⟨f1, h1, hsame, hfl⟩ := classify_behind_radiotap g hg ha bytes tail htail _ (by rw [hb]; exact classify_gen m a _)
  exact ⟨f1, h1, by rw [hfl]; simp [genFrame], (reason_core m hm a _).same hsame⟩


/-- **C04 (round trip, R3, BSS side, fresh)** -/
theorem C04_round_bss_fresh_rt (m : MKind) (hm : MKind.isBss m) (a : GArgs) (hs : (cstr a.ssid).length ≤ 255)
    (o : GObj) (bytes : Bytes) (hc : create (gk m) a = .ok (0, o)) (he : o.encoding = .ok bytes)
    (g : RtGen) (hg : C10.OnlyCarried g) (ha : g.antennaCount ≤ 16) (tail : Bytes)
    (htail : tail.length = if C02Full.announcesFcs g then 4 else 0) :
    ∃ f b, classify true (Spec.rtEncode (C10.descOf g) ++ bytes ++ tail) = .ok f ∧ typeOk f m = true ∧
      parseMgmt m f = .ok (.bss b) ∧ BssFresh m a b := by
  obtain ⟨f, hf, _, hr⟩ := C04_round_bss_history_rt m hm a hs [] rfl (initial_noInner m a) o o [] bytes hc rfl he g hg ha tail htail
  obtain ⟨ht, b, hb, hfr⟩ := bss_fresh_of_round m hm a f hr
  exact ⟨f, b, hf, ht, hb, hfr⟩

/-- **C04 (round trip, R3, station side, fresh)** -/
theorem C04_round_sta_fresh_rt (m : MKind) (hm : MKind.isSta m) (a : GArgs) (hs : (cstr a.ssid).length ≤ 255)
    (o : GObj) (bytes : Bytes) (hc : create (gk m) a = .ok (0, o)) (he : o.encoding = .ok bytes)
    (g : RtGen) (hg : C10.OnlyCarried g) (ha : g.antennaCount ≤ 16) (tail : Bytes)
    (htail : tail.length = if C02Full.announcesFcs g then 4 else 0) :
    ∃ f s, classify true (Spec.rtEncode (C10.descOf g) ++ bytes ++ tail) = .ok f ∧ typeOk f m = true ∧
      parseMgmt m f = .ok (.sta s) ∧ StaFresh m a s := by
  obtain ⟨f, hf, _, hr⟩ := C04_round_sta_history_rt m hm a hs [] rfl (initial_noInner m a) o o [] bytes hc rfl he g hg ha tail htail
  obtain ⟨ht, s, hs', hfr⟩ := sta_fresh_of_round m hm a f hr
  exact ⟨f, s, hf, ht, hs', hfr⟩

/-- **C04 (round trip, R3, deauthentication / disassociation, fresh)** -/
theorem C04_round_reason_fresh_rt (m : MKind) (hm : MKind.isReason m) (a : GArgs)
    (o : GObj) (bytes : Bytes) (hc : create (gk m) a = .ok (0, o)) (he : o.encoding = .ok bytes)
    (g : RtGen) (hg : C10.OnlyCarried g) (ha : g.antennaCount ≤ 16) (tail : Bytes)
    (htail : tail.length = if C02Full.announcesFcs g then 4 else 0) :
    ∃ f, classify true (Spec.rtEncode (C10.descOf g) ++ bytes ++ tail) = .ok f ∧ typeOk f m = true ∧
      parseMgmt m f = .ok (.reason { ordered := false, header := hdr24 m a, reason := a.reason % 65536, tags := [] }) := by
  obtain ⟨f, hf, _, ht, hp⟩ := C04_round_reason_history_rt m hm a [] rfl o o [] bytes hc rfl he g hg ha tail htail
  have : (refRun (st0 (gk m) a) []).1 = [] := initial_reason m hm a
  rw [this] at hp
  exact ⟨f, hf, ht, hp⟩

/-! ## the clause in one statement, over the generator kinds -/

theorem mkind_cases (m : MKind) : MKind.isBss m ∨ MKind.isSta m ∨ MKind.isReason m := by
  cases m <;> simp [MKind.isBss, MKind.isSta, MKind.isReason]

/-- what "the parser reports the arguments" means for a freshly generated frame of parser kind `m` -/
def FreshReport (m : MKind) (a : GArgs) (f : Frame) : Prop :=
  typeOk f m = true ∧
  (MKind.isBss m → ∃ b, parseMgmt m f = .ok (.bss b) ∧ BssFresh m a b) ∧
  (MKind.isSta m → ∃ s, parseMgmt m f = .ok (.sta s) ∧ StaFresh m a s) ∧
  (MKind.isReason m →
    parseMgmt m f = .ok (.reason { ordered := false, header := hdr24 m a, reason := a.reason % 65536, tags := [] }))

/-- **C04 (round trip)** a frame produced by any of the nine generators with a parser, classified
and handed to the parser of its subtype, reports the arguments it was generated from -/
theorem C04_round_fresh (k : GKind) (m : MKind) (hk : mkind k = some m) (a : GArgs) (hs : (cstr a.ssid).length ≤ 255)
    (o : GObj) (bytes : Bytes) (hc : create k a = .ok (0, o)) (he : o.encoding = .ok bytes) :
    ∃ f, classify false bytes = .ok f ∧ FreshReport m a f := by
  have := gk_of_mkind k m hk
  subst this
  rcases mkind_cases m with hm | hm | hm
  · obtain ⟨f, b, h1, h2, h3, h4⟩ := C04_round_bss_fresh m hm a hs o bytes hc he
    refine ⟨f, h1, h2, fun _ => ⟨b, h3, h4⟩, fun h => ?_, fun h => ?_⟩
    · rcases hm with rfl | rfl | rfl | rfl <;> rcases h with h | h | h <;> cases h
    · rcases hm with rfl | rfl | rfl | rfl <;> rcases h with h | h <;> cases h
  · obtain ⟨f, s, h1, h2, h3, h4⟩ := C04_round_sta_fresh m hm a hs o bytes hc he
    refine ⟨f, h1, h2, fun h => ?_, fun _ => ⟨s, h3, h4⟩, fun h => ?_⟩
    · rcases hm with rfl | rfl | rfl <;> rcases h with h | h | h | h <;> cases h
    · rcases hm with rfl | rfl | rfl <;> rcases h with h | h <;> cases h
  · obtain ⟨f, h1, h2, h3⟩ := C04_round_reason_fresh m hm a o bytes hc he
    refine ⟨f, h1, h2, fun h => ?_, fun h => ?_, fun _ => h3⟩
    · rcases hm with rfl | rfl <;> rcases h with h | h | h | h <;> cases h
    · rcases hm with rfl | rfl <;> rcases h with h | h | h <;> cases h

/-- the same behind a generated radiotap header (FCS octets appended exactly when announced) -/
theorem C04_round_fresh_rt (k : GKind) (m : MKind) (hk : mkind k = some m) (a : GArgs) (hs : (cstr a.ssid).length ≤ 255)
    (o : GObj) (bytes : Bytes) (hc : create k a = .ok (0, o)) (he : o.encoding = .ok bytes)
    (g : RtGen) (hg : C10.OnlyCarried g) (ha : g.antennaCount ≤ 16) (tail : Bytes)
    (htail : tail.length = if C02Full.announcesFcs g then 4 else 0) :
    ∃ f, classify true (Spec.rtEncode (C10.descOf g) ++ bytes ++ tail) = .ok f ∧ FreshReport m a f := by
  obtain ⟨f0, h0, hrep⟩ := C04_round_fresh k m hk a hs o bytes hc he
  obtain ⟨f1, h1, hsame, _⟩ := classify_behind_radiotap g hg ha bytes tail htail f0 h0
  obtain ⟨e1, e2⟩ := parseMgmt_same m f0 f1 hsame
  refine ⟨f1, h1, ?_⟩
  unfold FreshReport
  rw [e1, e2]
  exact hrep

/-- the generators never fail for these kinds, so the hypotheses of the theorems are met: `create`
returns 0 and an object whose dump is defined -/
theorem C04_round_nonvacuous (m : MKind) (a : GArgs) (hs : (cstr a.ssid).length ≤ 255) :
    ∃ o bytes, create (gk m) a = .ok (0, o) ∧ o.encoding = .ok bytes := by
  obtain ⟨o, h1, _, h3, _⟩ := C03_create (gk m) a hs
  exact ⟨o, _, h1, h3⟩

/-- the reported SSID array, spelled out: the first 32 octets of the C string, zero-filled to 33 -/
theorem ssidOf_eq (m : MKind) (hm : carriesSsid m = true) (a : GArgs) :
    ssidOf m a = (cstr a.ssid).take 32 ++ List.replicate (33 - min (cstr a.ssid).length 32) 0 := by
  unfold ssidOf Spec.overlay
  rw [if_pos hm, List.drop_replicate]


/-! ## 5. non-vacuity

The MODEL itself evaluated in the kernel on concrete arguments (independently of the theorems), the
theorems instantiated at the same arguments, and the side conditions shown to matter. -/

/-- create, run the edits, dump, classify (bare), parse -/
def roundTrip (m : MKind) (a : GArgs) (edits : List GEdit) : Outcome Parsed := do
  let (_, o0) ← create (gk m) a
  let (_, o) ← runEdits o0 edits
  let bs ← o.encoding
  let f ← classify false bs
  parseMgmt m f

/-- the same behind the radiotap header `createRadiotap g` writes, followed by `tail` -/
def roundTripRt (m : MKind) (a : GArgs) (edits : List GEdit) (g : RtGen) (tail : Bytes) : Outcome Parsed := do
  let (_, o0) ← create (gk m) a
  let (_, o) ← runEdits o0 edits
  let bs ← o.encoding
  let hdr ← createRadiotap g
  let f ← classify true (hdr ++ bs ++ tail)
  parseMgmt m f

/-- SSID "AB" (the C string stops at the NUL), channel 6 -/
def exArgs : GArgs :=
  { a1 := [0xff, 0xff, 0xff, 0xff, 0xff, 0xff], a2 := [2, 0, 0, 0, 0, 1], a3 := [2, 0, 0, 0, 0, 2], ssid := [0x41, 0x42, 0, 0x43], ch := 6, reason := 7, clk := ⟨5, 1000⟩ }

example : roundTrip .beacon exArgs [] =
    .ok (.bss { receiver := [0xff, 0xff, 0xff, 0xff, 0xff, 0xff], transmitter := [2, 0, 0, 0, 0, 1], bssid := [2, 0, 0, 0, 0, 2],
                ssid := [0x41, 0x42] ++ List.replicate 31 0, hidden := 0, channel := 6, wps := 0, enc := 0,
                tags := [0, 2, 0x41, 0x42, 3, 1, 6] }) := by decide +kernel

example : roundTrip .probeReq exArgs [] =
    .ok (.sta { transmitter := [2, 0, 0, 0, 0, 1], bssid := [2, 0, 0, 0, 0, 2], randomized := 1,
                ssid := [0x41, 0x42] ++ List.replicate 31 0, channel := 6, tags := [0, 2, 0x41, 0x42, 3, 1, 6] }) := by decide +kernel

example : roundTrip .deauth exArgs [] =
    .ok (.reason { ordered := false, reason := 7, tags := [],
                   header := [0xc0, 0, 0, 0, 0xff, 0xff, 0xff, 0xff, 0xff, 0xff, 2, 0, 0, 0, 0, 1, 2, 0, 0, 0, 0, 2, 0, 0] }) := by
  decide +kernel

/-- behind a radiotap header announcing an FCS -/
example : roundTripRt .probeReq exArgs [] { present := 2, flags := 0x10 } [1, 2, 3, 4] = roundTrip .probeReq exArgs [] := by
  decide +kernel

/-- the theorems at the same arguments -/
example : ∃ o bytes f b, create .beacon exArgs = .ok (0, o) ∧ o.encoding = .ok bytes ∧ classify false bytes = .ok f ∧
    parseMgmt .beacon f = .ok (.bss b) ∧ b.channel = 6 ∧ b.ssid = [0x41, 0x42] ++ List.replicate 31 0 ∧ b.hidden = 0 ∧
    b.transmitter = [2, 0, 0, 0, 0, 1] ∧ b.enc = 0 ∧ b.tags = [0, 2, 0x41, 0x42, 3, 1, 6] := by
  obtain ⟨o, bytes, hc, he⟩ := C04_round_nonvacuous .beacon exArgs (by decide)
  obtain ⟨f, b, h1, _, h3, hfr⟩ := C04_round_bss_fresh .beacon (Or.inl rfl) exArgs (by decide) o bytes hc he
  exact ⟨o, bytes, f, b, hc, he, h1, h3, hfr.channel, by rw [hfr.ssid]; decide +kernel, by rw [hfr.hidden]; decide +kernel,
    hfr.transmitter, hfr.enc, by rw [hfr.tags]; decide +kernel⟩

example : ∃ o bytes f s, create .probeReq exArgs = .ok (0, o) ∧ o.encoding = .ok bytes ∧
    classify true (Spec.rtEncode (C10.descOf { present := 2, flags := 0x10 }) ++ bytes ++ [1, 2, 3, 4]) = .ok f ∧
    parseMgmt .probeReq f = .ok (.sta s) ∧ s.channel = 6 ∧ s.ssid = [0x41, 0x42] ++ List.replicate 31 0 ∧
    s.transmitter = [2, 0, 0, 0, 0, 1] := by
  obtain ⟨o, bytes, hc, he⟩ := C04_round_nonvacuous .probeReq exArgs (by decide)
  obtain ⟨f, s, h1, _, h3, hfr⟩ := C04_round_sta_fresh_rt .probeReq (Or.inl rfl) exArgs (by decide) o bytes hc he
    { present := 2, flags := 0x10 } (C10.onlyCarried_of_subset _ (by decide)) (by decide) [1, 2, 3, 4] (by decide)
  exact ⟨o, bytes, f, s, hc, he, h1, h3, hfr.channel, by rw [hfr.ssid]; decide +kernel, hfr.transmitter⟩

/-- a history: WPS vendor element added, SSID replaced, channel replaced -/
def exEdits : List GEdit :=
  [.tag (.add 221 [0x00, 0x50, 0xf2, 4, 0x10, 0x4a]), .tag (.setSsid [0x58, 0x59, 0x5a]), .tag (.setChannel 11)]

example : admissibleAll .beacon (st0 .beacon exArgs) exEdits = true ∧
    noInnerEmpty (refRun (st0 .beacon exArgs) exEdits).1 = true ∧
    (Spec.bssReport false (refRun (st0 .beacon exArgs) exEdits).1).map (fun r => (r.ssid.take 4, r.hidden, r.channel, r.wps, r.enc)) =
      some ([0x58, 0x59, 0x5a, 0], 0, 11, 1, 0) := by decide +kernel

example : roundTrip .beacon exArgs exEdits =
    .ok (.bss { receiver := [0xff, 0xff, 0xff, 0xff, 0xff, 0xff], transmitter := [2, 0, 0, 0, 0, 1], bssid := [2, 0, 0, 0, 0, 2],
                ssid := [0x58, 0x59, 0x5a] ++ List.replicate 30 0, hidden := 0, channel := 11, wps := 1, enc := 0,
                tags := [221, 6, 0x00, 0x50, 0xf2, 4, 0x10, 0x4a, 0, 3, 0x58, 0x59, 0x5a, 3, 1, 11] }) := by decide +kernel

/-- the refusal clauses occur: an RSN element too short for its counts, and a frame whose last element
was removed, are generated without complaint and refused by the parser -/
example : admissibleAll .beacon (st0 .beacon exArgs) [.tag (.add 48 [1, 0])] = true ∧
    noInnerEmpty (refRun (st0 .beacon exArgs) [.tag (.add 48 [1, 0])]).1 = true ∧
    Spec.bssReport false (refRun (st0 .beacon exArgs) [.tag (.add 48 [1, 0])]).1 = none ∧
    roundTrip .beacon exArgs [.tag (.add 48 [1, 0])] = .err (-EINVAL) := by decide +kernel

example : admissibleAll .reassocResp (st0 .reassocResp exArgs) [.tag (.remove 3)] = true ∧
    (refRun (st0 .reassocResp exArgs) [.tag (.remove 3)]).1 = [] ∧
    roundTrip .reassocResp exArgs [.tag (.remove 3)] = .err (-EINVAL) := by decide +kernel

/-- the side condition `noInnerEmpty` is necessary: behind an inner empty element the parser's
iterator stops, so the appended DS element (channel 11) is generated but not reported -/
example : admissibleAll .beacon (st0 .beacon exArgs) [.tag (.add 7 []), .tag (.add 3 [11])] = true ∧
    noInnerEmpty (refRun (st0 .beacon exArgs) [.tag (.add 7 []), .tag (.add 3 [11])]).1 = false ∧
    (Spec.bssReport false (refRun (st0 .beacon exArgs) [.tag (.add 7 []), .tag (.add 3 [11])]).1).map (·.channel) = some 11 ∧
    roundTrip .beacon exArgs [.tag (.add 7 []), .tag (.add 3 [11])] =
      .ok (.bss { receiver := [0xff, 0xff, 0xff, 0xff, 0xff, 0xff], transmitter := [2, 0, 0, 0, 0, 1], bssid := [2, 0, 0, 0, 0, 2],
                  ssid := [0x41, 0x42] ++ List.replicate 31 0, hidden := 0, channel := 6, wps := 0, enc := 0,
                  tags := [0, 2, 0x41, 0x42, 3, 1, 6, 7, 0, 3, 1, 11] }) := by decide +kernel

end LWV.Props.C04Round
