import LWV.Props.C01
import LWV.Props.C04
/-
C04 (positive clause) and C08 (frame-level summary) — the management parsers report exactly what
the declarative Spec says, for EVERY frame of the parser's own subtype.

  1. `enumerateRsn_eq`, `enumerateWpa_eq`    the compiled suite enumeration = the Spec's flag tables
  2. `bssElem_step`                           one element through the parser's `switch` = the Spec's step
  3. `foldElems_agrees`, `walkTags_agrees`    the whole element loop = the Spec's fold
  4. `C04_parse_bss`, `C04_parse_sta`, `C04_parse_reason`   the nine parsers, frame level
     `C08_summary`, `C08_summary_plain`       what the security summary says about the visible elements
     `C04_parse_statement_holds`              the statement left open in Props/C04.lean

The Spec folds over (number, body) pairs, the model over the offsets the iterator reports; `elemOf`
converts, `visibleElems tags` is what the iterator shows (C06), `parseAt_map` / `visible_all` link it
to the greedy parse `Spec.parse`.
-/
namespace LWV.Props.C04Full
open LWV LWV.Model LWV.Props.C08

/-! ## 1. enumeration = Spec flags -/

theorem foldl_or_init (l : List Nat) (a : Nat) :
    l.foldl (· ||| ·) a = a ||| l.foldl (· ||| ·) 0 := by
  induction l generalizing a with
  | nil => simp
  | cons x t ih =>
    simp only [List.foldl_cons]
    rw [ih (a ||| x), ih (0 ||| x), Nat.zero_or, Nat.or_assoc]

theorem orAll_cons (x : Nat) (l : List Nat) : Spec.orAll (x :: l) = x ||| Spec.orAll l := by
  unfold Spec.orAll
  rw [List.foldl_cons, foldl_or_init, Nat.zero_or]

theorem foldl_or {α} (f : α → Nat) (l : List α) (a : Nat) :
    l.foldl (fun acc s => acc ||| f s) a = a ||| Spec.orAll (l.map f) := by
  induction l generalizing a with
  | nil => simp [Spec.orAll]
  | cons x t ih =>
    rw [List.foldl_cons, ih, List.map_cons, orAll_cons, Nat.or_assoc]

/-- `lookup` as `find?` -/
theorem lookup_eq_find (t : List (Nat × Nat)) (ty : Nat) :
    t.lookup ty = (t.find? (fun e => e.1 == ty)).map (·.2) := by
  induction t with
  | nil => rfl
  | cons x t ih =>
    obtain ⟨k, b⟩ := x
    rw [List.lookup_cons, List.find?_cons]
    by_cases h : k = ty
    · subst h; simp
    · have h1 : (ty == k) = false := by simp; exact fun e => h e.symm
      have h2 : (k == ty) = false := by simp [h]
      simp only [h1, h2, ih]

/-- one block of an enumeration table: `find?` either skips it (other position / OUI class) or
searches the block's keys -/
theorem find_block {β} (pos k pos' k' ty : Nat) (key g : β → Nat) (t : List β) :
    (t.map (fun e => (pos, k, key e, g e))).find? (fun e => e.1 == pos' && e.2.1 == k' && e.2.2.1 == ty) =
      if pos = pos' ∧ k = k' then (t.find? (fun e => key e == ty)).map (fun e => (pos, k, key e, g e)) else none := by
  rw [List.find?_map]
  by_cases h : pos = pos' ∧ k = k'
  · obtain ⟨rfl, rfl⟩ := h
    simp [Function.comp_def]
  · rw [if_neg h]
    simp only [Option.map_eq_none_iff, List.find?_eq_none, Function.comp_def]
    intro x _
    simp only [Bool.and_eq_true, beq_iff_eq]
    intro h1; exact absurd h1.1 h

theorem find_val (pos k ty : Nat) (g : Nat × Nat → Nat) (t : List (Nat × Nat)) :
    (((t.find? (fun e => e.1 == ty)).map (fun e => (pos, k, e.1, g e))).map (·.2.2.2)).getD 0 =
    ((t.lookup ty).map (fun b => g (ty, b))).getD 0 := by
  rw [lookup_eq_find]
  cases h : t.find? (fun e => e.1 == ty) with
  | none => rfl
  | some e =>
    have := List.find?_some h
    obtain ⟨a, b⟩ := e
    simp only [beq_iff_eq] at this
    subst this
    rfl

theorem enumLookup_eq (table : List (Nat × Nat × Nat × Nat)) (pos : Nat) (s : Suite) :
    enumLookup table pos s =
      ((table.find? (fun e => e.1 == pos && e.2.1 == ouiKind s.oui && e.2.2.1 == s.ty)).map (·.2.2.2)).getD 0 := by
  unfold enumLookup
  split <;> simp [*]

theorem ouiKind_eq (oui : Bytes) :
    ouiKind oui = if oui = Spec.ieeeOui then 0 else if oui = Spec.msOui then 1 else 2 := by
  obtain ⟨_, _, h1, h2, _⟩ := C08_tables
  unfold ouiKind; rw [h1, h2]

theorem enumLookup_rsn (pos : Nat) (s : Suite) :
    enumLookup Gen.rsnEnum pos s =
      if s.oui = Spec.ieeeOui then
        (if pos = 0 then Spec.lookupBit Spec.rsnGroupBit s.ty
         else if pos = 1 then Spec.lookupBit Spec.rsnPairwiseBit s.ty
         else if pos = 2 then (match Spec.akmBit.lookup s.ty with
            | some b => Spec.bit b ||| Spec.bit (Spec.rsnGeneration s.ty) | none => 0)
         else 0)
      else 0 := by
  rw [C08_tables.1, enumLookup_eq]
  unfold rsnExpected
  rw [List.find?_append, List.find?_append, find_block, find_block, find_block, ouiKind_eq]
  by_cases ho : s.oui = Spec.ieeeOui
  · simp only [ho, if_true, and_true]
    by_cases h0 : pos = 0
    · subst h0
      simp only [if_true, Nat.succ_ne_zero, if_false, Option.or_none]
      rw [find_val 0 0 s.ty (fun e => Spec.bit e.2)]
      unfold Spec.lookupBit
      cases List.lookup s.ty Spec.rsnGroupBit <;> rfl
    · by_cases h1 : pos = 1
      · subst h1
        simp only [if_true, Nat.succ_ne_zero, Nat.zero_ne_one, Nat.reduceEqDiff, if_false, Option.or_none, Option.none_or]
        rw [find_val 1 0 s.ty (fun e => Spec.bit e.2)]
        unfold Spec.lookupBit
        cases List.lookup s.ty Spec.rsnPairwiseBit <;> rfl
      · by_cases h2 : pos = 2
        · subst h2
          simp only [if_true, Nat.succ_ne_zero, Nat.reduceEqDiff, if_false, Option.or_none, Option.none_or]
          rw [find_val 2 0 s.ty (fun e => Spec.bit e.2 ||| Spec.bit (Spec.rsnGeneration e.1))]
          cases List.lookup s.ty Spec.akmBit <;> rfl
        · have e0 : ¬ 0 = pos := fun e => h0 e.symm
          have e1 : ¬ 1 = pos := fun e => h1 e.symm
          have e2 : ¬ 2 = pos := fun e => h2 e.symm
          simp only [h0, h1, h2, e0, e1, e2, if_false, Option.or_none, Option.map_none, Option.getD_none]
  · have : ¬ (0 = if s.oui = Spec.msOui then 1 else 2) := by split <;> omega
    simp only [ho, if_false, this, and_false, Option.or_none, Option.map_none, Option.getD_none]

theorem find_self (l : List Nat) (ty : Nat) :
    l.find? (fun e => e == ty) = if ty ∈ l then some ty else none := by
  induction l with
  | nil => simp
  | cons x t ih =>
    rw [List.find?_cons]
    by_cases h : x = ty
    · subst h; simp
    · have h2 : (x == ty) = false := by simp [h]
      have h3 : ¬ ty = x := fun e => h e.symm
      simp only [h2, ih, List.mem_cons, h3, false_or]

theorem wpaAkm_val (ty : Nat) (h : ty ∈ Spec.wpaAkmSel) :
    Spec.lookupBit Spec.akmBit ty ||| Spec.bit 2 =
      (match Spec.akmBit.lookup ty with | some b => Spec.bit b ||| Spec.bit 2 | none => 0) := by
  simp only [Spec.wpaAkmSel, List.mem_cons, List.not_mem_nil, or_false] at h
  rcases h with rfl | rfl | rfl | rfl | rfl <;> rfl

theorem enumLookup_wpa (pos : Nat) (s : Suite) :
    enumLookup Gen.wpaEnum pos s =
      if s.oui = Spec.msOui then
        (if pos = 0 then Spec.lookupBit Spec.wpaMulticastBit s.ty
         else if pos = 1 then Spec.lookupBit Spec.wpaUnicastBit s.ty
         else if pos = 2 then
           (if s.ty ∈ Spec.wpaAkmSel then
             (match Spec.akmBit.lookup s.ty with | some b => Spec.bit b ||| Spec.bit 2 | none => 0) else 0)
         else 0)
      else 0 := by
  rw [C08_tables.2.1, enumLookup_eq]
  unfold wpaExpected
  have hb := find_block 2 1 pos (ouiKind s.oui) s.ty id
    (fun s => Spec.lookupBit Spec.akmBit s ||| Spec.bit 2) Spec.wpaAkmSel
  simp only [id] at hb
  rw [List.find?_append, List.find?_append, find_block, find_block, hb, ouiKind_eq]
  have hne : Spec.msOui ≠ Spec.ieeeOui := by decide
  by_cases ho : s.oui = Spec.msOui
  · have ho' : ¬ s.oui = Spec.ieeeOui := by rw [ho]; exact hne
    simp only [ho, hne, if_true, if_false, and_true]
    by_cases h0 : pos = 0
    · subst h0
      simp only [if_true, Nat.succ_ne_zero, if_false, Option.or_none]
      rw [find_val 0 1 s.ty (fun e => Spec.bit e.2)]
      unfold Spec.lookupBit
      cases List.lookup s.ty Spec.wpaMulticastBit <;> rfl
    · by_cases h1 : pos = 1
      · subst h1
        simp only [if_true, Nat.succ_ne_zero, Nat.zero_ne_one, Nat.reduceEqDiff, if_false, Option.or_none, Option.none_or]
        rw [find_val 1 1 s.ty (fun e => Spec.bit e.2)]
        unfold Spec.lookupBit
        cases List.lookup s.ty Spec.wpaUnicastBit <;> rfl
      · by_cases h2 : pos = 2
        · subst h2
          simp only [if_true, Nat.succ_ne_zero, Nat.reduceEqDiff, if_false, Option.or_none, Option.none_or]
          rw [find_self]
          by_cases hm : s.ty ∈ Spec.wpaAkmSel
          · simp only [hm, if_true, Option.map_some, Option.getD_some]
            exact wpaAkm_val s.ty hm
          · simp only [hm, if_false, Option.map_none, Option.getD_none]
        · have e0 : ¬ 0 = pos := fun e => h0 e.symm
          have e1 : ¬ 1 = pos := fun e => h1 e.symm
          have e2 : ¬ 2 = pos := fun e => h2 e.symm
          simp only [h0, h1, h2, e0, e1, e2, if_false, Option.or_none, Option.map_none, Option.getD_none]
  · have : ¬ (1 = if s.oui = Spec.ieeeOui then 0 else 2) := by
      split <;> omega
    simp only [ho, if_false, this, and_false, Option.or_none, Option.map_none, Option.getD_none]

/-- the correspondence `C08_rsn_decode` establishes between the stored and the declarative decode -/
def RsnRel (i : RsnInfo) (d : Spec.RsnDecoded) : Prop :=
  i.version = d.version ∧ toSel i.group = d.group ∧ i.pairwise.map toSel = d.pairwise ∧
    i.akms.map toSel = d.akms ∧ i.caps = d.caps

def WpaRel (i : WpaInfo) (d : Spec.WpaDecoded) : Prop :=
  i.version = d.version ∧ toSel i.multicast = d.multicast ∧ i.unicast.map toSel = d.unicast ∧
    i.akms.map toSel = d.akms

/-- **C08 (enumeration, RSN)** the flags the compiled enumeration routine ORs into the summary
are the Spec's flags of the decoded element — for arbitrary suite lists and selector values -/
theorem enumerateRsn_eq (i : RsnInfo) (d : Spec.RsnDecoded) (h : RsnRel i d) :
    enumerateRsn i = Spec.rsnFlags d := by
  obtain ⟨_, hg, hp, ha, _⟩ := h
  unfold enumerateRsn Spec.rsnFlags
  rw [foldl_or, foldl_or, ← hg, ← hp, ← ha, List.map_map, List.map_map]
  congr 1
  · congr 1
    · rw [enumLookup_rsn]; rfl
    · congr 1
      apply List.map_congr_left
      intro s _
      rw [enumLookup_rsn]; rfl
  · congr 1
    apply List.map_congr_left
    intro s _
    rw [enumLookup_rsn]; rfl

theorem enumerateWpa_eq (i : WpaInfo) (d : Spec.WpaDecoded) (h : WpaRel i d) :
    enumerateWpa i = Spec.wpaFlags d := by
  obtain ⟨_, hg, hp, ha⟩ := h
  unfold enumerateWpa Spec.wpaFlags
  rw [foldl_or, foldl_or, ← hg, ← hp, ← ha, List.map_map, List.map_map]
  congr 1
  · congr 1
    · rw [enumLookup_wpa]; rfl
    · congr 1
      apply List.map_congr_left
      intro s _
      rw [enumLookup_wpa]; rfl
  · congr 1
    apply List.map_congr_left
    intro s _
    rw [enumLookup_wpa]
    simp only [Function.comp, toSel]
    by_cases ho : s.oui = Spec.msOui <;> by_cases hm : s.ty ∈ Spec.wpaAkmSel <;> simp [ho, hm] <;> rfl

/-! ## 2. one element -/

def elemOf (tags : Bytes) (e : Spec.ElemAt) : Spec.Elem := ⟨e.num, (tags.drop (e.off + 2)).take e.len⟩

/-- the Spec's per-element step (the lambda of `Spec.bssReport`), with the number match written as a chain of tests -/
def specStep (r : Spec.BssReport) (e : Spec.Elem) : Option Spec.BssReport :=
  if e.num.toNat = 0 then
    some { r with ssid := Spec.overlay r.ssid e.body, hidden := if e.body.isEmpty ∨ (e.body.take 32).all (· == 0) then 1 else 0 }
  else if e.num.toNat = 3 ∨ e.num.toNat = 61 then
    some (if e.body.isEmpty then r else { r with channel := (e.body.getD 0 0).toNat })
  else if e.num.toNat = 48 then
    (Spec.rsnDecode e.body).map fun d => { r with enc := (if r.enc = 2 then 0 else r.enc) ||| Spec.rsnFlags d, rsn := some d }
  else if e.num.toNat = 221 then
    if e.body.length ≥ 4 ∧ e.body.take 3 = Spec.msOui then
      if (e.body.getD 3 0).toNat = 1 then
        (Spec.wpaDecode (e.body.drop 4)).map fun d =>
          { r with enc := ((if r.enc = 2 then 0 else r.enc) ||| 4) ||| Spec.wpaFlags d, wpa := some d }
      else if (e.body.getD 3 0).toNat = 4 then some { r with wps := 1 }
      else some r
    else some r
  else some r

def specInit (privacy : Bool) : Spec.BssReport :=
  { ssid := List.replicate 33 0, hidden := 0, channel := 0, wps := 0, enc := if privacy then 2 else 0, rsn := none, wpa := none }

theorem bssReport_eq (privacy : Bool) (es : List Spec.Elem) :
    Spec.bssReport privacy es = es.foldl (fun acc e => acc.bind fun r => specStep r e) (some (specInit privacy)) := by
  unfold Spec.bssReport specInit
  congr 1
  funext acc e
  congr 1
  funext r
  unfold specStep
  split
  · rename_i h; simp [h]
  · rename_i h; simp [h]
  · rename_i h; simp [h]
  · rename_i h; simp [h]
  · rename_i h
    simp only [h, Nat.reduceEqDiff, or_self, if_false, if_true]
    by_cases hc : e.body.length ≥ 4 ∧ e.body.take 3 = Spec.msOui
    · simp only [hc, and_self, if_true]
      split
      · rename_i h1; rw [if_pos h1]
      · rename_i h1; rw [if_neg (by rw [h1]; decide), if_pos h1]
      · rename_i h1 h4; rw [if_neg h1, if_neg h4]
    · simp only [hc, if_false]
  · rename_i h0 h3 h61 h48 h221
    rw [if_neg h0, if_neg (fun h => h.elim h3 h61), if_neg h48, if_neg h221]

/-! the WEP bit is never contributed by an RSN / WPA element -/

theorem or_and_two (a b : Nat) : (a ||| b) &&& 2 = 0 ↔ a &&& 2 = 0 ∧ b &&& 2 = 0 := by
  rw [Nat.and_or_distrib_right, Nat.or_eq_zero_iff]

theorem lookupBit_noWep (t : List (Nat × Nat)) (ht : ∀ e ∈ t, Spec.bit e.2 &&& 2 = 0) (ty : Nat) :
    Spec.lookupBit t ty &&& 2 = 0 := by
  unfold Spec.lookupBit
  rw [lookup_eq_find]
  cases h : t.find? (fun e => e.1 == ty) with
  | none => exact Nat.zero_and 2
  | some e => exact ht e (List.mem_of_find?_eq_some h)

theorem orAll_noWep {α} (f : α → Nat) (hf : ∀ x, f x &&& 2 = 0) (l : List α) : Spec.orAll (l.map f) &&& 2 = 0 := by
  induction l with
  | nil => exact Nat.zero_and 2
  | cons x t ih => rw [List.map_cons, orAll_cons, or_and_two]; exact ⟨hf x, ih⟩

theorem tables_noWep :
    (∀ e ∈ Spec.rsnGroupBit, Spec.bit e.2 &&& 2 = 0) ∧ (∀ e ∈ Spec.rsnPairwiseBit, Spec.bit e.2 &&& 2 = 0) ∧
    (∀ e ∈ Spec.akmBit, Spec.bit e.2 &&& 2 = 0) ∧ (∀ e ∈ Spec.wpaMulticastBit, Spec.bit e.2 &&& 2 = 0) ∧
    (∀ e ∈ Spec.wpaUnicastBit, Spec.bit e.2 &&& 2 = 0) := by decide

theorem akm_noWep (g : Nat → Nat) (hg : ∀ ty, Spec.bit (g ty) &&& 2 = 0) (ty : Nat) :
    (match Spec.akmBit.lookup ty with | some b => Spec.bit b ||| Spec.bit (g ty) | none => 0) &&& 2 = 0 := by
  have := lookupBit_noWep Spec.akmBit tables_noWep.2.2.1 ty
  unfold Spec.lookupBit at this
  cases h : Spec.akmBit.lookup ty with
  | none => exact Nat.zero_and 2
  | some b =>
    rw [h] at this
    simp only at this ⊢
    rw [or_and_two]; exact ⟨this, hg ty⟩

theorem rsnFlags_noWep (d : Spec.RsnDecoded) : Spec.rsnFlags d &&& 2 = 0 := by
  obtain ⟨hg, hp, ha, _, _⟩ := tables_noWep
  unfold Spec.rsnFlags
  rw [or_and_two, or_and_two]
  refine ⟨⟨?_, ?_⟩, ?_⟩
  · split
    · exact lookupBit_noWep _ hg _
    · exact Nat.zero_and 2
  · apply orAll_noWep
    intro s; split
    · exact lookupBit_noWep _ hp _
    · exact Nat.zero_and 2
  · apply orAll_noWep
    intro s; split
    · exact akm_noWep Spec.rsnGeneration (fun ty => by unfold Spec.rsnGeneration; split <;> decide) s.ty
    · exact Nat.zero_and 2

theorem wpaFlags_noWep (d : Spec.WpaDecoded) : Spec.wpaFlags d &&& 2 = 0 := by
  obtain ⟨_, _, _, hg, hp⟩ := tables_noWep
  unfold Spec.wpaFlags
  rw [or_and_two, or_and_two]
  refine ⟨⟨?_, ?_⟩, ?_⟩
  · split
    · exact lookupBit_noWep _ hg _
    · exact Nat.zero_and 2
  · apply orAll_noWep
    intro s; split
    · exact lookupBit_noWep _ hp _
    · exact Nat.zero_and 2
  · apply orAll_noWep
    intro s; split
    · exact akm_noWep (fun _ => 2) (fun _ => by decide) s.ty
    · exact Nat.zero_and 2

/-! handlers -/

theorem handleSsid_eq (old data : Bytes) :
    handleSsid old data = (Spec.overlay old data, if data.isEmpty ∨ (data.take 32).all (· == 0) then 1 else 0) := by
  have ht : data.take (min data.length 32) = data.take 32 := by
    rw [List.take_eq_take_iff]; omega
  have he : data.length = 0 ↔ data.isEmpty = true := by
    rw [List.isEmpty_iff_length_eq_zero]
  unfold handleSsid Spec.overlay
  simp only [ht, he]

theorem clearWep_eq (enc : Nat) (h : enc = 2 ∨ enc &&& 2 = 0) :
    clearWep enc = (if enc = 2 then 0 else enc) ∧ clearWep enc &&& 2 = 0 := by
  have hw : WEP = 2 := C08_tables.2.2.2.2.2.2.2.1
  unfold clearWep
  rw [hw]
  rcases h with rfl | h
  · decide
  · have hne : enc ≠ 2 := by intro e; rw [e] at h; exact absurd h (by decide)
    simp only [h, ne_eq, not_true_eq_false, if_false, hne, and_self]

theorem tagConsts : tagSsidN = 0 ∧ tagDsN = 3 ∧ tagHtOp = 61 ∧ tagRsn = 48 ∧ tagVendor = 221 := by
  obtain ⟨_, _, _, _, _, _, _, _, _, _, _, h⟩ := C04.C04_consts
  exact h

/-- the parser's record agrees with the declarative report -/
structure Agrees (b : Bss) (r : Spec.BssReport) : Prop where
  ssid : b.ssid = r.ssid
  hidden : b.hidden = r.hidden
  channel : b.channel = r.channel
  wps : b.wps = r.wps
  enc : b.enc = r.enc
  rsn : match r.rsn with | some d => RsnRel b.rsn d | none => b.rsn = {}
  wpa : match r.wpa with | some d => WpaRel b.wpa d | none => b.wpa = {}
  /-- the WEP flag is set only while it is the whole summary -/
  inv : r.enc = 2 ∨ r.enc &&& 2 = 0

/-- the fields the element handlers never touch -/
def SameEnvelope (b b' : Bss) : Prop :=
  b'.receiver = b.receiver ∧ b'.transmitter = b.transmitter ∧ b'.bssid = b.bssid ∧ b'.tags = b.tags

theorem bssElem_step (tags : Bytes) (b : Bss) (r : Spec.BssReport) (e : Spec.ElemAt)
    (he : e.off + 2 + e.len ≤ tags.length) (ha : Agrees b r) :
    match specStep r (elemOf tags e) with
    | none => bssElem tags b e = .err (-EINVAL)
    | some r' => ∃ b', bssElem tags b e = .ok b' ∧ Agrees b' r' ∧ SameEnvelope b b' := by
  obtain ⟨t0, t3, t61, t48, t221⟩ := tagConsts
  obtain ⟨_, _, _, hM, hWpaTy, hWpsTy, _, _, hWpa, _⟩ := C08_tables
  have hWPA : WPA = 4 := hWpa
  unfold bssElem
  rw [C12.rdSlice_ok _ _ _ _ he]
  simp only [Outcome.bind_ok, t0, t3, t61, t48, t221, hM, hWpaTy, hWpsTy, hWPA]
  have hlen : ((tags.drop (e.off + 2)).take e.len).length = e.len := by
    simp only [List.length_take, List.length_drop]; omega
  unfold specStep elemOf
  simp only
  generalize (tags.drop (e.off + 2)).take e.len = body at hlen
  have henv : ∀ b' : Bss, b'.receiver = b.receiver → b'.transmitter = b.transmitter → b'.bssid = b.bssid →
      b'.tags = b.tags → SameEnvelope b b' := fun _ h1 h2 h3 h4 => ⟨h1, h2, h3, h4⟩
  by_cases h0 : e.num.toNat = 0
  · simp only [h0, if_true, handleSsid_eq]
    refine ⟨_, rfl, ?_, henv _ rfl rfl rfl rfl⟩
    exact ⟨by rw [ha.ssid], rfl, ha.channel, ha.wps, ha.enc, ha.rsn, ha.wpa, ha.inv⟩
  simp only [h0, if_false]
  by_cases h3 : e.num.toNat = 3 ∨ e.num.toNat = 61
  · simp only [h3, if_true]
    by_cases hl : e.len ≥ 1
    · have : body.isEmpty = false := by
        cases body with
        | nil => simp at hlen; omega
        | cons _ _ => rfl
      simp only [hl, if_true, this, Bool.false_eq_true, if_false]
      refine ⟨_, rfl, ?_, henv _ rfl rfl rfl rfl⟩
      exact ⟨ha.ssid, ha.hidden, rfl, ha.wps, ha.enc, ha.rsn, ha.wpa, ha.inv⟩
    · have : body.isEmpty = true := by
        cases body with
        | nil => rfl
        | cons _ _ => simp at hlen; omega
      simp only [hl, if_false, this, if_true]
      exact ⟨_, rfl, ha, henv _ rfl rfl rfl rfl⟩
  simp only [h3, if_false]
  obtain ⟨hcw, hcw2⟩ := clearWep_eq r.enc ha.inv
  have hbe : b.enc = r.enc := ha.enc
  by_cases h48 : e.num.toNat = 48
  · simp only [h48, if_true]
    have hdec := C08_rsn_decode body
    cases hd : Spec.rsnDecode body with
    | none =>
      rw [hd] at hdec
      simp only at hdec
      simp only [Option.map_none, hdec]
      split <;> rfl
    | some d =>
      rw [hd] at hdec
      obtain ⟨i, hi, hrel⟩ := hdec
      have h8 : ¬ e.len < 6 := by
        unfold Spec.rsnDecode at hd
        split at hd
        · cases hd
        · omega
      simp only [Option.map_some, h8, if_false, hi]
      refine ⟨_, rfl, ?_, henv _ rfl rfl rfl rfl⟩
      refine ⟨ha.ssid, ha.hidden, ha.channel, ha.wps, ?_, hrel, ha.wpa, Or.inr ?_⟩
      · show clearWep b.enc ||| enumerateRsn i = _
        rw [hbe, hcw, enumerateRsn_eq i d hrel]
      · show ((if r.enc = 2 then 0 else r.enc) ||| Spec.rsnFlags d) &&& 2 = 0
        rw [← hcw, or_and_two]
        exact ⟨hcw2, rsnFlags_noWep d⟩
  simp only [h48, if_false]
  by_cases h221 : e.num.toNat = 221
  · simp only [h221, if_true, ← hlen]
    by_cases hc : body.length ≥ 4 ∧ body.take 3 = Spec.msOui
    · simp only [hc, and_self, if_true]
      by_cases hty1 : (body.getD 3 0).toNat = 1
      · simp only [hty1, if_true]
        have hdec := C08_wpa_decode (body.drop 4)
        cases hd : Spec.wpaDecode (body.drop 4) with
        | none =>
          rw [hd] at hdec
          simp only at hdec
          simp only [Option.map_none, hdec]
        | some d =>
          rw [hd] at hdec
          obtain ⟨i, hi, hrel⟩ := hdec
          simp only [Option.map_some, hi]
          refine ⟨_, rfl, ?_, henv _ rfl rfl rfl rfl⟩
          refine ⟨ha.ssid, ha.hidden, ha.channel, ha.wps, ?_, ha.rsn, hrel, Or.inr ?_⟩
          · show clearWep b.enc ||| 4 ||| enumerateWpa i = _
            rw [hbe, hcw, enumerateWpa_eq i d hrel]
          · show ((if r.enc = 2 then 0 else r.enc) ||| 4 ||| Spec.wpaFlags d) &&& 2 = 0
            rw [← hcw, or_and_two, or_and_two]
            exact ⟨⟨hcw2, by decide⟩, wpaFlags_noWep d⟩
      · simp only [hty1, if_false]
        by_cases hty4 : (body.getD 3 0).toNat = 4
        · simp only [hty4, if_true]
          refine ⟨_, rfl, ?_, henv _ rfl rfl rfl rfl⟩
          exact ⟨ha.ssid, ha.hidden, ha.channel, rfl, ha.enc, ha.rsn, ha.wpa, ha.inv⟩
        · simp only [hty4, if_false]
          exact ⟨_, rfl, ha, henv _ rfl rfl rfl rfl⟩
    · simp only [hc, if_false]
      exact ⟨_, rfl, ha, henv _ rfl rfl rfl rfl⟩
  · simp only [h221, if_false]
    exact ⟨_, rfl, ha, henv _ rfl rfl rfl rfl⟩

/-- the Spec's step refuses exactly when the parser returns -EINVAL (the parser never faults:
`C01.bssElem_noFault`) -/
theorem bssElem_step_iff (tags : Bytes) (b : Bss) (r : Spec.BssReport) (e : Spec.ElemAt)
    (he : e.off + 2 + e.len ≤ tags.length) (ha : Agrees b r) :
    specStep r (elemOf tags e) = none ↔ bssElem tags b e = .err (-EINVAL) := by
  have h := bssElem_step tags b r e he ha
  cases hs : specStep r (elemOf tags e) with
  | none => rw [hs] at h; exact ⟨fun _ => h, fun _ => rfl⟩
  | some r' =>
    rw [hs] at h
    obtain ⟨b', hb', _⟩ := h
    rw [hb']
    constructor
    · intro h'; cases h'
    · intro h'; cases h'

/-! ## 3. the whole walk -/

/-- the Spec's fold from an arbitrary intermediate report -/
def specFold (r : Option Spec.BssReport) (es : List Spec.Elem) : Option Spec.BssReport :=
  es.foldl (fun acc e => acc.bind fun r => specStep r e) r

theorem bssReport_specFold (privacy : Bool) (es : List Spec.Elem) :
    Spec.bssReport privacy es = specFold (some (specInit privacy)) es := bssReport_eq privacy es

theorem specFold_none (es : List Spec.Elem) : specFold none es = none := by
  unfold specFold
  induction es with
  | nil => rfl
  | cons e t ih => rw [List.foldl_cons]; exact ih

theorem specFold_cons (r : Spec.BssReport) (e : Spec.Elem) (es : List Spec.Elem) :
    specFold (some r) (e :: es) = specFold (specStep r e) es := rfl

theorem SameEnvelope.trans {a b c : Bss} (h1 : SameEnvelope a b) (h2 : SameEnvelope b c) : SameEnvelope a c :=
  ⟨h2.1.trans h1.1, h2.2.1.trans h1.2.1, h2.2.2.1.trans h1.2.2.1, h2.2.2.2.trans h1.2.2.2⟩

theorem foldElems_agrees (tags : Bytes) (es : List Spec.ElemAt)
    (hin : ∀ e ∈ es, e.off + 2 + e.len ≤ tags.length) (b : Bss) (r : Spec.BssReport) (ha : Agrees b r) :
    match specFold (some r) (es.map (elemOf tags)) with
    | none => foldElems (bssElem tags) b es = .err (-EINVAL)
    | some r' => ∃ b', foldElems (bssElem tags) b es = .ok b' ∧ Agrees b' r' ∧ SameEnvelope b b' := by
  induction es generalizing b r with
  | nil => exact ⟨b, rfl, ha, rfl, rfl, rfl, rfl⟩
  | cons e t ih =>
    have hs := bssElem_step tags b r e (hin e List.mem_cons_self) ha
    rw [List.map_cons, specFold_cons]
    unfold foldElems
    cases hstep : specStep r (elemOf tags e) with
    | none =>
      rw [hstep] at hs
      simp only at hs
      rw [specFold_none, hs]
      rfl
    | some r1 =>
      rw [hstep] at hs
      obtain ⟨b1, hb1, ha1, henv1⟩ := hs
      rw [hb1]
      simp only [Outcome.bind_ok]
      have := ih (fun x hx => hin x (List.mem_cons_of_mem _ hx)) b1 r1 ha1
      split at this
      · exact this
      · rename_i r' heq
        obtain ⟨b', hb', ha', henv'⟩ := this
        exact ⟨b', hb', ha', henv1.trans henv'⟩

theorem walkTags_agrees (tags : Bytes) (es : List Spec.ElemAt) (hr : reported tags = .ok es)
    (b : Bss) (r : Spec.BssReport) (ha : Agrees b r) :
    match specFold (some r) (es.map (elemOf tags)) with
    | none => walkTags tags (bssElem tags) b Parsed.bss = .err (-EINVAL)
    | some r' => ∃ b', walkTags tags (bssElem tags) b Parsed.bss = .ok (.bss b') ∧ Agrees b' r' ∧ SameEnvelope b b' := by
  have hin := (C06.C06_sound tags es hr).2
  have := foldElems_agrees tags es (fun e he => (hin e he).1) b r ha
  unfold walkTags
  rw [hr]
  split at this
  · simp only [this]
  · rename_i r' heq
    obtain ⟨b', hb', ha', henv'⟩ := this
    exact ⟨b', by simp only [hb'], ha', henv'⟩

/-- the walk from the initial record of `parseBssKind`, against `Spec.bssReport` itself -/
theorem walkTags_bssReport (tags : Bytes) (es : List Spec.ElemAt) (hr : reported tags = .ok es)
    (privacy : Bool) (b0 : Bss) (ha : Agrees b0 (specInit privacy)) :
    match Spec.bssReport privacy (es.map (elemOf tags)) with
    | none => walkTags tags (bssElem tags) b0 Parsed.bss = .err (-EINVAL)
    | some r => ∃ b, walkTags tags (bssElem tags) b0 Parsed.bss = .ok (.bss b) ∧ Agrees b r ∧ SameEnvelope b0 b := by
  rw [bssReport_specFold]
  exact walkTags_agrees tags es hr b0 _ ha

/-! ## 4. frame level -/

/-- the elements a caller of the iterator sees in `tags`, as (number, body) pairs -/
def visibleElems (tags : Bytes) : List Spec.Elem := (Spec.visible (Spec.parseAt tags)).map (elemOf tags)

/-- bit 4 (Privacy) of the capability field whose low octet sits at `off` -/
def privacyBit (body : Bytes) (off : Nat) : Bool := decide ((body.getD off 0).toNat / 16 % 2 = 1)

theorem firstFits_length (bs : Bytes) (h : Spec.firstFits bs) : 2 ≤ bs.length := by
  match bs, h with
  | _ :: _ :: _, _ => simp

theorem bssKind_spec (f : Frame) (hb : f.len = f.headerLen + f.body.length) (fixedLen capsOff : Nat) (hc : capsOff + 1 < fixedLen + 2)
    (a1 a2 a3 : Bytes) :
    (f.len < f.headerLen + fixedLen + 2 ∨ ¬ Spec.firstFits (f.body.drop fixedLen) →
      parseBssKind f fixedLen capsOff a1 a2 a3 = .err (-EINVAL)) ∧
    (f.headerLen + fixedLen + 2 ≤ f.len → Spec.firstFits (f.body.drop fixedLen) →
      match Spec.bssReport (privacyBit f.body capsOff) (visibleElems (f.body.drop fixedLen)) with
      | none => parseBssKind f fixedLen capsOff a1 a2 a3 = .err (-EINVAL)
      | some r => ∃ b, parseBssKind f fixedLen capsOff a1 a2 a3 = .ok (.bss b) ∧
          b.receiver = a1 ∧ b.transmitter = a2 ∧ b.bssid = a3 ∧ b.tags = f.body.drop fixedLen ∧ Agrees b r) := by
  have hWep : WEP = 2 := C08_tables.2.2.2.2.2.2.2.1
  unfold parseBssKind
  by_cases h2 : f.len < f.headerLen + fixedLen + 2
  · refine ⟨fun _ => ?_, fun h => by omega⟩
    split <;> rfl
  · have h1 : ¬ f.len ≤ f.headerLen + fixedLen := by omega
    rw [if_neg h1, if_neg h2]
    rw [C12.rd_getD _ _ _ (show capsOff < f.body.length by omega), rd_ok (show capsOff + 1 < f.body.length by omega)]
    simp only [Outcome.bind_ok]
    rw [C12.rdSlice_ok _ _ _ _ (show fixedLen + (f.len - (f.headerLen + fixedLen)) ≤ f.body.length by omega)]
    simp only [Outcome.bind_ok]
    have htags : (f.body.drop fixedLen).take (f.len - (f.headerLen + fixedLen)) = f.body.drop fixedLen := by
      apply List.take_of_length_le
      simp only [List.length_drop]; omega
    rw [htags]
    generalize f.body.drop fixedLen = tags
    constructor
    · intro h
      rcases h with h | h
      · omega
      · unfold walkTags
        rw [C06.C06_refuse_first tags h]
    · intro _ hfit
      have hrep : reported tags = .ok (Spec.visible (Spec.parseAt tags)) := by
        rw [C06.C06_exact, if_pos hfit]
      have hinit : ∀ enc0, enc0 = (if (f.body.getD capsOff 0).toNat / 16 % 2 = 1 then WEP else 0) →
          Agrees ({ receiver := a1, transmitter := a2, bssid := a3, enc := enc0, tags := tags } : Bss)
            (specInit (privacyBit f.body capsOff)) := by
        intro enc0 henc0
        subst henc0
        refine ⟨rfl, rfl, rfl, rfl, ?_, rfl, rfl, ?_⟩
        · show (if _ then WEP else 0) = (if privacyBit f.body capsOff = true then 2 else 0)
          unfold privacyBit
          rw [hWep]
          simp only [decide_eq_true_eq]
        · show (if privacyBit f.body capsOff = true then 2 else 0) = 2 ∨
            (if privacyBit f.body capsOff = true then 2 else 0) &&& 2 = 0
          by_cases hp : privacyBit f.body capsOff = true
          · rw [if_pos hp]; exact Or.inl rfl
          · rw [if_neg hp]; exact Or.inr (Nat.zero_and 2)
      have := walkTags_agrees tags _ hrep _ _ (hinit _ rfl)
      rw [bssReport_specFold]
      unfold visibleElems
      split at this
      · exact this
      · obtain ⟨b, hb, hag, h1, h2, h3, h4⟩ := this
        exact ⟨b, hb, h1, h2, h3, h4, hag⟩

def MKind.isBss (k : MKind) : Prop := k = .beacon ∨ k = .probeResp ∨ k = .assocResp ∨ k = .reassocResp
def MKind.isSta (k : MKind) : Prop := k = .probeReq ∨ k = .assocReq ∨ k = .reassocReq
def MKind.isReason (k : MKind) : Prop := k = .deauth ∨ k = .disassoc

/-- **C04 (positive clause, BSS kinds)** -/
theorem C04_parse_bss (k : MKind) (hk : MKind.isBss k) (f : Frame) (hs : C01.Shape f) (ht : typeOk f k = true) :
    let tags := f.body.drop k.fixedLen
    (f.len < f.headerLen + k.fixedLen + 2 ∨ ¬ Spec.firstFits tags → parseMgmt k f = .err (-EINVAL)) ∧
    (f.headerLen + k.fixedLen + 2 ≤ f.len → Spec.firstFits tags →
      match Spec.bssReport (privacyBit f.body k.capsOff) (visibleElems tags) with
      | none => parseMgmt k f = .err (-EINVAL)
      | some r => ∃ b, parseMgmt k f = .ok (.bss b) ∧
          b.receiver = (addrs f).1 ∧ b.transmitter = (addrs f).2.1 ∧ b.bssid = (addrs f).2.2 ∧
          b.tags = tags ∧ Agrees b r) := by
  have hc := (C01.fixed_facts k).1
  have key := bssKind_spec f hs.body k.fixedLen k.capsOff hc (addrs f).1 (addrs f).2.1 (addrs f).2.2
  have hpm : parseMgmt k f = parseBssKind f k.fixedLen k.capsOff (addrs f).1 (addrs f).2.1 (addrs f).2.2 := by
    unfold parseMgmt
    simp only [ht, not_true_eq_false, if_false]
    rcases hk with rfl | rfl | rfl | rfl <;> rfl
  rw [hpm]
  exact key

/-! ### station kinds -/

def staStep (r : Spec.StaReport) (e : Spec.Elem) : Spec.StaReport :=
  if e.num.toNat = 0 then { r with ssid := Spec.overlay r.ssid e.body }
  else if e.num.toNat = 3 then (if e.body.isEmpty then r else { r with channel := (e.body.getD 0 0).toNat })
  else r

theorem staReport_eq (es : List Spec.Elem) :
    Spec.staReport es = es.foldl staStep { ssid := List.replicate 33 0, channel := 0 } := by
  unfold Spec.staReport
  congr 1
  funext r e
  unfold staStep
  split
  · rename_i h; rw [if_pos h]
  · rename_i h; rw [if_neg (show ¬ e.num.toNat = 0 by rw [h]; decide), if_pos h]
  · rename_i h0 h3; rw [if_neg h0, if_neg h3]

structure StaAgrees (s : Sta) (r : Spec.StaReport) : Prop where
  ssid : s.ssid = r.ssid
  channel : s.channel = r.channel

def SameStaEnvelope (s s' : Sta) : Prop :=
  s'.transmitter = s.transmitter ∧ s'.bssid = s.bssid ∧ s'.randomized = s.randomized ∧ s'.tags = s.tags

theorem staElem_step (tags : Bytes) (s : Sta) (r : Spec.StaReport) (e : Spec.ElemAt)
    (he : e.off + 2 + e.len ≤ tags.length) (ha : StaAgrees s r) :
    ∃ s', staElem tags s e = .ok s' ∧ StaAgrees s' (staStep r (elemOf tags e)) ∧ SameStaEnvelope s s' := by
  obtain ⟨t0, t3, _, _, _⟩ := tagConsts
  unfold staElem
  rw [C12.rdSlice_ok _ _ _ _ he]
  simp only [Outcome.bind_ok, t0, t3]
  have hlen : ((tags.drop (e.off + 2)).take e.len).length = e.len := by
    simp only [List.length_take, List.length_drop]; omega
  unfold staStep elemOf
  simp only
  generalize (tags.drop (e.off + 2)).take e.len = body at hlen
  by_cases h0 : e.num.toNat = 0
  · simp only [h0, if_true, handleSsid_eq]
    exact ⟨_, rfl, ⟨by rw [ha.ssid], ha.channel⟩, rfl, rfl, rfl, rfl⟩
  simp only [h0, if_false]
  by_cases h3 : e.num.toNat = 3
  · simp only [h3, if_true]
    by_cases hl : e.len ≥ 1
    · have : body.isEmpty = false := by
        cases body with
        | nil => simp at hlen; omega
        | cons _ _ => rfl
      simp only [hl, if_true, this, Bool.false_eq_true, if_false]
      exact ⟨_, rfl, ⟨ha.ssid, rfl⟩, rfl, rfl, rfl, rfl⟩
    · have : body.isEmpty = true := by
        cases body with
        | nil => rfl
        | cons _ _ => simp at hlen; omega
      simp only [hl, if_false, this, if_true]
      exact ⟨_, rfl, ha, rfl, rfl, rfl, rfl⟩
  · simp only [h3, if_false]
    exact ⟨_, rfl, ha, rfl, rfl, rfl, rfl⟩

theorem foldElems_sta (tags : Bytes) (es : List Spec.ElemAt)
    (hin : ∀ e ∈ es, e.off + 2 + e.len ≤ tags.length) (s : Sta) (r : Spec.StaReport) (ha : StaAgrees s r) :
    ∃ s', foldElems (staElem tags) s es = .ok s' ∧ StaAgrees s' ((es.map (elemOf tags)).foldl staStep r) ∧
      SameStaEnvelope s s' := by
  induction es generalizing s r with
  | nil => exact ⟨s, rfl, ha, rfl, rfl, rfl, rfl⟩
  | cons e t ih =>
    obtain ⟨s1, hs1, ha1, henv1⟩ := staElem_step tags s r e (hin e List.mem_cons_self) ha
    obtain ⟨s', hs', ha', henv'⟩ := ih (fun x hx => hin x (List.mem_cons_of_mem _ hx)) s1 _ ha1
    refine ⟨s', ?_, ha', henv'.1.trans henv1.1, henv'.2.1.trans henv1.2.1, henv'.2.2.1.trans henv1.2.2.1,
      henv'.2.2.2.trans henv1.2.2.2⟩
    unfold foldElems
    rw [hs1]
    exact hs'

theorem staKind_spec (f : Frame) (hb : f.len = f.headerLen + f.body.length) (fixedLen : Nat) (strict : Bool)
    (hfix : strict = true ∨ fixedLen = 0) (a2 a3 : Bytes) :
    (¬ Spec.firstFits (f.body.drop fixedLen) → parseStaKind f fixedLen strict a2 a3 = .err (-EINVAL)) ∧
    (Spec.firstFits (f.body.drop fixedLen) →
      ∃ s, parseStaKind f fixedLen strict a2 a3 = .ok (.sta s) ∧
        s.transmitter = a2 ∧ s.bssid = a3 ∧ s.randomized = (if (a2.getD 0 0).toNat / 2 % 2 = 1 then 1 else 0) ∧
        s.tags = f.body.drop fixedLen ∧
        StaAgrees s (Spec.staReport (visibleElems (f.body.drop fixedLen)))) := by
  unfold parseStaKind
  by_cases h1 : strict = true ∧ f.len ≤ f.headerLen + fixedLen
  · rw [if_pos h1]
    refine ⟨fun _ => rfl, fun hfit => ?_⟩
    have := firstFits_length _ hfit
    simp only [List.length_drop] at this
    omega
  · rw [if_neg h1]
    have hle : fixedLen ≤ f.body.length := by
      rcases hfix with h | h
      · have : ¬ f.len ≤ f.headerLen + fixedLen := fun h' => h1 ⟨h, h'⟩
        omega
      · omega
    dsimp only
    rw [C12.rdSlice_ok _ _ _ _ (show fixedLen + (f.len - (f.headerLen + fixedLen)) ≤ f.body.length by omega)]
    simp only [Outcome.bind_ok]
    have htags : (f.body.drop fixedLen).take (f.len - (f.headerLen + fixedLen)) = f.body.drop fixedLen := by
      apply List.take_of_length_le
      simp only [List.length_drop]; omega
    rw [htags]
    generalize f.body.drop fixedLen = tags
    constructor
    · intro h
      unfold walkTags
      rw [C06.C06_refuse_first tags h]
    · intro hfit
      have hrep : reported tags = .ok (Spec.visible (Spec.parseAt tags)) := by
        rw [C06.C06_exact, if_pos hfit]
      have hin := (C06.C06_sound tags _ hrep).2
      obtain ⟨s', hs', ha', h1, h2, h3, h4⟩ := foldElems_sta tags _ (fun e he => (hin e he).1)
        ({ transmitter := a2, bssid := a3, randomized := (if (a2.getD 0 0).toNat / 2 % 2 = 1 then 1 else 0), tags := tags } : Sta)
        { ssid := List.replicate 33 0, channel := 0 } ⟨rfl, rfl⟩
      refine ⟨s', ?_, h1, h2, h3, h4, ?_⟩
      · unfold walkTags
        rw [hrep]
        simp only [hs']
      · rw [staReport_eq]
        exact ha'

/-- **C04 (positive clause, station kinds)** -/
theorem C04_parse_sta (k : MKind) (hk : MKind.isSta k) (f : Frame) (hs : C01.Shape f) (ht : typeOk f k = true) :
    let tags := f.body.drop k.fixedLen
    (¬ Spec.firstFits tags → parseMgmt k f = .err (-EINVAL)) ∧
    (Spec.firstFits tags →
      ∃ s, parseMgmt k f = .ok (.sta s) ∧
        s.transmitter = (addrs f).2.1 ∧ s.bssid = (addrs f).2.2 ∧
        s.randomized = (if (((addrs f).2.1).getD 0 0).toNat / 2 % 2 = 1 then 1 else 0) ∧
        s.tags = tags ∧ StaAgrees s (Spec.staReport (visibleElems tags))) := by
  have hp := (C01.fixed_facts k).2.2
  rcases hk with rfl | rfl | rfl
  · have hpm : parseMgmt .probeReq f = parseStaKind f MKind.probeReq.fixedLen false (addrs f).2.1 (addrs f).2.2 := by
      unfold parseMgmt
      simp only [ht, not_true_eq_false, if_false]
    rw [hpm]
    exact staKind_spec f hs.body _ false (Or.inr (hp rfl)) _ _
  · have hpm : parseMgmt .assocReq f = parseStaKind f MKind.assocReq.fixedLen true (addrs f).2.1 (addrs f).2.2 := by
      unfold parseMgmt
      simp only [ht, not_true_eq_false, if_false]
    rw [hpm]
    exact staKind_spec f hs.body _ true (Or.inl rfl) _ _
  · have hpm : parseMgmt .reassocReq f = parseStaKind f MKind.reassocReq.fixedLen true (addrs f).2.1 (addrs f).2.2 := by
      unfold parseMgmt
      simp only [ht, not_true_eq_false, if_false]
    rw [hpm]
    exact staKind_spec f hs.body _ true (Or.inl rfl) _ _

/-! ### deauthentication / disassociation -/

/-- **C04 (positive clause, reason kinds)** -/
theorem C04_parse_reason (k : MKind) (hk : MKind.isReason k) (f : Frame) (hs : C01.Shape f) (ht : typeOk f k = true) :
    (f.len < f.headerLen + 2 → parseMgmt k f = .err (-EINVAL)) ∧
    (f.headerLen + 2 ≤ f.len → ∀ b0 b1, f.fc = [b0, b1] →
      parseMgmt k f = .ok (.reason { ordered := fcOrdered b1, header := f.header,
                                      reason := le16 (f.body.getD 0 0) (f.body.getD 1 0), tags := f.body.drop 2 })) := by
  have hb := hs.body
  have hpm : parseMgmt k f = parseReasonKind f 2 := by
    unfold parseMgmt
    simp only [ht, not_true_eq_false, if_false]
    rcases hk with rfl | rfl <;> rfl
  rw [hpm]
  unfold parseReasonKind
  constructor
  · intro h; rw [if_pos h]
  · intro h b0 b1 hfc
    rw [if_neg (by omega)]
    rw [C12.rd_getD _ _ _ (show 0 < f.body.length by omega), C12.rd_getD _ _ _ (show 1 < f.body.length by omega)]
    simp only [Outcome.bind_ok]
    rw [C12.rdSlice_ok _ _ _ _ (show 2 + (f.len - f.headerLen - 2) ≤ f.body.length by omega)]
    simp only [Outcome.bind_ok, hfc]
    have htags : (f.body.drop 2).take (f.len - f.headerLen - 2) = f.body.drop 2 := by
      apply List.take_of_length_le
      simp only [List.length_drop]; omega
    rw [htags]

/-! ## C08: the security summary at frame level -/

/-- an RSN element -/
def isRsnElem (e : Spec.Elem) : Prop := e.num.toNat = 48
/-- a vendor element with the Microsoft OUI and the given type octet -/
def isMsElem (ty : Nat) (e : Spec.Elem) : Prop :=
  e.num.toNat = 221 ∧ e.body.length ≥ 4 ∧ e.body.take 3 = Spec.msOui ∧ (e.body.getD 3 0).toNat = ty
/-- an element that carries security suites: RSN, or Microsoft WPA (type 1) -/
def isSecElem (e : Spec.Elem) : Prop := isRsnElem e ∨ isMsElem 1 e

def EncInv (r : Spec.BssReport) : Prop := r.enc = 2 ∨ r.enc &&& 2 = 0

theorem specStep_enc (r r' : Spec.BssReport) (e : Spec.Elem) (hinv : EncInv r) (h : specStep r e = some r') :
    (isSecElem e → r'.enc &&& 2 = 0) ∧ (¬ isSecElem e → r'.enc = r.enc) := by
  have hclr : (if r.enc = 2 then 0 else r.enc) &&& 2 = 0 := by
    rcases hinv with h2 | h2
    · rw [if_pos h2]; exact Nat.zero_and 2
    · have : r.enc ≠ 2 := by intro e; rw [e] at h2; exact absurd h2 (by decide)
      rw [if_neg this]; exact h2
  unfold specStep at h
  unfold isSecElem isRsnElem isMsElem
  by_cases h0 : e.num.toNat = 0
  · rw [if_pos h0] at h; cases h
    exact ⟨fun hs => by omega, fun _ => rfl⟩
  rw [if_neg h0] at h
  by_cases h3 : e.num.toNat = 3 ∨ e.num.toNat = 61
  · rw [if_pos h3] at h
    refine ⟨fun hs => by omega, fun _ => ?_⟩
    split at h <;> cases h <;> rfl
  rw [if_neg h3] at h
  by_cases h48 : e.num.toNat = 48
  · rw [if_pos h48] at h
    refine ⟨fun _ => ?_, fun hn => absurd (Or.inl h48) hn⟩
    cases hd : Spec.rsnDecode e.body with
    | none => rw [hd] at h; cases h
    | some d =>
      rw [hd] at h; cases h
      show ((if r.enc = 2 then 0 else r.enc) ||| Spec.rsnFlags d) &&& 2 = 0
      rw [or_and_two]; exact ⟨hclr, rsnFlags_noWep d⟩
  rw [if_neg h48] at h
  by_cases h221 : e.num.toNat = 221
  · rw [if_pos h221] at h
    by_cases hc : e.body.length ≥ 4 ∧ e.body.take 3 = Spec.msOui
    · rw [if_pos hc] at h
      by_cases h1 : (e.body.getD 3 0).toNat = 1
      · rw [if_pos h1] at h
        refine ⟨fun _ => ?_, fun hn => absurd (Or.inr ⟨h221, hc.1, hc.2, h1⟩) hn⟩
        cases hd : Spec.wpaDecode (e.body.drop 4) with
        | none => rw [hd] at h; cases h
        | some d =>
          rw [hd] at h; cases h
          show ((if r.enc = 2 then 0 else r.enc) ||| 4 ||| Spec.wpaFlags d) &&& 2 = 0
          rw [or_and_two, or_and_two]; exact ⟨⟨hclr, by decide⟩, wpaFlags_noWep d⟩
      · rw [if_neg h1] at h
        refine ⟨fun hs => ?_, fun _ => ?_⟩
        · rcases hs with hs | hs
          · exact absurd hs h48
          · exact absurd hs.2.2.2 h1
        · split at h <;> cases h <;> rfl
    · rw [if_neg hc] at h; cases h
      refine ⟨fun hs => ?_, fun _ => rfl⟩
      rcases hs with hs | hs
      · exact absurd hs h48
      · exact absurd ⟨hs.2.1, hs.2.2.1⟩ hc
  · rw [if_neg h221] at h; cases h
    refine ⟨fun hs => ?_, fun _ => rfl⟩
    rcases hs with hs | hs
    · exact absurd hs h48
    · exact absurd hs.1 h221

/-- only RSN and Microsoft WPA elements can make the summary fail -/
theorem specStep_some (r : Spec.BssReport) (e : Spec.Elem) (h : ¬ isSecElem e) : ∃ r', specStep r e = some r' := by
  unfold isSecElem isRsnElem isMsElem at h
  unfold specStep
  by_cases h0 : e.num.toNat = 0
  · rw [if_pos h0]; exact ⟨_, rfl⟩
  rw [if_neg h0]
  by_cases h3 : e.num.toNat = 3 ∨ e.num.toNat = 61
  · rw [if_pos h3]; exact ⟨_, rfl⟩
  rw [if_neg h3]
  have h48 : ¬ e.num.toNat = 48 := fun h' => h (Or.inl h')
  rw [if_neg h48]
  by_cases h221 : e.num.toNat = 221
  · rw [if_pos h221]
    by_cases hc : e.body.length ≥ 4 ∧ e.body.take 3 = Spec.msOui
    · rw [if_pos hc]
      have h1 : ¬ (e.body.getD 3 0).toNat = 1 := fun h' => h (Or.inr ⟨h221, hc.1, hc.2, h'⟩)
      rw [if_neg h1]
      split <;> exact ⟨_, rfl⟩
    · rw [if_neg hc]; exact ⟨_, rfl⟩
  · rw [if_neg h221]; exact ⟨_, rfl⟩

theorem specStep_wps (r r' : Spec.BssReport) (e : Spec.Elem) (h : specStep r e = some r') :
    (isMsElem 4 e → r'.wps = 1) ∧ (¬ isMsElem 4 e → r'.wps = r.wps) := by
  unfold specStep at h
  unfold isMsElem
  by_cases h0 : e.num.toNat = 0
  · rw [if_pos h0] at h; cases h
    exact ⟨fun hs => by omega, fun _ => rfl⟩
  rw [if_neg h0] at h
  by_cases h3 : e.num.toNat = 3 ∨ e.num.toNat = 61
  · rw [if_pos h3] at h
    refine ⟨fun hs => by omega, fun _ => ?_⟩
    split at h <;> cases h <;> rfl
  rw [if_neg h3] at h
  by_cases h48 : e.num.toNat = 48
  · rw [if_pos h48] at h
    refine ⟨fun hs => by omega, fun _ => ?_⟩
    cases hd : Spec.rsnDecode e.body with
    | none => rw [hd] at h; cases h
    | some d => rw [hd] at h; cases h; rfl
  rw [if_neg h48] at h
  by_cases h221 : e.num.toNat = 221
  · rw [if_pos h221] at h
    by_cases hc : e.body.length ≥ 4 ∧ e.body.take 3 = Spec.msOui
    · rw [if_pos hc] at h
      by_cases h1 : (e.body.getD 3 0).toNat = 1
      · rw [if_pos h1] at h
        refine ⟨fun hs => by omega, fun _ => ?_⟩
        cases hd : Spec.wpaDecode (e.body.drop 4) with
        | none => rw [hd] at h; cases h
        | some d => rw [hd] at h; cases h; rfl
      · rw [if_neg h1] at h
        by_cases h4 : (e.body.getD 3 0).toNat = 4
        · rw [if_pos h4] at h; cases h
          exact ⟨fun _ => rfl, fun hn => absurd ⟨h221, hc.1, hc.2, h4⟩ hn⟩
        · rw [if_neg h4] at h; cases h
          exact ⟨fun hs => absurd hs.2.2.2 h4, fun _ => rfl⟩
    · rw [if_neg hc] at h; cases h
      exact ⟨fun hs => absurd ⟨hs.2.1, hs.2.2.1⟩ hc, fun _ => rfl⟩
  · rw [if_neg h221] at h; cases h
    exact ⟨fun hs => absurd hs.1 h221, fun _ => rfl⟩

theorem specFold_some_step (r r' : Spec.BssReport) (e : Spec.Elem) (es : List Spec.Elem)
    (h : specFold (some r) (e :: es) = some r') : ∃ r1, specStep r e = some r1 ∧ specFold (some r1) es = some r' := by
  rw [specFold_cons] at h
  cases hs : specStep r e with
  | none => rw [hs, specFold_none] at h; cases h
  | some r1 => rw [hs] at h; exact ⟨r1, rfl, h⟩

theorem specFold_noWep (es : List Spec.Elem) (r r' : Spec.BssReport) (h0 : r.enc &&& 2 = 0)
    (h : specFold (some r) es = some r') : r'.enc &&& 2 = 0 := by
  induction es generalizing r with
  | nil => cases h; exact h0
  | cons e t ih =>
    obtain ⟨r1, hs, hf⟩ := specFold_some_step r r' e t h
    obtain ⟨h1, h2⟩ := specStep_enc r r1 e (Or.inr h0) hs
    refine ih r1 ?_ hf
    by_cases hsec : isSecElem e
    · exact h1 hsec
    · rw [h2 hsec]; exact h0

/-- without RSN / Microsoft-WPA elements the summary cannot fail and keeps the initial value -/
theorem specFold_plain (es : List Spec.Elem) (r : Spec.BssReport) (hinv : EncInv r) (hno : ∀ e ∈ es, ¬ isSecElem e) :
    ∃ r', specFold (some r) es = some r' ∧ r'.enc = r.enc := by
  induction es generalizing r with
  | nil => exact ⟨r, rfl, rfl⟩
  | cons e t ih =>
    have hne := hno e List.mem_cons_self
    obtain ⟨r1, hs⟩ := specStep_some r e hne
    have he := (specStep_enc r r1 e hinv hs).2 hne
    obtain ⟨r', hf, he'⟩ := ih r1 (by unfold EncInv; rw [he]; exact hinv) (fun x hx => hno x (List.mem_cons_of_mem _ hx))
    exact ⟨r', by rw [specFold_cons, hs]; exact hf, he'.trans he⟩

/-- as soon as one RSN / Microsoft-WPA element has been folded in, the WEP flag is gone for good -/
theorem specFold_sec (es : List Spec.Elem) (r r' : Spec.BssReport) (hinv : EncInv r) (hex : ∃ e ∈ es, isSecElem e)
    (h : specFold (some r) es = some r') : r'.enc &&& 2 = 0 := by
  induction es generalizing r with
  | nil => obtain ⟨e, he, _⟩ := hex; exact absurd he List.not_mem_nil
  | cons e t ih =>
    obtain ⟨r1, hs, hf⟩ := specFold_some_step r r' e t h
    obtain ⟨h1, h2⟩ := specStep_enc r r1 e hinv hs
    by_cases hsec : isSecElem e
    · exact specFold_noWep t r1 r' (h1 hsec) hf
    · obtain ⟨x, hx, hxs⟩ := hex
      rcases List.mem_cons.mp hx with rfl | hx
      · exact absurd hxs hsec
      · exact ih r1 (by unfold EncInv; rw [h2 hsec]; exact hinv) ⟨x, hx, hxs⟩ hf

theorem specFold_wps (es : List Spec.Elem) (r r' : Spec.BssReport) (h : specFold (some r) es = some r') :
    ((∃ e ∈ es, isMsElem 4 e) → r'.wps = 1) ∧ ((∀ e ∈ es, ¬ isMsElem 4 e) → r'.wps = r.wps) := by
  induction es generalizing r with
  | nil =>
    cases h
    exact ⟨fun ⟨e, he, _⟩ => absurd he List.not_mem_nil, fun _ => rfl⟩
  | cons e t ih =>
    obtain ⟨r1, hs, hf⟩ := specFold_some_step r r' e t h
    obtain ⟨h1, h2⟩ := specStep_wps r r1 e hs
    obtain ⟨i1, i2⟩ := ih r1 hf
    constructor
    · intro ⟨x, hx, hxw⟩
      by_cases hex : ∃ y ∈ t, isMsElem 4 y
      · exact i1 hex
      · have hall : ∀ y ∈ t, ¬ isMsElem 4 y := fun y hy hyw => hex ⟨y, hy, hyw⟩
        rcases List.mem_cons.mp hx with rfl | hx
        · rw [i2 hall]; exact h1 hxw
        · exact absurd hxw (hall x hx)
    · intro hall
      rw [i2 (fun y hy => hall y (List.mem_cons_of_mem _ hy)), h2 (hall e List.mem_cons_self)]

theorem specInit_inv (p : Bool) : EncInv (specInit p) := by
  cases p
  · exact Or.inr (Nat.zero_and 2)
  · exact Or.inl rfl

/-- inversion of `C04_parse_bss`: what a successful parse tells -/
theorem C04_parse_bss_ok (k : MKind) (hk : MKind.isBss k) (f : Frame) (hs : C01.Shape f) (ht : typeOk f k = true)
    (b : Bss) (hp : parseMgmt k f = .ok (.bss b)) :
    f.headerLen + k.fixedLen + 2 ≤ f.len ∧ Spec.firstFits (f.body.drop k.fixedLen) ∧
    ∃ r, Spec.bssReport (privacyBit f.body k.capsOff) (visibleElems (f.body.drop k.fixedLen)) = some r ∧ Agrees b r := by
  obtain ⟨h1, h2⟩ := C04_parse_bss k hk f hs ht
  by_cases hlen : f.len < f.headerLen + k.fixedLen + 2
  · rw [h1 (Or.inl hlen)] at hp; cases hp
  by_cases hfit : Spec.firstFits (f.body.drop k.fixedLen)
  · refine ⟨by omega, hfit, ?_⟩
    have := h2 (by omega) hfit
    split at this
    · rw [this] at hp; cases hp
    · rename_i r heq
      obtain ⟨b', hb', _, _, _, _, hag⟩ := this
      rw [hb'] at hp
      cases hp
      exact ⟨r, heq, hag⟩
  · rw [h1 (Or.inr hfit)] at hp; cases hp

/-- **C08 (summary)** what the security summary of a successfully parsed BSS frame says, in terms of
the frame's visible elements: the WEP flag is reported exactly when the Privacy bit is set and no
RSN and no Microsoft WPA element is visible (and then it is the whole summary); any such element
removes it for good; WPS is reported exactly when a Microsoft type-4 vendor element is visible -/
theorem C08_summary (k : MKind) (hk : MKind.isBss k) (f : Frame) (hs : C01.Shape f) (ht : typeOk f k = true)
    (b : Bss) (hp : parseMgmt k f = .ok (.bss b)) :
    let vis := visibleElems (f.body.drop k.fixedLen)
    let privacy := privacyBit f.body k.capsOff
    ((∀ e ∈ vis, ¬ isSecElem e) → b.enc = if privacy then 2 else 0) ∧
    ((∃ e ∈ vis, isSecElem e) → b.enc &&& 2 = 0) ∧
    (b.enc = 2 ↔ privacy = true ∧ ∀ e ∈ vis, ¬ isSecElem e) ∧
    ((∃ e ∈ vis, isMsElem 4 e) → b.wps = 1) ∧
    ((∀ e ∈ vis, ¬ isMsElem 4 e) → b.wps = 0) := by
  intro vis privacy
  obtain ⟨_, _, r, hr, hag⟩ := C04_parse_bss_ok k hk f hs ht b hp
  rw [bssReport_specFold] at hr
  have hinv0 : EncInv (specInit privacy) := specInit_inv privacy
  have hplain : (∀ e ∈ vis, ¬ isSecElem e) → b.enc = if privacy then 2 else 0 := by
    intro hno
    obtain ⟨r', hr', he'⟩ := specFold_plain vis (specInit privacy) hinv0 hno
    rw [hr] at hr'
    cases hr'
    rw [hag.enc, he']
    rfl
  have hsec : (∃ e ∈ vis, isSecElem e) → b.enc &&& 2 = 0 := by
    intro hex
    rw [hag.enc]
    exact specFold_sec vis (specInit privacy) r hinv0 hex hr
  obtain ⟨w1, w2⟩ := specFold_wps vis (specInit privacy) r hr
  refine ⟨hplain, hsec, ⟨fun h2 => ?_, fun ⟨hpv, hno⟩ => ?_⟩, fun h => by rw [hag.wps]; exact w1 h,
    fun h => by rw [hag.wps, w2 h]; rfl⟩
  · by_cases hex : ∃ e ∈ vis, isSecElem e
    · have := hsec hex
      rw [h2] at this
      exact absurd this (by decide)
    · have hno : ∀ e ∈ vis, ¬ isSecElem e := fun e he hse => hex ⟨e, he, hse⟩
      refine ⟨?_, hno⟩
      have := hplain hno
      rw [h2] at this
      by_cases hpv : privacy = true
      · exact hpv
      · rw [if_neg hpv] at this; cases this
  · rw [hplain hno, if_pos hpv]

/-- **C08 (summary, total form)** a BSS frame whose element region the iterator accepts and which
shows no RSN and no Microsoft WPA element always parses, and its summary is WEP or nothing
according to the Privacy bit -/
theorem C08_summary_plain (k : MKind) (hk : MKind.isBss k) (f : Frame) (hs : C01.Shape f) (ht : typeOk f k = true)
    (hlen : f.headerLen + k.fixedLen + 2 ≤ f.len) (hfit : Spec.firstFits (f.body.drop k.fixedLen))
    (hno : ∀ e ∈ visibleElems (f.body.drop k.fixedLen), ¬ isSecElem e) :
    ∃ b, parseMgmt k f = .ok (.bss b) ∧ b.enc = if privacyBit f.body k.capsOff then 2 else 0 := by
  have h2 := (C04_parse_bss k hk f hs ht).2 hlen hfit
  have hinv0 := specInit_inv (privacyBit f.body k.capsOff)
  obtain ⟨r', hr', _⟩ := specFold_plain _ _ hinv0 hno
  rw [← bssReport_specFold] at hr'
  rw [hr'] at h2
  obtain ⟨b, hb, _⟩ := h2
  exact ⟨b, hb, (C08_summary k hk f hs ht b hb).1 hno⟩

/-! ## the offset view and the (number, body) view of the element sequence -/

theorem parseAtF_map (tags : Bytes) (fuel base : Nat) (bs : Bytes) (h : tags.drop base = bs) :
    (Spec.parseAtF fuel base bs).map (elemOf tags) = Spec.parseF fuel bs := by
  induction fuel generalizing base bs with
  | zero => rfl
  | succ fuel ih =>
    match bs, h with
    | [], _ => rfl
    | [_], _ => rfl
    | n :: l :: rest, h =>
      simp only [Spec.parseAtF, Spec.parseF]
      have hrest : tags.drop (base + 2) = rest := by
        have := congrArg (List.drop 2) h
        rw [List.drop_drop] at this
        simpa using this
      split
      · rw [List.map_cons]
        congr 1
        · simp only [elemOf, hrest]
        · apply ih
          rw [← hrest, List.drop_drop]
      · rfl

/-- the greedy parses agree: same elements, the offset view only adds where each one starts -/
theorem parseAt_map (tags : Bytes) : (Spec.parseAt tags).map (elemOf tags) = Spec.parse tags :=
  parseAtF_map tags tags.length 0 tags (by simp)

theorem firstFits_of_wf (tags : Bytes) (hlen : 2 ≤ tags.length) (hwf : Spec.wf tags = true) : Spec.firstFits tags := by
  match tags, hlen with
  | n :: l :: rest, _ =>
    unfold Spec.firstFits
    simp only
    by_cases h : l.toNat ≤ rest.length
    · exact h
    · exfalso
      unfold Spec.wf Spec.parse at hwf
      simp only [List.length_cons, Spec.parseF, h, if_false] at hwf
      simp [Spec.encode] at hwf

theorem takeWhile_all {α} (p : α → Bool) (l : List α) (h : ∀ x ∈ l, p x = true) : l.takeWhile p = l := by
  induction l with
  | nil => rfl
  | cons x t ih =>
    rw [List.takeWhile_cons, h x List.mem_cons_self]
    simp only [if_true]
    rw [ih (fun y hy => h y (List.mem_cons_of_mem _ hy))]

/-- in a region without inner empty elements the iterator shows everything -/
theorem visible_all (tags : Bytes) (h : Spec.noInnerEmpty (Spec.parse tags) = true) :
    visibleElems tags = Spec.parse tags := by
  unfold visibleElems
  rw [← parseAt_map] at h ⊢
  have hs := C06.parseAt_sound tags.length 0 tags
  generalize Spec.parseAt tags = es at h hs
  cases es with
  | nil => rfl
  | cons e t =>
    simp only [Spec.visible]
    congr 2
    apply takeWhile_all
    intro x hx
    simp only [List.map_cons, Spec.noInnerEmpty, List.all_map, List.all_eq_true, Function.comp] at h
    have := h x hx
    simp only [elemOf, Bool.not_eq_true', List.isEmpty_eq_false_iff] at this
    simp only [ne_eq, decide_eq_true_eq]
    intro h0
    apply this
    rw [h0, List.take_zero]

/-- **C04 (`C04_parse_statement`)** the statement left open in `Props/C04.lean` holds -/
theorem C04_parse_statement_holds : C04.C04_parse_statement := by
  intro f tags hcoh ht hlen htags hwf r hr
  subst htags
  unfold Spec.wellFormedTags at hwf
  simp only [Bool.and_eq_true, decide_eq_true_eq] at hwf
  obtain ⟨⟨h2, hwf'⟩, hne⟩ := hwf
  have hfit := firstFits_of_wf _ h2 hwf'
  have hfl : MKind.beacon.fixedLen = 12 := by decide
  have hco : MKind.beacon.capsOff = 10 := rfl
  have hpm : parseMgmt .beacon f = parseBssKind f 12 10 (addrs f).1 (addrs f).2.1 (addrs f).2.2 := by
    unfold parseMgmt
    simp only [ht, not_true_eq_false, if_false, hfl, hco]
  have key := (bssKind_spec f hcoh 12 10 (by decide) (addrs f).1 (addrs f).2.1 (addrs f).2.2).2
    (by simp only [List.length_drop] at h2; omega) hfit
  rw [visible_all _ hne] at key
  have hpv : privacyBit f.body 10 = decide ((f.body.getD 10 0).toNat / 16 % 2 = 1) := rfl
  rw [hpv, hr] at key
  obtain ⟨b, hb, _, _, _, htg, hag⟩ := key
  exact ⟨b, by rw [hpm]; exact hb, hag.ssid, hag.hidden, hag.channel, hag.wps, hag.enc, htg⟩

/-! ## non-vacuity -/

/-- a beacon: Privacy set, SSID "abc", channel 6, RSN (group CCMP-128, pairwise CCMP-128, AKM PSK), WPS vendor element -/
def exBeacon : Frame :=
  { flags := 0, fc := [0x80, 0], len := 24 + 12 + 38, headerLen := 24,
    header := [0x80, 0, 0, 0, 0xff, 0xff, 0xff, 0xff, 0xff, 0xff, 2, 0, 0, 0, 0, 1, 2, 0, 0, 0, 0, 1, 0, 0],
    body := [0, 0, 0, 0, 0, 0, 0, 0, 100, 0, 0x11, 0x04] ++
      [0, 3, 0x61, 0x62, 0x63] ++ [3, 1, 6] ++
      [48, 20, 1, 0, 0x00, 0x0f, 0xac, 4, 1, 0, 0x00, 0x0f, 0xac, 4, 1, 0, 0x00, 0x0f, 0xac, 2, 0, 0] ++
      [221, 6, 0x00, 0x50, 0xf2, 4, 0x10, 0x4a],
    radiotap := none }

theorem exBeacon_shape : C01.Shape exBeacon :=
  ⟨⟨0x80, 0, rfl⟩, by decide, by decide, by decide, fun _ _ _ _ => by decide⟩

example : typeOk exBeacon .beacon = true := by decide
example : Spec.firstFits (exBeacon.body.drop MKind.beacon.fixedLen) := by decide +kernel
example : privacyBit exBeacon.body MKind.beacon.capsOff = true := by decide +kernel
example : (Spec.bssReport true (visibleElems (exBeacon.body.drop MKind.beacon.fixedLen))).map (fun r => (r.ssid.take 4, r.hidden, r.channel, r.wps, r.enc)) =
    some ([0x61, 0x62, 0x63, 0], 0, 6, 1, 2 ^ 3 ||| 2 ^ 8 ||| 2 ^ 22 ||| 2 ^ 34) := by decide +kernel
example : (parseMgmt .beacon exBeacon).isOk = true := by decide +kernel

/-- the theorems applied to the concrete beacon: the parser's record carries the Spec's values -/
example : ∃ b, parseMgmt .beacon exBeacon = .ok (.bss b) ∧
    b.enc = 2 ^ 3 ||| 2 ^ 8 ||| 2 ^ 22 ||| 2 ^ 34 ∧ b.wps = 1 ∧ b.channel = 6 ∧ b.hidden = 0 := by
  have h := (C04_parse_bss .beacon (Or.inl rfl) exBeacon exBeacon_shape (by decide)).2 (by decide) (by decide +kernel)
  have hv : (Spec.bssReport (privacyBit exBeacon.body MKind.beacon.capsOff)
      (visibleElems (exBeacon.body.drop MKind.beacon.fixedLen))).map (fun r => (r.enc, r.wps, r.channel, r.hidden)) =
      some (2 ^ 3 ||| 2 ^ 8 ||| 2 ^ 22 ||| 2 ^ 34, 1, 6, 0) := by decide +kernel
  cases hr : Spec.bssReport (privacyBit exBeacon.body MKind.beacon.capsOff)
      (visibleElems (exBeacon.body.drop MKind.beacon.fixedLen)) with
  | none => rw [hr] at hv; cases hv
  | some r =>
    rw [hr] at h hv
    obtain ⟨b, hb, _, _, _, _, hag⟩ := h
    simp only [Option.map_some, Option.some.injEq, Prod.mk.injEq] at hv
    exact ⟨b, hb, hag.enc.trans hv.1, hag.wps.trans hv.2.1, hag.channel.trans hv.2.2.1, hag.hidden.trans hv.2.2.2⟩

end LWV.Props.C04Full
