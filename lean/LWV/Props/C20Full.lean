import LWV.Props.C20
import LWV.Props.C03Full
/-
C20 (frames) — timestamps in GENERATED FRAMES never run backwards.

`Props/C20.lean` proves that the value `libwifi_get_epoch` returns is monotone in the clock reading
(`C20_monotone`) and stays below 2^63 (`C20_no_overflow`).  Here that statement is carried to the
octets the generators emit:

  1. `leNat_leBytes_of_lt`, `frameTimestamp`, `frameTimestamp_append`
                                       decoding the eight little-endian octets behind the 24-octet
                                       management header
  2. `frame_split`, `frameTimestamp_frame`
                                       in `Spec.frame` of a beacon / probe response / timing
                                       advertisement these octets are the timestamp, whatever the
                                       elements that follow
  3. `frameTimestamp_good`, `C20_frame_timestamp`, `C20_frame_timestamp_mod`
                                       the field of a created frame IS `Model.epoch a.clk` (no
                                       truncation under the no-overflow bound; mod 2^64 without it)
  4. `C20_frames`                      two creations, clock readings in order ⇒ fields in order
     `C20_frames_edited`, `C20_frame_timestamp_edited`, `C20_frame_timestamp_any_tags`
                                       … also after arbitrary edit histories: edits never touch it
  5. `C20_no_clock`, `C20_no_clock_edited`
                                       the other 13 kinds do not depend on the clock at all
-/
namespace LWV.Props.C20Full
open LWV LWV.Model LWV.Spec LWV.Props.C03 LWV.Props.C03Full

/-! ## 1. decoding the field -/

/-- `LWV.leNat_leBytes` (`Lemmas/Endian.lean`) is `leNat (leBytes n v) = v % 256 ^ n`; this is the
round trip for values that fit.  (The length lemma is `LWV.leBytes_length`.) -/
theorem leNat_leBytes_of_lt (n v : Nat) (h : v < 256 ^ n) : leNat (leBytes n v) = v := by
  rw [LWV.leNat_leBytes, Nat.mod_eq_of_lt h]

/-- the kinds whose fixed fields start with a timestamp -/
def timestamped : GKind → Bool
  | .beacon | .probeResp | .timingAd => true
  | _ => false

theorem timestamped_iff (k : GKind) : timestamped k = true ↔ (k = .beacon ∨ k = .probeResp ∨ k = .timingAd) := by
  cases k <;> simp [timestamped]

theorem not_timestamped_iff (k : GKind) : timestamped k = false ↔ (k ≠ .beacon ∧ k ≠ .probeResp ∧ k ≠ .timingAd) := by
  cases k <;> simp [timestamped]

/-- the timestamp field of a serialised beacon / probe response / timing advertisement: the eight
octets behind the 24-octet management header, little-endian -/
def frameTimestamp (bytes : Bytes) : Nat := leNat ((bytes.drop 24).take 8)

theorem frameTimestamp_lt (bytes : Bytes) : frameTimestamp bytes < 2 ^ 64 := by
  have h := leNat_lt ((bytes.drop 24).take 8)
  have h8 : ((bytes.drop 24).take 8).length ≤ 8 := by rw [List.length_take]; omega
  have : 256 ^ ((bytes.drop 24).take 8).length ≤ 256 ^ 8 := Nat.pow_le_pow_right (by decide) h8
  unfold frameTimestamp
  omega

theorem frameTimestamp_append (pre rest : Bytes) (v : Nat) (h : pre.length = 24) :
    frameTimestamp (pre ++ (leBytes 8 v ++ rest)) = v % 2 ^ 64 := by
  unfold frameTimestamp
  rw [List.drop_left' h, List.take_left' (leBytes_length 8 v), LWV.leNat_leBytes]

/-! ## 2. where the field sits in the Spec frame -/

/-- the management header of the Spec frame: frame control, duration, three addresses, sequence control -/
def mgmtHeader (k : GKind) (a : GArgs) : Bytes :=
  Spec.frameControl (sk k) ++ [0, 0] ++ mac a.a1 ++ mac a.a2 ++ mac a.a3 ++ [0, 0]

theorem mgmtHeader_length (k : GKind) (a : GArgs) : (mgmtHeader k a).length = 24 := by
  simp [mgmtHeader, Spec.frameControl, mac_length]

/-- for the three timestamped kinds the Spec frame is: header, the eight timestamp octets, the rest
(remaining fixed fields and the elements) -/
theorem frame_split (k : GKind) (hk : timestamped k = true) (a : GArgs) (es : List Elem) (det : Bytes) :
    ∃ rest, Spec.frame (sk k) (sa a) es det = mgmtHeader k a ++ (leBytes 8 (Spec.timestamp (sa a)) ++ rest) := by
  cases k <;> first
    | (simp [timestamped] at hk; done)
    | exact ⟨_, by simp only [Spec.frame, Spec.fixed, sk, mgmtHeader, sa, List.append_assoc]; rfl⟩

/-- the Spec's timestamp of the generator arguments is the model's `epoch` of the clock reading, as
a 64-bit value -/
theorem timestamp_sa (a : GArgs) : Spec.timestamp (sa a) = epoch a.clk % 2 ^ 64 := by
  rw [epoch_us]; rfl

/-- the field of the Spec frame, for ANY elements / details behind the fixed fields -/
theorem frameTimestamp_frame (k : GKind) (hk : timestamped k = true) (a : GArgs) (es : List Elem) (det : Bytes) :
    frameTimestamp (Spec.frame (sk k) (sa a) es det) = epoch a.clk % 2 ^ 64 := by
  obtain ⟨rest, h⟩ := frame_split k hk a es det
  rw [h, frameTimestamp_append _ _ _ (mgmtHeader_length k a), timestamp_sa]
  exact Nat.mod_mod _ _

/-- the explicit form of the no-overflow guard of `C20.C20_no_overflow` -/
def ClockOk (t : Timespec) : Prop := t.sec < 2 ^ 43 ∧ t.nsec < 10 ^ 9

theorem epoch_fits (t : Timespec) (h : ClockOk t) : epoch t % 2 ^ 64 = epoch t := by
  have := C20.C20_no_overflow t h.1 h.2
  omega

/-! ## 3. the field of a generated frame -/

/-- every object that is `Good` (serialises to the Spec frame of SOME elements and details) carries
the timestamp of its creation arguments -/
theorem frameTimestamp_good (k : GKind) (hk : timestamped k = true) (a : GArgs) (o : GObj) (es : List Elem) (det : Bytes)
    (g : Good k a o es det) (bytes : Bytes) (henc : o.encoding = .ok bytes) :
    frameTimestamp bytes = epoch a.clk % 2 ^ 64 := by
  rw [g.enc] at henc
  injection henc with henc
  rw [← henc]
  exact frameTimestamp_frame k hk a es det

/-- without a bound on the clock: the field is the epoch value as an unsigned 64-bit number -/
theorem C20_frame_timestamp_mod (k : GKind) (hk : timestamped k = true) (a : GArgs) (hs : (cstr a.ssid).length ≤ 255)
    (o : GObj) (bytes : Bytes) (hc : create k a = .ok (0, o)) (henc : o.encoding = .ok bytes) :
    frameTimestamp bytes = epoch a.clk % 2 ^ 64 := by
  obtain ⟨o', hc', g⟩ := good_create k a hs
  rw [hc] at hc'
  injection hc' with hc'
  injection hc' with _ ho
  subst ho
  exact frameTimestamp_good k hk a o _ _ g bytes henc

/-- **C20 (field)** a freshly created beacon / probe response / timing advertisement carries exactly
the microsecond timestamp of the clock reading it was created with: no truncation -/
theorem C20_frame_timestamp (k : GKind) (hk : timestamped k = true) (a : GArgs) (hs : (cstr a.ssid).length ≤ 255)
    (hclk : a.clk.sec < 2 ^ 43 ∧ a.clk.nsec < 10 ^ 9)
    (o : GObj) (bytes : Bytes) (hc : create k a = .ok (0, o)) (henc : o.encoding = .ok bytes) :
    frameTimestamp bytes = epoch a.clk := by
  rw [C20_frame_timestamp_mod k hk a hs o bytes hc henc, epoch_fits a.clk hclk]

/-- the same with the three kinds spelled out -/
theorem C20_frame_timestamp' (k : GKind) (hk : k = .beacon ∨ k = .probeResp ∨ k = .timingAd) (a : GArgs)
    (hs : (cstr a.ssid).length ≤ 255) (hclk : a.clk.sec < 2 ^ 43 ∧ a.clk.nsec < 10 ^ 9)
    (o : GObj) (bytes : Bytes) (hc : create k a = .ok (0, o)) (henc : o.encoding = .ok bytes) :
    frameTimestamp bytes = epoch a.clk :=
  C20_frame_timestamp k ((timestamped_iff k).mpr hk) a hs hclk o bytes hc henc

/-- existence form: the creation succeeds, serialises, and the field is the timestamp -/
theorem C20_frame_timestamp_exists (k : GKind) (hk : timestamped k = true) (a : GArgs) (hs : (cstr a.ssid).length ≤ 255)
    (hclk : a.clk.sec < 2 ^ 43 ∧ a.clk.nsec < 10 ^ 9) :
    ∃ o bytes, create k a = .ok (0, o) ∧ o.encoding = .ok bytes ∧ frameTimestamp bytes = epoch a.clk := by
  obtain ⟨o, hc, g⟩ := good_create k a hs
  exact ⟨o, _, hc, g.enc, C20_frame_timestamp k hk a hs hclk o _ hc g.enc⟩

/-! ## 4. monotonicity over frames -/

/-- **C20 (frames)** two creations — possibly of different kinds among the three, with different
arguments — whose clock readings are in order: the timestamp fields of the two serialised frames
are in the same order. -/
theorem C20_frames (k₁ k₂ : GKind) (hk₁ : timestamped k₁ = true) (hk₂ : timestamped k₂ = true) (a₁ a₂ : GArgs)
    (hs₁ : (cstr a₁.ssid).length ≤ 255) (hs₂ : (cstr a₂.ssid).length ≤ 255)
    (hclk₁ : a₁.clk.sec < 2 ^ 43 ∧ a₁.clk.nsec < 10 ^ 9) (hclk₂ : a₂.clk.sec < 2 ^ 43 ∧ a₂.clk.nsec < 10 ^ 9)
    (hle : a₁.clk.le a₂.clk)
    (o₁ o₂ : GObj) (bytes₁ bytes₂ : Bytes)
    (hc₁ : create k₁ a₁ = .ok (0, o₁)) (henc₁ : o₁.encoding = .ok bytes₁)
    (hc₂ : create k₂ a₂ = .ok (0, o₂)) (henc₂ : o₂.encoding = .ok bytes₂) :
    frameTimestamp bytes₁ ≤ frameTimestamp bytes₂ := by
  rw [C20_frame_timestamp k₁ hk₁ a₁ hs₁ hclk₁ o₁ bytes₁ hc₁ henc₁,
    C20_frame_timestamp k₂ hk₂ a₂ hs₂ hclk₂ o₂ bytes₂ hc₂ henc₂]
  exact C20.C20_monotone a₁.clk a₂.clk hclk₁.2 hle

/-- the same under the weakest hypotheses the proof uses: `nsec < 10^9` for the EARLIER reading
only (as `C20_monotone`), and the LATER epoch value fits the 64-bit field.  (Some bound on the later
reading is necessary: a later field that wrapped modulo 2^64 would be smaller.) -/
theorem C20_frames_weak (k₁ k₂ : GKind) (hk₁ : timestamped k₁ = true) (hk₂ : timestamped k₂ = true) (a₁ a₂ : GArgs)
    (hs₁ : (cstr a₁.ssid).length ≤ 255) (hs₂ : (cstr a₂.ssid).length ≤ 255)
    (hn₁ : a₁.clk.nsec < 10 ^ 9) (hfit₂ : epoch a₂.clk < 2 ^ 64)
    (hle : a₁.clk.le a₂.clk)
    (o₁ o₂ : GObj) (bytes₁ bytes₂ : Bytes)
    (hc₁ : create k₁ a₁ = .ok (0, o₁)) (henc₁ : o₁.encoding = .ok bytes₁)
    (hc₂ : create k₂ a₂ = .ok (0, o₂)) (henc₂ : o₂.encoding = .ok bytes₂) :
    frameTimestamp bytes₁ ≤ frameTimestamp bytes₂ := by
  have hm := C20.C20_monotone a₁.clk a₂.clk hn₁ hle
  rw [C20_frame_timestamp_mod k₁ hk₁ a₁ hs₁ o₁ bytes₁ hc₁ henc₁,
    C20_frame_timestamp_mod k₂ hk₂ a₂ hs₂ o₂ bytes₂ hc₂ henc₂,
    Nat.mod_eq_of_lt hfit₂, Nat.mod_eq_of_lt (Nat.lt_of_le_of_lt hm hfit₂)]
  exact hm

/-- **edits never touch the timestamp** create, then ANY admissible history of edits (added,
removed, replaced tags, counts): the history runs, the final object serialises, and the field is
still the timestamp of the creation -/
theorem C20_frame_timestamp_edited (k : GKind) (hk : timestamped k = true) (a : GArgs) (hs : (cstr a.ssid).length ≤ 255)
    (hclk : a.clk.sec < 2 ^ 43 ∧ a.clk.nsec < 10 ^ 9)
    (edits : List GEdit) (had : admissibleAll k (st0 k a) edits = true) :
    ∃ o0 rs o bytes, create k a = .ok (0, o0) ∧ runEdits o0 edits = .ok (rs, o) ∧ o.encoding = .ok bytes ∧
      frameTimestamp bytes = epoch a.clk := by
  obtain ⟨o0, rs, o, h1, h2, _, g⟩ := C03_full_history k a hs edits had
  refine ⟨o0, rs, o, _, h1, h2, g.enc, ?_⟩
  rw [frameTimestamp_good k hk a o _ _ g _ g.enc, epoch_fits a.clk hclk]

/-- the same in hypothesis form: whatever objects and octets the run produced -/
theorem C20_frame_timestamp_edited' (k : GKind) (hk : timestamped k = true) (a : GArgs) (hs : (cstr a.ssid).length ≤ 255)
    (hclk : a.clk.sec < 2 ^ 43 ∧ a.clk.nsec < 10 ^ 9)
    (edits : List GEdit) (had : admissibleAll k (st0 k a) edits = true)
    (o0 o : GObj) (rs : List Int) (bytes : Bytes)
    (hc : create k a = .ok (0, o0)) (hrun : runEdits o0 edits = .ok (rs, o)) (henc : o.encoding = .ok bytes) :
    frameTimestamp bytes = epoch a.clk := by
  obtain ⟨o0', rs', o', bytes', h1, h2, h3, h4⟩ := C20_frame_timestamp_edited k hk a hs hclk edits had
  rw [hc] at h1
  injection h1 with h1
  injection h1 with _ ho
  subst ho
  rw [hrun] at h2
  injection h2 with h2
  injection h2 with _ ho
  subst ho
  rw [henc] at h3
  injection h3 with h3
  subst h3
  exact h4

/-- … and for tag edits NO side condition is needed at all (over-long bodies, numbers beyond one
octet, removals behind inner empty elements): the field stays the timestamp -/
theorem C20_frame_timestamp_any_tags (k : GKind) (hk : timestamped k = true) (a : GArgs) (hs : (cstr a.ssid).length ≤ 255)
    (hclk : a.clk.sec < 2 ^ 43 ∧ a.clk.nsec < 10 ^ 9) (ops : List TagOp) :
    ∃ o0 rs o bytes, create k a = .ok (0, o0) ∧ runEdits o0 (ops.map .tag) = .ok (rs, o) ∧ o.encoding = .ok bytes ∧
      frameTimestamp bytes = epoch a.clk := by
  obtain ⟨o0, hc, g0⟩ := good_create k a hs
  have ht : o0.hasTags = true := by
    rw [hasTags_eq, g0.kind]
    cases k <;> first | rfl | (simp [timestamped] at hk)
  obtain ⟨rs, o, h1, _, g⟩ := tags_any_history k a ops o0 _ _ g0 ht
  refine ⟨o0, rs, o, _, hc, h1, g.enc, ?_⟩
  rw [frameTimestamp_good k hk a o _ _ g _ g.enc, epoch_fits a.clk hclk]

/-- **C20 (frames, after edits)** two creations with clock readings in order, each followed by an
arbitrary admissible edit history: the timestamp fields of the final frames are in order -/
theorem C20_frames_edited (k₁ k₂ : GKind) (hk₁ : timestamped k₁ = true) (hk₂ : timestamped k₂ = true) (a₁ a₂ : GArgs)
    (hs₁ : (cstr a₁.ssid).length ≤ 255) (hs₂ : (cstr a₂.ssid).length ≤ 255)
    (hclk₁ : a₁.clk.sec < 2 ^ 43 ∧ a₁.clk.nsec < 10 ^ 9) (hclk₂ : a₂.clk.sec < 2 ^ 43 ∧ a₂.clk.nsec < 10 ^ 9)
    (hle : a₁.clk.le a₂.clk)
    (edits₁ edits₂ : List GEdit)
    (had₁ : admissibleAll k₁ (st0 k₁ a₁) edits₁ = true) (had₂ : admissibleAll k₂ (st0 k₂ a₂) edits₂ = true)
    (o0₁ o₁ o0₂ o₂ : GObj) (rs₁ rs₂ : List Int) (bytes₁ bytes₂ : Bytes)
    (hc₁ : create k₁ a₁ = .ok (0, o0₁)) (hrun₁ : runEdits o0₁ edits₁ = .ok (rs₁, o₁)) (henc₁ : o₁.encoding = .ok bytes₁)
    (hc₂ : create k₂ a₂ = .ok (0, o0₂)) (hrun₂ : runEdits o0₂ edits₂ = .ok (rs₂, o₂)) (henc₂ : o₂.encoding = .ok bytes₂) :
    frameTimestamp bytes₁ ≤ frameTimestamp bytes₂ := by
  rw [C20_frame_timestamp_edited' k₁ hk₁ a₁ hs₁ hclk₁ edits₁ had₁ o0₁ o₁ rs₁ bytes₁ hc₁ hrun₁ henc₁,
    C20_frame_timestamp_edited' k₂ hk₂ a₂ hs₂ hclk₂ edits₂ had₂ o0₂ o₂ rs₂ bytes₂ hc₂ hrun₂ henc₂]
  exact C20.C20_monotone a₁.clk a₂.clk hclk₁.2 hle

/-- existence form of the same: both runs succeed and the fields are ordered -/
theorem C20_frames_edited_exists (k₁ k₂ : GKind) (hk₁ : timestamped k₁ = true) (hk₂ : timestamped k₂ = true) (a₁ a₂ : GArgs)
    (hs₁ : (cstr a₁.ssid).length ≤ 255) (hs₂ : (cstr a₂.ssid).length ≤ 255)
    (hclk₁ : a₁.clk.sec < 2 ^ 43 ∧ a₁.clk.nsec < 10 ^ 9) (hclk₂ : a₂.clk.sec < 2 ^ 43 ∧ a₂.clk.nsec < 10 ^ 9)
    (hle : a₁.clk.le a₂.clk)
    (edits₁ edits₂ : List GEdit)
    (had₁ : admissibleAll k₁ (st0 k₁ a₁) edits₁ = true) (had₂ : admissibleAll k₂ (st0 k₂ a₂) edits₂ = true) :
    ∃ o0₁ rs₁ o₁ bytes₁ o0₂ rs₂ o₂ bytes₂,
      create k₁ a₁ = .ok (0, o0₁) ∧ runEdits o0₁ edits₁ = .ok (rs₁, o₁) ∧ o₁.encoding = .ok bytes₁ ∧
      create k₂ a₂ = .ok (0, o0₂) ∧ runEdits o0₂ edits₂ = .ok (rs₂, o₂) ∧ o₂.encoding = .ok bytes₂ ∧
      frameTimestamp bytes₁ ≤ frameTimestamp bytes₂ := by
  obtain ⟨o0₁, rs₁, o₁, b₁, h1, h2, h3, h4⟩ := C20_frame_timestamp_edited k₁ hk₁ a₁ hs₁ hclk₁ edits₁ had₁
  obtain ⟨o0₂, rs₂, o₂, b₂, g1, g2, g3, g4⟩ := C20_frame_timestamp_edited k₂ hk₂ a₂ hs₂ hclk₂ edits₂ had₂
  refine ⟨o0₁, rs₁, o₁, b₁, o0₂, rs₂, o₂, b₂, h1, h2, h3, g1, g2, g3, ?_⟩
  rw [h4, g4]
  exact C20.C20_monotone a₁.clk a₂.clk hclk₁.2 hle

/-! ## 5. the other kinds do not read the clock -/

/-- **C20 (no other clock-dependent octet)** for the 13 kinds without a timestamp the created object
— hence everything derived from it — is the same for every clock reading -/
theorem C20_no_clock (k : GKind) (hk : timestamped k = false) (a : GArgs) (t : Timespec) :
    create k a = create k { a with clk := t } := by
  cases k <;> first
    | (simp [timestamped] at hk; done)
    | rfl

theorem C20_no_clock' (k : GKind) (hk : k ≠ .beacon ∧ k ≠ .probeResp ∧ k ≠ .timingAd) (a : GArgs) (t : Timespec) :
    create k a = create k { a with clk := t } :=
  C20_no_clock k ((not_timestamped_iff k).mpr hk) a t

/-- for the three timestamped kinds the clock enters ONLY through `epoch … % 2^64`: two clock
readings with the same 64-bit epoch value give the same object -/
theorem C20_clock_only_via_epoch (k : GKind) (a : GArgs) (t : Timespec) (h : epoch t % 2 ^ 64 = epoch a.clk % 2 ^ 64) :
    create k a = create k { a with clk := t } := by
  cases k
  case beacon => simp only [create, initialTags, fixedOf, h]
  case probeResp => simp only [create, initialTags, fixedOf, h]
  case timingAd => simp only [create, initialTags, fixedOf, timingElement, h]
  all_goals rfl

/-! ## non-vacuity

Two clock readings straddling a second boundary, a beacon created at the first and a probe response
(different SSID, channel) at the second.  The hypotheses of `C20_frames` hold; independently the
MODEL evaluated in the kernel gives the fields 5 999 999 µs and 6 000 000 µs. -/

def exA₁ : GArgs := { ssid := [0x41, 0x42], ch := 6, clk := ⟨5, 999999999⟩ }
def exA₂ : GArgs := { ssid := [0x43], ch := 11, clk := ⟨6, 0⟩ }

/-- create, serialise, read the field -/
def modelTimestamp (k : GKind) (a : GArgs) : Outcome Nat := do
  let (_, o) ← create k a
  let b ← o.encoding
  .ok (frameTimestamp b)

example : exA₁.clk.le exA₂.clk ∧ (cstr exA₁.ssid).length ≤ 255 ∧ (cstr exA₂.ssid).length ≤ 255 ∧
    (exA₁.clk.sec < 2 ^ 43 ∧ exA₁.clk.nsec < 10 ^ 9) ∧ (exA₂.clk.sec < 2 ^ 43 ∧ exA₂.clk.nsec < 10 ^ 9) := by
  refine ⟨Or.inl (by decide), by decide, by decide, ⟨by decide, by decide⟩, ⟨by decide, by decide⟩⟩

example : modelTimestamp .beacon exA₁ = .ok 5999999 ∧ modelTimestamp .probeResp exA₂ = .ok 6000000 ∧
    modelTimestamp .timingAd exA₂ = .ok 6000000 := by
  decide +kernel

/-- the theorems applied to the example: the two frames exist and their fields are the two values -/
example : ∃ o₁ b₁ o₂ b₂, create .beacon exA₁ = .ok (0, o₁) ∧ o₁.encoding = .ok b₁ ∧
    create .probeResp exA₂ = .ok (0, o₂) ∧ o₂.encoding = .ok b₂ ∧
    frameTimestamp b₁ = 5999999 ∧ frameTimestamp b₂ = 6000000 ∧ frameTimestamp b₁ ≤ frameTimestamp b₂ := by
  obtain ⟨o₁, b₁, h1, h2, h3⟩ := C20_frame_timestamp_exists .beacon rfl exA₁ (by decide) ⟨by decide, by decide⟩
  obtain ⟨o₂, b₂, g1, g2, g3⟩ := C20_frame_timestamp_exists .probeResp rfl exA₂ (by decide) ⟨by decide, by decide⟩
  have e1 : epoch exA₁.clk = 5999999 := by decide +kernel
  have e2 : epoch exA₂.clk = 6000000 := by decide +kernel
  refine ⟨o₁, b₁, o₂, b₂, h1, h2, g1, g2, by rw [h3, e1], by rw [g3, e2], ?_⟩
  exact C20_frames .beacon .probeResp rfl rfl exA₁ exA₂ (by decide) (by decide) ⟨by decide, by decide⟩ ⟨by decide, by decide⟩
    (Or.inl (by decide)) o₁ o₂ b₁ b₂ h1 h2 g1 g2

/-- the guard on the clock is needed for "no truncation": at `sec = 2^64` the field wraps -/
example : epoch ⟨2 ^ 64, 0⟩ % 2 ^ 64 ≠ epoch ⟨2 ^ 64, 0⟩ := by decide +kernel

end LWV.Props.C20Full
