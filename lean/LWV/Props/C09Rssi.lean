import LWV.Props.C09Full
import LWV.Model.Rssi
/-
C09 (rssi) — the shortcut entry point `libwifi_parse_radiotap_rssi(frame)` (model: `Model.parseRssi`)
walks the radiotap header with the vendored iterator and returns the octet of the first field whose
index is 5 (dBm antenna signal).  For EVERY header the Spec accepts it reports exactly the `signal`
the declarative reading assigns (`C09_rssi`), hence exactly the `signal` member the full decoder
`libwifi_parse_radiotap_info` stores (`C09_rssi_eq_info`).

The proof reuses the simulation of `Props/C09Full.lean` between the iterator and the Spec's walk over
present words (`Live`, `next_simG`): fields of a vendor namespace are never reported by the iterator
(no vendor namespace is registered: `rtNext_giveup`), the only other thing it reports is the vendor
descriptor itself with index 30, so an index of 5 can only be a field 5 of the radiotap namespace —
there is no discrepancy between the C loop (which compares only the index) and the Spec.
-/
set_option linter.unusedSimpArgs false
namespace LWV.Props.C09Rssi
open LWV LWV.Model
open LWV.Props.C09Full

/-! ### Spec side: the signal is the octet of the first field 5 -/

/-- the octet at the first placed field with number 5, 0 when there is none -/
def firstSignal (bs : Bytes) (fields : List Spec.RtField) : Nat :=
  match fields.find? (fun f => f.field == 5) with
  | some f => Spec.u8 bs f.off
  | none => 0

/-- once the frame's signal has been seen, no later field changes it -/
theorem valueStep_seen (bs : Bytes) (m : Nat) (s : Spec.RtValues × Bool) (f : Spec.RtField) (h : s.2 = true) :
    (Spec.valueStep bs m s f).2 = true ∧ (Spec.valueStep bs m s f).1.signal = s.1.signal := by
  unfold Spec.valueStep
  simp only [h]
  repeat' split
  all_goals first
    | exact ⟨rfl, rfl⟩
    | exact ⟨h, rfl⟩
    | (exfalso; simp_all; done)

/-- a field other than 5 leaves the signal and the "seen" mark alone -/
theorem valueStep_ne5 (bs : Bytes) (m : Nat) (s : Spec.RtValues × Bool) (f : Spec.RtField) (h : f.field ≠ 5) :
    (Spec.valueStep bs m s f).2 = s.2 ∧ (Spec.valueStep bs m s f).1.signal = s.1.signal := by
  unfold Spec.valueStep
  simp only []
  repeat' split
  all_goals first
    | exact ⟨rfl, rfl⟩
    | (exfalso; simp_all; done)

/-- the first field 5 sets the signal -/
theorem valueStep_first5 (bs : Bytes) (m : Nat) (s : Spec.RtValues × Bool) (f : Spec.RtField) (h : f.field = 5)
    (hs : s.2 = false) :
    (Spec.valueStep bs m s f).2 = true ∧ (Spec.valueStep bs m s f).1.signal = Spec.u8 bs f.off := by
  unfold Spec.valueStep
  simp only [h, hs]
  exact ⟨rfl, rfl⟩

theorem foldl_seen (bs : Bytes) (m : Nat) : ∀ (fs : List Spec.RtField) (s : Spec.RtValues × Bool), s.2 = true →
    (fs.foldl (Spec.valueStep bs m) s).1.signal = s.1.signal := by
  intro fs
  induction fs with
  | nil => intro s _; rfl
  | cons f fs ih =>
    intro s h
    obtain ⟨h1, h2⟩ := valueStep_seen bs m s f h
    rw [List.foldl_cons, ih _ h1, h2]

theorem foldl_signal (bs : Bytes) (m : Nat) : ∀ (fs : List Spec.RtField) (s : Spec.RtValues × Bool), s.2 = false →
    (fs.foldl (Spec.valueStep bs m) s).1.signal =
      match fs.find? (fun f => f.field == 5) with
      | some f => Spec.u8 bs f.off
      | none => s.1.signal := by
  intro fs
  induction fs with
  | nil => intro s _; rfl
  | cons f fs ih =>
    intro s h
    rw [List.foldl_cons]
    by_cases h5 : f.field = 5
    · obtain ⟨h1, h2⟩ := valueStep_first5 bs m s f h5 h
      rw [foldl_seen bs m fs _ h1, h2, List.find?_cons_of_pos (by simp [h5])]
    · obtain ⟨h1, h2⟩ := valueStep_ne5 bs m s f h5
      rw [ih _ (by rw [h1, h]), h2, List.find?_cons_of_neg (by simp [h5])]

/-- the Spec's `signal` is the octet of the first field 5 (in the radiotap namespace: the Spec places
no other fields), 0 when there is none -/
theorem rtValues_signal (bs : Bytes) (itLen : Nat) (fields : List Spec.RtField) (m : Nat) :
    (Spec.rtValues bs itLen fields m).signal = firstSignal bs fields := by
  unfold Spec.rtValues firstSignal
  rw [foldl_signal bs m fields _ rfl]

theorem firstSignal_none (bs : Bytes) (fields : List Spec.RtField) (h : ∀ f ∈ fields, f.field ≠ 5) :
    firstSignal bs fields = 0 := by
  unfold firstSignal
  have : fields.find? (fun f => f.field == 5) = none := by
    rw [List.find?_eq_none]
    intro f hf
    simp [h f hf]
  rw [this]

theorem firstSignal_hit (bs : Bytes) (pre more : List Spec.RtField) (off : Nat) (h : ∀ f ∈ pre, f.field ≠ 5) :
    firstSignal bs (pre ++ [⟨5, off⟩] ++ more) = Spec.u8 bs off := by
  unfold firstSignal
  have : (pre ++ [(⟨5, off⟩ : Spec.RtField)] ++ more).find? (fun f => f.field == 5) = some ⟨5, off⟩ := by
    induction pre with
    | nil => simp
    | cons p pre ih =>
      have hp : p.field ≠ 5 := h p (by simp)
      simp only [List.cons_append]
      rw [List.find?_cons_of_neg (by simp [hp])]
      exact ih (fun f hf => h f (by simp [hf]))
  rw [this]

/-! ### the walk only appends -/

/-- the fields placed so far are a prefix of the fields of the finished walk -/
theorem fin_prefix (bs : Bytes) (itLen : Nat) : ∀ (n : Nat) (it : RtIt) (st : Spec.Walk) (b w : Nat) (rest : List Nat),
    Live bs itLen w rest it st b → mu rest b ≤ n → st.fields <+: (fin bs itLen w rest b st).fields := by
  intro n
  induction n with
  | zero => intro it st b w rest hl hmu; have := hl.b31; unfold mu at hmu; omega
  | succ n ih =>
    intro it st b w rest hl hmu
    rcases next_simG bs itLen (mu rest b) it st b w rest hl (Nat.le_refl _) with
      ⟨it', st', b', w', rest', _, h2, h3, h4, _, h6⟩ | ⟨c, _, h2⟩
    · have hp := ih it' st' b' w' rest' h2 (by omega)
      rw [h4]
      rcases h6 with ⟨_, hfs⟩ | ⟨_, hfs⟩
      · rw [← hfs]; exact hp
      · exact List.IsPrefix.trans (by rw [hfs]; exact List.prefix_append _ _) hp
    · rw [h2]; exact List.prefix_refl _

/-! ### `rtInit` with the header's own length -/

/-- `rtInit` bounded by any length that covers `it_len` (the shortcut passes `it_len` itself) -/
theorem rtInit_len {bs : Bytes} {ws : List Nat} (m : Nat) (h8 : 8 ≤ bs.length) (hv : Spec.u8 bs 0 = 0)
    (hm8 : 8 ≤ m) (hm : Spec.u16 bs 2 ≤ m)
    (hl : Spec.u16 bs 2 ≤ bs.length) (hws : Spec.presentWords bs (Spec.u16 bs 2) 64 4 = some ws) :
    rtInit bs m = .ok (it0 (Spec.u16 bs 2) (Spec.u32 bs 4) (4 + 4 * ws.length)) := by
  obtain ⟨rest, hcons, hrest⟩ := presentWords_cons hws
  have hfit := presentWords_fit hws
  unfold rtInit it0
  have hv' : (bs.getD 0 0).toNat = 0 := hv
  rw [if_neg (by omega), rd_eq (by omega)]
  simp only [Outcome.bind_ok, hv', ne_eq, not_true_eq_false, if_false]
  rw [le16At_u16 (by omega)]
  simp only [Outcome.bind_ok]
  rw [if_neg (by omega), le32At_u32 (by omega)]
  simp only [Outcome.bind_ok]
  by_cases hb : (Spec.u32 bs 4).testBit 31 = true
  · simp only [hb, if_true] at hrest ⊢
    have hfit2 := presentWords_fit hrest
    rw [if_neg (by omega), presentWords_skip bs _ hl _ _ _ hrest (bs.length + 1) (by omega)]
    simp only [Outcome.bind_ok, hcons, List.length_cons]
    have : 8 + 4 * rest.length = 4 + 4 * (rest.length + 1) := by omega
    rw [this]
  · simp only [hb, Bool.false_eq_true, if_false] at hrest ⊢
    rw [hcons, hrest]
    rfl

/-! ### the loop -/

/-- where the shortcut's loop stands: either the iterator has just reported the first field 5 (readable),
or no field 5 has been placed so far -/
def Seen (bs : Bytes) (it : RtIt) (st : Spec.Walk) : Prop :=
  (it.thisArgIndex = 5 ∧ it.thisArg < bs.length ∧
      ∃ pre, (∀ f ∈ pre, f.field ≠ 5) ∧ st.fields = pre ++ [⟨5, it.thisArg⟩]) ∨
  (it.thisArgIndex ≠ 5 ∧ ∀ f ∈ st.fields, f.field ≠ 5)

theorem rssiLoop_sim (bs : Bytes) (itLen : Nat) :
    ∀ (fuel : Nat) (it : RtIt) (st : Spec.Walk) (b w : Nat) (rest : List Nat),
      Live bs itLen w rest it st b → mu rest b < fuel → mu rest b ≤ 40 * (bs.length + 2) → Seen bs it st →
      rssiLoop bs fuel it = .ok (firstSignal bs (fin bs itLen w rest b st).fields) := by
  intro fuel
  induction fuel with
  | zero => intro it st b w rest _ h; omega
  | succ fuel ih =>
    intro it st b w rest hl hfuel hmu hseen
    rw [rssiLoop]
    rcases hseen with ⟨h5, hrd, pre, hpre, hfs⟩ | ⟨h5, hnone⟩
    · -- the iterator stands on the first field 5: the octet there is returned
      rw [if_pos h5, rd_eq hrd]
      simp only [Outcome.bind_ok]
      obtain ⟨more, hmore⟩ := fin_prefix bs itLen _ it st b w rest hl (Nat.le_refl _)
      rw [← hmore, hfs, firstSignal_hit bs pre more _ hpre]
      rfl
    · rw [if_neg h5]
      rcases next_simG bs itLen (40 * (bs.length + 2)) it st b w rest hl hmu with
        ⟨it', st', b', w', rest', h1, h2, h3, h4, h5', h6⟩ | ⟨c, h1, h2⟩
      · simp only [h1, Outcome.bind_ok]
        rw [h4]
        refine ih it' st' b' w' rest' h2 (by omega) (by omega) ?_
        rcases h6 with ⟨h30, hfs⟩ | ⟨hsz, hfs⟩
        · exact Or.inr ⟨by omega, by rw [hfs]; exact hnone⟩
        · by_cases hi : it'.thisArgIndex = 5
          · refine Or.inl ⟨hi, ?_, st.fields, hnone, by rw [hfs, hi]⟩
            have hs5 : rtSize 5 = 1 := rtSize_handled.2.2.2.1
            rw [hi, hs5] at hsz
            have := h2.le
            omega
          · refine Or.inr ⟨hi, ?_⟩
            rw [hfs]
            intro f hf
            rcases List.mem_append.1 hf with hf | hf
            · exact hnone f hf
            · rw [List.mem_singleton.1 hf]; exact hi
      · simp only [h1, Outcome.bind_ok]
        rw [firstSignal_none bs _ (by rw [h2]; exact hnone)]

/-- the side condition the differential driver uses (`Model.rssiCovered`: the buffer holds the whole
announced header) follows from the Spec accepting the header: it need not be assumed -/
theorem rssiCovered_of_rtFields {bs : Bytes} {itLen : Nat} {fields : List Spec.RtField}
    (h : Spec.rtFields bs = some (itLen, fields)) : rssiCovered bs = true := by
  obtain ⟨h8, _, hit, _, hile, _, _⟩ := rtFields_some h
  unfold rssiCovered
  rw [le16At_u16 (by omega), ← hit]
  simp [hile]

/-- **C09 (rssi)** `libwifi_parse_radiotap_rssi(frame)` — the entry point that takes no length and
walks the header with the iterator until it meets a field whose index is 5 — returns, for every
radiotap header the Spec accepts (any number of present words, namespace resets, vendor namespaces,
undefined fields, fields running past `it_len`), exactly the signal of the declarative reading: the
octet of the FIRST dBm-antenna-signal field of the radiotap namespace, and 0 when the header carries
none.  In particular it neither faults nor returns early on such a header, fields of a vendor
namespace whose number happens to be 5 are not mistaken for a signal, and a later per-antenna signal
never replaces the frame's own.  (`signal` is the unsigned octet on both sides; the C returns it as
`int8_t`, the same octet read as two's complement.) -/
theorem C09_rssi (bs : Bytes) (itLen : Nat) (fields : List Spec.RtField)
    (h : Spec.rtFields bs = some (itLen, fields)) :
    parseRssi bs = .ok (Spec.rtValues bs itLen fields Gen.m_LIBWIFI_MAX_RADIOTAP_ANTENNAS).signal := by
  obtain ⟨h8, hv, hit, hi8, hile, hi255, ws, hws, hfields⟩ := rtFields_some h
  obtain ⟨rest, hcons, hrest⟩ := presentWords_cons hws
  have hwl := presentWords_len _ _ _ hws
  unfold parseRssi
  rw [le16At_u16 (by omega)]
  simp only [Outcome.bind_ok]
  have hinit := rtInit_len (Spec.u16 bs 2) h8 hv (by omega) (Nat.le_refl _) (by omega) (by rw [← hit]; exact hws)
  rw [hinit]
  simp only []
  rw [← hit]
  have hlive : Live bs itLen (Spec.u32 bs 4) rest (it0 itLen (Spec.u32 bs 4) (4 + 4 * ws.length))
      ⟨4 + 4 * ws.length, .radiotap, 0, [], false, false⟩ 0 := {
    ml := rfl, le := hile, arg := rfl
    fit := by show 4 + 4 * ws.length ≤ itLen; omega
    ns := rfl
    vns := fun h => by cases h
    idx := rfl, base := rfl
    b31 := by omega
    sh := by show Spec.u32 bs 4 = _; simp
    live := rfl, good := rfl, r1 := fun _ => rfl
    r2 := fun h => by omega
    r3 := fun h => by omega
    rest := by
      show Rest bs itLen _ 8 rest
      unfold Rest
      split
      · rename_i h31; rw [if_pos h31] at hrest; exact ⟨_, hrest⟩
      · rename_i h31; rw [if_neg h31] at hrest; exact hrest }
  have hmu : mu rest 0 = 8 * (4 * ws.length) := by
    unfold mu; rw [hcons]; simp only [List.length_cons]; omega
  rw [rssiLoop_sim bs itLen (32 * (bs.length + 2)) _ _ 0 _ rest hlive (by omega) (by omega)
    (Or.inr ⟨by show (0 : Nat) ≠ 5; decide, fun f hf => by cases hf⟩)]
  rw [rtValues_signal, hfields, hcons]
  unfold fin
  rw [List.foldl_cons, walkWord_finish]

/-- **C09 (rssi = info.signal)** the two entry points agree: on every header the Spec accepts,
`libwifi_parse_radiotap_info` succeeds and the `signal` member it stores is the value
`libwifi_parse_radiotap_rssi` returns for the same bytes -/
theorem C09_rssi_eq_info (bs : Bytes) (itLen : Nat) (fields : List Spec.RtField)
    (h : Spec.rtFields bs = some (itLen, fields)) :
    ∃ info, parseRadiotapInfo bs = .ok info ∧ parseRssi bs = .ok info.signal := by
  obtain ⟨info, h1, h2⟩ := C09_decode_full bs itLen fields h
  refine ⟨info, h1, ?_⟩
  rw [C09_rssi bs itLen fields h, ← h2]
  rfl

/-! ### non-vacuity

one signal field (-48 dBm = 0xd0 = 208) -/
example : Spec.rtFields [0, 0, 9, 0, 0x20, 0, 0, 0, 0xd0] = some (9, [⟨5, 8⟩]) ∧
    parseRssi [0, 0, 9, 0, 0x20, 0, 0, 0, 0xd0] = .ok 208 ∧
    (Spec.rtValues [0, 0, 9, 0, 0x20, 0, 0, 0, 0xd0] 9 [⟨5, 8⟩] Gen.m_LIBWIFI_MAX_RADIOTAP_ANTENNAS).signal = 208 := by
  decide +kernel

/-! the frame's own signal (0xd0), then a namespace reset (bits 29 and 31) and in the second word a
per-antenna signal (0xc4) with its antenna number: the result is the FIRST signal -/
example : Spec.rtFields [0, 0, 15, 0, 0x20, 0, 0, 0xa0, 0x20, 0x08, 0, 0, 0xd0, 0xc4, 1] =
      some (15, [⟨5, 12⟩, ⟨5, 13⟩, ⟨11, 14⟩]) ∧
    parseRssi [0, 0, 15, 0, 0x20, 0, 0, 0xa0, 0x20, 0x08, 0, 0, 0xd0, 0xc4, 1] = .ok 208 ∧
    (Spec.rtValues [0, 0, 15, 0, 0x20, 0, 0, 0xa0, 0x20, 0x08, 0, 0, 0xd0, 0xc4, 1] 15 [⟨5, 12⟩, ⟨5, 13⟩, ⟨11, 14⟩]
      Gen.m_LIBWIFI_MAX_RADIOTAP_ANTENNAS).signal = 208 ∧
    (Spec.rtValues [0, 0, 15, 0, 0x20, 0, 0, 0xa0, 0x20, 0x08, 0, 0, 0xd0, 0xc4, 1] 15 [⟨5, 12⟩, ⟨5, 13⟩, ⟨11, 14⟩]
      Gen.m_LIBWIFI_MAX_RADIOTAP_ANTENNAS).antennas = [(1, 0xc4)] := by
  decide +kernel

/-! no signal field (FLAGS only): 0 -/
example : Spec.rtFields [0, 0, 9, 0, 2, 0, 0, 0, 0x12] = some (9, [⟨1, 8⟩]) ∧
    parseRssi [0, 0, 9, 0, 2, 0, 0, 0, 0x12] = .ok 0 ∧
    (Spec.rtValues [0, 0, 9, 0, 2, 0, 0, 0, 0x12] 9 [⟨1, 8⟩] Gen.m_LIBWIFI_MAX_RADIOTAP_ANTENNAS).signal = 0 := by
  decide +kernel

/-! a vendor namespace (skip length 2) whose word names a field number 5: not a signal.  With a
reset to the radiotap namespace and a third word carrying field 5 the result is that octet (0xb0);
without the reset (the chain ends in the vendor namespace) the result is 0 -/
example : Spec.rtFields [0, 0, 25, 0, 0, 0, 0, 0xc0, 0x20, 0, 0, 0xa0, 0x20, 0, 0, 0,
      0xaa, 0xbb, 0xcc, 1, 2, 0, 0x77, 0x77, 0xb0] = some (25, [⟨5, 24⟩]) ∧
    parseRssi [0, 0, 25, 0, 0, 0, 0, 0xc0, 0x20, 0, 0, 0xa0, 0x20, 0, 0, 0,
      0xaa, 0xbb, 0xcc, 1, 2, 0, 0x77, 0x77, 0xb0] = .ok 0xb0 := by
  decide +kernel

example : Spec.rtFields [0, 0, 25, 0, 0, 0, 0, 0xc0, 0x20, 0, 0, 0, 0x20, 0, 0, 0,
      0xaa, 0xbb, 0xcc, 1, 2, 0, 0x77, 0x77, 0xb0] = some (25, []) ∧
    parseRssi [0, 0, 25, 0, 0, 0, 0, 0xc0, 0x20, 0, 0, 0, 0x20, 0, 0, 0,
      0xaa, 0xbb, 0xcc, 1, 2, 0, 0x77, 0x77, 0xb0] = .ok 0 := by
  decide +kernel

end LWV.Props.C09Rssi
