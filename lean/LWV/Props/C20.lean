import LWV.Model.Epoch
/-
C20 — timestamps never run backwards.  `Gen.epochExpr` is the return expression of
`libwifi_get_epoch`, regenerated from the working tree (clang AST) on every run.
-/
namespace LWV.Props.C20
open LWV LWV.Model

theorem eval_of_shape (e : EExpr) (a b : Nat) (h : e.shape = some (a, b)) (s n : Nat) :
    e.eval s n = s * a + n / b := by
  unfold EExpr.shape at h
  split at h <;> simp at h <;> obtain ⟨rfl, rfl⟩ := h <;> simp [EExpr.eval] <;> ac_rfl

/-- monotonicity of `s*A + n/B` over clock readings, given the one side condition that a full
second is worth at least as much as the largest sub-second contribution -/
theorem mono_core (a b : Nat) (hb : 0 < b) (hside : (10 ^ 9 - 1) / b ≤ a)
    (s₁ n₁ s₂ n₂ : Nat) (h₁ : n₁ < 10 ^ 9)
    (hle : s₁ < s₂ ∨ (s₁ = s₂ ∧ n₁ ≤ n₂)) : s₁ * a + n₁ / b ≤ s₂ * a + n₂ / b := by
  rcases hle with hlt | ⟨rfl, hn⟩
  · have h1 : n₁ / b ≤ a := Nat.le_trans (Nat.div_le_div_right (by omega)) hside
    have h2 : (s₁ + 1) * a ≤ s₂ * a := Nat.mul_le_mul_right a hlt
    have h3 : (s₁ + 1) * a = s₁ * a + a := by rw [Nat.add_mul, Nat.one_mul]
    generalize n₁ / b = q₁ at *
    generalize n₂ / b = q₂ at *
    generalize (s₁ + 1) * a = x at *
    generalize s₂ * a = y at *
    generalize s₁ * a = z at *
    omega
  · have := Nat.div_le_div_right (c := b) hn
    generalize n₁ / b = q₁ at *
    generalize n₂ / b = q₂ at *
    omega

/-- the regenerated expression has the shape `sec*A + nsec/B` with B > 0 and the side condition -/
def sideCondition : Bool :=
  match Gen.epochExpr with
  | some e =>
    match e.shape with
    | some (a, b) => decide (0 < b) && decide ((10 ^ 9 - 1) / b ≤ a)
    | none => false
  | none => false

theorem side_holds : sideCondition = true := by decide

/-- **C20** for every pair of clock readings with `t₁ ≤ t₂`, the derived timestamps are ordered. -/
theorem C20_monotone (t₁ t₂ : Timespec) (h₁ : t₁.nsec < 10 ^ 9) (hle : t₁.le t₂) :
    epoch t₁ ≤ epoch t₂ := by
  have hs := side_holds
  unfold sideCondition at hs
  unfold epoch
  cases he : Gen.epochExpr with
  | none => simp [he] at hs
  | some e =>
    simp only [he] at hs ⊢
    cases hsh : e.shape with
    | none => simp [hsh] at hs
    | some ab =>
      obtain ⟨a, b⟩ := ab
      simp only [hsh, Bool.and_eq_true, decide_eq_true_eq] at hs
      rw [eval_of_shape e a b hsh, eval_of_shape e a b hsh]
      exact mono_core a b hs.1 hs.2 _ _ _ _ h₁ hle

/-- "one consistent unit": the result is the total number of nanoseconds divided by a fixed unit -/
def unitCondition : Bool :=
  match Gen.epochExpr with
  | some e =>
    match e.shape with
    | some (a, b) => decide (0 < b) && decide (a * b = 10 ^ 9)
    | none => false
  | none => false

theorem unit_holds : unitCondition = true := by decide

theorem C20_unit : ∃ U, 0 < U ∧ ∀ t : Timespec, epoch t = (t.sec * 10 ^ 9 + t.nsec) / U := by
  have hs := unit_holds
  unfold unitCondition at hs
  cases he : Gen.epochExpr with
  | none => simp [he] at hs
  | some e =>
    simp only [he] at hs
    cases hsh : e.shape with
    | none => simp [hsh] at hs
    | some ab =>
      obtain ⟨a, b⟩ := ab
      simp only [hsh, Bool.and_eq_true, decide_eq_true_eq] at hs
      refine ⟨b, hs.1, fun t => ?_⟩
      unfold epoch
      simp only [he]
      rw [eval_of_shape e a b hsh, ← hs.2, ← Nat.mul_assoc, Nat.mul_comm (t.sec * a) b, Nat.mul_add_div hs.1]

/-- the multiplier is small enough that `sec < 2^43` keeps the signed 64-bit computation exact -/
def ovfCondition : Bool :=
  match Gen.epochExpr with
  | some e =>
    match e.shape with
    | some (a, b) => decide (0 < b) && decide (a ≤ 10 ^ 6)
    | none => false
  | none => false

theorem ovf_holds : ovfCondition = true := by decide

/-- no intermediate value of the C computation (signed 64-bit) overflows under the guard -/
theorem C20_no_overflow (t : Timespec) (hs : t.sec < 2 ^ 43) (hn : t.nsec < 10 ^ 9) :
    epoch t < 2 ^ 63 := by
  have hu := ovf_holds
  unfold ovfCondition at hu
  unfold epoch
  cases he : Gen.epochExpr with
  | none => simp [he] at hu
  | some e =>
    simp only [he] at hu ⊢
    cases hsh : e.shape with
    | none => simp [hsh] at hu
    | some ab =>
      obtain ⟨a, b⟩ := ab
      simp only [hsh, Bool.and_eq_true, decide_eq_true_eq] at hu
      rw [eval_of_shape e a b hsh]
      have h1 : t.sec * a ≤ 2 ^ 43 * 10 ^ 6 := Nat.mul_le_mul (Nat.le_of_lt hs) hu.2
      have h2 : t.nsec / b ≤ t.nsec := Nat.div_le_self _ _
      generalize t.nsec / b = q at *
      generalize t.sec * a = y at *
      omega

/-! non-vacuity: a pair straddling a second boundary satisfies the hypotheses -/
example : (⟨0, 999999999⟩ : Timespec).le ⟨1, 0⟩ ∧ (999999999 : Nat) < 10 ^ 9 := by
  constructor
  · exact Or.inl (by decide)
  · decide

end LWV.Props.C20
