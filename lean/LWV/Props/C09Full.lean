import LWV.Lemmas.RtSafe
import LWV.Props.C09
import LWV.Props.C10
/-
C09 (full) — the model of the radiotap parser (`Model.parseRadiotapInfo`, built on the model of the
vendored iterator `rtInit` / `rtNext`) decodes radiotap headers exactly as the declarative
specification (`Spec.rtFields` / `Spec.rtValues`) says: for EVERY byte string the Spec accepts
(any number of present words, namespace resets, vendor namespaces, undefined fields, fields running
past `it_len`) the parser returns 0 and the values it reports are the Spec's (`C09_decode_full`).
Corollaries: the single-word case (`C09_decode_single`) and the statement left open in
`Props/C09.lean` (`C09_decode`).
Second part (C10): decoding the header generated for a description of carried fields gives back the
supplied values (`C10_roundtrip`, `C10_roundtrip_fields`, and the statement left open in
`Props/C10.lean`: `C10_roundtrip_statement`).
-/
set_option linter.unusedSimpArgs false
namespace LWV.Props.C09Full
open LWV LWV.Model

def valuesOf (i : RtInfo) : Spec.RtValues :=
  { length := i.length, chanFreq := i.chanFreq, chanFlags := i.chanFlags, chanCenter := i.chanCenter,
    chanBand := i.chanBand, rateRaw := i.rateRaw, signal := i.signal,
    antennas := i.antennas.take i.antennaCount, flags := i.flags, rxFlags := i.rxFlags, txFlags := i.txFlags,
    mcs := (i.mcsKnown, i.mcsFlags, i.mcsMcs), txPower := i.txPower,
    ts := (i.tsTimestamp, i.tsAccuracy, i.tsUnit, i.tsFlags), rtsRetries := i.rtsRetries,
    dataRetries := i.dataRetries }

theorem maxAnt : Gen.m_LIBWIFI_MAX_RADIOTAP_ANTENNAS = 16 := by decide

/-! ### reads -/

theorem leNat_take_succ (bs : Bytes) (i n : Nat) (h : i < bs.length) :
    leNat ((bs.drop i).take (n + 1)) = Spec.u8 bs i + 256 * leNat ((bs.drop (i + 1)).take n) := by
  rw [List.drop_eq_getElem_cons h, List.take_succ_cons]
  simp [leNat, Spec.u8, List.getD_eq_getElem?_getD, List.getElem?_eq_getElem h]

theorem leNat_take4 (bs : Bytes) (i : Nat) (h : i + 4 ≤ bs.length) :
    leNat ((bs.drop i).take 4) = Spec.u32 bs i := by
  rw [leNat_take_succ _ _ _ (by omega), leNat_take_succ _ _ _ (by omega), leNat_take_succ _ _ _ (by omega),
    leNat_take_succ _ _ _ (by omega)]
  simp only [List.take_zero, leNat, Spec.u32, Spec.u16, Nat.add_assoc, Nat.reduceAdd]
  omega

theorem leNat_take8 (bs : Bytes) (i : Nat) (h : i + 8 ≤ bs.length) :
    leNat ((bs.drop i).take 8) = Spec.u64 bs i := by
  rw [leNat_take_succ _ _ _ (by omega), leNat_take_succ _ _ _ (by omega), leNat_take_succ _ _ _ (by omega),
    leNat_take_succ _ _ _ (by omega), leNat_take_succ _ _ _ (by omega), leNat_take_succ _ _ _ (by omega),
    leNat_take_succ _ _ _ (by omega), leNat_take_succ _ _ _ (by omega)]
  simp only [List.take_zero, leNat, Spec.u64, Spec.u32, Spec.u16, Nat.add_assoc, Nat.reduceAdd]
  omega

theorem rd_u8 {what : String} {bs : Bytes} {i : Nat} (h : i < bs.length) :
    rd what bs i = .ok (bs.getD i 0) := rd_eq h

theorem le16At_u16 {what : String} {bs : Bytes} {i : Nat} (h : i + 2 ≤ bs.length) :
    le16At what bs i = .ok (Spec.u16 bs i) := by
  rw [le16At_eq h]; rfl

theorem le32At_u32 {what : String} {bs : Bytes} {i : Nat} (h : i + 4 ≤ bs.length) :
    le32At what bs i = .ok (Spec.u32 bs i) := by
  unfold le32At rdSlice
  rw [if_pos h]
  simp only [Outcome.bind_ok]
  rw [leNat_take4 bs i h]

theorem le64At_u64 {what : String} {bs : Bytes} {i : Nat} (h : i + 8 ≤ bs.length) :
    le64At what bs i = .ok (Spec.u64 bs i) := by
  rw [le64At_eq h, leNat_take8 bs i h]


/-! ### the parser's `switch` against `Spec.valueStep` -/

theorem channel_lt (f : Nat) : (Spec.channelOf f).2 < 256 := by
  unfold Spec.channelOf
  repeat' split
  all_goals simp only []
  all_goals omega

theorem set_last {α} (l : List α) (x d : α) (h : 0 < l.length) :
    l.set (l.length - 1) x = l.dropLast ++ [x] ∧ l.getLast? = some (l.getD (l.length - 1) d) := by
  have hne : l ≠ [] := by intro h'; rw [h'] at h; simp at h
  obtain ⟨l', y, rfl⟩ : ∃ l' y, l = l' ++ [y] := ⟨l.dropLast, l.getLast hne, (List.dropLast_concat_getLast hne).symm⟩
  simp

theorem rtField_other (bs : Bytes) (it : RtIt) (st : RtInfo × Bool)
    (hk : it.thisArgIndex ≠ 1 ∧ it.thisArgIndex ≠ 2 ∧ it.thisArgIndex ≠ 3 ∧ it.thisArgIndex ≠ 5 ∧ it.thisArgIndex ≠ 10 ∧
      it.thisArgIndex ≠ 11 ∧ it.thisArgIndex ≠ 14 ∧ it.thisArgIndex ≠ 15 ∧ it.thisArgIndex ≠ 16 ∧ it.thisArgIndex ≠ 17 ∧
      it.thisArgIndex ≠ 19 ∧ it.thisArgIndex ≠ 22) : rtField bs it st = .ok st := by
  unfold rtField
  simp only []
  split
  all_goals first
    | rfl
    | (exfalso; omega)

theorem valueStep_other (bs : Bytes) (m : Nat) (s : Spec.RtValues × Bool) (f : Spec.RtField)
    (hk : f.field ≠ 1 ∧ f.field ≠ 2 ∧ f.field ≠ 3 ∧ f.field ≠ 5 ∧ f.field ≠ 10 ∧
      f.field ≠ 11 ∧ f.field ≠ 14 ∧ f.field ≠ 15 ∧ f.field ≠ 16 ∧ f.field ≠ 17 ∧
      f.field ≠ 19 ∧ f.field ≠ 22) : Spec.valueStep bs m s f = s := by
  unfold Spec.valueStep
  simp only []
  split
  all_goals first
    | rfl
    | (exfalso; omega)

theorem rtField_sim {bs : Bytes} {it : RtIt} (acc : RtInfo × Bool)
    (hlen : acc.1.antennas.length = acc.1.antennaCount) (hok : RtArgOk bs it) :
    ∃ acc', rtField bs it acc = .ok acc' ∧ acc'.1.antennas.length = acc'.1.antennaCount ∧
      (valuesOf acc'.1, acc'.2) = Spec.valueStep bs 16 (valuesOf acc.1, acc.2) ⟨it.thisArgIndex, it.thisArg⟩ := by
  obtain ⟨s1, s2, s3, s5, s10, s11, s14, s15, s16, s17, s19, s22⟩ := rtSize_handled
  by_cases hdef : it.thisArgIndex ≠ 1 ∧ it.thisArgIndex ≠ 2 ∧ it.thisArgIndex ≠ 3 ∧ it.thisArgIndex ≠ 5 ∧
      it.thisArgIndex ≠ 10 ∧ it.thisArgIndex ≠ 11 ∧ it.thisArgIndex ≠ 14 ∧ it.thisArgIndex ≠ 15 ∧ it.thisArgIndex ≠ 16 ∧
      it.thisArgIndex ≠ 17 ∧ it.thisArgIndex ≠ 19 ∧ it.thisArgIndex ≠ 22
  · rw [rtField_other bs it acc hdef, valueStep_other bs 16 _ ⟨it.thisArgIndex, it.thisArg⟩ hdef]
    exact ⟨_, rfl, hlen, rfl⟩
  obtain ⟨info, sk⟩ := acc
  simp only [] at hlen
  unfold RtArgOk at hok
  unfold rtField Spec.valueStep
  simp only []
  generalize it.thisArgIndex = k at *
  generalize it.thisArg = a at *
  generalize it.thisArgSize = sz at *
  have hk : k = 1 ∨ k = 2 ∨ k = 3 ∨ k = 5 ∨ k = 10 ∨ k = 11 ∨ k = 14 ∨ k = 15 ∨ k = 16 ∨ k = 17 ∨ k = 19 ∨ k = 22 := by omega
  rcases hk with rfl | rfl | rfl | rfl | rfl | rfl | rfl | rfl | rfl | rfl | rfl | rfl
  · have hb : a + 1 ≤ bs.length := by rcases hok with h | h | ⟨h1, h2⟩ <;> omega
    simp (disch := omega) only [rd_eq, le16At_u16, le64At_u64, Outcome.bind_ok]
    exact ⟨_, rfl, hlen, rfl⟩
  · have hb : a + 1 ≤ bs.length := by rcases hok with h | h | ⟨h1, h2⟩ <;> omega
    simp (disch := omega) only [rd_eq, le16At_u16, le64At_u64, Outcome.bind_ok]
    exact ⟨_, rfl, hlen, rfl⟩
  · have hb : a + 4 ≤ bs.length := by rcases hok with h | h | ⟨h1, h2⟩ <;> omega
    simp (disch := omega) only [rd_eq, le16At_u16, le64At_u64, Outcome.bind_ok]
    refine ⟨_, rfl, hlen, ?_⟩
    simp only [valuesOf, C09.C09_band, Nat.mod_eq_of_lt (channel_lt _)]
  · have hb : a + 1 ≤ bs.length := by rcases hok with h | h | ⟨h1, h2⟩ <;> omega
    simp (disch := omega) only [rd_eq, le16At_u16, le64At_u64, Outcome.bind_ok]
    have htake : List.take info.antennaCount info.antennas = info.antennas := by rw [← hlen, List.take_length]
    rw [maxAnt]
    cases sk with
    | false => exact ⟨_, rfl, hlen, rfl⟩
    | true =>
      simp only [valuesOf, htake, hlen]
      by_cases hc : info.antennaCount < 16
      · simp only [hc, if_true, Bool.not_true, Bool.false_eq_true, if_false, not_true_eq_false]
        refine ⟨_, rfl, by simp only [List.length_append, List.length_cons, List.length_nil, hlen], ?_⟩
        simp only []
        rw [List.take_of_length_le (by simp [hlen])]
        rfl
      · simp only [hc, if_false, Bool.not_true, Bool.false_eq_true, not_true_eq_false]
        exact ⟨_, rfl, hlen, by simp only [htake]⟩
  · have hb : a + 1 ≤ bs.length := by rcases hok with h | h | ⟨h1, h2⟩ <;> omega
    simp (disch := omega) only [rd_eq, le16At_u16, le64At_u64, Outcome.bind_ok]
    exact ⟨_, rfl, hlen, rfl⟩
  · have hb : a + 1 ≤ bs.length := by rcases hok with h | h | ⟨h1, h2⟩ <;> omega
    simp (disch := omega) only [rd_eq, le16At_u16, le64At_u64, Outcome.bind_ok]
    have htake : List.take info.antennaCount info.antennas = info.antennas := by rw [← hlen, List.take_length]
    simp only [valuesOf, htake]
    by_cases hc : info.antennaCount > 0
    · obtain ⟨h1, h2⟩ := set_last info.antennas ((bs.getD a 0).toNat, (info.antennas.getD (info.antennas.length - 1) (0, 0)).snd) (0, 0) (by omega)
      simp only [hc, if_true, h2, setNth]
      refine ⟨_, rfl, by simp only [List.length_set, hlen], ?_⟩
      simp only []
      rw [List.take_of_length_le (by simp [hlen]), ← hlen, h1]
      rfl
    · have : info.antennas = [] := List.eq_nil_of_length_eq_zero (by omega)
      simp only [hc, if_false, this, List.getLast?_nil]
      exact ⟨_, rfl, hlen, by simp only [this, List.take_nil]⟩
  · have hb : a + 2 ≤ bs.length := by rcases hok with h | h | ⟨h1, h2⟩ <;> omega
    simp (disch := omega) only [rd_eq, le16At_u16, le64At_u64, Outcome.bind_ok]
    exact ⟨_, rfl, hlen, rfl⟩
  · have hb : a + 2 ≤ bs.length := by rcases hok with h | h | ⟨h1, h2⟩ <;> omega
    simp (disch := omega) only [rd_eq, le16At_u16, le64At_u64, Outcome.bind_ok]
    exact ⟨_, rfl, hlen, rfl⟩
  · have hb : a + 1 ≤ bs.length := by rcases hok with h | h | ⟨h1, h2⟩ <;> omega
    simp (disch := omega) only [rd_eq, le16At_u16, le64At_u64, Outcome.bind_ok]
    exact ⟨_, rfl, hlen, rfl⟩
  · have hb : a + 1 ≤ bs.length := by rcases hok with h | h | ⟨h1, h2⟩ <;> omega
    simp (disch := omega) only [rd_eq, le16At_u16, le64At_u64, Outcome.bind_ok]
    exact ⟨_, rfl, hlen, rfl⟩
  · have hb : a + 3 ≤ bs.length := by rcases hok with h | h | ⟨h1, h2⟩ <;> omega
    simp (disch := omega) only [rd_eq, le16At_u16, le64At_u64, Outcome.bind_ok]
    exact ⟨_, rfl, hlen, rfl⟩
  · have hb : a + 12 ≤ bs.length := by rcases hok with h | h | ⟨h1, h2⟩ <;> omega
    simp (disch := omega) only [rd_eq, le16At_u16, le64At_u64, Outcome.bind_ok]
    exact ⟨_, rfl, hlen, rfl⟩

/-! ### the iterator, one trip of `rtNext` at a time (bits 0..28) -/

theorem align_eq (off a : Nat) (ha : 0 < a) :
    (if off % a ≠ 0 then off + (a - off % a) else off) = Spec.alignUp off a := by
  unfold Spec.alignUp
  have hdm := Nat.div_add_mod off a
  have hlt := Nat.mod_lt off ha
  generalize off / a = q at hdm
  generalize off % a = r at hdm hlt ⊢
  by_cases hr : r = 0
  · subst hr
    simp only [ne_eq, not_true_eq_false, if_false]
    have : off + a - 1 = a * q + (a - 1) := by omega
    rw [this, Nat.mul_add_div ha, Nat.div_eq_of_lt (by omega), Nat.add_zero, Nat.mul_comm]; omega
  · simp only [ne_eq, hr, not_false_eq_true, if_true]
    have : off + a - 1 = a * (q + 1) + (r - 1) := by rw [Nat.mul_add]; omega
    rw [this, Nat.mul_add_div ha, Nat.div_eq_of_lt (by omega), Nat.add_zero, Nat.mul_comm, Nat.mul_add]; omega

theorem table_lookup_lt : ∀ b, b < 23 →
    Spec.rtTable.find? (fun e => e.1 == b) =
      if rtAlign b ≠ 0 then some (b, rtAlign b, rtSize b) else none := by decide +kernel

theorem table_fields_lt : ∀ e ∈ Spec.rtTable, e.1 < 23 := by decide

theorem table_lookup (b : Nat) :
    Spec.rtTable.find? (fun e => e.1 == b) =
      if b < Gen.rtapNBits ∧ rtAlign b ≠ 0 then some (b, rtAlign b, rtSize b) else none := by
  have hN : Gen.rtapNBits = 23 := by decide
  rw [hN]
  by_cases hb : b < 23
  · rw [table_lookup_lt b hb]; simp [hb]
  · have : ¬ (b < 23 ∧ rtAlign b ≠ 0) := fun h => hb h.1
    rw [if_neg this, List.find?_eq_none]
    intro e he
    have := table_fields_lt e he
    simp; omega

theorem rtNext_absent (bs : Bytes) (fuel : Nat) (it : RtIt) (hp : it.shifter % 2 = 0) (h31 : it.argIndex % 32 ≠ 31) :
    rtNext bs (fuel + 1) it = rtNext bs fuel (nextEntry it) := by
  rw [rtNext]
  simp [hp, h31]

theorem rtNext_end (bs : Bytes) (fuel : Nat) (it : RtIt) (hp : it.shifter % 2 = 0) (h31 : it.argIndex % 32 = 31) :
    rtNext bs (fuel + 1) it = .ok (.stop (-ENOENT)) := by
  rw [rtNext]
  simp [hp, h31]

theorem rtNext_beyond (bs : Bytes) (fuel : Nat) (it : RtIt) (hp : it.shifter % 2 = 1) (hb : it.argIndex % 32 < 29)
    (hns : it.inRadiotapNs = true) (hn : Gen.rtapNBits ≤ it.argIndex ∨ rtAlign it.argIndex = 0) :
    rtNext bs (fuel + 1) it = .ok (.stop (-ENOENT)) := by
  rw [rtNext]
  have h1 : it.argIndex % 32 ≠ 31 := by omega
  have h2 : it.argIndex % 32 ≠ 29 := by omega
  have h3 : it.argIndex % 32 ≠ 30 := by omega
  by_cases hN : Gen.rtapNBits ≤ it.argIndex
  · simp [hp, h1, h2, h3, hns, hN]
  · have ha : rtAlign it.argIndex = 0 := by rcases hn with h | h; exact absurd h hN; exact h
    simp [hp, h1, h2, h3, hns, hN, ha]

/-- in a vendor namespace (none is registered) a present field is skipped: the argument pointer is
moved to the end of the namespace's data -/
theorem rtNext_giveup (bs : Bytes) (fuel : Nat) (it : RtIt) (hp : it.shifter % 2 = 1) (hb : it.argIndex % 32 < 29)
    (h : it.inRadiotapNs = false) :
    rtNext bs (fuel + 1) it = rtNext bs fuel (nextEntry { it with arg := it.nextNsData, inRadiotapNs := false }) := by
  rw [rtNext]
  have h1 : it.argIndex % 32 ≠ 31 := by omega
  have h2 : it.argIndex % 32 ≠ 29 := by omega
  have h3 : it.argIndex % 32 ≠ 30 := by omega
  simp [hp, h1, h2, h3, h]

theorem rtNext_field (bs : Bytes) (fuel : Nat) (it : RtIt) (hp : it.shifter % 2 = 1) (hb : it.argIndex % 32 < 29)
    (hns : it.inRadiotapNs = true) (hn : it.argIndex < Gen.rtapNBits) (ha : rtAlign it.argIndex ≠ 0) :
    rtNext bs (fuel + 1) it =
      if Spec.alignUp it.arg (rtAlign it.argIndex) + rtSize it.argIndex > it.maxLength then .ok (.stop (-EINVAL))
      else .ok (.hit (nextEntry { it with thisArgIndex := it.argIndex, thisArg := Spec.alignUp it.arg (rtAlign it.argIndex),
                                          thisArgSize := rtSize it.argIndex,
                                          arg := Spec.alignUp it.arg (rtAlign it.argIndex) + rtSize it.argIndex })) := by
  rw [rtNext]
  have h1 : it.argIndex % 32 ≠ 31 := by omega
  have h2 : it.argIndex % 32 ≠ 29 := by omega
  have h3 : it.argIndex % 32 ≠ 30 := by omega
  have hn' : ¬ (Gen.rtapNBits ≤ it.argIndex) := by omega
  rw [← align_eq it.arg _ (Nat.pos_of_ne_zero ha)]
  simp [hp, h1, h2, h3, hns, hn', ha]


/-! ### Spec side: one step of `placeBits` -/

theorem placeBits_absent (itLen w n b : Nat) (st : Spec.Walk) (h : w.testBit b = false)
    (hs : st.stopped = false) (hb : st.bad = false) :
    Spec.placeBits itLen w (n + 1) b st = Spec.placeBits itLen w n (b + 1) st := by
  rw [Spec.placeBits]
  simp [h, hs, hb]

theorem placeBits_done (itLen w n b : Nat) (st : Spec.Walk) (h : (st.stopped || st.bad) = true) :
    Spec.placeBits itLen w n b st = st := by
  cases n with
  | zero => rfl
  | succ n => rw [Spec.placeBits]; simp only [h, if_true]

theorem placeBits_rt (itLen w n b : Nat) (st : Spec.Walk) (h : w.testBit b = true)
    (hs : st.stopped = false) (hb : st.bad = false) (hns : st.ns = .radiotap) :
    Spec.placeBits itLen w (n + 1) b st =
      if st.base + b < Gen.rtapNBits ∧ rtAlign (st.base + b) ≠ 0 then
        if Spec.alignUp st.off (rtAlign (st.base + b)) + rtSize (st.base + b) > itLen then { st with bad := true }
        else Spec.placeBits itLen w n (b + 1)
          { st with off := Spec.alignUp st.off (rtAlign (st.base + b)) + rtSize (st.base + b),
                    fields := st.fields ++ [⟨st.base + b, Spec.alignUp st.off (rtAlign (st.base + b))⟩] }
      else { st with stopped := true } := by
  rw [Spec.placeBits]
  by_cases hc : st.base + b < Gen.rtapNBits ∧ rtAlign (st.base + b) ≠ 0
  · rw [table_lookup, if_pos hc, if_pos hc]
    simp only [h, hs, hb, hns, Bool.or_self, Bool.false_eq_true, if_false, if_true]
  · rw [table_lookup, if_neg hc, if_neg hc]
    simp only [h, hs, hb, hns, Bool.or_self, Bool.false_eq_true, if_false, if_true]


theorem testBit_shifter (w b : Nat) : w.testBit b = decide (w / 2 ^ b % 2 = 1) :=
  Nat.testBit_eq_decide_div_mod_eq

/-! ### the header checks -/

theorem rtFields_some {bs : Bytes} {itLen : Nat} {fields : List Spec.RtField}
    (h : Spec.rtFields bs = some (itLen, fields)) :
    8 ≤ bs.length ∧ Spec.u8 bs 0 = 0 ∧ itLen = Spec.u16 bs 2 ∧ 8 ≤ itLen ∧ itLen ≤ bs.length ∧ itLen ≤ 255 ∧
      ∃ ws, Spec.presentWords bs itLen 64 4 = some ws ∧
        fields = (ws.foldl (fun st w => Spec.walkWord bs itLen w st)
          ⟨4 + 4 * ws.length, .radiotap, 0, [], false, false⟩).fields := by
  unfold Spec.rtFields at h
  split at h
  · cases h
  rename_i h8
  simp only [] at h
  split at h
  · cases h
  rename_i hc
  split at h
  · cases h
  rename_i ws hws
  cases h
  exact ⟨by omega, by omega, rfl, by omega, by omega, by omega, ws, hws, rfl⟩

theorem testBit_of_lt {w b k : Nat} (hw : w < 2 ^ k) (hb : k ≤ b) : w.testBit b = false :=
  Nat.testBit_lt_two_pow (Nat.lt_of_lt_of_le hw (Nat.pow_le_pow_right (by decide) hb))

/-- the freshly initialised iterator: length `itLen`, first present word `w`, data starting at `arg` -/
def it0 (itLen w arg : Nat) : RtIt :=
  { maxLength := itLen, argIndex := 0, shifter := w, arg := arg, nextNsData := wildOffset, nextBitmap := 8,
    resetOnExt := false, inRadiotapNs := true, thisArg := arg, thisArgIndex := 0, thisArgSize := 0 }

/-! ### the chain of present words: `rtInit` against `Spec.presentWords` -/

theorem presentWords_skip (bs : Bytes) (itLen : Nat) (hlen : itLen ≤ bs.length) :
    ∀ (f off : Nat) (ws : List Nat), Spec.presentWords bs itLen f off = some ws →
      ∀ fm, bs.length < fm + off → rtInit.skip bs itLen fm off = .ok (off + 4 * ws.length) := by
  intro f
  induction f with
  | zero => intro off ws h; rw [Spec.presentWords] at h; cases h
  | succ f ih =>
    intro off ws h fm hfm
    rw [Spec.presentWords] at h
    split at h
    · cases h
    rename_i hoff
    obtain ⟨fm, rfl⟩ : ∃ k, fm = k + 1 := ⟨fm - 1, by omega⟩
    rw [rtInit.skip, le32At_u32 (by omega)]
    simp only [Outcome.bind_ok]
    simp only [] at h
    by_cases hb : (Spec.u32 bs off).testBit 31 = true
    · simp only [hb, if_true] at h ⊢
      cases hr : Spec.presentWords bs itLen f (off + 4) with
      | none => rw [hr] at h; cases h
      | some ws' =>
        rw [hr] at h
        cases h
        have hfit : ¬ (off + 4 + 4 > itLen) := by
          cases f with
          | zero => rw [Spec.presentWords] at hr; cases hr
          | succ f =>
            rw [Spec.presentWords] at hr
            split at hr
            · cases hr
            · assumption
        rw [if_neg hfit, ih (off + 4) ws' hr fm (by omega)]
        simp only [List.length_cons]
        congr 1; omega
    · simp only [hb, Bool.false_eq_true, if_false] at h ⊢
      cases h; rfl


theorem presentWords_fit {bs : Bytes} {itLen f off : Nat} {ws : List Nat}
    (h : Spec.presentWords bs itLen f off = some ws) : off + 4 ≤ itLen := by
  cases f with
  | zero => rw [Spec.presentWords] at h; cases h
  | succ f =>
    rw [Spec.presentWords] at h
    split at h
    · cases h
    · omega

theorem presentWords_cons {bs : Bytes} {itLen f off : Nat} {ws : List Nat}
    (h : Spec.presentWords bs itLen (f + 1) off = some ws) :
    ∃ rest, ws = Spec.u32 bs off :: rest ∧
      if (Spec.u32 bs off).testBit 31 then Spec.presentWords bs itLen f (off + 4) = some rest else rest = [] := by
  rw [Spec.presentWords] at h
  split at h
  · cases h
  simp only [] at h
  by_cases hb : (Spec.u32 bs off).testBit 31 = true
  · simp only [hb, if_true] at h ⊢
    cases hr : Spec.presentWords bs itLen f (off + 4) with
    | none => rw [hr] at h; cases h
    | some ws' => rw [hr] at h; cases h; exact ⟨ws', rfl, rfl⟩
  · simp only [hb, Bool.false_eq_true, if_false] at h ⊢
    cases h; exact ⟨[], rfl, rfl⟩

/-- `rtInit` on a header the Spec accepts: the iterator starts at the first present word with the
argument pointer just after the chain of present words -/
theorem rtInit_general {bs : Bytes} {ws : List Nat} (h8 : 8 ≤ bs.length) (hv : Spec.u8 bs 0 = 0)
    (hl : Spec.u16 bs 2 ≤ bs.length) (hws : Spec.presentWords bs (Spec.u16 bs 2) 64 4 = some ws) :
    rtInit bs bs.length = .ok (it0 (Spec.u16 bs 2) (Spec.u32 bs 4) (4 + 4 * ws.length)) := by
  obtain ⟨rest, hcons, hrest⟩ := presentWords_cons hws
  have hfit := presentWords_fit hws
  unfold rtInit it0
  have hv' : (bs.getD 0 0).toNat = 0 := hv
  rw [if_neg (by omega), rd_eq (by omega)]
  simp only [Outcome.bind_ok, hv', ne_eq, not_true_eq_false, if_false]
  rw [le16At_u16 (by omega)]
  simp only [Outcome.bind_ok]
  rw [if_neg (by omega), le32At_u32 (by omega)]
  simp only [Outcome.bind_ok]
  by_cases hb : (Spec.u32 bs 4).testBit 31 = true
  · simp only [hb, if_true] at hrest ⊢
    have hfit2 := presentWords_fit hrest
    rw [if_neg (by omega), presentWords_skip bs _ hl _ _ _ hrest (bs.length + 1) (by omega)]
    simp only [Outcome.bind_ok, hcons, List.length_cons]
    have : 8 + 4 * rest.length = 4 + 4 * (rest.length + 1) := by omega
    rw [this]
  · simp only [hb, Bool.false_eq_true, if_false] at hrest ⊢
    rw [hcons, hrest]
    rfl

/-! ### general headers: Spec side, `walkWord` cut at bits 29 / 30 / 31 -/

/-- the end of a word: numbering of the next word's fields -/
def tail31 (w : Nat) (st : Spec.Walk) : Spec.Walk :=
  { st with base := if w.testBit 30 then 0 else if w.testBit 29 then 0 else st.base + 32 }

/-- bit 30 of a word: a vendor namespace descriptor follows the word's fields -/
def tail30 (bs : Bytes) (itLen w : Nat) (st : Spec.Walk) : Spec.Walk :=
  if w.testBit 30 then
    if Spec.alignUp st.off 2 + 6 > itLen then { st with bad := true }
    else if Spec.alignUp st.off 2 + 6 + Spec.u16 bs (Spec.alignUp st.off 2 + 4) > itLen then { st with bad := true }
    else tail31 w { st with off := Spec.alignUp st.off 2 + 6 + Spec.u16 bs (Spec.alignUp st.off 2 + 4), ns := .vendor }
  else tail31 w st

/-- bit 29 of a word: back to the radiotap namespace -/
def tail29 (bs : Bytes) (itLen w : Nat) (st : Spec.Walk) : Spec.Walk :=
  tail30 bs itLen w (if w.testBit 29 then { st with ns := .radiotap } else st)

theorem walkWord_eq (bs : Bytes) (itLen w : Nat) (st : Spec.Walk) :
    Spec.walkWord bs itLen w st =
      if ((Spec.placeBits itLen w 29 0 st).stopped || (Spec.placeBits itLen w 29 0 st).bad) = true
      then Spec.placeBits itLen w 29 0 st else tail29 bs itLen w (Spec.placeBits itLen w 29 0 st) := by
  unfold Spec.walkWord tail29 tail30 tail31
  simp only []
  repeat' split
  all_goals first
    | rfl
    | (exfalso; simp_all; done)


/-- what remains of the walk of word `w` from bit `b` on (`b = 30`: after the bit-29 switch,
`b = 31`: after the vendor descriptor) -/
def finish (bs : Bytes) (itLen w b : Nat) (st : Spec.Walk) : Spec.Walk :=
  if b ≤ 29 then
    if ((Spec.placeBits itLen w (29 - b) b st).stopped || (Spec.placeBits itLen w (29 - b) b st).bad) = true
    then Spec.placeBits itLen w (29 - b) b st else tail29 bs itLen w (Spec.placeBits itLen w (29 - b) b st)
  else if b = 30 then tail30 bs itLen w st
  else tail31 w st

/-- the final state of the Spec's walk, from bit `b` of word `w` with the words `rest` still to come -/
def fin (bs : Bytes) (itLen w : Nat) (rest : List Nat) (b : Nat) (st : Spec.Walk) : Spec.Walk :=
  rest.foldl (fun st w => Spec.walkWord bs itLen w st) (finish bs itLen w b st)

theorem walkWord_finish (bs : Bytes) (itLen w : Nat) (st : Spec.Walk) :
    Spec.walkWord bs itLen w st = finish bs itLen w 0 st := by
  rw [walkWord_eq]; rfl

theorem walkWord_done (bs : Bytes) (itLen w : Nat) (st : Spec.Walk) (h : (st.stopped || st.bad) = true) :
    Spec.walkWord bs itLen w st = st := by
  rw [walkWord_eq, placeBits_done _ _ _ _ _ h, if_pos h]

theorem walk_done (bs : Bytes) (itLen : Nat) (rest : List Nat) (st : Spec.Walk) (h : (st.stopped || st.bad) = true) :
    rest.foldl (fun st w => Spec.walkWord bs itLen w st) st = st := by
  induction rest with
  | nil => rfl
  | cons w rest ih => rw [List.foldl_cons, walkWord_done _ _ _ _ h, ih]

theorem finish_absent (bs : Bytes) (itLen w b : Nat) (st : Spec.Walk) (hb : b < 29) (h : w.testBit b = false)
    (hs : st.stopped = false) (hbad : st.bad = false) : finish bs itLen w b st = finish bs itLen w (b + 1) st := by
  unfold finish
  rw [if_pos (show b ≤ 29 by omega), if_pos (show b + 1 ≤ 29 by omega), show 29 - b = (29 - (b + 1)) + 1 by omega,
    placeBits_absent _ _ _ _ _ h hs hbad]

theorem finish_vendor (bs : Bytes) (itLen w b : Nat) (st : Spec.Walk) (hb : b < 29) (h : w.testBit b = true)
    (hs : st.stopped = false) (hbad : st.bad = false) (hns : st.ns = .vendor) :
    finish bs itLen w b st = finish bs itLen w (b + 1) st := by
  unfold finish
  rw [if_pos (show b ≤ 29 by omega), if_pos (show b + 1 ≤ 29 by omega), show 29 - b = (29 - (b + 1)) + 1 by omega]
  conv => lhs; rw [Spec.placeBits]
  simp [h, hs, hbad, hns]

theorem finish_rt (bs : Bytes) (itLen w b : Nat) (st : Spec.Walk) (hb : b < 29) (h : w.testBit b = true)
    (hs : st.stopped = false) (hbad : st.bad = false) (hns : st.ns = .radiotap) :
    finish bs itLen w b st =
      if st.base + b < Gen.rtapNBits ∧ rtAlign (st.base + b) ≠ 0 then
        if Spec.alignUp st.off (rtAlign (st.base + b)) + rtSize (st.base + b) > itLen then { st with bad := true }
        else finish bs itLen w (b + 1)
          { st with off := Spec.alignUp st.off (rtAlign (st.base + b)) + rtSize (st.base + b),
                    fields := st.fields ++ [⟨st.base + b, Spec.alignUp st.off (rtAlign (st.base + b))⟩] }
      else { st with stopped := true } := by
  unfold finish
  rw [if_pos (show b ≤ 29 by omega), if_pos (show b + 1 ≤ 29 by omega), show 29 - b = (29 - (b + 1)) + 1 by omega,
    placeBits_rt _ _ _ _ _ h hs hbad hns]
  split
  · split
    · simp
    · rfl
  · simp

theorem finish_29 (bs : Bytes) (itLen w : Nat) (st : Spec.Walk) (hs : st.stopped = false) (hbad : st.bad = false) :
    finish bs itLen w 29 st = finish bs itLen w 30 (if w.testBit 29 then { st with ns := .radiotap } else st) := by
  unfold finish
  simp [Spec.placeBits, hs, hbad, tail29]

theorem finish_30 (bs : Bytes) (itLen w : Nat) (st : Spec.Walk) :
    finish bs itLen w 30 st =
      if w.testBit 30 then
        if Spec.alignUp st.off 2 + 6 > itLen then { st with bad := true }
        else if Spec.alignUp st.off 2 + 6 + Spec.u16 bs (Spec.alignUp st.off 2 + 4) > itLen then { st with bad := true }
        else finish bs itLen w 31
          { st with off := Spec.alignUp st.off 2 + 6 + Spec.u16 bs (Spec.alignUp st.off 2 + 4), ns := .vendor }
      else finish bs itLen w 31 st := by
  unfold finish
  simp [tail30]

theorem fin_31 (bs : Bytes) (itLen w w' : Nat) (rest : List Nat) (st : Spec.Walk) :
    fin bs itLen w (w' :: rest) 31 st = fin bs itLen w' rest 0 (tail31 w st) := by
  unfold fin
  rw [List.foldl_cons, walkWord_finish]
  simp [finish]


/-! ### general headers: model side, bits 29 / 30 / 31 -/

theorem rtNext_ns29 (bs : Bytes) (fuel : Nat) (it : RtIt) (hp : it.shifter % 2 = 1) (hb : it.argIndex % 32 = 29)
    (hfit : it.arg ≤ it.maxLength) :
    rtNext bs (fuel + 1) it =
      rtNext bs fuel (nextEntry { it with thisArgIndex := it.argIndex, thisArg := it.arg, thisArgSize := 0,
                                          resetOnExt := true, inRadiotapNs := true }) := by
  rw [rtNext]
  have : ¬ (it.maxLength < it.arg) := by omega
  simp [hp, hb, Nat.mod_one, this]

theorem rtNext_load (bs : Bytes) (fuel : Nat) (it : RtIt) (hp : it.shifter % 2 = 1) (hb : it.argIndex % 32 = 31)
    (hfit : it.arg ≤ it.maxLength) :
    rtNext bs (fuel + 1) it = (do
      let w ← le32At "radiotap" bs it.nextBitmap
      rtNext bs fuel { it with thisArgIndex := it.argIndex, thisArg := it.arg, thisArgSize := 0, shifter := w,
                               nextBitmap := it.nextBitmap + 4,
                               argIndex := if it.resetOnExt then 0 else it.argIndex + 1, resetOnExt := false }) := by
  rw [rtNext]
  have : ¬ (it.maxLength < it.arg) := by omega
  simp [hp, hb, Nat.mod_one, this]

theorem rtNext_vendor (bs : Bytes) (fuel : Nat) (it : RtIt) (hp : it.shifter % 2 = 1) (hb : it.argIndex % 32 = 30) :
    rtNext bs (fuel + 1) it =
      if Spec.alignUp it.arg 2 + 6 > it.maxLength then .ok (.stop (-EINVAL))
      else (do
        let vnslen ← le16At "radiotap" bs (Spec.alignUp it.arg 2 + 4)
        if Spec.alignUp it.arg 2 + (6 + vnslen) > it.maxLength then .ok (.stop (-EINVAL))
        else .ok (.hit (nextEntry { it with nextNsData := Spec.alignUp it.arg 2 + 6 + vnslen, inRadiotapNs := false,
                                            thisArgIndex := 30, thisArg := Spec.alignUp it.arg 2,
                                            thisArgSize := 6 + vnslen, arg := Spec.alignUp it.arg 2 + (6 + vnslen),
                                            resetOnExt := true }))) := by
  rw [rtNext]
  rw [← align_eq it.arg 2 (by decide)]
  simp [hp, hb]


/-! ### general headers: the simulation -/

/-- the words still to come after `w`: the Spec's chain continues where the iterator will load from -/
def Rest (bs : Bytes) (itLen w nb : Nat) (rest : List Nat) : Prop :=
  if w.testBit 31 then ∃ f, Spec.presentWords bs itLen f nb = some rest else rest = []

/-- the iterator stands before bit `b` of word `w`; `st` is the Spec's walk state at that point -/
structure Live (bs : Bytes) (itLen w : Nat) (rest : List Nat) (it : RtIt) (st : Spec.Walk) (b : Nat) : Prop where
  ml : it.maxLength = itLen
  le : itLen ≤ bs.length
  arg : it.arg = st.off
  fit : it.arg ≤ itLen
  ns : it.inRadiotapNs = decide (st.ns = .radiotap)
  vns : st.ns = .vendor → it.nextNsData = it.arg
  idx : it.argIndex = st.base + b
  base : st.base % 32 = 0
  b31 : b ≤ 31
  sh : it.shifter = w / 2 ^ b
  live : st.stopped = false
  good : st.bad = false
  r1 : b ≤ 29 → it.resetOnExt = false
  r2 : b = 30 → it.resetOnExt = w.testBit 29
  r3 : b = 31 → it.resetOnExt = (w.testBit 29 || w.testBit 30)
  rest : Rest bs itLen w it.nextBitmap rest

def mu (rest : List Nat) (b : Nat) : Nat := 32 * rest.length + (32 - b)

/-- what a call of `rtNext` does, in the Spec's terms: the next field (or vendor descriptor) with the walk
advanced past it, or the end with no further field -/
def NextG (bs : Bytes) (itLen : Nat) (st : Spec.Walk) (b w : Nat) (rest : List Nat) (r : Outcome RtNext) : Prop :=
  (∃ it' st' b' w' rest', r = .ok (.hit it') ∧ Live bs itLen w' rest' it' st' b' ∧ mu rest' b' < mu rest b ∧
      fin bs itLen w rest b st = fin bs itLen w' rest' b' st' ∧ it'.thisArg + it'.thisArgSize ≤ itLen ∧
      ((it'.thisArgIndex = 30 ∧ st'.fields = st.fields) ∨
       (it'.thisArgSize = rtSize it'.thisArgIndex ∧ st'.fields = st.fields ++ [⟨it'.thisArgIndex, it'.thisArg⟩]))) ∨
  (∃ c, r = .ok (.stop c) ∧ (fin bs itLen w rest b st).fields = st.fields)

theorem NextG.trip {bs : Bytes} {itLen : Nat} {st st1 : Spec.Walk} {b b1 w w1 : Nat} {rest rest1 : List Nat}
    {r : Outcome RtNext} (h : NextG bs itLen st1 b1 w1 rest1 r) (hmu : mu rest1 b1 < mu rest b)
    (hfin : fin bs itLen w rest b st = fin bs itLen w1 rest1 b1 st1) (hf : st1.fields = st.fields) :
    NextG bs itLen st b w rest r := by
  rcases h with ⟨it', st', b', w', rest', h1, h2, h3, h4, h5, h6⟩ | ⟨c, h1, h2⟩
  · exact Or.inl ⟨it', st', b', w', rest', h1, h2, by omega, by rw [hfin, h4], h5, by rw [← hf]; exact h6⟩
  · exact Or.inr ⟨c, h1, by rw [hfin, h2, hf]⟩

theorem fin_done (bs : Bytes) (itLen w : Nat) (rest : List Nat) (b : Nat) (st x : Spec.Walk)
    (h : finish bs itLen w b st = x) (hx : (x.stopped || x.bad) = true) : fin bs itLen w rest b st = x := by
  unfold fin; rw [h, walk_done _ _ _ _ hx]


theorem ns_cases (n : Spec.Ns) : n = .radiotap ∨ n = .vendor := by cases n <;> simp

theorem next_simG (bs : Bytes) (itLen : Nat) : ∀ (fuel : Nat) (it : RtIt) (st : Spec.Walk) (b w : Nat) (rest : List Nat),
    Live bs itLen w rest it st b → mu rest b ≤ fuel → NextG bs itLen st b w rest (rtNext bs fuel it) := by
  intro fuel
  induction fuel with
  | zero => intro it st b w rest hl hmu; have := hl.b31; unfold mu at hmu; omega
  | succ fuel ih =>
    intro it st b w rest hl hmu
    have hb31 := hl.b31
    have hmod : it.argIndex % 32 = b := by have := hl.idx; have := hl.base; omega
    have htbeq : w.testBit b = decide (it.shifter % 2 = 1) := by rw [testBit_shifter, hl.sh]
    by_cases hp : it.shifter % 2 = 1
    · have htb : w.testBit b = true := by rw [htbeq]; simp [hp]
      by_cases hb29 : b < 29
      · rcases ns_cases st.ns with hns | hns
        · -- a field of the radiotap namespace
          have hins : it.inRadiotapNs = true := by rw [hl.ns]; simp [hns]
          have hfin := finish_rt bs itLen w b st hb29 htb hl.live hl.good hns
          by_cases hdef : st.base + b < Gen.rtapNBits ∧ rtAlign (st.base + b) ≠ 0
          · have hstep := rtNext_field bs fuel it hp (by omega) hins (by rw [hl.idx]; exact hdef.1)
              (by rw [hl.idx]; exact hdef.2)
            rw [if_pos hdef] at hfin
            by_cases hfit : Spec.alignUp st.off (rtAlign (st.base + b)) + rtSize (st.base + b) > itLen
            · rw [if_pos hfit] at hfin
              rw [hstep, hl.idx, hl.arg, hl.ml, if_pos hfit]
              exact Or.inr ⟨_, rfl, by rw [fin_done _ _ _ _ _ _ _ hfin (by simp)]⟩
            · rw [if_neg hfit] at hfin
              rw [hstep, if_neg (by rw [hl.idx, hl.arg, hl.ml]; exact hfit)]
              refine Or.inl ⟨_, _, b + 1, w, rest, rfl, ?_, by unfold mu; omega, by unfold fin; rw [hfin], ?_, Or.inr ⟨rfl, ?_⟩⟩
              · exact {
                  ml := hl.ml, le := hl.le
                  arg := by show Spec.alignUp it.arg (rtAlign it.argIndex) + rtSize it.argIndex = _; rw [hl.idx, hl.arg]
                  fit := by show Spec.alignUp it.arg (rtAlign it.argIndex) + rtSize it.argIndex ≤ _; rw [hl.idx, hl.arg]; omega
                  ns := hl.ns
                  vns := fun h => by rw [hns] at h; cases h
                  idx := by show it.argIndex + 1 = _; rw [hl.idx]; rfl
                  base := hl.base, b31 := by omega
                  sh := by show it.shifter / 2 = _; rw [hl.sh, pow_shift]
                  live := hl.live, good := hl.good
                  r1 := fun _ => hl.r1 (by omega), r2 := fun h => by omega, r3 := fun h => by omega
                  rest := hl.rest }
              · show Spec.alignUp it.arg (rtAlign it.argIndex) + rtSize it.argIndex ≤ itLen
                rw [hl.idx, hl.arg]; omega
              · show _ = st.fields ++ [⟨it.argIndex, Spec.alignUp it.arg (rtAlign it.argIndex)⟩]
                rw [hl.idx, hl.arg]
          · rw [if_neg hdef] at hfin
            have hund : Gen.rtapNBits ≤ it.argIndex ∨ rtAlign it.argIndex = 0 := by
              rw [hl.idx]
              by_cases hN : Gen.rtapNBits ≤ st.base + b
              · exact Or.inl hN
              · by_cases h : rtAlign (st.base + b) = 0
                · exact Or.inr h
                · exact absurd ⟨by omega, h⟩ hdef
            rw [rtNext_beyond bs fuel it hp (by omega) hins hund]
            exact Or.inr ⟨_, rfl, by rw [fin_done _ _ _ _ _ _ _ hfin (by simp)]⟩
        · -- a field of a vendor namespace: skipped
          have hins : it.inRadiotapNs = false := by rw [hl.ns]; simp [hns]
          rw [rtNext_giveup bs fuel it hp (by omega) hins]
          refine (ih _ st (b + 1) w rest ?_ (by unfold mu at hmu ⊢; omega)).trip (by unfold mu; omega)
            (by unfold fin; rw [finish_vendor bs itLen w b st hb29 htb hl.live hl.good hns]) rfl
          exact {
            ml := hl.ml, le := hl.le
            arg := by show it.nextNsData = _; rw [hl.vns hns, hl.arg]
            fit := by show it.nextNsData ≤ _; rw [hl.vns hns]; exact hl.fit
            ns := by show false = _; simp [hns]
            vns := fun _ => rfl
            idx := by show it.argIndex + 1 = _; rw [hl.idx]; rfl
            base := hl.base, b31 := by omega
            sh := by show it.shifter / 2 = _; rw [hl.sh, pow_shift]
            live := hl.live, good := hl.good
            r1 := fun _ => hl.r1 (by omega), r2 := fun h => by omega, r3 := fun h => by omega
            rest := hl.rest }
      · have hb3 : b = 29 ∨ b = 30 ∨ b = 31 := by omega
        rcases hb3 with rfl | rfl | rfl
        · -- bit 29: back to the radiotap namespace
          rw [rtNext_ns29 bs fuel it hp hmod (by rw [hl.ml]; exact hl.fit)]
          refine (ih _ { st with ns := .radiotap } 30 w rest ?_ (by unfold mu at hmu ⊢; omega)).trip (by unfold mu; omega)
            (by unfold fin; rw [finish_29 bs itLen w st hl.live hl.good, htb]; rfl) rfl
          exact {
            ml := hl.ml, le := hl.le, arg := hl.arg, fit := hl.fit
            ns := by show true = _; simp
            vns := fun h => by cases h
            idx := by show it.argIndex + 1 = _; rw [hl.idx]
            base := hl.base, b31 := by omega
            sh := by show it.shifter / 2 = _; rw [hl.sh, pow_shift]
            live := hl.live, good := hl.good
            r1 := fun h => by omega, r2 := fun _ => by show true = _; rw [htb], r3 := fun h => by omega
            rest := hl.rest }
        · -- bit 30: a vendor namespace descriptor
          have hfin := finish_30 bs itLen w st
          rw [htb, if_pos rfl] at hfin
          rw [rtNext_vendor bs fuel it hp hmod, hl.arg, hl.ml]
          by_cases hf1 : Spec.alignUp st.off 2 + 6 > itLen
          · rw [if_pos hf1] at hfin ⊢
            exact Or.inr ⟨_, rfl, by rw [fin_done _ _ _ _ _ _ _ hfin (by simp)]⟩
          · rw [if_neg hf1] at hfin ⊢
            rw [le16At_u16 (by have := hl.le; omega)]
            simp only [Outcome.bind_ok]
            by_cases hf2 : Spec.alignUp st.off 2 + 6 + Spec.u16 bs (Spec.alignUp st.off 2 + 4) > itLen
            · rw [if_pos hf2] at hfin
              rw [if_pos (by omega)]
              exact Or.inr ⟨_, rfl, by rw [fin_done _ _ _ _ _ _ _ hfin (by simp)]⟩
            · rw [if_neg hf2] at hfin
              rw [if_neg (by omega)]
              refine Or.inl ⟨_, { st with off := Spec.alignUp st.off 2 + 6 + Spec.u16 bs (Spec.alignUp st.off 2 + 4), ns := .vendor },
                31, w, rest, rfl, ?_, by unfold mu; omega, by unfold fin; rw [hfin], ?_, Or.inl ⟨rfl, rfl⟩⟩
              · exact {
                  ml := rfl, le := hl.le
                  arg := by show Spec.alignUp st.off 2 + (6 + _) = Spec.alignUp st.off 2 + 6 + _; omega
                  fit := by show Spec.alignUp st.off 2 + (6 + _) ≤ _; omega
                  ns := by show false = _; simp
                  vns := fun _ => by show Spec.alignUp st.off 2 + 6 + _ = Spec.alignUp st.off 2 + (6 + _); omega
                  idx := by show it.argIndex + 1 = _; rw [hl.idx]
                  base := hl.base, b31 := by omega
                  sh := by show it.shifter / 2 = _; rw [hl.sh, pow_shift]
                  live := hl.live, good := hl.good
                  r1 := fun h => by omega, r2 := fun h => by omega
                  r3 := fun _ => by show true = _; rw [htb]; simp
                  rest := hl.rest }
              · show Spec.alignUp st.off 2 + (6 + _) ≤ itLen; omega
        · -- bit 31: the next present word
          have hrest := hl.rest
          unfold Rest at hrest
          rw [htb, if_pos rfl] at hrest
          obtain ⟨f, hpw⟩ := hrest
          have hfit := presentWords_fit hpw
          obtain ⟨f, rfl⟩ : ∃ k, f = k + 1 := by
            cases f with
            | zero => rw [Spec.presentWords] at hpw; cases hpw
            | succ k => exact ⟨k, rfl⟩
          obtain ⟨rest', hcons, hrest'⟩ := presentWords_cons hpw
          subst hcons
          rw [rtNext_load bs fuel it hp hmod (by rw [hl.ml]; exact hl.fit), le32At_u32 (by have := hl.le; omega)]
          simp only [Outcome.bind_ok]
          refine (ih _ (tail31 w st) 0 (Spec.u32 bs it.nextBitmap) rest' ?_
            (by unfold mu at hmu ⊢; simp only [List.length_cons] at hmu; omega)).trip
            (by unfold mu; simp only [List.length_cons]; omega) (fin_31 bs itLen w _ rest' st) rfl
          exact {
            ml := hl.ml, le := hl.le, arg := hl.arg, fit := hl.fit, ns := hl.ns, vns := hl.vns
            idx := by
              show (if it.resetOnExt = true then 0 else it.argIndex + 1) = (tail31 w st).base + 0
              rw [hl.r3 rfl, hl.idx]
              unfold tail31
              cases w.testBit 29 <;> cases w.testBit 30 <;> simp
            base := by
              unfold tail31
              have := hl.base
              cases w.testBit 29 <;> cases w.testBit 30 <;> simp <;> omega
            b31 := by omega
            sh := by show Spec.u32 bs it.nextBitmap = _; simp
            live := hl.live, good := hl.good
            r1 := fun _ => rfl, r2 := fun h => by omega, r3 := fun h => by omega
            rest := by
              show Rest bs itLen _ (it.nextBitmap + 4) rest'
              unfold Rest
              split
              · rename_i h31; rw [if_pos h31] at hrest'; exact ⟨_, hrest'⟩
              · rename_i h31; rw [if_neg h31] at hrest'; exact hrest' }
    · have hp0 : it.shifter % 2 = 0 := by omega
      have htb : w.testBit b = false := by rw [htbeq]; simp [hp]
      by_cases h31 : b = 31
      · subst h31
        rw [rtNext_end bs fuel it hp0 hmod]
        have hrest := hl.rest
        unfold Rest at hrest
        rw [htb, if_neg (by simp)] at hrest
        subst hrest
        exact Or.inr ⟨_, rfl, rfl⟩
      · rw [rtNext_absent bs fuel it hp0 (by omega)]
        refine (ih _ st (b + 1) w rest ?_ (by unfold mu at hmu ⊢; omega)).trip (by unfold mu; omega) ?_ rfl
        · exact {
            ml := hl.ml, le := hl.le, arg := hl.arg, fit := hl.fit, ns := hl.ns, vns := hl.vns
            idx := by show it.argIndex + 1 = _; rw [hl.idx]; rfl
            base := hl.base, b31 := by omega
            sh := by show it.shifter / 2 = _; rw [hl.sh, pow_shift]
            live := hl.live, good := hl.good
            r1 := fun _ => hl.r1 (by omega)
            r2 := fun h => by
              have : b = 29 := by omega
              subst this
              show it.resetOnExt = _
              rw [hl.r1 (by omega), htb]
            r3 := fun h => by
              have : b = 30 := by omega
              subst this
              show it.resetOnExt = _
              rw [hl.r2 rfl, htb]; simp
            rest := hl.rest }
        · unfold fin
          by_cases hb29 : b < 29
          · rw [finish_absent bs itLen w b st hb29 htb hl.live hl.good]
          · have hb2 : b = 29 ∨ b = 30 := by omega
            rcases hb2 with rfl | rfl
            · rw [finish_29 bs itLen w st hl.live hl.good, htb]; rfl
            · rw [finish_30, htb]; rfl


theorem rtLoop_simG (bs : Bytes) (itLen : Nat) (s0 : Spec.RtValues × Bool) :
    ∀ (fuel : Nat) (it : RtIt) (st : Spec.Walk) (b w : Nat) (rest : List Nat) (acc : RtInfo × Bool),
      Live bs itLen w rest it st b → mu rest b < fuel → mu rest b ≤ 40 * (bs.length + 2) → RtArgOk bs it →
      acc.1.antennas.length = acc.1.antennaCount →
      Spec.valueStep bs 16 (valuesOf acc.1, acc.2) ⟨it.thisArgIndex, it.thisArg⟩ =
        st.fields.foldl (Spec.valueStep bs 16) s0 →
      ∃ info, rtLoop bs fuel it acc = .ok info ∧
        valuesOf info = ((fin bs itLen w rest b st).fields.foldl (Spec.valueStep bs 16) s0).1 := by
  intro fuel
  induction fuel with
  | zero => intro it st b w rest acc _ h; omega
  | succ fuel ih =>
    intro it st b w rest acc hl hfuel hmu hok hant hinv
    obtain ⟨acc', hf, hant', hval⟩ := rtField_sim acc hant hok
    rw [hinv] at hval
    rw [rtLoop]
    simp only [hf, Outcome.bind_ok]
    rcases next_simG bs itLen (40 * (bs.length + 2)) it st b w rest hl hmu with
      ⟨it', st', b', w', rest', h1, h2, h3, h4, h5, h6⟩ | ⟨c, h1, h2⟩
    · simp only [h1, Outcome.bind_ok]
      have hok' : RtArgOk bs it' := by
        rcases h6 with ⟨h30, _⟩ | ⟨hsz, _⟩
        · exact Or.inr (Or.inl h30)
        · exact Or.inr (Or.inr ⟨hsz, by have := h2.le; omega⟩)
      have hinv' : Spec.valueStep bs 16 (valuesOf acc'.1, acc'.2) ⟨it'.thisArgIndex, it'.thisArg⟩ =
          st'.fields.foldl (Spec.valueStep bs 16) s0 := by
        rcases h6 with ⟨h30, hfs⟩ | ⟨_, hfs⟩
        · rw [hfs, hval, valueStep_other]
          simp only [h30]; decide
        · rw [hfs, hval, List.foldl_append]; rfl
      obtain ⟨info, hi1, hi2⟩ := ih it' st' b' w' rest' acc' h2 (by omega) (by omega) hok' hant' hinv'
      exact ⟨info, hi1, by rw [hi2, h4]⟩
    · simp only [h1, Outcome.bind_ok]
      exact ⟨acc'.1, rfl, by rw [h2, ← hval]⟩

theorem presentWords_len {bs : Bytes} {itLen : Nat} : ∀ (f off : Nat) (ws : List Nat),
    Spec.presentWords bs itLen f off = some ws → off + 4 * ws.length ≤ itLen := by
  intro f
  induction f with
  | zero => intro off ws h; rw [Spec.presentWords] at h; cases h
  | succ f ih =>
    intro off ws h
    have hfit := presentWords_fit h
    obtain ⟨rest, hcons, hrest⟩ := presentWords_cons h
    subst hcons
    split at hrest
    · have := ih _ _ hrest; simp only [List.length_cons]; omega
    · subst hrest; simp only [List.length_cons, List.length_nil]; omega

/-- **T3** every header the Spec accepts — several present words, namespace resets (bit 29), vendor
namespaces (bit 30), numbering continued into the next word —: the parser reports exactly the values
the Spec assigns to the fields the Spec places -/
theorem C09_decode_full (bs : Bytes) (itLen : Nat) (fields : List Spec.RtField)
    (h : Spec.rtFields bs = some (itLen, fields)) :
    ∃ info, parseRadiotapInfo bs = .ok info ∧
      valuesOf info = Spec.rtValues bs itLen fields Gen.m_LIBWIFI_MAX_RADIOTAP_ANTENNAS := by
  obtain ⟨h8, hv, hit, hi8, hile, hi255, ws, hws, hfields⟩ := rtFields_some h
  obtain ⟨rest, hcons, hrest⟩ := presentWords_cons hws
  have hwl := presentWords_len _ _ _ hws
  unfold parseRadiotapInfo
  rw [if_neg (by omega), le16At_u16 (by omega)]
  simp only [Outcome.bind_ok]
  rw [← hit, if_neg (by omega)]
  have hinit := rtInit_general h8 hv (by omega) (by rw [← hit]; exact hws)
  rw [hinit, le32At_u32 (by omega)]
  simp only [Outcome.bind_ok]
  rw [← hit]
  have hlive : Live bs itLen (Spec.u32 bs 4) rest (it0 itLen (Spec.u32 bs 4) (4 + 4 * ws.length))
      ⟨4 + 4 * ws.length, .radiotap, 0, [], false, false⟩ 0 := {
    ml := rfl, le := hile, arg := rfl
    fit := by show 4 + 4 * ws.length ≤ itLen; omega
    ns := rfl
    vns := fun h => by cases h
    idx := rfl, base := rfl
    b31 := by omega
    sh := by show Spec.u32 bs 4 = _; simp
    live := rfl, good := rfl, r1 := fun _ => rfl
    r2 := fun h => by omega
    r3 := fun h => by omega
    rest := by
      show Rest bs itLen _ 8 rest
      unfold Rest
      split
      · rename_i h31; rw [if_pos h31] at hrest; exact ⟨_, hrest⟩
      · rename_i h31; rw [if_neg h31] at hrest; exact hrest }
  have hmu : mu rest 0 = 8 * (4 * ws.length) := by
    unfold mu; rw [hcons]; simp only [List.length_cons]; omega
  obtain ⟨info, hi1, hi2⟩ := rtLoop_simG bs itLen ({ length := itLen }, false) (32 * (bs.length + 2)) _ _ 0 _ rest
    ({ length := itLen, present := 0 }, false) hlive (by omega) (by omega) (Or.inl rfl) rfl rfl
  refine ⟨info, hi1, ?_⟩
  rw [hi2, maxAnt, hfields, hcons]
  unfold fin Spec.rtValues
  rw [List.foldl_cons, walkWord_finish]

/-! ### corollaries -/

/-- **T1** a header with a single present word (no EXT / namespace bits) -/
theorem C09_decode_single (bs : Bytes) (itLen : Nat) (fields : List Spec.RtField)
    (h : Spec.rtFields bs = some (itLen, fields)) (_hw : Spec.u32 bs 4 < 2 ^ 29) :
    ∃ info, parseRadiotapInfo bs = .ok info ∧
      valuesOf info = Spec.rtValues bs itLen fields Gen.m_LIBWIFI_MAX_RADIOTAP_ANTENNAS :=
  C09_decode_full bs itLen fields h

theorem valueStep_length (bs : Bytes) (m : Nat) (s : Spec.RtValues × Bool) (f : Spec.RtField) :
    (Spec.valueStep bs m s f).1.length = s.1.length := by
  unfold Spec.valueStep
  simp only []
  repeat' split
  all_goals rfl

theorem rtValues_length (bs : Bytes) (itLen : Nat) (fields : List Spec.RtField) (m : Nat) :
    (Spec.rtValues bs itLen fields m).length = itLen := by
  unfold Spec.rtValues
  have : ∀ (fs : List Spec.RtField) (s : Spec.RtValues × Bool),
      (fs.foldl (Spec.valueStep bs m) s).1.length = s.1.length := by
    intro fs
    induction fs with
    | nil => intro s; rfl
    | cons f fs ih => intro s; rw [List.foldl_cons, ih, valueStep_length]
  rw [this]

/-- the statement left open in `Props/C09.lean`, for every header -/
theorem C09_decode : C09.C09_decode_statement := by
  intro bs itLen fields h
  obtain ⟨info, h1, h2⟩ := C09_decode_full bs itLen fields h
  refine ⟨info, h1, ?_⟩
  have : (valuesOf info).length = (Spec.rtValues bs itLen fields Gen.m_LIBWIFI_MAX_RADIOTAP_ANTENNAS).length := by rw [h2]
  rw [rtValues_length] at this
  exact this

theorem C09_decode_statement_single : ∀ bs itLen fields, Spec.rtFields bs = some (itLen, fields) →
    Spec.u32 bs 4 < 2 ^ 29 → ∃ info, parseRadiotapInfo bs = .ok info ∧ info.length = itLen :=
  fun bs itLen fields h _ => C09_decode bs itLen fields h

/-! non-vacuity: FLAGS | RATE | CHANNEL; an undefined field (18) in the middle; a last field running past `it_len` -/
example : Spec.rtFields [0, 0, 16, 0, 0x0e, 0, 0, 0, 0x12, 0, 0xa8, 0x09, 0x0a, 0, 0xc5, 0] =
    some (16, [⟨1, 8⟩, ⟨2, 9⟩, ⟨3, 10⟩]) ∧
    Spec.u32 [0, 0, 16, 0, 0x0e, 0, 0, 0, 0x12, 0, 0xa8, 0x09, 0x0a, 0, 0xc5, 0] 4 < 2 ^ 29 := by
  decide +kernel

example : Spec.rtFields [0, 0, 14, 0, 0x26, 0, 0x0c, 0, 0x12, 0x0c, 0xd0, 1, 2, 3] =
    some (14, [⟨1, 8⟩, ⟨2, 9⟩, ⟨5, 10⟩]) ∧
    Spec.u32 [0, 0, 14, 0, 0x26, 0, 0x0c, 0, 0x12, 0x0c, 0xd0, 1, 2, 3] 4 < 2 ^ 29 := by
  decide +kernel

example : Spec.rtFields [0, 0, 12, 0, 0x0a, 0, 0, 0, 0x12, 0, 0xa8, 0x09] = some (12, [⟨1, 8⟩]) ∧
    Spec.u32 [0, 0, 12, 0, 0x0a, 0, 0, 0, 0x12, 0, 0xa8, 0x09] 4 < 2 ^ 29 := by
  decide +kernel

/-! non-vacuity for general headers: FLAGS + a vendor namespace (skip length 2), a namespace reset in a
second word, RATE in a third; and the header on which the unfixed iterator decoded FLAGS from a stale
offset after the undefined field 18 -/
example : Spec.rtFields [0, 0, 27, 0, 0x02, 0, 0, 0xc0, 0, 0, 0, 0xa0, 4, 0, 0, 0,
      0x12, 0, 0xaa, 0xbb, 0xcc, 1, 2, 0, 0xee, 0xee, 0x0c] = some (27, [⟨1, 16⟩, ⟨2, 26⟩]) ∧
    parseRadiotapInfo [0, 0, 27, 0, 0x02, 0, 0, 0xc0, 0, 0, 0, 0xa0, 4, 0, 0, 0,
      0x12, 0, 0xaa, 0xbb, 0xcc, 1, 2, 0, 0xee, 0xee, 0x0c] = .ok { length := 27, flags := 0x12, rateRaw := 0x0c } := by
  decide +kernel

example : Spec.rtFields [0, 0, 27, 0, 0, 0, 0, 0xc0, 0, 0, 0, 0xa0, 0, 0, 4, 0xa0, 2, 0, 0, 0,
      1, 2, 3, 4, 0, 0, 0x55] = some (27, []) ∧
    parseRadiotapInfo [0, 0, 27, 0, 0, 0, 0, 0xc0, 0, 0, 0, 0xa0, 0, 0, 4, 0xa0, 2, 0, 0, 0,
      1, 2, 3, 4, 0, 0, 0x55] = .ok { length := 27 } := by
  decide +kernel

/-! ### T2: decoding what the generator / the Spec encoder produced -/

/-- the Spec encoder's step for bit `b` (fields the table does not define add nothing) -/
def encStep (d : Spec.RtDesc) (acc : Bytes) (b : Nat) : Bytes :=
  if b < Gen.rtapNBits ∧ rtAlign b ≠ 0 then specStep d acc (b, rtAlign b, rtSize b) else acc

/-- the Spec encoder's body, bit by bit -/
def encBits (d : Spec.RtDesc) : Nat → Nat → Bytes → Bytes
  | 0, _, acc => acc
  | n + 1, b, acc => encBits d n (b + 1) (encStep d acc b)

theorem rtAlign_vals : rtAlign 0 = 8 ∧ rtAlign 1 = 1 ∧ rtAlign 2 = 1 ∧ rtAlign 3 = 2 ∧ rtAlign 4 = 2 ∧ rtAlign 5 = 1 ∧ rtAlign 6 = 1 ∧ rtAlign 7 = 2 ∧ rtAlign 8 = 2 ∧ rtAlign 9 = 2 ∧ rtAlign 10 = 1 ∧ rtAlign 11 = 1 ∧ rtAlign 12 = 1 ∧ rtAlign 13 = 1 ∧ rtAlign 14 = 2 ∧ rtAlign 15 = 2 ∧ rtAlign 16 = 1 ∧ rtAlign 17 = 1 ∧ rtAlign 18 = 0 ∧ rtAlign 19 = 1 ∧ rtAlign 20 = 4 ∧ rtAlign 21 = 2 ∧ rtAlign 22 = 8 := by
  decide +kernel

theorem rtSize_vals : rtSize 0 = 8 ∧ rtSize 1 = 1 ∧ rtSize 2 = 1 ∧ rtSize 3 = 4 ∧ rtSize 4 = 2 ∧ rtSize 5 = 1 ∧ rtSize 6 = 1 ∧ rtSize 7 = 2 ∧ rtSize 8 = 2 ∧ rtSize 9 = 2 ∧ rtSize 10 = 1 ∧ rtSize 11 = 1 ∧ rtSize 12 = 1 ∧ rtSize 13 = 1 ∧ rtSize 14 = 2 ∧ rtSize 15 = 2 ∧ rtSize 16 = 1 ∧ rtSize 17 = 1 ∧ rtSize 18 = 0 ∧ rtSize 19 = 3 ∧ rtSize 20 = 8 ∧ rtSize 21 = 12 ∧ rtSize 22 = 12 := by
  decide +kernel

theorem encBits_table (d : Spec.RtDesc) (acc : Bytes) :
    Spec.rtTable.foldl (specStep d) acc = encBits d 29 0 acc := by
  obtain ⟨a0, a1, a2, a3, a4, a5, a6, a7, a8, a9, a10, a11, a12, a13, a14, a15, a16, a17, a18, a19, a20, a21, a22⟩ := rtAlign_vals
  obtain ⟨z0, z1, z2, z3, z4, z5, z6, z7, z8, z9, z10, z11, z12, z13, z14, z15, z16, z17, z18, z19, z20, z21, z22⟩ := rtSize_vals
  have hN : Gen.rtapNBits = 23 := by decide
  simp only [encBits, Nat.reduceAdd, Nat.zero_add, encStep, hN, a0, a1, a2, a3, a4, a5, a6, a7, a8, a9, a10, a11, a12, a13, a14, a15, a16, a17, a18, a19, a20, a21, a22, z0, z1, z2, z3, z4, z5, z6, z7, z8, z9, z10, z11, z12, z13, z14, z15, z16, z17, z18, z19, z20, z21, z22]
  simp [Spec.rtTable]

theorem encStep_prefix (d : Spec.RtDesc) (acc : Bytes) (b : Nat) : acc <+: encStep d acc b := by
  unfold encStep specStep
  split
  · split
    · simp only [List.append_assoc]; exact List.prefix_append _ _
    · exact List.prefix_refl _
  · exact List.prefix_refl _

theorem encBits_prefix (d : Spec.RtDesc) : ∀ (n b : Nat) (acc : Bytes), acc <+: encBits d n b acc := by
  intro n
  induction n with
  | zero => intro b acc; exact List.prefix_refl _
  | succ n ih => intro b acc; exact List.IsPrefix.trans (encStep_prefix d acc b) (ih _ _)

/-- reading inside a middle segment -/
theorem u8_mid (A V X : Bytes) (j : Nat) (h : j < V.length) : Spec.u8 (A ++ V ++ X) (A.length + j) = Spec.u8 V j := by
  unfold Spec.u8
  congr 1
  simp only [List.getD_eq_getElem?_getD]
  rw [List.append_assoc, List.getElem?_append_right (by omega), Nat.add_sub_cancel_left,
    List.getElem?_append_left h]

theorem alignUp_ge (off a : Nat) (ha : 0 < a) : off ≤ Spec.alignUp off a := by
  rw [← align_eq off a ha]
  split <;> omega


theorem u8_mid0 (A V X : Bytes) (h : 0 < V.length) : Spec.u8 (A ++ V ++ X) A.length = Spec.u8 V 0 := by
  have := u8_mid A V X 0 h
  rwa [Nat.add_zero] at this

theorem u16_mid (A V X : Bytes) (j : Nat) (h : j + 1 < V.length) :
    Spec.u16 (A ++ V ++ X) (A.length + j) = Spec.u16 V j := by
  unfold Spec.u16
  rw [u8_mid A V X j (by omega), Nat.add_assoc, u8_mid A V X (j + 1) h]

theorem u16_mid0 (A V X : Bytes) (h : 1 < V.length) : Spec.u16 (A ++ V ++ X) A.length = Spec.u16 V 0 := by
  have := u16_mid A V X 0 h
  rwa [Nat.add_zero] at this

theorem u64_mid0 (A V X : Bytes) (h : 7 < V.length) : Spec.u64 (A ++ V ++ X) A.length = Spec.u64 V 0 := by
  unfold Spec.u64 Spec.u32
  rw [u16_mid0 A V X (by omega), u16_mid A V X 2 (by omega), u16_mid A V X 4 (by omega), Nat.add_assoc,
    u16_mid A V X (4 + 2) (by omega)]
  simp only [Nat.zero_add, Nat.add_assoc]

theorem rd1 (x : Nat) : Spec.u8 (leBytes 1 x) 0 = x % 256 := by
  simp [leBytes, Spec.u8]

theorem rd2 (x : Nat) : Spec.u16 (leBytes 2 x) 0 = x % 65536 := by
  simp [leBytes, Spec.u16, Spec.u8]; omega

theorem rdChan (a b : Nat) :
    Spec.u16 (leBytes 2 a ++ leBytes 2 b) 0 = a % 65536 ∧ Spec.u16 (leBytes 2 a ++ leBytes 2 b) 2 = b % 65536 := by
  simp [leBytes, Spec.u16, Spec.u8]; omega

theorem rdMcs (a b c : Nat) :
    Spec.u8 (leBytes 1 a ++ leBytes 1 b ++ leBytes 1 c) 0 = a % 256 ∧
    Spec.u8 (leBytes 1 a ++ leBytes 1 b ++ leBytes 1 c) 1 = b % 256 ∧
    Spec.u8 (leBytes 1 a ++ leBytes 1 b ++ leBytes 1 c) 2 = c % 256 := by
  simp [leBytes, Spec.u8]

theorem rdTs (t a u f : Nat) :
    Spec.u64 (leBytes 8 t ++ leBytes 2 a ++ leBytes 1 u ++ leBytes 1 f) 0 = t % 2 ^ 64 ∧
    Spec.u16 (leBytes 8 t ++ leBytes 2 a ++ leBytes 1 u ++ leBytes 1 f) 8 = a % 65536 ∧
    Spec.u8 (leBytes 8 t ++ leBytes 2 a ++ leBytes 1 u ++ leBytes 1 f) 10 = u % 256 ∧
    Spec.u8 (leBytes 8 t ++ leBytes 2 a ++ leBytes 1 u ++ leBytes 1 f) 11 = f % 256 := by
  simp [leBytes, Spec.u64, Spec.u32, Spec.u16, Spec.u8]; omega


/-- field `k` is selected and lies below bit `b` -/
def onBit (g : RtGen) (b k : Nat) : Bool := g.present.testBit k && decide (k < b)

/-- the values a decoder must report for the generated header, after the fields below bit `b` -/
def expVals (g : RtGen) (len b : Nat) : Spec.RtValues × Bool :=
  ({ length := len,
     flags := if onBit g b 1 then g.flags % 256 else 0,
     rateRaw := if onBit g b 2 then g.rateRaw % 256 else 0,
     chanFreq := if onBit g b 3 then g.chanFreq % 65536 else 0,
     chanFlags := if onBit g b 3 then g.chanFlags % 65536 else 0,
     chanBand := if onBit g b 3 then (Spec.channelOf (g.chanFreq % 65536)).1 else 0,
     chanCenter := if onBit g b 3 then
         (if (Spec.channelOf (g.chanFreq % 65536)).1 = 0 then 0 else (Spec.channelOf (g.chanFreq % 65536)).2)
       else 0,
     signal := if onBit g b 5 then g.signal % 256 else 0,
     antennas := [],
     txPower := if onBit g b 10 then g.txPower % 256 else 0,
     rxFlags := if onBit g b 14 then g.rxFlags % 65536 else 0,
     txFlags := if onBit g b 15 then g.txFlags % 65536 else 0,
     rtsRetries := if onBit g b 16 then g.rtsRetries % 256 else 0,
     dataRetries := if onBit g b 17 then g.dataRetries % 256 else 0,
     mcs := if onBit g b 19 then (g.mcsKnown % 256, g.mcsFlags % 256, g.mcsMcs % 256) else (0, 0, 0),
     ts := if onBit g b 22 then (g.tsTimestamp % 2 ^ 64, g.tsAccuracy % 65536, g.tsUnit % 256, g.tsFlags % 256)
           else (0, 0, 0, 0) },
   onBit g b 5)

theorem onBit_succ_absent (g : RtGen) (b k : Nat) (h : g.present.testBit b = false) :
    onBit g (b + 1) k = onBit g b k := by
  unfold onBit
  by_cases hk : k = b
  · subst hk; simp [h]
  · have : (k < b + 1) = (k < b) := by apply propext; omega
    simp only [this]

theorem onBit_succ_present (g : RtGen) (b k : Nat) (h : g.present.testBit b = true) :
    onBit g (b + 1) k = (decide (k = b) || onBit g b k) := by
  unfold onBit
  by_cases hk : k = b
  · subst hk; simp [h]
  · have : (k < b + 1) = (k < b) := by apply propext; omega
    simp [this, hk]

theorem expVals_absent (g : RtGen) (len b : Nat) (h : g.present.testBit b = false) :
    expVals g len (b + 1) = expVals g len b := by
  unfold expVals
  simp only [onBit_succ_absent g b _ h]

theorem expVals_zero (g : RtGen) (len : Nat) : expVals g len 0 = ({ length := len }, false) := by
  unfold expVals onBit
  simp


theorem onBit_self (g : RtGen) (b : Nat) : onBit g b b = false := by
  unfold onBit; simp

theorem step_1 (g : RtGen) (len : Nat) (A X : Bytes) (hp : g.present.testBit 1 = true) :
    Spec.valueStep (A ++ rtGenField g 1 ++ X) 16 (expVals g len 1) ⟨1, A.length⟩ = expVals g len (1 + 1) := by
  unfold Spec.valueStep
  simp only []
  rw [u8_mid0 A _ X (by simp [rtGenField, leBytes_length])]
  unfold expVals
  simp only [onBit_succ_present g 1 _ hp]
  simp [rtGenField, rd1, onBit_self]

theorem step_2 (g : RtGen) (len : Nat) (A X : Bytes) (hp : g.present.testBit 2 = true) :
    Spec.valueStep (A ++ rtGenField g 2 ++ X) 16 (expVals g len 2) ⟨2, A.length⟩ = expVals g len (2 + 1) := by
  unfold Spec.valueStep
  simp only []
  rw [u8_mid0 A _ X (by simp [rtGenField, leBytes_length])]
  unfold expVals
  simp only [onBit_succ_present g 2 _ hp]
  simp [rtGenField, rd1, onBit_self]

theorem step_3 (g : RtGen) (len : Nat) (A X : Bytes) (hp : g.present.testBit 3 = true) :
    Spec.valueStep (A ++ rtGenField g 3 ++ X) 16 (expVals g len 3) ⟨3, A.length⟩ = expVals g len (3 + 1) := by
  unfold Spec.valueStep
  simp only []
  rw [u16_mid0 A _ X (by simp [rtGenField, leBytes_length]), u16_mid A _ X 2 (by simp [rtGenField, leBytes_length])]
  unfold expVals
  simp only [onBit_succ_present g 3 _ hp]
  simp [rtGenField, rdChan, onBit_self, Nat.mod_eq_of_lt (channel_lt _)]

theorem step_5 (g : RtGen) (len : Nat) (A X : Bytes) (hp : g.present.testBit 5 = true) :
    Spec.valueStep (A ++ rtGenField g 5 ++ X) 16 (expVals g len 5) ⟨5, A.length⟩ = expVals g len (5 + 1) := by
  unfold Spec.valueStep
  simp only []
  rw [u8_mid0 A _ X (by simp [rtGenField, leBytes_length])]
  unfold expVals
  simp only [onBit_succ_present g 5 _ hp]
  simp [rtGenField, rd1, onBit_self]

theorem step_10 (g : RtGen) (len : Nat) (A X : Bytes) (hp : g.present.testBit 10 = true) :
    Spec.valueStep (A ++ rtGenField g 10 ++ X) 16 (expVals g len 10) ⟨10, A.length⟩ = expVals g len (10 + 1) := by
  unfold Spec.valueStep
  simp only []
  rw [u8_mid0 A _ X (by simp [rtGenField, leBytes_length])]
  unfold expVals
  simp only [onBit_succ_present g 10 _ hp]
  simp [rtGenField, rd1, onBit_self]

theorem step_14 (g : RtGen) (len : Nat) (A X : Bytes) (hp : g.present.testBit 14 = true) :
    Spec.valueStep (A ++ rtGenField g 14 ++ X) 16 (expVals g len 14) ⟨14, A.length⟩ = expVals g len (14 + 1) := by
  unfold Spec.valueStep
  simp only []
  rw [u16_mid0 A _ X (by simp [rtGenField, leBytes_length])]
  unfold expVals
  simp only [onBit_succ_present g 14 _ hp]
  simp [rtGenField, rd2, onBit_self]

theorem step_15 (g : RtGen) (len : Nat) (A X : Bytes) (hp : g.present.testBit 15 = true) :
    Spec.valueStep (A ++ rtGenField g 15 ++ X) 16 (expVals g len 15) ⟨15, A.length⟩ = expVals g len (15 + 1) := by
  unfold Spec.valueStep
  simp only []
  rw [u16_mid0 A _ X (by simp [rtGenField, leBytes_length])]
  unfold expVals
  simp only [onBit_succ_present g 15 _ hp]
  simp [rtGenField, rd2, onBit_self]

theorem step_16 (g : RtGen) (len : Nat) (A X : Bytes) (hp : g.present.testBit 16 = true) :
    Spec.valueStep (A ++ rtGenField g 16 ++ X) 16 (expVals g len 16) ⟨16, A.length⟩ = expVals g len (16 + 1) := by
  unfold Spec.valueStep
  simp only []
  rw [u8_mid0 A _ X (by simp [rtGenField, leBytes_length])]
  unfold expVals
  simp only [onBit_succ_present g 16 _ hp]
  simp [rtGenField, rd1, onBit_self]

theorem step_17 (g : RtGen) (len : Nat) (A X : Bytes) (hp : g.present.testBit 17 = true) :
    Spec.valueStep (A ++ rtGenField g 17 ++ X) 16 (expVals g len 17) ⟨17, A.length⟩ = expVals g len (17 + 1) := by
  unfold Spec.valueStep
  simp only []
  rw [u8_mid0 A _ X (by simp [rtGenField, leBytes_length])]
  unfold expVals
  simp only [onBit_succ_present g 17 _ hp]
  simp [rtGenField, rd1, onBit_self]

theorem step_19 (g : RtGen) (len : Nat) (A X : Bytes) (hp : g.present.testBit 19 = true) :
    Spec.valueStep (A ++ rtGenField g 19 ++ X) 16 (expVals g len 19) ⟨19, A.length⟩ = expVals g len (19 + 1) := by
  unfold Spec.valueStep
  simp only []
  rw [u8_mid0 A _ X (by simp [rtGenField, leBytes_length]), u8_mid A _ X 1 (by simp [rtGenField, leBytes_length]), u8_mid A _ X 2 (by simp [rtGenField, leBytes_length])]
  unfold expVals
  simp only [onBit_succ_present g 19 _ hp]
  simp [rtGenField, onBit_self]
  simpa only [List.append_assoc] using rdMcs g.mcsKnown g.mcsFlags g.mcsMcs

theorem step_22 (g : RtGen) (len : Nat) (A X : Bytes) (hp : g.present.testBit 22 = true) :
    Spec.valueStep (A ++ rtGenField g 22 ++ X) 16 (expVals g len 22) ⟨22, A.length⟩ = expVals g len (22 + 1) := by
  unfold Spec.valueStep
  simp only []
  rw [u64_mid0 A _ X (by simp [rtGenField, leBytes_length]), u16_mid A _ X 8 (by simp [rtGenField, leBytes_length]), u8_mid A _ X 10 (by simp [rtGenField, leBytes_length]), u8_mid A _ X 11 (by simp [rtGenField, leBytes_length])]
  unfold expVals
  simp only [onBit_succ_present g 22 _ hp]
  simp [rtGenField, onBit_self]
  simpa only [List.append_assoc, Nat.reducePow] using rdTs g.tsTimestamp g.tsAccuracy g.tsUnit g.tsFlags


/-- what the walk needs to know about a carried field -/
theorem carried_facts (g : RtGen) (k : Nat) (hk : k ∈ Spec.carried) (hp : g.present.testBit k = true) :
    (k < Gen.rtapNBits ∧ rtAlign k ≠ 0) ∧ (rtGenField g k).length = rtSize k ∧
      ∀ (len : Nat) (A X : Bytes),
        Spec.valueStep (A ++ rtGenField g k ++ X) 16 (expVals g len k) ⟨k, A.length⟩ = expVals g len (k + 1) := by
  obtain ⟨s1, s2, s3, s5, s10, s11, s14, s15, s16, s17, s19, s22⟩ := rtSize_handled
  simp only [Spec.carried, List.mem_cons, List.mem_nil_iff, or_false] at hk
  rcases hk with rfl | rfl | rfl | rfl | rfl | rfl | rfl | rfl | rfl | rfl | rfl
  · exact ⟨by decide, by rw [s1]; simp [rtGenField, leBytes_length], fun len A X => step_1 g len A X hp⟩
  · exact ⟨by decide, by rw [s2]; simp [rtGenField, leBytes_length], fun len A X => step_2 g len A X hp⟩
  · exact ⟨by decide, by rw [s3]; simp [rtGenField, leBytes_length], fun len A X => step_3 g len A X hp⟩
  · exact ⟨by decide, by rw [s5]; simp [rtGenField, leBytes_length], fun len A X => step_5 g len A X hp⟩
  · exact ⟨by decide, by rw [s10]; simp [rtGenField, leBytes_length], fun len A X => step_10 g len A X hp⟩
  · exact ⟨by decide, by rw [s14]; simp [rtGenField, leBytes_length], fun len A X => step_14 g len A X hp⟩
  · exact ⟨by decide, by rw [s15]; simp [rtGenField, leBytes_length], fun len A X => step_15 g len A X hp⟩
  · exact ⟨by decide, by rw [s16]; simp [rtGenField, leBytes_length], fun len A X => step_16 g len A X hp⟩
  · exact ⟨by decide, by rw [s17]; simp [rtGenField, leBytes_length], fun len A X => step_17 g len A X hp⟩
  · exact ⟨by decide, by rw [s19]; simp [rtGenField, leBytes_length], fun len A X => step_19 g len A X hp⟩
  · exact ⟨by decide, by rw [s22]; simp [rtGenField, leBytes_length], fun len A X => step_22 g len A X hp⟩

theorem encStep_absent (g : RtGen) (acc : Bytes) (b : Nat) (h : g.present.testBit b = false) :
    encStep (C10.descOf g) acc b = acc := by
  unfold encStep specStep C10.descOf
  simp [h]

theorem encStep_present (g : RtGen) (acc : Bytes) (b : Nat) (h : g.present.testBit b = true)
    (hdef : b < Gen.rtapNBits ∧ rtAlign b ≠ 0) :
    encStep (C10.descOf g) acc b =
      acc ++ List.replicate (Spec.alignUp (8 + acc.length) (rtAlign b) - (8 + acc.length)) 0 ++ rtGenField g b := by
  unfold encStep specStep C10.descOf
  rw [if_pos hdef]
  simp [h]

/-- the Spec's walk over the encoder's output, with the values folded in: every selected field is found
where the encoder put it and reads back its value -/
theorem enc_walk (g : RtGen) (hc : C10.OnlyCarried g) (E H : Bytes) (hH : H.length = 8) :
    ∀ (n b : Nat) (acc : Bytes) (fs : List Spec.RtField),
      b + n = 29 → encBits (C10.descOf g) n b acc = E →
      fs.foldl (Spec.valueStep (H ++ E) 16) (expVals g (8 + E.length) 0) = expVals g (8 + E.length) b →
      (Spec.placeBits (8 + E.length) g.present n b ⟨8 + acc.length, .radiotap, 0, fs, false, false⟩).fields.foldl
        (Spec.valueStep (H ++ E) 16) (expVals g (8 + E.length) 0) = expVals g (8 + E.length) 29 := by
  intro n
  induction n with
  | zero =>
    intro b acc fs hb _ hfs
    have : b = 29 := by omega
    subst this
    exact hfs
  | succ n ih =>
    intro b acc fs hb henc hfs
    rw [encBits] at henc
    by_cases hp : g.present.testBit b = true
    · obtain ⟨hdef, hlen, hstep⟩ := carried_facts g b (hc b hp) hp
      have hpre := encBits_prefix (C10.descOf g) n (b + 1) (encStep (C10.descOf g) acc b)
      rw [henc, encStep_present g acc b hp hdef] at hpre
      rw [encStep_present g acc b hp hdef] at henc
      obtain ⟨X, hX⟩ := hpre
      have hge := alignUp_ge (8 + acc.length) (rtAlign b) (Nat.pos_of_ne_zero hdef.2)
      have hEl : E.length = acc.length + (Spec.alignUp (8 + acc.length) (rtAlign b) - (8 + acc.length)) + rtSize b + X.length := by
        rw [← hX]; simp only [List.length_append, List.length_replicate, hlen]
      rw [placeBits_rt _ _ _ _ _ hp rfl rfl rfl]
      simp only [Nat.zero_add]
      rw [if_pos hdef, if_neg (by omega)]
      have hoff : Spec.alignUp (8 + acc.length) (rtAlign b) + rtSize b =
          8 + (acc ++ List.replicate (Spec.alignUp (8 + acc.length) (rtAlign b) - (8 + acc.length)) 0 ++ rtGenField g b).length := by
        simp only [List.length_append, List.length_replicate, hlen]; omega
      rw [hoff]
      refine ih (b + 1) _ _ (by omega) henc ?_
      rw [List.foldl_append, hfs, List.foldl_cons, List.foldl_nil]
      have hA : (H ++ acc ++ List.replicate (Spec.alignUp (8 + acc.length) (rtAlign b) - (8 + acc.length)) 0).length =
          Spec.alignUp (8 + acc.length) (rtAlign b) := by
        simp only [List.length_append, List.length_replicate, hH]; omega
      have hE : H ++ E = (H ++ acc ++ List.replicate (Spec.alignUp (8 + acc.length) (rtAlign b) - (8 + acc.length)) 0) ++
          rtGenField g b ++ X := by
        rw [← hX]; simp only [List.append_assoc]
      have hs := hstep (8 + E.length)
        (H ++ acc ++ List.replicate (Spec.alignUp (8 + acc.length) (rtAlign b) - (8 + acc.length)) 0) X
      rw [hA] at hs
      rw [hE]
      exact hs
    · have hp' : g.present.testBit b = false := by simpa using hp
      rw [encStep_absent g acc b hp'] at henc
      rw [placeBits_absent _ _ _ _ _ hp' rfl rfl]
      exact ih (b + 1) acc fs (by omega) henc (by rw [expVals_absent g _ b hp']; exact hfs)


theorem walkWord_fields (bs : Bytes) (itLen w : Nat) (st : Spec.Walk) :
    (Spec.walkWord bs itLen w st).fields = (Spec.placeBits itLen w 29 0 st).fields := by
  unfold Spec.walkWord
  simp only []
  repeat' split
  all_goals rfl

/-- `Spec.rtFields` on a well-formed header with a single present word -/
theorem rtFields_single (bs : Bytes) (h8 : 8 ≤ bs.length) (hv : Spec.u8 bs 0 = 0) (hl8 : 8 ≤ Spec.u16 bs 2)
    (hl : Spec.u16 bs 2 ≤ bs.length) (h255 : Spec.u16 bs 2 ≤ 255) (h31 : (Spec.u32 bs 4).testBit 31 = false) :
    Spec.rtFields bs = some (Spec.u16 bs 2,
      (Spec.placeBits (Spec.u16 bs 2) (Spec.u32 bs 4) 29 0 ⟨8, .radiotap, 0, [], false, false⟩).fields) := by
  unfold Spec.rtFields
  rw [if_neg (by omega)]
  simp only []
  rw [if_neg (by omega), Spec.presentWords, if_neg (by omega)]
  simp only [h31, Bool.false_eq_true, if_false, List.foldl_cons, List.foldl_nil, walkWord_fields, List.length_cons,
    List.length_nil]

theorem present_lt (g : RtGen) (hc : C10.OnlyCarried g) : g.present < 2 ^ 23 := by
  apply Nat.lt_pow_two_of_testBit
  intro i hi
  cases h : g.present.testBit i with
  | false => rfl
  | true =>
    have := hc i h
    simp only [Spec.carried, List.mem_cons, List.mem_nil_iff, or_false] at this
    omega

theorem u32_mid0 (A V X : Bytes) (h : 3 < V.length) : Spec.u32 (A ++ V ++ X) A.length = Spec.u32 V 0 := by
  unfold Spec.u32
  rw [u16_mid0 A V X (by omega), u16_mid A V X 2 (by omega)]

theorem rd4 (x : Nat) : Spec.u32 (leBytes 4 x) 0 = x % 2 ^ 32 := by
  simp [leBytes, Spec.u32, Spec.u16, Spec.u8]; omega

/-- the size of the Spec encoder's body for a description of carried fields -/
theorem encBody_le (g : RtGen) (ha : g.antennaCount ≤ 16) :
    (encBits (C10.descOf g) 29 0 []).length ≤ 120 := by
  rw [← encBits_table]
  have hw := C10.table_worst g ha
  generalize hT : Spec.rtTable = T at hw ⊢
  have hT' : ∀ e ∈ T, e ∈ Spec.rtTable := by rw [hT]; exact fun e he => he
  have hcap : ([] : Bytes).length + ((T.map (·.1)).map (rtWorst g)).sum ≤ rtStagingCap := by
    rw [List.length_nil, Nat.zero_add]; exact hw
  obtain ⟨out, h1, h2⟩ := rtGenLoop_ok g (T.map (·.1)) [] hcap
  rw [rtGenLoop_spec g T hT' [] hcap] at h1
  have hout := Outcome.ok.inj h1
  have h120 : rtStagingCap = 120 := by decide
  rw [List.length_nil, Nat.zero_add, ← hout] at h2
  rw [h120] at hw
  exact Nat.le_trans h2 hw


/-- the values the parser must give back for the header generated from `g` (of total length `len`):
every selected carried field has its supplied value reduced to the field's width, every other value is 0;
band and channel number follow from the frequency -/
def roundtripValues (g : RtGen) (len : Nat) : Spec.RtValues :=
  { length := len,
    flags := if g.present.testBit 1 then g.flags % 256 else 0,
    rateRaw := if g.present.testBit 2 then g.rateRaw % 256 else 0,
    chanFreq := if g.present.testBit 3 then g.chanFreq % 65536 else 0,
    chanFlags := if g.present.testBit 3 then g.chanFlags % 65536 else 0,
    chanBand := if g.present.testBit 3 then (Spec.channelOf (g.chanFreq % 65536)).1 else 0,
    chanCenter := if g.present.testBit 3 then
        (if (Spec.channelOf (g.chanFreq % 65536)).1 = 0 then 0 else (Spec.channelOf (g.chanFreq % 65536)).2)
      else 0,
    signal := if g.present.testBit 5 then g.signal % 256 else 0,
    antennas := [],
    txPower := if g.present.testBit 10 then g.txPower % 256 else 0,
    rxFlags := if g.present.testBit 14 then g.rxFlags % 65536 else 0,
    txFlags := if g.present.testBit 15 then g.txFlags % 65536 else 0,
    rtsRetries := if g.present.testBit 16 then g.rtsRetries % 256 else 0,
    dataRetries := if g.present.testBit 17 then g.dataRetries % 256 else 0,
    mcs := if g.present.testBit 19 then (g.mcsKnown % 256, g.mcsFlags % 256, g.mcsMcs % 256) else (0, 0, 0),
    ts := if g.present.testBit 22 then (g.tsTimestamp % 2 ^ 64, g.tsAccuracy % 65536, g.tsUnit % 256, g.tsFlags % 256)
          else (0, 0, 0, 0) }

theorem expVals_final (g : RtGen) (len : Nat) : (expVals g len 29).1 = roundtripValues g len := by
  simp [expVals, onBit, roundtripValues]

theorem rtEncode_shape (g : RtGen) :
    Spec.rtEncode (C10.descOf g) =
      ([0, 0] ++ leBytes 2 (8 + (encBits (C10.descOf g) 29 0 []).length) ++ leBytes 4 g.present) ++
        encBits (C10.descOf g) 29 0 [] := by
  rw [rtEncode_body, encBits_table]; rfl

/-- **T2 / C10 (round trip)** decoding the header generated for a description of carried fields gives
back the supplied values -/
theorem C10_roundtrip (g : RtGen) (hc : C10.OnlyCarried g) (ha : g.antennaCount ≤ 16) :
    ∃ info, parseRadiotapInfo (Spec.rtEncode (C10.descOf g)) = .ok info ∧
      valuesOf info = roundtripValues g (Spec.rtEncode (C10.descOf g)).length := by
  have hE := encBody_le g ha
  have hp := present_lt g hc
  rw [rtEncode_shape]
  generalize hEdef : encBits (C10.descOf g) 29 0 [] = E at hE ⊢
  generalize hH : [0, 0] ++ leBytes 2 (8 + E.length) ++ leBytes 4 g.present = H
  have hHl : H.length = 8 := by rw [← hH]; simp [leBytes_length]
  have hlen : (H ++ E).length = 8 + E.length := by rw [List.length_append, hHl]
  have hu8 : Spec.u8 (H ++ E) 0 = 0 := by rw [← hH]; rfl
  have hu16 : Spec.u16 (H ++ E) 2 = 8 + E.length := by
    have := u16_mid0 [0, 0] (leBytes 2 (8 + E.length)) (leBytes 4 g.present ++ E) (by simp [leBytes_length])
    rw [rd2] at this
    rw [← hH]
    simp only [List.append_assoc, List.length_cons, List.length_nil] at this ⊢
    rw [this]; omega
  have hu32 : Spec.u32 (H ++ E) 4 = g.present := by
    have := u32_mid0 ([0, 0] ++ leBytes 2 (8 + E.length)) (leBytes 4 g.present) E (by simp [leBytes_length])
    rw [rd4] at this
    rw [← hH]
    simp only [List.length_append, List.length_cons, List.length_nil, leBytes_length] at this
    rw [this]; omega
  have hrt := rtFields_single (H ++ E) (by omega) hu8 (by omega) (by omega) (by omega)
    (by rw [hu32]; exact testBit_of_lt hp (by omega))
  rw [hu16, hu32] at hrt
  obtain ⟨info, h1, h2⟩ := C09_decode_full _ _ _ hrt
  refine ⟨info, h1, ?_⟩
  have hw := enc_walk g hc E H hHl 29 0 [] [] rfl hEdef rfl
  rw [h2, maxAnt, hlen, ← expVals_final]
  unfold Spec.rtValues
  rw [← expVals_zero g, ← hw]
  rfl


/-- the decode-back clause stated in `Props/C10.lean` -/
theorem C10_roundtrip_statement : C10.C10_roundtrip_statement := by
  intro g hc ha
  obtain ⟨info, h1, h2⟩ := C10_roundtrip g hc ha
  exact ⟨_, info, C10.C10_valid g hc ha, h1, congrArg Spec.RtValues.length h2⟩

/-- **C10 (round trip)**, field by field, for the bytes `createRadiotap` writes -/
theorem C10_roundtrip_fields (g : RtGen) (hc : C10.OnlyCarried g) (ha : g.antennaCount ≤ 16) :
    ∃ h info, createRadiotap g = .ok h ∧ parseRadiotapInfo h = .ok info ∧ info.length = h.length ∧
      info.flags = (if g.present.testBit 1 then g.flags % 256 else 0) ∧
      info.rateRaw = (if g.present.testBit 2 then g.rateRaw % 256 else 0) ∧
      info.chanFreq = (if g.present.testBit 3 then g.chanFreq % 65536 else 0) ∧
      info.chanFlags = (if g.present.testBit 3 then g.chanFlags % 65536 else 0) ∧
      info.chanBand = (if g.present.testBit 3 then (Spec.channelOf (g.chanFreq % 65536)).1 else 0) ∧
      info.chanCenter = (if g.present.testBit 3 then
          (if (Spec.channelOf (g.chanFreq % 65536)).1 = 0 then 0 else (Spec.channelOf (g.chanFreq % 65536)).2)
        else 0) ∧
      info.signal = (if g.present.testBit 5 then g.signal % 256 else 0) ∧
      info.antennas.take info.antennaCount = [] ∧
      info.txPower = (if g.present.testBit 10 then g.txPower % 256 else 0) ∧
      info.rxFlags = (if g.present.testBit 14 then g.rxFlags % 65536 else 0) ∧
      info.txFlags = (if g.present.testBit 15 then g.txFlags % 65536 else 0) ∧
      info.rtsRetries = (if g.present.testBit 16 then g.rtsRetries % 256 else 0) ∧
      info.dataRetries = (if g.present.testBit 17 then g.dataRetries % 256 else 0) ∧
      (info.mcsKnown, info.mcsFlags, info.mcsMcs) =
        (if g.present.testBit 19 then (g.mcsKnown % 256, g.mcsFlags % 256, g.mcsMcs % 256) else (0, 0, 0)) ∧
      (info.tsTimestamp, info.tsAccuracy, info.tsUnit, info.tsFlags) =
        (if g.present.testBit 22 then (g.tsTimestamp % 2 ^ 64, g.tsAccuracy % 65536, g.tsUnit % 256, g.tsFlags % 256)
         else (0, 0, 0, 0)) := by
  obtain ⟨info, h1, h2⟩ := C10_roundtrip g hc ha
  exact ⟨_, info, C10.C10_valid g hc ha, h1, congrArg Spec.RtValues.length h2,
    congrArg Spec.RtValues.flags h2, congrArg Spec.RtValues.rateRaw h2, congrArg Spec.RtValues.chanFreq h2,
    congrArg Spec.RtValues.chanFlags h2, congrArg Spec.RtValues.chanBand h2, congrArg Spec.RtValues.chanCenter h2,
    congrArg Spec.RtValues.signal h2, congrArg Spec.RtValues.antennas h2, congrArg Spec.RtValues.txPower h2,
    congrArg Spec.RtValues.rxFlags h2, congrArg Spec.RtValues.txFlags h2, congrArg Spec.RtValues.rtsRetries h2,
    congrArg Spec.RtValues.dataRetries h2, congrArg Spec.RtValues.mcs h2, congrArg Spec.RtValues.ts h2⟩

/-! non-vacuity of the round trip: FLAGS | TIMESTAMP -/
example : ∃ h info, createRadiotap { present := 0x400002, flags := 0x10, tsTimestamp := 0x1122334455667788 } = .ok h ∧
    parseRadiotapInfo h = .ok info ∧ info.flags = 0x10 ∧ info.tsTimestamp = 0x1122334455667788 := by
  obtain ⟨h, info, h1, h2, -, hf, -, -, -, -, -, -, -, -, -, -, -, -, -, hts⟩ :=
    C10_roundtrip_fields { present := 0x400002, flags := 0x10, tsTimestamp := 0x1122334455667788 }
      (C10.onlyCarried_of_subset _ (by decide)) (by decide)
  refine ⟨h, info, h1, h2, ?_, ?_⟩
  · rw [hf]; decide
  · have : info.tsTimestamp = _ := congrArg Prod.fst hts
    rw [this]; decide

end LWV.Props.C09Full
